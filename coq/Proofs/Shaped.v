(* The slot side condition of the render theorem (Proofs/RenderSer.v, `hok`) holds for EVERY object that is an instance of its
   class as far as Python types go (`shapedb`: nothing about validity), built by the generated constructors (`ctor_slots`).
   Hence: the program parsed from the generated text computes ser_struct on every shape-typed object, valid or not
   (`shaped_program_correct`).

   `hok` itself quantifies over more calls than any serializer makes (every case class of a switch gets the case data,
   whatever its class; a None struct field is handed to the struct's serializer): it is FALSE on valid objects as soon as a switch
   has two case classes with different length fields (`hok_refuted_*` below).  `hok1` is the same condition along the calls that
   can happen; `py_serialize_correct1` is the render theorem under `hok1`; `shaped_hok1` discharges it.  `shaped_hok` (the
   original `hok`) holds under two more static hypotheses (`narrow`), each shown necessary. *)
From EO Require Import Prelude.Py Prelude.Corr Model.Limits Model.Number Model.StringEnc Model.Cp1252 Model.Writer Model.Spec Model.Elab Model.Ser
     Model.PyStmt Model.RenderSer Model.RenderCheck Model.ValidDecl Proofs.RenderSer.
Open Scope string_scope.
Open Scope list_scope.
Open Scope Z_scope.
Set Default Timeout 60.

(* ================================================================ definitions *)
Definition is_some {A} (o : option A) : bool := match o with Some _ => true | None => false end.
Definition opt_str_eqb (a b : option string) : bool :=
  match a, b with Some x, Some y => String.eqb x y | None, None => true | _, _ => false end.
Fixpoint nodupb (l : list string) : bool := match l with [] => true | x :: t => negb (mem_str x t) && nodupb t end.

(* names of the length fields of a body; the public attributes (constructor arguments / properties) of its instances *)
Definition lnames (body : list einstr) : list string :=
  flat_map (fun i => match i with ELength n _ _ _ _ _ => [n] | _ => [] end) body.
Definition instr_keys (i : einstr) : list string :=
  match i with
  | EField f | EArray f _ _ _ => match f_name f with Some n => [n] | None => [] end
  | ESwitch fld _ => [fld; (fld ++ "_data")%string]
  | _ => []
  end.
Definition keys (body : list einstr) : list string := flat_map instr_keys body.
Definition BYTE_SIZE := "byte_size".

(* ---------------------------------------------------------------- the static hypotheses (decidable, per class body) *)
Definition field_static (body : list einstr) (f : fieldspec) (array : bool) : bool :=
  match f_name f with
  | None => true
  | Some n =>
    (* a named field / array whose length is a length field: that length field exists and refers back to this field *)
    (match f_len f with LRef lf => mem_str lf (lnames body) && opt_str_eqb (find_ref lf body) (Some n) | _ => true end) &&
    (* a struct-typed field is not hardcoded (so that None never reaches the struct's serializer) *)
    (array || match f_ty f with EStruct _ => f_optional f || negb (is_some (f_hard f)) | _ => true end)
  end.
Definition instr_static (body : list einstr) (i : einstr) : bool :=
  match i with
  | EField f => field_static body f false
  | EArray f _ _ _ => field_static body f true
  | ELength n _ _ opt of rb =>
    (* ref_by is what Model/Elab.fix_refs computes; an optional length field that is not the first optional is referenced *)
    opt_str_eqb rb (find_ref n body) && (negb (opt && negb of) || is_some rb)
  | _ => true
  end.
Definition body_static (body : list einstr) : bool :=
  nodupb (lnames body) &&
  forallb (fun n => negb (mem_str n (BYTE_SIZE :: keys body))) (lnames body) &&
  forallb (instr_static body) body.
Definition shape_static (E : env) : bool := forallb (fun d => body_static (sd_body d)) E.

(* ---------------------------------------------------------------- shape-typed objects *)
(* a value of a non-struct type: bool is a subclass of int *)
Definition scalar_ok (ty : etype) (v : value) : bool :=
  match ty, v with
  | (EInt _ | EBool _ | EEnum _ _), (VInt _ | VBool _) => true
  | EStr _, VStr _ => true
  | EBlob, VBytes _ => true
  | _, _ => false
  end.
(* Cls.serialize(writer, None) raises AttributeError before doing anything else *)
Definition first_reads (E : env) (n : string) : bool :=
  match env_find E n with
  | Some d => match sd_body d with i :: _ => reads_data_first i | [] => true end
  | None => true
  end.

Section ShapedRec.
  Variable E : env.
  Variable rec : string -> value -> bool.       (* instance of class n, one level down *)

  Definition val_shaped (ty : etype) (v : value) : bool :=
    match ty with EStruct n => rec n v | _ => scalar_ok ty v end.
  (* the constructor evaluates len(value) for a field that a length field refers to *)
  Definition lenref_ok (f : fieldspec) (v : value) : bool :=
    match f_len f with LRef _ => is_some (length_slot v) | _ => true end.
  Definition field_shaped (f : fieldspec) (v : value) : bool :=
    lenref_ok f v && (is_none v || val_shaped (f_ty f) v).
  (* an element of an array: of the element type, or None - except that an array of structs holds None only when the struct's
     serializer starts by reading its argument (see none_element_differs) *)
  Definition elem_shaped (ty : etype) (x : value) : bool :=
    val_shaped ty x || (is_none x && match ty with EStruct n => first_reads E n | _ => true end).
  Definition array_shaped (f : fieldspec) (v : value) : bool :=
    match v with VNone => true | VList elems => forallb (elem_shaped (f_ty f)) elems | _ => false end.

  Definition instr_shaped (flds : list (string * value)) (i : einstr) : bool :=
    match i with
    | EField f =>
      match f_name f with
      | None => true
      | Some n => match assoc flds n with Some v => field_shaped f v | None => false end
      end
    | EArray f _ _ _ =>
      match f_name f with
      | None => true
      | Some n => match assoc flds n with Some v => array_shaped f v | None => false end
      end
    | ESwitch fld cases =>
      is_some (assoc flds fld) &&
      match assoc flds (fld ++ "_data")%string with
      | Some dv => is_none dv || existsb (fun c => match c_cls c with Some cls => rec cls dv | None => false end) cases
      | None => false
      end
    | _ => true
    end.
End ShapedRec.

(* v is an instance of class cls, as far as Python types go; fuel bounds the nesting depth as in ser_struct / valid_decl *)
Fixpoint shapedb (fuel : nat) (E : env) (cls : string) (v : value) : bool :=
  match fuel with
  | O => false
  | S f =>
    match env_find E cls, v with
    | Some d, VObj c flds =>
      String.eqb c cls &&
      nodupb (map fst flds) &&
      forallb (fun kv => mem_str (fst kv) (BYTE_SIZE :: keys (sd_body d))) flds &&
      forallb (instr_shaped E (shapedb f E) flds) (sd_body d)
    | _, _ => false
    end
  end.

(* more fuel never hurts *)
Lemma shapedb_S f E cls v :
  shapedb (S f) E cls v =
  match env_find E cls, v with
  | Some d, VObj c flds =>
    String.eqb c cls && nodupb (map fst flds) &&
    forallb (fun kv => mem_str (fst kv) (BYTE_SIZE :: keys (sd_body d))) flds &&
    forallb (instr_shaped E (shapedb f E) flds) (sd_body d)
  | _, _ => false
  end.
Proof. reflexivity. Qed.

Lemma instr_shaped_mono E (r1 r2 : string -> value -> bool) flds i :
  (forall n v, r1 n v = true -> r2 n v = true) -> instr_shaped E r1 flds i = true -> instr_shaped E r2 flds i = true.
Proof.
  intros H. assert (Hv : forall ty v, val_shaped r1 ty v = true -> val_shaped r2 ty v = true) by (intros [] v; cbn; auto).
  destruct i as [f|f d t c| | |field cases| |]; cbn [instr_shaped]; auto.
  - destruct (f_name f) as [n|]; auto. destruct (assoc flds n) as [v|]; auto. unfold field_shaped. intro Hx.
    apply andb_true_iff in Hx as [H1 H2]. rewrite H1. cbn [andb].
    apply orb_true_iff in H2 as [H2|H2]; [rewrite H2; reflexivity | rewrite (Hv _ _ H2); apply orb_true_r].
  - destruct (f_name f) as [n|]; auto. destruct (assoc flds n) as [v|]; auto. unfold array_shaped. destruct v; auto.
    rewrite !forallb_forall. intros Hx x Hin. specialize (Hx x Hin). unfold elem_shaped in *.
    apply orb_true_iff in Hx as [Hx|Hx]; [rewrite (Hv _ _ Hx); reflexivity | rewrite Hx; apply orb_true_r].
  - intro Hx. apply andb_true_iff in Hx as [H1 H2]. rewrite H1. cbn [andb]. destruct (assoc flds (field ++ "_data")%string) as [dv|]; auto.
    apply orb_true_iff in H2 as [H2|H2]; [rewrite H2; reflexivity|]. apply orb_true_iff; right.
    apply existsb_exists in H2 as [c [Hc H2]]. apply existsb_exists. exists c. split; auto. destruct (c_cls c); auto.
Qed.

Lemma shapedb_mono : forall f E cls v, shapedb f E cls v = true -> shapedb (S f) E cls v = true.
Proof.
  induction f as [|f IH]; intros E cls v H; [discriminate H|]. rewrite shapedb_S in H |- *.
  destruct (env_find E cls) as [d|]; auto. destruct v as [| | | | | |c flds]; auto.
  apply andb_true_iff in H as [H1 H2]. rewrite H1. cbn [andb]. rewrite forallb_forall in *. intros i Hi.
  apply (instr_shaped_mono E (shapedb f E)); auto.
Qed.

(* ================================================================ lists *)
Lemma mem_str_In x l : mem_str x l = true <-> In x l.
Proof.
  induction l as [|y l IH]; cbn [mem_str In]; [split; [discriminate | tauto]|].
  rewrite orb_true_iff, IH, String.eqb_eq. split; intros [H|H]; auto.
Qed.
Lemma mem_str_nIn x l : mem_str x l = false <-> ~ In x l.
Proof. rewrite <- mem_str_In. destruct (mem_str x l); split; congruence. Qed.
Lemma nodupb_NoDup l : nodupb l = true -> NoDup l.
Proof.
  induction l as [|x l IH]; cbn [nodupb]; [constructor|]. intro H. apply andb_true_iff in H as [H1 H2].
  constructor; [apply mem_str_nIn, negb_true_iff, H1 | apply IH, H2].
Qed.
Lemma assoc_app {A} (a b : list (string * A)) k :
  assoc (a ++ b) k = match assoc a k with Some v => Some v | None => assoc b k end.
Proof.
  induction a as [|[k0 v0] a IH]; [reflexivity|]. cbn [app assoc]. destruct (String.eqb k0 k); [reflexivity | exact IH].
Qed.
Lemma opt_str_eqb_eq a b : opt_str_eqb a b = true -> a = b.
Proof. destruct a, b; cbn; try discriminate; try reflexivity. intro H. apply String.eqb_eq in H. congruence. Qed.

Lemma in_keys body i k : In i body -> In k (instr_keys i) -> In k (keys body).
Proof. intros Hi Hk. apply in_flat_map. exists i. split; assumption. Qed.
Lemma in_lnames body n t off o f rb : In (ELength n t off o f rb) body -> In n (lnames body).
Proof. intro Hi. apply in_flat_map. eexists. split; [exact Hi | left; reflexivity]. Qed.
Lemma lnames_in body n : In n (lnames body) -> exists t off o f rb, In (ELength n t off o f rb) body.
Proof.
  intro H. apply in_flat_map in H as [i [Hi Hn]]. destruct i; try (destruct Hn; fail). destruct Hn as [Hn|[]]. subst. eauto 8.
Qed.

(* find_ref answers the name of a named field / array of the body whose length is that length field *)
Lemma find_ref_spec n body fr :
  find_ref n body = Some fr ->
  exists f, (In (EField f) body \/ exists d t c, In (EArray f d t c) body) /\ f_name f = Some fr /\ f_len f = LRef n.
Proof.
  induction body as [|i body IH]; cbn [find_ref]; [discriminate|].
  assert (Hrest : find_ref n body = Some fr ->
                  exists f, (In (EField f) (i :: body) \/ exists d t c, In (EArray f d t c) (i :: body)) /\ f_name f = Some fr /\ f_len f = LRef n).
  { intro H. destruct (IH H) as [f [[Hf | [d [t [c Hf]]]] Hx]]; exists f; (split; [|exact Hx]); [left; right; exact Hf | right; exists d, t, c; right; exact Hf]. }
  destruct i as [f|f d t c| | | | |]; try exact Hrest.
  - destruct (f_len f) as [| |l] eqn:El; try exact Hrest. destruct (f_name f) as [m|] eqn:En; try exact Hrest.
    destruct (String.eqb l n) eqn:Eq; [|exact Hrest]. apply String.eqb_eq in Eq. subst l. intro H; inversion H; subst m.
    exists f. split; [left; left; reflexivity | split; assumption].
  - destruct (f_len f) as [| |l] eqn:El; try exact Hrest. destruct (f_name f) as [m|] eqn:En; try exact Hrest.
    destruct (String.eqb l n) eqn:Eq; [|exact Hrest]. apply String.eqb_eq in Eq. subst l. intro H; inversion H; subst m.
    exists f. split; [right; exists d, t, c; left; reflexivity | split; assumption].
Qed.

(* ---------------------------------------------------------------- the length slots the constructor assigns *)
Definition slot_of (flds : list (string * value)) (rb : option string) : option value :=
  match rb with
  | Some fr => match assoc flds fr with Some fv => length_slot fv | None => None end
  | None => None
  end.

Lemma len_slots_notin body flds n : ~ In n (lnames body) -> assoc (len_slots body flds) n = None.
Proof.
  induction body as [|i body IH]; [reflexivity|]. unfold len_slots, lnames. cbn [flat_map]. fold (len_slots body flds). fold (lnames body).
  intro Hn. rewrite assoc_app, IH by (intro H; apply Hn, in_or_app; right; exact H).
  destruct i as [| |m t off o f rb| | | |]; try reflexivity.
  assert (Hm : m <> n) by (intro; subst; apply Hn, in_or_app; left; left; reflexivity).
  destruct rb as [fr|]; [|reflexivity]. destruct (assoc flds fr) as [fv|]; [|reflexivity]. destruct (length_slot fv); [|reflexivity].
  cbn [assoc]. destruct (String.eqb m n) eqn:E; [apply String.eqb_eq in E; contradiction | reflexivity].
Qed.

Lemma len_slots_in body flds n t off o f rb :
  NoDup (lnames body) -> In (ELength n t off o f rb) body -> assoc (len_slots body flds) n = slot_of flds rb.
Proof.
  induction body as [|i body IH]; intros Hnd Hi; [destruct Hi|].
  unfold len_slots, lnames in *. cbn [flat_map] in *. fold (len_slots body flds). fold (lnames body) in *.
  rewrite assoc_app. destruct Hi as [Hi|Hi].
  - subst i. cbn [app] in Hnd. inversion Hnd as [|x l Hx Hnd']; subst.
    unfold slot_of. destruct rb as [fr|]; [|apply len_slots_notin, Hx]. destruct (assoc flds fr) as [fv|]; [|apply len_slots_notin, Hx].
    destruct (length_slot fv); [|apply len_slots_notin, Hx]. cbn [assoc]. rewrite String.eqb_refl. reflexivity.
  - assert (Hn : In n (lnames body)) by (eapply in_lnames; exact Hi).
    destruct i as [| |m t' off' o' f' rb'| | | |]; try (cbn [app] in Hnd; cbn [assoc]; apply IH; assumption).
    cbn [app] in Hnd. inversion Hnd as [|x l Hx Hnd']; subst.
    assert (Hm : String.eqb m n = false) by (apply String.eqb_neq; intro; subst; contradiction).
    destruct rb' as [fr|]; [|apply IH; assumption]. destruct (assoc flds fr) as [fv|]; [|apply IH; assumption].
    destruct (length_slot fv); [|apply IH; assumption]. cbn [assoc]. rewrite Hm. apply IH; assumption.
Qed.

(* ================================================================ the slot conditions of one object *)
Section Slots.
  Variable E : env.
  Variable rec : string -> value -> bool.
  Variable body : list einstr.
  Variable flds : list (string * value).
  Hypothesis Hstat : body_static body = true.
  Hypothesis Hkeys : forallb (fun kv => mem_str (fst kv) (BYTE_SIZE :: keys body)) flds = true.
  Hypothesis Hsh : forallb (instr_shaped E rec flds) body = true.

  Let data := flds ++ len_slots body flds.

  Lemma static_parts :
    NoDup (lnames body) /\ (forall n, In n (lnames body) -> ~ In n (BYTE_SIZE :: keys body)) /\
    (forall i, In i body -> instr_static body i = true).
  Proof.
    unfold body_static in Hstat. apply andb_true_iff in Hstat as [H12 H3]. apply andb_true_iff in H12 as [H1 H2].
    split; [apply nodupb_NoDup, H1|]. split.
    - intros n Hn. rewrite forallb_forall in H2. apply mem_str_nIn, negb_true_iff, H2, Hn.
    - rewrite forallb_forall in H3. exact H3.
  Qed.

  Lemma lname_unbound n : In n (lnames body) -> assoc flds n = None.
  Proof.
    intro Hn. destruct (assoc flds n) as [v|] eqn:Ea; [|reflexivity]. exfalso. apply assoc_in in Ea.
    rewrite forallb_forall in Hkeys. specialize (Hkeys _ Ea). cbn [fst] in Hkeys. apply mem_str_In in Hkeys.
    destruct static_parts as [_ [H _]]. exact (H n Hn Hkeys).
  Qed.

  Lemma data_lname n t off o f rb : In (ELength n t off o f rb) body -> assoc data n = slot_of flds rb.
  Proof.
    intro Hi. unfold data. rewrite assoc_app, lname_unbound by (eapply in_lnames; exact Hi).
    eapply len_slots_in; [apply static_parts | exact Hi].
  Qed.

  Lemma data_key k v : assoc flds k = Some v -> assoc data k = Some v.
  Proof. intro H. unfold data. rewrite assoc_app, H. reflexivity. Qed.

  Lemma shaped_at i : In i body -> instr_shaped E rec flds i = true.
  Proof. rewrite forallb_forall in Hsh. apply Hsh. Qed.

  (* the field a length field refers to is bound, to something that has a len() or to None *)
  Lemma ref_slot n fr : find_ref n body = Some fr -> exists fv sv, assoc flds fr = Some fv /\ length_slot fv = Some sv.
  Proof.
    intro Hf. destruct (find_ref_spec n body fr Hf) as [f [[Hi | [d [t [c Hi]]]] [Hn Hl]]]; pose proof (shaped_at _ Hi) as Hs; cbn [instr_shaped] in Hs; rewrite Hn in Hs.
    - destruct (assoc flds fr) as [v|]; [|discriminate Hs]. unfold field_shaped, lenref_ok in Hs. rewrite Hl in Hs.
      apply andb_true_iff in Hs as [Hs _]. destruct (length_slot v) as [sv|] eqn:Esv; [eauto | discriminate Hs].
    - destruct (assoc flds fr) as [v|]; [|discriminate Hs]. unfold array_shaped in Hs.
      destruct v; try discriminate Hs; eexists; eexists; (split; [reflexivity|]); reflexivity.
  Qed.

  Lemma lenref_slot lf n v l :
    mem_str lf (lnames body) && opt_str_eqb (find_ref lf body) (Some n) = true ->
    assoc flds n = Some v -> py_len v = Some l -> assoc data lf = Some (VInt l).
  Proof.
    intros Hst Hv Hl. apply andb_true_iff in Hst as [Hm Hr]. apply mem_str_In in Hm. apply opt_str_eqb_eq in Hr.
    destruct (lnames_in body lf Hm) as [t [off [o [f [rb Hi]]]]].
    rewrite (data_lname _ _ _ _ _ _ Hi).
    destruct static_parts as [_ [_ Hall]]. specialize (Hall _ Hi). cbn [instr_static] in Hall.
    apply andb_true_iff in Hall as [Hrb _]. apply opt_str_eqb_eq in Hrb. rewrite Hrb, Hr. cbn [slot_of]. rewrite Hv.
    unfold length_slot. rewrite Hl. reflexivity.
  Qed.

  Lemma scalar_not_text ty v : is_none v || scalar_ok ty v = true -> (forall n, ty <> EStruct n) -> (forall e, ty <> EStr e) -> ty <> EBlob -> is_text v = false.
  Proof. intros H H1 H2 H3. destruct ty; try (exfalso; eauto; fail); try congruence; destruct v; try reflexivity; discriminate H. Qed.

  Theorem shaped_slots_ok : Forall (instr_slots_ok flds data) body.
  Proof.
    apply Forall_forall. intros i Hi. pose proof (shaped_at i Hi) as Hs.
    destruct static_parts as [_ [_ Hall]]. pose proof (Hall i Hi) as Hst. clear Hall.
    destruct i as [f|f d t c|name t off optional opt_first ref_by|ty lit guarded|field cases|b|]; cbn [instr_slots_ok]; try exact I.
    - (* field *)
      unfold field_slots_ok. cbn [instr_shaped instr_static] in Hs, Hst. unfold field_static in Hst.
      destruct (f_name f) as [n|]; [|exact I]. destruct (assoc flds n) as [v|] eqn:Ev; [|discriminate Hs].
      split; [apply data_key, Ev|]. split; [discriminate|]. intros v' Hv'. inversion Hv'; subst v'; clear Hv'.
      apply andb_true_iff in Hst as [Hlen _]. unfold field_shaped in Hs. apply andb_true_iff in Hs as [_ Hty]. split.
      + destruct (f_len f) as [| |lf]; try exact I. cbn [orb]. destruct (f_ty f); try exact I. intros l Hl. eapply lenref_slot; eassumption.
      + unfold elem_ok. destruct (f_ty f) eqn:Ety; try exact I. unfold val_shaped in Hty. destruct v; try reflexivity; discriminate Hty.
    - (* array *)
      unfold field_slots_ok. cbn [instr_shaped instr_static] in Hs, Hst. unfold field_static in Hst.
      destruct (f_name f) as [n|]; [|exact I]. destruct (assoc flds n) as [v|] eqn:Ev; [|discriminate Hs].
      split; [apply data_key, Ev|]. split; [discriminate|]. intros v' Hv'. inversion Hv'; subst v'; clear Hv'.
      apply andb_true_iff in Hst as [Hlen _]. unfold array_shaped in Hs. split.
      + destruct (f_len f) as [| |lf]; try exact I. cbn [orb]. intros l Hl. eapply lenref_slot; eassumption.
      + split; [destruct v; try reflexivity; discriminate Hs|]. intros elems ->. rewrite forallb_forall in Hs. apply Forall_forall. intros x Hx.
        specialize (Hs x Hx). unfold elem_ok. destruct (f_ty f) eqn:Ety; try exact I. unfold elem_shaped, val_shaped in Hs.
        destruct x; try reflexivity; discriminate Hs.
    - (* length field *)
      cbn [instr_static] in Hst. apply andb_true_iff in Hst as [Hrb Hopt]. apply opt_str_eqb_eq in Hrb.
      rewrite (data_lname _ _ _ _ _ _ Hi). split.
      + destruct ref_by as [fr|]; [|reflexivity]. cbn [slot_of]. symmetry in Hrb. destruct (ref_slot _ _ Hrb) as [fv [sv [Hfv Hsv]]].
        rewrite Hfv, Hsv. reflexivity.
      + intro Ho. rewrite Ho in Hopt. cbn [negb orb] in Hopt. destruct ref_by as [fr|]; [|discriminate Hopt].
        symmetry in Hrb. destruct (ref_slot _ _ Hrb) as [fv [sv [Hfv Hsv]]]. cbn [slot_of]. rewrite Hfv, Hsv. discriminate.
    - (* switch *)
      cbn [instr_shaped] in Hs. apply andb_true_iff in Hs as [Hf Hd].
      destruct (assoc flds field) as [fv|] eqn:Efv; [|discriminate Hf].
      destruct (assoc flds (field ++ "_data")%string) as [dv|] eqn:Edv; [|discriminate Hd].
      split; [rewrite (data_key _ _ Efv); reflexivity|]. split; [rewrite (data_key _ _ Edv); reflexivity | discriminate].
  Qed.
End Slots.

(* ================================================================ the calls a serializer can make *)
(* instr_calls of Proofs/RenderSer.v lists (cls, case data) for EVERY case class of a switch and (struct, None) for a None
   struct field; the statements `if not isinstance(data._k_data, Cls): raise`, `if data._f is None: raise` and the optional guard
   stop before such a call.  calls1 keeps the calls that are not excluded that way. *)
Definition calls1 (flds : list (string * value)) (i : einstr) : list (string * value) :=
  match i with
  | EField f =>
    match f_ty f, f_name f with
    | EStruct n, Some name =>
      match assoc flds name with
      | Some v => if is_none v && (f_optional f || negb (is_some (f_hard f))) then [] else [(n, v)]
      | None => []
      end
    | _, _ => []
    end
  | EArray f _ _ _ =>
    match f_ty f, f_name f with
    | EStruct n, Some name => match assoc flds name with Some (VList elems) => map (fun x => (n, x)) elems | _ => [] end
    | _, _ => []
    end
  | ESwitch field cases =>
    match assoc flds (field ++ "_data")%string with
    | Some dv => flat_map (fun c => match c_cls c, obj_class dv with
                                    | Some cls, Some c' => if String.eqb c' cls then [(cls, dv)] else []
                                    | _, _ => []
                                    end) cases
    | None => []
    end
  | _ => []
  end.

Lemma calls1_incl flds i : incl (calls1 flds i) (instr_calls flds i).
Proof.
  intros p Hp. destruct i as [f|f d t c| | |field cases| |]; cbn [calls1 instr_calls] in *; try exact Hp.
  - destruct (f_ty f); try exact Hp. destruct (f_name f) as [nm|]; try exact Hp. destruct (assoc flds nm) as [v|]; try exact Hp.
    destruct (is_none v && _); [destruct Hp | exact Hp].
  - destruct (assoc flds (field ++ "_data")%string) as [dv|]; [|exact Hp].
    apply in_flat_map in Hp as [c [Hc Hp]]. apply in_flat_map. exists c. split; [exact Hc|].
    destruct (c_cls c) as [cls|]; [|exact Hp]. destruct (obj_class dv) as [c'|]; [|destruct Hp]. destruct (String.eqb c' cls); [exact Hp | destruct Hp].
Qed.

Section Congr1.
  Variable rec1 rec2 : string -> value -> wstate -> wres.

  Lemma ser_instr_congr1 flds old i rmo w :
    (forall p w0, In p (calls1 flds i) -> rec1 (fst p) (snd p) w0 = rec2 (fst p) (snd p) w0) ->
    ser_instr rec1 flds old i rmo w = ser_instr rec2 flds old i rmo w.
  Proof.
    intro H. destruct i as [f|f d t c|name t off optional opt_first ref_by|ty lit guarded|field cases|b|].
    - (* field: a None value stops at the optional guard or at the None check *)
      cbn [ser_instr]. unfold ser_field. cbn [calls1] in H. destruct (f_name f) as [n|].
      + destruct (assoc flds n) as [v|]; [|reflexivity].
        destruct (opt_guard (f_optional f) (f_opt_first f) rmo v) as [rmo1 go] eqn:Eg. destruct (negb go) eqn:Ego; [reflexivity|].
        destruct (negb (f_optional f) && _ && is_none v) eqn:Eh; [reflexivity|]. destruct (len_check f v); [|reflexivity].
        rewrite (ser_value_congr rec1 rec2 (f_ty f) v _ (f_padded f) 0 w); [reflexivity|].
        intros sn Hty. rewrite Hty in H.
        destruct (is_none v && (f_optional f || negb (is_some (f_hard f)))) eqn:En.
        * exfalso. apply andb_true_iff in En as [Hv Hoh]. unfold opt_guard in Eg. rewrite Hv in Eg, Eh.
          destruct (f_optional f).
          -- rewrite orb_true_r in Eg. inversion Eg; subst. discriminate Ego.
          -- cbn [orb negb] in Hoh. destruct (f_hard f); [discriminate Hoh | discriminate Eh].
        * apply (H (sn, v)). left; reflexivity.
      + destruct (f_hard f) as [lit|]; [|reflexivity]. destruct (lit_value (f_ty f) lit) as [v|] eqn:El; [|reflexivity].
        rewrite (ser_value_congr rec1 rec2 (f_ty f) v _ (f_padded f) 0 w); [reflexivity|].
        intros sn Hty. rewrite Hty in El. discriminate El.
    - apply ser_instr_congr. exact H.
    - reflexivity.
    - apply ser_instr_congr. intros p w0 [].
    - cbn [ser_instr]. cbn [calls1] in H. destruct (assoc flds field) as [fv|]; [|reflexivity].
      destruct (assoc flds (field ++ "_data")%string) as [dv|]; [|reflexivity].
      destruct (find_case cases _) as [c|] eqn:Ef; [|reflexivity]. apply find_case_in in Ef.
      destruct (c_cls c) as [cls|] eqn:Ec; [|reflexivity]. destruct (obj_class dv) as [c'|] eqn:Eo; [|reflexivity].
      destruct (String.eqb c' cls) eqn:Eq; [|reflexivity].
      rewrite (H (cls, dv)); [reflexivity|]. apply in_flat_map. exists c. split; [exact Ef|]. rewrite Ec, Eq. left; reflexivity.
    - reflexivity.
    - reflexivity.
  Qed.

  Lemma ser_instrs_congr1 flds old is : forall rmo w,
    (forall p w0, In p (flat_map (calls1 flds) is) -> rec1 (fst p) (snd p) w0 = rec2 (fst p) (snd p) w0) ->
    ser_instrs rec1 flds old is rmo w = ser_instrs rec2 flds old is rmo w.
  Proof.
    induction is as [|i t IH]; intros rmo w H; [reflexivity|]. cbn [ser_instrs].
    rewrite (ser_instr_congr1 flds old i rmo w) by (intros p w0 Hp; apply H; cbn [flat_map]; apply in_or_app; left; exact Hp).
    destruct (ser_instr rec2 flds old i rmo w) as [[w1 [[]|e]] rmo1]; [|reflexivity].
    apply IH. intros p w0 Hp. apply H. cbn [flat_map]. apply in_or_app. right. exact Hp.
  Qed.
End Congr1.

Section ClassLevel1.
  Variable E : env.
  Variable enums : list penum.
  Variable P : parsed.
  Variable slots : string -> list (string * value) -> list (string * value).

  (* the slot side conditions, hereditarily along the calls the serializer can make *)
  Fixpoint hok1 (fuel : nat) (cls : string) (v : value) : Prop :=
    match fuel with
    | O => True
    | S f =>
      match env_find E cls with
      | None => True
      | Some d =>
        match v with
        | VObj c flds => Forall (instr_slots_ok flds (slots c flds)) (sd_body d) /\
                         Forall (fun p => hok1 f (fst p) (snd p)) (flat_map (calls1 flds) (sd_body d))
        | _ => match sd_body d with i :: _ => reads_data_first i = true | [] => True end
        end
      end
    end.

  (* hok1 asks for less than hok *)
  Lemma hok_hok1 : forall fuel cls v, hok E slots fuel cls v -> hok1 fuel cls v.
  Proof.
    induction fuel as [|f IH]; intros cls v H; [exact I|]. cbn [hok hok1] in *.
    destruct (env_find E cls) as [d|]; [|exact I]. destruct v; try exact H. destruct H as [H1 H2]. split; [exact H1|].
    rewrite Forall_forall in *. intros p Hp. apply IH, H2.
    apply in_flat_map in Hp as [i [Hi Hp]]. apply in_flat_map. exists i. split; [exact Hi | apply calls1_incl, Hp].
  Qed.

  (* the render theorem at class level (py_serialize_correct), under the weaker side condition *)
  Theorem py_serialize_correct1 :
    program_ok E enums P ->
    forall fuel cls v w, hok1 fuel cls v -> py_serialize P slots fuel cls v w = ser_struct fuel E cls v w.
  Proof.
    intro HP. induction fuel as [|f IH]; intros cls v w Hok; [reflexivity|].
    cbn [py_serialize ser_struct]. specialize (HP cls). cbn [hok1] in Hok.
    destruct (env_find E cls) as [d|]; [|rewrite HP; reflexivity].
    destruct HP as [ss [HPc Hrc]]. rewrite HPc.
    destruct (render_class_inv enums d ss Hrc) as [rs [Hrs [Her Hst]]].
    destruct (is_obj v) eqn:Ev.
    - destruct v as [| | | | | |c flds]; try discriminate Ev. destruct Hok as [Hsl Hcalls]. cbn [data_of].
      destruct (ser_body (py_serialize P slots f) d (VObj c flds) w) as [w1 r1] eqn:Es.
      destruct (checked_class_correct (py_serialize P slots f) enums d ss c flds (slots c flds) w Hrc Hsl w1 r1 Es) as [L' Hx].
      rewrite Hx. rewrite <- Es. unfold ser_body.
      rewrite (ser_instrs_congr1 (py_serialize P slots f) (ser_struct f E) flds (zlen (wdata w)) (sd_body d) false w); [reflexivity|].
      intros p w0 Hp. apply IH. rewrite Forall_forall in Hcalls. apply Hcalls, Hp.
    - assert (Hd : data_of slots v = []) by (destruct v; try reflexivity; discriminate Ev). rewrite Hd.
      destruct (sd_body d) as [|i rest] eqn:Eb.
      + discriminate Hrs.
      + rewrite <- Eb in Hrs, Hst.
        assert (Hfirst : reads_data_first i = true) by (destruct v; try exact Hok; discriminate Ev).
        destruct (render_serialize_nonobject (py_serialize P slots f) d i rest rs v w Eb Hfirst Hrs Hst Ev) as [L' Hx].
        rewrite <- (erase_stmts_ok (py_serialize P slots f) [] ss [] w), Her, Hx.
        assert (Hsb : forall rc, ser_body rc d v w = (w, Err EAttribute)) by (intro rc; unfold ser_body; rewrite Eb; destruct v; try reflexivity; discriminate Ev).
        rewrite !Hsb. reflexivity.
  Qed.
End ClassLevel1.

(* ================================================================ shaped objects satisfy the side condition *)
Lemma shape_static_at E cls d : shape_static E = true -> env_find E cls = Some d -> body_static (sd_body d) = true.
Proof.
  intros Hs Hd. unfold shape_static in Hs. rewrite forallb_forall in Hs. apply Hs. apply (env_find_in _ _ _ Hd).
Qed.

Lemma shapedb_inv f E cls v :
  shapedb (S f) E cls v = true ->
  exists d flds, env_find E cls = Some d /\ v = VObj cls flds /\
                 forallb (fun kv => mem_str (fst kv) (BYTE_SIZE :: keys (sd_body d))) flds = true /\
                 forallb (instr_shaped E (shapedb f E) flds) (sd_body d) = true.
Proof.
  cbn [shapedb]. destruct (env_find E cls) as [d|]; [|discriminate]. destruct v as [| | | | | |c flds]; try discriminate.
  intro H. apply andb_true_iff in H as [H H4]. apply andb_true_iff in H as [H H3]. apply andb_true_iff in H as [H1 _].
  apply String.eqb_eq in H1. subst c. exists d, flds. auto.
Qed.

Lemma is_none_eq v : is_none v = true -> v = VNone.
Proof. destruct v; try discriminate; reflexivity. Qed.

Lemma hok1_none E slots f n : first_reads E n = true -> hok1 E slots f n VNone.
Proof.
  intro H. destruct f; [exact I|]. cbn [hok1]. unfold first_reads in H. destruct (env_find E n) as [d|]; [|exact I].
  destruct (sd_body d); [exact I | exact H].
Qed.
Lemma hok_none E slots f n : first_reads E n = true -> hok E slots f n VNone.
Proof.
  intro H. destruct f; [exact I|]. cbn [hok]. unfold first_reads in H. destruct (env_find E n) as [d|]; [|exact I].
  destruct (sd_body d); [exact I | exact H].
Qed.

Lemma instr_static_at body i : body_static body = true -> In i body -> instr_static body i = true.
Proof.
  intros H Hi. unfold body_static in H. apply andb_true_iff in H as [_ H]. rewrite forallb_forall in H. apply H, Hi.
Qed.

(* THEOREM: every shape-typed object satisfies the slot side condition along the calls its serializer can make *)
Theorem shaped_hok1 : forall fuel E cls v,
  shape_static E = true -> shapedb fuel E cls v = true -> hok1 E (ctor_slots E) fuel cls v.
Proof.
  intros fuel E. induction fuel as [|f IH]; intros cls v Hst Hs; [exact I|].
  destruct (shapedb_inv f E cls v Hs) as [d [flds [Hd [-> [Hk Hi]]]]]. cbn [hok1]. rewrite Hd.
  pose proof (shape_static_at E cls d Hst Hd) as Hbs. split.
  - unfold ctor_slots. rewrite Hd. exact (shaped_slots_ok E (shapedb f E) (sd_body d) flds Hbs Hk Hi).
  - apply Forall_forall. intros [n x] Hp. cbn [fst snd]. apply in_flat_map in Hp as [i [Hin Hp]].
    rewrite forallb_forall in Hi. pose proof (Hi i Hin) as Hsi. pose proof (instr_static_at _ i Hbs Hin) as Hsti.
    destruct i as [fs|fs dl tr ct| | |field cases| |]; cbn [calls1] in Hp; try (destruct Hp; fail).
    + (* struct field *)
      cbn [instr_shaped instr_static] in Hsi, Hsti. unfold field_static in Hsti.
      destruct (f_ty fs) as [| | | | |sn] eqn:Ety; try (destruct Hp; fail). destruct (f_name fs) as [nm|]; [|destruct Hp].
      destruct (assoc flds nm) as [v|]; [|destruct Hp]. unfold field_shaped, val_shaped in Hsi. rewrite Ety in Hsi.
      apply andb_true_iff in Hsi as [_ Hsi]. apply andb_true_iff in Hsti as [_ Hsti]. cbn [orb] in Hsti.
      destruct (is_none v) eqn:En.
      * rewrite Hsti in Hp. destruct Hp.
      * cbn [andb orb] in Hp, Hsi. destruct Hp as [Hp|[]]. inversion Hp; subst. apply IH; assumption.
    + (* array of structs *)
      cbn [instr_shaped] in Hsi. destruct (f_ty fs) as [| | | | |sn] eqn:Ety; try (destruct Hp; fail). destruct (f_name fs) as [nm|]; [|destruct Hp].
      destruct (assoc flds nm) as [v|]; [|destruct Hp]. destruct v as [| | | | |elems|]; try (destruct Hp; fail).
      apply in_map_iff in Hp as [y [Hy Hin']]. inversion Hy; subst. unfold array_shaped in Hsi. rewrite forallb_forall in Hsi.
      specialize (Hsi x Hin'). unfold elem_shaped, val_shaped in Hsi. rewrite Ety in Hsi. apply orb_true_iff in Hsi as [Hsi|Hsi].
      * apply IH; assumption.
      * apply andb_true_iff in Hsi as [Hx Hfr]. apply is_none_eq in Hx. subst x. apply hok1_none, Hfr.
    + (* case data: only the class of the object itself *)
      cbn [instr_shaped] in Hsi. apply andb_true_iff in Hsi as [_ Hsi].
      destruct (assoc flds (field ++ "_data")%string) as [dv|]; [|destruct Hp].
      apply in_flat_map in Hp as [c [Hc Hp]]. destruct (c_cls c) as [cls1|]; [|destruct Hp].
      destruct (obj_class dv) as [c'|] eqn:Eo; [|destruct Hp]. destruct (String.eqb c' cls1) eqn:Eq; [|destruct Hp].
      destruct Hp as [Hp|[]]. inversion Hp; subst. apply String.eqb_eq in Eq. subst c'.
      destruct (is_none x) eqn:En; [destruct x; discriminate|]. cbn [orb] in Hsi. apply existsb_exists in Hsi as [c0 [Hc0 Hr]].
      destruct (c_cls c0) as [cls0|]; [|discriminate Hr].
      assert (cls0 = n).
      { destruct f; [discriminate Hr|]. destruct (shapedb_inv _ _ _ _ Hr) as [d0 [fl0 [_ [Hx _]]]]. subst x. cbn in Eo. congruence. }
      subst cls0. apply IH; assumption.
Qed.

(* COROLLARY: the program parsed from the generated text computes ser_struct on every shape-typed object, valid or not *)
Theorem shaped_program_correct E enums P fuel cls v w :
  program_ok E enums P -> shape_static E = true -> shapedb fuel E cls v = true ->
  py_serialize P (ctor_slots E) fuel cls v w = ser_struct fuel E cls v w.
Proof.
  intros HP Hst Hs. apply (py_serialize_correct1 E enums P (ctor_slots E) HP). apply shaped_hok1; assumption.
Qed.

(* ---------------------------------------------------------------- the original hok *)
(* hok also follows the calls that cannot happen; it holds for shaped objects when no such call leaves the shaped world:
   every switch has at most one case class, and every serializer starts by reading its argument *)
Definition one_case_class (cases : list ecase) : bool :=
  forallb (fun c1 => forallb (fun c2 => match c_cls c1, c_cls c2 with Some a, Some b => String.eqb a b | _, _ => true end) cases) cases.
Definition narrow (E : env) : bool :=
  forallb (fun d => forallb (fun i => match i with ESwitch _ cases => one_case_class cases | _ => true end) (sd_body d) &&
                    match sd_body d with i :: _ => reads_data_first i | [] => true end) E.

Lemma narrow_first_reads E n : narrow E = true -> first_reads E n = true.
Proof.
  intro H. unfold first_reads. destruct (env_find E n) as [d|] eqn:Ed; [|reflexivity].
  unfold narrow in H. rewrite forallb_forall in H. specialize (H d (proj1 (env_find_in _ _ _ Ed))).
  apply andb_true_iff in H as [_ H]. exact H.
Qed.
Lemma narrow_switch E cls d field cases c1 c2 a b :
  narrow E = true -> env_find E cls = Some d -> In (ESwitch field cases) (sd_body d) ->
  In c1 cases -> In c2 cases -> c_cls c1 = Some a -> c_cls c2 = Some b -> a = b.
Proof.
  intros H Ed Hi H1 H2 Ha Hb. unfold narrow in H. rewrite forallb_forall in H. specialize (H d (proj1 (env_find_in _ _ _ Ed))).
  apply andb_true_iff in H as [H _]. rewrite forallb_forall in H. specialize (H _ Hi). cbn in H. unfold one_case_class in H.
  rewrite forallb_forall in H. specialize (H _ H1). rewrite forallb_forall in H. specialize (H _ H2). rewrite Ha, Hb in H.
  apply String.eqb_eq, H.
Qed.

Theorem shaped_hok : forall fuel E cls v,
  shape_static E = true -> narrow E = true -> shapedb fuel E cls v = true -> hok E (ctor_slots E) fuel cls v.
Proof.
  intros fuel E. induction fuel as [|f IH]; intros cls v Hst Hnar Hs; [exact I|].
  destruct (shapedb_inv f E cls v Hs) as [d [flds [Hd [-> [Hk Hi]]]]]. cbn [hok]. rewrite Hd.
  pose proof (shape_static_at E cls d Hst Hd) as Hbs. split.
  - unfold ctor_slots. rewrite Hd. exact (shaped_slots_ok E (shapedb f E) (sd_body d) flds Hbs Hk Hi).
  - apply Forall_forall. intros [n x] Hp. cbn [fst snd]. apply in_flat_map in Hp as [i [Hin Hp]].
    rewrite forallb_forall in Hi. pose proof (Hi i Hin) as Hsi.
    destruct i as [fs|fs dl tr ct| | |field cases| |]; cbn [instr_calls] in Hp; try (destruct Hp; fail).
    + cbn [instr_shaped] in Hsi.
      destruct (f_ty fs) as [| | | | |sn] eqn:Ety; try (destruct Hp; fail). destruct (f_name fs) as [nm|]; [|destruct Hp].
      destruct (assoc flds nm) as [v|]; [|destruct Hp]. unfold field_shaped, val_shaped in Hsi. rewrite Ety in Hsi.
      apply andb_true_iff in Hsi as [_ Hsi]. destruct Hp as [Hp|[]]. inversion Hp; subst.
      apply orb_true_iff in Hsi as [Hx|Hx]; [|apply IH; assumption].
      apply is_none_eq in Hx. subst x. apply hok_none, narrow_first_reads, Hnar.
    + cbn [instr_shaped] in Hsi. destruct (f_ty fs) as [| | | | |sn] eqn:Ety; try (destruct Hp; fail). destruct (f_name fs) as [nm|]; [|destruct Hp].
      destruct (assoc flds nm) as [v|]; [|destruct Hp]. destruct v as [| | | | |elems|]; try (destruct Hp; fail).
      apply in_map_iff in Hp as [y [Hy Hin']]. inversion Hy; subst. unfold array_shaped in Hsi. rewrite forallb_forall in Hsi.
      specialize (Hsi x Hin'). unfold elem_shaped, val_shaped in Hsi. rewrite Ety in Hsi. apply orb_true_iff in Hsi as [Hsi|Hsi].
      * apply IH; assumption.
      * apply andb_true_iff in Hsi as [Hx Hfr]. apply is_none_eq in Hx. subst x. apply hok_none, Hfr.
    + cbn [instr_shaped] in Hsi. apply andb_true_iff in Hsi as [_ Hsi].
      destruct (assoc flds (field ++ "_data")%string) as [dv|]; [|destruct Hp].
      apply in_flat_map in Hp as [c [Hc Hp]]. destruct (c_cls c) as [cls1|] eqn:Ec1; [|destruct Hp].
      destruct Hp as [Hp|[]]. inversion Hp; subst.
      apply orb_true_iff in Hsi as [Hx|Hsi]; [apply is_none_eq in Hx; subst x; apply hok_none, narrow_first_reads, Hnar|].
      apply existsb_exists in Hsi as [c0 [Hc0 Hr]]. destruct (c_cls c0) as [cls0|] eqn:Ec0; [|discriminate Hr].
      rewrite (narrow_switch E cls d field cases c c0 n cls0 Hnar Hd Hin Hc Hc0 Ec1 Ec0). apply IH; assumption.
Qed.

(* ================================================================ non-vacuity *)
(* a length field, a string of that length, a switch with two case classes (each with its own length field) and an empty default,
   an array of structs, an optional tail *)
Definition ex_env : env :=
  [mkSDef "Item" [EField (mkField (Some "x") (EInt TChar) LNone false false true None 0)];
   mkSDef "CaseA" [ELength "p" TChar 0 false true (Some "t");
                   EField (mkField (Some "t") (EStr false) (LRef "p") false false true None 252)];
   mkSDef "CaseB" [ELength "q" TChar 0 false true (Some "t");
                   EField (mkField (Some "t") (EStr false) (LRef "q") false false true None 252);
                   EField (mkField (Some "b") (EInt TChar) LNone false false true None 0)];
   mkSDef "Top" [ELength "n" TChar 1 false true (Some "s");
                 EField (mkField (Some "s") (EStr false) (LRef "n") false false true None 253);
                 EField (mkField (Some "k") (EInt TChar) LNone false false true None 0);
                 ESwitch "k" [mkCase (CKValue 1) (Some "CaseA"); mkCase (CKValue 2) (Some "CaseB"); mkCase CKDefault None];
                 EArray (mkField (Some "items") (EStruct "Item") LNone false false true None 0) false false ACWhile;
                 EField (mkField (Some "tail") (EInt TShort) LNone false true true None 0)]].
(* the program: what the generator emits for these classes *)
Definition prog_of (E : env) : parsed :=
  flat_map (fun d => match render_serialize (sd_body d) with Some ss => [(sd_name d, ss)] | None => [] end) E.
Definition ex_prog : parsed := prog_of ex_env.

Definition ex_items : value := VList [VObj "Item" [("x", VInt 3)]; VObj "Item" [("x", VInt 4)]].
Definition ex_top (s k kd items : value) : value :=
  VObj "Top" [("byte_size", VInt 0); ("s", s); ("k", k); ("k_data", kd); ("items", items); ("tail", VNone)].
Definition ex_caseB : value := VObj "CaseB" [("t", VStr [67]); ("b", VInt 5)].
Definition ex_valid : value := ex_top (VStr [65; 66]) (VInt 2) ex_caseB ex_items.
Definition ex_required_none : value := ex_top VNone (VInt 2) ex_caseB ex_items.           (* INVALID: required field is None *)
Definition ex_wrong_case : value := ex_top (VStr [65; 66]) (VInt 1) ex_caseB ex_items.     (* INVALID: k = 1 wants a CaseA *)
Definition ex_none_item : value := ex_top (VStr []) (VInt 0) VNone (VList [VNone]).         (* INVALID: None in an array of structs *)

Example ex_static : shape_static ex_env = true.
Proof. vm_compute; reflexivity. Qed.

Example ex_shaped :
  shapedb 2 ex_env "Top" ex_valid = true /\ valid_decl 2 ex_env "Top" ex_valid = true /\
  shapedb 2 ex_env "Top" ex_required_none = true /\ valid_decl 2 ex_env "Top" ex_required_none = false /\
  shapedb 2 ex_env "Top" ex_wrong_case = true /\ valid_decl 2 ex_env "Top" ex_wrong_case = false /\
  shapedb 2 ex_env "Top" ex_none_item = true /\ valid_decl 2 ex_env "Top" ex_none_item = false.
Proof. repeat split; vm_compute; reflexivity. Qed.

Example ex_program_ok : program_ok ex_env [] ex_prog.
Proof.
  intro cls. cbn [ex_env env_find sd_name].
  destruct (String.eqb "Item" cls) eqn:E1; [eexists; split; [apply String.eqb_eq in E1; subst cls; reflexivity | vm_compute; reflexivity]|].
  destruct (String.eqb "CaseA" cls) eqn:E2; [eexists; split; [apply String.eqb_eq in E2; subst cls; reflexivity | vm_compute; reflexivity]|].
  destruct (String.eqb "CaseB" cls) eqn:E3; [eexists; split; [apply String.eqb_eq in E3; subst cls; reflexivity | vm_compute; reflexivity]|].
  destruct (String.eqb "Top" cls) eqn:E4; [eexists; split; [apply String.eqb_eq in E4; subst cls; reflexivity | vm_compute; reflexivity]|].
  assert (Hp : exists a b c d, ex_prog = [("Item", a); ("CaseA", b); ("CaseB", c); ("Top", d)]) by (do 4 eexists; vm_compute; reflexivity).
  destruct Hp as [a [b [c [d ->]]]]. cbn [assoc]. rewrite E1, E2, E3, E4. reflexivity.
Qed.

(* the theorem applies to all four; the three invalid ones are refused, by the program exactly as by the model *)
Example ex_runs :
  (forall w, py_serialize ex_prog (ctor_slots ex_env) 2 "Top" ex_valid w = ser_struct 2 ex_env "Top" ex_valid w) /\
  (forall w, py_serialize ex_prog (ctor_slots ex_env) 2 "Top" ex_required_none w = ser_struct 2 ex_env "Top" ex_required_none w) /\
  (forall w, py_serialize ex_prog (ctor_slots ex_env) 2 "Top" ex_wrong_case w = ser_struct 2 ex_env "Top" ex_wrong_case w) /\
  (forall w, py_serialize ex_prog (ctor_slots ex_env) 2 "Top" ex_none_item w = ser_struct 2 ex_env "Top" ex_none_item w) /\
  ser_struct 2 ex_env "Top" ex_valid initW = (mkW [2; 65; 66; 3; 2; 67; 6; 4; 5] false, Ok tt) /\
  ser_struct 2 ex_env "Top" ex_required_none initW = (initW, Err ESerialization) /\
  ser_struct 2 ex_env "Top" ex_wrong_case initW = (mkW [2; 65; 66; 2] false, Err ESerialization) /\
  ser_struct 2 ex_env "Top" ex_none_item initW = (mkW [0; 1] false, Err EAttribute).
Proof.
  repeat split; try (intro w; apply (shaped_program_correct ex_env [] ex_prog 2 "Top" _ w ex_program_ok ex_static); vm_compute; reflexivity);
    vm_compute; reflexivity.
Qed.

(* ================================================================ refuted variants *)
Lemma hok_sub E slots f cls c flds d p :
  env_find E cls = Some d -> hok E slots (S f) cls (VObj c flds) ->
  In p (flat_map (instr_calls flds) (sd_body d)) -> hok E slots f (fst p) (snd p).
Proof. intros Hd H Hp. cbn [hok] in H. rewrite Hd in H. destruct H as [_ H]. rewrite Forall_forall in H. apply H, Hp. Qed.
Lemma hok_slots E slots f cls c flds d :
  env_find E cls = Some d -> hok E slots (S f) cls (VObj c flds) -> Forall (instr_slots_ok flds (slots c flds)) (sd_body d).
Proof. intros Hd H. cbn [hok] in H. rewrite Hd in H. apply H. Qed.

Definition both (E : env) (fuel : nat) (cls : string) (v : value) : wres * wres :=
  (py_serialize (prog_of E) (ctor_slots E) fuel cls v initW, ser_struct fuel E cls v initW).

(* R1. `shaped_hok` WITHOUT `narrow` (the statement as first asked) is false, already on the VALID object above: hok hands the
       CaseB object to CaseA's serializer too (instr_calls lists every case class), whose length slot `p` a CaseB instance does not
       have.  No serializer makes that call (isinstance guard): the program and the model agree on the object (ex_runs).
       => neither shapedb nor a hypothesis is at fault: hok1 replaces hok. *)
Example hok_refuted_sibling_case :
  shape_static ex_env = true /\ shapedb 2 ex_env "Top" ex_valid = true /\ valid_decl 2 ex_env "Top" ex_valid = true /\
  ~ hok ex_env (ctor_slots ex_env) 2 "Top" ex_valid.
Proof.
  repeat split; try (vm_compute; reflexivity).
  intro H. pose proof (hok_sub ex_env _ 1 "Top" _ _ _ ("CaseA", ex_caseB) eq_refl H) as H1.
  specialize (H1 ltac:(vm_compute; auto 10)).
  pose proof (hok_slots ex_env _ 0 "CaseA" _ _ _ eq_refl H1) as H2. inversion H2 as [|i l Hx _]. vm_compute in Hx.
  destruct Hx as [Hx _]. discriminate Hx.
Qed.

(* R2. the second half of `narrow`: a class whose serializer does not start by reading its argument (here: a chunked case class),
       with case data None / an optional struct field None: hok asks for C.serialize(writer, None), which never runs. *)
Definition fchar (n : string) (opt first : bool) : fieldspec := mkField (Some n) (EInt TChar) LNone false opt first None 0.
Definition ex2_env : env :=
  [mkSDef "C" [ESetMode true; EField (fchar "a" false true); ESetMode false];
   mkSDef "T" [EField (fchar "k" false true); ESwitch "k" [mkCase (CKValue 1) (Some "C")];
               EField (mkField (Some "inner") (EStruct "C") LNone false true true None 0)]].
Definition ex2_obj : value := VObj "T" [("k", VInt 0); ("k_data", VNone); ("inner", VNone)].
Example hok_refuted_none_to_chunked :
  shape_static ex2_env = true /\ shapedb 2 ex2_env "T" ex2_obj = true /\ valid_decl 2 ex2_env "T" ex2_obj = true /\
  ~ hok ex2_env (ctor_slots ex2_env) 2 "T" ex2_obj /\
  both ex2_env 2 "T" ex2_obj = ((mkW [1] false, Ok tt), (mkW [1] false, Ok tt)).
Proof.
  repeat split; try (vm_compute; reflexivity).
  intro H. pose proof (hok_sub ex2_env _ 1 "T" _ _ _ ("C", VNone) eq_refl H) as H1.
  specialize (H1 ltac:(vm_compute; auto 10)). vm_compute in H1. discriminate H1.
Qed.

(* R3. GENUINE DIFFERENCE (why elem_shaped asks first_reads): None inside an array of a struct whose serializer does not start by
       reading its argument.  D.serialize(writer, None) writes the dummy and returns; Ser.v says AttributeError, nothing written.
       (Finding 1 of Proofs/RenderSer.v at class level.)  With a struct that reads first (Item above) both say AttributeError: ex_runs. *)
Definition ex3_env : env :=
  [mkSDef "D" [EDummy (EInt TChar) "7" false];
   mkSDef "T" [EArray (mkField (Some "ds") (EStruct "D") LNone false false true None 0) false false ACWhile]].
Definition ex3_obj : value := VObj "T" [("ds", VList [VNone])].
Example none_element_differs :
  shape_static ex3_env = true /\ shapedb 2 ex3_env "T" ex3_obj = false /\
  both ex3_env 2 "T" ex3_obj = ((mkW [8] false, Ok tt), (initW, Err EAttribute)).
Proof. repeat split; vm_compute; reflexivity. Qed.

(* R4. GENUINE DIFFERENCE (why instr_static asks an optional, non-first length field to be referenced): the slot of an unreferenced
       length field is never assigned; after an earlier optional None, `rmo = rmo or data._n is None` never reads it. *)
Definition ex4_env : env := [mkSDef "U" [EField (fchar "a" true true); ELength "n" TChar 0 true false None]].
Definition ex4_obj : value := VObj "U" [("a", VNone)].
Example unreferenced_optional_length_differs :
  shape_static ex4_env = false /\ shapedb 1 ex4_env "U" ex4_obj = true /\
  both ex4_env 1 "U" ex4_obj = ((initW, Ok tt), (initW, Err EAttribute)).
Proof. repeat split; vm_compute; reflexivity. Qed.

(* R5. why body_static asks the length names to be apart from the public attributes: a switch on a length field (accepted by the
       generator).  A shaped object must then bind "n" publicly; ctor_slots keeps that binding in front of the length slot, the
       emitted code reads it where Ser.v reads len(s).  (In Python there is one slot `_n` = len(s) and no public argument `n`:
       such classes are outside what `value` + ctor_slots can describe.) *)
Definition ex5_env : env :=
  [mkSDef "W" [ELength "n" TChar 0 false true (Some "s");
               EField (mkField (Some "s") (EStr false) (LRef "n") false false true None 252);
               ESwitch "n" [mkCase (CKValue 7) None]]].
Definition ex5_obj : value := VObj "W" [("n", VInt 7); ("s", VStr [65]); ("n_data", VNone)].
Example switch_on_length_field_differs :
  shape_static ex5_env = false /\ shapedb 1 ex5_env "W" ex5_obj = true /\
  both ex5_env 1 "W" ex5_obj = ((mkW [8] false, Err EValue), (mkW [2; 65] false, Ok tt)).
Proof. repeat split; vm_compute; reflexivity. Qed.

(* R6. why scalar_ok / array_shaped are what they are: an enum field holding a str, an array slot holding bytes / str - see
       enum_text_differs, array_text_differs in Proofs/RenderSer.v (the constructor stores tuple(..); int("5") is 5). *)

(* ================================================================ the static hypothesis on an elaborated tree *)
(* shape_static is evaluated like wf_pkg; here on what Model/Elab.elab makes of a raw tree of the same form as ex_env
   (case classes Top.KData1 / Top.KData2, a chunked section with a delimited array and a break) *)
Definition raw_fld (n t : string) : rinstr := RField (Some n) (Some t) None None None None.
Definition raw_tree : list rfile :=
  [mkRFile "" []
     [mkRStruct (Some "Item") [raw_fld "x" "char"];
      mkRStruct (Some "Top")
        [RLength (Some "n") (Some "char") (Some "1") None;
         RField (Some "s") (Some "string") (Some "n") None None None;
         raw_fld "k" "char";
         RSwitch (Some "k")
           [RCase (Some "1") None [RLength (Some "p") (Some "char") None None; RField (Some "t") (Some "string") (Some "p") None None None];
            RCase (Some "2") None [RLength (Some "q") (Some "char") None None; RField (Some "t") (Some "string") (Some "q") None None None;
                                   raw_fld "b" "char"];
            RCase None (Some "true") []];
         RChunked [RArray (Some "items") (Some "Item") None None (Some "true") None; RBreak; raw_fld "z" "string"];
         RField (Some "tail") (Some "short") None None (Some "true") None]] []].
Example ex_elab_static :
  exists p, elab raw_tree = Ok p /\ map sd_name (pk_env p) = ["Item"; "Top"; "Top.KData1"; "Top.KData2"] /\
            shape_static (pk_env p) = true /\ narrow (pk_env p) = false.
Proof. eexists. split; [vm_compute; reflexivity | repeat split; vm_compute; reflexivity]. Qed.

Print Assumptions shaped_hok1.
Print Assumptions py_serialize_correct1.
Print Assumptions shaped_program_correct.
Print Assumptions shaped_hok.
Print Assumptions ex_runs.
Print Assumptions hok_refuted_sibling_case.
