From EO Require Import Prelude.Py Model.Limits Model.Number.
Open Scope Z_scope.
Set Default Timeout 60.

Lemma encode_digits_range n : 0 <= n < INT_MAX ->
  Forall (fun b => 1 <= b <= 254) (encode_digits n).
Proof.
  intros H. unfold encode_digits, INT_MAX, THREE_MAX, SHORT_MAX, CHAR_MAX in *.
  destruct (n >=? 16194277) eqn:E3; destruct (n >=? 64009) eqn:E2; destruct (n >=? 253) eqn:E1;
    repeat constructor; lia.
Qed.

Lemma encode_number_ok n : 0 <= n < INT_MAX -> encode_number n = Ok (encode_digits n).
Proof.
  intros H. unfold encode_number, py_bytes.
  assert (bytes_okb (encode_digits n) = true) as ->; [|reflexivity].
  unfold bytes_okb. apply forallb_forall. intros x Hx.
  pose proof (encode_digits_range n H) as F. rewrite Forall_forall in F. specialize (F x Hx). lia.
Qed.

Lemma decode_digits n : 0 <= n < INT_MAX -> decode_number (encode_digits n) = n.
Proof.
  intros H. unfold decode_number, encode_digits, INT_MAX, THREE_MAX, SHORT_MAX, CHAR_MAX in *.
  cbn [positional].
  destruct (n >=? 16194277) eqn:E3; destruct (n >=? 64009) eqn:E2; destruct (n >=? 253) eqn:E1; try lia;
  repeat match goal with |- context [?x =? 254] => destruct (x =? 254) eqn:? end; lia.
Qed.

Lemma encode_digits_length n : length (encode_digits n) = 4%nat.
Proof. reflexivity. Qed.

(* first k bytes decode to n and the rest is filler, for n < 253^k *)
Lemma prefix1 n : 0 <= n < CHAR_MAX ->
  decode_number (firstn 1 (encode_digits n)) = n /\ skipn 1 (encode_digits n) = [254;254;254].
Proof.
  intros H. unfold decode_number, encode_digits, THREE_MAX, SHORT_MAX, CHAR_MAX in *.
  destruct (n >=? 16194277) eqn:E3; destruct (n >=? 64009) eqn:E2; destruct (n >=? 253) eqn:E1; try lia.
  cbn [firstn skipn positional]. split; [|reflexivity].
  destruct (n + 1 =? 254) eqn:?; lia.
Qed.
Lemma prefix2 n : 0 <= n < SHORT_MAX ->
  decode_number (firstn 2 (encode_digits n)) = n /\ skipn 2 (encode_digits n) = [254;254].
Proof.
  intros H. unfold decode_number, encode_digits, THREE_MAX, SHORT_MAX, CHAR_MAX in *.
  destruct (n >=? 16194277) eqn:E3; destruct (n >=? 64009) eqn:E2; destruct (n >=? 253) eqn:E1; try lia;
  cbn [firstn skipn positional]; (split; [|reflexivity]);
  repeat match goal with |- context [?x =? 254] => destruct (x =? 254) eqn:? end; lia.
Qed.
Lemma prefix3 n : 0 <= n < THREE_MAX ->
  decode_number (firstn 3 (encode_digits n)) = n /\ skipn 3 (encode_digits n) = [254].
Proof.
  intros H. unfold decode_number, encode_digits, THREE_MAX, SHORT_MAX, CHAR_MAX in *.
  destruct (n >=? 16194277) eqn:E3; destruct (n >=? 64009) eqn:E2; destruct (n >=? 253) eqn:E1; try lia;
  cbn [firstn skipn positional]; (split; [|reflexivity]);
  repeat match goal with |- context [?x =? 254] => destruct (x =? 254) eqn:? end; lia.
Qed.

Lemma encode_injective n m : 0 <= n < INT_MAX -> 0 <= m < INT_MAX ->
  encode_digits n = encode_digits m -> n = m.
Proof.
  intros Hn Hm E. rewrite <- (decode_digits n Hn), <- (decode_digits m Hm), E. reflexivity.
Qed.

(* decoding never reads past four bytes and stops at the first filler byte *)
Lemma decode_firstn4 bs : decode_number bs = decode_number (firstn 4 bs).
Proof.
  unfold decode_number.
  destruct bs as [|a [|b [|c [|d t]]]]; cbn [firstn positional]; try destruct t; reflexivity.
Qed.
