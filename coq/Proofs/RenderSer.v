(* The generator's serialize templates mean what Model/Ser.v says:
   running the statements `render_ser is` with the interpreter of Model/PyStmt.v = `ser_instrs` of Model/Ser.v,
   and the whole method body (header, try / finally mode restore) = `ser_body`. *)
From EO Require Import Prelude.Py Prelude.Corr Model.Limits Model.Number Model.StringEnc Model.Cp1252 Model.Writer Model.Spec Model.Elab Model.Ser
     Model.PyStmt Model.RenderSer Model.RenderCheck.
Open Scope string_scope.
Open Scope list_scope.
Open Scope Z_scope.
Set Default Timeout 60.

(* ---------------------------------------------------------------- unfolding the interpreter *)
Section Eqns.
  Variable rec : string -> value -> wstate -> wres.
  Variable data : list (string * value).

  Lemma exec_nil L w : exec_stmts rec data [] L w = (w, Ok tt, L).
  Proof. reflexivity. Qed.
  Lemma exec_cons s t L w :
    exec_stmts rec data (s :: t) L w =
    let '(w1, r1, L1) := exec_stmt rec data s L w in
    match r1 with Ok _ => exec_stmts rec data t L1 w1 | Err e => (w1, Err e, L1) end.
  Proof. reflexivity. Qed.
  Lemma exec_app a b L w :
    exec_stmts rec data (a ++ b) L w =
    let '(w1, r1, L1) := exec_stmts rec data a L w in
    match r1 with Ok _ => exec_stmts rec data b L1 w1 | Err e => (w1, Err e, L1) end.
  Proof.
    revert L w; induction a as [|s a IH]; intros L w; [reflexivity|].
    rewrite <- app_comm_cons, !exec_cons. destruct (exec_stmt rec data s L w) as [[w1 [u|e]] L1]; [apply IH | reflexivity].
  Qed.
  Lemma exec_one s L w : exec_stmts rec data [s] L w = exec_stmt rec data s L w.
  Proof. rewrite exec_cons. destruct (exec_stmt rec data s L w) as [[w1 [[]|e]] L1]; reflexivity. Qed.

  Lemma exec_SAdd m e L w :
    exec_stmt rec data (SAdd m e) L w =
    match eval L data w e with Err x => (w, Err x, L) | Ok v => let '(w', r) := exec_add m v w in (w', r, L) end.
  Proof. reflexivity. Qed.
  Lemma exec_SAddFixed enc e len p L w :
    exec_stmt rec data (SAddFixed enc e len p) L w =
    match eval L data w e with
    | Err x => (w, Err x, L)
    | Ok v => match eval L data w len with
              | Err x => (w, Err x, L)
              | Ok vl => let '(w', r) := exec_add_fixed enc v vl p w in (w', r, L)
              end
    end.
  Proof. reflexivity. Qed.
  Lemma exec_SSetMode e L w :
    exec_stmt rec data (SSetMode e) L w =
    match eval L data w e with Err x => (w, Err x, L) | Ok (VBool b) => (w_set_san w b, Ok tt, L) | Ok _ => (w, Err EUnexpected, L) end.
  Proof. reflexivity. Qed.
  Lemma exec_SAssign x e L w :
    exec_stmt rec data (SAssign x e) L w =
    match eval L data w e with Err err => (w, Err err, L) | Ok v => (w, Ok tt, (x, v) :: L) end.
  Proof. reflexivity. Qed.
  Lemma exec_SIf c th el L w :
    exec_stmt rec data (SIf c th el) L w =
    match eval L data w c with
    | Err x => (w, Err x, L)
    | Ok v => if py_truth v then exec_stmts rec data th L w else exec_stmts rec data el L w
    end.
  Proof. reflexivity. Qed.
  Lemma exec_SFor x e body L w :
    exec_stmt rec data (SFor x e body) L w =
    match eval L data w e with
    | Err err => (w, Err err, L)
    | Ok v => match as_int v with
              | None => (w, Err EType, L)
              | Some n => exec_loop rec data x body (Z.to_nat n) 0 L w
              end
    end.
  Proof.
    cbn [exec_stmt]. destruct (eval L data w e) as [v|]; [|reflexivity]. destruct (as_int v) as [n|]; [|reflexivity].
    generalize (Z.to_nat n) 0 L w. intro k; induction k as [|k IH]; intros i L0 w0; [reflexivity|].
    cbn [exec_loop].
    match goal with |- match ?a with _ => _ end = _ => change a with (exec_stmts rec data body ((x, VInt i) :: L0) w0) end.
    destruct (exec_stmts rec data body ((x, VInt i) :: L0) w0) as [[w1 [u|err]] L1]; [apply IH | reflexivity].
  Qed.
  Lemma exec_SRaise L w : exec_stmt rec data SRaise L w = (w, Err ESerialization, L).
  Proof. reflexivity. Qed.
  Lemma exec_SSerialize cls e L w :
    exec_stmt rec data (SSerialize cls e) L w =
    match eval L data w e with Err x => (w, Err x, L) | Ok v => let '(w', r) := rec cls v w in (w', r, L) end.
  Proof. reflexivity. Qed.
  Lemma exec_STry body fin L w :
    exec_stmt rec data (STryFinally body fin) L w =
    let '(w1, r1, L1) := exec_stmts rec data body L w in
    let '(w2, r2, L2) := exec_stmts rec data fin L1 w1 in
    (w2, match r2 with Err x => Err x | Ok _ => r1 end, L2).
  Proof. reflexivity. Qed.
End Eqns.

(* ---------------------------------------------------------------- locals *)
(* L' binds what L binds, except possibly the flag and the loop variable *)
Definition ext (L L' : locals) : Prop := forall x, x <> RMO -> x <> LOOP_VAR -> assoc L' x = assoc L x.
Definition ext_i (L L' : locals) : Prop := forall x, x <> LOOP_VAR -> assoc L' x = assoc L x.

Lemma ext_refl L : ext L L.
Proof. intros x _ _. reflexivity. Qed.
Lemma ext_i_refl L : ext_i L L.
Proof. intros x _. reflexivity. Qed.
Lemma ext_trans L1 L2 L3 : ext L1 L2 -> ext L2 L3 -> ext L1 L3.
Proof. intros H1 H2 x Hr Hi. rewrite H2, H1; auto. Qed.
Lemma ext_i_trans L1 L2 L3 : ext_i L1 L2 -> ext_i L2 L3 -> ext_i L1 L3.
Proof. intros H1 H2 x Hi. rewrite H2, H1; auto. Qed.
Lemma ext_i_ext L1 L2 : ext_i L1 L2 -> ext L1 L2.
Proof. intros H x _ Hi. apply H, Hi. Qed.
Lemma assoc_cons {A} k (v : A) l x : assoc ((k, v) :: l) x = if String.eqb k x then Some v else assoc l x.
Proof. reflexivity. Qed.
Lemma ext_cons_rmo L v : ext L ((RMO, v) :: L).
Proof. intros x Hr _. rewrite assoc_cons. destruct (String.eqb RMO x) eqn:E; [apply String.eqb_eq in E; congruence | reflexivity]. Qed.
Lemma ext_i_cons_i L v : ext_i L ((LOOP_VAR, v) :: L).
Proof. intros x Hi. rewrite assoc_cons. destruct (String.eqb LOOP_VAR x) eqn:E; [apply String.eqb_eq in E; congruence | reflexivity]. Qed.
Lemma ext_i_rmo L L' : ext_i L L' -> assoc L' RMO = assoc L RMO.
Proof. intro H. apply H. discriminate. Qed.

(* ---------------------------------------------------------------- values *)
Definition is_text (v : value) : bool := match v with VStr _ | VBytes _ => true | _ => false end.

Lemma py_truth_truthy v : py_truth v = truthy v.
Proof. reflexivity. Qed.
Lemma py_is_none_eq v : py_is_none v = is_none v.
Proof. reflexivity. Qed.
Lemma exec_add_int t v w :
  exec_add (add_meth t) v w = match as_int v with Some z => w_add_int_of t w z | None => (w, Err EType) end.
Proof. destruct t; reflexivity. Qed.

Lemma ser_value_nolen_padded rec ty v p p' off w : ser_value rec ty v None p off w = ser_value rec ty v None p' off w.
Proof. destruct ty; reflexivity. Qed.

Lemma parse_int_isdigit' lit : isdigit lit = true -> parse_int lit = Some (digits_val lit 0).
Proof.
  destruct lit as [|c t]; [discriminate|]. intros D.
  destruct c as [[|] [|] [|] [|] [|] [|] [|] [|]]; cbn [isdigit all_digits] in D;
    try (apply andb_true_iff in D as [D0 _]; discriminate D0); cbn [parse_int isdigit all_digits]; rewrite D; reflexivity.
Qed.

(* ---------------------------------------------------------------- the write statement *)
Section Write.
  Variable rec : string -> value -> wstate -> wres.
  Variable data : list (string * value).

  Lemma eval_with_offset L w e off v :
    eval L data w e = Ok v ->
    eval L data w (with_offset e off) =
    if off =? 0 then Ok v else match as_int v with Some x => Ok (VInt (x - off)) | None => Err EType end.
  Proof.
    intro He. unfold with_offset. destruct (off =? 0) eqn:E0; [exact He|].
    destruct (off >? 0) eqn:E1; cbn [eval]; rewrite He; cbn [rbind]; unfold py_bin; cbn [as_int].
    - destruct (as_int v); reflexivity.
    - destruct (as_int v) as [x|]; [|reflexivity]. reflexivity.
  Qed.

  (* the value expression, with cast / `1 if .. else 0` / int(..) applied *)
  Lemma write_stmt_ok ty ve opt off lenexpr padded L w v lenv :
    eval L data w ve = Ok v ->
    (off = 0 \/ exists t, ty = EInt t) ->
    (forall enc, ty = EStr enc ->
                 match lenexpr with
                 | None => lenv = None
                 | Some le => exists n, eval L data w le = Ok (VInt n) /\ lenv = Some n
                 end) ->
    (forall n t, ty = EEnum n t -> is_text v = false) ->
    exec_stmt rec data (write_stmt ty ve opt off lenexpr padded) L w =
    (let '(w', r) := ser_value rec ty v lenv padded off w in (w', r, L)).
  Proof.
    intros He Hoff Hlen Henum.
    assert (He1 : eval L data w (if opt then PCast (py_type_name ty) ve else ve) = Ok v) by (destruct opt; exact He).
    unfold write_stmt. set (v1 := if opt then PCast (py_type_name ty) ve else ve) in *. clearbody v1.
    destruct ty as [t|t|en t|enc| |sn].
    - (* int *)
      rewrite exec_SAdd, (eval_with_offset _ _ _ off _ He1). cbn [ser_value].
      destruct (off =? 0) eqn:E0.
      + apply Z.eqb_eq in E0. subst off. destruct v; rewrite exec_add_int; cbn [as_int]; rewrite ?Z.sub_0_r; try reflexivity.
      + destruct v; cbn [as_int]; try reflexivity; rewrite exec_add_int; cbn [as_int]; reflexivity.
    - (* bool *)
      destruct Hoff as [-> | [t' Ht]]; [|discriminate Ht].
      unfold with_offset. cbn [Z.eqb]. rewrite exec_SAdd. cbn [eval]. rewrite He1. cbn [rbind ser_value].
      change (truthy v) with (py_truth v). destruct (py_truth v); cbn [eval]; rewrite exec_add_int; cbn [as_int];
        match goal with |- context [w_add_int_of ?t ?w ?z] => destruct (w_add_int_of t w z) as [? ?]; reflexivity end.
    - (* enum *)
      destruct Hoff as [-> | [t' Ht]]; [|discriminate Ht].
      specialize (Henum en t eq_refl).
      unfold with_offset. cbn [Z.eqb]. rewrite exec_SAdd. cbn [eval]. rewrite He1. cbn [rbind ser_value].
      destruct v; try discriminate Henum; cbn [py_int]; try reflexivity; rewrite exec_add_int; cbn [as_int];
        match goal with |- context [w_add_int_of ?t ?w ?z] => destruct (w_add_int_of t w z) as [? ?]; reflexivity end.
    - (* string *)
      destruct Hoff as [-> | [t' Ht]]; [|discriminate Ht].
      specialize (Hlen enc eq_refl).
      unfold with_offset. cbn [Z.eqb]. destruct lenexpr as [le|].
      + destruct Hlen as [n [Hle ->]]. rewrite exec_SAddFixed, He1, Hle. cbn [ser_value]. unfold exec_add_fixed. cbn [as_int].
        destruct v; try reflexivity.
      + subst lenv. rewrite exec_SAdd, He1. cbn [ser_value]. destruct enc; cbn [exec_add]; destruct v; reflexivity.
    - (* blob *)
      destruct Hoff as [-> | [t' Ht]]; [|discriminate Ht].
      unfold with_offset. cbn [Z.eqb]. rewrite exec_SAdd, He1. cbn [ser_value exec_add]. destruct v; reflexivity.
    - (* struct *)
      destruct Hoff as [-> | [t' Ht]]; [|discriminate Ht].
      unfold with_offset. cbn [Z.eqb]. rewrite exec_SSerialize, He1. cbn [ser_value]. reflexivity.
  Qed.
End Write.

(* ---------------------------------------------------------------- guards around a named field *)
(* Ser.v's clauses for a named field / array / length field, with the write abstracted *)
Definition sem_named (f : fieldspec) (v : value) (write : wstate -> wres) (rmo : bool) (w : wstate) : wstate * res unit * bool :=
  let '(rmo', go) := opt_guard (f_optional f) (f_opt_first f) rmo v in
  if negb go then (w, Ok tt, rmo') else
  if negb (f_optional f) && (match f_hard f with None => true | Some _ => false end) && is_none v then (w, Err ESerialization, rmo') else
  match len_check f v with
  | Err e => (w, Err e, rmo')
  | Ok _ => let '(w', r) := write w in (w', r, rmo')
  end.

(* what the flag's binding looks like after an instruction *)
Definition rmo_after (L L' : locals) (rmo rmo' : bool) : Prop :=
  assoc L' RMO = Some (VBool rmo') \/ (assoc L' RMO = assoc L RMO /\ rmo' = rmo).

Section Guards.
  Variable rec : string -> value -> wstate -> wres.
  Variable data : list (string * value).

  Lemma none_guard_ok f n v L w :
    assoc data n = Some v ->
    exec_stmts rec data (none_guard f n) L w =
    if negb (f_optional f) && (match f_hard f with None => true | Some _ => false end) && is_none v
    then (w, Err ESerialization, L) else (w, Ok tt, L).
  Proof.
    intro Hv. unfold none_guard.
    destruct (negb (f_optional f) && match f_hard f with None => true | Some _ => false end); cbn [andb]; [|reflexivity].
    unfold raise_if. rewrite exec_one, exec_SIf. cbn [eval]. rewrite Hv. cbn [rbind py_truth].
    rewrite py_is_none_eq. destruct (is_none v); reflexivity.
  Qed.

  Lemma len_guard_ok f n v L w :
    f_name f = Some n -> assoc data n = Some v ->
    exec_stmts rec data (len_guard f n) L w =
    match len_check f v with Err e => (w, Err e, L) | Ok _ => (w, Ok tt, L) end.
  Proof.
    intros Hn Hv. unfold len_guard, len_check. rewrite Hn.
    destruct (f_len f) as [|k|lf]; [reflexivity| |].
    - unfold raise_if. rewrite exec_one, exec_SIf. cbn [eval]. rewrite Hv. cbn [rbind].
      destruct v; cbn [py_len_of py_len rbind]; try reflexivity;
        destruct (f_padded f); unfold py_cmp; cbn [as_int py_truth];
          match goal with |- context [if ?c then _ else _] => destruct c; reflexivity end.
    - unfold raise_if. rewrite exec_one, exec_SIf. cbn [eval]. rewrite Hv. cbn [rbind].
      destruct v; cbn [py_len_of py_len rbind]; try reflexivity;
        unfold py_cmp; cbn [as_int py_truth];
          match goal with |- context [if ?c then _ else _] => destruct c; reflexivity end.
  Qed.

  Lemma named_fieldlike_ok f n wr sem v L w rmo :
    f_name f = Some n -> assoc data n = Some v ->
    (f_optional f && negb (f_opt_first f) = true -> assoc L RMO = Some (VBool rmo)) ->
    (forall L1, (f_optional f = true \/ f_hard f = None -> is_none v = false) ->
                len_check f v = Ok tt ->
                exists L2, exec_stmts rec data wr L1 w = (let '(w', r) := sem w in (w', r, L2)) /\ ext_i L1 L2) ->
    forall w' r rmo', sem_named f v sem rmo w = (w', r, rmo') ->
    exists L', exec_stmts rec data (named_fieldlike f n wr) L w = (w', r, L') /\ ext L L' /\ rmo_after L L' rmo rmo'.
  Proof.
    intros Hn Hv Hrmo Hwr w' r rmo'. unfold sem_named, named_fieldlike, opt_wrap, opt_guard.
    (* the core, from any locals L1 *)
    assert (Hcore : forall L1 wc rc, 
               (f_optional f = true -> is_none v = false) ->
               (if negb (f_optional f) && (match f_hard f with None => true | Some _ => false end) && is_none v then (w, Err ESerialization)
                else match len_check f v with Err e => (w, Err e) | Ok _ => sem w end) = (wc, rc) ->
               exists L2, exec_stmts rec data (none_guard f n ++ len_guard f n ++ wr) L1 w = (wc, rc, L2) /\ ext_i L1 L2).
    { intros L1 wc rc Hopt Hc. rewrite exec_app, (none_guard_ok f n v L1 w Hv).
      destruct (negb (f_optional f) && match f_hard f with None => true | Some _ => false end && is_none v) eqn:Eg.
      - inversion Hc; subst. exists L1. split; [reflexivity | apply ext_i_refl].
      - rewrite exec_app, (len_guard_ok f n v L1 w Hn Hv).
        destruct (len_check f v) as [[]|e] eqn:Elc.
        + destruct (Hwr L1) as [L2 [Hx Hext]]; [|reflexivity|].
          * intros [Ho | Hh]; [auto|]. rewrite Hh in Eg. destruct (f_optional f); [auto|]. cbn in Eg. exact Eg.
          * exists L2. rewrite Hx, Hc. split; [reflexivity | exact Hext].
        + inversion Hc; subst. exists L1. split; [reflexivity | apply ext_i_refl]. }
    destruct (f_optional f) eqn:Eo.
    - (* optional *)
      set (rmo1 := (if f_opt_first f then false else rmo) || is_none v).
      assert (Hassign : exec_stmt rec data (SAssign RMO (if f_opt_first f then PIsNone (PSlot n) else POr (PVar RMO) (PIsNone (PSlot n)))) L w
                        = (w, Ok tt, (RMO, VBool rmo1) :: L)).
      { rewrite exec_SAssign. unfold rmo1. destruct (f_opt_first f) eqn:Ef; cbn [eval].
        - rewrite Hv. reflexivity.
        - rewrite Hrmo by reflexivity. cbn [rbind py_truth]. destruct rmo; cbn [eval orb]; [reflexivity|]. rewrite Hv. reflexivity. }
      rewrite exec_cons, Hassign, exec_one, exec_SIf. cbn [eval]. rewrite assoc_cons. cbn [String.eqb Ascii.eqb Bool.eqb RMO rbind py_truth].
      cbn [negb andb]. fold rmo1. destruct rmo1 eqn:E1; cbn [negb].
      + intro H; inversion H; subst. eexists. split; [reflexivity|]. split; [apply ext_cons_rmo | left; reflexivity].
      + intro H. 
        assert (Hnn : is_none v = false) by (unfold rmo1 in E1; apply orb_false_iff in E1; tauto).
        destruct (Hcore ((RMO, VBool false) :: L) w' r (fun _ => Hnn)) as [L2 [Hx Hext]].
        { cbn [negb andb]. destruct (len_check f v) as [[]|e]; [|inversion H; reflexivity].
          destruct (sem w) as [ws rs]. inversion H; reflexivity. }
        exists L2. split; [exact Hx|]. split.
        * eapply ext_trans; [apply ext_cons_rmo | apply ext_i_ext, Hext].
        * left. rewrite (ext_i_rmo _ _ Hext). rewrite assoc_cons. cbn.
          destruct (len_check f v) as [[]|e]; [destruct (sem w) as [ws rs]|]; inversion H; reflexivity.
    - (* not optional *)
      cbn [negb]. intro H.
      destruct (Hcore L w' r) as [L2 [Hx Hext]]; [discriminate| |].
      { cbn [negb andb] in *. destruct (match f_hard f with None => true | Some _ => false end && is_none v); [inversion H; reflexivity|].
        destruct (len_check f v) as [[]|e]; [|inversion H; reflexivity].
        destruct (sem w) as [ws rs]. inversion H; reflexivity. }
      exists L2. split; [exact Hx|]. split; [apply ext_i_ext, Hext|].
      right. split; [apply ext_i_rmo, Hext|].
      cbn [negb andb] in H. destruct (match f_hard f with None => true | Some _ => false end && is_none v); [inversion H; reflexivity|].
      destruct (len_check f v) as [[]|e]; [destruct (sem w) as [ws rs]|]; inversion H; reflexivity.
  Qed.
End Guards.

(* ---------------------------------------------------------------- the array loop *)
Definition elem_ok (ty : etype) (x : value) : Prop := match ty with EEnum _ _ => is_text x = false | _ => True end.

Section Loop.
  Variable rec : string -> value -> wstate -> wres.
  Variable data : list (string * value).

  Lemma write_stmt_err ty ve opt off lenexpr padded L w e :
    eval L data w ve = Err e ->
    exec_stmt rec data (write_stmt ty ve opt off lenexpr padded) L w = (w, Err e, L).
  Proof.
    intro He.
    assert (He1 : eval L data w (if opt then PCast (py_type_name ty) ve else ve) = Err e) by (destruct opt; exact He).
    unfold write_stmt. set (v1 := if opt then PCast (py_type_name ty) ve else ve) in *. clearbody v1.
    assert (Hoff : forall x, eval L data w x = Err e -> eval L data w (with_offset x off) = Err e).
    { intros x Hx. unfold with_offset. destruct (off =? 0); [exact Hx|]. destruct (off >? 0); cbn [eval]; rewrite Hx; reflexivity. }
    destruct ty as [t|t|en t|enc| |sn].
    - rewrite exec_SAdd, (Hoff _ He1). reflexivity.
    - rewrite exec_SAdd, Hoff; [reflexivity|]. cbn [eval]. rewrite He1. reflexivity.
    - rewrite exec_SAdd, Hoff; [reflexivity|]. cbn [eval]. rewrite He1. reflexivity.
    - destruct lenexpr; [rewrite exec_SAddFixed | rewrite exec_SAdd]; rewrite (Hoff _ He1); reflexivity.
    - rewrite exec_SAdd, (Hoff _ He1). reflexivity.
    - rewrite exec_SSerialize, (Hoff _ He1). reflexivity.
  Qed.

  Lemma add_ff_ok L w : exec_stmts rec data [SAdd MByte (PInt 255)] L w = (let '(w', r) := w_add_byte w 255 in (w', r, L)).
  Proof. rewrite exec_one, exec_SAdd. reflexivity. Qed.

  Lemma nth_error_mid {A} (pre rest : list A) :
    nth_error (pre ++ rest) (Z.to_nat (zlen pre)) = match rest with [] => None | x :: _ => Some x end.
  Proof.
    unfold zlen. rewrite Nat2Z.id. induction pre as [|a pre IH]; [destruct rest; reflexivity | exact IH].
  Qed.

  Lemma loop_ok ty opt padded n d t elems :
    assoc data n = Some (VList elems) -> Forall (elem_ok ty) elems ->
    forall k pre rest L w,
      elems = pre ++ rest ->
      exists L2,
        exec_loop rec data LOOP_VAR
                  ((if d && negb t then [SIf (PCmp CGt (PVar LOOP_VAR) (PInt 0)) [SAdd MByte (PInt 255)] []] else [])
                   ++ [write_stmt ty (PIndex (PSlot n) (PVar LOOP_VAR)) opt 0 None padded]
                   ++ (if d && t then [SAdd MByte (PInt 255)] else []))
                  k (zlen pre) L w
        = (let '(w', r) := ser_elems rec ty d t k (zlen pre) rest w in (w', r, L2)) /\ ext_i L L2.
  Proof.
    intros Hn Hel. induction k as [|k IH]; intros pre rest L w Hsplit.
    - exists L. split; [reflexivity | apply ext_i_refl].
    - cbn [exec_loop ser_elems]. set (L1 := (LOOP_VAR, VInt (zlen pre)) :: L).
      assert (HL1 : ext_i L L1) by apply ext_i_cons_i.
      rewrite exec_app.
      (* leading delimiter *)
      assert (HA : exec_stmts rec data (if d && negb t then [SIf (PCmp CGt (PVar LOOP_VAR) (PInt 0)) [SAdd MByte (PInt 255)] []] else []) L1 w
                   = (let '(w1, r1) := if d && negb t && (zlen pre >? 0) then w_add_byte w 255 else (w, Ok tt) in (w1, r1, L1))).
      { destruct (d && negb t); cbn [andb]; [|reflexivity].
        rewrite exec_one, exec_SIf. cbn [eval]. unfold L1 at 1. rewrite assoc_cons. cbn [LOOP_VAR String.eqb Ascii.eqb Bool.eqb rbind].
        unfold py_cmp. cbn [as_int py_truth]. destruct (zlen pre >? 0); [apply add_ff_ok | reflexivity]. }
      rewrite HA. destruct (if d && negb t && (zlen pre >? 0) then w_add_byte w 255 else (w, Ok tt)) as [w1 [[]|e1]].
      2:{ exists L1. split; [reflexivity | exact HL1]. }
      rewrite exec_app, exec_one.
      assert (Hidx : eval L1 data w1 (PIndex (PSlot n) (PVar LOOP_VAR)) = match rest with [] => Err EUnexpected | x :: _ => Ok x end).
      { cbn [eval]. rewrite Hn. unfold L1. rewrite assoc_cons. cbn [LOOP_VAR String.eqb Ascii.eqb Bool.eqb rbind].
        unfold py_index. cbn [as_int]. assert (0 <= zlen pre) by apply zlen_nonneg.
        destruct (zlen pre <? 0) eqn:E; [lia|]. rewrite Hsplit, nth_error_mid. destruct rest; reflexivity. }
      destruct rest as [|x rest'].
      + rewrite (write_stmt_err _ _ _ _ _ _ _ _ _ Hidx). exists L1. split; [reflexivity | exact HL1].
      + assert (Hx : elem_ok ty x).
        { rewrite Forall_forall in Hel. apply Hel. rewrite Hsplit. apply in_or_app. right. left. reflexivity. }
        rewrite (write_stmt_ok rec data ty _ opt 0 None padded L1 w1 x None Hidx).
        * rewrite (ser_value_nolen_padded rec ty x padded false).
          destruct (ser_value rec ty x None false 0 w1) as [w2 [[]|e2]].
          2:{ exists L1. split; [reflexivity | exact HL1]. }
          assert (HC : exec_stmts rec data (if d && t then [SAdd MByte (PInt 255)] else []) L1 w2
                       = (let '(w3, r3) := if d && t then w_add_byte w2 255 else (w2, Ok tt) in (w3, r3, L1))).
          { destruct (d && t); [apply add_ff_ok | reflexivity]. }
          rewrite HC. destruct (if d && t then w_add_byte w2 255 else (w2, Ok tt)) as [w3 [[]|e3]].
          2:{ exists L1. split; [reflexivity | exact HL1]. }
          destruct (IH (pre ++ [x]) rest' L1 w3) as [L2 [Hx2 Hext]].
          { rewrite Hsplit, <- app_assoc. reflexivity. }
          replace (zlen (pre ++ [x])) with (zlen pre + 1) in Hx2 by (rewrite zlen_app; reflexivity).
          exists L2. split; [exact Hx2 | eapply ext_i_trans; eassumption].
        * left; reflexivity.
        * intros enc _. reflexivity.
        * intros en tt' Hty. subst ty. exact Hx.
  Qed.
End Loop.

(* ---------------------------------------------------------------- side conditions on the slots *)
(* `flds` : the fields Ser.v reads (the public fields of the VObj);  `data` : the slots the emitted code reads
   (the same fields plus the length slots the constructor assigns: self._len = len(self._f) [if self._f is not None else None]) *)
Section SlotsOk.
  Variable flds data : list (string * value).

  Definition field_slots_ok (f : fieldspec) (array : bool) : Prop :=
    match f_name f with
    | None => True
    | Some n =>
      assoc data n = assoc flds n /\
      (* `rmo = rmo or data._n is None` does not read the slot when rmo is already True; Ser.v looks it up first *)
      (f_optional f && negb (f_opt_first f) = true -> assoc flds n <> None) /\
      (forall v, assoc flds n = Some v ->
         (* the referenced length slot holds len(self._n) *)
         (match f_len f with
          | LRef lf => if array || (match f_ty f with EStr _ => true | _ => false end)
                       then forall l, py_len v = Some l -> assoc data lf = Some (VInt l) else True
          | _ => True end) /\
         (* int(<str>) parses text; indexing a str / bytes yields characters / ints: the constructor stores tuple(..) *)
         (if array then is_text v = false /\ (forall elems, v = VList elems -> Forall (elem_ok (f_ty f)) elems)
          else elem_ok (f_ty f) v))
    end.

  Definition instr_slots_ok (i : einstr) : Prop :=
    match i with
    | EField f => field_slots_ok f false
    | EArray f _ _ _ => field_slots_ok f true
    | ELength name _ _ optional opt_first ref_by =>
      (match ref_by with
       | None => assoc data name = None
       | Some fr => match assoc flds fr with
                    | None => assoc data name = None
                    | Some fv => match length_slot fv with
                                 | Some sv => assoc data name = Some sv
                                 | None => False        (* len(<number / object>): the constructor raised, there is no such object *)
                                 end
                    end
       end) /\
      (optional && negb opt_first = true -> assoc data name <> None)
    | ESwitch field cases =>
      assoc data field = assoc flds field /\
      assoc data (field ++ "_data") = assoc flds (field ++ "_data") /\
      (cases = [] -> assoc flds field <> None)        (* a switch without cases never reads data._field *)
    | _ => True
    end.
End SlotsOk.

(* ---------------------------------------------------------------- one instruction *)
Section Instr.
  Variable rec : string -> value -> wstate -> wres.
  Variable flds data : list (string * value).
  Variable old_len : Z.

  Lemma lit_expr_ok ty lit e L w :
    lit_expr ty lit = Some e ->
    exists v v', eval L data w e = Ok v /\ lit_value ty lit = Ok v' /\ (forall n t, ty <> EEnum n t) /\
                 forall len p off w0, ser_value rec ty v len p off w0 = ser_value rec ty v' len p off w0.
  Proof.
    destruct ty as [t|t|en t|enc| |sn]; cbn [lit_expr lit_value]; try discriminate.
    - destruct (isdigit lit) eqn:D; [|discriminate]. intro H; inversion H; subst e.
      rewrite (parse_int_isdigit' lit D). exists (VInt (digits_val lit 0)), (VInt (digits_val lit 0)).
      repeat split; try reflexivity. intros; discriminate.
    - destruct (String.eqb lit "false") eqn:Ef.
      + apply String.eqb_eq in Ef. subst lit. intro H; inversion H; subst e. exists (VInt 0), (VBool false).
        repeat split; try reflexivity. intros; discriminate.
      + destruct (String.eqb lit "true") eqn:Et; [|discriminate]. intro H; inversion H; subst e. exists (VInt 1), (VBool true).
        repeat split; try reflexivity. intros; discriminate.
    - intro H; inversion H; subst e. exists (VStr (str_cps lit)), (VStr (str_cps lit)). repeat split; try reflexivity. intros; discriminate.
  Qed.

  Lemma named_fieldlike_missing f n wr L w :
    assoc data n = None ->
    f_optional f && negb (f_opt_first f) = false ->
    (f_len f = LNone -> forall L1, exists L2, exec_stmts rec data wr L1 w = (w, Err EAttribute, L2) /\ ext_i L1 L2) ->
    exists L', exec_stmts rec data (named_fieldlike f n wr) L w = (w, Err EAttribute, L') /\ ext L L' /\ assoc L' RMO = assoc L RMO.
  Proof.
    intros Hn Hof Hwr. unfold named_fieldlike, opt_wrap. destruct (f_optional f) eqn:Eo.
    - cbn [andb] in Hof. apply negb_false_iff in Hof. rewrite Hof.
      rewrite exec_cons, exec_SAssign. cbn [eval]. rewrite Hn. cbn [rbind]. exists L. repeat split; try reflexivity; try apply ext_refl.
    - unfold none_guard, len_guard. rewrite Eo. cbn [negb andb].
      assert (Hraise : forall c rest L1, eval L1 data w c = Err EAttribute -> exec_stmts rec data (raise_if c :: rest) L1 w = (w, Err EAttribute, L1)).
      { intros c rest L1 Hc. unfold raise_if. rewrite exec_cons, exec_SIf, Hc. reflexivity. }
      destruct (f_hard f).
      + destruct (f_len f); cbn [app].
        * destruct (Hwr eq_refl L) as [L2 [Hx He]]. exists L2. split; [exact Hx|]. split; [apply ext_i_ext, He | apply ext_i_rmo, He].
        * exists L. rewrite Hraise by (cbn [eval]; rewrite Hn; reflexivity). repeat split; try reflexivity; try apply ext_refl.
        * exists L. rewrite Hraise by (cbn [eval]; rewrite Hn; reflexivity). repeat split; try reflexivity; try apply ext_refl.
      + cbn [app]. exists L. rewrite Hraise by (cbn [eval]; rewrite Hn; reflexivity). repeat split; try reflexivity; try apply ext_refl.
  Qed.

  Lemma len_check_ref f n v lf :
    f_name f = Some n -> f_len f = LRef lf -> len_check f v = Ok tt -> exists l, py_len v = Some l.
  Proof.
    intros Hn Hl. unfold len_check. rewrite Hn, Hl. destruct (py_len v) as [l|]; [eauto | discriminate].
  Qed.
  Lemma len_check_lit f n v k :
    f_name f = Some n -> f_len f = LLit k -> len_check f v = Ok tt -> exists l, py_len v = Some l.
  Proof.
    intros Hn Hl. unfold len_check. rewrite Hn, Hl. destruct (py_len v) as [l|]; [eauto | discriminate].
  Qed.

  (* ---- EField ---- *)
  Lemma field_ok f ss L w rmo :
    render_instr (EField f) = Some ss -> instr_static_ok (EField f) = true -> instr_slots_ok flds data (EField f) ->
    (instr_needs_rmo (EField f) = true -> assoc L RMO = Some (VBool rmo)) ->
    forall w' r rmo', ser_instr rec flds old_len (EField f) rmo w = (w', r, rmo') ->
    exists L', exec_stmts rec data ss L w = (w', r, L') /\ ext L L' /\ rmo_after L L' rmo rmo'.
  Proof.
    cbn [render_instr instr_static_ok instr_slots_ok instr_needs_rmo ser_instr]. unfold fieldlike, field_slots_ok, ser_field.
    destruct (f_name f) as [n|] eqn:Hn.
    - (* named *)
      intros Hr _ [Hsame [Hpres Hv]] Hrmo w' r rmo'. inversion Hr; subst ss; clear Hr.
      destruct (assoc flds n) as [v|] eqn:Ev.
      + specialize (Hv v eq_refl). destruct Hv as [Hlenslot Helem]. cbn [orb] in Hlenslot.
        intro Hs.
        apply (named_fieldlike_ok rec data f n _ (fun w0 => ser_value rec (f_ty f) v
                   (match f_len f with LLit k => Some k | LRef _ => py_len v | LNone => None end) (f_padded f) 0 w0) v L w rmo Hn);
          [congruence | exact Hrmo | | exact Hs].
        intros L1 Hnn Hlc. exists L1. split; [|apply ext_i_refl].
        rewrite exec_one. apply write_stmt_ok.
        * cbn [eval]. rewrite Hsame. reflexivity.
        * left; reflexivity.
        * intros enc Hty. rewrite Hty in Hlenslot. destruct (f_len f) as [|k|lf] eqn:El; cbn [len_expr].
          -- reflexivity.
          -- exists k. split; reflexivity.
          -- destruct (len_check_ref f n v lf Hn El Hlc) as [l Hl]. exists l. cbn [eval]. rewrite (Hlenslot l Hl). split; [reflexivity | exact Hl].
        * intros en t Hty. unfold elem_ok in Helem. rewrite Hty in Helem. exact Helem.
      + intro Hs. inversion Hs; subst w' r rmo'; clear Hs.
        destruct (named_fieldlike_missing f n [write_stmt (f_ty f) (PSlot n) (f_optional f) 0 (len_expr (f_len f)) (f_padded f)] L w) as [L' [Hx [He Hr]]].
        * congruence.
        * destruct (f_optional f && negb (f_opt_first f)) eqn:E; [|reflexivity]. exfalso. apply Hpres; reflexivity.
        * intros _ L1. exists L1. split; [|apply ext_i_refl]. rewrite exec_one. apply write_stmt_err. cbn [eval]. rewrite Hsame. reflexivity.
        * exists L'. split; [exact Hx|]. split; [exact He|]. right. split; [exact Hr | reflexivity].
    - (* unnamed hardcoded *)
      cbn [orb]. destruct (f_optional f) eqn:Eo; [discriminate|].
      destruct (f_hard f) as [lit|]; [|discriminate].
      destruct (lit_expr (f_ty f) lit) as [e|] eqn:Ee; [|discriminate].
      intros Hr Hst _ _ w' r rmo'. inversion Hr; subst ss; clear Hr.
      destruct (lit_expr_ok (f_ty f) lit e L w Ee) as [v [v' [Hev [Hlv [Hne Hsv]]]]]. rewrite Hlv.
      intro Hs. exists L. rewrite exec_one.
      rewrite (write_stmt_ok rec data (f_ty f) e false 0 (len_expr (f_len f)) (f_padded f) L w v
                             (match f_len f with LLit k => Some k | _ => None end) Hev).
      + rewrite Hsv. destruct (ser_value rec (f_ty f) v' _ (f_padded f) 0 w) as [w1 r1]. inversion Hs; subst.
        split; [reflexivity|]. split; [apply ext_refl | right; split; reflexivity].
      + left; reflexivity.
      + intros enc _. destruct (f_len f) as [|k|lf]; cbn [len_expr]; [reflexivity | exists k; split; reflexivity | discriminate Hst].
      + intros en t Hty. exfalso. exact (Hne en t Hty).
  Qed.
End Instr.

Section Instr2.
  Variable rec : string -> value -> wstate -> wres.
  Variable flds data : list (string * value).
  Variable old_len : Z.

  (* ---- EArray ---- *)
  Lemma array_ok f d t c ss L w rmo :
    render_instr (EArray f d t c) = Some ss -> instr_static_ok (EArray f d t c) = true -> instr_slots_ok flds data (EArray f d t c) ->
    (instr_needs_rmo (EArray f d t c) = true -> assoc L RMO = Some (VBool rmo)) ->
    forall w' r rmo', ser_instr rec flds old_len (EArray f d t c) rmo w = (w', r, rmo') ->
    exists L', exec_stmts rec data ss L w = (w', r, L') /\ ext L L' /\ rmo_after L L' rmo rmo'.
  Proof.
    cbn [render_instr instr_static_ok instr_slots_ok instr_needs_rmo ser_instr]. unfold fieldlike, field_slots_ok, ser_array.
    destruct (f_name f) as [n|] eqn:Hn; [|discriminate].
    destruct (f_hard f) eqn:Eh; [discriminate|].
    intros Hr _ [Hsame [Hpres Hv]] Hrmo w' r rmo'. inversion Hr; subst ss; clear Hr.
    destruct (assoc flds n) as [v|] eqn:Ev.
    - specialize (Hv v eq_refl). destruct Hv as [Hlenslot [Htext Helems]]. cbn [orb] in Hlenslot.
      intro Hs.
      apply (named_fieldlike_ok rec data f n _
               (fun w0 => match v with
                          | VList elems => ser_elems rec (f_ty f) d t (Z.to_nat (match f_len f with LLit k => k | _ => zlen elems end)) 0 elems w0
                          | _ => (w0, Err EType)
                          end) v L w rmo Hn); [congruence | exact Hrmo | | ].
      + intros L1 _ Hlc. unfold array_loop. rewrite exec_one, exec_SFor.
        assert (Hloop : forall elems k, v = VList elems ->
                  exists L2, exec_loop rec data LOOP_VAR
                    ((if d && negb t then [SIf (PCmp CGt (PVar LOOP_VAR) (PInt 0)) [SAdd MByte (PInt 255)] []] else [])
                     ++ [write_stmt (f_ty f) (PIndex (PSlot n) (PVar LOOP_VAR)) (f_optional f) 0 None (f_padded f)]
                     ++ (if d && t then [SAdd MByte (PInt 255)] else [])) k 0 L1 w
                  = (let '(w1, r1) := ser_elems rec (f_ty f) d t k 0 elems w in (w1, r1, L2)) /\ ext_i L1 L2).
        { intros elems k Hve. subst v.
          destruct (loop_ok rec data (f_ty f) (f_optional f) (f_padded f) n d t elems Hsame (Helems elems eq_refl) k [] elems L1 w eq_refl)
            as [L2 [Hx He]].
          exists L2. split; [exact Hx | exact He]. }
        destruct (f_len f) as [|k|lf] eqn:El; cbn [len_expr].
        * (* no length: range(len(data._n)) *)
          cbn [eval]. rewrite Hsame. cbn [rbind].
          destruct v; cbn [py_len_of as_int]; try discriminate Htext;
            try (exists L1; split; [reflexivity | apply ext_i_refl]).
          apply Hloop. reflexivity.
        * (* literal length *)
          cbn [eval as_int].
          destruct (len_check_lit f n v k Hn El Hlc) as [l Hl].
          destruct v; try discriminate Hl; try discriminate Htext. apply Hloop. reflexivity.
        * (* length field *)
          destruct (len_check_ref f n v lf Hn El Hlc) as [l Hl].
          cbn [eval]. rewrite (Hlenslot l Hl). cbn [as_int].
          destruct v; try discriminate Hl; try discriminate Htext. cbn [py_len] in Hl. inversion Hl; subst l. apply Hloop. reflexivity.
      + unfold sem_named. rewrite Eh. destruct (opt_guard (f_optional f) (f_opt_first f) rmo v) as [rmo1 go].
        destruct (negb go); [exact Hs|]. rewrite andb_true_r.
        destruct (negb (f_optional f) && is_none v); [exact Hs|].
        destruct (len_check f v); [|exact Hs]. destruct v; exact Hs.
    - intro Hs. inversion Hs; subst w' r rmo'; clear Hs.
      destruct (named_fieldlike_missing rec data f n (array_loop f n d t 0) L w) as [L' [Hx [He Hr]]].
      + congruence.
      + destruct (f_optional f && negb (f_opt_first f)) eqn:E; [|reflexivity]. exfalso. apply Hpres; reflexivity.
      + intros El L1. exists L1. split; [|apply ext_i_refl]. unfold array_loop. rewrite exec_one, exec_SFor, El.
        cbn [len_expr eval]. rewrite Hsame. reflexivity.
      + exists L'. split; [exact Hx|]. split; [exact He|]. right. split; [exact Hr | reflexivity].
  Qed.
End Instr2.

Section Instr3.
  Variable rec : string -> value -> wstate -> wres.
  Variable flds data : list (string * value).
  Variable old_len : Z.

  Lemma length_slot_shape fv sv : length_slot fv = Some sv -> sv = VNone \/ exists l, sv = VInt l.
  Proof.
    unfold length_slot. destruct (py_len fv) as [l|]; [intro H; inversion H; right; eauto|].
    destruct (is_none fv); [intro H; inversion H; left; reflexivity | discriminate].
  Qed.

  (* ---- ELength ---- *)
  Lemma length_ok name t off optional opt_first ref_by ss L w rmo :
    let i := ELength name t off optional opt_first ref_by in
    render_instr i = Some ss -> instr_slots_ok flds data i ->
    (instr_needs_rmo i = true -> assoc L RMO = Some (VBool rmo)) ->
    forall w' r rmo', ser_instr rec flds old_len i rmo w = (w', r, rmo') ->
    exists L', exec_stmts rec data ss L w = (w', r, L') /\ ext L L' /\ rmo_after L L' rmo rmo'.
  Proof.
    cbn zeta. cbn [render_instr instr_slots_ok instr_needs_rmo ser_instr]. unfold fieldlike. cbn [f_name].
    set (f := mkField (Some name) (EInt t) LNone false optional opt_first None 0).
    intros Hr [Hslot Hpres] Hrmo w' r rmo'. inversion Hr; subst ss; clear Hr.
    change (f_ty f) with (EInt t). change (f_optional f) with optional. change (f_len f) with LNone. change (f_padded f) with false.
    cbn [len_expr].
    assert (Hmissing : assoc data name = None -> forall rr, rr = (w, Err EAttribute, rmo) -> rr = (w', r, rmo') ->
              exists L', exec_stmts rec data (named_fieldlike f name [write_stmt (EInt t) (PSlot name) optional off None false]) L w = (w', r, L')
                         /\ ext L L' /\ rmo_after L L' rmo rmo').
    { intros Hnone rr -> Hs. inversion Hs; subst w' r rmo'; clear Hs.
      destruct (named_fieldlike_missing rec data f name [write_stmt (EInt t) (PSlot name) optional off None false] L w Hnone) as [L' [Hx [He Hr]]].
      - change (optional && negb opt_first = false). destruct (optional && negb opt_first) eqn:E; [|reflexivity]. exfalso. apply Hpres; [reflexivity | exact Hnone].
      - intros _ L1. exists L1. split; [|apply ext_i_refl]. rewrite exec_one. apply write_stmt_err. cbn [eval]. rewrite Hnone. reflexivity.
      - exists L'. split; [exact Hx|]. split; [exact He|]. right. split; [exact Hr | reflexivity]. }
    destruct ref_by as [fr|]; [|intro Hs; eapply Hmissing; [exact Hslot | reflexivity | exact Hs]].
    destruct (assoc flds fr) as [fv|]; [|intro Hs; eapply Hmissing; [exact Hslot | reflexivity | exact Hs]].
    destruct (length_slot fv) as [sv|] eqn:Els; [|contradiction].
    intro Hs.
    apply (named_fieldlike_ok rec data f name _ (fun w0 => ser_value rec (EInt t) sv None false off w0) sv L w rmo eq_refl Hslot Hrmo).
    - intros L1 _ _. exists L1. split; [|apply ext_i_refl]. rewrite exec_one.
      apply (write_stmt_ok rec data (EInt t) (PSlot name) optional off None false L1 w sv None).
      + cbn [eval]. rewrite Hslot. reflexivity.
      + right. eauto.
      + intros enc Hty. discriminate Hty.
      + intros en t' Hty. discriminate Hty.
    - unfold sem_named. change (f_optional f) with optional. change (f_opt_first f) with opt_first. change (f_hard f) with (@None string).
      change (len_check f sv) with (@Ok unit tt).
      destruct (opt_guard optional opt_first rmo sv) as [rmo1 go] eqn:Eg.
      destruct (negb go) eqn:Ego; [exact Hs|].
      destruct (length_slot_shape fv sv Els) as [-> | [l ->]].
      + (* the slot is None: optional fields stop here (go = false), non-optional raise *)
        unfold opt_guard in Eg. destruct optional.
        * cbn [is_none] in Eg. rewrite orb_true_r in Eg. inversion Eg; subst. discriminate Ego.
        * cbn [negb andb is_none]. exact Hs.
      + cbn [is_none]. rewrite andb_false_r. cbn [ser_value]. exact Hs.
  Qed.

  (* ---- EDummy ---- *)
  Lemma dummy_ok ty lit guarded ss L w rmo :
    let i := EDummy ty lit guarded in
    render_instr i = Some ss ->
    (instr_needs_old i = true -> assoc L OLD_LEN = Some (VInt old_len)) ->
    forall w' r rmo', ser_instr rec flds old_len i rmo w = (w', r, rmo') ->
    exists L', exec_stmts rec data ss L w = (w', r, L') /\ ext L L' /\ rmo_after L L' rmo rmo'.
  Proof.
    cbn zeta. cbn [render_instr instr_needs_old ser_instr]. unfold fieldlike. cbn [f_name f_optional f_hard f_ty f_len f_padded orb len_expr].
    destruct (lit_expr ty lit) as [e|] eqn:Ee; [|discriminate].
    intros Hr Hold w' r rmo'. inversion Hr; subst ss; clear Hr.
    destruct (lit_expr_ok rec data ty lit e L w Ee) as [v [v' [Hev [Hlv [Hne Hsv]]]]]. rewrite Hlv.
    assert (Hcore : exec_stmts rec data [write_stmt ty e false 0 None false] L w = (let '(w1, r1) := ser_value rec ty v' None false 0 w in (w1, r1, L))).
    { rewrite exec_one, (write_stmt_ok rec data ty e false 0 None false L w v None Hev).
      - rewrite Hsv. reflexivity.
      - left; reflexivity.
      - intros enc _. reflexivity.
      - intros en t Hty. exfalso. exact (Hne en t Hty). }
    destruct guarded; cbn [andb].
    - rewrite exec_one, exec_SIf. cbn [eval]. rewrite (Hold eq_refl). cbn [rbind]. unfold py_cmp. cbn [as_int py_truth].
      destruct (zlen (wdata w) =? old_len); cbn [negb].
      + rewrite Hcore. destruct (ser_value rec ty v' None false 0 w) as [w1 r1]. intro Hs; inversion Hs; subst.
        exists L. split; [reflexivity|]. split; [apply ext_refl | right; split; reflexivity].
      + intro Hs; inversion Hs; subst. exists L. split; [reflexivity|]. split; [apply ext_refl | right; split; reflexivity].
    - rewrite Hcore. destruct (ser_value rec ty v' None false 0 w) as [w1 r1]. intro Hs; inversion Hs; subst.
      exists L. split; [reflexivity|]. split; [apply ext_refl | right; split; reflexivity].
  Qed.

  (* ---- ESwitch ---- *)
  Definition sem_case (dv : value) (c : ecase) (w : wstate) : wres :=
    match c_cls c with
    | None => if is_none dv then (w, Ok tt) else (w, Err ESerialization)
    | Some cls =>
      match obj_class dv with
      | Some c' => if String.eqb c' cls then rec cls dv w else (w, Err ESerialization)
      | None => (w, Err ESerialization)
      end
    end.

  Lemma case_body_ok dn dv c L w :
    assoc data dn = Some dv ->
    exec_stmts rec data (case_body dn c) L w = (let '(w', r) := sem_case dv c w in (w', r, L)).
  Proof.
    intro Hd. unfold case_body, sem_case, raise_if. destruct (c_cls c) as [cls|].
    - rewrite exec_cons, exec_SIf. cbn [eval]. rewrite Hd. cbn [rbind py_truth].
      destruct dv; cbn [py_isinstance obj_class negb]; try reflexivity.
      destruct (String.eqb cls0 cls); cbn [negb]; [|reflexivity].
      rewrite exec_nil, exec_one, exec_SSerialize. cbn [eval]. rewrite Hd. reflexivity.
    - rewrite exec_one, exec_SIf. cbn [eval]. rewrite Hd. cbn [rbind py_truth]. rewrite py_is_none_eq.
      destruct (is_none dv); reflexivity.
  Qed.
  Lemma case_body_missing dn c L w :
    assoc data dn = None -> exec_stmts rec data (case_body dn c) L w = (w, Err EAttribute, L).
  Proof.
    intro Hd. unfold case_body, raise_if. destruct (c_cls c) as [cls|]; rewrite exec_cons, exec_SIf; cbn [eval]; rewrite Hd; reflexivity.
  Qed.

  Lemma case_chain_ok field dn fv cases : 
    assoc data field = Some fv ->
    forall ss L w, case_chain field dn cases = Some ss ->
    exec_stmts rec data ss L w =
    match assoc data dn with
    | None => (w, Err EAttribute, L)
    | Some dv =>
      match find_case cases (as_int fv) with
      | None => if is_none dv then (w, Ok tt, L) else (w, Err ESerialization, L)
      | Some c => let '(w', r) := sem_case dv c w in (w', r, L)
      end
    end.
  Proof.
    intro Hf. induction cases as [|c cases IH]; intros ss L w; cbn [case_chain find_case].
    - intro H; inversion H; subst ss. unfold raise_if. rewrite exec_one, exec_SIf. cbn [eval].
      destruct (assoc data dn) as [dv|]; [|reflexivity]. cbn [rbind py_truth]. rewrite py_is_none_eq. destruct (is_none dv); reflexivity.
    - destruct (c_key c) as [k|].
      + destruct (case_chain field dn cases) as [el|]; [|discriminate]. intro H; inversion H; subst ss.
        rewrite exec_one, exec_SIf. cbn [eval]. rewrite Hf. cbn [rbind]. unfold py_cmp. cbn [as_int].
        destruct (as_int fv) as [x|].
        * cbn [py_truth]. destruct (x =? k).
          -- destruct (assoc data dn) as [dv|] eqn:Ed; [apply case_body_ok, Ed | apply case_body_missing, Ed].
          -- apply IH. reflexivity.
        * cbn [py_truth]. apply IH. reflexivity.
      + destruct cases; [|discriminate]. intro H; inversion H; subst ss.
        destruct (assoc data dn) as [dv|] eqn:Ed; [apply case_body_ok, Ed | apply case_body_missing, Ed].
  Qed.

  Lemma chain_missing_field field dn cases ss L w :
    assoc data field = None -> cases <> [] -> (match cases with c :: _ => c_key c <> CKDefault | [] => True end) ->
    case_chain field dn cases = Some ss -> exec_stmts rec data ss L w = (w, Err EAttribute, L).
  Proof.
    intros Hf Hne Hk. destruct cases as [|c cases]; [congruence|]. cbn [case_chain].
    destruct (c_key c) as [k|]; [|congruence].
    destruct (case_chain field dn cases) as [el|]; [|discriminate]. intro H; inversion H; subst ss.
    rewrite exec_one, exec_SIf. cbn [eval]. rewrite Hf. reflexivity.
  Qed.

  Lemma switch_ok field cases ss L w rmo :
    let i := ESwitch field cases in
    render_instr i = Some ss -> instr_slots_ok flds data i ->
    forall w' r rmo', ser_instr rec flds old_len i rmo w = (w', r, rmo') ->
    exists L', exec_stmts rec data ss L w = (w', r, L') /\ ext L L' /\ rmo_after L L' rmo rmo'.
  Proof.
    cbn zeta. cbn [render_instr instr_slots_ok ser_instr].
    intros Hr [Hf [Hd Hempty]] w' r rmo' Hs. exists L.
    split; [|split; [apply ext_refl | right; split; [reflexivity|]]].
    2:{ destruct (assoc flds field); [|inversion Hs; reflexivity]. destruct (assoc flds (field ++ "_data")); [|inversion Hs; reflexivity].
        destruct (find_case cases _) as [c|]; [destruct (c_cls c) as [cls|]; [destruct (obj_class v0); [destruct (String.eqb _ _); [destruct (rec cls v0 w)|]|]|]|];
          try (destruct (is_none v0)); inversion Hs; reflexivity. }
    assert (Hchain : case_chain field (field ++ "_data") cases = Some ss /\ (match cases with c :: _ => c_key c <> CKDefault | [] => True end)).
    { destruct cases as [|c cs]; [split; [exact Hr | exact I]|]. destruct (c_key c) eqn:Ek; [|discriminate]. split; [exact Hr | discriminate]. }
    destruct Hchain as [Hc Hk].
    destruct (assoc flds field) as [fv|] eqn:Ef.
    - rewrite (case_chain_ok field _ fv cases Hf ss L w Hc), Hd.
      change (match fv with VInt z => Some z | VBool b => Some (if b then 1 else 0) | _ => None end) with (as_int fv) in Hs.
      destruct (assoc flds (field ++ "_data")) as [dv|]; [|inversion Hs; reflexivity].
      destruct (find_case cases (as_int fv)) as [c|].
      + unfold sem_case. destruct (c_cls c) as [cls|].
        * destruct (obj_class dv) as [c'|]; [|inversion Hs; reflexivity].
          destruct (String.eqb c' cls); [|inversion Hs; reflexivity].
          destruct (rec cls dv w) as [w1 r1]. inversion Hs; reflexivity.
        * destruct (is_none dv); inversion Hs; reflexivity.
      + destruct (is_none dv); inversion Hs; reflexivity.
    - inversion Hs; subst. apply (chain_missing_field field (field ++ "_data") cases ss L w' Hf); [|exact Hk | exact Hc].
      intro Hc0. apply Hempty; [exact Hc0 | reflexivity].
  Qed.

  (* ---- all instructions ---- *)
  Theorem instr_ok i ss L w rmo :
    render_instr i = Some ss -> instr_static_ok i = true -> instr_slots_ok flds data i ->
    (instr_needs_rmo i = true -> assoc L RMO = Some (VBool rmo)) ->
    (instr_needs_old i = true -> assoc L OLD_LEN = Some (VInt old_len)) ->
    forall w' r rmo', ser_instr rec flds old_len i rmo w = (w', r, rmo') ->
    exists L', exec_stmts rec data ss L w = (w', r, L') /\ ext L L' /\ rmo_after L L' rmo rmo'.
  Proof.
    destruct i as [f|f d t c|name t off optional opt_first ref_by|ty lit guarded|field cases|b|]; intros Hr Hst Hsl Hrmo Hold w' r rmo' Hs.
    - eapply field_ok; eassumption.
    - eapply array_ok; eassumption.
    - eapply length_ok; eassumption.
    - eapply dummy_ok; eassumption.
    - eapply switch_ok; eassumption.
    - cbn [render_instr] in Hr. inversion Hr; subst ss. cbn [ser_instr] in Hs. inversion Hs; subst.
      exists L. rewrite exec_one, exec_SSetMode. cbn [eval]. split; [reflexivity|]. split; [apply ext_refl | right; split; reflexivity].
    - cbn [render_instr] in Hr. inversion Hr; subst ss. cbn [ser_instr] in Hs.
      exists L. rewrite add_ff_ok. destruct (w_add_byte w 255) as [w1 r1]. inversion Hs; subst.
      split; [reflexivity|]. split; [apply ext_refl | right; split; reflexivity].
  Qed.
End Instr3.

(* ---------------------------------------------------------------- the instruction list and the method body *)
Section Main.
  Variable rec : string -> value -> wstate -> wres.
  Variable flds data : list (string * value).

  Lemma ext_old L L' : ext L L' -> assoc L' OLD_LEN = assoc L OLD_LEN.
  Proof. intro H. apply H; discriminate. Qed.
  Lemma ext_mode L L' : ext L L' -> assoc L' OLD_MODE = assoc L OLD_MODE.
  Proof. intro H. apply H; discriminate. Qed.

  (* MAIN THEOREM (instruction list): the rendered statements compute ser_instrs *)
  Theorem render_ser_correct old_len is :
    forall ss L w rmo,
      render_ser is = Some ss ->
      static_ok is = true ->
      Forall (instr_slots_ok flds data) is ->
      (needs_rmo is = true -> assoc L RMO = Some (VBool rmo)) ->
      (needs_old is = true -> assoc L OLD_LEN = Some (VInt old_len)) ->
      forall w' r, ser_instrs rec flds old_len is rmo w = (w', r) ->
      exists L', exec_stmts rec data ss L w = (w', r, L') /\ ext L L'.
  Proof.
    induction is as [|i t IH]; intros ss L w rmo Hr Hst Hsl Hrmo Hold w' r Hs.
    - cbn [render_ser] in Hr. inversion Hr; subst ss. cbn [ser_instrs] in Hs. inversion Hs; subst.
      exists L. split; [reflexivity | apply ext_refl].
    - cbn [render_ser] in Hr. destruct (render_instr i) as [a|] eqn:Ea; [|discriminate].
      destruct (render_ser t) as [b|] eqn:Eb; [|discriminate]. inversion Hr; subst ss; clear Hr.
      cbn [static_ok forallb] in Hst. apply andb_true_iff in Hst as [Hst1 Hst2].
      inversion Hsl as [|i' t' Hsl1 Hsl2]; subst i' t'.
      unfold needs_rmo, needs_old in Hrmo, Hold. cbn [existsb] in Hrmo, Hold.
      cbn [ser_instrs] in Hs. destruct (ser_instr rec flds old_len i rmo w) as [[w1 r1] rmo1] eqn:Ei.
      destruct (instr_ok rec flds data old_len i a L w rmo Ea Hst1 Hsl1) with (w' := w1) (r := r1) (rmo' := rmo1) as [L1 [Hx [He Hra]]].
      + intro H. apply Hrmo. rewrite H. reflexivity.
      + intro H. apply Hold. rewrite H. reflexivity.
      + exact Ei.
      + rewrite exec_app, Hx. destruct r1 as [[]|e1].
        * destruct (IH b L1 w1 rmo1 eq_refl Hst2 Hsl2) with (w' := w') (r := r) as [L2 [Hx2 He2]].
          -- intro Ht. destruct Hra as [Hl | [Hsame ->]]; [exact Hl|]. rewrite Hsame. apply Hrmo. fold (needs_rmo t). rewrite Ht. apply orb_true_r.
          -- intro Ht. rewrite (ext_old _ _ He). apply Hold. fold (needs_old t). rewrite Ht. apply orb_true_r.
          -- exact Hs.
          -- exists L2. split; [exact Hx2 | eapply ext_trans; eassumption].
        * inversion Hs; subst. exists L1. split; [reflexivity | exact He].
  Qed.

  Lemma header_ok is w :
    exists L0, exec_stmts rec data (header is) [] w = (w, Ok tt, L0) /\
               assoc L0 OLD_MODE = Some (VBool (wsan w)) /\
               (needs_rmo is = true -> assoc L0 RMO = Some (VBool false)) /\
               (needs_old is = true -> assoc L0 OLD_LEN = Some (VInt (zlen (wdata w)))).
  Proof.
    unfold header. destruct (needs_old is), (needs_rmo is); cbn [app]; eexists;
      (split; [reflexivity | split; [reflexivity | split; intro H; try discriminate H; reflexivity]]).
  Qed.

  (* MAIN THEOREM (method body): def serialize(writer, data) of a class with body `d`, run on an instance whose public
     fields are `flds` and whose slots are `data`, is ser_body *)
  Theorem render_serialize_correct d cls ss w :
    render_serialize (sd_body d) = Some ss ->
    static_ok (sd_body d) = true ->
    Forall (instr_slots_ok flds data) (sd_body d) ->
    forall w' r, ser_body rec d (VObj cls flds) w = (w', r) ->
    exists L', exec_stmts rec data ss [] w = (w', r, L').
  Proof.
    unfold render_serialize. destruct (render_ser (sd_body d)) as [body|] eqn:Eb; [|discriminate].
    intros Hr Hst Hsl w' r Hs.
    assert (Hss : ss = header (sd_body d) ++ [STryFinally body [SSetMode (PVar OLD_MODE)]]) by (destruct body; [discriminate | inversion Hr; reflexivity]).
    subst ss. clear Hr.
    destruct (header_ok (sd_body d) w) as [L0 [Hh [Hmode [Hrmo Hold]]]].
    rewrite exec_app, Hh, exec_one, exec_STry.
    cbn [ser_body] in Hs. destruct (ser_instrs rec flds (zlen (wdata w)) (sd_body d) false w) as [w1 r1] eqn:Ei.
    destruct (render_ser_correct (zlen (wdata w)) (sd_body d) body L0 w false Eb Hst Hsl Hrmo Hold w1 r1 Ei) as [L1 [Hx He]].
    rewrite Hx, exec_one, exec_SSetMode. cbn [eval]. rewrite (ext_mode _ _ He), Hmode. inversion Hs; subst.
    exists L1. destruct r; reflexivity.
  Qed.
End Main.

(* ---------------------------------------------------------------- soundness of the executable comparison *)
Lemma cmpop_eqb_eq a b : cmpop_eqb a b = true -> a = b.
Proof. destruct a, b; simpl; congruence. Qed.
Lemma binop_eqb_eq a b : binop_eqb a b = true -> a = b.
Proof. destruct a, b; simpl; congruence. Qed.
Lemma wmeth_eqb_eq a b : wmeth_eqb a b = true -> a = b.
Proof. destruct a, b; simpl; congruence. Qed.

Ltac eqb_split :=
  repeat match goal with
         | H : _ && _ = true |- _ => apply andb_true_iff in H as [? ?]
         end;
  repeat match goal with
         | H : String.eqb _ _ = true |- _ => apply String.eqb_eq in H
         | H : Bool.eqb _ _ = true |- _ => apply Bool.eqb_prop in H
         | H : (_ =? _) = true |- _ => apply Z.eqb_eq in H
         | H : cmpop_eqb _ _ = true |- _ => apply cmpop_eqb_eq in H
         | H : binop_eqb _ _ = true |- _ => apply binop_eqb_eq in H
         | H : wmeth_eqb _ _ = true |- _ => apply wmeth_eqb_eq in H
         end.

Lemma pexpr_eqb_eq a : forall b, pexpr_eqb a b = true -> a = b.
Proof.
  induction a; intros e' H; destruct e'; cbn [pexpr_eqb] in H; try discriminate H; eqb_split;
    repeat match goal with
           | IH : forall b, pexpr_eqb ?a b = true -> ?a = b, H : pexpr_eqb ?a _ = true |- _ => apply IH in H
           end; subst; reflexivity.
Qed.

Lemma pstmts_eqb_unfold a b :
  (fix eqs (l1 l2 : list pstmt) {struct l1} : bool :=
     match l1, l2 with
     | [], [] => true
     | x :: t1, y :: t2 => pstmt_eqb x y && eqs t1 t2
     | _, _ => false
     end) a b = pstmts_eqb a b.
Proof. revert b; induction a as [|x a IH]; intros [|y b]; cbn; try reflexivity; try (rewrite IH; reflexivity). Qed.

Fixpoint pstmt_eqb_eq (a : pstmt) {struct a} : forall b, pstmt_eqb a b = true -> a = b.
Proof.
  assert (Hl : forall l, (forall x, In x l -> forall y, pstmt_eqb x y = true -> x = y) -> forall l', pstmts_eqb l l' = true -> l = l').
  { induction l as [|x l IHl]; intros Hin [|y l'] H; cbn [pstmts_eqb] in H; try discriminate H; [reflexivity|].
    apply andb_true_iff in H as [H1 H2]. f_equal; [apply Hin; [left; reflexivity | exact H1] | apply IHl; [intros; apply Hin; [right; assumption | assumption] | exact H2]]. }
  destruct a; intros s' H; destruct s'; cbn [pstmt_eqb] in H; try discriminate H; rewrite ?pstmts_eqb_unfold in H; eqb_split;
    repeat match goal with
           | H : pexpr_eqb _ _ = true |- _ => apply pexpr_eqb_eq in H
           end; subst; try reflexivity.
  - f_equal; (apply Hl; [|assumption]).
    + clear -pstmt_eqb_eq. induction th as [|s th IH]; intros x Hin; [destruct Hin | destruct Hin as [<-|Hin]; [apply pstmt_eqb_eq | apply IH, Hin]].
    + clear -pstmt_eqb_eq. induction el as [|s el IH]; intros x Hin; [destruct Hin | destruct Hin as [<-|Hin]; [apply pstmt_eqb_eq | apply IH, Hin]].
  - f_equal. apply Hl; [|assumption].
    clear -pstmt_eqb_eq. induction body as [|s body IH]; intros x Hin; [destruct Hin | destruct Hin as [<-|Hin]; [apply pstmt_eqb_eq | apply IH, Hin]].
  - f_equal; (apply Hl; [|assumption]).
    + clear -pstmt_eqb_eq. induction body as [|s body IH]; intros x Hin; [destruct Hin | destruct Hin as [<-|Hin]; [apply pstmt_eqb_eq | apply IH, Hin]].
    + clear -pstmt_eqb_eq. induction fin as [|s fin IH]; intros x Hin; [destruct Hin | destruct Hin as [<-|Hin]; [apply pstmt_eqb_eq | apply IH, Hin]].
Qed.

Lemma pstmts_eqb_eq l : forall l', pstmts_eqb l l' = true -> l = l'.
Proof.
  induction l as [|x l IH]; intros [|y l'] H; cbn [pstmts_eqb] in H; try discriminate H; [reflexivity|].
  apply andb_true_iff in H as [H1 H2]. f_equal; [apply pstmt_eqb_eq, H1 | apply IH, H2].
Qed.

(* replacing Enum.Member by its integer value does not change what the statements do *)
Section Erase.
  Variable rec : string -> value -> wstate -> wres.
  Variable data : list (string * value).

  Lemma erase_e_ok L w e : eval L data w (erase_e e) = eval L data w e.
  Proof.
    induction e; cbn [erase_e eval]; try reflexivity;
      repeat match goal with H : eval _ _ _ (erase_e _) = _ |- _ => rewrite H; clear H end; reflexivity.
  Qed.

  Lemma exec_loop_ext x b1 b2 :
    (forall L w, exec_stmts rec data b1 L w = exec_stmts rec data b2 L w) ->
    forall k i L w, exec_loop rec data x b1 k i L w = exec_loop rec data x b2 k i L w.
  Proof.
    intros Hb. induction k as [|k IH]; intros i L w; cbn [exec_loop]; [reflexivity|].
    rewrite Hb. destruct (exec_stmts rec data b2 ((x, VInt i) :: L) w) as [[w1 [u|e]] L1]; [apply IH | reflexivity].
  Qed.

  Fixpoint erase_s_ok (s : pstmt) {struct s} : forall L w, exec_stmt rec data (erase_s s) L w = exec_stmt rec data s L w.
  Proof.
    assert (Hl : forall l, (forall x, In x l -> forall L w, exec_stmt rec data (erase_s x) L w = exec_stmt rec data x L w) ->
                           forall L w, exec_stmts rec data (map erase_s l) L w = exec_stmts rec data l L w).
    { induction l as [|x l IHl]; intros Hin L w; [reflexivity|]. cbn [map]. rewrite !exec_cons, Hin by (left; reflexivity).
      destruct (exec_stmt rec data x L w) as [[w1 [u|e]] L1]; [|reflexivity]. apply IHl. intros; apply Hin; right; assumption. }
    destruct s; intros L w; cbn [erase_s].
    - rewrite !exec_SAdd, erase_e_ok. reflexivity.
    - rewrite !exec_SAddFixed, !erase_e_ok. reflexivity.
    - rewrite !exec_SSetMode, erase_e_ok. reflexivity.
    - rewrite !exec_SAssign, erase_e_ok. reflexivity.
    - rewrite !exec_SIf, erase_e_ok. destruct (eval L data w c) as [v|]; [|reflexivity].
      destruct (py_truth v); apply Hl.
      + clear -erase_s_ok. induction th as [|s th IH]; intros x Hin; [destruct Hin | destruct Hin as [<-|Hin]; [apply erase_s_ok | apply IH, Hin]].
      + clear -erase_s_ok. induction el as [|s el IH]; intros x Hin; [destruct Hin | destruct Hin as [<-|Hin]; [apply erase_s_ok | apply IH, Hin]].
    - rewrite !exec_SFor, erase_e_ok. destruct (eval L data w e) as [v|]; [|reflexivity]. destruct (as_int v); [|reflexivity].
      apply exec_loop_ext. apply Hl.
      clear -erase_s_ok. induction body as [|s body IH]; intros y Hin; [destruct Hin | destruct Hin as [<-|Hin]; [apply erase_s_ok | apply IH, Hin]].
    - reflexivity.
    - rewrite !exec_SSerialize, erase_e_ok. reflexivity.
    - rewrite !exec_STry.
      rewrite (Hl body).
      2:{ clear -erase_s_ok. induction body as [|s body IH]; intros y Hin; [destruct Hin | destruct Hin as [<-|Hin]; [apply erase_s_ok | apply IH, Hin]]. }
      destruct (exec_stmts rec data body L w) as [[w1 r1] L1]. rewrite (Hl fin); [reflexivity|].
      clear -erase_s_ok. induction fin as [|s fin IH]; intros y Hin; [destruct Hin | destruct Hin as [<-|Hin]; [apply erase_s_ok | apply IH, Hin]].
  Qed.

  Lemma erase_stmts_ok l L w : exec_stmts rec data (map erase_s l) L w = exec_stmts rec data l L w.
  Proof.
    revert L w; induction l as [|x l IH]; intros L w; [reflexivity|]. cbn [map]. rewrite !exec_cons, erase_s_ok.
    destruct (exec_stmt rec data x L w) as [[w1 [u|e]] L1]; [apply IH | reflexivity].
  Qed.
End Erase.

(* what a clean run of the harness check (Model/RenderCheck.render_class = []) on a class gives: the statements PARSED FROM THE
   SOURCE TEXT of its serialize method compute ser_body *)
Theorem checked_class_correct rec enums d parsed_stmts cls flds data w :
  render_class enums d parsed_stmts = [] ->
  Forall (instr_slots_ok flds data) (sd_body d) ->
  forall w' r, ser_body rec d (VObj cls flds) w = (w', r) ->
  exists L', exec_stmts rec data parsed_stmts [] w = (w', r, L').
Proof.
  unfold render_class. destruct (negb (forallb (consts_s enums) parsed_stmts)); [discriminate|].
  destruct (render_serialize (sd_body d)) as [rs|] eqn:Er; [|discriminate].
  destruct (pstmts_eqb (map erase_s parsed_stmts) rs) eqn:Eq; [|discriminate].
  destruct (static_ok (sd_body d)) eqn:Est; [|discriminate].
  intros _ Hsl w' r Hs. apply pstmts_eqb_eq in Eq. subst rs.
  destruct (render_serialize_correct rec flds data d cls _ w Er Est Hsl w' r Hs) as [L' Hx].
  exists L'. rewrite <- Hx. symmetry. apply erase_stmts_ok.
Qed.

(* ---------------------------------------------------------------- `data` is not an instance of a generated class *)
(* ser_body answers (w, Err EAttribute) for every non-object as soon as the body is not empty.  The emitted code raises
   AttributeError only at the first statement that READS data: statements before it (mode switch, break byte, unnamed hardcoded
   field, dummy) have already run - see nonobject_differs below.  When the first instruction reads data, both agree: *)
Definition reads_data_first (i : einstr) : bool :=
  match i with
  | EField f | EArray f _ _ _ => match f_name f with Some _ => negb (f_optional f && negb (f_opt_first f)) | None => false end
  | ELength _ _ _ optional opt_first _ => negb (optional && negb opt_first)
  | ESwitch _ cases => match cases with [] => false | _ => true end
  | _ => false
  end.
Definition is_obj (v : value) : bool := match v with VObj _ _ => true | _ => false end.

Theorem render_serialize_nonobject rec d i rest ss v w :
  sd_body d = i :: rest -> reads_data_first i = true ->
  render_serialize (sd_body d) = Some ss -> static_ok (sd_body d) = true ->
  is_obj v = false ->
  exists L', exec_stmts rec [] ss [] w = (let '(w', r) := ser_body rec d v w in (w', r, L')).
Proof.
  intros Hb Hfirst Hr Hst Hv.
  assert (Hsb : ser_body rec d v w = (w, Err EAttribute)) by (unfold ser_body; rewrite Hb; destruct v; try reflexivity; discriminate Hv).
  rewrite Hsb. clear Hsb Hv v. rewrite Hb in *. unfold render_serialize in Hr. cbn [render_ser] in Hr.
  destruct (render_instr i) as [a|] eqn:Ea; [|discriminate]. destruct (render_ser rest) as [b|] eqn:Eb; [|discriminate].
  assert (Hss : ss = header (i :: rest) ++ [STryFinally (a ++ b) [SSetMode (PVar OLD_MODE)]]) by (destruct (a ++ b); [discriminate | inversion Hr; reflexivity]).
  subst ss. clear Hr.
  destruct (header_ok rec [] (i :: rest) w) as [L0 [Hh [Hmode [Hrmo Hold]]]].
  cbn [static_ok forallb] in Hst. apply andb_true_iff in Hst as [Hst1 _].
  assert (Hslots : instr_slots_ok [] [] i).
  { destruct i as [f|f dd t c|name t off optional opt_first ref_by|ty lit guarded|field cases|bb|]; cbn [reads_data_first] in Hfirst; try discriminate Hfirst;
      cbn [instr_slots_ok]; unfold field_slots_ok.
    - destruct (f_name f); [|exact I]. apply negb_true_iff in Hfirst. rewrite Hfirst. repeat split; try discriminate.
    - destruct (f_name f); [|exact I]. apply negb_true_iff in Hfirst. rewrite Hfirst. repeat split; try discriminate.
    - apply negb_true_iff in Hfirst. rewrite Hfirst. destruct ref_by; split; try reflexivity; discriminate.
    - repeat split. intros ->. discriminate Hfirst. }
  assert (Hsi : ser_instr rec [] (zlen (wdata w)) i false w = (w, Err EAttribute, false)).
  { destruct i as [f|f dd t c|name t off optional opt_first ref_by|ty lit guarded|field cases|bb|]; cbn [reads_data_first] in Hfirst; try discriminate Hfirst;
      cbn [ser_instr]; unfold ser_field, ser_array.
    - destruct (f_name f); [reflexivity | discriminate Hfirst].
    - destruct (f_name f); [reflexivity | discriminate Hfirst].
    - destruct ref_by; reflexivity.
    - reflexivity. }
  destruct (instr_ok rec [] [] (zlen (wdata w)) i a L0 w false Ea Hst1 Hslots) with (w' := w) (r := @Err unit EAttribute) (rmo' := false) as [L1 [Hx [He _]]].
  - intro H. apply Hrmo. unfold needs_rmo. cbn [existsb]. rewrite H. reflexivity.
  - intro H. apply Hold. unfold needs_old. cbn [existsb]. rewrite H. reflexivity.
  - exact Hsi.
  - rewrite exec_app, Hh, exec_one, exec_STry, exec_app, Hx, exec_one, exec_SSetMode. cbn [eval].
    rewrite (ext_mode _ _ He), Hmode. exists L1. destruct w; reflexivity.
Qed.

(* ---------------------------------------------------------------- where Ser.v and the emitted code differ *)
(* Inputs outside the side conditions above on which the reference semantics and the interpreter run on the rendered statements
   give different answers.  `rec0`: a callee that writes nothing. *)
Definition rec0 : string -> value -> wstate -> wres := fun _ _ w => (w, Ok tt).
Definition run_rendered (is : list einstr) (data : list (string * value)) (w : wstate) : option (wstate * res unit) :=
  match render_serialize is with Some ss => Some (fst (exec_stmts rec0 data ss [] w)) | None => None end.

(* 1. FINDING (reachable: Outer(items=[None]) with `items` an array of a struct whose body starts with a dummy / unnamed field /
      chunked section).  Cls.serialize(writer, None) for a class that only has a <dummy>: Python writes the dummy and returns
      (checked on the real generated class OnlyDummy of /tmp/exp/gensrc); ser_body says AttributeError, nothing written. *)
Example nonobject_differs :
  let body := [EDummy (EInt TChar) "7" false] in
  run_rendered body [] initW = Some (mkW [8] false, Ok tt) /\
  ser_body rec0 (mkSDef "D" body) VNone initW = (initW, Err EAttribute).
Proof. split; vm_compute; reflexivity. Qed.

(* 2. a slot missing from the object, after an earlier optional field was None: `rmo = rmo or data._b is None` short-circuits and
      never reads the slot; Ser.v looks the field up first.  (No constructor leaves a slot unassigned.) *)
Example missing_optional_slot_differs :
  let body := [EField (mkField (Some "a") (EInt TChar) LNone false true true None 0);
               EField (mkField (Some "b") (EInt TChar) LNone false true false None 0)] in
  run_rendered body [("a", VNone)] initW = Some (initW, Ok tt) /\
  ser_body rec0 (mkSDef "D" body) (VObj "D" [("a", VNone)]) initW = (initW, Err EAttribute).
Proof. split; vm_compute; reflexivity. Qed.

(* 3. an enum-typed slot holding a str: int("5") is 5 in Python (not modelled by the interpreter: EUnexpected), Ser.v says TypeError *)
Example enum_text_differs :
  let body := [EField (mkField (Some "k") (EEnum "K" TChar) LNone false false true None 0)] in
  run_rendered body [("k", VStr [53])] initW = Some (initW, Err EUnexpected) /\
  ser_body rec0 (mkSDef "D" body) (VObj "D" [("k", VStr [53])]) initW = (initW, Err EType).
Proof. split; vm_compute; reflexivity. Qed.

(* 4. an array slot holding bytes / str instead of a tuple (the constructor always stores tuple(..)): indexing works in Python *)
Example array_text_differs :
  let body := [EArray (mkField (Some "xs") (EInt TChar) LNone false false true None 0) false false ACWhile] in
  run_rendered body [("xs", VBytes [1; 2])] initW = Some (mkW [2; 3] false, Ok tt) /\
  ser_body rec0 (mkSDef "D" body) (VObj "D" [("xs", VBytes [1; 2])]) initW = (initW, Err EType) /\
  run_rendered body [("xs", VStr [])] initW = Some (initW, Ok tt) /\
  ser_body rec0 (mkSDef "D" body) (VObj "D" [("xs", VStr [])]) initW = (initW, Err EType).
Proof. repeat split; vm_compute; reflexivity. Qed.

(* 5. a switch without cases only emits the unmatched-value guard, which never reads data._k *)
Example switch_without_cases_differs :
  let body := [ESwitch "k" []] in
  run_rendered body [("k_data", VNone)] initW = Some (initW, Ok tt) /\
  ser_body rec0 (mkSDef "D" body) (VObj "D" [("k_data", VNone)]) initW = (initW, Err EAttribute).
Proof. split; vm_compute; reflexivity. Qed.

(* 6. (static) an unnamed hardcoded string whose length names a length field: add_fixed_string("ab", data._n, False) vs add_string("ab") *)
Example unnamed_with_length_field_differs :
  let body := [EField (mkField None (EStr false) (LRef "n") false false true (Some "ab") 0)] in
  run_rendered body [("n", VInt 3)] initW = Some (initW, Err EValue) /\
  ser_body rec0 (mkSDef "D" body) (VObj "D" [("n", VInt 3)]) initW = (mkW [97; 98] false, Ok tt).
Proof. split; vm_compute; reflexivity. Qed.

(* 7. (static) an array with a hardcoded value (refused by the generator, never produced by elab) *)
Example hardcoded_array_differs :
  let body := [EArray (mkField (Some "xs") (EInt TChar) LNone false false true (Some "1") 0) false false ACWhile] in
  run_rendered body [("xs", VNone)] initW = Some (initW, Err EType) /\
  ser_body rec0 (mkSDef "D" body) (VObj "D" [("xs", VNone)]) initW = (initW, Err ESerialization).
Proof. split; vm_compute; reflexivity. Qed.

(* ---------------------------------------------------------------- the class-level function: ser_struct *)
(* which (class, value) pairs a body hands to the callee *)
Definition instr_calls (flds : list (string * value)) (i : einstr) : list (string * value) :=
  match i with
  | EField f =>
    match f_ty f, f_name f with
    | EStruct n, Some name => match assoc flds name with Some v => [(n, v)] | None => [] end
    | _, _ => []
    end
  | EArray f _ _ _ =>
    match f_ty f, f_name f with
    | EStruct n, Some name => match assoc flds name with Some (VList elems) => map (fun x => (n, x)) elems | _ => [] end
    | _, _ => []
    end
  | ESwitch field cases =>
    match assoc flds (field ++ "_data") with
    | Some dv => flat_map (fun c => match c_cls c with Some cls => [(cls, dv)] | None => [] end) cases
    | None => []
    end
  | _ => []
  end.

Section Congr.
  Variable rec1 rec2 : string -> value -> wstate -> wres.

  Lemma ser_value_congr ty v len p off w :
    (forall n, ty = EStruct n -> rec1 n v w = rec2 n v w) ->
    ser_value rec1 ty v len p off w = ser_value rec2 ty v len p off w.
  Proof. intro H. destruct ty; try reflexivity. cbn [ser_value]. apply H. reflexivity. Qed.

  Lemma ser_elems_congr ty d t : forall k i elems w,
    (forall n x w0, ty = EStruct n -> In x elems -> rec1 n x w0 = rec2 n x w0) ->
    ser_elems rec1 ty d t k i elems w = ser_elems rec2 ty d t k i elems w.
  Proof.
    induction k as [|k IH]; intros i elems w H; cbn [ser_elems]; [reflexivity|].
    destruct (if d && negb t && (i >? 0) then w_add_byte w 255 else (w, Ok tt)) as [w1 [[]|e1]]; [|reflexivity].
    destruct elems as [|x rest]; [reflexivity|].
    rewrite (ser_value_congr ty x None false 0 w1) by (intros n Hn; apply H; [exact Hn | left; reflexivity]).
    destruct (ser_value rec2 ty x None false 0 w1) as [w2 [[]|e2]]; [|reflexivity].
    destruct (if d && t then w_add_byte w2 255 else (w2, Ok tt)) as [w3 [[]|e3]]; [|reflexivity].
    apply IH. intros n y w0 Hn Hy. apply H; [exact Hn | right; exact Hy].
  Qed.

  Lemma find_case_in cases z c : find_case cases z = Some c -> In c cases.
  Proof.
    induction cases as [|c0 cases IH]; cbn [find_case]; [discriminate|].
    destruct (c_key c0) as [k|].
    - destruct z as [x|]; [destruct (x =? k)|]; try (intro H; inversion H; left; reflexivity); intro H; right; apply IH, H.
    - intro H; inversion H; left; reflexivity.
  Qed.

  Lemma ser_instr_congr flds old i rmo w :
    (forall p w0, In p (instr_calls flds i) -> rec1 (fst p) (snd p) w0 = rec2 (fst p) (snd p) w0) ->
    ser_instr rec1 flds old i rmo w = ser_instr rec2 flds old i rmo w.
  Proof.
    intro H. destruct i as [f|f d t c|name t off optional opt_first ref_by|ty lit guarded|field cases|b|]; cbn [ser_instr]; try reflexivity.
    - unfold ser_field. cbn [instr_calls] in H. destruct (f_name f) as [n|].
      + destruct (assoc flds n) as [v|]; [|reflexivity].
        destruct (opt_guard (f_optional f) (f_opt_first f) rmo v) as [rmo1 go]. destruct (negb go); [reflexivity|].
        destruct (negb (f_optional f) && _ && is_none v); [reflexivity|]. destruct (len_check f v); [|reflexivity].
        rewrite (ser_value_congr (f_ty f) v _ (f_padded f) 0 w); [reflexivity|].
        intros sn Hty. rewrite Hty in H. apply (H (sn, v)). left; reflexivity.
      + destruct (f_hard f) as [lit|]; [|reflexivity]. destruct (lit_value (f_ty f) lit) as [v|] eqn:El; [|reflexivity].
        rewrite (ser_value_congr (f_ty f) v _ (f_padded f) 0 w); [reflexivity|].
        intros sn Hty. rewrite Hty in El. discriminate El.
    - unfold ser_array. cbn [instr_calls] in H. destruct (f_name f) as [n|]; [|reflexivity].
      destruct (assoc flds n) as [v|]; [|reflexivity].
      destruct (opt_guard (f_optional f) (f_opt_first f) rmo v) as [rmo1 go]. destruct (negb go); [reflexivity|].
      destruct (negb (f_optional f) && is_none v); [reflexivity|]. destruct (len_check f v); [|reflexivity].
      destruct v; try reflexivity.
      rewrite (ser_elems_congr (f_ty f) d t _ 0 l w); [reflexivity|].
      intros sn x w0 Hty Hx. rewrite Hty in H. apply (H (sn, x)). apply in_map_iff. exists x. split; [reflexivity | exact Hx].
    - destruct (lit_value ty lit) as [v|] eqn:El; [|reflexivity].
      rewrite (ser_value_congr ty v None false 0 w); [reflexivity|]. intros sn Hty. rewrite Hty in El. discriminate El.
    - cbn [instr_calls] in H. destruct (assoc flds field) as [fv|]; [|reflexivity].
      destruct (assoc flds (field ++ "_data")) as [dv|]; [|reflexivity].
      destruct (find_case cases _) as [c|] eqn:Ef; [|reflexivity]. apply find_case_in in Ef.
      destruct (c_cls c) as [cls|] eqn:Ec; [|reflexivity]. destruct (obj_class dv) as [c'|]; [|reflexivity].
      destruct (String.eqb c' cls); [|reflexivity].
      rewrite (H (cls, dv)); [reflexivity|]. apply in_flat_map. exists c. split; [exact Ef|]. rewrite Ec. left; reflexivity.
  Qed.

  Lemma ser_instrs_congr flds old is : forall rmo w,
    (forall p w0, In p (flat_map (instr_calls flds) is) -> rec1 (fst p) (snd p) w0 = rec2 (fst p) (snd p) w0) ->
    ser_instrs rec1 flds old is rmo w = ser_instrs rec2 flds old is rmo w.
  Proof.
    induction is as [|i t IH]; intros rmo w H; [reflexivity|]. cbn [ser_instrs].
    rewrite (ser_instr_congr flds old i rmo w) by (intros p w0 Hp; apply H; cbn [flat_map]; apply in_or_app; left; exact Hp).
    destruct (ser_instr rec2 flds old i rmo w) as [[w1 [[]|e]] rmo1]; [|reflexivity].
    apply IH. intros p w0 Hp. apply H. cbn [flat_map]. apply in_or_app. right. exact Hp.
  Qed.
End Congr.

Lemma render_class_inv enums d ss :
  render_class enums d ss = [] ->
  exists rs, render_serialize (sd_body d) = Some rs /\ map erase_s ss = rs /\ static_ok (sd_body d) = true.
Proof.
  unfold render_class. destruct (negb (forallb (consts_s enums) ss)); [discriminate|].
  destruct (render_serialize (sd_body d)) as [rs|]; [|discriminate].
  destruct (pstmts_eqb (map erase_s ss) rs) eqn:Eq; [|discriminate].
  destruct (static_ok (sd_body d)); [|discriminate]. intros _. exists rs. apply pstmts_eqb_eq in Eq. auto.
Qed.

Section ClassLevel.
  Variable E : env.                                   (* the model's classes *)
  Variable enums : list penum.
  Variable P : parsed.                                (* the program: class name -> statements parsed from its serialize method *)
  (* the slots of an instance of class c whose public fields are flds (public fields + the length slots its constructor assigns) *)
  Variable slots : string -> list (string * value) -> list (string * value).

  Definition data_of (v : value) : list (string * value) := match v with VObj c flds => slots c flds | _ => [] end.

  (* Cls.serialize(writer, v) in the program P: look the class up, run its statements; callee = the same function
     (fuel = nesting depth of struct values, as in ser_struct) *)
  Fixpoint py_serialize (fuel : nat) (cls : string) (v : value) (w : wstate) : wres :=
    match fuel with
    | O => (w, Err EFuel)
    | S f => match assoc P cls with
             | None => (w, Err EAttribute)
             | Some ss => let '(w', r, _) := exec_stmts (py_serialize f) (data_of v) ss [] w in (w', r)
             end
    end.

  (* the slot side conditions, hereditarily along the calls the serializer makes *)
  Fixpoint hok (fuel : nat) (cls : string) (v : value) : Prop :=
    match fuel with
    | O => True
    | S f =>
      match env_find E cls with
      | None => True
      | Some d =>
        match v with
        | VObj c flds => Forall (instr_slots_ok flds (slots c flds)) (sd_body d) /\
                         Forall (fun p => hok f (fst p) (snd p)) (flat_map (instr_calls flds) (sd_body d))
        | _ => match sd_body d with i :: _ => reads_data_first i = true | [] => True end
        end
      end
    end.

  (* what a clean harness run establishes about the program (render_detail = [], lemma render_detail_program below) *)
  Definition program_ok : Prop :=
    forall cls, match env_find E cls with
                | Some d => exists ss, assoc P cls = Some ss /\ render_class enums d ss = []
                | None => assoc P cls = None
                end.

  (* MAIN THEOREM (class level): the program parsed from the generated text computes ser_struct *)
  Theorem py_serialize_correct :
    program_ok ->
    forall fuel cls v w, hok fuel cls v -> py_serialize fuel cls v w = ser_struct fuel E cls v w.
  Proof.
    intro HP. induction fuel as [|f IH]; intros cls v w Hok; [reflexivity|].
    cbn [py_serialize ser_struct]. specialize (HP cls). cbn [hok] in Hok.
    destruct (env_find E cls) as [d|]; [|rewrite HP; reflexivity].
    destruct HP as [ss [HPc Hrc]]. rewrite HPc.
    destruct (render_class_inv enums d ss Hrc) as [rs [Hrs [Her Hst]]].
    destruct (is_obj v) eqn:Ev.
    - destruct v as [| | | | | |c flds]; try discriminate Ev. destruct Hok as [Hsl Hcalls]. cbn [data_of].
      destruct (ser_body (py_serialize f) d (VObj c flds) w) as [w1 r1] eqn:Es.
      destruct (checked_class_correct (py_serialize f) enums d ss c flds (slots c flds) w Hrc Hsl w1 r1 Es) as [L' Hx].
      rewrite Hx. rewrite <- Es. unfold ser_body.
      rewrite (ser_instrs_congr (py_serialize f) (ser_struct f E) flds (zlen (wdata w)) (sd_body d) false w); [reflexivity|].
      intros p w0 Hp. apply IH. rewrite Forall_forall in Hcalls. apply Hcalls, Hp.
    - assert (Hd : data_of v = []) by (destruct v; try reflexivity; discriminate Ev). rewrite Hd.
      destruct (sd_body d) as [|i rest] eqn:Eb.
      + (* an empty body is not renderable *) discriminate Hrs.
      + rewrite <- Eb in Hrs, Hst.
        assert (Hfirst : reads_data_first i = true) by (destruct v; try exact Hok; discriminate Ev).
        destruct (render_serialize_nonobject (py_serialize f) d i rest rs v w Eb Hfirst Hrs Hst Ev) as [L' Hx].
        rewrite <- (erase_stmts_ok (py_serialize f) [] ss [] w), Her, Hx.
        assert (Hsb : forall rc, ser_body rc d v w = (w, Err EAttribute)) by (intro rc; unfold ser_body; rewrite Eb; destruct v; try reflexivity; discriminate Ev).
        rewrite !Hsb. reflexivity.
  Qed.
End ClassLevel.

Lemma flat_map_nil {A B} (f : A -> list B) l : flat_map f l = [] -> forall x, In x l -> f x = [].
Proof.
  induction l as [|a l IH]; cbn [flat_map]; intros H x Hx; [destruct Hx|].
  apply app_eq_nil in H as [H1 H2]. destruct Hx as [<-|Hx]; [exact H1 | apply IH; assumption].
Qed.
Lemma env_find_in E cls d : env_find E cls = Some d -> In d E /\ sd_name d = cls.
Proof.
  induction E as [|d0 E IH]; cbn [env_find]; [discriminate|].
  destruct (String.eqb (sd_name d0) cls) eqn:En.
  - intro H; inversion H; subst. split; [left; reflexivity | apply String.eqb_eq, En].
  - intro H. destruct (IH H) as [Hi Hn]. split; [right; exact Hi | exact Hn].
Qed.
Lemma assoc_in {A} (l : list (string * A)) k v : assoc l k = Some v -> In (k, v) l.
Proof.
  induction l as [|[k0 v0] l IH]; cbn [assoc]; [discriminate|].
  destruct (String.eqb k0 k) eqn:Ek; [intro H; inversion H; subst; apply String.eqb_eq in Ek; subst; left; reflexivity | intro H; right; apply IH, H].
Qed.

(* a clean run of the harness check on a tree gives program_ok for the elaborated package *)
Theorem render_detail_program files P p :
  elab files = Ok p -> render_detail files P = [] -> program_ok (pk_env p) (pk_enums p) P.
Proof.
  intros He Hd. unfold render_detail in Hd. rewrite He in Hd.
  apply app_eq_nil in Hd as [HA Hd]. apply app_eq_nil in Hd as [HB _].
  intro cls. destruct (env_find (pk_env p) cls) as [d|] eqn:Ef.
  - destruct (env_find_in _ _ _ Ef) as [Hin Hn]. pose proof (flat_map_nil _ _ HA d Hin) as Hx. cbv beta in Hx. rewrite Hn in Hx.
    destruct (assoc P cls) as [ss|]; [|discriminate Hx]. exists ss. split; [reflexivity | exact Hx].
  - destruct (assoc P cls) as [ss|] eqn:Ea; [|reflexivity]. apply assoc_in in Ea.
    pose proof (flat_map_nil _ _ HB (cls, ss) Ea) as Hx. cbn [fst] in Hx. rewrite Ef in Hx. discriminate Hx.
Qed.

(* ---------------------------------------------------------------- the slots a generated constructor assigns (non-vacuity) *)
(* self._f = f for every public field, self._len = len(self._f) [if self._f is not None else None] for every length field that a
   field or array refers to *)
Definition len_slots (body : list einstr) (flds : list (string * value)) : list (string * value) :=
  flat_map (fun i => match i with
                     | ELength name _ _ _ _ (Some fr) =>
                       match assoc flds fr with
                       | Some fv => match length_slot fv with Some sv => [(name, sv)] | None => [] end
                       | None => []
                       end
                     | _ => []
                     end) body.
Definition ctor_slots (E : env) (c : string) (flds : list (string * value)) : list (string * value) :=
  match env_find E c with Some d => flds ++ len_slots (sd_body d) flds | None => flds end.

(* a worked instance: a length field, a string of that length, an array of structs, an optional tail *)
Definition demo_env : env :=
  [mkSDef "Inner" [EField (mkField (Some "x") (EInt TChar) LNone false false true None 0)];
   mkSDef "Outer" [ELength "n" TChar 1 false true (Some "s");
                   EField (mkField (Some "s") (EStr false) (LRef "n") false false true None 253);
                   EArray (mkField (Some "items") (EStruct "Inner") LNone false false true None 0) false false ACWhile;
                   EField (mkField (Some "tail") (EInt TShort) LNone false true true None 0)]].
Definition demo_prog : parsed :=
  flat_map (fun d => match render_serialize (sd_body d) with Some ss => [(sd_name d, ss)] | None => [] end) demo_env.
Definition demo_obj : value :=
  VObj "Outer" [("s", VStr [65; 66]); ("items", VList [VObj "Inner" [("x", VInt 3)]; VObj "Inner" [("x", VInt 4)]]); ("tail", VNone)].

Example demo_program_ok : program_ok demo_env [] demo_prog.
Proof.
  intro cls. cbn [demo_env env_find sd_name].
  destruct (String.eqb "Inner" cls) eqn:E1; [eexists; split; [apply String.eqb_eq in E1; subst cls; reflexivity | vm_compute; reflexivity]|].
  destruct (String.eqb "Outer" cls) eqn:E2; [eexists; split; [apply String.eqb_eq in E2; subst cls; reflexivity | vm_compute; reflexivity]|].
  assert (Hp : exists a b, demo_prog = [("Inner", a); ("Outer", b)]) by (eexists; eexists; vm_compute; reflexivity).
  destruct Hp as [a [b ->]]. cbn [assoc]. rewrite E1, E2. reflexivity.
Qed.

Example demo_hok : hok demo_env (ctor_slots demo_env) 2 "Outer" demo_obj.
Proof.
  cbn [hok demo_env env_find sd_name String.eqb Ascii.eqb Bool.eqb demo_obj sd_body]. split.
  - repeat constructor; cbn; try reflexivity; try discriminate; try tauto.
    + cbn in H. inversion H; subst v. intros l Hl; inversion Hl; reflexivity.
    + cbn in H. inversion H; subst v. reflexivity.
    + cbn in H. inversion H; subst v. intros elems He; inversion He; subst. repeat constructor.
  - cbn. repeat constructor; cbn; try reflexivity; try discriminate; try tauto.
Qed.

Example demo_run :
  py_serialize demo_prog (ctor_slots demo_env) 2 "Outer" demo_obj initW = ser_struct 2 demo_env "Outer" demo_obj initW /\
  ser_struct 2 demo_env "Outer" demo_obj initW = (mkW [2; 65; 66; 4; 5] false, Ok tt).
Proof.
  split; [apply (py_serialize_correct demo_env [] demo_prog (ctor_slots demo_env) demo_program_ok), demo_hok | vm_compute; reflexivity].
Qed.
