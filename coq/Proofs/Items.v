(* Lemma library for C04: one EoWriter write followed by the matching EoReader read, framed inside arbitrary data. *)
From EO Require Import Prelude.Py Model.Limits Model.Number Model.StringEnc Model.Cp1252 Model.Writer Model.Reader Model.Items.
From EO Require Import Proofs.Number Proofs.StringEnc Proofs.Cp1252.
Open Scope Z_scope.
Set Default Timeout 60.
Ltac Zify.zify_post_hook ::= Z.to_euclidean_division_equations.

(* a non-chunked reader that has never been switched to chunked mode: data d, position p *)
Notation rat d p := (mkR d p false 0 (-1)).

(* ---------------------------------------------------------------------------------------------- *)
(* the bytes an item occupies, spelled out per kind *)
Definition ibytes (san : bool) (it : item) : list Z :=
  match it with
  | IByte b => [b]
  | IBytes bs | IRest bs => bs
  | IChar n => slice (encode_digits n) 0 1
  | IShort n => slice (encode_digits n) 0 2
  | IThree n => slice (encode_digits n) 0 3
  | IInt n => slice (encode_digits n) 0 4
  | IFixed s | IStr s => sanitize san (cp_encode s)
  | IPadded s len => add_padding (sanitize san (cp_encode s)) len
  | IEncFixed s | IEncStr s => encode_string (sanitize san (cp_encode s))
  | IEncPadded s len => encode_string (add_padding (sanitize san (cp_encode s)) len)
  end.

(* the same thing read off the writer: what a write appends to an empty writer *)
Definition wbytes (san : bool) (it : item) : list Z := wdata (fst (wstep (mkW [] san) (write_op it))).

Definition all_bytes (san : bool) (its : list item) : list Z := concat (map (ibytes san) its).

(* ---------------------------------------------------------------------------------------------- *)
(* lists, slices *)
Lemma slice0 {A} (l : list A) k : slice l 0 k = firstn (Z.to_nat k) l.
Proof. unfold slice. rewrite Z.sub_0_r. reflexivity. Qed.

Lemma slice_frame {A} (pre bs post : list A) :
  slice (pre ++ bs ++ post) (zlen pre) (zlen pre + zlen bs) = bs.
Proof.
  unfold slice, zlen.
  replace (Z.to_nat (Z.of_nat (length pre) + Z.of_nat (length bs) - Z.of_nat (length pre))) with (length bs) by lia.
  rewrite Nat2Z.id. rewrite skipn_app, skipn_all, Nat.sub_diag. cbn [app skipn].
  rewrite firstn_app, firstn_all, Nat.sub_diag. cbn [firstn]. apply app_nil_r.
Qed.

Lemma in_range_spec n lim : in_range n lim = true -> 0 <= n < lim.
Proof. unfold in_range. lia. Qed.

Lemma no_cp_spec c s : no_cp c s = true -> ~ In c s.
Proof.
  unfold no_cp. intros H Hin. rewrite forallb_forall in H. specialize (H c Hin).
  rewrite Z.eqb_refl in H. discriminate.
Qed.

Lemma no_cp_enc_255 s : no_cp 255 s = true -> ~ In 255 (cp_encode s).
Proof.
  intros H Hin. apply no_cp_spec in H. apply H. unfold cp_encode in Hin.
  apply in_map_iff in Hin as [c [Hc Hin]]. apply (proj1 (cp_enc_255 c)) in Hc. subst c. exact Hin.
Qed.

Lemma no_cp_enc_126 s : no_cp 126 s = true -> ~ In 126 (cp_encode s).
Proof.
  intros H Hin. apply no_cp_spec in H. apply H. unfold cp_encode in Hin.
  apply in_map_iff in Hin as [c [Hc Hin]]. apply (proj1 (cp_enc_126 c)) in Hc. subst c. exact Hin.
Qed.

Lemma zlen_cp_encode s : zlen (cp_encode s) = zlen s.
Proof. unfold zlen. now rewrite cp_encode_length. Qed.

Lemma zlen_encode_string l : zlen (encode_string l) = zlen l.
Proof. unfold zlen. now rewrite encode_length. Qed.

Lemma sanitize_false bs : sanitize false bs = bs.
Proof. reflexivity. Qed.

Lemma zlen_sanitize san bs : zlen (sanitize san bs) = zlen bs.
Proof. unfold sanitize, zlen. destruct san; [now rewrite map_length | reflexivity]. Qed.

(* ---------------------------------------------------------------------------------------------- *)
(* padding *)
Lemma add_padding_app bs len : add_padding bs len = bs ++ zrepeat 255 (len - zlen bs).
Proof.
  unfold add_padding. destruct (zlen bs =? len) eqn:E; [|reflexivity].
  apply Z.eqb_eq in E. rewrite E, Z.sub_diag. cbn. symmetry. apply app_nil_r.
Qed.

Lemma zlen_add_padding bs len : zlen bs <= len -> zlen (add_padding bs len) = len.
Proof.
  intros H. rewrite add_padding_app, zlen_app. unfold zrepeat, zlen at 2. rewrite repeat_length. lia.
Qed.

Lemma remove_padding_app bs k : ~ In 255 bs -> remove_padding (bs ++ repeat 255 k) = bs.
Proof.
  induction bs as [|x bs IH]; intros H; cbn [app remove_padding].
  - destruct k; reflexivity.
  - destruct (x =? 255) eqn:E.
    + exfalso. apply H. left. lia.
    + rewrite IH; [reflexivity|]. intro Hin. apply H. right. exact Hin.
Qed.

Lemma remove_padding_padded bs len : ~ In 255 bs -> remove_padding (add_padding bs len) = bs.
Proof. intros H. rewrite add_padding_app. unfold zrepeat. now apply remove_padding_app. Qed.

Lemma no_tilde_padded bs len : ~ In 126 bs -> ~ In 126 (add_padding bs len).
Proof.
  intros H Hin. rewrite add_padding_app in Hin. apply in_app_iff in Hin as [Hin|Hin]; [now apply H|].
  unfold zrepeat in Hin. apply repeat_spec in Hin. discriminate.
Qed.

Lemma decode_encode_no_tilde l : ~ In 126 l -> decode_string (encode_string l) = l.
Proof. intros H. rewrite decode_encode_invert. unfold invert. now apply rev_invert_from_twice. Qed.

(* ---------------------------------------------------------------------------------------------- *)
(* numbers *)
Lemma zlen_digits_slice n k : 0 <= k <= 4 -> zlen (slice (encode_digits n) 0 k) = k.
Proof. intros H. rewrite slice0. unfold zlen. rewrite firstn_length, encode_digits_length. lia. Qed.

Lemma dec_char n : 0 <= n < CHAR_MAX -> decode_number (slice (encode_digits n) 0 1) = n.
Proof. intros H. rewrite slice0. change (Z.to_nat 1) with 1%nat. exact (proj1 (prefix1 n H)). Qed.
Lemma dec_short n : 0 <= n < SHORT_MAX -> decode_number (slice (encode_digits n) 0 2) = n.
Proof. intros H. rewrite slice0. change (Z.to_nat 2) with 2%nat. exact (proj1 (prefix2 n H)). Qed.
Lemma dec_three n : 0 <= n < THREE_MAX -> decode_number (slice (encode_digits n) 0 3) = n.
Proof. intros H. rewrite slice0. change (Z.to_nat 3) with 3%nat. exact (proj1 (prefix3 n H)). Qed.
Lemma dec_int n : 0 <= n < INT_MAX -> decode_number (slice (encode_digits n) 0 4) = n.
Proof.
  intros H. rewrite slice0. rewrite firstn_all2 by (rewrite encode_digits_length; lia).
  apply decode_digits. exact H.
Qed.

(* ---------------------------------------------------------------------------------------------- *)
(* writer: a valid item is accepted and appends exactly its bytes *)
Lemma add_number_ok w n lim size : 0 <= n < lim -> lim <= INT_MAX ->
  w_add_number w n lim size = (w_extend w (slice (encode_digits n) 0 size), Ok tt).
Proof.
  intros H L. unfold w_add_number, check_number_size.
  destruct (n >? lim - 1) eqn:E; [lia|]. rewrite encode_number_ok by lia. reflexivity.
Qed.

Lemma wstep_valid w it : valid it = true ->
  wstep w (write_op it) = (w_extend w (ibytes (wsan w) it), Ok tt).
Proof.
  intros Hv. destruct it as [b|bs|n|n|n|n|s|s len|s|s len|s|s|bs]; cbn [valid] in Hv; cbn [write_op wstep ibytes].
  - apply in_range_spec in Hv. unfold w_add_byte, check_number_size.
    destruct (b >? 255) eqn:E; [lia|]. destruct ((0 <=? b) && (b <=? 255)) eqn:E2; [reflexivity | lia].
  - reflexivity.
  - apply in_range_spec in Hv. unfold w_add_char. apply add_number_ok; [exact Hv|].
    unfold CHAR_MAX, SHORT_MAX, THREE_MAX, INT_MAX in *. lia.
  - apply in_range_spec in Hv. unfold w_add_short. apply add_number_ok; [exact Hv|].
    unfold CHAR_MAX, SHORT_MAX, THREE_MAX, INT_MAX in *. lia.
  - apply in_range_spec in Hv. unfold w_add_three. apply add_number_ok; [exact Hv|].
    unfold CHAR_MAX, SHORT_MAX, THREE_MAX, INT_MAX in *. lia.
  - apply in_range_spec in Hv. unfold w_add_int. apply add_number_ok; [exact Hv|].
    unfold CHAR_MAX, SHORT_MAX, THREE_MAX, INT_MAX in *. lia.
  - unfold w_add_fixed_string, check_string_length. rewrite Z.eqb_refl. reflexivity.
  - apply andb_true_iff in Hv as [Hl Hn]. unfold w_add_fixed_string, check_string_length.
    destruct (len >=? zlen s) eqn:E; [reflexivity | lia].
  - unfold w_add_fixed_encoded_string, check_string_length. rewrite Z.eqb_refl. reflexivity.
  - apply andb_true_iff in Hv as [Hv Hn]. apply andb_true_iff in Hv as [Hl Hf].
    unfold w_add_fixed_encoded_string, check_string_length.
    destruct (len >=? zlen s) eqn:E; [reflexivity | lia].
  - reflexivity.
  - reflexivity.
  - reflexivity.
Qed.

Lemma wbytes_valid san it : valid it = true -> wbytes san it = ibytes san it.
Proof. intros Hv. unfold wbytes. rewrite (wstep_valid _ _ Hv). reflexivity. Qed.

Lemma wstep_valid_wbytes w it : valid it = true ->
  wstep w (write_op it) = (mkW (wdata w ++ wbytes (wsan w) it) (wsan w), Ok tt).
Proof. intros Hv. rewrite (wbytes_valid _ _ Hv). apply wstep_valid. exact Hv. Qed.

Lemma wrun_valid its : forall w, forallb valid its = true ->
  wrun w (map write_op its) = (mkW (wdata w ++ all_bytes (wsan w) its) (wsan w), map (fun _ => Ok tt) its).
Proof.
  induction its as [|it t IH]; intros w Hv; cbn [map wrun all_bytes concat].
  - rewrite app_nil_r. destruct w; reflexivity.
  - cbn [forallb] in Hv. apply andb_true_iff in Hv as [Hi Ht].
    rewrite (wstep_valid _ _ Hi). rewrite (IH _ Ht). unfold w_extend. cbn [wdata wsan].
    rewrite <- app_assoc. reflexivity.
Qed.

(* ---------------------------------------------------------------------------------------------- *)
(* reader: framing *)
Lemma remaining_frame pre bs : r_remaining (rat (pre ++ bs) (zlen pre)) = zlen bs.
Proof. unfold r_remaining. cbn [rchunked rdata rpos]. rewrite zlen_app. lia. Qed.

(* reading |bs| bytes at position |pre| of pre ++ bs ++ post returns bs and advances past it *)
Lemma read_bytes_frame pre bs post k : k = zlen bs ->
  r_read_bytes (rat (pre ++ bs ++ post) (zlen pre)) k = (rat (pre ++ bs ++ post) (zlen pre + zlen bs), bs).
Proof.
  intros ->. unfold r_read_bytes. cbv zeta. rewrite remaining_frame. rewrite zlen_app.
  pose proof (zlen_nonneg post) as Hp. rewrite Z.min_l by lia.
  unfold r_set_pos. cbn [rdata rpos rchunked rcstart rbrk]. rewrite slice_frame. reflexivity.
Qed.

(* reading `remaining` bytes returns everything that is left *)
Lemma read_rest_frame pre bs :
  r_read_bytes (rat (pre ++ bs ++ []) (zlen pre)) (r_remaining (rat (pre ++ bs ++ []) (zlen pre)))
  = (rat (pre ++ bs ++ []) (zlen pre + zlen bs), bs).
Proof. apply read_bytes_frame. rewrite remaining_frame, app_nil_r. reflexivity. Qed.

Lemma read_byte_frame pre b post :
  r_read_byte (rat (pre ++ [b] ++ post) (zlen pre)) = (rat (pre ++ [b] ++ post) (zlen pre + 1), b).
Proof.
  unfold r_read_byte. rewrite remaining_frame. rewrite zlen_app. pose proof (zlen_nonneg post) as Hp.
  change (zlen [b]) with 1. destruct (1 + zlen post >? 0) eqn:E; [|lia].
  unfold r_set_pos. cbn [rdata rpos rchunked rcstart rbrk app]. unfold zlen at 2. rewrite zget_app_mid. reflexivity.
Qed.

Lemma get_number_frame pre bs post k : k = zlen bs ->
  r_get_number (rat (pre ++ bs ++ post) (zlen pre)) k = (rat (pre ++ bs ++ post) (zlen pre + zlen bs), decode_number bs).
Proof. intros H. unfold r_get_number. rewrite (read_bytes_frame _ _ _ _ H). reflexivity. Qed.

Lemma get_fixed_frame pre bs post k p : k = zlen bs ->
  r_get_fixed_string (rat (pre ++ bs ++ post) (zlen pre)) k p
  = Ok (rat (pre ++ bs ++ post) (zlen pre + zlen bs), cp_decode (if p then remove_padding bs else bs)).
Proof.
  intros H. unfold r_get_fixed_string. pose proof (zlen_nonneg bs) as Hp.
  destruct (k <? 0) eqn:E; [lia|]. rewrite (read_bytes_frame _ _ _ _ H). reflexivity.
Qed.

Lemma get_fixed_enc_frame pre bs post k p : k = zlen bs ->
  r_get_fixed_encoded_string (rat (pre ++ bs ++ post) (zlen pre)) k p
  = Ok (rat (pre ++ bs ++ post) (zlen pre + zlen bs),
        cp_decode (if p then remove_padding (decode_string bs) else decode_string bs)).
Proof.
  intros H. unfold r_get_fixed_encoded_string. pose proof (zlen_nonneg bs) as Hp.
  destruct (k <? 0) eqn:E; [lia|]. rewrite (read_bytes_frame _ _ _ _ H). reflexivity.
Qed.

Lemma get_string_frame pre bs :
  r_get_string (rat (pre ++ bs ++ []) (zlen pre)) = (rat (pre ++ bs ++ []) (zlen pre + zlen bs), cp_decode bs).
Proof. unfold r_get_string. rewrite read_rest_frame. reflexivity. Qed.

Lemma get_enc_string_frame pre bs :
  r_get_encoded_string (rat (pre ++ bs ++ []) (zlen pre))
  = (rat (pre ++ bs ++ []) (zlen pre + zlen bs), cp_decode (decode_string bs)).
Proof. unfold r_get_encoded_string. rewrite read_rest_frame. reflexivity. Qed.

(* ---------------------------------------------------------------------------------------------- *)
(* one item *)
Lemma read_item_frame pre post it : valid it = true -> (trailing it = true -> post = []) ->
  read_item (rat (pre ++ ibytes false it ++ post) (zlen pre)) it
  = (rat (pre ++ ibytes false it ++ post) (zlen pre + zlen (ibytes false it)), expected it, None).
Proof.
  intros Hv Ht.
  destruct it as [b|bs|n|n|n|n|s|s len|s|s len|s|s|bs]; cbn [valid] in Hv; cbn [trailing] in Ht;
    cbn [read_item rstep ibytes expected]; rewrite ?sanitize_false.
  - unfold r_get_byte. rewrite read_byte_frame. reflexivity.
  - pose proof (zlen_nonneg bs) as Hp. destruct (zlen bs <? 0) eqn:E; [lia|].
    unfold r_get_bytes. rewrite (read_bytes_frame _ _ _ _ eq_refl). reflexivity.
  - apply in_range_spec in Hv. unfold r_get_char.
    rewrite get_number_frame by (rewrite zlen_digits_slice; lia). rewrite (dec_char _ Hv). reflexivity.
  - apply in_range_spec in Hv. unfold r_get_short.
    rewrite get_number_frame by (rewrite zlen_digits_slice; lia). rewrite (dec_short _ Hv). reflexivity.
  - apply in_range_spec in Hv. unfold r_get_three.
    rewrite get_number_frame by (rewrite zlen_digits_slice; lia). rewrite (dec_three _ Hv). reflexivity.
  - apply in_range_spec in Hv. unfold r_get_int.
    rewrite get_number_frame by (rewrite zlen_digits_slice; lia). rewrite (dec_int _ Hv). reflexivity.
  - rewrite get_fixed_frame by (now rewrite zlen_cp_encode). rewrite cp_decode_encode. reflexivity.
  - apply andb_true_iff in Hv as [Hl Hn].
    rewrite get_fixed_frame by (rewrite zlen_add_padding; [reflexivity | rewrite zlen_cp_encode; lia]).
    rewrite remove_padding_padded by (now apply no_cp_enc_255). rewrite cp_decode_encode. reflexivity.
  - rewrite get_fixed_enc_frame by (now rewrite zlen_encode_string, zlen_cp_encode).
    rewrite decode_encode_no_tilde by (now apply no_cp_enc_126). rewrite cp_decode_encode. reflexivity.
  - apply andb_true_iff in Hv as [Hv Hn]. apply andb_true_iff in Hv as [Hl Hf].
    rewrite get_fixed_enc_frame
      by (rewrite zlen_encode_string, zlen_add_padding; [reflexivity | rewrite zlen_cp_encode; lia]).
    rewrite decode_encode_no_tilde by (apply no_tilde_padded; now apply no_cp_enc_126).
    rewrite remove_padding_padded by (now apply no_cp_enc_255). rewrite cp_decode_encode. reflexivity.
  - rewrite (Ht eq_refl). rewrite get_string_frame. rewrite cp_decode_encode. reflexivity.
  - rewrite (Ht eq_refl). rewrite get_enc_string_frame.
    rewrite decode_encode_no_tilde by (now apply no_cp_enc_126). rewrite cp_decode_encode. reflexivity.
  - rewrite (Ht eq_refl). rewrite remaining_frame. rewrite app_nil_r.
    pose proof (zlen_nonneg bs) as Hp. destruct (zlen bs <? 0) eqn:E; [lia|].
    unfold r_get_bytes. rewrite <- (app_nil_r bs) at 1 3.
    rewrite (read_bytes_frame _ _ _ _ eq_refl). rewrite !app_nil_r. reflexivity.
Qed.

Lemma read_item_frame_wbytes pre post it : valid it = true -> (trailing it = true -> post = []) ->
  read_item (rat (pre ++ wbytes false it ++ post) (zlen pre)) it
  = (rat (pre ++ wbytes false it ++ post) (zlen pre + zlen (wbytes false it)), expected it, None).
Proof. intros Hv Ht. rewrite (wbytes_valid _ _ Hv). now apply read_item_frame. Qed.

(* ---------------------------------------------------------------------------------------------- *)
(* item lists *)
Lemma trailing_last_cons it t : trailing_last (it :: t) = true ->
  trailing_last t = true /\ (trailing it = true -> t = []).
Proof.
  destruct t as [|it2 t]; [intros _; split; [reflexivity | reflexivity]|].
  intros H. change (negb (trailing it) && trailing_last (it2 :: t) = true) in H.
  apply andb_true_iff in H as [H1 H2]. split; [exact H2|]. intros Ht. rewrite Ht in H1. discriminate.
Qed.

Lemma read_items_frame its : forall pre, forallb valid its = true -> trailing_last its = true ->
  read_items (rat (pre ++ all_bytes false its) (zlen pre)) its
  = (rat (pre ++ all_bytes false its) (zlen pre + zlen (all_bytes false its)), map expected its).
Proof.
  induction its as [|it t IH]; intros pre Hv Htl; cbn [read_items map all_bytes concat].
  - change (zlen (@nil Z)) with 0. rewrite Z.add_0_r. reflexivity.
  - cbn [forallb] in Hv. apply andb_true_iff in Hv as [Hi Ht].
    apply trailing_last_cons in Htl as [Htl Hlast]. fold (all_bytes false t).
    rewrite read_item_frame; [|exact Hi|intros Hti; rewrite (Hlast Hti); reflexivity].
    specialize (IH (pre ++ ibytes false it) Ht Htl).
    rewrite zlen_app, <- app_assoc in IH. rewrite IH. rewrite zlen_app, Z.add_assoc. reflexivity.
Qed.

Lemma all_ok {A} (l : list A) : Forall (fun r : res unit => r = Ok tt) (map (fun _ => Ok tt) l).
Proof. apply Forall_forall. intros r H. apply in_map_iff in H as [x [<- _]]. reflexivity. Qed.

(* the round trip, in the shape of the property *)
Lemma roundtrip its : forallb valid its = true -> trailing_last its = true ->
  let '(w, rs) := wrun initW (map write_op its) in
  Forall (fun r => r = Ok tt) rs /\
  let '(r, outs) := read_items (initR (wdata w)) its in
  outs = map expected its /\ rpos r = zlen (wdata w) /\ r_remaining r = 0.
Proof.
  intros Hv Htl. rewrite (wrun_valid _ _ Hv). split; [apply all_ok|].
  unfold initW, initR. cbn [wdata wsan].
  change 0 with (zlen (@nil Z)) at 1. rewrite (read_items_frame _ _ Hv Htl).
  split; [reflexivity|]. unfold r_remaining. cbn [rpos rdata rchunked app]. change (zlen (@nil Z)) with 0. lia.
Qed.

(* ---------------------------------------------------------------------------------------------- *)
(* the windows-1252 image *)
Lemma cp_image_spec c : cp_image c = (if cp_encodable c then c else 63).
Proof. reflexivity. Qed.
Lemma cp_image_idem c : cp_encodable c = true -> cp_image (cp_image c) = c.
Proof. intros H. unfold cp_image. rewrite H. rewrite H. reflexivity. Qed.
