(* Rejection lemmas for C17: the reference elaboration (Model/Elab.v) fails on ill-formed specifications.
   Layer A: a rejected sub-part rejects the whole (sequence, <chunked>, <switch>/<case>, object, file, protocol),
            for every fuel; an "occurs at a path" predicate and the theorem that a violation at any path is rejected.
   Layer B: the local rules, as consequences of "success implies well-formed" inversion lemmas.
   Layer D: declaration-level rules (index_files, enums, type-name syntax, packets). *)
From EO Require Import Prelude.Py Model.Spec Model.Elab Proofs.ElabAttr.
Open Scope string_scope.
Open Scope list_scope.
Open Scope Z_scope.
Set Default Timeout 60.

(* ---------------- rejection ---------------- *)
Definition rejects {A} (r : res A) : Prop := exists e, r = Err e.

Lemma rejects_err {A} (e : err) : rejects (@Err A e).
Proof. now exists e. Qed.

Lemma rejects_ok {A} (a : A) : ~ rejects (Ok a).
Proof. intros [e He]. discriminate He. Qed.

Lemma not_ok_rejects {A} (r : res A) : (forall a, r <> Ok a) -> rejects r.
Proof. destruct r as [a|e]; intros H; [now destruct (H a) | now exists e]. Qed.

Lemma rejects_not_ok {A} (r : res A) a : rejects r -> r <> Ok a.
Proof. intros [e ->]. discriminate. Qed.

Lemma rejects_bind_l {A B} (m : res A) (f : A -> res B) : rejects m -> rejects (rbind m f).
Proof. intros [e ->]. now exists e. Qed.

Lemma rejects_bind {A B} (m : res A) (f : A -> res B) : (forall a, m = Ok a -> rejects (f a)) -> rejects (rbind m f).
Proof. destruct m as [a|e]; intros H; [now apply H | now exists e]. Qed.

Lemma rejects_accepts fs : rejects (elab fs) <-> accepts fs = false.
Proof.
  unfold accepts. destruct (elab fs) as [p|e]; split; intros H; try reflexivity; try discriminate.
  - now apply rejects_ok in H.
  - now exists e.
Qed.

Lemma guard_ok b u : guard b = Ok u -> b = true.
Proof. destruct b; [reflexivity | discriminate]. Qed.

Definition chunk_ctx (c : ctx) : ctx :=
  mkCtx true (cx_ropt c) (cx_rdummy c) (cx_fields c) (cx_lenmap c) (cx_emitted c || negb (cx_chunked c)).
Definition case_ctx (c : ctx) : ctx := mkCtx (cx_chunked c) (cx_ropt c) (cx_rdummy c) [] [] false.

Definition recfun := string -> ctx -> list rinstr -> res (ctx * list einstr * list sdef).
Definition rec_le (r1 r2 : recfun) : Prop := forall cls c is r, r1 cls c is = Ok r -> r2 cls c is = Ok r.

Section A.
  Variable T : tenv.
  Variable tfuel : nat.
  Notation EI := (elab_instrs T tfuel).
  Notation EH := (elab_head T tfuel).

  (* ---------------- inversion of one step ---------------- *)
  Lemma EI_cons_inv f cls c i rest r :
    EI f cls c (i :: rest) = Ok r ->
    exists f' c' es aux c'' es' aux',
      f = S f' /\ cx_rdummy c = false /\
      EH (EI f') cls c i = Ok (c', es, aux) /\
      EI f' cls c' rest = Ok (c'', es', aux') /\ r = (c'', es ++ es', aux ++ aux').
  Proof.
    destruct f as [|f']; [discriminate|]. rewrite elab_instrs_S. intros H.
    bind_inv H u Eg. bind_inv H r1 E1. destruct r1 as [[c' es] aux]. bind_inv H r2 E2. destruct r2 as [[c'' es'] aux'].
    exists f', c', es, aux, c'', es', aux'. repeat split; auto.
    - destruct (cx_rdummy c); [discriminate Eg | reflexivity].
    - congruence.
  Qed.

  Lemma EI_cons_intro f' cls c i rest c' es aux c'' es' aux' :
    cx_rdummy c = false -> EH (EI f') cls c i = Ok (c', es, aux) -> EI f' cls c' rest = Ok (c'', es', aux') ->
    EI (S f') cls c (i :: rest) = Ok (c'', es ++ es', aux ++ aux').
  Proof.
    intros Hd Hh Hr. rewrite elab_instrs_S. rewrite Hd. cbn [negb guard rbind]. rewrite Hh. cbn [rbind]. rewrite Hr. reflexivity.
  Qed.

  Lemma EI_nil_inv f cls c r : EI f cls c [] = Ok r -> r = (c, [], []).
  Proof. destruct f; [discriminate|]. rewrite elab_instrs_S. congruence. Qed.

  Lemma EI_app_inv : forall pre f cls c rest r,
    EI f cls c (pre ++ rest) = Ok r ->
    exists c1 es aux r2, EI f cls c pre = Ok (c1, es, aux) /\ EI (f - List.length pre) cls c1 rest = Ok r2.
  Proof.
    induction pre as [|i pre IH]; intros f cls c rest r H.
    - cbn [app] in H. destruct f as [|f']; [discriminate H|].
      exists c, [], [], r. split; [reflexivity|]. cbn [length]. rewrite Nat.sub_0_r. exact H.
    - cbn [app] in H. apply EI_cons_inv in H.
      destruct H as (f' & c' & es & aux & c'' & es' & aux' & -> & Hd & Hh & Hr & ->).
      destruct (IH _ _ _ _ _ Hr) as (c1 & es1 & aux1 & r2 & Hp & Hq).
      exists c1, (es ++ es1), (aux ++ aux1), r2. split; [|exact Hq].
      now apply EI_cons_intro with (c' := c').
  Qed.

  (* ---------------- heads ---------------- *)
  Lemma EH_chunked_inv (recf : recfun) cls c body r :
    EH recf cls c (RChunked body) = Ok r -> exists r', recf cls (chunk_ctx c) body = Ok r'.
  Proof. cbn [elab_head]. intros H. bind_inv H x Ex. now exists x. Qed.

  Lemma elab_cases_case_inv (recf : recfun) cls iface fname c : forall cs1 v d body cs2 start ro rd r,
    elab_cases recf cls iface fname c (cs1 ++ RCase v d body :: cs2) start ro rd = Ok r ->
    body <> [] -> exists ccls r', recf ccls (case_ctx c) body = Ok r'.
  Proof.
    induction cs1 as [|[v0 d0 b0] cs1 IH]; intros v d body cs2 start ro rd r H Hb.
    - cbn [app elab_cases] in H. fold (elab_cases recf cls iface fname c) in H.
      bind_inv H suffix Es. bind_inv H u Eg. bind_inv H key Ek. bind_inv H x Ex.
      destruct body as [|i0 b1]; [now destruct Hb|]. bind_inv Ex y Ey. now exists (cls ++ "." ++ iface ++ suffix)%string, y.
    - cbn [app elab_cases] in H. fold (elab_cases recf cls iface fname c) in H.
      bind_inv H suffix Es. bind_inv H u Eg. bind_inv H key Ek. bind_inv H x Ex. destruct x as [[c' ocls] defs].
      bind_inv H tlr Et. exact (IH _ _ _ _ _ _ _ _ Et Hb).
  Qed.

  Lemma EH_switch_inv (recf : recfun) cls c field cs1 v d body cs2 r :
    EH recf cls c (RSwitch field (cs1 ++ RCase v d body :: cs2)) = Ok r ->
    body <> [] -> exists ccls r', recf ccls (case_ctx c) body = Ok r'.
  Proof.
    cbn [elab_head]. intros H Hb. bind_inv H fname Ef. bind_inv H x Ex.
    exact (elab_cases_case_inv _ _ _ _ _ _ _ _ _ _ _ _ _ _ Ex Hb).
  Qed.

  (* ---------------- fuel monotonicity ---------------- *)
  Lemma elab_cases_mono (r1 r2 : recfun) cls iface fname c : rec_le r1 r2 -> forall cs start ro rd r,
    elab_cases r1 cls iface fname c cs start ro rd = Ok r -> elab_cases r2 cls iface fname c cs start ro rd = Ok r.
  Proof.
    intros Hle. induction cs as [|[v d b] more IH]; intros start ro rd r H; [exact H|].
    cbn [elab_cases] in *. fold (elab_cases r1 cls iface fname c) in H. fold (elab_cases r2 cls iface fname c).
    bind_inv H suffix Es. rewrite Es. cbn [rbind]. bind_inv H u Eg. rewrite Eg. cbn [rbind].
    bind_inv H key Ek. rewrite Ek. cbn [rbind].
    destruct b as [|i0 b0].
    - cbn [rbind] in *. bind_inv H tlr Et. rewrite (IH _ _ _ _ Et). cbn [rbind]. exact H.
    - bind_inv H x Ex. bind_inv Ex y Ey. rewrite (Hle _ _ _ _ Ey). cbn [rbind]. rewrite Ex. cbn [rbind].
      destruct x as [[c' ocls] defs]. bind_inv H tlr Et. rewrite (IH _ _ _ _ Et). cbn [rbind]. exact H.
  Qed.

  Lemma EH_mono (r1 r2 : recfun) cls c i r : rec_le r1 r2 -> EH r1 cls c i = Ok r -> EH r2 cls c i = Ok r.
  Proof.
    intros Hle. destruct i as [n ty l p o tx|n ty l o d tr|n ty off o|ty tx|field cases|body|]; cbn [elab_head]; intros H;
      try exact H.
    - bind_inv H fname Ef. rewrite Ef. cbn [rbind]. bind_inv H x Ex.
      rewrite (elab_cases_mono r1 r2 _ _ _ _ Hle _ _ _ _ _ Ex). cbn [rbind]. exact H.
    - bind_inv H x Ex. rewrite (Hle _ _ _ _ Ex). cbn [rbind]. exact H.
  Qed.

  Lemma EI_mono : forall f f' cls c is r, (f <= f')%nat -> EI f cls c is = Ok r -> EI f' cls c is = Ok r.
  Proof.
    induction f as [|f IH]; intros f' cls c is r Hle H; [discriminate H|].
    destruct f' as [|f']; [lia|]. rewrite elab_instrs_S in *.
    destruct is as [|i rest]; [exact H|].
    bind_inv H u Eg. rewrite Eg. cbn [rbind]. bind_inv H r1 E1.
    assert (Hrl : rec_le (EI f) (EI f')) by (intros cls0 c0 is0 r0 H0; apply (IH f'); [lia | exact H0]).
    rewrite (EH_mono _ _ _ _ _ _ Hrl E1). cbn [rbind]. destruct r1 as [[c' es] aux].
    bind_inv H r2 E2. rewrite (IH f' _ _ _ _ ltac:(lia) E2). cbn [rbind]. exact H.
  Qed.

  Lemma EI_deterministic f1 f2 cls c is r1 r2 : EI f1 cls c is = Ok r1 -> EI f2 cls c is = Ok r2 -> r1 = r2.
  Proof.
    intros H1 H2. apply (EI_mono f1 (Nat.max f1 f2)) in H1; [|lia]. apply (EI_mono f2 (Nat.max f1 f2)) in H2; [|lia]. congruence.
  Qed.

  (* ================= (A) propagation ================= *)
  (* an instruction that cannot be elaborated in context c, whatever follows it and whatever the fuel *)
  Definition bad_at (cls : string) (c : ctx) (i : rinstr) : Prop :=
    forall f rest, rejects (EI f cls c (i :: rest)).
  (* a body that is rejected from context c for every fuel *)
  Definition body_rejected (cls : string) (c : ctx) (is : list rinstr) : Prop := forall f, rejects (EI f cls c is).

  Lemma bad_of_head cls c i : (forall recf, rejects (EH recf cls c i)) -> bad_at cls c i.
  Proof.
    intros H f rest. apply not_ok_rejects. intros r Hr. apply EI_cons_inv in Hr.
    destruct Hr as (f' & c' & es & aux & c'' & es' & aux' & -> & Hd & Hh & _).
    exact (rejects_not_ok _ _ (H _) Hh).
  Qed.

  (* sequence *)
  Theorem seq_rejected_gen cls c pre rest :
    (forall f c1 es aux, EI f cls c pre = Ok (c1, es, aux) -> body_rejected cls c1 rest) ->
    body_rejected cls c (pre ++ rest).
  Proof.
    intros H f. apply not_ok_rejects. intros r Hr. apply EI_app_inv in Hr.
    destruct Hr as (c1 & es & aux & r2 & Hp & Hq). exact (rejects_not_ok _ _ (H _ _ _ _ Hp _) Hq).
  Qed.

  Theorem seq_rejected cls c pre rest f1 c1 es aux :
    EI f1 cls c pre = Ok (c1, es, aux) -> body_rejected cls c1 rest -> body_rejected cls c (pre ++ rest).
  Proof.
    intros Hp Hr. apply seq_rejected_gen. intros f c1' es' aux' Hp'.
    assert (E : (c1', es', aux') = (c1, es, aux)) by exact (EI_deterministic _ _ _ _ _ _ _ Hp' Hp).
    injection E as -> _ _. exact Hr.
  Qed.

  Theorem seq_rejected_prefix cls c pre rest : body_rejected cls c pre -> body_rejected cls c (pre ++ rest).
  Proof.
    intros H. apply seq_rejected_gen. intros f c1 es aux Hp. destruct (rejects_not_ok _ _ (H f) Hp).
  Qed.

  Lemma bad_at_body cls c i rest : bad_at cls c i -> body_rejected cls c (i :: rest).
  Proof. intros H f. apply H. Qed.

  (* one rejected instruction anywhere in a list rejects the list *)
  Theorem seq_rejected_instr cls c pre i rest :
    (forall f c1 es aux, EI f cls c pre = Ok (c1, es, aux) -> bad_at cls c1 i) -> body_rejected cls c (pre ++ i :: rest).
  Proof. intros H. apply seq_rejected_gen. intros f c1 es aux Hp. apply bad_at_body. exact (H _ _ _ _ Hp). Qed.

  Corollary seq_rejected_instr_any cls c pre i rest : (forall c1, bad_at cls c1 i) -> body_rejected cls c (pre ++ i :: rest).
  Proof. intros H. apply seq_rejected_instr. intros f c1 es aux Hp. apply H. Qed.

  (* <chunked> *)
  Theorem chunked_rejected cls c body : body_rejected cls (chunk_ctx c) body -> bad_at cls c (RChunked body).
  Proof.
    intros H f rest. apply not_ok_rejects. intros r Hr. apply EI_cons_inv in Hr.
    destruct Hr as (f' & c' & es & aux & c'' & es' & aux' & -> & Hd & Hh & _).
    apply EH_chunked_inv in Hh. destruct Hh as [r' Hr']. exact (rejects_not_ok _ _ (H _) Hr').
  Qed.

  (* <switch>: some case body rejected in the case context *)
  Theorem switch_rejected cls c field cs1 v d body cs2 :
    (forall ccls, body_rejected ccls (case_ctx c) body) -> bad_at cls c (RSwitch field (cs1 ++ RCase v d body :: cs2)).
  Proof.
    intros H f rest. apply not_ok_rejects. intros r Hr. apply EI_cons_inv in Hr.
    destruct Hr as (f' & c' & es & aux & c'' & es' & aux' & -> & Hd & Hh & _).
    destruct body as [|i0 b0].
    - destruct (H cls 1%nat) as [e He]. discriminate He.
    - apply EH_switch_inv in Hh; [|discriminate]. destruct Hh as (ccls & r' & Hr'). exact (rejects_not_ok _ _ (H _ _) Hr').
  Qed.

  (* ---------------- occurrence at a path ---------------- *)
  (* occurs i kc ks body: instruction i occurs in body at some position, possibly nested; kc (ks) records whether
     the path passes through a <chunked> (a <case>) *)
  Inductive occurs (i : rinstr) : bool -> bool -> list rinstr -> Prop :=
  | occ_here pre rest : occurs i false false (pre ++ i :: rest)
  | occ_chunked kc ks pre body rest : occurs i kc ks body -> occurs i true ks (pre ++ RChunked body :: rest)
  | occ_case kc ks pre field cs1 v d body cs2 rest :
      occurs i kc ks body -> occurs i kc true (pre ++ RSwitch field (cs1 ++ RCase v d body :: cs2) :: rest).

  (* context properties that survive the elaboration of any preceding instructions of the same list *)
  Definition seq_stable (P : ctx -> Prop) : Prop :=
    forall f cls c is c1 es aux, P c -> EI f cls c is = Ok (c1, es, aux) -> P c1.
  Definition chunk_stable (P : ctx -> Prop) : Prop := forall c, P c -> P (chunk_ctx c).
  Definition case_stable (P : ctx -> Prop) : Prop := forall c, P c -> P (case_ctx c).

  Theorem occurs_rejected_gen (P : ctx -> Prop) i :
    (forall cls c, P c -> bad_at cls c i) -> seq_stable P ->
    forall kc ks body, occurs i kc ks body ->
    (kc = true -> chunk_stable P) -> (ks = true -> case_stable P) ->
    forall cls c, P c -> body_rejected cls c body.
  Proof.
    intros Hbad Hseq kc ks body Hocc.
    induction Hocc as [pre rest | kc ks pre body rest Hocc IH | kc ks pre field cs1 v d body cs2 rest Hocc IH];
      intros Hc Hs cls c HP.
    - apply seq_rejected_instr. intros f c1 es aux Hp. apply Hbad. exact (Hseq _ _ _ _ _ _ _ HP Hp).
    - apply seq_rejected_instr. intros f c1 es aux Hp. apply chunked_rejected.
      apply IH; [intros _; now apply Hc | exact Hs |]. apply (Hc eq_refl). exact (Hseq _ _ _ _ _ _ _ HP Hp).
    - apply seq_rejected_instr. intros f c1 es aux Hp. apply switch_rejected. intros ccls.
      apply IH; [exact Hc | intros _; now apply Hs |]. apply (Hs eq_refl). exact (Hseq _ _ _ _ _ _ _ HP Hp).
  Qed.

  (* a context-insensitive violation is rejected at ANY path *)
  Theorem occurs_rejected i kc ks body :
    (forall cls c, bad_at cls c i) -> occurs i kc ks body -> forall cls c, body_rejected cls c body.
  Proof.
    intros Hbad Hocc cls c. apply (occurs_rejected_gen (fun _ => True) i) with (kc := kc) (ks := ks); auto.
    - intros f cls0 c0 is c1 es aux _ _. exact I.
    - intros _ c0 _. exact I.
    - intros _ c0 _. exact I.
  Qed.
End A.

(* ================= (B) local rules ================= *)
Lemma assoc_lenmap_mark m k l :
  assoc (lenmap_mark m k) l =
  if String.eqb k l then match assoc m l with Some _ => Some true | None => None end else assoc m l.
Proof.
  induction m as [|[k' b] m IH]; cbn [lenmap_mark assoc].
  - now destruct (String.eqb k l).
  - destruct (String.eqb k' k) eqn:E1.
    + apply String.eqb_eq in E1. subst k'. cbn [assoc]. destruct (String.eqb k l) eqn:E2; reflexivity.
    + cbn [assoc]. destruct (String.eqb k' l) eqn:E2.
      * destruct (String.eqb k l) eqn:E3; [|reflexivity].
        apply String.eqb_eq in E2, E3. subst. rewrite String.eqb_refl in E1. discriminate E1.
      * exact IH.
Qed.

Lemma assoc_snoc_some {A} (l : list (string * A)) k v n r : assoc l n = Some r -> assoc (l ++ [(k, v)]) n = Some r.
Proof. intros H. rewrite assoc_snoc, H. reflexivity. Qed.

Lemma assoc_snoc_same {A} (l : list (string * A)) k v : exists r, assoc (l ++ [(k, v)]) k = Some r.
Proof. rewrite assoc_snoc. destruct (assoc l k) as [r|]; [now exists r|]. rewrite String.eqb_refl. now exists v. Qed.

Lemma check_length_attr_ok_inv c l : check_length_attr c (Some l) = Ok tt ->
  (isdigit l = true \/ exists b, assoc (cx_lenmap c) l = Some b) /\ assoc (cx_lenmap c) l <> Some true.
Proof.
  unfold check_length_attr. intros H. bind_inv H u Eg. apply guard_ok in Eg. apply guard_ok in H. split.
  - apply orb_true_iff in Eg. destruct Eg as [Eg|Eg]; [now left|]. right.
    destruct (assoc (cx_lenmap c) l) as [b|]; [now exists b | discriminate Eg].
  - intros E. rewrite E in H. discriminate H.
Qed.

Lemma check_hardcoded_ok_inv t len lit : check_hardcoded t len (Some lit) = Ok tt ->
  is_basic t = true /\ (forall enc n, ti_ty t = EStr enc -> try_parse_int len = Some n -> n = str_len lit).
Proof.
  unfold check_hardcoded. intros H. bind_inv H u Eg. apply guard_ok in H. split; [exact H|].
  intros enc n Hty Hn. rewrite Hty, Hn in Eg. apply guard_ok in Eg. now apply Z.eqb_eq in Eg.
Qed.

Lemma check_unnamed_literal_ok_inv t lit : check_unnamed_literal t lit = Ok tt ->
  match ti_ty t with
  | EInt _ => isdigit lit = true
  | EBool _ => lit = "false" \/ lit = "true"
  | EStr _ => True
  | _ => False
  end.
Proof.
  unfold check_unnamed_literal. destruct (ti_ty t); intros H; try discriminate H; try exact I.
  - now apply guard_ok in H.
  - apply guard_ok in H. apply orb_true_iff in H. destruct H as [H|H]; apply String.eqb_eq in H; auto.
Qed.

Section B.
  Variable T : tenv.
  Variable tfuel : nat.
  Notation EI := (elab_instrs T tfuel).
  Notation EH := (elab_head T tfuel).
  Notation bad := (bad_at T tfuel).

  (* ---------------- success implies well-formed: the four leaf instructions ---------------- *)
  Lemma elab_field_ok_inv c name ty len padded optional text c' es :
    elab_field T tfuel c name ty len padded optional text = Ok (c', es) ->
    exists tn t lm,
      ty = Some tn /\
      (cx_ropt c = true -> flag_attr optional = true) /\
      (name = None -> flag_attr optional = false /\ text <> None) /\
      get_type T tfuel tn len = Ok t /\
      check_hardcoded t len text = Ok tt /\
      (forall lit, text = Some lit -> check_unnamed_literal t lit = Ok tt) /\
      (forall n, name = Some n -> assoc (cx_fields c) n = None) /\
      check_length_attr c len = Ok tt /\
      elab_len c len = Ok lm /\
      c' = mkCtx (cx_chunked c) (cx_ropt c || flag_attr optional) (cx_rdummy c)
             (match name with Some n => cx_fields c ++ [(n, mkFD t 0 false)] | None => cx_fields c end)
             (match name, len with Some _, Some ln => lenmap_mark (cx_lenmap c) ln | _, _ => cx_lenmap c end) true.
  Proof.
    unfold elab_field, gt. intros H.
    bind_inv H u0 E0. bind_inv H tn Etn. bind_inv H u1 E1. bind_inv H u2 E2. bind_inv H t0 Et0.
    bind_inv H u3 E3. bind_inv H u4 E4. bind_inv H u5 E5. bind_inv H t Et. bind_inv H u6 E6.
    bind_inv H lm Elm. destruct lm as [l maxlen]. apply require_ok in Etn.
    apply guard_ok in E0, E1. destruct u3, u5.
    exists tn, t, (l, maxlen). repeat split.
    - exact Etn.
    - intros Hr. rewrite Hr in E0. cbn [andb] in E0. now destruct (flag_attr optional).
    - subst name. bind_inv E2 u7 E7. apply guard_ok in E2. now destruct (flag_attr optional).
    - subst name. bind_inv E2 u7 E7. intros ->. discriminate E7.
    - exact Et.
    - destruct text as [lit|]; [|reflexivity]. assert (t0 = t) by congruence. subst t0. exact E3.
    - intros lit ->. now destruct u6.
    - intros n ->. apply guard_ok in E4. now destruct (assoc (cx_fields c) n).
    - exact E5.
    - exact Elm.
    - injection H as <- _. reflexivity.
  Qed.

  Lemma elab_array_ok_inv c name ty len optional delimited trailing c' es :
    elab_array T tfuel c name ty len optional delimited trailing = Ok (c', es) ->
    exists n tn t lm,
      name = Some n /\ ty = Some tn /\
      (cx_ropt c = true -> flag_attr optional = true) /\
      (flag_attr delimited = true -> cx_chunked c = true) /\
      get_type T tfuel tn None = Ok t /\
      (flag_attr delimited = false -> ti_bounded t = true) /\
      assoc (cx_fields c) n = None /\
      check_length_attr c len = Ok tt /\
      elab_len c len = Ok lm /\
      c' = mkCtx (cx_chunked c) (cx_ropt c || flag_attr optional) (cx_rdummy c) (cx_fields c ++ [(n, mkFD t 0 true)])
             (match len with Some ln => lenmap_mark (cx_lenmap c) ln | None => cx_lenmap c end) true.
  Proof.
    unfold elab_array, gt. intros H.
    bind_inv H u0 E0. bind_inv H u1 E1. bind_inv H n En. bind_inv H tn Etn. bind_inv H t Et.
    bind_inv H u2 E2. bind_inv H u3 E3. bind_inv H u4 E4. bind_inv H lm Elm. destruct lm as [l maxlen].
    apply require_ok in En, Etn. apply guard_ok in E0, E1, E2, E3. destruct u4.
    exists n, tn, t, (l, maxlen). repeat split; try assumption.
    - intros Hr. rewrite Hr in E0. cbn [andb] in E0. now destruct (flag_attr optional).
    - intros Hd. rewrite Hd in E1. cbn [andb] in E1. now destruct (cx_chunked c).
    - intros Hd. rewrite Hd in E2. exact E2.
    - now destruct (assoc (cx_fields c) n).
    - injection H as <- _. reflexivity.
  Qed.

  Lemma elab_length_ok_inv c name ty offset optional c' es :
    elab_length T tfuel c name ty offset optional = Ok (c', es) ->
    exists n tn t i off,
      name = Some n /\ ty = Some tn /\
      (cx_ropt c = true -> flag_attr optional = true) /\
      match offset with None => off = 0 | Some o => parse_int o = Some off end /\
      get_type T tfuel tn None = Ok t /\ is_integer t = Some i /\
      assoc (cx_fields c) n = None /\
      c' = mkCtx (cx_chunked c) (cx_ropt c || flag_attr optional) (cx_rdummy c) (cx_fields c ++ [(n, mkFD t off false)])
             (cx_lenmap c ++ [(n, false)]) true.
  Proof.
    unfold elab_length, gt. intros H.
    bind_inv H u0 E0. bind_inv H n En. bind_inv H tn Etn. bind_inv H off Eoff. bind_inv H t Et. bind_inv H i Ei.
    bind_inv H u1 E1. apply require_ok in En, Etn, Ei. apply guard_ok in E0, E1.
    exists n, tn, t, i, off. repeat split; try assumption.
    - intros Hr. rewrite Hr in E0. cbn [andb] in E0. now destruct (flag_attr optional).
    - destruct offset as [o|]; [now apply require_ok in Eoff | congruence].
    - now destruct (assoc (cx_fields c) n).
    - injection H as <- _. reflexivity.
  Qed.

  Lemma elab_dummy_ok_inv c ty text c' es :
    elab_dummy T tfuel c ty text = Ok (c', es) ->
    exists tn lit t,
      ty = Some tn /\ text = Some lit /\ get_type T tfuel tn None = Ok t /\
      check_hardcoded t None (Some lit) = Ok tt /\ check_unnamed_literal t lit = Ok tt /\
      c' = mkCtx (cx_chunked c) (cx_ropt c) true (cx_fields c) (cx_lenmap c) true.
  Proof.
    unfold elab_dummy, gt. intros H.
    bind_inv H tn Etn. bind_inv H lit El. bind_inv H t Et. bind_inv H u0 E0. bind_inv H u1 E1.
    apply require_ok in Etn, El. destruct u0, u1. subst text.
    exists tn, lit, t. repeat split; try assumption. injection H as <- _. reflexivity.
  Qed.

  (* heads of leaf instructions *)
  Lemma EH_field_inv (recf : recfun) cls c n ty l p o tx c' es aux :
    EH recf cls c (RField n ty l p o tx) = Ok (c', es, aux) -> elab_field T tfuel c n ty l p o tx = Ok (c', es).
  Proof. cbn [elab_head]. intros H. bind_inv H x Ex. destruct x as [a b]. cbn [fst snd] in H. congruence. Qed.
  Lemma EH_array_inv (recf : recfun) cls c n ty l o d tr c' es aux :
    EH recf cls c (RArray n ty l o d tr) = Ok (c', es, aux) -> elab_array T tfuel c n ty l o d tr = Ok (c', es).
  Proof. cbn [elab_head]. intros H. bind_inv H x Ex. destruct x as [a b]. cbn [fst snd] in H. congruence. Qed.
  Lemma EH_length_inv (recf : recfun) cls c n ty off o c' es aux :
    EH recf cls c (RLength n ty off o) = Ok (c', es, aux) -> elab_length T tfuel c n ty off o = Ok (c', es).
  Proof. cbn [elab_head]. intros H. bind_inv H x Ex. destruct x as [a b]. cbn [fst snd] in H. congruence. Qed.
  Lemma EH_dummy_inv (recf : recfun) cls c ty tx c' es aux :
    EH recf cls c (RDummy ty tx) = Ok (c', es, aux) -> elab_dummy T tfuel c ty tx = Ok (c', es).
  Proof. cbn [elab_head]. intros H. bind_inv H x Ex. destruct x as [a b]. cbn [fst snd] in H. congruence. Qed.
  Lemma EH_break_inv (recf : recfun) cls c c' es aux :
    EH recf cls c RBreak = Ok (c', es, aux) ->
    cx_chunked c = true /\ c' = mkCtx true false false (cx_fields c) (cx_lenmap c) true.
  Proof. cbn [elab_head]. intros H. bind_inv H u Eg. apply guard_ok in Eg. split; [exact Eg | congruence]. Qed.

  (* proving bad_at from "any successful head leads to False" *)
  Lemma bad_by_inv cls c i :
    (forall recf c' es aux, EH recf cls c i = Ok (c', es, aux) -> False) -> bad cls c i.
  Proof.
    intros H. apply bad_of_head. intros recf. apply not_ok_rejects. intros [[c' es] aux] Hh. exact (H _ _ _ _ Hh).
  Qed.
End B.

Ltac inv_field H :=
  apply EH_field_inv in H; apply elab_field_ok_inv in H;
  destruct H as (tn' & t' & lm' & Hty & Hopt & Hunn & Hgt & Hhard & Hlit & Hdup & Hlen & Helen & Hc').
Ltac inv_array H :=
  apply EH_array_inv in H; apply elab_array_ok_inv in H;
  destruct H as (n' & tn' & t' & lm' & Hnm & Hty & Hopt & Hdelim & Hgt & Hbnd & Hdup & Hlen & Helen & Hc').
Ltac inv_length H :=
  apply EH_length_inv in H; apply elab_length_ok_inv in H;
  destruct H as (n' & tn' & t' & i' & off' & Hnm & Hty & Hopt & Hoff & Hgt & Hint & Hdup & Hc').
Ltac inv_dummy H :=
  apply EH_dummy_inv in H; apply elab_dummy_ok_inv in H;
  destruct H as (tn' & lit' & t' & Hty & Htx & Hgt & Hhard & Hlit & Hc').

Lemma case_value_ok_inv c fname v z : case_value c fname v = Ok z ->
  exists fd val, assoc (cx_fields c) fname = Some fd /\ fd_array fd = false /\ v = Some val /\
    match ti_ty (fd_ti fd) with
    | EInt _ => isdigit val = true
    | EEnum _ _ => match parse_int val with
                   | Some z' => existsb (fun p => snd p =? z') (ti_values (fd_ti fd)) = false
                   | None => assoc (ti_values (fd_ti fd)) val = Some z
                   end
    | _ => False
    end.
Proof.
  unfold case_value. intros H. bind_inv H fd Efd. bind_inv H u Eg. bind_inv H val Ev.
  apply require_ok in Efd, Ev. apply guard_ok in Eg. apply negb_true_iff in Eg.
  exists fd, val. repeat split; try assumption.
  destruct (ti_ty (fd_ti fd)); try discriminate H.
  - bind_inv H u' Eg'. now apply guard_ok in Eg'.
  - destruct (parse_int val) as [z'|].
    + bind_inv H u' Eg'. apply guard_ok in Eg'. now apply negb_true_iff in Eg'.
    + now apply require_ok in H.
Qed.

Section B2.
  Variable T : tenv.
  Variable tfuel : nat.
  Notation EI := (elab_instrs T tfuel).
  Notation EH := (elab_head T tfuel).
  Notation bad := (bad_at T tfuel).

  (* ---------- unknown type ---------- *)
  Theorem field_unknown_type cls c n tn l p o tx :
    rejects (get_type T tfuel tn l) -> bad cls c (RField n (Some tn) l p o tx).
  Proof.
    intros Hr. apply bad_by_inv. intros recf c' es aux H. inv_field H. injection Hty as <-.
    exact (rejects_not_ok _ _ Hr Hgt).
  Qed.
  Theorem array_unknown_type cls c n tn l o d tr :
    rejects (get_type T tfuel tn None) -> bad cls c (RArray n (Some tn) l o d tr).
  Proof.
    intros Hr. apply bad_by_inv. intros recf c' es aux H. inv_array H. injection Hty as <-.
    exact (rejects_not_ok _ _ Hr Hgt).
  Qed.
  Theorem length_unknown_type cls c n tn off o :
    rejects (get_type T tfuel tn None) -> bad cls c (RLength n (Some tn) off o).
  Proof.
    intros Hr. apply bad_by_inv. intros recf c' es aux H. inv_length H. injection Hty as <-.
    exact (rejects_not_ok _ _ Hr Hgt).
  Qed.
  Theorem dummy_unknown_type cls c tn tx :
    rejects (get_type T tfuel tn None) -> bad cls c (RDummy (Some tn) tx).
  Proof.
    intros Hr. apply bad_by_inv. intros recf c' es aux H. inv_dummy H. injection Hty as <-.
    exact (rejects_not_ok _ _ Hr Hgt).
  Qed.

  (* ---------- redefined field ---------- *)
  Theorem field_redefined cls c n fd ty l p o tx :
    assoc (cx_fields c) n = Some fd -> bad cls c (RField (Some n) ty l p o tx).
  Proof. intros Ha. apply bad_by_inv. intros recf c' es aux H. inv_field H. rewrite (Hdup n eq_refl) in Ha. discriminate Ha. Qed.
  Theorem array_redefined cls c n fd ty l o d tr :
    assoc (cx_fields c) n = Some fd -> bad cls c (RArray (Some n) ty l o d tr).
  Proof. intros Ha. apply bad_by_inv. intros recf c' es aux H. inv_array H. injection Hnm as <-. congruence. Qed.
  Theorem length_redefined cls c n fd ty off o :
    assoc (cx_fields c) n = Some fd -> bad cls c (RLength (Some n) ty off o).
  Proof. intros Ha. apply bad_by_inv. intros recf c' es aux H. inv_length H. injection Hnm as <-. congruence. Qed.

  (* ---------- bad length reference / referenced twice ---------- *)
  Theorem field_bad_length_ref cls c n ty l p o tx :
    isdigit l = false -> assoc (cx_lenmap c) l = None -> bad cls c (RField n ty (Some l) p o tx).
  Proof.
    intros Hd Ha. apply bad_by_inv. intros recf c' es aux H. inv_field H.
    apply check_length_attr_ok_inv in Hlen. destruct Hlen as [[Hl|[b Hl]] _]; congruence.
  Qed.
  Theorem array_bad_length_ref cls c n ty l o d tr :
    isdigit l = false -> assoc (cx_lenmap c) l = None -> bad cls c (RArray n ty (Some l) o d tr).
  Proof.
    intros Hd Ha. apply bad_by_inv. intros recf c' es aux H. inv_array H.
    apply check_length_attr_ok_inv in Hlen. destruct Hlen as [[Hl|[b Hl]] _]; congruence.
  Qed.
  Theorem field_length_ref_twice cls c n ty l p o tx :
    assoc (cx_lenmap c) l = Some true -> bad cls c (RField n ty (Some l) p o tx).
  Proof.
    intros Ha. apply bad_by_inv. intros recf c' es aux H. inv_field H.
    apply check_length_attr_ok_inv in Hlen. destruct Hlen as [_ Hl]. exact (Hl Ha).
  Qed.
  Theorem array_length_ref_twice cls c n ty l o d tr :
    assoc (cx_lenmap c) l = Some true -> bad cls c (RArray n ty (Some l) o d tr).
  Proof.
    intros Ha. apply bad_by_inv. intros recf c' es aux H. inv_array H.
    apply check_length_attr_ok_inv in Hlen. destruct Hlen as [_ Hl]. exact (Hl Ha).
  Qed.

  (* ---------- delimited arrays and breaks need a chunked section ---------- *)
  Theorem array_delimited_unchunked cls c n ty l o d tr :
    cx_chunked c = false -> flag_attr d = true -> bad cls c (RArray n ty l o d tr).
  Proof. intros Hc Hd. apply bad_by_inv. intros recf c' es aux H. inv_array H. rewrite (Hdelim Hd) in Hc. discriminate Hc. Qed.
  Theorem break_unchunked cls c : cx_chunked c = false -> bad cls c RBreak.
  Proof. intros Hc. apply bad_by_inv. intros recf c' es aux H. apply EH_break_inv in H. destruct H as [H _]. congruence. Qed.

  (* ---------- required after optional ---------- *)
  Theorem field_required_after_optional cls c n ty l p o tx :
    cx_ropt c = true -> flag_attr o = false -> bad cls c (RField n ty l p o tx).
  Proof. intros Hr Ho. apply bad_by_inv. intros recf c' es aux H. inv_field H. rewrite (Hopt Hr) in Ho. discriminate Ho. Qed.
  Theorem array_required_after_optional cls c n ty l o d tr :
    cx_ropt c = true -> flag_attr o = false -> bad cls c (RArray n ty l o d tr).
  Proof. intros Hr Ho. apply bad_by_inv. intros recf c' es aux H. inv_array H. rewrite (Hopt Hr) in Ho. discriminate Ho. Qed.
  Theorem length_required_after_optional cls c n ty off o :
    cx_ropt c = true -> flag_attr o = false -> bad cls c (RLength n ty off o).
  Proof. intros Hr Ho. apply bad_by_inv. intros recf c' es aux H. inv_length H. rewrite (Hopt Hr) in Ho. discriminate Ho. Qed.

  (* ---------- nothing after a dummy ---------- *)
  Theorem anything_after_dummy cls c i : cx_rdummy c = true -> bad cls c i.
  Proof.
    intros Hd f rest. apply not_ok_rejects. intros r Hr. apply EI_cons_inv in Hr.
    destruct Hr as (f' & c' & es & aux & c'' & es' & aux' & _ & Hd' & _). congruence.
  Qed.

  (* ---------- unnamed fields ---------- *)
  Theorem field_unnamed_without_value cls c ty l p o : bad cls c (RField None ty l p o None).
  Proof. apply bad_by_inv. intros recf c' es aux H. inv_field H. destruct (Hunn eq_refl) as [_ Hn]. now apply Hn. Qed.
  Theorem field_unnamed_optional cls c ty l p o tx : flag_attr o = true -> bad cls c (RField None ty l p o tx).
  Proof. intros Ho. apply bad_by_inv. intros recf c' es aux H. inv_field H. destruct (Hunn eq_refl) as [Hn _]. congruence. Qed.

  (* ---------- hardcoded values ---------- *)
  Theorem field_hardcoded_int_not_digits cls c n tn l p o lit t i :
    get_type T tfuel tn l = Ok t -> ti_ty t = EInt i -> isdigit lit = false -> bad cls c (RField n (Some tn) l p o (Some lit)).
  Proof.
    intros Ht Hi Hd. apply bad_by_inv. intros recf c' es aux H. inv_field H. injection Hty as <-.
    assert (t' = t) by congruence. subst t'. specialize (Hlit lit eq_refl).
    apply check_unnamed_literal_ok_inv in Hlit. rewrite Hi in Hlit. congruence.
  Qed.
  Theorem field_hardcoded_bool_not_bool cls c n tn l p o lit t u :
    get_type T tfuel tn l = Ok t -> ti_ty t = EBool u -> lit <> "true" -> lit <> "false" ->
    bad cls c (RField n (Some tn) l p o (Some lit)).
  Proof.
    intros Ht Hi Hd1 Hd2. apply bad_by_inv. intros recf c' es aux H. inv_field H. injection Hty as <-.
    assert (t' = t) by congruence. subst t'. specialize (Hlit lit eq_refl).
    apply check_unnamed_literal_ok_inv in Hlit. rewrite Hi in Hlit. destruct Hlit; contradiction.
  Qed.
  Theorem dummy_hardcoded_int_not_digits cls c tn lit t i :
    get_type T tfuel tn None = Ok t -> ti_ty t = EInt i -> isdigit lit = false -> bad cls c (RDummy (Some tn) (Some lit)).
  Proof.
    intros Ht Hi Hd. apply bad_by_inv. intros recf c' es aux H. inv_dummy H. injection Hty as <-. injection Htx as <-.
    assert (t' = t) by congruence. subst t'.
    apply check_unnamed_literal_ok_inv in Hlit. rewrite Hi in Hlit. congruence.
  Qed.
  Theorem dummy_hardcoded_bool_not_bool cls c tn lit t u :
    get_type T tfuel tn None = Ok t -> ti_ty t = EBool u -> lit <> "true" -> lit <> "false" ->
    bad cls c (RDummy (Some tn) (Some lit)).
  Proof.
    intros Ht Hi Hd1 Hd2. apply bad_by_inv. intros recf c' es aux H. inv_dummy H. injection Hty as <-. injection Htx as <-.
    assert (t' = t) by congruence. subst t'.
    apply check_unnamed_literal_ok_inv in Hlit. rewrite Hi in Hlit. destruct Hlit; contradiction.
  Qed.
  Theorem field_hardcoded_string_length_mismatch cls c n tn l p o lit t enc z :
    get_type T tfuel tn (Some l) = Ok t -> ti_ty t = EStr enc -> parse_int l = Some z -> z <> str_len lit ->
    bad cls c (RField n (Some tn) (Some l) p o (Some lit)).
  Proof.
    intros Ht Hi Hp Hz. apply bad_by_inv. intros recf c' es aux H. inv_field H. injection Hty as <-.
    assert (t' = t) by congruence. subst t'.
    apply check_hardcoded_ok_inv in Hhard. destruct Hhard as [_ Hh]. exact (Hz (Hh enc z Hi Hp)).
  Qed.
  Theorem field_hardcoded_nonbasic cls c n tn l p o lit t :
    get_type T tfuel tn l = Ok t -> is_basic t = false -> bad cls c (RField n (Some tn) l p o (Some lit)).
  Proof.
    intros Ht Hb. apply bad_by_inv. intros recf c' es aux H. inv_field H. injection Hty as <-.
    assert (t' = t) by congruence. subst t'.
    apply check_hardcoded_ok_inv in Hhard. destruct Hhard as [Hh _]. congruence.
  Qed.
  Theorem dummy_hardcoded_nonbasic cls c tn lit t :
    get_type T tfuel tn None = Ok t -> is_basic t = false -> bad cls c (RDummy (Some tn) (Some lit)).
  Proof.
    intros Ht Hb. apply bad_by_inv. intros recf c' es aux H. inv_dummy H. injection Hty as <-. injection Htx as <-.
    assert (t' = t) by congruence. subst t'.
    apply check_hardcoded_ok_inv in Hhard. destruct Hhard as [Hh _]. congruence.
  Qed.

  (* ---------- length attribute on a non-string type ---------- *)
  Lemma get_type_length_nonstring fuel name l : is_string_name name = None -> rejects (get_type T fuel name (Some l)).
  Proof.
    intros H. destruct fuel as [|fuel]; [apply rejects_err|]. cbn [get_type]. rewrite H. apply rejects_err.
  Qed.
  Theorem field_length_on_nonstring cls c n tn l p o tx :
    is_string_name tn = None -> bad cls c (RField n (Some tn) (Some l) p o tx).
  Proof. intros H. apply field_unknown_type. now apply get_type_length_nonstring. Qed.

  (* ---------- length fields ---------- *)
  Theorem length_non_integer_type cls c n tn off o t :
    get_type T tfuel tn None = Ok t -> is_integer t = None -> bad cls c (RLength n (Some tn) off o).
  Proof.
    intros Ht Hi. apply bad_by_inv. intros recf c' es aux H. inv_length H. injection Hty as <-.
    assert (t' = t) by congruence. subst t'. congruence.
  Qed.
  Theorem length_bad_offset cls c n ty off o : parse_int off = None -> bad cls c (RLength n ty (Some off) o).
  Proof. intros Hp. apply bad_by_inv. intros recf c' es aux H. inv_length H. congruence. Qed.

  (* ---------- arrays ---------- *)
  Theorem array_unbounded_element cls c n tn l o d tr t :
    flag_attr d = false -> get_type T tfuel tn None = Ok t -> ti_bounded t = false -> bad cls c (RArray n (Some tn) l o d tr).
  Proof.
    intros Hd Ht Hb. apply bad_by_inv. intros recf c' es aux H. inv_array H. injection Hty as <-.
    assert (t' = t) by congruence. subst t'. rewrite (Hbnd Hd) in Hb. discriminate Hb.
  Qed.

  (* ---------- missing required attributes ---------- *)
  Theorem array_without_name cls c ty l o d tr : bad cls c (RArray None ty l o d tr).
  Proof. apply bad_by_inv. intros recf c' es aux H. inv_array H. discriminate Hnm. Qed.
  Theorem array_without_type cls c n l o d tr : bad cls c (RArray n None l o d tr).
  Proof. apply bad_by_inv. intros recf c' es aux H. inv_array H. discriminate Hty. Qed.
  Theorem field_without_type cls c n l p o tx : bad cls c (RField n None l p o tx).
  Proof. apply bad_by_inv. intros recf c' es aux H. inv_field H. discriminate Hty. Qed.
  Theorem length_without_name cls c ty off o : bad cls c (RLength None ty off o).
  Proof. apply bad_by_inv. intros recf c' es aux H. inv_length H. discriminate Hnm. Qed.
  Theorem length_without_type cls c n off o : bad cls c (RLength n None off o).
  Proof. apply bad_by_inv. intros recf c' es aux H. inv_length H. discriminate Hty. Qed.
  Theorem dummy_without_type cls c tx : bad cls c (RDummy None tx).
  Proof. apply bad_by_inv. intros recf c' es aux H. inv_dummy H. discriminate Hty. Qed.
  Theorem dummy_without_value cls c ty : bad cls c (RDummy ty None).
  Proof. apply bad_by_inv. intros recf c' es aux H. inv_dummy H. discriminate Htx. Qed.

  (* ---------- switches ---------- *)
  Lemma elab_cases_ok_inv (recf : recfun) cls iface fname c : forall cs start ro rd r,
    elab_cases recf cls iface fname c cs start ro rd = Ok r ->
    (start = true -> match cs with RCase v d b :: _ => bool_attr d false = false | [] => True end) /\
    (forall v d b, In (RCase v d b) cs ->
       if bool_attr d false then exists fd, assoc (cx_fields c) fname = Some fd
       else exists z, case_value c fname v = Ok z).
  Proof.
    induction cs as [|[v0 d0 b0] more IH]; intros start ro rd r H.
    - split; [intros _; exact I | intros v d b []].
    - cbn [elab_cases] in H. fold (elab_cases recf cls iface fname c) in H.
      bind_inv H suffix Es. bind_inv H u Eg. bind_inv H key Ek. bind_inv H x Ex. destruct x as [[c' ocls] defs].
      bind_inv H tlr Et. apply guard_ok in Eg. split.
      + intros ->. rewrite andb_true_r in Eg. now apply negb_true_iff in Eg.
      + intros v d b [Hin|Hin].
        * injection Hin as <- <- <-. destruct (bool_attr d0 false).
          -- bind_inv Ek fd Efd. apply require_ok in Efd. now exists fd.
          -- bind_inv Ek z Ez. now exists z.
        * exact (proj2 (IH _ _ _ _ Et) v d b Hin).
  Qed.

  Lemma EH_switch_ok_inv (recf : recfun) cls c field cases r :
    EH recf cls c (RSwitch field cases) = Ok r ->
    exists fname, field = Some fname /\
      match cases with RCase v d b :: _ => bool_attr d false = false | [] => True end /\
      (forall v d b, In (RCase v d b) cases ->
         if bool_attr d false then exists fd, assoc (cx_fields c) fname = Some fd
         else exists z, case_value c fname v = Ok z).
  Proof.
    cbn [elab_head]. intros H. bind_inv H fname Ef. bind_inv H x Ex. apply require_ok in Ef.
    apply elab_cases_ok_inv in Ex. destruct Ex as [H1 H2]. exists fname. split; [exact Ef|]. split; [now apply H1 | exact H2].
  Qed.

  (* the first case of a successful switch is a value case whose value is accepted *)
  Lemma EH_switch_first (recf : recfun) cls c fname v d b more r :
    EH recf cls c (RSwitch (Some fname) (RCase v d b :: more)) = Ok r ->
    bool_attr d false = false /\ exists z, case_value c fname v = Ok z.
  Proof.
    intros H. apply EH_switch_ok_inv in H. destruct H as (fname' & Hf & H1 & H2). injection Hf as <-.
    split; [exact H1|]. specialize (H2 v d b (or_introl eq_refl)). now rewrite H1 in H2.
  Qed.

  Theorem switch_without_field cls c cases : bad cls c (RSwitch None cases).
  Proof.
    apply bad_by_inv. intros recf c' es aux H. apply EH_switch_ok_inv in H. destruct H as (fname & Hf & _). discriminate Hf.
  Qed.
  Theorem switch_inaccessible_field cls c fname cases :
    assoc (cx_fields c) fname = None -> cases <> [] -> bad cls c (RSwitch (Some fname) cases).
  Proof.
    intros Ha Hne. destruct cases as [|[v d b] more]; [now destruct Hne|].
    apply bad_by_inv. intros recf c' es aux H. apply EH_switch_first in H. destruct H as [_ [z Hz]].
    apply case_value_ok_inv in Hz. destruct Hz as (fd & val & Hfd & _). congruence.
  Qed.
  Theorem switch_on_array_field cls c fname fd cases :
    assoc (cx_fields c) fname = Some fd -> fd_array fd = true -> cases <> [] -> bad cls c (RSwitch (Some fname) cases).
  Proof.
    intros Ha Harr Hne. destruct cases as [|[v d b] more]; [now destruct Hne|].
    apply bad_by_inv. intros recf c' es aux H. apply EH_switch_first in H. destruct H as [_ [z Hz]].
    apply case_value_ok_inv in Hz. destruct Hz as (fd' & val & Hfd & Hna & _). congruence.
  Qed.
  Definition switchable (t : etype) : bool := match t with EInt _ | EEnum _ _ => true | _ => false end.
  Theorem switch_on_unsuitable_type cls c fname fd cases :
    assoc (cx_fields c) fname = Some fd -> switchable (ti_ty (fd_ti fd)) = false -> cases <> [] ->
    bad cls c (RSwitch (Some fname) cases).
  Proof.
    intros Ha Hsw Hne. destruct cases as [|[v d b] more]; [now destruct Hne|].
    apply bad_by_inv. intros recf c' es aux H. apply EH_switch_first in H. destruct H as [_ [z Hz]].
    apply case_value_ok_inv in Hz. destruct Hz as (fd' & val & Hfd & _ & _ & Hm).
    assert (fd' = fd) by congruence. subst fd'. destruct (ti_ty (fd_ti fd)); try contradiction; discriminate Hsw.
  Qed.
  Theorem switch_default_first cls c field v d b more :
    bool_attr d false = true -> bad cls c (RSwitch field (RCase v d b :: more)).
  Proof.
    intros Hd. apply bad_by_inv. intros recf c' es aux H. apply EH_switch_ok_inv in H.
    destruct H as (fname & _ & H1 & _). congruence.
  Qed.
  Theorem switch_case_without_value cls c field cases d b :
    In (RCase None d b) cases -> bool_attr d false = false -> bad cls c (RSwitch field cases).
  Proof.
    intros Hin Hd. apply bad_by_inv. intros recf c' es aux H. apply EH_switch_ok_inv in H.
    destruct H as (fname & _ & _ & H2). specialize (H2 _ _ _ Hin). rewrite Hd in H2. destruct H2 as [z Hz].
    apply case_value_ok_inv in Hz. destruct Hz as (fd & val & _ & _ & Hv & _). discriminate Hv.
  Qed.
  Theorem switch_case_int_not_digits cls c fname fd i cases v d b :
    assoc (cx_fields c) fname = Some fd -> ti_ty (fd_ti fd) = EInt i ->
    In (RCase (Some v) d b) cases -> bool_attr d false = false -> isdigit v = false ->
    bad cls c (RSwitch (Some fname) cases).
  Proof.
    intros Ha Hi Hin Hd Hv. apply bad_by_inv. intros recf c' es aux H. apply EH_switch_ok_inv in H.
    destruct H as (fname' & Hf & _ & H2). injection Hf as <-. specialize (H2 _ _ _ Hin). rewrite Hd in H2. destruct H2 as [z Hz].
    apply case_value_ok_inv in Hz. destruct Hz as (fd' & val & Hfd & _ & Hval & Hm).
    assert (fd' = fd) by congruence. subst fd'. injection Hval as <-. rewrite Hi in Hm. congruence.
  Qed.
  Theorem switch_case_enum_declared_ordinal cls c fname fd en u cases v z d b :
    assoc (cx_fields c) fname = Some fd -> ti_ty (fd_ti fd) = EEnum en u ->
    In (RCase (Some v) d b) cases -> bool_attr d false = false ->
    parse_int v = Some z -> existsb (fun p => snd p =? z) (ti_values (fd_ti fd)) = true ->
    bad cls c (RSwitch (Some fname) cases).
  Proof.
    intros Ha Hi Hin Hd Hv Hex. apply bad_by_inv. intros recf c' es aux H. apply EH_switch_ok_inv in H.
    destruct H as (fname' & Hf & _ & H2). injection Hf as <-. specialize (H2 _ _ _ Hin). rewrite Hd in H2. destruct H2 as [z0 Hz].
    apply case_value_ok_inv in Hz. destruct Hz as (fd' & val & Hfd & _ & Hval & Hm).
    assert (fd' = fd) by congruence. subst fd'. injection Hval as <-. rewrite Hi, Hv in Hm. congruence.
  Qed.
  Theorem switch_case_enum_unknown_name cls c fname fd en u cases v d b :
    assoc (cx_fields c) fname = Some fd -> ti_ty (fd_ti fd) = EEnum en u ->
    In (RCase (Some v) d b) cases -> bool_attr d false = false ->
    parse_int v = None -> assoc (ti_values (fd_ti fd)) v = None ->
    bad cls c (RSwitch (Some fname) cases).
  Proof.
    intros Ha Hi Hin Hd Hv Hun. apply bad_by_inv. intros recf c' es aux H. apply EH_switch_ok_inv in H.
    destruct H as (fname' & Hf & _ & H2). injection Hf as <-. specialize (H2 _ _ _ Hin). rewrite Hd in H2. destruct H2 as [z0 Hz].
    apply case_value_ok_inv in Hz. destruct Hz as (fd' & val & Hfd & _ & Hval & Hm).
    assert (fd' = fd) by congruence. subst fd'. injection Hval as <-. rewrite Hi, Hv in Hm. congruence.
  Qed.
End B2.

(* ================= context evolution along a body ================= *)
Definition ctx_le (c c' : ctx) : Prop :=
  cx_chunked c' = cx_chunked c /\
  (forall n fd, assoc (cx_fields c) n = Some fd -> assoc (cx_fields c') n = Some fd) /\
  (forall l, assoc (cx_lenmap c) l = Some true -> assoc (cx_lenmap c') l = Some true).

Lemma ctx_le_refl c : ctx_le c c.
Proof. repeat split; auto. Qed.
Lemma ctx_le_trans c1 c2 c3 : ctx_le c1 c2 -> ctx_le c2 c3 -> ctx_le c1 c3.
Proof. intros (A1 & B1 & C1) (A2 & B2 & C2). repeat split; [congruence | auto | auto]. Qed.

Lemma lenmap_mark_keeps m k l : assoc m l = Some true -> assoc (lenmap_mark m k) l = Some true.
Proof. intros H. rewrite assoc_lenmap_mark, H. now destruct (String.eqb k l). Qed.

Section Evolution.
  Variable T : tenv.
  Variable tfuel : nat.
  Notation EI := (elab_instrs T tfuel).
  Notation EH := (elab_head T tfuel).
  Notation bad := (bad_at T tfuel).

  Lemma EH_ctx_le (recf : recfun) cls c i c' es aux :
    (forall cls0 c0 is0 c1 es1 aux1, recf cls0 c0 is0 = Ok (c1, es1, aux1) -> ctx_le c0 c1) ->
    EH recf cls c i = Ok (c', es, aux) -> ctx_le c c'.
  Proof.
    intros Hrec H. destruct i as [n ty l p o tx|n ty l o d tr|n ty off o|ty tx|field cases|body|].
    - inv_field H. subst c'. repeat split; cbn [cx_chunked cx_fields cx_lenmap].
      + intros m fd Hm. destruct n as [n|]; [now apply assoc_snoc_some | exact Hm].
      + intros k Hk. destruct n as [n|]; [|exact Hk]. destruct l as [ln|]; [now apply lenmap_mark_keeps | exact Hk].
    - inv_array H. subst c'. repeat split; cbn [cx_chunked cx_fields cx_lenmap].
      + intros m fd Hm. now apply assoc_snoc_some.
      + intros k Hk. destruct l as [ln|]; [now apply lenmap_mark_keeps | exact Hk].
    - inv_length H. subst c'. repeat split; cbn [cx_chunked cx_fields cx_lenmap].
      + intros m fd Hm. now apply assoc_snoc_some.
      + intros k Hk. now apply assoc_snoc_some.
    - inv_dummy H. subst c'. repeat split; auto.
    - cbn [elab_head] in H. bind_inv H fname Ef. bind_inv H x Ex. destruct x as [[[ecs defs] ro] rd].
      injection H as <- _ _. repeat split; auto.
    - cbn [elab_head] in H. bind_inv H x Ex. destruct x as [[c2 es2] aux2]. injection H as <- _ _.
      apply Hrec in Ex. destruct Ex as (A & B & C). repeat split; cbn [cx_chunked cx_fields cx_lenmap]; auto.
    - apply EH_break_inv in H. destruct H as [Hc ->]. repeat split; auto.
  Qed.

  Lemma EI_ctx_le : forall f cls c is c' es aux, EI f cls c is = Ok (c', es, aux) -> ctx_le c c'.
  Proof.
    induction f as [|f IH]; intros cls c is c' es aux H; [discriminate H|].
    destruct is as [|i rest].
    - apply EI_nil_inv in H. injection H as <- _ _. apply ctx_le_refl.
    - apply EI_cons_inv in H. destruct H as (f' & c1 & es1 & aux1 & c2 & es2 & aux2 & Hf & Hd & Hh & Hr & Hres).
      injection Hf as <-. injection Hres as -> _ _.
      apply ctx_le_trans with c1; [exact (EH_ctx_le _ _ _ _ _ _ _ (IH) Hh) | exact (IH _ _ _ _ _ _ Hr)].
  Qed.

  (* ---------- stable context properties ---------- *)
  Definition has_field (n : string) (c : ctx) : Prop := exists fd, assoc (cx_fields c) n = Some fd.
  Definition len_used (l : string) (c : ctx) : Prop := assoc (cx_lenmap c) l = Some true.
  Definition unchunked (c : ctx) : Prop := cx_chunked c = false.
  Definition after_dummy (c : ctx) : Prop := cx_rdummy c = true.

  Lemma has_field_seq_stable n : seq_stable T tfuel (has_field n).
  Proof. intros f cls c is c1 es aux [fd Hfd] H. apply EI_ctx_le in H. destruct H as (_ & B & _). exists fd. now apply B. Qed.
  Lemma has_field_chunk_stable n : chunk_stable (has_field n).
  Proof. intros c H. exact H. Qed.
  Lemma len_used_seq_stable l : seq_stable T tfuel (len_used l).
  Proof. intros f cls c is c1 es aux Hl H. apply EI_ctx_le in H. destruct H as (_ & _ & C). now apply C. Qed.
  Lemma len_used_chunk_stable l : chunk_stable (len_used l).
  Proof. intros c H. exact H. Qed.
  Lemma unchunked_seq_stable : seq_stable T tfuel unchunked.
  Proof. intros f cls c is c1 es aux Hl H. apply EI_ctx_le in H. destruct H as (A & _ & _). unfold unchunked in *. congruence. Qed.
  Lemma unchunked_case_stable : case_stable unchunked.
  Proof. intros c H. exact H. Qed.
  Lemma after_dummy_seq_stable : seq_stable T tfuel after_dummy.
  Proof.
    intros f cls c is c1 es aux Hd H. destruct is as [|i rest].
    - apply EI_nil_inv in H. now injection H as <- _ _.
    - apply EI_cons_inv in H. destruct H as (f' & c' & es1 & aux1 & c'' & es' & aux' & _ & Hd' & _). unfold after_dummy in Hd. congruence.
  Qed.
  Lemma after_dummy_chunk_stable : chunk_stable after_dummy.
  Proof. intros c H. exact H. Qed.
  Lemma after_dummy_case_stable : case_stable after_dummy.
  Proof. intros c H. exact H. Qed.

  (* ---------- binders ---------- *)
  Definition binds (i : rinstr) (n : string) : Prop :=
    match i with
    | RField (Some m) _ _ _ _ _ | RArray (Some m) _ _ _ _ _ | RLength (Some m) _ _ _ => m = n
    | _ => False
    end.

  Lemma bad_rebinding cls c i n : has_field n c -> binds i n -> bad cls c i.
  Proof.
    intros [fd Hfd] Hb. destruct i as [[m|] ty l p o tx|[m|] ty l o d tr|[m|] ty off o|ty tx|field cases|body|];
      cbn [binds] in Hb; try contradiction; subst m.
    - now apply field_redefined with fd.
    - now apply array_redefined with fd.
    - now apply length_redefined with fd.
  Qed.

  Lemma EH_binds (recf : recfun) cls c i n c' es aux : binds i n -> EH recf cls c i = Ok (c', es, aux) -> has_field n c'.
  Proof.
    intros Hb H. destruct i as [[m|] ty l p o tx|[m|] ty l o d tr|[m|] ty off o|ty tx|field cases|body|];
      cbn [binds] in Hb; try contradiction; subst m.
    - inv_field H. subst c'. apply assoc_snoc_same.
    - inv_array H. injection Hnm as <-. subst c'. apply assoc_snoc_same.
    - inv_length H. injection Hnm as <-. subst c'. apply assoc_snoc_same.
  Qed.

  (* a head instruction followed by a body that is rejected from every context the head can produce *)
  Lemma cons_rejected cls c i body :
    (forall recf c' es aux, EH recf cls c i = Ok (c', es, aux) -> body_rejected T tfuel cls c' body) ->
    body_rejected T tfuel cls c (i :: body).
  Proof.
    intros H f. apply not_ok_rejects. intros r Hr. apply EI_cons_inv in Hr.
    destruct Hr as (f' & c' & es & aux & c'' & es' & aux' & -> & Hd & Hh & Hrest & _).
    exact (rejects_not_ok _ _ (H _ _ _ _ Hh f') Hrest).
  Qed.

  (* redefinition: a binder of n, then (anywhere later in the same list, possibly inside <chunked>) another binder of n *)
  Theorem redefined_later_path cls c i1 i2 n kc body :
    binds i1 n -> binds i2 n -> occurs i2 kc false body -> body_rejected T tfuel cls c (i1 :: body).
  Proof.
    intros H1 H2 Hocc. apply cons_rejected. intros recf c' es aux Hh.
    apply (occurs_rejected_gen T tfuel (has_field n) i2) with (kc := kc) (ks := false); auto.
    - intros cls0 c0 Hc0. now apply bad_rebinding with n.
    - apply has_field_seq_stable.
    - intros _. apply has_field_chunk_stable.
    - discriminate.
    - exact (EH_binds _ _ _ _ _ _ _ _ H1 Hh).
  Qed.
  Corollary redefined_later cls c i1 mid i2 rest n :
    binds i1 n -> binds i2 n -> body_rejected T tfuel cls c (i1 :: mid ++ i2 :: rest).
  Proof. intros H1 H2. apply redefined_later_path with (i2 := i2) (n := n) (kc := false); auto. apply occ_here. Qed.

  (* length field referenced twice *)
  Definition refs_len (i : rinstr) (l : string) : Prop :=
    match i with
    | RField _ _ (Some m) _ _ _ | RArray _ _ (Some m) _ _ _ => m = l
    | _ => False
    end.
  (* a reference that marks the length field as used: a named field or an array *)
  Definition marks_len (i : rinstr) (l : string) : Prop :=
    match i with
    | RField (Some _) _ (Some m) _ _ _ | RArray _ _ (Some m) _ _ _ => m = l
    | _ => False
    end.

  Lemma bad_second_ref cls c i l : len_used l c -> refs_len i l -> bad cls c i.
  Proof.
    intros Hu Hr. destruct i as [n ty [m|] p o tx|n ty [m|] o d tr|n ty off o|ty tx|field cases|body|];
      cbn [refs_len] in Hr; try contradiction; subst m.
    - now apply field_length_ref_twice.
    - now apply array_length_ref_twice.
  Qed.

  Lemma EH_marks (recf : recfun) cls c i l c' es aux :
    isdigit l = false -> marks_len i l -> EH recf cls c i = Ok (c', es, aux) -> len_used l c'.
  Proof.
    intros Hd Hm H. unfold len_used.
    destruct i as [[n|] ty [m|] p o tx|n ty [m|] o d tr|n ty off o|ty tx|field cases|body|];
      cbn [marks_len] in Hm; try contradiction; subst m.
    - inv_field H. subst c'. cbn [cx_lenmap]. apply check_length_attr_ok_inv in Hlen.
      destruct Hlen as [[Hl|[b Hl]] _]; [congruence|]. rewrite assoc_lenmap_mark, String.eqb_refl, Hl. reflexivity.
    - inv_array H. subst c'. cbn [cx_lenmap]. apply check_length_attr_ok_inv in Hlen.
      destruct Hlen as [[Hl|[b Hl]] _]; [congruence|]. rewrite assoc_lenmap_mark, String.eqb_refl, Hl. reflexivity.
  Qed.

  Theorem length_ref_twice_path cls c i1 i2 l kc body :
    isdigit l = false -> marks_len i1 l -> refs_len i2 l -> occurs i2 kc false body ->
    body_rejected T tfuel cls c (i1 :: body).
  Proof.
    intros Hd H1 H2 Hocc. apply cons_rejected. intros recf c' es aux Hh.
    apply (occurs_rejected_gen T tfuel (len_used l) i2) with (kc := kc) (ks := false); auto.
    - intros cls0 c0 Hc0. now apply bad_second_ref with l.
    - apply len_used_seq_stable.
    - intros _. apply len_used_chunk_stable.
    - discriminate.
    - exact (EH_marks _ _ _ _ _ _ _ _ Hd H1 Hh).
  Qed.
  Corollary length_ref_twice cls c i1 mid i2 rest l :
    isdigit l = false -> marks_len i1 l -> refs_len i2 l -> body_rejected T tfuel cls c (i1 :: mid ++ i2 :: rest).
  Proof. intros Hd H1 H2. apply length_ref_twice_path with (i2 := i2) (l := l) (kc := false); auto. apply occ_here. Qed.

  (* breaks and delimited arrays outside any <chunked> of the object *)
  Theorem break_outside_chunked cls c ks body :
    cx_chunked c = false -> occurs RBreak false ks body -> body_rejected T tfuel cls c body.
  Proof.
    intros Hc Hocc. apply (occurs_rejected_gen T tfuel unchunked RBreak) with (kc := false) (ks := ks); auto.
    - intros cls0 c0 Hc0. now apply break_unchunked.
    - apply unchunked_seq_stable.
    - discriminate.
    - intros _. apply unchunked_case_stable.
  Qed.
  Theorem delimited_outside_chunked cls c ks body n ty l o d tr :
    cx_chunked c = false -> flag_attr d = true -> occurs (RArray n ty l o d tr) false ks body ->
    body_rejected T tfuel cls c body.
  Proof.
    intros Hc Hd Hocc. apply (occurs_rejected_gen T tfuel unchunked (RArray n ty l o d tr)) with (kc := false) (ks := ks); auto.
    - intros cls0 c0 Hc0. now apply array_delimited_unchunked.
    - apply unchunked_seq_stable.
    - discriminate.
    - intros _. apply unchunked_case_stable.
  Qed.

  (* anything after a dummy: in the same list, at any depth *)
  Theorem after_dummy_path cls c ty tx i kc ks body :
    occurs i kc ks body -> body_rejected T tfuel cls c (RDummy ty tx :: body).
  Proof.
    intros Hocc. apply cons_rejected. intros recf c' es aux Hh.
    apply (occurs_rejected_gen T tfuel after_dummy i) with (kc := kc) (ks := ks); auto.
    - intros cls0 c0 Hc0. now apply anything_after_dummy.
    - apply after_dummy_seq_stable.
    - intros _. apply after_dummy_chunk_stable.
    - intros _. apply after_dummy_case_stable.
    - inv_dummy Hh. subst c'. reflexivity.
  Qed.
  Corollary dummy_then_any cls c ty tx i rest : body_rejected T tfuel cls c (RDummy ty tx :: i :: rest).
  Proof. apply after_dummy_path with (i := i) (kc := false) (ks := false). apply (occ_here i [] rest). Qed.

  (* required after optional *)
  Definition optional_binder (i : rinstr) : Prop :=
    match i with
    | RField _ _ _ _ o _ | RArray _ _ _ o _ _ | RLength _ _ _ o => flag_attr o = true
    | _ => False
    end.
  Definition required_binder (i : rinstr) : Prop :=
    match i with
    | RField _ _ _ _ o _ | RArray _ _ _ o _ _ | RLength _ _ _ o => flag_attr o = false
    | _ => False
    end.
  Definition simple_binder (i : rinstr) : Prop :=
    match i with RField _ _ _ _ _ _ | RArray _ _ _ _ _ _ | RLength _ _ _ _ => True | _ => False end.

  Lemma bad_required cls c i : cx_ropt c = true -> required_binder i -> bad cls c i.
  Proof.
    intros Hr Hq. destruct i as [n ty l p o tx|n ty l o d tr|n ty off o|ty tx|field cases|body|]; cbn [required_binder] in Hq;
      try contradiction.
    - now apply field_required_after_optional.
    - now apply array_required_after_optional.
    - now apply length_required_after_optional.
  Qed.

  Lemma EH_simple_ropt (recf : recfun) cls c i c' es aux :
    simple_binder i -> EH recf cls c i = Ok (c', es, aux) ->
    (cx_ropt c = true -> cx_ropt c' = true) /\ (optional_binder i -> cx_ropt c' = true).
  Proof.
    intros Hs H. destruct i as [n ty l p o tx|n ty l o d tr|n ty off o|ty tx|field cases|body|]; cbn [simple_binder] in Hs;
      try contradiction; cbn [optional_binder].
    - inv_field H. subst c'. cbn [cx_ropt]. split; intros ->; [reflexivity | apply orb_true_r].
    - inv_array H. subst c'. cbn [cx_ropt]. split; intros ->; [reflexivity | apply orb_true_r].
    - inv_length H. subst c'. cbn [cx_ropt]. split; intros ->; [reflexivity | apply orb_true_r].
  Qed.

  Lemma simple_keeps_ropt cls : forall mid f c c1 es aux,
    Forall simple_binder mid -> cx_ropt c = true -> EI f cls c mid = Ok (c1, es, aux) -> cx_ropt c1 = true.
  Proof.
    induction mid as [|i mid IH]; intros f c c1 es aux Hall Hr H.
    - apply EI_nil_inv in H. now injection H as <- _ _.
    - apply EI_cons_inv in H. destruct H as (f' & c' & es1 & aux1 & c'' & es' & aux' & _ & _ & Hh & Hrest & Hres).
      injection Hres as -> _ _. inversion Hall as [|x xs Hx Hxs]; subst.
      refine (IH _ _ _ _ _ Hxs _ Hrest). exact (proj1 (EH_simple_ropt _ _ _ _ _ _ _ Hx Hh) Hr).
  Qed.

  (* an optional field/array/length, then only fields/arrays/lengths, then a required one *)
  Theorem required_after_optional cls c i1 mid i2 rest :
    optional_binder i1 -> Forall simple_binder mid -> required_binder i2 ->
    body_rejected T tfuel cls c (i1 :: mid ++ i2 :: rest).
  Proof.
    intros H1 Hmid H2. apply cons_rejected. intros recf c' es aux Hh.
    apply seq_rejected_instr. intros f c1 es1 aux1 Hp. apply bad_required; [|exact H2].
    apply (simple_keeps_ropt cls mid f c' c1 es1 aux1 Hmid); [|exact Hp].
    assert (Hs : simple_binder i1) by (destruct i1; cbn [optional_binder simple_binder] in *; auto).
    exact (proj2 (EH_simple_ropt _ _ _ _ _ _ _ Hs Hh) H1).
  Qed.
  Corollary required_right_after_optional cls c i1 i2 rest :
    optional_binder i1 -> required_binder i2 -> body_rejected T tfuel cls c (i1 :: i2 :: rest).
  Proof. intros H1 H2. exact (required_after_optional cls c i1 [] i2 rest H1 (Forall_nil _) H2). Qed.
End Evolution.

(* ================= objects, files, protocols ================= *)
Theorem object_rejected T tfuel cls body : body_rejected T tfuel cls ctx0 body -> rejects (elab_object T tfuel cls body).
Proof. intros H. unfold elab_object. apply rejects_bind_l. apply H. Qed.

Lemma gen_file_ok_inv T tfuel f r : gen_file T tfuel f = Ok r ->
  (forall e, In e (rf_enums f) ->
     exists n ti u, re_name e = Some n /\ get_type T tfuel n None = Ok ti /\ ti_ty ti = EEnum n u) /\
  (forall s, In s (rf_structs f) ->
     exists n ti defs, rs_name s = Some n /\ get_type T tfuel n None = Ok ti /\ ti_ty ti = EStruct n /\
                       elab_object T tfuel n (rs_body s) = Ok defs) /\
  (forall p, In p (rf_packets f) ->
     exists fa ac suffix fam act fv av defs,
       packet_suffix (rf_path f) = Ok suffix /\ rp_family p = Some fa /\ rp_action p = Some ac /\
       get_type T tfuel "PacketFamily" None = Ok fam /\ get_type T tfuel "PacketAction" None = Ok act /\
       (exists en u, ti_ty fam = EEnum en u) /\ (exists en u, ti_ty act = EEnum en u) /\
       assoc (ti_values fam) fa = Some fv /\ assoc (ti_values act) ac = Some av /\
       elab_object T tfuel (fa ++ ac ++ suffix) (rp_body p) = Ok defs).
Proof.
  unfold gen_file. intros H. bind_inv H es0 E1. bind_inv H ss0 E2. bind_inv H ps0 E3. clear H.
  split; [|split].
  - clear E2 E3. revert es0 E1.
    match goal with |- forall es0, ?P (rf_enums f) = _ -> _ =>
      assert (HP : forall l es0, P l = Ok es0 -> forall e, In e l ->
                exists n ti u, re_name e = Some n /\ get_type T tfuel n None = Ok ti /\ ti_ty ti = EEnum n u) end.
    { induction l as [|e0 l IHl]; intros es0 H e Hin; [destruct Hin|].
      bind_inv H n En. bind_inv H ti Eti. bind_inv H pe Epe. bind_inv H tlr Etl.
      destruct Hin as [<-|Hin]; [|exact (IHl _ Etl e Hin)].
      apply require_ok in En. destruct (ti_ty ti) as [| |en u| | |] eqn:Ety; try discriminate Epe.
      destruct (String.eqb en n) eqn:Q; [|discriminate Epe]. apply String.eqb_eq in Q. subst en.
      now exists n, ti, u. }
    intros es0 E1. exact (HP _ _ E1).
  - clear E1 E3. revert ss0 E2.
    match goal with |- forall ss0, ?P (rf_structs f) = _ -> _ =>
      assert (HP : forall l ss0, P l = Ok ss0 -> forall s, In s l ->
                exists n ti defs, rs_name s = Some n /\ get_type T tfuel n None = Ok ti /\ ti_ty ti = EStruct n /\
                                  elab_object T tfuel n (rs_body s) = Ok defs) end.
    { induction l as [|s0 l IHl]; intros ss0 H s Hin; [destruct Hin|].
      bind_inv H n En. bind_inv H ti Eti. bind_inv H u Eu. bind_inv H defs Ed. bind_inv H tlr Etl.
      destruct Hin as [<-|Hin]; [|exact (IHl _ Etl s Hin)].
      apply require_ok in En. destruct (ti_ty ti) as [| | | | |sn] eqn:Ety; try discriminate Eu.
      apply guard_ok in Eu. apply String.eqb_eq in Eu. subst sn. now exists n, ti, defs. }
    intros ss0 E2. exact (HP _ _ E2).
  - clear E1 E2. revert ps0 E3.
    match goal with |- forall ps0, ?P (rf_packets f) = _ -> _ =>
      assert (HP : forall l ps0, P l = Ok ps0 -> forall p, In p l ->
                exists fa ac suffix fam act fv av defs,
                  packet_suffix (rf_path f) = Ok suffix /\ rp_family p = Some fa /\ rp_action p = Some ac /\
                  get_type T tfuel "PacketFamily" None = Ok fam /\ get_type T tfuel "PacketAction" None = Ok act /\
                  (exists en u, ti_ty fam = EEnum en u) /\ (exists en u, ti_ty act = EEnum en u) /\
                  assoc (ti_values fam) fa = Some fv /\ assoc (ti_values act) ac = Some av /\
                  elab_object T tfuel (fa ++ ac ++ suffix) (rp_body p) = Ok defs) end.
    { induction l as [|p0 l IHl]; intros ps0 H p Hin; [destruct Hin|].
      bind_inv H suffix Es. bind_inv H fa Ef. bind_inv H ac Ea. bind_inv H fam Efam. bind_inv H u1 Ec1.
      bind_inv H act Eact. bind_inv H u2 Ec2. bind_inv H fv Efv. bind_inv H av Eav. bind_inv H dfs Ed.
      bind_inv H tlr Etl.
      destruct Hin as [<-|Hin]; [|exact (IHl _ Etl p Hin)].
      apply require_ok in Ef, Ea, Efv, Eav. exists fa, ac, suffix, fam, act, fv, av, dfs. repeat split; try assumption.
      - destruct (ti_ty fam) as [| |en u| | |]; try discriminate Ec1. now exists en, u.
      - destruct (ti_ty act) as [| |en u| | |]; try discriminate Ec2. now exists en, u. }
    intros ps0 E3. exact (HP _ _ E3).
Qed.

Lemma elab_ok_inv fs p : elab fs = Ok p ->
  exists T, index_files [] fs = Ok T /\ forall f, In f fs -> exists r, gen_file T (S (S (List.length T))) f = Ok r.
Proof.
  unfold elab. intros H. bind_inv H T ET. exists T. split; [exact ET|].
  revert p H.
  match goal with |- forall p, ?G fs = _ -> _ =>
    assert (HG : forall l p, G l = Ok p -> forall f, In f l -> exists r, gen_file T (S (S (List.length T))) f = Ok r) end.
  { induction l as [|f0 l IHl]; intros p H f Hin; [destruct Hin|].
    bind_inv H x Ex. destruct x as [[[defs es] ps] names]. bind_inv H p' Ep.
    destruct Hin as [<-|Hin]; [eexists; exact Ex | exact (IHl _ Ep f Hin)]. }
  intros p H. exact (HG _ _ H).
Qed.

Theorem protocol_rejected_index fs : rejects (index_files [] fs) -> rejects (elab fs).
Proof. intros H. unfold elab. now apply rejects_bind_l. Qed.

Theorem protocol_rejected_file fs f :
  In f fs -> (forall T, index_files [] fs = Ok T -> rejects (gen_file T (S (S (List.length T))) f)) -> rejects (elab fs).
Proof.
  intros Hin H. apply not_ok_rejects. intros p Hp. apply elab_ok_inv in Hp. destruct Hp as (T & HT & Hall).
  destruct (Hall f Hin) as [r Hr]. exact (rejects_not_ok _ _ (H T HT) Hr).
Qed.

Theorem file_rejected_struct T tfuel f s :
  In s (rf_structs f) -> (forall n, rs_name s = Some n -> rejects (elab_object T tfuel n (rs_body s))) ->
  rejects (gen_file T tfuel f).
Proof.
  intros Hin H. apply not_ok_rejects. intros r Hr. apply gen_file_ok_inv in Hr. destruct Hr as (_ & HS & _).
  destruct (HS s Hin) as (n & ti & defs & Hn & _ & _ & Hd). exact (rejects_not_ok _ _ (H n Hn) Hd).
Qed.

Theorem file_rejected_packet T tfuel f p :
  In p (rf_packets f) -> (forall cls, rejects (elab_object T tfuel cls (rp_body p))) -> rejects (gen_file T tfuel f).
Proof.
  intros Hin H. apply not_ok_rejects. intros r Hr. apply gen_file_ok_inv in Hr. destruct Hr as (_ & _ & HP).
  destruct (HP p Hin) as (fa & ac & suffix & fam & act & fv & av & defs & _ & _ & _ & _ & _ & _ & _ & _ & _ & Hd).
  exact (rejects_not_ok _ _ (H _) Hd).
Qed.

(* body is the body of a struct or of a packet declared in f *)
Definition body_of (f : rfile) (body : list rinstr) : Prop :=
  (exists s, In s (rf_structs f) /\ rs_body s = body) \/ (exists p, In p (rf_packets f) /\ rp_body p = body).

Theorem file_rejected_body T tfuel f body :
  body_of f body -> (forall cls, body_rejected T tfuel cls ctx0 body) -> rejects (gen_file T tfuel f).
Proof.
  intros [[s [Hin <-]]|[p [Hin <-]]] H.
  - apply file_rejected_struct with s; [exact Hin|]. intros n _. apply object_rejected. apply H.
  - apply file_rejected_packet with p; [exact Hin|]. intros cls. apply object_rejected. apply H.
Qed.

(* a rejected struct or packet body anywhere in any file rejects the whole protocol *)
Theorem protocol_rejected_body fs f body :
  In f fs -> body_of f body ->
  (forall T, index_files [] fs = Ok T -> forall cls, body_rejected T (S (S (List.length T))) cls ctx0 body) ->
  rejects (elab fs).
Proof.
  intros Hf Hb H. apply protocol_rejected_file with f; [exact Hf|]. intros T HT.
  apply file_rejected_body with body; [exact Hb | exact (H T HT)].
Qed.

(* a context-insensitive violation at any path of any body of any file rejects the whole protocol *)
Theorem protocol_rejected_occurrence fs f body i kc ks :
  In f fs -> body_of f body -> occurs i kc ks body ->
  (forall T, index_files [] fs = Ok T -> forall cls c, bad_at T (S (S (List.length T))) cls c i) ->
  rejects (elab fs).
Proof.
  intros Hf Hb Hocc Hbad. apply protocol_rejected_body with f body; auto.
  intros T HT cls. apply occurs_rejected with (i := i) (kc := kc) (ks := ks); [|exact Hocc]. exact (Hbad T HT).
Qed.

(* context-sensitive violations: properties of the initial context that survive along the path *)
Theorem protocol_rejected_occurrence_gen (P : ctx -> Prop) fs f body i kc ks :
  In f fs -> body_of f body -> occurs i kc ks body -> P ctx0 ->
  (forall T, index_files [] fs = Ok T -> forall cls c, P c -> bad_at T (S (S (List.length T))) cls c i) ->
  (forall T, seq_stable T (S (S (List.length T))) P) -> (kc = true -> chunk_stable P) -> (ks = true -> case_stable P) ->
  rejects (elab fs).
Proof.
  intros Hf Hb Hocc H0 Hbad Hseq Hc Hs. apply protocol_rejected_body with f body; auto.
  intros T HT cls. apply (occurs_rejected_gen T _ P i) with (kc := kc) (ks := ks); auto.
Qed.

Theorem protocol_rejected_break fs f body ks :
  In f fs -> body_of f body -> occurs RBreak false ks body -> rejects (elab fs).
Proof.
  intros Hf Hb Hocc. apply protocol_rejected_body with f body; auto.
  intros T HT cls. now apply break_outside_chunked with ks.
Qed.

Theorem protocol_rejected_delimited fs f body ks n ty l o d tr :
  In f fs -> body_of f body -> flag_attr d = true -> occurs (RArray n ty l o d tr) false ks body -> rejects (elab fs).
Proof.
  intros Hf Hb Hd Hocc. apply protocol_rejected_body with f body; auto.
  intros T HT cls. now apply delimited_outside_chunked with ks n ty l o d tr.
Qed.

(* ================= (D) declarations ================= *)
Lemma assoc_app {A} (a b : list (string * A)) k :
  assoc (a ++ b) k = match assoc a k with Some v => Some v | None => assoc b k end.
Proof. induction a as [|[k' v] a IH]; cbn [app assoc]; [reflexivity|]. destruct (String.eqb k' k); [reflexivity | exact IH]. Qed.

Lemma assoc_none_iff {A} (l : list (string * A)) k : assoc l k = None <-> ~ In k (map fst l).
Proof.
  induction l as [|[k' v] l IH]; cbn [assoc map fst In]; [tauto|].
  destruct (String.eqb k' k) eqn:E.
  - apply String.eqb_eq in E. split; [discriminate | intros H; destruct H; now left].
  - apply String.eqb_neq in E. rewrite IH. tauto.
Qed.

Lemma assoc_nodup_in {A} (l : list (string * A)) k v : NoDup (map fst l) -> In (k, v) l -> assoc l k = Some v.
Proof.
  induction l as [|[k' v'] l IH]; cbn [map fst assoc In]; intros Hnd Hin; [destruct Hin|].
  inversion Hnd as [|x xs Hx Hxs]; subst. destruct Hin as [Hin|Hin].
  - injection Hin as -> ->. now rewrite String.eqb_refl.
  - destruct (String.eqb k' k) eqn:E; [|now apply IH].
    apply String.eqb_eq in E. subst k'. destruct Hx. change k with (fst (k, v)). now apply in_map.
Qed.

Lemma NoDup_app_intro {A} (a b : list A) : NoDup a -> NoDup b -> (forall x, In x a -> ~ In x b) -> NoDup (a ++ b).
Proof.
  induction a as [|x a IH]; cbn [app]; intros Ha Hb Hd; [exact Hb|].
  inversion Ha as [|y ys Hy Hys]; subst. constructor.
  - intros Hin. apply in_app_or in Hin. destruct Hin as [Hin|Hin]; [now apply Hy | exact (Hd x (or_introl eq_refl) Hin)].
  - apply IH; auto. intros z Hz. apply Hd. now right.
Qed.
Lemma NoDup_app_r {A} (a b : list A) : NoDup (a ++ b) -> NoDup b.
Proof. induction a as [|x a IH]; cbn [app]; intros H; [exact H|]. inversion H; subst. now apply IH. Qed.
Lemma NoDup_app_l {A} (a b : list A) : NoDup (a ++ b) -> NoDup a.
Proof.
  induction a as [|x a IH]; cbn [app]; intros H; [constructor|]. inversion H as [|y ys Hy Hys]; subst. constructor.
  - intros Hin. apply Hy. apply in_or_app. now left.
  - now apply IH.
Qed.
Lemma NoDup_app_disjoint {A} (a b : list A) x : NoDup (a ++ b) -> In x a -> In x b -> False.
Proof.
  induction a as [|y a IH]; cbn [app]; intros H Ha Hb; [destruct Ha|].
  inversion H as [|z zs Hz Hzs]; subst. destruct Ha as [->|Ha]; [|now apply IH].
  apply Hz. apply in_or_app. now right.
Qed.

Definition oname (o : option string) : string := match o with Some n => n | None => "" end.
Definition enum_entries (path : string) (l : list renum) : tenv := map (fun e => (oname (re_name e), RTEnum e path)) l.
Definition struct_entries (path : string) (l : list rstruct) : tenv := map (fun s => (oname (rs_name s), RTStruct s path)) l.
Definition file_entries (f : rfile) : tenv :=
  enum_entries (rf_path f) (rf_enums f) ++ struct_entries (rf_path f) (rf_structs f).
(* the type names declared by a protocol, in declaration order *)
Definition declared_names (fs : list rfile) : list string := map fst (flat_map file_entries fs).

Lemma index_file_ok_inv T f T' : index_file T f = Ok T' ->
  T' = T ++ file_entries f /\
  (forall e, In e (rf_enums f) -> re_name e <> None) /\
  (forall s, In s (rf_structs f) -> rs_name s <> None) /\
  NoDup (map fst (file_entries f)) /\
  (forall k, In k (map fst (file_entries f)) -> assoc T k = None).
Proof.
  unfold index_file. intros H. bind_inv H T1 E1. bind_inv H T2 E2. bind_inv H u E3.
  assert (HT : T2 = T') by congruence. subst T2. clear H E3.
  revert T T1 E1 E2.
  match goal with |- forall T T1, ?EN T (rf_enums f) = _ -> ?ST T1 (rf_structs f) = _ -> _ =>
    assert (HE : forall l T0 T1, EN T0 l = Ok T1 ->
                 T1 = T0 ++ enum_entries (rf_path f) l /\ (forall e, In e l -> re_name e <> None) /\
                 NoDup (map fst (enum_entries (rf_path f) l)) /\
                 (forall k, In k (map fst (enum_entries (rf_path f) l)) -> assoc T0 k = None));
    [| assert (HS : forall l T0 T1, ST T0 l = Ok T1 ->
                 T1 = T0 ++ struct_entries (rf_path f) l /\ (forall s, In s l -> rs_name s <> None) /\
                 NoDup (map fst (struct_entries (rf_path f) l)) /\
                 (forall k, In k (map fst (struct_entries (rf_path f) l)) -> assoc T0 k = None)) ]
  end.
  - induction l as [|e l IHl]; intros T0 T1 H.
    + assert (T0 = T1) by congruence. subst T1. cbn [enum_entries map]. rewrite app_nil_r.
      repeat split; [intros e [] | constructor | intros k []].
    + bind_inv H nm En. bind_inv H ug Eg. apply require_ok in En. apply guard_ok in Eg.
      assert (Ha : assoc T0 nm = None) by (destruct (assoc T0 nm); [discriminate Eg | reflexivity]).
      destruct (IHl _ _ H) as (HT1 & Hnm & Hnd & Hfresh).
      cbn [enum_entries map fst]. rewrite En. cbn [oname]. fold (enum_entries (rf_path f) l).
      assert (Hnotin : ~ In nm (map fst (enum_entries (rf_path f) l))).
      { intros Hin. specialize (Hfresh nm Hin). rewrite assoc_snoc, Ha, String.eqb_refl in Hfresh. discriminate Hfresh. }
      repeat split.
      * rewrite HT1, <- app_assoc. reflexivity.
      * intros e0 [<-|Hin]; [congruence | now apply Hnm].
      * now constructor.
      * intros k [<-|Hin]; [exact Ha|]. specialize (Hfresh k Hin). rewrite assoc_snoc in Hfresh.
        now destruct (assoc T0 k).
  - induction l as [|s l IHl]; intros T0 T1 H.
    + assert (T0 = T1) by congruence. subst T1. cbn [struct_entries map]. rewrite app_nil_r.
      repeat split; [intros s [] | constructor | intros k []].
    + bind_inv H nm En. bind_inv H ug Eg. apply require_ok in En. apply guard_ok in Eg.
      assert (Ha : assoc T0 nm = None) by (destruct (assoc T0 nm); [discriminate Eg | reflexivity]).
      destruct (IHl _ _ H) as (HT1 & Hnm & Hnd & Hfresh).
      cbn [struct_entries map fst]. rewrite En. cbn [oname]. fold (struct_entries (rf_path f) l).
      assert (Hnotin : ~ In nm (map fst (struct_entries (rf_path f) l))).
      { intros Hin. specialize (Hfresh nm Hin). rewrite assoc_snoc, Ha, String.eqb_refl in Hfresh. discriminate Hfresh. }
      repeat split.
      * rewrite HT1, <- app_assoc. reflexivity.
      * intros s0 [<-|Hin]; [congruence | now apply Hnm].
      * now constructor.
      * intros k [<-|Hin]; [exact Ha|]. specialize (Hfresh k Hin). rewrite assoc_snoc in Hfresh.
        now destruct (assoc T0 k).
  - intros T T1 E1 E2. destruct (HE _ _ _ E1) as (HT1 & Hn1 & Hnd1 & Hf1). destruct (HS _ _ _ E2) as (HT2 & Hn2 & Hnd2 & Hf2).
    unfold file_entries. repeat split; auto.
    + rewrite HT2, HT1, <- app_assoc. reflexivity.
    + rewrite map_app. apply NoDup_app_intro; auto. intros k Hk1 Hk2. specialize (Hf2 k Hk2).
      rewrite HT1, assoc_app in Hf2. destruct (assoc T k); [discriminate Hf2|]. apply assoc_none_iff in Hf2. now apply Hf2.
    + intros k Hk. rewrite map_app in Hk. apply in_app_or in Hk. destruct Hk as [Hk|Hk]; [now apply Hf1|].
      specialize (Hf2 k Hk). rewrite HT1, assoc_app in Hf2. now destruct (assoc T k).
Qed.

Lemma index_files_ok_inv : forall fs T T', index_files T fs = Ok T' ->
  T' = T ++ flat_map file_entries fs /\
  (forall f, In f fs -> (forall e, In e (rf_enums f) -> re_name e <> None) /\ (forall s, In s (rf_structs f) -> rs_name s <> None)) /\
  NoDup (declared_names fs) /\
  (forall k, In k (declared_names fs) -> assoc T k = None).
Proof.
  unfold declared_names. induction fs as [|f fs IH]; intros T T' H.
  - cbn [index_files] in H. assert (T = T') by congruence. subst T'. cbn [flat_map map]. rewrite app_nil_r.
    split; [reflexivity|]. split; [intros f0 []|]. split; [constructor | intros k []].
  - cbn [index_files] in H. bind_inv H T1 E1. apply index_file_ok_inv in E1. destruct E1 as (HT1 & Hn1 & Hn2 & Hnd & Hfresh).
    destruct (IH _ _ H) as (HT' & Hnames & Hnd' & Hfresh'). cbn [flat_map]. rewrite map_app.
    split; [|split; [|split]].
    + rewrite HT', HT1, <- app_assoc. reflexivity.
    + intros f0 [<-|Hin]; [split; assumption | exact (Hnames _ Hin)].
    + apply NoDup_app_intro; auto. intros k Hk1 Hk2. specialize (Hfresh' k Hk2). rewrite HT1, assoc_app in Hfresh'.
      destruct (assoc T k); [discriminate Hfresh'|]. apply assoc_none_iff in Hfresh'. now apply Hfresh'.
    + intros k Hk. apply in_app_or in Hk. destruct Hk as [Hk|Hk]; [now apply Hfresh|].
      specialize (Hfresh' k Hk). rewrite HT1, assoc_app in Hfresh'. now destruct (assoc T k).
Qed.

(* duplicate type names: the protocol's declared names must be pairwise distinct *)
Theorem duplicate_type_names fs : ~ NoDup (declared_names fs) -> rejects (index_files [] fs).
Proof.
  intros H. apply not_ok_rejects. intros T HT. apply index_files_ok_inv in HT. destruct HT as (_ & _ & Hnd & _). now apply H.
Qed.

Theorem unnamed_type fs f :
  In f fs -> ((exists e, In e (rf_enums f) /\ re_name e = None) \/ (exists s, In s (rf_structs f) /\ rs_name s = None)) ->
  rejects (index_files [] fs).
Proof.
  intros Hf H. apply not_ok_rejects. intros T HT. apply index_files_ok_inv in HT. destruct HT as (_ & Hn & _ & _).
  destruct (Hn f Hf) as [H1 H2]. destruct H as [[e [He Hnone]]|[s [Hs Hnone]]]; [exact (H1 e He Hnone) | exact (H2 s Hs Hnone)].
Qed.

Definition declares_type (f : rfile) (n : string) : Prop :=
  (exists e, In e (rf_enums f) /\ re_name e = Some n) \/ (exists s, In s (rf_structs f) /\ rs_name s = Some n).

Lemma declares_in_entries f n : declares_type f n -> In n (map fst (file_entries f)).
Proof.
  unfold file_entries. rewrite map_app. intros [[e [He Hn]]|[s [Hs Hn]]]; apply in_or_app; [left|right].
  - unfold enum_entries. rewrite map_map. cbn [fst]. replace n with (oname (re_name e)) by now rewrite Hn.
    now apply (in_map (fun x => oname (re_name x))).
  - unfold struct_entries. rewrite map_map. cbn [fst]. replace n with (oname (rs_name s)) by now rewrite Hn.
    now apply (in_map (fun x => oname (rs_name x))).
Qed.

(* the same name declared in two different files (enum/enum, struct/struct or enum/struct) *)
Theorem duplicate_type_across_files fs1 f fs2 g fs3 n :
  declares_type f n -> declares_type g n -> rejects (index_files [] (fs1 ++ f :: fs2 ++ g :: fs3)).
Proof.
  intros Hf Hg. apply duplicate_type_names. unfold declared_names. intros Hnd.
  rewrite flat_map_app in Hnd. cbn [flat_map] in Hnd. rewrite flat_map_app in Hnd. cbn [flat_map] in Hnd.
  rewrite !map_app in Hnd. apply NoDup_app_r in Hnd.
  apply (NoDup_app_disjoint _ _ n Hnd); [now apply declares_in_entries|].
  apply in_or_app. right. apply in_or_app. left. now apply declares_in_entries.
Qed.

Lemma file_dup_rejects fs f : In f fs -> ~ NoDup (map fst (file_entries f)) -> rejects (index_files [] fs).
Proof.
  intros Hin Hnd. apply duplicate_type_names. intros H. apply Hnd. clear Hnd. unfold declared_names in H.
  induction fs as [|g fs IH]; [destruct Hin|]. cbn [flat_map] in H. rewrite map_app in H.
  destruct Hin as [->|Hin]; [now apply NoDup_app_l in H | apply IH; [exact Hin | now apply NoDup_app_r in H]].
Qed.

(* the same name declared twice in one file *)
Theorem duplicate_enum_same_file fs f l1 e1 l2 e2 l3 n :
  In f fs -> rf_enums f = l1 ++ e1 :: l2 ++ e2 :: l3 -> re_name e1 = Some n -> re_name e2 = Some n ->
  rejects (index_files [] fs).
Proof.
  intros Hf He H1 H2. apply file_dup_rejects with f; [exact Hf|]. unfold file_entries. rewrite He. intros Hnd.
  rewrite map_app in Hnd. apply NoDup_app_l in Hnd. unfold enum_entries in Hnd. rewrite !map_app in Hnd. apply NoDup_app_r in Hnd.
  cbn [map fst] in Hnd. rewrite H1 in Hnd. cbn [oname] in Hnd. inversion Hnd as [|x xs Hx Hxs]; subst. apply Hx.
  rewrite !map_app. apply in_or_app. right. cbn [map fst]. rewrite H2. now left.
Qed.
Theorem duplicate_struct_same_file fs f l1 s1 l2 s2 l3 n :
  In f fs -> rf_structs f = l1 ++ s1 :: l2 ++ s2 :: l3 -> rs_name s1 = Some n -> rs_name s2 = Some n ->
  rejects (index_files [] fs).
Proof.
  intros Hf He H1 H2. apply file_dup_rejects with f; [exact Hf|]. unfold file_entries. rewrite He. intros Hnd.
  rewrite map_app in Hnd. apply NoDup_app_r in Hnd. unfold struct_entries in Hnd. rewrite !map_app in Hnd. apply NoDup_app_r in Hnd.
  cbn [map fst] in Hnd. rewrite H1 in Hnd. cbn [oname] in Hnd. inversion Hnd as [|x xs Hx Hxs]; subst. apply Hx.
  rewrite !map_app. apply in_or_app. right. cbn [map fst]. rewrite H2. now left.
Qed.
Theorem duplicate_enum_struct_same_file fs f e s n :
  In f fs -> In e (rf_enums f) -> In s (rf_structs f) -> re_name e = Some n -> rs_name s = Some n ->
  rejects (index_files [] fs).
Proof.
  intros Hf He Hs H1 H2. apply file_dup_rejects with f; [exact Hf|]. intros Hnd. unfold file_entries in Hnd. rewrite map_app in Hnd.
  apply (NoDup_app_disjoint _ _ n Hnd).
  - unfold enum_entries. rewrite map_map. cbn [fst]. replace n with (oname (re_name e)) by now rewrite H1.
    now apply (in_map (fun x => oname (re_name x))).
  - unfold struct_entries. rewrite map_map. cbn [fst]. replace n with (oname (rs_name s)) by now rewrite H2.
    now apply (in_map (fun x => oname (rs_name x))).
Qed.

(* what the indexed environment says about a declaration *)
Lemma declared_enum_lookup fs T f e :
  index_files [] fs = Ok T -> In f fs -> In e (rf_enums f) ->
  exists n, re_name e = Some n /\ assoc T n = Some (RTEnum e (rf_path f)).
Proof.
  intros HT Hf He. apply index_files_ok_inv in HT. destruct HT as (HT & Hn & Hnd & _). cbn [app] in HT.
  destruct (re_name e) as [n|] eqn:En; [|destruct (proj1 (Hn f Hf) e He En)]. exists n. split; [reflexivity|].
  apply assoc_nodup_in; [subst T; exact Hnd|]. subst T. apply in_flat_map. exists f. split; [exact Hf|].
  unfold file_entries. apply in_or_app. left. unfold enum_entries.
  apply in_map_iff. exists e. split; [now rewrite En | exact He].
Qed.
Lemma declared_struct_lookup fs T f s :
  index_files [] fs = Ok T -> In f fs -> In s (rf_structs f) ->
  exists n, rs_name s = Some n /\ assoc T n = Some (RTStruct s (rf_path f)).
Proof.
  intros HT Hf Hs. apply index_files_ok_inv in HT. destruct HT as (HT & Hn & Hnd & _). cbn [app] in HT.
  destruct (rs_name s) as [n|] eqn:En; [|destruct (proj2 (Hn f Hf) s Hs En)]. exists n. split; [reflexivity|].
  apply assoc_nodup_in; [subst T; exact Hnd|]. subst T. apply in_flat_map. exists f. split; [exact Hf|].
  unfold file_entries. apply in_or_app. right. unfold struct_entries.
  apply in_map_iff. exists s. split; [now rewrite En | exact Hs].
Qed.
(* keys are the declared names *)
Lemma indexed_key_enum fs T k e p : index_files [] fs = Ok T -> assoc T k = Some (RTEnum e p) -> re_name e = Some k.
Proof.
  intros HT Ha. destruct (index_files_origin _ _ _ _ _ HT Ha) as [H0|[f [Hf Hd]]]; [discriminate H0|].
  destruct Hd as [[e' [He [Hn Hr]]]|[s [Hs [Hn Hr]]]]; [|discriminate Hr]. injection Hr as -> _. exact Hn.
Qed.
Lemma indexed_key_struct fs T k s p : index_files [] fs = Ok T -> assoc T k = Some (RTStruct s p) -> rs_name s = Some k.
Proof.
  intros HT Ha. destruct (index_files_origin _ _ _ _ _ HT Ha) as [H0|[f [Hf Hd]]]; [discriminate H0|].
  destruct Hd as [[e' [He [Hn Hr]]]|[s' [Hs [Hn Hr]]]]; [discriminate Hr|]. injection Hr as -> _. exact Hn.
Qed.

(* duplicate packet ids within one file *)
Theorem duplicate_packet_id T f l1 p1 l2 p2 l3 fa ac :
  rf_packets f = l1 ++ p1 :: l2 ++ p2 :: l3 ->
  rp_family p1 = Some fa -> rp_action p1 = Some ac -> rp_family p2 = Some fa -> rp_action p2 = Some ac ->
  rejects (index_file T f).
Proof.
  intros Hp Hf1 Ha1 Hf2 Ha2. apply not_ok_rejects. intros T' H. unfold index_file in H.
  bind_inv H T1 E1. bind_inv H T2 E2. bind_inv H u E3. clear H E1 E2. rewrite Hp in E3. revert u E3.
  match goal with |- forall u, ?P [] _ = _ -> _ =>
    assert (HP1 : forall l seen r, P seen l = Ok r -> forall p, In p l -> rp_family p = Some fa -> rp_action p = Some ac ->
                  mem_str (fa ++ "_" ++ ac) seen = false);
    [| assert (HP2 : forall l seen r, P seen (l ++ p1 :: l2 ++ p2 :: l3) = Ok r -> False) ] end.
  - induction l as [|q l IHl]; intros seen r H p Hin Hf Ha; [destruct Hin|].
    bind_inv H fa' Ef. bind_inv H ac' Ea. bind_inv H u Eg. destruct Hin as [->|Hin].
    + rewrite Hf in Ef. rewrite Ha in Ea. cbn [require] in Ef, Ea. injection Ef as <-. injection Ea as <-.
      apply guard_ok in Eg. now apply negb_true_iff in Eg.
    + specialize (IHl _ _ H p Hin Hf Ha). cbn [mem_str] in IHl. apply orb_false_iff in IHl. exact (proj2 IHl).
  - induction l as [|q l IHl]; intros seen r H; cbn [app] in H.
    + bind_inv H fa' Ef. bind_inv H ac' Ea. bind_inv H u Eg.
      rewrite Hf1 in Ef. rewrite Ha1 in Ea. cbn [require] in Ef, Ea. injection Ef as <-. injection Ea as <-.
      assert (Hin : In p2 (l2 ++ p2 :: l3)) by (apply in_or_app; right; now left).
      specialize (HP1 _ _ _ H p2 Hin Hf2 Ha2). cbn [mem_str] in HP1. rewrite String.eqb_refl in HP1. discriminate HP1.
    + bind_inv H fa' Ef. bind_inv H ac' Ea. bind_inv H u Eg. exact (IHl _ _ H).
  - intros u E3. exact (HP2 _ _ _ E3).
Qed.

Lemma index_files_rejected_file : forall fs T f, In f fs -> (forall T', rejects (index_file T' f)) -> rejects (index_files T fs).
Proof.
  induction fs as [|g fs IH]; intros T f Hin H; [destruct Hin|]. cbn [index_files].
  destruct Hin as [->|Hin]; [apply rejects_bind_l; apply H|]. apply rejects_bind. intros T1 _. now apply IH with f.
Qed.

Theorem protocol_duplicate_packet_id fs f l1 p1 l2 p2 l3 fa ac :
  In f fs -> rf_packets f = l1 ++ p1 :: l2 ++ p2 :: l3 ->
  rp_family p1 = Some fa -> rp_action p1 = Some ac -> rp_family p2 = Some fa -> rp_action p2 = Some ac ->
  rejects (elab fs).
Proof.
  intros Hf Hp Hf1 Ha1 Hf2 Ha2. apply protocol_rejected_index. apply index_files_rejected_file with f; [exact Hf|].
  intros T'. now apply duplicate_packet_id with l1 p1 l2 p2 l3 fa ac.
Qed.

(* ---------------- type-name syntax ---------------- *)
Lemma split_colon_cons c t :
  split_colon (String c t) =
  if Ascii.eqb c ":" then (EmptyString, Some t) else let '(a, b) := split_colon t in (String c a, b).
Proof. destruct c as [[] [] [] [] [] [] [] []]; reflexivity. Qed.
Lemma has_colon_cons c t : has_colon (String c t) = if Ascii.eqb c ":" then true else has_colon t.
Proof. destruct c as [[] [] [] [] [] [] [] []]; reflexivity. Qed.

Lemma split_colon_nocolon s : has_colon s = false -> split_colon s = (s, None).
Proof.
  induction s as [|c t IH]; [reflexivity|]. rewrite has_colon_cons, split_colon_cons.
  destruct (Ascii.eqb c ":"); [discriminate|]. intros H. now rewrite (IH H).
Qed.
Lemma split_colon_none s b : split_colon s = (b, None) -> has_colon s = false /\ b = s.
Proof.
  revert b. induction s as [|c t IH]; intros b.
  - cbn [split_colon has_colon]. intros H. injection H as <-. auto.
  - rewrite has_colon_cons, split_colon_cons. destruct (Ascii.eqb c ":"); [discriminate|].
    destruct (split_colon t) as [a u]. intros H. injection H as <- ->. destruct (IH a eq_refl) as [H1 ->]. auto.
Qed.
Lemma split_colon_fst_eq s : fst (split_colon s) = s -> has_colon s = false.
Proof.
  induction s as [|c t IH]; [reflexivity|]. rewrite has_colon_cons, split_colon_cons.
  destruct (Ascii.eqb c ":"); [discriminate|]. destruct (split_colon t) as [a u]. cbn [fst] in *. intros H. injection H as H. now apply IH.
Qed.

(* a name that can only denote a declared (custom) type *)
Definition custom_name (n : string) : bool :=
  negb (has_colon n) && match builtin_int n with Some _ => false | None => true end && negb (String.eqb n "bool")
  && match is_string_name n with Some _ => false | None => true end && negb (String.eqb n "blob").

Lemma custom_name_inv n : custom_name n = true ->
  has_colon n = false /\ builtin_int n = None /\ String.eqb n "bool" = false /\ is_string_name n = None /\ String.eqb n "blob" = false.
Proof.
  unfold custom_name. intros H. repeat (apply andb_true_iff in H; destruct H as [H ?]).
  repeat split.
  - now apply negb_true_iff in H.
  - now destruct (builtin_int n).
  - now apply negb_true_iff.
  - now destruct (is_string_name n).
  - now apply negb_true_iff.
Qed.

(* integer types are exactly the five builtin names *)
Lemma get_type_integer_inv T fuel tn ut i :
  get_type T fuel tn None = Ok ut -> is_integer ut = Some i -> builtin_int tn = Some i.
Proof.
  destruct fuel as [|fuel]; [discriminate|]. cbn [get_type]. destruct (split_colon tn) as [base un] eqn:Esp.
  intros H Hi. bind_inv H under Eu. unfold reject in H. unfold is_integer in Hi.
  revert H. destruct (builtin_int base) as [i0|] eqn:Eb.
  { destruct under; intros H; [discriminate|]. injection H as <-. cbn [ti_ty int_info] in Hi. injection Hi as <-.
    destruct un as [un|]; [|destruct (split_colon_none _ _ Esp) as [_ <-]; exact Eb].
    destruct (has_colon un); [discriminate Eu|]. destruct (String.eqb base un); [discriminate Eu|].
    bind_inv Eu ut Eut. destruct (is_integer ut); discriminate Eu. }
  destruct (String.eqb base "bool").
  { intros H. injection H as <-. discriminate Hi. }
  destruct (is_string_name base).
  { destruct under; intros H; [discriminate|]. injection H as <-. discriminate Hi. }
  destruct (String.eqb base "blob").
  { destruct under; intros H; [discriminate|]. injection H as <-. discriminate Hi. }
  destruct (assoc T base) as [[e p|s p]|]; intros H.
  - bind_inv H ename Een. bind_inv H u0 Eu0. bind_inv H vals Ev. injection H as <-. discriminate Hi.
  - bind_inv H sname Es. bind_inv H fx Ef. bind_inv H bd Ebd. destruct under; [discriminate|]. injection H as <-.
    discriminate Hi.
  - discriminate.
Qed.

(* an unknown name does not resolve *)
Lemma get_type_unknown T fuel n : custom_name n = true -> assoc T n = None -> rejects (get_type T fuel n None).
Proof.
  intros Hc Ha. apply custom_name_inv in Hc. destruct Hc as (H1 & H2 & H3 & H4 & H5).
  apply not_ok_rejects. intros ti H. destruct fuel as [|fuel]; [discriminate|]. cbn [get_type] in H.
  rewrite (split_colon_nocolon n H1) in H. bind_inv H under Eu. rewrite H2, H3, H4, H5, Ha in H. discriminate H.
Qed.

(* `base:under` that resolves: one colon, under <> base, under an integer type, base is bool or a declared enum *)
Lemma get_type_override_inv T fuel name base un ti :
  split_colon name = (base, Some un) -> get_type T (S fuel) name None = Ok ti ->
  has_colon un = false /\ String.eqb base un = false /\
  (exists i, builtin_int un = Some i) /\ builtin_int base = None /\
  (String.eqb base "bool" = true \/ exists e p, assoc T base = Some (RTEnum e p)).
Proof.
  intros Hsp. cbn [get_type]. rewrite Hsp. intros H. bind_inv H under Eu. unfold reject in H.
  destruct (has_colon un); [discriminate Eu|]. destruct (String.eqb base un); [discriminate Eu|].
  bind_inv Eu ut Eut. destruct (is_integer ut) as [i|] eqn:Ei; [|discriminate Eu].
  assert (Hu : under = Some i) by congruence. subst under. clear Eu.
  split; [reflexivity|]. split; [reflexivity|]. split; [exists i; exact (get_type_integer_inv _ _ _ _ _ Eut Ei)|].
  revert H. destruct (builtin_int base) as [i0|]; [discriminate|]. split; [reflexivity|]. revert H.
  destruct (String.eqb base "bool"); [now left|]. right. revert H.
  destruct (is_string_name base); [discriminate|].
  destruct (String.eqb base "blob"); [discriminate|].
  destruct (assoc T base) as [[e p|s p]|]; intros H.
  - now exists e, p.
  - bind_inv H sname Es. bind_inv H fx Ef. bind_inv H bd Ebd. discriminate H.
  - discriminate H.
Qed.

Section TypeNames.
  Variable T : tenv.

  Theorem override_two_colons fuel name base un :
    split_colon name = (base, Some un) -> has_colon un = true -> rejects (get_type T fuel name None).
  Proof.
    intros Hsp Hc. apply not_ok_rejects. intros ti H. destruct fuel as [|fuel]; [discriminate H|].
    destruct (get_type_override_inv _ _ _ _ _ _ Hsp H) as (H1 & _). congruence.
  Qed.
  Theorem override_by_itself fuel name base :
    split_colon name = (base, Some base) -> rejects (get_type T fuel name None).
  Proof.
    intros Hsp. apply not_ok_rejects. intros ti H. destruct fuel as [|fuel]; [discriminate H|].
    destruct (get_type_override_inv _ _ _ _ _ _ Hsp H) as (_ & H2 & _). rewrite String.eqb_refl in H2. discriminate H2.
  Qed.
  Theorem override_non_integer fuel name base un :
    split_colon name = (base, Some un) -> builtin_int un = None -> rejects (get_type T fuel name None).
  Proof.
    intros Hsp Hb. apply not_ok_rejects. intros ti H. destruct fuel as [|fuel]; [discriminate H|].
    destruct (get_type_override_inv _ _ _ _ _ _ Hsp H) as (_ & _ & [i Hi] & _). congruence.
  Qed.
  Theorem override_on_integer fuel name base un i :
    split_colon name = (base, Some un) -> builtin_int base = Some i -> rejects (get_type T fuel name None).
  Proof.
    intros Hsp Hb. apply not_ok_rejects. intros ti H. destruct fuel as [|fuel]; [discriminate H|].
    destruct (get_type_override_inv _ _ _ _ _ _ Hsp H) as (_ & _ & _ & H4 & _). congruence.
  Qed.
  Theorem override_on_struct fuel name base un s p :
    split_colon name = (base, Some un) -> String.eqb base "bool" = false -> assoc T base = Some (RTStruct s p) ->
    rejects (get_type T fuel name None).
  Proof.
    intros Hsp Hb Ha. apply not_ok_rejects. intros ti H. destruct fuel as [|fuel]; [discriminate H|].
    destruct (get_type_override_inv _ _ _ _ _ _ Hsp H) as (_ & _ & _ & _ & [H5|[e [p' H5]]]); congruence.
  Qed.
  (* anything but bool or a declared enum *)
  Theorem override_on_other fuel name base un :
    split_colon name = (base, Some un) -> String.eqb base "bool" = false ->
    (forall e p, assoc T base <> Some (RTEnum e p)) -> rejects (get_type T fuel name None).
  Proof.
    intros Hsp Hb Ha. apply not_ok_rejects. intros ti H. destruct fuel as [|fuel]; [discriminate H|].
    destruct (get_type_override_inv _ _ _ _ _ _ Hsp H) as (_ & _ & _ & _ & [H5|[e [p' H5]]]); [congruence | exact (Ha _ _ H5)].
  Qed.
End TypeNames.

(* a resolved enum *)
Lemma get_type_enum_inv2 T fuel name ti en u :
  get_type T (S fuel) name None = Ok ti -> ti_ty ti = EEnum en u ->
  exists e path, assoc T (fst (split_colon name)) = Some (RTEnum e path) /\ re_name e = Some en /\
    enum_values e = Ok (ti_values ti) /\
    (snd (split_colon name) = None ->
       exists tn ut, re_type e = Some tn /\ String.eqb en tn = false /\
                     get_type T fuel tn None = Ok ut /\ is_integer ut = Some u).
Proof.
  cbn [get_type]. destruct (split_colon name) as [base un]. cbn [fst snd].
  intros H Hty. bind_inv H under Eu. unfold reject in H.
  revert H. destruct (builtin_int base) as [i|].
  { destruct under; intros H; [discriminate|]. injection H as <-. discriminate Hty. }
  destruct (String.eqb base "bool").
  { intros H. injection H as <-. discriminate Hty. }
  destruct (is_string_name base).
  { destruct under; intros H; [discriminate|]. injection H as <-. discriminate Hty. }
  destruct (String.eqb base "blob").
  { destruct under; intros H; [discriminate|]. injection H as <-. discriminate Hty. }
  destruct (assoc T base) as [[e p|s p]|]; intros H.
  - bind_inv H ename Een. bind_inv H u0 Eu0. bind_inv H vals Ev. injection H as <-. cbn [ti_ty ti_values] in *.
    injection Hty as <- <-. apply require_ok in Een. exists e, p. repeat split; try assumption.
    intros ->. assert (under = None) by congruence. subst under.
    bind_inv Eu0 tn Etn. apply require_ok in Etn. destruct (String.eqb ename tn) eqn:Q; [discriminate Eu0|].
    bind_inv Eu0 ut Eut. apply require_ok in Eu0. now exists tn, ut.
  - bind_inv H sname Es. bind_inv H fx Ef. bind_inv H bd Eb. destruct under; [discriminate|]. injection H as <-.
    discriminate Hty.
  - discriminate.
Qed.

(* a resolved struct *)
Lemma get_type_struct_inv T fuel name ti sn :
  get_type T fuel name None = Ok ti -> ti_ty ti = EStruct sn ->
  custom_name name = true /\ exists s path, assoc T name = Some (RTStruct s path) /\ rs_name s = Some sn.
Proof.
  destruct fuel as [|fuel]; [discriminate|].
  cbn [get_type]. destruct (split_colon name) as [base un] eqn:Esp.
  intros H Hty. bind_inv H under Eu. unfold reject in H. unfold custom_name.
  revert H. destruct (builtin_int base) as [i|] eqn:E1.
  { destruct under; intros H; [discriminate|]. injection H as <-. discriminate Hty. }
  destruct (String.eqb base "bool") eqn:E2.
  { intros H. injection H as <-. discriminate Hty. }
  destruct (is_string_name base) eqn:E3.
  { destruct under; intros H; [discriminate|]. injection H as <-. discriminate Hty. }
  destruct (String.eqb base "blob") eqn:E4.
  { destruct under; intros H; [discriminate|]. injection H as <-. discriminate Hty. }
  destruct (assoc T base) as [[e p|s p]|] eqn:E5; intros H.
  - bind_inv H ename Een. bind_inv H u0 Eu0. bind_inv H vals Ev. injection H as <-. discriminate Hty.
  - bind_inv H sname Es. bind_inv H fx Ef. bind_inv H bd Eb. destruct under; [discriminate|]. injection H as <-.
    cbn [ti_ty] in Hty. injection Hty as <-. apply require_ok in Es.
    assert (Hun : un = None).
    { destruct un as [un|]; [|reflexivity]. destruct (has_colon un); [discriminate Eu|]. destruct (String.eqb base un); [discriminate Eu|].
      bind_inv Eu ut Eut. destruct (is_integer ut); discriminate Eu. }
    subst un. destruct (split_colon_none _ _ Esp) as [Hc <-]. rewrite Hc, E1, E2, E3, E4. cbn [negb andb].
    split; [reflexivity|]. now exists s, p.
  - discriminate.
Qed.

(* the first flattened instruction of the struct refers to type n *)
Definition first_type_ref (i : rinstr) (n : string) : Prop :=
  match i with
  | RField _ (Some t) None _ _ _ | RArray _ (Some t) _ _ _ _ | RDummy (Some t) _ => t = n
  | _ => False
  end.

Lemma struct_self_reference T n s p i rest :
  custom_name n = true -> assoc T n = Some (RTStruct s p) ->
  flatten (rs_body s) = i :: rest -> first_type_ref i n ->
  forall fuel, rejects (get_type T fuel n None).
Proof.
  intros Hc Ha Hflat Href. apply custom_name_inv in Hc. destruct Hc as (H1 & H2 & H3 & H4 & H5).
  induction fuel as [|fuel IH]; [apply rejects_err|].
  apply not_ok_rejects. intros ti H. cbn [get_type] in H.
  rewrite (split_colon_nocolon n H1) in H. bind_inv H under Eu. rewrite H2, H3, H4, H5, Ha in H.
  bind_inv H sname Es. bind_inv H fx Ef. bind_inv H bd Eb. clear Ef H. rewrite Hflat in Eb.
  destruct i as [nm [t|] [l|] pd o tx|nm [t|] l o d tr|nm ty off o|[t|] tx|field cases|body|]; cbn [first_type_ref] in Href;
    try contradiction; subst t.
  - bind_inv Eb tn Etn. cbn [require] in Etn. injection Etn as <-. bind_inv Eb t Et. exact (rejects_not_ok _ _ IH Et).
  - bind_inv Eb tn Etn. cbn [require] in Etn. injection Etn as <-. bind_inv Eb t Et. exact (rejects_not_ok _ _ IH Et).
  - bind_inv Eb tn Etn. cbn [require] in Etn. injection Etn as <-. bind_inv Eb t Et. exact (rejects_not_ok _ _ IH Et).
Qed.

(* enum values *)
Definition enum_raw (e : renum) : list (string * Z) :=
  map (fun nt => (oname (fst nt), match try_parse_int (snd nt) with Some z => z | None => 0 end)) (re_values e).

Lemma enum_values_ok_inv e vals : enum_values e = Ok vals ->
  vals = enum_raw e /\
  (forall n t, In (n, t) (re_values e) -> n <> None /\ try_parse_int t <> None) /\
  zdup_free (map snd vals) = true /\ dup_free (map (fun p => python_name (fst p)) vals) = true.
Proof.
  unfold enum_values, enum_raw. intros H. bind_inv H vals0 Ev. bind_inv H u1 E1. bind_inv H u2 E2.
  assert (Hv : vals0 = vals) by congruence. subst vals0. clear H. apply guard_ok in E1, E2.
  assert (Hgo : vals = map (fun nt => (oname (fst nt), match try_parse_int (snd nt) with Some z => z | None => 0 end)) (re_values e) /\
                (forall n t, In (n, t) (re_values e) -> n <> None /\ try_parse_int t <> None)).
  { clear E1 E2. revert vals Ev. generalize (re_values e) as vs.
    induction vs as [|[n t] vs IH]; intros vals H.
    - assert (vals = []) by congruence. subst vals. split; [reflexivity | intros n t []].
    - bind_inv H name En. bind_inv H ord Eo. bind_inv H tlv Et. apply require_ok in En, Eo. subst n.
      assert (Hv : vals = (name, ord) :: tlv) by congruence. subst vals. destruct (IH _ Et) as [-> Hall]. split.
      + cbn [map fst snd oname]. now rewrite Eo.
      + intros n0 t0 [Hin|Hin]; [injection Hin as <- <-; split; congruence | now apply Hall]. }
  destruct Hgo as [Hv Hall]. split; [exact Hv|]. split; [exact Hall|]. split; assumption.
Qed.

Lemma zdup_free_dup a x b c : zdup_free (a ++ x :: b ++ x :: c) = false.
Proof.
  induction a as [|y a IH]; cbn [app zdup_free].
  - rewrite existsb_app. cbn [existsb]. rewrite Z.eqb_refl. rewrite orb_true_r. reflexivity.
  - rewrite IH. apply andb_false_r.
Qed.
Lemma mem_str_app x a b : mem_str x (a ++ b) = mem_str x a || mem_str x b.
Proof. induction a as [|y a IH]; cbn [app mem_str]; [reflexivity|]. now rewrite IH, orb_assoc. Qed.
Lemma dup_free_dup a x b c : dup_free (a ++ x :: b ++ x :: c) = false.
Proof.
  induction a as [|y a IH]; cbn [app dup_free].
  - rewrite mem_str_app. cbn [mem_str]. rewrite String.eqb_refl. rewrite orb_true_r. reflexivity.
  - rewrite IH. apply andb_false_r.
Qed.

Theorem enum_value_bad_ordinal e n t : In (n, t) (re_values e) -> try_parse_int t = None -> rejects (enum_values e).
Proof.
  intros Hin Hp. apply not_ok_rejects. intros vals H. apply enum_values_ok_inv in H. destruct H as (_ & Hall & _).
  exact (proj2 (Hall _ _ Hin) Hp).
Qed.
Theorem enum_value_unnamed e t : In (None, t) (re_values e) -> rejects (enum_values e).
Proof.
  intros Hin. apply not_ok_rejects. intros vals H. apply enum_values_ok_inv in H. destruct H as (_ & Hall & _).
  exact (proj1 (Hall _ _ Hin) eq_refl).
Qed.
Theorem enum_duplicate_ordinal e l1 n1 t1 l2 n2 t2 l3 z :
  re_values e = l1 ++ (n1, Some t1) :: l2 ++ (n2, Some t2) :: l3 -> parse_int t1 = Some z -> parse_int t2 = Some z ->
  rejects (enum_values e).
Proof.
  intros Hv H1 H2. apply not_ok_rejects. intros vals H. apply enum_values_ok_inv in H. destruct H as (-> & _ & Hz & _).
  unfold enum_raw in Hz. rewrite Hv in Hz. rewrite !map_app in Hz. cbn [map snd try_parse_int] in Hz. rewrite !map_app in Hz.
  cbn [map snd try_parse_int] in Hz. rewrite H1, H2 in Hz. rewrite zdup_free_dup in Hz. discriminate Hz.
Qed.
Theorem enum_duplicate_name e l1 n1 t1 l2 n2 t2 l3 :
  re_values e = l1 ++ (Some n1, t1) :: l2 ++ (Some n2, t2) :: l3 -> python_name n1 = python_name n2 ->
  rejects (enum_values e).
Proof.
  intros Hv H1. apply not_ok_rejects. intros vals H. apply enum_values_ok_inv in H. destruct H as (-> & _ & _ & Hd).
  unfold enum_raw in Hd. rewrite Hv in Hd. rewrite !map_app in Hd. cbn [map fst oname] in Hd. rewrite !map_app in Hd.
  cbn [map fst oname] in Hd. rewrite H1 in Hd. rewrite dup_free_dup in Hd. discriminate Hd.
Qed.

(* ---------------- declarations, protocol level ---------------- *)
Theorem enum_wellformed fs p f e : elab fs = Ok p -> In f fs -> In e (rf_enums f) ->
  exists n vals tn i, re_name e = Some n /\ enum_values e = Ok vals /\ re_type e = Some tn /\
                      builtin_int tn = Some i /\ String.eqb n tn = false.
Proof.
  intros H Hf He. apply elab_ok_inv in H. destruct H as (T & HT & Hall). destruct (Hall f Hf) as [r Hr].
  apply gen_file_ok_inv in Hr. destruct Hr as (HE & _). destruct (HE e He) as (n & ti & u & Hn & Hg & Hty).
  destruct (get_type_enum_inv2 _ _ _ _ _ _ Hg Hty) as (e' & path & Ha & Hn' & Hv & Hunder).
  pose proof (indexed_key_enum _ _ _ _ _ HT Ha) as Hkey. rewrite Hn' in Hkey. injection Hkey as Hkey.
  symmetry in Hkey. pose proof (split_colon_fst_eq _ Hkey) as Hnc. rewrite (split_colon_nocolon _ Hnc) in Ha, Hunder.
  cbn [fst snd] in Ha, Hunder.
  destruct (declared_enum_lookup _ _ _ _ HT Hf He) as (n0 & Hn0 & Ha0). assert (n0 = n) by congruence. subst n0.
  assert (e' = e) by congruence. subst e'.
  destruct (Hunder eq_refl) as (tn & ut & Htn & Hne & Hut & Hint).
  exists n, (ti_values ti), tn, u. repeat split; try assumption. exact (get_type_integer_inv _ _ _ _ _ Hut Hint).
Qed.

Theorem protocol_enum_bad_values fs f e : In f fs -> In e (rf_enums f) -> rejects (enum_values e) -> rejects (elab fs).
Proof.
  intros Hf He Hr. apply not_ok_rejects. intros p H. destruct (enum_wellformed _ _ _ _ H Hf He) as (n & vals & tn & i & _ & Hv & _).
  exact (rejects_not_ok _ _ Hr Hv).
Qed.
Theorem protocol_enum_non_integer_underlying fs f e tn :
  In f fs -> In e (rf_enums f) -> re_type e = Some tn -> builtin_int tn = None -> rejects (elab fs).
Proof.
  intros Hf He Ht Hb. apply not_ok_rejects. intros p H.
  destruct (enum_wellformed _ _ _ _ H Hf He) as (n & vals & tn' & i & _ & _ & Ht' & Hb' & _). congruence.
Qed.
Theorem protocol_enum_without_underlying fs f e : In f fs -> In e (rf_enums f) -> re_type e = None -> rejects (elab fs).
Proof.
  intros Hf He Ht. apply not_ok_rejects. intros p H.
  destruct (enum_wellformed _ _ _ _ H Hf He) as (n & vals & tn' & i & _ & _ & Ht' & _). congruence.
Qed.
Theorem protocol_enum_self_underlying fs f e : In f fs -> In e (rf_enums f) -> re_type e = re_name e -> rejects (elab fs).
Proof.
  intros Hf He Ht. apply not_ok_rejects. intros p H.
  destruct (enum_wellformed _ _ _ _ H Hf He) as (n & vals & tn' & i & Hn & _ & Ht' & _ & Hne).
  assert (tn' = n) by congruence. subst tn'. rewrite String.eqb_refl in Hne. discriminate Hne.
Qed.

Theorem struct_wellformed fs p f s : elab fs = Ok p -> In f fs -> In s (rf_structs f) ->
  exists T n ti, index_files [] fs = Ok T /\ rs_name s = Some n /\ custom_name n = true /\
                 assoc T n = Some (RTStruct s (rf_path f)) /\ get_type T (S (S (List.length T))) n None = Ok ti.
Proof.
  intros H Hf Hs. apply elab_ok_inv in H. destruct H as (T & HT & Hall). destruct (Hall f Hf) as [r Hr].
  apply gen_file_ok_inv in Hr. destruct Hr as (_ & HS & _). destruct (HS s Hs) as (n & ti & defs & Hn & Hg & Hty & _).
  destruct (get_type_struct_inv _ _ _ _ _ Hg Hty) as (Hc & _).
  destruct (declared_struct_lookup _ _ _ _ HT Hf Hs) as (n0 & Hn0 & Ha0). assert (n0 = n) by congruence. subst n0.
  now exists T, n, ti.
Qed.

Theorem protocol_struct_self_reference fs f s n i rest :
  In f fs -> In s (rf_structs f) -> rs_name s = Some n -> flatten (rs_body s) = i :: rest -> first_type_ref i n ->
  rejects (elab fs).
Proof.
  intros Hf Hs Hn Hflat Href. apply not_ok_rejects. intros p H.
  destruct (struct_wellformed _ _ _ _ H Hf Hs) as (T & n' & ti & HT & Hn' & Hc & Ha & Hg).
  assert (n' = n) by congruence. subst n'.
  exact (rejects_not_ok _ _ (struct_self_reference T n s _ i rest Hc Ha Hflat Href _) Hg).
Qed.

(* packets *)
Theorem file_packet_bad_path T tfuel f p :
  In p (rf_packets f) -> rf_path f <> "net/client" -> rf_path f <> "net/server" -> rejects (gen_file T tfuel f).
Proof.
  intros Hp H1 H2. apply not_ok_rejects. intros r Hr. apply gen_file_ok_inv in Hr. destruct Hr as (_ & _ & HP).
  destruct (HP p Hp) as (fa & ac & suffix & fam & act & fv & av & defs & Hs & _).
  apply packet_suffix_inv in Hs. destruct Hs as [[Hs _]|[Hs _]]; contradiction.
Qed.
Theorem protocol_packet_bad_path fs f p :
  In f fs -> In p (rf_packets f) -> rf_path f <> "net/client" -> rf_path f <> "net/server" -> rejects (elab fs).
Proof.
  intros Hf Hp H1 H2. apply protocol_rejected_file with f; [exact Hf|]. intros T _. now apply file_packet_bad_path with p.
Qed.

Theorem protocol_packet_unknown_family fs f p fa :
  In f fs -> In p (rf_packets f) -> rp_family p = Some fa ->
  (forall g e t, In g fs -> In e (rf_enums g) -> re_name e = Some "PacketFamily" -> ~ In (Some fa, Some t) (re_values e)) ->
  rejects (elab fs).
Proof.
  intros Hf Hp Hfa Hno. apply not_ok_rejects. intros pk H. apply elab_ok_inv in H. destruct H as (T & HT & Hall).
  destruct (Hall f Hf) as [r Hr]. apply gen_file_ok_inv in Hr. destruct Hr as (_ & _ & HP).
  destruct (HP p Hp) as (fa' & ac & suffix & fam & act & fv & av & defs & _ & Hfa' & _ & Gf & _ & (en & u & Tf) & _ & Af & _).
  assert (fa' = fa) by congruence. subst fa'.
  destruct (get_type_enum_inv _ _ _ _ _ _ Gf Tf) as (efam & pfam & Lf & _ & Vf).
  change (fst (split_colon "PacketFamily")) with "PacketFamily" in Lf.
  destruct (enum_values_inv _ _ _ _ Vf Af) as (txt & Hin & _).
  destruct (index_files_enum_origin _ _ _ _ _ HT Lf) as (g & Hg & He & Hname & _).
  exact (Hno g efam txt Hg He Hname Hin).
Qed.
Theorem protocol_packet_unknown_action fs f p ac :
  In f fs -> In p (rf_packets f) -> rp_action p = Some ac ->
  (forall g e t, In g fs -> In e (rf_enums g) -> re_name e = Some "PacketAction" -> ~ In (Some ac, Some t) (re_values e)) ->
  rejects (elab fs).
Proof.
  intros Hf Hp Hac Hno. apply not_ok_rejects. intros pk H. apply elab_ok_inv in H. destruct H as (T & HT & Hall).
  destruct (Hall f Hf) as [r Hr]. apply gen_file_ok_inv in Hr. destruct Hr as (_ & _ & HP).
  destruct (HP p Hp) as (fa & ac' & suffix & fam & act & fv & av & defs & _ & _ & Hac' & _ & Ga & _ & (en & u & Ta) & _ & Aa & _).
  assert (ac' = ac) by congruence. subst ac'.
  destruct (get_type_enum_inv _ _ _ _ _ _ Ga Ta) as (eact & pact & La & _ & Va).
  change (fst (split_colon "PacketAction")) with "PacketAction" in La.
  destruct (enum_values_inv _ _ _ _ Va Aa) as (txt & Hin & _).
  destruct (index_files_enum_origin _ _ _ _ _ HT La) as (g & Hg & He & Hname & _).
  exact (Hno g eact txt Hg He Hname Hin).
Qed.
Theorem protocol_packet_without_family_or_action fs f p :
  In f fs -> In p (rf_packets f) -> rp_family p = None \/ rp_action p = None -> rejects (elab fs).
Proof.
  intros Hf Hp Hnone. apply not_ok_rejects. intros pk H. apply elab_ok_inv in H. destruct H as (T & HT & Hall).
  destruct (Hall f Hf) as [r Hr]. apply gen_file_ok_inv in Hr. destruct Hr as (_ & _ & HP).
  destruct (HP p Hp) as (fa & ac & suffix & fam & act & fv & av & defs & _ & Hfa & Hac & _). destruct Hnone; congruence.
Qed.

(* ---------------- unknown types, protocol level ---------------- *)
Definition refers_type (i : rinstr) (n : string) : Prop :=
  match i with
  | RField _ (Some t) None _ _ _ | RArray _ (Some t) _ _ _ _ | RLength _ (Some t) _ _ | RDummy (Some t) _ => t = n
  | _ => False
  end.

Lemma bad_unresolved_type T tfuel cls c i n :
  refers_type i n -> rejects (get_type T tfuel n None) -> bad_at T tfuel cls c i.
Proof.
  intros Href Hr.
  destruct i as [nm [t|] [l|] pd o tx|nm [t|] l o d tr|nm [t|] off o|[t|] tx|field cases|body|]; cbn [refers_type] in Href;
    try contradiction; subst t.
  - now apply field_unknown_type.
  - now apply array_unknown_type.
  - now apply length_unknown_type.
  - now apply dummy_unknown_type.
Qed.

Lemma indexed_undeclared fs T n : index_files [] fs = Ok T -> ~ In n (declared_names fs) -> assoc T n = None.
Proof.
  intros HT Hn. apply index_files_ok_inv in HT. destruct HT as (-> & _). cbn [app]. now apply assoc_none_iff.
Qed.

Theorem protocol_unknown_type fs f body i kc ks n :
  In f fs -> body_of f body -> occurs i kc ks body -> refers_type i n ->
  custom_name n = true -> ~ In n (declared_names fs) -> rejects (elab fs).
Proof.
  intros Hf Hb Hocc Href Hc Hn. apply protocol_rejected_occurrence with f body i kc ks; auto.
  intros T HT cls c. apply bad_unresolved_type with n; [exact Href|]. apply get_type_unknown; [exact Hc|].
  now apply indexed_undeclared with fs.
Qed.

(* ---------------- a dummy at the end of a nested section also forbids what follows the section ---------------- *)
Inductive leaves_dummy : rinstr -> Prop :=
| ld_dummy ty tx : leaves_dummy (RDummy ty tx)
| ld_chunked pre i : leaves_dummy i -> leaves_dummy (RChunked (pre ++ [i]))
| ld_switch field cs1 v d pre i cs2 : leaves_dummy i -> leaves_dummy (RSwitch field (cs1 ++ RCase v d (pre ++ [i]) :: cs2)).

Section Dummy.
  Variable T : tenv.
  Variable tfuel : nat.
  Notation EI := (elab_instrs T tfuel).
  Notation EH := (elab_head T tfuel).

  Lemma EI_app_last : forall pre f cls c rest c2 es aux,
    EI f cls c (pre ++ rest) = Ok (c2, es, aux) ->
    exists c1 es1 aux1 es2 aux2, EI f cls c pre = Ok (c1, es1, aux1) /\ EI (f - List.length pre) cls c1 rest = Ok (c2, es2, aux2).
  Proof.
    induction pre as [|i pre IH]; intros f cls c rest c2 es aux H.
    - cbn [app] in H. destruct f as [|f']; [discriminate H|].
      exists c, [], [], es, aux. split; [reflexivity|]. cbn [List.length]. rewrite Nat.sub_0_r. exact H.
    - cbn [app] in H. apply EI_cons_inv in H.
      destruct H as (f' & c' & es0 & aux0 & c'' & es' & aux' & -> & Hd & Hh & Hr & Hres). injection Hres as <- _ _.
      destruct (IH _ _ _ _ _ _ _ Hr) as (c1 & es1 & aux1 & es2 & aux2 & Hp & Hq).
      exists c1, (es0 ++ es1), (aux0 ++ aux1), es2, aux2. split; [|exact Hq].
      now apply EI_cons_intro with (c' := c').
  Qed.

  Definition head_sets_dummy (i : rinstr) : Prop :=
    forall f cls c c' es aux, EH (EI f) cls c i = Ok (c', es, aux) -> cx_rdummy c' = true.

  Lemma body_sets_dummy pre i f cls c c2 es aux :
    head_sets_dummy i -> EI f cls c (pre ++ [i]) = Ok (c2, es, aux) -> cx_rdummy c2 = true.
  Proof.
    intros Hi H. apply EI_app_last in H. destruct H as (c1 & es1 & aux1 & es2 & aux2 & _ & H).
    apply EI_cons_inv in H. destruct H as (f' & c' & es0 & aux0 & c'' & es' & aux' & _ & _ & Hh & Hr & Hres).
    apply EI_nil_inv in Hr. injection Hr as <- _ _. injection Hres as -> _ _. exact (Hi _ _ _ _ _ _ Hh).
  Qed.

  Lemma elab_cases_rd (recf : recfun) cls iface fname c : forall cs start ro rd ecs defs ro' rd',
    elab_cases recf cls iface fname c cs start ro rd = Ok (ecs, defs, ro', rd') -> rd = true -> rd' = true.
  Proof.
    induction cs as [|[v d b] more IH]; intros start ro rd ecs defs ro' rd' H Hrd.
    - cbn [elab_cases] in H. congruence.
    - cbn [elab_cases] in H. fold (elab_cases recf cls iface fname c) in H.
      bind_inv H suffix Es. bind_inv H u Eg. bind_inv H key Ek. bind_inv H x Ex. destruct x as [[c' ocls] dfs].
      bind_inv H tlr Et. destruct tlr as [[[ecs0 defs0] ro0] rd0]. injection H as _ _ _ <-.
      apply (IH _ _ _ _ _ _ _ Et). rewrite Hrd. reflexivity.
  Qed.

  Lemma elab_cases_sets_dummy (recf : recfun) cls iface fname c body :
    body <> [] ->
    (forall ccls cc c2 es aux, recf ccls cc body = Ok (c2, es, aux) -> cx_rdummy c2 = true) ->
    forall cs1 v d cs2 start ro rd ecs defs ro' rd',
    elab_cases recf cls iface fname c (cs1 ++ RCase v d body :: cs2) start ro rd = Ok (ecs, defs, ro', rd') -> rd' = true.
  Proof.
    intros Hne Hb. induction cs1 as [|[v0 d0 b0] cs1 IH]; intros v d cs2 start ro rd ecs defs ro' rd' H.
    - cbn [app elab_cases] in H. fold (elab_cases recf cls iface fname c) in H.
      bind_inv H suffix Es. bind_inv H u Eg. bind_inv H key Ek. bind_inv H x Ex. destruct x as [[c' ocls] dfs].
      bind_inv H tlr Et. destruct tlr as [[[ecs0 defs0] ro0] rd0]. injection H as _ _ _ <-.
      destruct body as [|i0 b1]; [now destruct Hne|]. bind_inv Ex y Ey. destruct y as [[c2 es2] aux2].
      injection Ex as <- _ _. apply (elab_cases_rd _ _ _ _ _ _ _ _ _ _ _ _ _ Et). rewrite (Hb _ _ _ _ _ Ey). apply orb_true_r.
    - cbn [app elab_cases] in H. fold (elab_cases recf cls iface fname c) in H.
      bind_inv H suffix Es. bind_inv H u Eg. bind_inv H key Ek. bind_inv H x Ex. destruct x as [[c' ocls] dfs].
      bind_inv H tlr Et. destruct tlr as [[[ecs0 defs0] ro0] rd0]. injection H as _ _ _ <-.
      exact (IH _ _ _ _ _ _ _ _ _ _ Et).
  Qed.

  Lemma leaves_dummy_sets i : leaves_dummy i -> head_sets_dummy i.
  Proof.
    intros Hld. induction Hld as [ty tx | pre i Hi IH | field cs1 v d pre i cs2 Hi IH]; intros f cls c c' es aux H.
    - inv_dummy H. subst c'. reflexivity.
    - cbn [elab_head] in H. bind_inv H x Ex. destruct x as [[c2 es2] aux2]. injection H as <- _ _. cbn [cx_rdummy].
      exact (body_sets_dummy _ _ _ _ _ _ _ _ IH Ex).
    - cbn [elab_head] in H. bind_inv H fname Ef. bind_inv H x Ex. destruct x as [[[ecs defs] ro] rd].
      injection H as <- _ _. cbn [cx_rdummy].
      apply (elab_cases_sets_dummy _ _ _ _ _ (pre ++ [i])) in Ex; [exact Ex | now destruct pre |].
      intros ccls cc c2 es2 aux2 Hb. exact (body_sets_dummy _ _ _ _ _ _ _ _ IH Hb).
  Qed.

  (* nothing may follow a section that ends with a dummy: at any depth of what follows *)
  Theorem after_nested_dummy_path cls c i j kc ks body :
    leaves_dummy i -> occurs j kc ks body -> body_rejected T tfuel cls c (i :: body).
  Proof.
    intros Hi Hocc f. apply not_ok_rejects. intros r Hr. apply EI_cons_inv in Hr.
    destruct Hr as (f' & c' & es & aux & c'' & es' & aux' & -> & Hd & Hh & Hrest & _).
    pose proof (leaves_dummy_sets i Hi _ _ _ _ _ _ Hh) as Hrd.
    refine (rejects_not_ok _ _ _ Hrest).
    apply (occurs_rejected_gen T tfuel (after_dummy) j) with (kc := kc) (ks := ks); auto.
    - intros cls0 c0 Hc0. now apply anything_after_dummy.
    - apply after_dummy_seq_stable.
    - intros _. apply after_dummy_chunk_stable.
    - intros _. apply after_dummy_case_stable.
  Qed.
  Corollary after_nested_dummy cls c i j rest : leaves_dummy i -> body_rejected T tfuel cls c (i :: j :: rest).
  Proof. intros Hi. apply after_nested_dummy_path with (j := j) (kc := false) (ks := false); [exact Hi|]. apply (occ_here j [] rest). Qed.
End Dummy.
