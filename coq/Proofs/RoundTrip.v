(* Lemma library for C01 (stage A: specifications without chunked sections):
   a wire-unambiguous class (Model/WireOk.v: wire_ok), a valid object (valid_obj), the bytes of its declarative
   encoding (Model/Enc.v) framed anywhere inside a non-chunked reader's data: the reference deserializer
   (Model/Deser.v) reads back the object, consumes exactly those bytes, and reports that count as byte_size.
   Second half: valid objects of wire-unambiguous classes do have an encoding (the serializer does not raise). *)
From EO Require Import Prelude.Py Prelude.Corr Model.Limits Model.Number Model.StringEnc Model.Cp1252 Model.Writer Model.Reader
  Model.Spec Model.Ser Model.Deser Model.Enc Model.ValidDecl Model.WireOk Model.GenHarness.
From EO Require Import Proofs.Number Proofs.StringEnc Proofs.Cp1252 Proofs.Items Proofs.EncSer.
Open Scope Z_scope.
Set Default Timeout 60.
Ltac Zify.zify_post_hook ::= Z.to_euclidean_division_equations.

(* ====================================================================================================== *)
(* 0. small generalities                                                                                   *)
(* ====================================================================================================== *)
Lemma mem_str_In x l : mem_str x l = true <-> In x l.
Proof.
  induction l as [|y l IH]; cbn [mem_str In]; [split; [discriminate | intros []]|].
  rewrite orb_true_iff, IH, String.eqb_eq. split; intros [H|H]; auto.
Qed.

Lemma mem_str_not_In x l : mem_str x l = false <-> ~ In x l.
Proof. rewrite <- mem_str_In. destruct (mem_str x l); split; congruence. Qed.

Lemma strs_eqb_eq a : forall b, strs_eqb a b = true -> a = b.
Proof.
  induction a as [|x a IH]; intros [|y b] H; cbn [strs_eqb] in H; try discriminate; [reflexivity|].
  apply andb_true_iff in H as [H1 H2]. apply String.eqb_eq in H1. apply IH in H2. congruence.
Qed.

Lemma env_find_name E : forall cls d, env_find E cls = Some d -> sd_name d = cls.
Proof.
  induction E as [|d0 E IH]; intros cls d H; cbn [env_find] in H; [discriminate|].
  destruct (String.eqb (sd_name d0) cls) eqn:Q; [|apply IH; exact H].
  injection H as <-. apply String.eqb_eq. exact Q.
Qed.

(* induction over values, through the lists they nest *)
Section ValueInd.
  Variable P : value -> Prop.
  Hypothesis HNone : P VNone.
  Hypothesis HInt : forall z, P (VInt z).
  Hypothesis HBool : forall b, P (VBool b).
  Hypothesis HStr : forall s, P (VStr s).
  Hypothesis HBytes : forall b, P (VBytes b).
  Hypothesis HList : forall l, Forall P l -> P (VList l).
  Hypothesis HObj : forall c f, Forall (fun kv => P (snd kv)) f -> P (VObj c f).
  Fixpoint value_ind' (v : value) : P v :=
    match v with
    | VNone => HNone | VInt z => HInt z | VBool b => HBool b | VStr s => HStr s | VBytes b => HBytes b
    | VList l => HList l ((fix go (l : list value) : Forall P l :=
                             match l with [] => Forall_nil _ | x :: t => Forall_cons x (value_ind' x) (go t) end) l)
    | VObj c f => HObj c f ((fix go (l : list (string * value)) : Forall (fun kv => P (snd kv)) l :=
                               match l with [] => Forall_nil _ | kv :: t => Forall_cons kv (value_ind' (snd kv)) (go t) end) f)
    end.
End ValueInd.

Lemma value_eqb_refl : forall v, value_eqb v v = true.
Proof.
  apply value_ind'; intros; cbn [value_eqb].
  - reflexivity.
  - apply Z.eqb_refl.
  - apply Bool.eqb_reflx.
  - apply list_eqb_eq. reflexivity.
  - apply list_eqb_eq. reflexivity.
  - induction H as [|x l Hx Hl IH]; [reflexivity|]. rewrite Hx. exact IH.
  - rewrite String.eqb_refl. cbn [andb]. induction H as [|[k x] l Hx Hl IH]; [reflexivity|].
    cbn [snd] in Hx. rewrite String.eqb_refl, Hx. exact IH.
Qed.

(* strip_bs on field lists, as a named function *)
Fixpoint strip_fields (l : list (string * value)) : list (string * value) :=
  match l with
  | [] => []
  | (k, x) :: t => if String.eqb k "byte_size" then strip_fields t else (k, strip_bs x) :: strip_fields t
  end.

Lemma strip_bs_obj c f : strip_bs (VObj c f) = VObj c (strip_fields f).
Proof.
  reflexivity.
Qed.

Lemma strip_fields_app a b : strip_fields (a ++ b) = strip_fields a ++ strip_fields b.
Proof.
  induction a as [|[k x] a IH]; [reflexivity|]. cbn [app strip_fields].
  destruct (String.eqb k "byte_size"); [exact IH | cbn [app]; now rewrite IH].
Qed.

Lemma strip_bs_int x z : strip_bs x = VInt z -> x = VInt z.
Proof. destruct x; cbn [strip_bs]; intros H; try discriminate H; try exact H. Qed.

Lemma assoc_app_notin {A} (l : list (string * A)) k m : ~ In k (map fst l) -> assoc (l ++ m) k = assoc m k.
Proof.
  induction l as [|[k0 v0] l IH]; intros H; [reflexivity|]. cbn [app assoc]. cbn [map fst In] in H.
  destruct (String.eqb k0 k) eqn:Q; [apply String.eqb_eq in Q; exfalso; apply H; left; exact Q|].
  apply IH. intros Hin. apply H. right. exact Hin.
Qed.

Lemma assoc_nodup {A} (l : list (string * A)) : NoDup (map fst l) -> forall k v, In (k, v) l -> assoc l k = Some v.
Proof.
  induction l as [|[k0 v0] l IH]; intros ND k v Hin; [destruct Hin|].
  cbn [map fst] in ND. inversion ND as [|? ? Hn ND']; subst. cbn [assoc]. destruct Hin as [Hin|Hin].
  - injection Hin as -> ->. rewrite String.eqb_refl. reflexivity.
  - destruct (String.eqb k0 k) eqn:Q; [|apply IH; assumption].
    apply String.eqb_eq in Q. subst k0. exfalso. apply Hn. apply in_map_iff. exists (k, v). split; [reflexivity | exact Hin].
Qed.

(* ====================================================================================================== *)
(* 1. the non-chunked reader, framed                                                                       *)
(* ====================================================================================================== *)
(* a reader in non-chunked mode over data d at position p (chunk start and break cache are irrelevant there) *)
Definition nc (r : rstate) (d : list Z) (p : Z) : Prop := rdata r = d /\ rpos r = p /\ rchunked r = false.
(* at position p of d stand the bytes out, followed by post *)
Definition frame (d : list Z) (p : Z) (out post : list Z) : Prop := exists pre, d = pre ++ out ++ post /\ p = zlen pre.

Lemma frame_split1 d p a b post : frame d p (a ++ b) post -> frame d p a (b ++ post).
Proof. intros [pre [-> ->]]. exists pre. rewrite <- app_assoc. split; reflexivity. Qed.

Lemma frame_split2 d p a b post : frame d p (a ++ b) post -> frame d (p + zlen a) b post.
Proof. intros [pre [-> ->]]. exists (pre ++ a). rewrite <- !app_assoc, zlen_app. split; reflexivity. Qed.

Lemma frame_nil_l d p b post : frame d p b post -> frame d p [] (b ++ post).
Proof. intros [pre [-> ->]]. exists pre. split; reflexivity. Qed.

Lemma frame_len d p out post : frame d p out post -> zlen d - p = zlen out + zlen post.
Proof. intros [pre [-> ->]]. rewrite !zlen_app. lia. Qed.

Lemma frame_whole d : frame d 0 d [].
Proof. exists []. rewrite app_nil_r. split; reflexivity. Qed.

Lemma nc_remaining r d p : nc r d p -> r_remaining r = zlen d - p.
Proof. intros [Hd [Hp Hc]]. unfold r_remaining. rewrite Hc, Hd, Hp. reflexivity. Qed.

Lemma nc_set_pos r d p q : nc r d p -> nc (r_set_pos r q) d q.
Proof. intros [Hd [Hp Hc]]. unfold nc, r_set_pos. cbn [rdata rpos rchunked]. auto. Qed.

Lemma nc_set_chunked_false r d p : nc r d p -> nc (r_set_chunked r false) d p.
Proof. intros [Hd [Hp Hc]]. unfold nc, r_set_chunked. cbn [rdata rpos rchunked]. auto. Qed.

Lemma nc_init d : nc (initR d) d 0.
Proof. unfold nc, initR. cbn [rdata rpos rchunked]. auto. Qed.

Lemma nc_rem_frame r d p out post : nc r d p -> frame d p out post -> r_remaining r = zlen out + zlen post.
Proof. intros Hn Hf. rewrite (nc_remaining _ _ _ Hn). apply (frame_len _ _ _ _ Hf). Qed.

(* reading k = |bs| bytes returns bs and advances past it *)
Lemma nc_read_bytes r d p bs post k : nc r d p -> frame d p bs post -> k = zlen bs ->
  r_read_bytes r k = (r_set_pos r (p + zlen bs), bs).
Proof.
  intros Hn Hf ->. unfold r_read_bytes. cbv zeta. rewrite (nc_rem_frame _ _ _ _ _ Hn Hf).
  pose proof (zlen_nonneg post) as Hp. rewrite Z.min_l by lia.
  destruct Hn as [Hd [Hpos Hc]]. destruct Hf as [pre [Hd' Hp']]. rewrite Hpos, Hd, Hd', Hp'.
  rewrite slice_frame. reflexivity.
Qed.

(* reading `remaining` bytes when nothing follows *)
Lemma nc_read_rest r d p bs : nc r d p -> frame d p bs [] ->
  r_read_bytes r (r_remaining r) = (r_set_pos r (p + zlen bs), bs).
Proof.
  intros Hn Hf. apply (nc_read_bytes r d p bs [] _ Hn Hf).
  rewrite (nc_rem_frame _ _ _ _ _ Hn Hf). change (zlen (@nil Z)) with 0. lia.
Qed.

Lemma nc_read_byte r d p b post : nc r d p -> frame d p [b] post ->
  r_read_byte r = (r_set_pos r (p + 1), b).
Proof.
  intros Hn Hf. unfold r_read_byte. rewrite (nc_rem_frame _ _ _ _ _ Hn Hf).
  pose proof (zlen_nonneg post) as Hp. change (zlen [b]) with 1. destruct (1 + zlen post >? 0) eqn:Q; [|lia].
  destruct Hn as [Hd [Hpos Hc]]. destruct Hf as [pre [Hd' Hp']]. rewrite Hpos, Hd, Hd', Hp'.
  cbn [app]. unfold zlen. rewrite zget_app_mid. reflexivity.
Qed.

Lemma nc_get_number r d p bs post k : nc r d p -> frame d p bs post -> k = zlen bs ->
  r_get_number r k = (r_set_pos r (p + zlen bs), decode_number bs).
Proof. intros Hn Hf Hk. unfold r_get_number. rewrite (nc_read_bytes _ _ _ _ _ _ Hn Hf Hk). reflexivity. Qed.

(* ====================================================================================================== *)
(* 2. integers                                                                                             *)
(* ====================================================================================================== *)
Lemma itype_size_range t : 1 <= itype_size t <= 4.
Proof. destruct t; cbn [itype_size]; lia. Qed.

Lemma enc_int_size t z bs : enc_int t z = Some bs -> zlen bs = itype_size t.
Proof.
  pose proof (itype_size_range t) as R.
  destruct t; cbn [enc_int]; intros H;
    try (destruct (z <=? _); [|discriminate H]; destruct (encode_number z); [|discriminate H]; injection H as <-;
         apply zlen_digits_slice; lia).
  destruct ((0 <=? z) && (z <=? 255)); [|discriminate H]. injection H as <-. reflexivity.
Qed.

Lemma enc_int_ok t z : 0 <= z <= itype_max t -> exists bs, enc_int t z = Some bs.
Proof.
  intros H. destruct t; cbn [enc_int itype_max] in *;
    try (destruct (z <=? _) eqn:Q; [|lia]; rewrite encode_number_ok by (unfold INT_MAX; lia); eauto).
  destruct ((0 <=? z) && (z <=? 255)) eqn:Q; [eauto | lia].
Qed.

(* what r_get_int_of makes of the bytes it reads *)
Definition int_dec (t : itype) (bs : list Z) : Z := match t with TByte => zget bs 0 | _ => decode_number bs end.

Lemma nc_get_int_of t r d p bs post : nc r d p -> frame d p bs post -> zlen bs = itype_size t ->
  r_get_int_of t r = (r_set_pos r (p + zlen bs), int_dec t bs).
Proof.
  intros Hn Hf Hl. destruct t; cbn [r_get_int_of int_dec itype_size] in *.
  - destruct bs as [|b [|b' bs]]; try (unfold zlen in Hl; cbn [List.length] in Hl; lia).
    unfold r_get_byte. rewrite (nc_read_byte _ _ _ _ _ Hn Hf). reflexivity.
  - unfold r_get_char. apply (nc_get_number _ _ _ _ _ _ Hn Hf); lia.
  - unfold r_get_short. apply (nc_get_number _ _ _ _ _ _ Hn Hf); lia.
  - unfold r_get_three. apply (nc_get_number _ _ _ _ _ _ Hn Hf); lia.
  - unfold r_get_int. apply (nc_get_number _ _ _ _ _ _ Hn Hf); lia.
Qed.

Lemma int_dec_enc t z bs : 0 <= z <= itype_max t -> enc_int t z = Some bs -> int_dec t bs = z.
Proof.
  intros H. destruct t; cbn [enc_int itype_max int_dec itype_size] in *; intros He;
    try (destruct (z <=? _); [|discriminate He]; destruct (encode_number z); [|discriminate He]; injection He as <-).
  - destruct ((0 <=? z) && (z <=? 255)); [|discriminate He]. injection He as <-. reflexivity.
  - apply dec_char. unfold CHAR_MAX. lia.
  - apply dec_short. unfold SHORT_MAX. lia.
  - apply dec_three. unfold THREE_MAX. lia.
  - apply dec_int. unfold INT_MAX. lia.
Qed.

(* ====================================================================================================== *)
(* 3. strings                                                                                              *)
(* ====================================================================================================== *)
Lemma forallb_neq_notin c s : forallb (fun x => negb (x =? c)) s = true -> ~ In c s.
Proof.
  intros H Hin. rewrite forallb_forall in H. specialize (H c Hin). rewrite Z.eqb_refl in H. discriminate H.
Qed.

Lemma cp_roundtrip s : forallb cp_encodable s = true -> cp_decode (cp_encode s) = s.
Proof.
  intros H. rewrite cp_decode_encode. induction s as [|c s IH]; [reflexivity|].
  cbn [forallb] in H. apply andb_true_iff in H as [Hc Hs]. cbn [map]. rewrite (IH Hs).
  unfold cp_image. rewrite Hc. reflexivity.
Qed.

Lemma cp_no_255 s : ~ In 255 s -> ~ In 255 (cp_encode s).
Proof.
  intros H Hin. apply H. unfold cp_encode in Hin. apply in_map_iff in Hin as [c [Hc Hin]].
  apply (proj1 (cp_enc_255 c)) in Hc. subst c. exact Hin.
Qed.

Lemma cp_no_126 s : ~ In 126 s -> ~ In 126 (cp_encode s).
Proof.
  intros H Hin. apply H. unfold cp_encode in Hin. apply in_map_iff in Hin as [c [Hc Hin]].
  apply (proj1 (cp_enc_126 c)) in Hc. subst c. exact Hin.
Qed.

Lemma no_126_pad bs k : ~ In 126 bs -> ~ In 126 (bs ++ zrepeat 255 k).
Proof.
  intros H Hin. apply in_app_iff in Hin as [Hin|Hin]; [now apply H|].
  unfold zrepeat in Hin. apply repeat_spec in Hin. discriminate Hin.
Qed.

Lemma zlen_place enc bs : zlen (place enc bs) = zlen bs.
Proof. destruct enc; cbn [place]; [apply zlen_encode_string | reflexivity]. Qed.

Lemma zlen_zrepeat' {A} (x : A) n : 0 <= n -> zlen (zrepeat x n) = n.
Proof. intros H. unfold zlen, zrepeat. rewrite repeat_length. lia. Qed.

Lemma enc_str_len enc s n padded out : enc_str false enc s (Some n) padded = Some out -> zlen out = n.
Proof.
  unfold enc_str. rewrite sanitize_false. destruct padded.
  - destruct (zlen s <=? n) eqn:Q; intros H; [|discriminate H]. injection H as <-.
    rewrite zlen_place, zlen_app, zlen_cp_encode, zlen_zrepeat' by lia. lia.
  - destruct (zlen s =? n) eqn:Q; intros H; [|discriminate H]. injection H as <-.
    rewrite zlen_place, zlen_cp_encode. lia.
Qed.

(* what the reader makes of the bytes of a string field *)
Definition str_dec (enc padded : bool) (bs : list Z) : list Z :=
  cp_decode (let bs := if enc then decode_string bs else bs in if padded then remove_padding bs else bs).

Section StrRead.
  Variable drec : string -> rstate -> rres value.

  Lemma deser_str_fixed enc n padded r d p out post : nc r d p -> frame d p out post -> zlen out = n ->
    deser_value drec (EStr enc) (Some n) padded 0 r = (r_set_pos r (p + zlen out), Ok (VStr (str_dec enc padded out))).
  Proof.
    intros Hn Hf Hl. pose proof (zlen_nonneg out) as Hp. cbn [deser_value]. unfold str_dec. destruct enc.
    - unfold r_get_fixed_encoded_string. destruct (n <? 0) eqn:Q; [lia|].
      rewrite (nc_read_bytes _ _ _ _ _ _ Hn Hf (eq_sym Hl)). reflexivity.
    - unfold r_get_fixed_string. destruct (n <? 0) eqn:Q; [lia|].
      rewrite (nc_read_bytes _ _ _ _ _ _ Hn Hf (eq_sym Hl)). reflexivity.
  Qed.

  Lemma deser_str_rest enc padded r d p out : nc r d p -> frame d p out [] ->
    deser_value drec (EStr enc) None padded 0 r = (r_set_pos r (p + zlen out), Ok (VStr (str_dec enc false out))).
  Proof.
    intros Hn Hf. cbn [deser_value]. unfold str_dec. destruct enc.
    - unfold r_get_encoded_string. rewrite (nc_read_rest _ _ _ _ Hn Hf). reflexivity.
    - unfold r_get_string. rewrite (nc_read_rest _ _ _ _ Hn Hf). reflexivity.
  Qed.
End StrRead.

Lemma str_dec_enc enc s len padded out :
  forallb cp_encodable s = true ->
  (padded = true -> len <> None -> ~ In 255 s) -> (enc = true -> ~ In 126 s) ->
  enc_str false enc s len padded = Some out ->
  str_dec enc (padded && match len with None => false | Some _ => true end) out = s.
Proof.
  intros Hcp H255 H126. unfold enc_str, str_dec. rewrite sanitize_false. destruct len as [n|].
  - rewrite andb_true_r. destruct padded.
    + destruct (zlen s <=? n); intros H; [|discriminate H]. injection H as <-.
      assert (N255 : ~ In 255 (cp_encode s)) by (apply cp_no_255; apply H255; [reflexivity | discriminate]).
      destruct enc; cbn [place].
      * rewrite decode_encode_no_tilde by (apply no_126_pad; apply cp_no_126; now apply H126).
        unfold zrepeat. rewrite remove_padding_app by exact N255. now apply cp_roundtrip.
      * unfold zrepeat. rewrite remove_padding_app by exact N255. now apply cp_roundtrip.
    + destruct (zlen s =? n); intros H; [|discriminate H]. injection H as <-. destruct enc; cbn [place].
      * rewrite decode_encode_no_tilde by (apply cp_no_126; now apply H126). now apply cp_roundtrip.
      * now apply cp_roundtrip.
  - rewrite andb_false_r. intros H. injection H as <-. destruct enc; cbn [place].
    + rewrite decode_encode_no_tilde by (apply cp_no_126; now apply H126). now apply cp_roundtrip.
    + now apply cp_roundtrip.
Qed.

(* ====================================================================================================== *)
(* 4. static sizes and progress of encodings                                                               *)
(* ====================================================================================================== *)
Lemma sole_dummy_spec is ty lit : sole_dummy is = Some (ty, lit) -> is = [EDummy ty lit false].
Proof.
  unfold sole_dummy. destruct is as [|i [|j t]]; try discriminate; destruct i; try discriminate;
    (destruct guarded; [discriminate|]); [|discriminate]. intros H. injection H as -> ->. reflexivity.
Qed.

(* destruct the scrutinee of the outermost match on the left of hypothesis H *)
Ltac dm H := match type of H with (match ?c with _ => _ end) = _ => let Q := fresh "Q" in destruct c eqn:Q end.

Lemma opt_guard_required fst_ rmo v : opt_guard false fst_ rmo v = (rmo, true).
Proof. reflexivity. Qed.

Section EncSize.
  Variable erec : string -> value -> bool -> option (list Z).
  Variable sizef : string -> option Z.
  Hypothesis Hsz : forall n s x out, sizef n = Some s -> erec n x false = Some out -> zlen out = s.

  Lemma enc_value_size ty flen len v padded out s :
    ty_size sizef ty flen = Some s -> (forall n, flen = LLit n -> len = Some n) ->
    enc_value erec ty v len padded 0 false = Some out -> zlen out = s.
  Proof.
    intros Hs Hlen He. destruct ty as [t|t|en t|enc| |n]; cbn [ty_size enc_value] in *.
    - injection Hs as <-. destruct v; try discriminate He; apply (enc_int_size _ _ _ He).
    - injection Hs as <-. apply (enc_int_size _ _ _ He).
    - injection Hs as <-. destruct v; try discriminate He; apply (enc_int_size _ _ _ He).
    - destruct flen as [|n|l]; try discriminate Hs. injection Hs as <-. rewrite (Hlen n eq_refl) in He.
      destruct v; try discriminate He. apply (enc_str_len _ _ _ _ _ He).
    - discriminate Hs.
    - apply (Hsz _ _ _ _ Hs He).
  Qed.

  Lemma enc_elems_size ty s : ty_size sizef ty LNone = Some s -> forall elems bodies,
    sequence (map (fun e => enc_value erec ty e None false 0 false) elems) = Some bodies ->
    zlen (List.concat bodies) = zlen elems * s.
  Proof.
    intros Hs. induction elems as [|e elems IH]; intros bodies Hq; cbn [map sequence] in Hq.
    - injection Hq as <-. reflexivity.
    - destruct (enc_value erec ty e None false 0 false) as [b|] eqn:Eb; [|discriminate Hq].
      destruct (sequence _) as [bs|] eqn:Eq; [|discriminate Hq]. injection Hq as <-.
      cbn [List.concat]. rewrite zlen_app, zlen_cons, (IH _ eq_refl).
      rewrite (enc_value_size _ LNone _ _ _ _ _ Hs ltac:(discriminate) Eb). lia.
  Qed.

  Lemma enc_instr_size flds i rmo acc out rmo' s :
    instr_size sizef i = Some s -> enc_instr erec flds i rmo false acc = Some (out, rmo') -> zlen out = s.
  Proof.
    intros Hs He. destruct i as [f|f dl tr cnt|name t off opt of rb|ty lit g|fld cs|b|]; cbn [instr_size] in Hs; try discriminate Hs.
    - destruct (f_optional f) eqn:Fo; [discriminate Hs|]. cbn [enc_instr] in He. unfold enc_field in He.
      destruct (f_name f) as [name|].
      + destruct (assoc flds name) as [v|]; [|discriminate He]. rewrite Fo, opt_guard_required in He. cbn [negb] in He.
        dm He; [discriminate He|]. destruct (len_ok f v); [|discriminate He].
        destruct (enc_value _ _ _ _ _ _ _) as [o|] eqn:Ev; [|discriminate He]. injection He as <- <-.
        apply (enc_value_size _ _ _ _ _ _ _ Hs) in Ev; [exact Ev|]. intros n Hn. unfold field_len. rewrite Hn. reflexivity.
      + destruct (f_hard f) as [lit|]; [|discriminate He]. destruct (lit_value (f_ty f) lit) as [v|]; [|discriminate He].
        destruct (enc_value _ _ _ _ _ _ _) as [o|] eqn:Ev; [|discriminate He]. injection He as <- <-.
        apply (enc_value_size _ _ _ _ _ _ _ Hs) in Ev; [exact Ev|]. intros n Hn. rewrite Hn. reflexivity.
    - destruct dl; [discriminate Hs|]. destruct (f_optional f) eqn:Fo; [discriminate Hs|].
      destruct (f_len f) as [|n|l] eqn:Fl; try discriminate Hs.
      destruct (ty_size sizef (f_ty f) LNone) as [es|] eqn:Es; [|discriminate Hs]. injection Hs as <-.
      cbn [enc_instr] in He. unfold enc_array in He. destruct (f_name f) as [name|]; [|discriminate He].
      destruct (assoc flds name) as [v|]; [|discriminate He]. rewrite Fo, opt_guard_required in He. cbn [negb] in He.
      destruct v as [| | | | |elems|]; try discriminate He. unfold array_count_ok in He. rewrite Fl in He.
      destruct (zlen elems =? n) eqn:Q; [|discriminate He]. unfold enc_elems in He.
      destruct (sequence _) as [bodies|] eqn:Eq; [|discriminate He]. injection He as <- <-.
      cbn [join_elems]. rewrite (enc_elems_size _ _ Es _ _ Eq). lia.
    - destruct opt; [discriminate Hs|]. injection Hs as <-. cbn [enc_instr] in He.
      destruct rb as [fr|]; [|discriminate He]. destruct (assoc flds fr) as [fv|]; [|discriminate He].
      destruct (length_slot fv) as [sv|]; [|discriminate He]. rewrite opt_guard_required in He. cbn [negb] in He.
      destruct sv; try discriminate He. destruct (enc_int t (z - off)) as [o|] eqn:Ei; [|discriminate He].
      injection He as <- <-. apply (enc_int_size _ _ _ Ei).
  Qed.

  Lemma enc_instrs_size flds : forall is rmo acc out s,
    body_size sizef is = Some s -> enc_instrs erec flds is rmo false acc = Some out -> zlen out = s.
  Proof.
    induction is as [|i t IH]; intros rmo acc out s Hs He; cbn [body_size enc_instrs] in *.
    - injection Hs as <-. injection He as <-. reflexivity.
    - destruct (instr_size sizef i) as [a|] eqn:Ea; [|discriminate Hs].
      destruct (body_size sizef t) as [b|] eqn:Eb; [|discriminate Hs]. injection Hs as <-.
      destruct (enc_instr erec flds i rmo false acc) as [[o rmo']|] eqn:Ei; [|discriminate He].
      assert (Hm : instr_mode i false = false) by (destruct i; try reflexivity; discriminate Ea). rewrite Hm in He.
      destruct (enc_instrs erec flds t rmo' false (acc ++ o)) as [o'|] eqn:Et; [|discriminate He]. injection He as <-.
      rewrite zlen_app, (enc_instr_size _ _ _ _ _ _ _ Ea Ei), (IH _ _ _ _ eq_refl Et). reflexivity.
  Qed.
End EncSize.

Lemma enc_dummy_body erec flds ty lit rmo acc out :
  enc_instrs erec flds [EDummy ty lit false] rmo false acc = Some out ->
  exists v, lit_value ty lit = Ok v /\ enc_value erec ty v None false 0 false = Some out.
Proof.
  cbn [enc_instrs enc_instr andb]. destruct (lit_value ty lit) as [v|]; [|discriminate].
  destruct (enc_value erec ty v None false 0 false) as [o|] eqn:Ev; [|discriminate]. intros H. injection H as <-.
  exists v. rewrite app_nil_r. split; [reflexivity | exact Ev].
Qed.

Lemma size_of_enc E : forall n m cls v out s,
  size_of n E cls = Some s -> enc_struct m E cls v false = Some out -> zlen out = s.
Proof.
  induction n as [|n IH]; intros m cls v out s Hs He; [discriminate Hs|].
  destruct m as [|m]; [discriminate He|]. cbn [size_of enc_struct] in *.
  destruct (env_find E cls) as [d|]; [|discriminate Hs]. unfold enc_body in He.
  destruct (sole_dummy (sd_body d)) as [[ty lit]|] eqn:Sd.
  - apply sole_dummy_spec in Sd. rewrite Sd in He. destruct v; try discriminate He.
    apply enc_dummy_body in He as [lv [_ He]].
    apply (enc_value_size _ (fun _ => None) ltac:(discriminate) _ LNone _ _ _ _ _ Hs ltac:(discriminate) He).
  - destruct v as [| | | | | |c flds].
    7: apply (enc_instrs_size (enc_struct m E) (size_of n E) (fun a b c d H1 H2 => IH m a c d b H1 H2) _ _ _ _ _ _ Hs He).
    all: destruct (sd_body d); [|discriminate He]; injection He as <-; cbn [body_size] in Hs; injection Hs as <-; reflexivity.
Qed.

Definition scalar_ty (ty : etype) : bool := match ty with EInt _ | EBool _ | EEnum _ _ => true | _ => false end.
Lemma enc_value_scalar_pos erec ty v len padded out :
  enc_value erec ty v len padded 0 false = Some out -> scalar_ty ty = true -> 0 < zlen out.
Proof.
  intros He Ht. destruct ty as [t|t|en t| | |]; try discriminate Ht; cbn [enc_value] in He;
    pose proof (itype_size_range t) as R.
  - destruct v; try discriminate He; rewrite (enc_int_size _ _ _ He); lia.
  - rewrite (enc_int_size _ _ _ He); lia.
  - destruct v; try discriminate He; rewrite (enc_int_size _ _ _ He); lia.
Qed.

Lemma progress_enc E : forall n m cls v out,
  progress_class n E cls = true -> enc_struct m E cls v false = Some out -> 0 < zlen out.
Proof.
  induction n as [|n IH]; intros m cls v out Hp He; [discriminate Hp|].
  destruct m as [|m]; [discriminate He|]. cbn [progress_class enc_struct] in *.
  destruct (env_find E cls) as [d|]; [|discriminate Hp]. unfold enc_body in He. unfold progress_body in Hp.
  destruct (sole_dummy (sd_body d)) as [[ty lit]|] eqn:Sd.
  - apply sole_dummy_spec in Sd. rewrite Sd in He. destruct v; try discriminate He.
    apply enc_dummy_body in He as [lv [_ He]]. destruct ty; try discriminate Hp.
    apply (enc_value_scalar_pos _ _ _ _ _ _ He eq_refl).
  - destruct (sd_body d) as [|i t]; [discriminate Hp|]. destruct v as [| | | | | |c flds]; try discriminate He.
    cbn [enc_instrs] in He. destruct (enc_instr _ flds i false false []) as [[o rmo']|] eqn:Ei; [|discriminate He].
    destruct (enc_instrs _ flds t rmo' _ _) as [o'|]; [|discriminate He]. injection He as <-.
    rewrite zlen_app. pose proof (zlen_nonneg o') as Ho'. enough (0 < zlen o) by lia.
    destruct i as [f|f dl tr cnt|name t0 off opt of rb|ty lit g|fld cs|b|]; try discriminate Hp.
    + apply andb_true_iff in Hp as [Fo Hty]. apply negb_true_iff in Fo. cbn [enc_instr] in Ei. unfold enc_field in Ei.
      assert (Hv : forall v len, enc_value (enc_struct m E) (f_ty f) v len (f_padded f) 0 false = Some o -> 0 < zlen o).
      { intros v len Ev. destruct (f_ty f) as [t0|t0|en t0| | |sn] eqn:Ft; try discriminate Hty;
          try (apply (enc_value_scalar_pos _ _ _ _ _ _ Ev eq_refl)).
        cbn [enc_value] in Ev. apply (IH _ _ _ _ Hty Ev). }
      destruct (f_name f) as [name|].
      * destruct (assoc flds name) as [v|]; [|discriminate Ei]. rewrite Fo, opt_guard_required in Ei. cbn [negb] in Ei.
        dm Ei; [discriminate Ei|]. destruct (len_ok f v); [|discriminate Ei].
        destruct (enc_value _ _ _ _ _ _ _) as [o1|] eqn:Ev; [|discriminate Ei]. injection Ei as <- <-. apply (Hv _ _ Ev).
      * destruct (f_hard f) as [lit|]; [|discriminate Ei]. destruct (lit_value (f_ty f) lit) as [v|]; [|discriminate Ei].
        destruct (enc_value _ _ _ _ _ _ _) as [o1|] eqn:Ev; [|discriminate Ei]. injection Ei as <- <-. apply (Hv _ _ Ev).
    + destruct opt; [discriminate Hp|]. cbn [enc_instr] in Ei.
      destruct rb as [fr|]; [|discriminate Ei]. destruct (assoc flds fr) as [fv|]; [|discriminate Ei].
      destruct (length_slot fv) as [sv|]; [|discriminate Ei]. rewrite opt_guard_required in Ei. cbn [negb] in Ei.
      destruct sv; try discriminate Ei. destruct (enc_int t0 (z - off)) as [o1|] eqn:E1; [|discriminate Ei].
      injection Ei as <- <-. rewrite (enc_int_size _ _ _ E1). pose proof (itype_size_range t0). lia.
Qed.

(* ====================================================================================================== *)
(* 5. one class body, given the round trip of the classes one level down                                  *)
(* ====================================================================================================== *)
Lemma assoc_last_snoc {A} (l : list (string * A)) k v k' : forall acc,
  assoc_last (l ++ [(k, v)]) k' acc = if String.eqb k k' then Some v else assoc_last l k' acc.
Proof. induction l as [|[k0 v0] l IH]; intros acc; cbn [app assoc_last]; [reflexivity | apply IH]. Qed.

Lemma ref_ok_In l n lens : ref_ok l n lens = true -> In (l, n) lens.
Proof.
  unfold ref_ok. intros H. apply existsb_exists in H as [[a b] [Hin H]]. cbn [fst snd] in H.
  apply andb_true_iff in H as [H1 H2]. apply String.eqb_eq in H1, H2. subst. exact Hin.
Qed.

Lemma fresh_spec n lens pubs : fresh n lens pubs = true -> ~ In n (map fst lens) /\ ~ In n pubs.
Proof.
  unfold fresh. intros H. apply andb_true_iff in H as [H1 H2]. apply negb_true_iff in H1, H2.
  split; apply mem_str_not_In; assumption.
Qed.

Lemma pub_fresh_spec n lens pubs : pub_fresh n lens pubs = true -> n <> "byte_size"%string /\ fresh n lens pubs = true.
Proof.
  unfold pub_fresh. intros H. apply andb_true_iff in H as [H1 H2]. split; [|exact H2].
  apply negb_true_iff in H1. apply String.eqb_neq. exact H1.
Qed.

(* the deserializer's locals agree with the object: length fields hold the length of the field they describe,
   public names hold (up to byte_size entries) the object's field *)
Definition lens_inv (flds locals : list (string * value)) (lens : list (string * string)) : Prop :=
  forall l fr, In (l, fr) lens ->
    exists fv len, assoc flds fr = Some fv /\ py_len fv = Some len /\ assoc_last locals l None = Some (VInt len).
Definition pubs_inv (flds locals : list (string * value)) (pubs : list string) : Prop :=
  forall n, In n pubs -> exists x v, assoc_last locals n None = Some x /\ assoc flds n = Some v /\ strip_bs x = v.

Lemma lens_inv_bind flds locals lens pubs n x : fresh n lens pubs = true -> lens_inv flds locals lens ->
  lens_inv flds (locals ++ [(n, x)]) lens.
Proof.
  intros Hf HI l fr Hin. destruct (HI l fr Hin) as [fv [len [H1 [H2 H3]]]]. exists fv, len. repeat split; try assumption.
  rewrite assoc_last_snoc. destruct (String.eqb n l) eqn:Q; [|exact H3]. apply String.eqb_eq in Q. subst l.
  apply fresh_spec in Hf as [Hf _]. exfalso. apply Hf. apply in_map_iff. exists (n, fr). split; [reflexivity | exact Hin].
Qed.

Lemma pubs_inv_bind flds locals lens pubs n x v : fresh n lens pubs = true -> pubs_inv flds locals pubs ->
  assoc flds n = Some v -> strip_bs x = v -> pubs_inv flds (locals ++ [(n, x)]) (n :: pubs).
Proof.
  intros Hf HI Ha Hs k Hin. rewrite assoc_last_snoc. destruct (String.eqb n k) eqn:Q.
  - apply String.eqb_eq in Q. subst k. exists x, v. repeat split; assumption.
  - destruct Hin as [Hin|Hin]; [subst k; rewrite String.eqb_refl in Q; discriminate Q|]. apply (HI k Hin).
Qed.

Lemma pubs_inv_keep flds locals lens pubs n x : fresh n lens pubs = true -> pubs_inv flds locals pubs ->
  pubs_inv flds (locals ++ [(n, x)]) pubs.
Proof.
  intros Hf HI k Hin. rewrite assoc_last_snoc. destruct (String.eqb n k) eqn:Q; [|apply (HI k Hin)].
  apply String.eqb_eq in Q. subst k. apply fresh_spec in Hf as [_ Hf]. exfalso. apply Hf. exact Hin.
Qed.

Lemma lens_inv_len flds locals lens pubs n fr fv len : fresh n lens pubs = true -> lens_inv flds locals lens ->
  assoc flds fr = Some fv -> py_len fv = Some len -> lens_inv flds (locals ++ [(n, VInt len)]) ((n, fr) :: lens).
Proof.
  intros Hf HI Ha Hl l fr' Hin. rewrite assoc_last_snoc. destruct Hin as [Hin|Hin].
  - injection Hin as <- <-. rewrite String.eqb_refl. exists fv, len. repeat split; assumption.
  - destruct (HI l fr' Hin) as [fv' [len' [H1 [H2 H3]]]]. exists fv', len'. repeat split; try assumption.
    destruct (String.eqb n l) eqn:Q; [|exact H3]. apply String.eqb_eq in Q. subst l.
    apply fresh_spec in Hf as [Hf _]. exfalso. apply Hf. apply in_map_iff. exists (n, fr'). split; [reflexivity | exact Hin].
Qed.

(* ---------------- inversion of the boolean side conditions (no induction hypothesis needed) ---------------- *)
Section Inv.
  Variable E : env.
  Variable fuel : nat.
  Local Notation sizef := (size_of (S (List.length E)) E).
  Local Notation progf := (progress_class (S (List.length E)) E).
  Local Notation wcls := (wire_class fuel E).
  Local Notation vo := (valid_obj fuel E).
  Local Notation erec := (enc_struct fuel E).

  Definition elem_wire (ty : etype) : Prop :=
    match ty with EStruct n => wcls n false = true | ty => closed_ty wcls ty LNone = true end.
  Local Notation finalb last t := (last && match t with [] => true | _ => false end).

  Lemma wire_field_inv last lens pubs f t :
    wire_instrs sizef wcls progf last lens pubs (EField f :: t) = true ->
    match f_name f with
    | Some n => pub_fresh n lens pubs = true /\ (forall l, f_len f = LRef l -> ref_ok l n lens = true)
    | None => f_optional f = false /\ (forall l, f_len f <> LRef l) /\
              exists lit, f_hard f = Some lit /\ lit_enc_ok (f_ty f) (f_len f) (f_padded f) lit = true
    end /\
    (f_optional f = true -> last = true /\ only_optionals t = true /\ nonempty_ty sizef progf (f_ty f) = true) /\
    match f_ty f with
    | EStruct n => wcls n (finalb last t) = true
    | _ => closed_ty wcls (f_ty f) (f_len f) = true \/ finalb last t = true
    end /\
    wire_instrs sizef wcls progf last lens (match f_name f with Some n => n :: pubs | None => pubs end) t = true.
  Proof.
    cbn [wire_instrs]. intros W. apply andb_true_iff in W as [W Wt]. apply andb_true_iff in W as [Wn Wo].
    assert (Hopt : (f_optional f = true -> last = true /\ only_optionals t = true /\ nonempty_ty sizef progf (f_ty f) = true /\
                                            exists n, f_name f = Some n) /\
                   match f_ty f with
                   | EStruct n => wcls n (finalb last t) = true
                   | _ => closed_ty wcls (f_ty f) (f_len f) = true \/ finalb last t = true
                   end).
    { destruct (f_optional f).
      - apply andb_true_iff in Wo as [Wo W6]. apply andb_true_iff in Wo as [Wo W5]. apply andb_true_iff in Wo as [Wo W4].
        apply andb_true_iff in Wo as [Wo W3]. apply andb_true_iff in Wo as [W1 W2]. split.
        + intros _. repeat split; try assumption. destruct (f_name f) as [n|]; [eauto | discriminate W3].
        + destruct (f_ty f); try (apply orb_true_iff; exact W4). exact W5.
      - split; [discriminate|]. destruct (f_ty f); try (apply orb_true_iff; exact Wo). exact Wo. }
    destruct Hopt as [Hopt Hty]. split; [|split; [|split; [exact Hty | exact Wt]]].
    - destruct (f_name f) as [n|].
      + apply andb_true_iff in Wn as [W1 W2]. split; [exact W1|]. intros l Hl. rewrite Hl in W2. exact W2.
      + apply andb_true_iff in Wn as [W1 W2]. split; [|split].
        * destruct (f_optional f); [|reflexivity]. destruct (Hopt eq_refl) as [_ [_ [_ [n Hn]]]]. discriminate Hn.
        * intros l Hl. rewrite Hl in W2. discriminate W2.
        * destruct (f_hard f) as [lit|]; [eauto | discriminate W1].
    - intros Fo. destruct (Hopt Fo) as [H1 [H2 [H3 _]]]. auto.
  Qed.

  Lemma obj_value_not_none ty flen padded v : obj_value vo ty flen padded v = true -> is_none v = false.
  Proof.
    destruct v; try reflexivity. destruct ty; cbn [obj_value]; try discriminate.
    destruct fuel; cbn [valid_obj]; [discriminate|]. destruct (env_find E name); discriminate.
  Qed.

  Lemma obj_field_inv flds f t rmo n : obj_instrs vo flds (EField f :: t) rmo = true -> f_name f = Some n ->
    exists v, assoc flds n = Some v /\ hard_agrees f v = true /\
      ((f_optional f = true /\ v = VNone /\ obj_instrs vo flds t true = true) \/
       ((f_optional f = true -> rmo = false /\ nonempty_value v = true) /\ valid_len f v = true /\
        obj_value vo (f_ty f) (f_len f) (f_padded f) v = true /\ obj_instrs vo flds t rmo = true /\ is_none v = false)).
  Proof.
    cbn [obj_instrs]. intros O Fn. rewrite Fn in O. destruct (assoc flds n) as [v|]; [|discriminate O]. exists v.
    apply andb_true_iff in O as [Oh O]. split; [reflexivity|]. split; [exact Oh|].
    destruct (f_optional f).
    - destruct (is_none v) eqn:Hnn.
      + left. destruct v; try discriminate Hnn. auto.
      + right. apply andb_true_iff in O as [O O5]. apply andb_true_iff in O as [O O4]. apply andb_true_iff in O as [O O3].
        apply andb_true_iff in O as [O1 O2]. apply negb_true_iff in O1. repeat split; auto.
    - right. apply andb_true_iff in O as [O O3]. apply andb_true_iff in O as [O1 O2].
      split; [discriminate|]. repeat split; try assumption. apply (obj_value_not_none _ _ _ _ O2).
  Qed.

  Lemma final_post flds last t rmo acc o2 post : finalb last t = true ->
    enc_instrs erec flds t rmo false acc = Some o2 -> (last = true -> post = []) -> o2 ++ post = [].
  Proof.
    intros H He Hp. apply andb_true_iff in H as [Hl Ht]. destruct t; [|discriminate Ht].
    cbn [enc_instrs] in He. injection He as <-. rewrite (Hp Hl). reflexivity.
  Qed.

  Lemma wire_array_inv last lens pubs f dl tr cnt t :
    wire_instrs sizef wcls progf last lens pubs (EArray f dl tr cnt :: t) = true ->
    dl = false /\ exists n, f_name f = Some n /\ pub_fresh n lens pubs = true /\
    (f_optional f = true -> last = true /\ only_optionals t = true /\ nonempty_ty sizef progf (f_ty f) = true) /\
    elem_wire (f_ty f) /\
    match cnt with
    | ACExpr => match f_len f with LRef l => ref_ok l n lens = true | LLit k => True | LNone => False end
    | ACRemaining sz => finalb last t = true /\ 0 < sz /\ elem_size sizef (f_ty f) = Some sz
    | ACWhile => finalb last t = true /\ exists cn, f_ty f = EStruct cn /\ progf cn = true
    end /\
    wire_instrs sizef wcls progf last lens (n :: pubs) t = true.
  Proof.
    cbn [wire_instrs]. intros W. apply andb_true_iff in W as [W Wt]. apply andb_true_iff in W as [W Wc].
    apply andb_true_iff in W as [W We]. apply andb_true_iff in W as [W Wo]. apply andb_true_iff in W as [Wd Wn].
    split; [destruct dl; [discriminate Wd | reflexivity]|].
    destruct (f_name f) as [n|]; [|discriminate Wn]. exists n. split; [reflexivity|]. split; [exact Wn|].
    split; [|split; [|split; [|exact Wt]]].
    - intros Fo. rewrite Fo in Wo. apply andb_true_iff in Wo as [Wo W3]. apply andb_true_iff in Wo as [W1 W2]. auto.
    - unfold elem_wire. destruct (f_ty f); exact We.
    - destruct cnt as [|sz|].
      + destruct (f_len f); [discriminate Wc | exact I | exact Wc].
      + apply andb_true_iff in Wc as [Wc W3]. apply andb_true_iff in Wc as [W1 W2]. split; [exact W1|]. split; [lia|].
        destruct (elem_size sizef (f_ty f)) as [s|]; [|discriminate W3]. f_equal. lia.
      + apply andb_true_iff in Wc as [W1 W2]. split; [exact W1|]. destruct (f_ty f); try discriminate W2. eauto.
  Qed.

  Lemma obj_array_inv flds f dl tr cnt t rmo n : obj_instrs vo flds (EArray f dl tr cnt :: t) rmo = true -> f_name f = Some n ->
    (assoc flds n = Some VNone /\ f_optional f = true /\ obj_instrs vo flds t true = true) \/
    (exists elems, assoc flds n = Some (VList elems) /\ (f_optional f = true -> rmo = false /\ zlen elems <> 0) /\
       valid_len f (VList elems) = true /\ (forall k, f_len f = LLit k -> zlen elems = k) /\
       forallb (obj_value vo (f_ty f) LNone false) elems = true /\ obj_instrs vo flds t rmo = true).
  Proof.
    cbn [obj_instrs]. intros O Fn. rewrite Fn in O. destruct (assoc flds n) as [v|]; [|discriminate O].
    destruct v as [| | | | |elems|]; try discriminate O.
    - left. apply andb_true_iff in O as [O1 O2]. auto.
    - right. exists elems. apply andb_true_iff in O as [O O5]. apply andb_true_iff in O as [O O4].
      apply andb_true_iff in O as [O O3]. apply andb_true_iff in O as [O1 O2].
      split; [reflexivity|]. split; [|split; [exact O2|split; [|split; assumption]]].
      + intros Fo. rewrite Fo in O1. cbn [negb orb nonempty_value] in O1. apply andb_true_iff in O1 as [Oa Ob].
        apply negb_true_iff in Oa, Ob. split; [exact Oa | lia].
      + intros k Hk. rewrite Hk in O3. lia.
  Qed.

  Lemma find_case_In' cases z c : find_case cases z = Some c -> In c cases.
  Proof.
    induction cases as [|c0 t IHc]; cbn [find_case]; intros H; [discriminate H|].
    destruct (c_key c0) as [v|]; [|injection H as <-; left; reflexivity].
    destruct z as [x|]; [|right; apply IHc; exact H].
    destruct (x =? v); [injection H as <-; left; reflexivity | right; apply IHc; exact H].
  Qed.

End Inv.

Section Body.
  Variable E : env.
  Variable fuel : nat.
  Local Notation sizef := (size_of (S (List.length E)) E).
  Local Notation progf := (progress_class (S (List.length E)) E).
  Local Notation wcls := (wire_class fuel E).
  Local Notation vo := (valid_obj fuel E).
  Local Notation erec := (enc_struct fuel E).
  Local Notation drec := (deser_struct fuel E).

  (* the round trip one level down *)
  Hypothesis IH : forall n last x out r d p post,
    wcls n last = true -> vo n x = true -> erec n x false = Some out -> (last = true -> post = []) ->
    nc r d p -> frame d p out post ->
    exists r' x', drec n r = (r', Ok x') /\ strip_bs x' = x /\ nc r' d (p + zlen out).

  Lemma bool_range (b : bool) t : 0 <= (if b then 1 else 0) <= itype_max t.
  Proof. destruct b, t; cbn [itype_max]; lia. Qed.

  (* one value: what was encoded is read back *)
  Lemma rt_value ty flen len padded final v out r d p post :
    match ty with EStruct n => wcls n final = true | _ => closed_ty wcls ty flen = true \/ final = true end ->
    (flen = LNone <-> len = None) ->
    obj_value vo ty flen padded v = true ->
    enc_value erec ty v len padded 0 false = Some out ->
    (final = true -> post = []) ->
    nc r d p -> frame d p out post ->
    exists r' x, deser_value drec ty len padded 0 r = (r', Ok x) /\ strip_bs x = v /\ nc r' d (p + zlen out).
  Proof.
    intros Hw Hlen Ho He Hfin Hn Hf.
    destruct ty as [t|t|en t|enc| |n]; cbn [obj_value enc_value] in *.
    - cbn [deser_value]. destruct v as [|z| | | | |]; try discriminate Ho. rewrite Z.sub_0_r in He.
      assert (Hz : 0 <= z <= itype_max t) by lia.
      rewrite (nc_get_int_of t _ _ _ _ _ Hn Hf (enc_int_size _ _ _ He)).
      rewrite (int_dec_enc _ _ _ Hz He), Z.add_0_r. eexists _, _. split; [reflexivity|].
      split; [reflexivity | apply (nc_set_pos _ _ _ _ Hn)].
    - cbn [deser_value]. destruct v as [| |b| | | |]; try discriminate Ho. cbn [truthy] in He.
      rewrite (nc_get_int_of t _ _ _ _ _ Hn Hf (enc_int_size _ _ _ He)).
      rewrite (int_dec_enc _ _ _ (bool_range b t) He). eexists _, _. split; [reflexivity|].
      split; [destruct b; reflexivity | apply (nc_set_pos _ _ _ _ Hn)].
    - cbn [deser_value]. destruct v as [|z| | | | |]; try discriminate Ho.
      assert (Hz : 0 <= z <= itype_max t) by lia.
      rewrite (nc_get_int_of t _ _ _ _ _ Hn Hf (enc_int_size _ _ _ He)).
      rewrite (int_dec_enc _ _ _ Hz He). eexists _, _. split; [reflexivity|].
      split; [reflexivity | apply (nc_set_pos _ _ _ _ Hn)].
    - destruct v as [| | |s| | |]; try discriminate Ho.
      apply andb_true_iff in Ho as [Ho H126]. apply andb_true_iff in Ho as [Hcp H255].
      assert (S255 : padded = true -> len <> None -> ~ In 255 s).
      { intros -> Hl. cbn [andb] in H255. destruct flen; [exfalso; apply Hl; apply Hlen; reflexivity | |];
          cbn [negb orb] in H255; apply (forallb_neq_notin _ _ H255). }
      assert (S126 : enc = true -> ~ In 126 s).
      { intros ->. cbn [negb orb] in H126. apply (forallb_neq_notin _ _ H126). }
      pose proof (str_dec_enc _ _ _ _ _ Hcp S255 S126 He) as Hd. destruct len as [n|].
      + rewrite andb_true_r in Hd. rewrite (deser_str_fixed drec _ _ _ _ _ _ _ _ Hn Hf (enc_str_len _ _ _ _ _ He)), Hd.
        eexists _, _. split; [reflexivity|]. split; [reflexivity | apply (nc_set_pos _ _ _ _ Hn)].
      + rewrite andb_false_r in Hd. assert (Hp : post = []).
        { apply Hfin. destruct Hw as [Hw|Hw]; [|exact Hw]. rewrite (proj2 Hlen eq_refl) in Hw. discriminate Hw. }
        subst post. rewrite (deser_str_rest drec _ _ _ _ _ _ Hn Hf), Hd.
        eexists _, _. split; [reflexivity|]. split; [reflexivity | apply (nc_set_pos _ _ _ _ Hn)].
    - cbn [deser_value]. destruct v as [| | | |b| |]; try discriminate Ho. injection He as <-.
      assert (Hp : post = []) by (apply Hfin; destruct Hw as [Hw|Hw]; [discriminate Hw | exact Hw]). subst post.
      unfold r_get_bytes. rewrite (nc_read_rest _ _ _ _ Hn Hf).
      eexists _, _. split; [reflexivity|]. split; [reflexivity | apply (nc_set_pos _ _ _ _ Hn)].
    - cbn [deser_value]. apply (IH _ _ _ _ _ _ _ _ Hw Ho He Hfin Hn Hf).
  Qed.

  (* a literal whose value the deserializer throws away: only the bytes consumed matter *)
  Lemma skip_value ty len padded v out r d p post :
    match ty with EInt _ | EBool _ | EEnum _ _ | EStr _ => True | _ => False end ->
    enc_value erec ty v len padded 0 false = Some out ->
    (len = None -> match ty with EStr _ => post = [] | _ => True end) ->
    nc r d p -> frame d p out post ->
    exists r' x, deser_value drec ty len padded 0 r = (r', Ok x) /\ nc r' d (p + zlen out).
  Proof.
    intros Ht He Hfin Hn Hf. destruct ty as [t|t|en t|enc| |n]; try destruct Ht; cbn [enc_value] in *.
    - cbn [deser_value]. assert (Hs : zlen out = itype_size t) by (destruct v; try discriminate He; apply (enc_int_size _ _ _ He)).
      rewrite (nc_get_int_of t _ _ _ _ _ Hn Hf Hs). eexists _, _. split; [reflexivity | apply (nc_set_pos _ _ _ _ Hn)].
    - cbn [deser_value]. rewrite (nc_get_int_of t _ _ _ _ _ Hn Hf (enc_int_size _ _ _ He)).
      eexists _, _. split; [reflexivity | apply (nc_set_pos _ _ _ _ Hn)].
    - cbn [deser_value]. assert (Hs : zlen out = itype_size t) by (destruct v; try discriminate He; apply (enc_int_size _ _ _ He)).
      rewrite (nc_get_int_of t _ _ _ _ _ Hn Hf Hs). eexists _, _. split; [reflexivity | apply (nc_set_pos _ _ _ _ Hn)].
    - destruct v as [| | |s| | |]; try discriminate He. destruct len as [n|].
      + rewrite (deser_str_fixed drec _ _ _ _ _ _ _ _ Hn Hf (enc_str_len _ _ _ _ _ He)).
        eexists _, _. split; [reflexivity | apply (nc_set_pos _ _ _ _ Hn)].
      + rewrite (Hfin eq_refl) in Hf. rewrite (deser_str_rest drec _ _ _ _ _ _ Hn Hf).
        eexists _, _. split; [reflexivity | apply (nc_set_pos _ _ _ _ Hn)].
  Qed.

  (* a present optional value occupies at least one byte *)
  Lemma nonempty_enc ty flen len padded v out :
    nonempty_value v = true -> obj_value vo ty flen padded v = true -> nonempty_ty sizef progf ty = true ->
    enc_value erec ty v len padded 0 false = Some out -> 0 < zlen out.
  Proof.
    intros Hne Ho Hty He. destruct ty as [t|t|en t|enc| |n]; cbn [obj_value] in Ho.
    - apply (enc_value_scalar_pos _ _ _ _ _ _ He eq_refl).
    - apply (enc_value_scalar_pos _ _ _ _ _ _ He eq_refl).
    - apply (enc_value_scalar_pos _ _ _ _ _ _ He eq_refl).
    - destruct v as [| | |s| | |]; try discriminate Ho. cbn [nonempty_value enc_value] in *.
      apply negb_true_iff in Hne. destruct len as [n|].
      + rewrite (enc_str_len _ _ _ _ _ He). unfold enc_str in He. destruct padded.
        * destruct (zlen s <=? n) eqn:Q; [|discriminate He]. pose proof (zlen_nonneg s). lia.
        * destruct (zlen s =? n) eqn:Q; [|discriminate He]. pose proof (zlen_nonneg s). lia.
      + unfold enc_str in He. injection He as <-. rewrite zlen_place; rewrite ?zlen_sanitize; rewrite ?sanitize_false; rewrite zlen_cp_encode.
        pose proof (zlen_nonneg s). lia.
    - destruct v as [| | | |b| |]; try discriminate Ho. cbn [nonempty_value enc_value] in *. injection He as <-.
      apply negb_true_iff in Hne. pose proof (zlen_nonneg b). lia.
    - cbn [nonempty_ty enc_value] in *. apply orb_true_iff in Hty as [Hty|Hty].
      + apply (progress_enc _ _ _ _ _ _ Hty He).
      + destruct (sizef n) as [s|] eqn:Es; [|discriminate Hty]. rewrite (size_of_enc _ _ _ _ _ _ _ Es He). lia.
  Qed.

  (* ---------------- arrays ---------------- *)

  Lemma rt_elem ty v out r d p post : elem_wire E fuel ty ->
    obj_value vo ty LNone false v = true -> enc_value erec ty v None false 0 false = Some out ->
    nc r d p -> frame d p out post ->
    exists r' x, deser_value drec ty None false 0 r = (r', Ok x) /\ strip_bs x = v /\ nc r' d (p + zlen out).
  Proof.
    intros Hw Ho He Hn Hf. apply (rt_value ty LNone None false false v out r d p post); try assumption.
    - unfold elem_wire in Hw. destruct ty; try (left; exact Hw). exact Hw.
    - split; reflexivity.
    - discriminate.
  Qed.

  Lemma rt_for ty trailing : elem_wire E fuel ty -> forall elems bodies acc i n r d p post,
    forallb (obj_value vo ty LNone false) elems = true ->
    sequence (map (fun e => enc_value erec ty e None false 0 false) elems) = Some bodies ->
    nc r d p -> frame d p (List.concat bodies) post ->
    exists r' xs, deser_for drec ty false trailing (List.length elems) i n acc r = (r', Ok (rev acc ++ xs)) /\
                  map strip_bs xs = elems /\ nc r' d (p + zlen (List.concat bodies)).
  Proof.
    intros Hw. induction elems as [|e elems IHe]; intros bodies acc i n r d p post Ho Hq Hn Hf; cbn [map sequence] in Hq.
    - injection Hq as <-. cbn [List.length deser_for List.concat]. exists r, []. rewrite app_nil_r.
      change (zlen (@nil Z)) with 0. rewrite Z.add_0_r. split; [reflexivity|]. split; [reflexivity | exact Hn].
    - destruct (enc_value erec ty e None false 0 false) as [b|] eqn:Eb; [|discriminate Hq].
      destruct (sequence _) as [bs|] eqn:Eq; [|discriminate Hq]. injection Hq as <-.
      cbn [forallb] in Ho. apply andb_true_iff in Ho as [Ho1 Ho2]. cbn [List.concat] in Hf |- *.
      destruct (rt_elem _ _ _ _ _ _ _ Hw Ho1 Eb Hn (frame_split1 _ _ _ _ _ Hf)) as [r1 [x [Hd [Hx Hn1]]]].
      cbn [List.length deser_for andb]. rewrite Hd.
      destruct (IHe bs (x :: acc) (i + 1) n r1 d (p + zlen b) post Ho2 eq_refl Hn1 (frame_split2 _ _ _ _ _ Hf))
        as [r2 [xs [Hd2 [Hxs Hn2]]]].
      rewrite Hd2. exists r2, (x :: xs). cbn [rev map]. rewrite <- app_assoc. cbn [app].
      split; [reflexivity|]. split; [now rewrite Hx, Hxs|]. rewrite zlen_app, Z.add_assoc. exact Hn2.
  Qed.

  Lemma deser_while_done ty fl acc r : r_remaining r = 0 -> deser_while drec ty false fl acc r = (r, Ok (rev acc)).
  Proof. intros H. destruct fl; cbn [deser_while]; rewrite H; reflexivity. Qed.

  Lemma rt_while n : wcls n false = true -> progf n = true -> forall elems bodies fl acc r d p,
    forallb (obj_value vo (EStruct n) LNone false) elems = true ->
    sequence (map (fun e => enc_value erec (EStruct n) e None false 0 false) elems) = Some bodies ->
    nc r d p -> frame d p (List.concat bodies) [] -> zlen (List.concat bodies) <= Z.of_nat fl ->
    exists r' xs, deser_while drec (EStruct n) false fl acc r = (r', Ok (rev acc ++ xs)) /\
                  map strip_bs xs = elems /\ nc r' d (p + zlen (List.concat bodies)).
  Proof.
    intros Hw Hp. induction elems as [|e elems IHe]; intros bodies fl acc r d p Ho Hq Hn Hf Hfl; cbn [map sequence] in Hq.
    - injection Hq as <-. cbn [List.concat] in *. rewrite deser_while_done.
      + exists r, []. rewrite app_nil_r. change (zlen (@nil Z)) with 0. rewrite Z.add_0_r. split; [reflexivity|]. split; [reflexivity | exact Hn].
      + rewrite (nc_rem_frame _ _ _ _ _ Hn Hf). reflexivity.
    - destruct (enc_value erec (EStruct n) e None false 0 false) as [b|] eqn:Eb; [|discriminate Hq].
      destruct (sequence _) as [bs|] eqn:Eq; [|discriminate Hq]. injection Hq as <-.
      cbn [forallb] in Ho. apply andb_true_iff in Ho as [Ho1 Ho2]. cbn [List.concat] in Hf, Hfl |- *.
      assert (Hb : 0 < zlen b) by (cbn [enc_value] in Eb; apply (progress_enc _ _ _ _ _ _ Hp Eb)).
      rewrite zlen_app in Hfl. pose proof (zlen_nonneg (List.concat bs)) as Hbs.
      destruct fl as [|fl]; [lia|]. cbn [deser_while]. rewrite (nc_rem_frame _ _ _ _ _ Hn Hf), zlen_app.
      change (zlen (@nil Z)) with 0. destruct (zlen b + zlen (List.concat bs) + 0 >? 0) eqn:Q; [|lia].
      destruct (rt_elem (EStruct n) _ _ _ _ _ _ Hw Ho1 Eb Hn (frame_split1 _ _ _ _ _ Hf)) as [r1 [x [Hd [Hx Hn1]]]].
      rewrite Hd.
      destruct (IHe bs fl (x :: acc) r1 d (p + zlen b) Ho2 eq_refl Hn1 (frame_split2 _ _ _ _ _ Hf) ltac:(lia))
        as [r2 [xs [Hd2 [Hxs Hn2]]]].
      rewrite Hd2. exists r2, (x :: xs). cbn [rev map]. rewrite <- app_assoc. cbn [app].
      split; [reflexivity|]. split; [now rewrite Hx, Hxs|]. rewrite ?zlen_app, Z.add_assoc. exact Hn2.
  Qed.
  Local Notation finalb last t := (last && match t with [] => true | _ => false end).
  (* ---------------- the step invariant ---------------- *)
  Definition step_post (flds : list (string * value)) (start : Z) (t : list einstr) (last : bool) (pubs : list string)
      (i : einstr) (rmo_e' : bool) (o1 : list Z) (locals : list (string * value)) (r : rstate) (d : list Z) (p : Z) : Prop :=
    exists r1 locals1 lens1 pubs1 rmo_v1,
      deser_instr drec start i locals r = (r1, Ok locals1) /\ nc r1 d (p + zlen o1) /\
      wire_instrs sizef wcls progf last lens1 pubs1 t = true /\ obj_instrs vo flds t rmo_v1 = true /\
      (rmo_e' = true -> rmo_v1 = true) /\ lens_inv flds locals1 lens1 /\ pubs_inv flds locals1 pubs1 /\
      (forall n, In n (pub_names (i :: t) ++ pubs) -> In n (pub_names t ++ pubs1)).

  (* once an optional is absent, nothing more is written *)
  Lemma absent_tail flds : forall t last lens pubs rmo_e acc out,
    wire_instrs sizef wcls progf last lens pubs t = true -> only_optionals t = true ->
    obj_instrs vo flds t true = true -> enc_instrs erec flds t rmo_e false acc = Some out -> out = [].
  Proof.
    induction t as [|i t IHt]; intros last lens pubs rmo_e acc out W Hoo O He.
    - cbn [enc_instrs] in He. injection He as <-. reflexivity.
    - cbn [only_optionals forallb] in Hoo. apply andb_true_iff in Hoo as [Hi Hoo]. cbn [enc_instrs] in He.
      destruct (enc_instr erec flds i rmo_e false acc) as [[o1 rmo']|] eqn:Ei; [|discriminate He].
      destruct i as [f|f dl tr cnt|name t0 off opt of rb|ty lit g|fld cs|b|]; try discriminate Hi; cbn [is_optional_instr] in Hi;
        cbn [instr_mode] in He.
      + apply wire_field_inv in W as [Wn [_ [_ Wt]]]. destruct (f_name f) as [n|] eqn:Fn;
          [|destruct Wn as [Wn _]; congruence].
        destruct (obj_field_inv E fuel _ _ _ _ _ O Fn) as [v [Fa [_ [[_ [-> Ot]]|[Hopt _]]]]];
          [|destruct (Hopt Hi) as [Hx _]; discriminate Hx].
        cbn [enc_instr] in Ei. unfold enc_field in Ei. rewrite Fn, Fa, Hi in Ei. unfold opt_guard in Ei.
        cbn [is_none] in Ei. rewrite orb_true_r in Ei. cbn [negb] in Ei. injection Ei as <- <-.
        destruct (enc_instrs erec flds t true false (acc ++ [])) as [o'|] eqn:Et; [|discriminate He]. injection He as <-.
        cbn [app]. apply (IHt _ _ _ _ _ _ Wt Hoo Ot Et).
      + apply wire_array_inv in W as [-> [n [Fn [_ [_ [_ [_ Wt]]]]]]].
        destruct (obj_array_inv E fuel _ _ _ _ _ _ _ _ O Fn) as [[Fa [_ Ot]]|[elems [_ [Hopt _]]]];
          [|destruct (Hopt Hi) as [Hx _]; discriminate Hx].
        cbn [enc_instr] in Ei. unfold enc_array in Ei. rewrite Fn, Fa, Hi in Ei. unfold opt_guard in Ei.
        cbn [is_none] in Ei. rewrite orb_true_r in Ei. cbn [negb] in Ei. injection Ei as <- <-.
        destruct (enc_instrs erec flds t true false (acc ++ [])) as [o'|] eqn:Et; [|discriminate He]. injection He as <-.
        cbn [app]. apply (IHt _ _ _ _ _ _ Wt Hoo Ot Et).
  Qed.

  Lemma len_expr_ok flds f locals lens n v : assoc flds n = Some v -> valid_len f v = true ->
    (forall l, f_len f = LRef l -> ref_ok l n lens = true) -> lens_inv flds locals lens ->
    len_expr f locals = Ok (field_len f v) /\ (f_len f = LNone <-> field_len f v = None).
  Proof.
    intros Fa Hvl Href Li. unfold len_expr, field_len, valid_len in *. destruct (f_len f) as [|k|l].
    - split; [reflexivity | split; reflexivity].
    - split; [reflexivity | split; discriminate].
    - specialize (Href l eq_refl). apply ref_ok_In in Href. destruct (Li _ _ Href) as [fv [len [H1 [H2 H3]]]].
      rewrite Fa in H1. injection H1 as <-. rewrite H3, H2. split; [reflexivity | split; discriminate].
  Qed.

  Lemma in_pubs_cons n k (a b : list string) : In k ((n :: a) ++ b) -> In k (a ++ n :: b).
  Proof. cbn [app In]. rewrite !in_app_iff. cbn [In]. tauto. Qed.

  (* ---------------- fields ---------------- *)
  Lemma rt_step_field flds start f t last lens pubs rmo_e rmo_v acc o1 rmo_e' o2 locals r d p post :
    wire_instrs sizef wcls progf last lens pubs (EField f :: t) = true ->
    obj_instrs vo flds (EField f :: t) rmo_v = true ->
    enc_instr erec flds (EField f) rmo_e false acc = Some (o1, rmo_e') ->
    enc_instrs erec flds t rmo_e' false (acc ++ o1) = Some o2 ->
    (rmo_e = true -> rmo_v = true) -> (last = true -> post = []) ->
    nc r d p -> frame d p (o1 ++ o2) post -> lens_inv flds locals lens -> pubs_inv flds locals pubs ->
    step_post flds start t last pubs (EField f) rmo_e' o1 locals r d p.
  Proof.
    intros W O Ei Et Hrmo Hpost Hn Hf Li Pi. apply wire_field_inv in W as [Wn [Wo [Wty Wt]]].
    cbn [enc_instr] in Ei. unfold enc_field in Ei. unfold step_post. cbn [pub_names pub_name].
    destruct (f_name f) as [n|] eqn:Fn.
    - destruct Wn as [Wfr Wref]. apply pub_fresh_spec in Wfr as [Wbs Wfr].
      destruct (obj_field_inv E fuel _ _ _ _ _ O Fn) as [v [Fa [Hh [[Fo [-> Ot]]|[Hopt [Hvl [Hov [Ot Hnn]]]]]]]]; rewrite Fa in Ei.
      + (* an absent optional *)
        destruct (Wo Fo) as [Hl [Hoo Hne]]. rewrite Fo in Ei. unfold opt_guard in Ei. cbn [is_none] in Ei.
        rewrite orb_true_r in Ei. cbn [negb] in Ei. injection Ei as <- <-.
        pose proof (absent_tail _ _ _ _ _ _ _ _ Wt Hoo Ot Et) as ->. rewrite (Hpost Hl) in Hf. cbn [app] in Hf.
        exists r, (locals ++ [(n, VNone)]), lens, (n :: pubs), true.
        cbn [deser_instr]. rewrite Fo, (nc_rem_frame _ _ _ _ _ Hn Hf), Fn. change (zlen (@nil Z)) with 0. rewrite !Z.add_0_r.
        split; [reflexivity|]. split; [exact Hn|]. split; [exact Wt|]. split; [exact Ot|]. split; [reflexivity|].
        split; [apply (lens_inv_bind _ _ _ _ _ _ Wfr Li)|]. split; [apply (pubs_inv_bind _ _ _ _ _ VNone _ Wfr Pi Fa eq_refl)|].
        intros k. apply in_pubs_cons.
      + (* a value is written *)
        assert (Hcore : enc_value erec (f_ty f) v (field_len f v) (f_padded f) 0 false = Some o1 /\
                        (rmo_e' = true -> rmo_v = true) /\ (f_optional f = true -> 0 < zlen o1)).
        { unfold opt_guard in Ei. rewrite Hnn, !andb_false_r, orb_false_r in Ei. destruct (f_optional f) eqn:Fo.
          - destruct (Hopt eq_refl) as [Hrv Hne]. destruct (Wo eq_refl) as [_ [_ Hnt]].
            assert (Hre : rmo_e = false) by (destruct rmo_e; [rewrite (Hrmo eq_refl) in Hrv; discriminate Hrv | reflexivity]).
            rewrite Hre in Ei. assert (Hb : (if f_opt_first f then false else false) = false) by (destruct (f_opt_first f); reflexivity).
            rewrite Hb in Ei. cbn [negb] in Ei. dm Ei; [|discriminate Ei]. dm Ei; [|discriminate Ei]. injection Ei as <- <-.
            split; [reflexivity|]. split; [discriminate|]. intros _. apply (nonempty_enc _ _ _ _ _ _ Hne Hov Hnt Q0).
          - cbn [negb] in Ei. dm Ei; [|discriminate Ei]. dm Ei; [|discriminate Ei]. injection Ei as <- <-.
            split; [reflexivity|]. split; [exact Hrmo | discriminate]. }
        destruct Hcore as [Ev [Hrmo' Hpos]].
        destruct (len_expr_ok _ _ _ _ _ _ Fa Hvl Wref Li) as [Hle Hlen].
        assert (Hfin : finalb last t = true -> o2 ++ post = []) by (intros Hfb; apply (final_post E fuel _ _ _ _ _ _ _ Hfb Et Hpost)).
        destruct (rt_value (f_ty f) (f_len f) (field_len f v) (f_padded f) (finalb last t) v o1 r d p (o2 ++ post)
                    Wty Hlen Hov Ev Hfin Hn (frame_split1 _ _ _ _ _ Hf)) as [r1 [x [Hd [Hx Hn1]]]].
        exists r1, (locals ++ [(n, x)]), lens, (n :: pubs), rmo_v.
        cbn [deser_instr]. rewrite Fn, Hle, Hd.
        assert (Hrem : f_optional f && negb (r_remaining r >? 0) = false).
        { destruct (f_optional f); [|reflexivity]. specialize (Hpos eq_refl). rewrite (nc_rem_frame _ _ _ _ _ Hn Hf), zlen_app.
          pose proof (zlen_nonneg o2). pose proof (zlen_nonneg post). cbn [andb]. apply negb_false_iff. lia. }
        rewrite Hrem. split; [reflexivity|]. split; [exact Hn1|]. split; [exact Wt|]. split; [exact Ot|]. split; [exact Hrmo'|].
        split; [apply (lens_inv_bind _ _ _ _ _ _ Wfr Li)|]. split; [apply (pubs_inv_bind _ _ _ _ _ _ _ Wfr Pi Fa Hx)|].
        intros k. apply in_pubs_cons.
    - (* an unnamed hardcoded field *)
      destruct Wn as [Fo [Wnr [lit [Fh Hlit]]]]. cbn [obj_instrs] in O. rewrite Fn in O. rewrite Fh in Ei.
      unfold lit_enc_ok in Hlit. destruct (lit_value (f_ty f) lit) as [lv|] eqn:Elv; [|discriminate Hlit].
      destruct (enc_value erec (f_ty f) lv _ (f_padded f) 0 false) as [ob|] eqn:Q; [|discriminate Ei]. injection Ei as -> ->.
      assert (Hty : match f_ty f with EInt _ | EBool _ | EEnum _ _ | EStr _ => True | _ => False end).
      { destruct (f_ty f); try exact I; cbn [lit_value] in Elv; discriminate Elv. }
      assert (Hfin : finalb last t = true -> o2 ++ post = []) by (intros Hfb; apply (final_post E fuel _ _ _ _ _ _ _ Hfb Et Hpost)).
      assert (Hle : len_expr f locals = Ok (match f_len f with LLit n => Some n | _ => None end)).
      { unfold len_expr. destruct (f_len f) as [|k|l0] eqn:Fl; try reflexivity. exfalso. apply (Wnr l0). reflexivity. }
      destruct (skip_value (f_ty f) _ (f_padded f) lv o1 r d p (o2 ++ post) Hty Q) as [r1 [x [Hd Hn1]]].
      + intros Hnone. destruct (f_ty f) eqn:Ft; try exact I. apply Hfin. destruct Wty as [Wty|Wty]; [|exact Wty].
        cbn [closed_ty] in Wty. destruct (f_len f); [discriminate Wty | discriminate Hnone | exfalso; exact (Wnr _ eq_refl)].
      + exact Hn.
      + apply (frame_split1 _ _ _ _ _ Hf).
      + exists r1, locals, lens, pubs, rmo_v. cbn [deser_instr]. rewrite Fo, Hle, Hd, Fn. cbn [andb].
        split; [reflexivity|]. split; [exact Hn1|]. split; [exact Wt|]. split; [exact O|]. split; [exact Hrmo|].
        split; [exact Li|]. split; [exact Pi|]. intros k Hk. exact Hk.
  Qed.

  (* ---------------- arrays ---------------- *)
  Lemma elem_nonempty ty e b : elem_wire E fuel ty -> nonempty_ty sizef progf ty = true ->
    enc_value erec ty e None false 0 false = Some b -> 0 < zlen b.
  Proof.
    intros Hw Hne Eb. destruct ty as [t|t|en t|enc| |n]; try (apply (enc_value_scalar_pos _ _ _ _ _ _ Eb eq_refl)).
    - discriminate Hw.
    - discriminate Hw.
    - cbn [nonempty_ty enc_value] in *. apply orb_true_iff in Hne as [Hne|Hne].
      + apply (progress_enc _ _ _ _ _ _ Hne Eb).
      + destruct (sizef n) as [s|] eqn:Es; [|discriminate Hne]. rewrite (size_of_enc _ _ _ _ _ _ _ Es Eb). lia.
  Qed.

  Lemma rt_step_array flds start f dl tr cnt t last lens pubs rmo_e rmo_v acc o1 rmo_e' o2 locals r d p post :
    wire_instrs sizef wcls progf last lens pubs (EArray f dl tr cnt :: t) = true ->
    obj_instrs vo flds (EArray f dl tr cnt :: t) rmo_v = true ->
    enc_instr erec flds (EArray f dl tr cnt) rmo_e false acc = Some (o1, rmo_e') ->
    enc_instrs erec flds t rmo_e' false (acc ++ o1) = Some o2 ->
    (rmo_e = true -> rmo_v = true) -> (last = true -> post = []) ->
    nc r d p -> frame d p (o1 ++ o2) post -> lens_inv flds locals lens -> pubs_inv flds locals pubs ->
    step_post flds start t last pubs (EArray f dl tr cnt) rmo_e' o1 locals r d p.
  Proof.
    intros W O Ei Et Hrmo Hpost Hn Hf Li Pi.
    pose proof W as W0. apply wire_array_inv in W as [-> [n [Fn [Wfr [Wo [Wel [Wc Wt]]]]]]].
    apply pub_fresh_spec in Wfr as [Wbs Wfr].
    cbn [enc_instr] in Ei. unfold enc_array in Ei. rewrite Fn in Ei. unfold step_post. cbn [pub_names pub_name]. rewrite Fn.
    destruct (obj_array_inv E fuel _ _ _ _ _ _ _ _ O Fn) as [[Fa [Fo Ot]]|[elems [Fa [Hopt [Hvl [Hlit [Hov Ot]]]]]]]; rewrite Fa in Ei.
    - (* an absent optional *)
      destruct (Wo Fo) as [Hl [Hoo Hne]]. rewrite Fo in Ei. unfold opt_guard in Ei. cbn [is_none] in Ei.
      rewrite orb_true_r in Ei. cbn [negb] in Ei. injection Ei as <- <-.
      pose proof (absent_tail _ _ _ _ _ _ _ _ Wt Hoo Ot Et) as ->. rewrite (Hpost Hl) in Hf. cbn [app] in Hf.
      exists r, (locals ++ [(n, VNone)]), lens, (n :: pubs), true.
      cbn [deser_instr]. rewrite Fn, Fo, (nc_rem_frame _ _ _ _ _ Hn Hf). change (zlen (@nil Z)) with 0. rewrite !Z.add_0_r.
      split; [reflexivity|]. split; [exact Hn|]. split; [exact Wt|]. split; [exact Ot|]. split; [reflexivity|].
      split; [apply (lens_inv_bind _ _ _ _ _ _ Wfr Li)|]. split; [apply (pubs_inv_bind _ _ _ _ _ VNone _ Wfr Pi Fa eq_refl)|].
      intros k. apply in_pubs_cons.
    - (* the elements are written *)
      assert (Hcore : exists bodies, sequence (map (fun e => enc_value erec (f_ty f) e None false 0 false) elems) = Some bodies /\
                        o1 = List.concat bodies /\ (rmo_e' = true -> rmo_v = true) /\ (f_optional f = true -> 0 < zlen o1)).
      { unfold opt_guard in Ei. cbn [is_none] in Ei. rewrite orb_false_r in Ei. unfold enc_elems in Ei.
        assert (Hpos : forall bodies, f_optional f = true ->
                  sequence (map (fun e => enc_value erec (f_ty f) e None false 0 false) elems) = Some bodies ->
                  0 < zlen (List.concat bodies)).
        { intros bodies Fo Hq. destruct (Hopt Fo) as [_ Hz]. destruct (Wo Fo) as [_ [_ Hnt]].
          destruct elems as [|e elems]; [exfalso; apply Hz; reflexivity|]. cbn [map sequence] in Hq.
          destruct (enc_value erec (f_ty f) e None false 0 false) as [b|] eqn:Eb; [|discriminate Hq].
          destruct (sequence (map _ elems)) as [bs|]; [|discriminate Hq]. injection Hq as <-. cbn [List.concat]. rewrite zlen_app.
          pose proof (elem_nonempty _ _ _ Wel Hnt Eb). pose proof (zlen_nonneg (List.concat bs)). lia. }
        destruct (f_optional f) eqn:Fo.
        - destruct (Hopt eq_refl) as [Hrv Hz].
          assert (Hre : rmo_e = false) by (destruct rmo_e; [rewrite (Hrmo eq_refl) in Hrv; discriminate Hrv | reflexivity]).
          rewrite Hre in Ei. assert (Hb : (if f_opt_first f then false else false) = false) by (destruct (f_opt_first f); reflexivity).
          rewrite Hb in Ei. cbn [negb] in Ei. dm Ei; [|discriminate Ei].
          destruct (sequence _) as [bodies|] eqn:Hq; [|discriminate Ei]. injection Ei as <- <-. cbn [join_elems].
          exists bodies. split; [reflexivity|]. split; [reflexivity|]. split; [discriminate|]. intros _. apply (Hpos _ eq_refl eq_refl).
        - cbn [negb] in Ei. dm Ei; [|discriminate Ei].
          destruct (sequence _) as [bodies|] eqn:Hq; [|discriminate Ei]. injection Ei as <- <-. cbn [join_elems].
          exists bodies. split; [reflexivity|]. split; [reflexivity|]. split; [exact Hrmo | discriminate]. }
      destruct Hcore as [bodies [Hq [-> [Hrmo' Hpos]]]].
      assert (Hrem : f_optional f && negb (r_remaining r >? 0) = false).
      { destruct (f_optional f); [|reflexivity]. specialize (Hpos eq_refl). rewrite (nc_rem_frame _ _ _ _ _ Hn Hf), zlen_app.
        pose proof (zlen_nonneg o2). pose proof (zlen_nonneg post). cbn [andb]. apply negb_false_iff. lia. }
      assert (Hlenid : Z.to_nat (zlen elems) = List.length elems) by (unfold zlen; apply Nat2Z.id).
      (* every way of finding the count comes down to the same loop *)
      assert (Hloop : exists r1 xs,
                match cnt with
                | ACExpr =>
                  match len_expr f locals with
                  | Ok (Some n) => deser_for drec (f_ty f) false tr (Z.to_nat n) 0 n [] r
                  | Ok None => (r, Err EUnexpected)
                  | Err e => (r, Err e)
                  end
                | ACRemaining size =>
                  if size =? 0 then (r, Err EUnexpected) else
                  deser_for drec (f_ty f) false tr (Z.to_nat (truediv_int (r_remaining r) size)) 0 (truediv_int (r_remaining r) size) [] r
                | ACWhile => deser_while drec (f_ty f) false (S (List.length (rdata r))) [] r
                end = (r1, Ok xs) /\ map strip_bs xs = elems /\ nc r1 d (p + zlen (List.concat bodies))).
      { destruct cnt as [|sz|].
        - assert (Hle : len_expr f locals = Ok (Some (zlen elems))).
          { unfold len_expr. destruct (f_len f) as [|k|l] eqn:Fl; [destruct Wc | rewrite (Hlit k eq_refl); reflexivity |].
            apply ref_ok_In in Wc. destruct (Li _ _ Wc) as [fv [len [H1 [H2 H3]]]]. rewrite Fa in H1. injection H1 as <-.
            cbn [py_len] in H2. injection H2 as <-. rewrite H3. reflexivity. }
          rewrite Hle, Hlenid.
          destruct (rt_for _ tr Wel elems bodies [] 0 (zlen elems) r d p (o2 ++ post) Hov Hq Hn (frame_split1 _ _ _ _ _ Hf))
            as [r1 [xs [Hd [Hxs Hn1]]]]. exists r1, xs. cbn [rev app] in Hd. auto.
        - destruct Wc as [Hfb [Hsz Hes]]. pose proof (final_post E fuel _ _ _ _ _ _ _ Hfb Et Hpost) as Hnil.
          destruct (sz =? 0) eqn:Qz; [lia|]. cbv zeta.
          rewrite (nc_rem_frame _ _ _ _ _ Hn (frame_split1 _ _ _ _ _ Hf)), Hnil. change (zlen (@nil Z)) with 0.
          unfold elem_size in Hes.
          pose proof (enc_elems_size _ _ (fun a b c d0 H1 H2 => size_of_enc _ _ _ _ _ _ _ H1 H2) _ _ Hes _ _ Hq) as Hcz.
          rewrite Hcz. unfold truediv_int. rewrite Z.add_0_r, Z.quot_mul by lia. rewrite Hlenid.
          destruct (rt_for _ tr Wel elems bodies [] 0 (zlen elems) r d p (o2 ++ post) Hov Hq Hn (frame_split1 _ _ _ _ _ Hf))
            as [r1 [xs [Hd [Hxs Hn1]]]]. exists r1, xs. cbn [rev app] in Hd. rewrite <- Hcz. auto.
        - destruct Wc as [Hfb [cn [Hty Hpr]]]. pose proof (final_post E fuel _ _ _ _ _ _ _ Hfb Et Hpost) as Hnil.
          rewrite Hty in *. unfold elem_wire in Wel. pose proof (frame_split1 _ _ _ _ _ Hf) as Hf1. rewrite Hnil in Hf1.
          destruct (rt_while cn Wel Hpr elems bodies (S (List.length (rdata r))) [] r d p Hov Hq Hn Hf1) as [r1 [xs [Hd [Hxs Hn1]]]].
          + pose proof (frame_len _ _ _ _ Hf1) as Hfl. destruct Hn as [Hrd [Hrp _]]. rewrite Hrd.
            destruct Hf1 as [pre [_ Hpp]]. pose proof (zlen_nonneg pre). change (zlen (@nil Z)) with 0 in Hfl. unfold zlen in *. lia.
          + exists r1, xs. cbn [rev app] in Hd. auto. }
      destruct Hloop as [r1 [xs [Hd [Hxs Hn1]]]].
      exists r1, (locals ++ [(n, VList xs)]), lens, (n :: pubs), rmo_v.
      cbn [deser_instr]. rewrite Fn, Hrem, Hd.
      split; [reflexivity|]. split; [exact Hn1|]. split; [exact Wt|]. split; [exact Ot|]. split; [exact Hrmo'|].
      split; [apply (lens_inv_bind _ _ _ _ _ _ Wfr Li)|].
      split; [apply (pubs_inv_bind _ _ _ _ _ (VList xs) _ Wfr Pi Fa); cbn [strip_bs]; now rewrite Hxs|].
      intros k. apply in_pubs_cons.
  Qed.

  (* ---------------- length fields ---------------- *)
  Lemma rt_step_length flds start name lt off opt of rb t last lens pubs rmo_e rmo_v acc o1 rmo_e' o2 locals r d p post :
    wire_instrs sizef wcls progf last lens pubs (ELength name lt off opt of rb :: t) = true ->
    obj_instrs vo flds (ELength name lt off opt of rb :: t) rmo_v = true ->
    enc_instr erec flds (ELength name lt off opt of rb) rmo_e false acc = Some (o1, rmo_e') ->
    enc_instrs erec flds t rmo_e' false (acc ++ o1) = Some o2 ->
    (rmo_e = true -> rmo_v = true) -> (last = true -> post = []) ->
    nc r d p -> frame d p (o1 ++ o2) post -> lens_inv flds locals lens -> pubs_inv flds locals pubs ->
    step_post flds start t last pubs (ELength name lt off opt of rb) rmo_e' o1 locals r d p.
  Proof.
    intros W O Ei Et Hrmo Hpost Hn Hf Li Pi. cbn [wire_instrs] in W.
    apply andb_true_iff in W as [W Wt]. apply andb_true_iff in W as [Wopt Wfr].
    destruct opt; [discriminate Wopt|]. destruct rb as [fr|]; [|discriminate Wt].
    cbn [obj_instrs] in O. apply andb_true_iff in O as [O Ot].
    destruct (assoc flds fr) as [fv|] eqn:Fa; [|discriminate O]. destruct (py_len fv) as [l|] eqn:Fl; [|discriminate O].
    cbn [enc_instr] in Ei. rewrite Fa in Ei. unfold length_slot in Ei. rewrite Fl in Ei. rewrite opt_guard_required in Ei.
    cbn [negb] in Ei. destruct (enc_int lt (l - off)) as [ob|] eqn:Eb; [|discriminate Ei]. injection Ei as -> ->.
    assert (Hz : 0 <= l - off <= itype_max lt) by lia.
    unfold step_post. exists (r_set_pos r (p + zlen o1)), (locals ++ [(name, VInt l)]), ((name, fr) :: lens), pubs, rmo_v.
    cbn [deser_instr andb]. rewrite (nc_get_int_of lt _ _ _ _ _ Hn (frame_split1 _ _ _ _ _ Hf) (enc_int_size _ _ _ Eb)).
    rewrite (int_dec_enc _ _ _ Hz Eb). replace (l - off + off) with l by lia.
    split; [reflexivity|]. split; [apply (nc_set_pos _ _ _ _ Hn)|]. split; [exact Wt|]. split; [exact Ot|]. split; [exact Hrmo|].
    split; [apply (lens_inv_len _ _ _ _ _ _ _ _ Wfr Li Fa Fl)|]. split; [apply (pubs_inv_keep _ _ _ _ _ _ Wfr Pi)|].
    intros k Hk. exact Hk.
  Qed.

  (* ---------------- switches ---------------- *)
  Lemma is_none_spec v : is_none v = true -> v = VNone.
  Proof. destruct v; try discriminate; reflexivity. Qed.

  Lemma rt_step_switch flds start fld cases t last lens pubs rmo_e rmo_v acc o1 rmo_e' o2 locals r d p post :
    wire_instrs sizef wcls progf last lens pubs (ESwitch fld cases :: t) = true ->
    obj_instrs vo flds (ESwitch fld cases :: t) rmo_v = true ->
    enc_instr erec flds (ESwitch fld cases) rmo_e false acc = Some (o1, rmo_e') ->
    enc_instrs erec flds t rmo_e' false (acc ++ o1) = Some o2 ->
    (rmo_e = true -> rmo_v = true) -> (last = true -> post = []) ->
    nc r d p -> frame d p (o1 ++ o2) post -> lens_inv flds locals lens -> pubs_inv flds locals pubs ->
    step_post flds start t last pubs (ESwitch fld cases) rmo_e' o1 locals r d p.
  Proof.
    intros W O Ei Et Hrmo Hpost Hn Hf Li Pi. cbn [wire_instrs] in W.
    apply andb_true_iff in W as [W Wt]. apply andb_true_iff in W as [W Wc]. apply andb_true_iff in W as [Wm Wfr].
    apply pub_fresh_spec in Wfr as [Wbs Wfr]. apply mem_str_In in Wm.
    cbn [obj_instrs] in O. apply andb_true_iff in O as [O Ot].
    destruct (assoc flds fld) as [fv|] eqn:Fa; [|discriminate O]. destruct fv as [|z| | | | |]; try discriminate O.
    destruct (assoc flds (fld ++ "_data")) as [dv|] eqn:Fd; [|discriminate O].
    cbn [enc_instr] in Ei. rewrite Fa, Fd in Ei.
    destruct (Pi _ Wm) as [x [v' [Hx1 [Hx2 Hx3]]]]. rewrite Fa in Hx2. injection Hx2 as <-. apply strip_bs_int in Hx3. subst x.
    unfold step_post. cbn [pub_names pub_name]. cbn [deser_instr]. rewrite Hx1.
    assert (Hnone : is_none dv = true -> (if is_none dv then Some (@nil Z, rmo_e) else None) = Some (o1, rmo_e') ->
              exists (r1 : rstate) (locals1 : list (string * value)) (lens1 : list (string * string)) (pubs1 : list string) (rmo_v1 : bool),
                (r, Ok (locals ++ [((fld ++ "_data")%string, VNone)])) = (r1, Ok locals1) /\ nc r1 d (p + zlen o1) /\
                wire_instrs sizef wcls progf last lens1 pubs1 t = true /\ obj_instrs vo flds t rmo_v1 = true /\
                (rmo_e' = true -> rmo_v1 = true) /\ lens_inv flds locals1 lens1 /\ pubs_inv flds locals1 pubs1 /\
                (forall n, In n (((fld ++ "_data")%string :: pub_names t) ++ pubs) -> In n (pub_names t ++ pubs1))).
    { intros Hdn Hei. rewrite Hdn in Hei. injection Hei as <- <-. apply is_none_spec in Hdn. subst dv.
      exists r, (locals ++ [((fld ++ "_data")%string, VNone)]), lens, ((fld ++ "_data")%string :: pubs), rmo_v.
      change (zlen (@nil Z)) with 0. rewrite Z.add_0_r.
      split; [reflexivity|]. split; [exact Hn|]. split; [exact Wt|]. split; [exact Ot|]. split; [exact Hrmo|].
      split; [apply (lens_inv_bind _ _ _ _ _ _ Wfr Li)|]. split; [apply (pubs_inv_bind _ _ _ _ _ VNone _ Wfr Pi Fd eq_refl)|].
      intros k. apply in_pubs_cons. }
    destruct (find_case cases (Some z)) as [c|] eqn:Fc; [|apply (Hnone O Ei)].
    destruct (c_cls c) as [cls|] eqn:Cc; [|apply (Hnone O Ei)].
    destruct (obj_class dv) as [c'|] eqn:Oc; [|discriminate O]. apply andb_true_iff in O as [Oeq Ov]. rewrite Oeq in Ei.
    destruct (erec cls dv false) as [ob|] eqn:Eb; [|discriminate Ei]. injection Ei as -> ->.
    assert (Wcls : wcls cls (finalb last t) = true).
    { rewrite forallb_forall in Wc. specialize (Wc c (find_case_In' _ _ _ Fc)). rewrite Cc in Wc. exact Wc. }
    assert (Hfin : finalb last t = true -> o2 ++ post = []) by (intros Hfb; apply (final_post E fuel _ _ _ _ _ _ _ Hfb Et Hpost)).
    destruct (IH _ _ _ _ _ _ _ _ Wcls Ov Eb Hfin Hn (frame_split1 _ _ _ _ _ Hf)) as [r1 [x [Hd [Hx Hn1]]]]. rewrite Hd.
    exists r1, (locals ++ [((fld ++ "_data")%string, x)]), lens, ((fld ++ "_data")%string :: pubs), rmo_v.
    split; [reflexivity|]. split; [exact Hn1|]. split; [exact Wt|]. split; [exact Ot|]. split; [exact Hrmo|].
    split; [apply (lens_inv_bind _ _ _ _ _ _ Wfr Li)|]. split; [apply (pubs_inv_bind _ _ _ _ _ _ _ Wfr Pi Fd Hx)|].
    intros k. apply in_pubs_cons.
  Qed.

  (* ---------------- an instruction list ---------------- *)
  Lemma rt_instrs flds start : forall is last lens pubs rmo_e rmo_v acc out locals r d p post,
    wire_instrs sizef wcls progf last lens pubs is = true ->
    obj_instrs vo flds is rmo_v = true ->
    enc_instrs erec flds is rmo_e false acc = Some out ->
    (rmo_e = true -> rmo_v = true) -> (last = true -> post = []) ->
    nc r d p -> frame d p out post -> lens_inv flds locals lens -> pubs_inv flds locals pubs ->
    exists r' locals', deser_instrs drec start is locals r = (r', Ok locals') /\ nc r' d (p + zlen out) /\
                       pubs_inv flds locals' (pub_names is ++ pubs).
  Proof.
    induction is as [|i t IHt]; intros last lens pubs rmo_e rmo_v acc out locals r d p post W O He Hrmo Hpost Hn Hf Li Pi.
    - cbn [enc_instrs] in He. injection He as <-. exists r, locals. cbn [deser_instrs pub_names app].
      change (zlen (@nil Z)) with 0. rewrite Z.add_0_r. auto.
    - cbn [enc_instrs] in He. destruct (enc_instr erec flds i rmo_e false acc) as [[o1 rmo_e']|] eqn:Ei; [|discriminate He].
      assert (Hm : instr_mode i false = false) by (destruct i; try reflexivity; discriminate W). rewrite Hm in He.
      destruct (enc_instrs erec flds t rmo_e' false (acc ++ o1)) as [o2|] eqn:Et; [|discriminate He]. injection He as <-.
      assert (Hstep : step_post flds start t last pubs i rmo_e' o1 locals r d p).
      { destruct i as [f|f dl tr cnt|name lt off opt of rb|ty lit g|fld cs|b|]; try discriminate W.
        - apply (rt_step_field _ _ _ _ _ _ _ _ _ _ _ _ _ _ _ _ _ _ W O Ei Et Hrmo Hpost Hn Hf Li Pi).
        - apply (rt_step_array _ _ _ _ _ _ _ _ _ _ _ _ _ _ _ _ _ _ _ _ _ W O Ei Et Hrmo Hpost Hn Hf Li Pi).
        - apply (rt_step_length _ _ _ _ _ _ _ _ _ _ _ _ _ _ _ _ _ _ _ _ _ _ _ W O Ei Et Hrmo Hpost Hn Hf Li Pi).
        - apply (rt_step_switch _ _ _ _ _ _ _ _ _ _ _ _ _ _ _ _ _ _ _ W O Ei Et Hrmo Hpost Hn Hf Li Pi). }
      destruct Hstep as [r1 [locals1 [lens1 [pubs1 [rmo_v1 [Hd [Hn1 [Wt [Ot [Hrmo1 [Li1 [Pi1 Hincl]]]]]]]]]]]].
      destruct (IHt last lens1 pubs1 rmo_e' rmo_v1 (acc ++ o1) o2 locals1 r1 d (p + zlen o1) post Wt Ot Et Hrmo1 Hpost Hn1
                    (frame_split2 _ _ _ _ _ Hf) Li1 Pi1) as [r2 [locals2 [Hd2 [Hn2 Pi2]]]].
      exists r2, locals2. cbn [deser_instrs]. rewrite Hd, Hd2. split; [reflexivity|].
      split; [rewrite zlen_app, Z.add_assoc; exact Hn2|]. intros k Hk. apply Pi2. apply Hincl. exact Hk.
  Qed.

  (* ---------------- rebuilding the object ---------------- *)
  Lemma obj_instrs_tail flds i t rmo : obj_instrs vo flds (i :: t) rmo = true -> exists rmo', obj_instrs vo flds t rmo' = true.
  Proof.
    intros O. destruct i as [f|f dl tr cnt|name lt off opt of rb|ty lit g|fld cs|b|]; try (exists rmo; exact O).
    - destruct (f_name f) as [n|] eqn:Fn.
      + destruct (obj_field_inv E fuel _ _ _ _ _ O Fn) as [v [_ [_ [[_ [_ Ot]]|[_ [_ [_ [Ot _]]]]]]]]; eauto.
      + cbn [obj_instrs] in O. rewrite Fn in O. eauto.
    - destruct (f_name f) as [n|] eqn:Fn.
      + destruct (obj_array_inv E fuel _ _ _ _ _ _ _ _ O Fn) as [[_ [_ Ot]]|[elems [_ [_ [_ [_ [_ Ot]]]]]]]; eauto.
      + cbn [obj_instrs] in O. rewrite Fn in O. discriminate O.
    - cbn [obj_instrs] in O. apply andb_true_iff in O as [_ Ot]. eauto.
    - cbn [obj_instrs] in O. apply andb_true_iff in O as [_ Ot]. eauto.
  Qed.

  Lemma lit_eqb_eq v lv : lit_eqb v lv = true -> v = lv /\ strip_bs v = v.
  Proof.
    destruct v, lv; cbn [lit_eqb]; try discriminate; intros H.
    - apply Z.eqb_eq in H. subst. auto.
    - apply Bool.eqb_prop in H. subst. auto.
    - apply list_eqb_eq in H. subst. auto.
  Qed.

  Lemma build_strip flds locals : forall t fsuf rmo,
    obj_instrs vo flds t rmo = true -> map fst fsuf = pub_names t ->
    (forall k v, In (k, v) fsuf -> k <> "byte_size"%string /\ assoc flds k = Some v /\
                                   exists x, assoc_last locals k None = Some x /\ strip_bs x = v) ->
    exists fl, build_fields t locals = Ok fl /\ strip_fields fl = fsuf /\ map fst fl = map fst fsuf.
  Proof.
    induction t as [|i t IHt]; intros fsuf rmo O Hm Hall.
    - cbn [pub_names] in Hm. destruct fsuf; [|discriminate Hm]. exists []. auto.
    - destruct (obj_instrs_tail _ _ _ _ O) as [rmo' Ot]. cbn [pub_names] in Hm. cbn [build_fields].
      (* an instruction that publishes name n, whose built value is y *)
      assert (Hpub : forall n (g : list (string * value) -> res (list (string * value))),
                pub_name i = Some n ->
                (forall v, assoc flds n = Some v -> (exists x, assoc_last locals n None = Some x /\ strip_bs x = v) ->
                           exists y, (forall rest, g rest = Ok ((n, y) :: rest)) /\ strip_bs y = v) ->
                exists fl, rbind (build_fields t locals) g = Ok fl /\ strip_fields fl = fsuf /\ map fst fl = map fst fsuf).
      { intros n g Hn Hg. rewrite Hn in Hm. destruct fsuf as [|[k v] fsuf]; [discriminate Hm|]. cbn [map fst] in Hm.
        injection Hm as -> Hm. destruct (Hall n v (or_introl eq_refl)) as [Hbs [Ha Hx]].
        destruct (IHt fsuf rmo' Ot Hm (fun k' v' Hin => Hall k' v' (or_intror Hin))) as [fl [Hb [Hs Hf]]].
        destruct (Hg v Ha Hx) as [y [Hy Hsy]]. rewrite Hb. cbn [rbind]. rewrite Hy. exists ((n, y) :: fl).
        split; [reflexivity|]. cbn [strip_fields map fst]. apply String.eqb_neq in Hbs. rewrite Hbs, Hsy, Hs, Hf. auto. }
      assert (Hnop : pub_name i = None -> forall g, (forall rest, g rest = Ok rest) ->
                exists fl, rbind (build_fields t locals) g = Ok fl /\ strip_fields fl = fsuf /\ map fst fl = map fst fsuf).
      { intros Hn g Hg. rewrite Hn in Hm. destruct (IHt fsuf rmo' Ot Hm Hall) as [fl [Hb [Hs Hf]]].
        rewrite Hb. cbn [rbind]. rewrite Hg. eauto. }
      destruct i as [f|f dl tr cnt|name lt off opt of rb|ty lit g|fld cs|b|]; cbn [pub_name] in *;
        try (apply Hnop; [reflexivity | intros rest; reflexivity]).
      + destruct (f_name f) as [n|] eqn:Fn; [|apply Hnop; [reflexivity | intros rest; reflexivity]].
        apply (Hpub n); [reflexivity|]. intros v Ha [x [Hx1 Hx2]].
        destruct (obj_field_inv E fuel _ _ _ _ _ O Fn) as [v0 [Fa [Hh _]]]. rewrite Ha in Fa. injection Fa as <-.
        unfold hard_agrees in Hh. destruct (f_hard f) as [lit|].
        * destruct (lit_value (f_ty f) lit) as [lv|]; [|discriminate Hh]. apply lit_eqb_eq in Hh as [<- Hs].
          exists v. split; [intros rest; reflexivity | exact Hs].
        * exists x. rewrite Hx1. split; [intros rest; reflexivity | exact Hx2].
      + destruct (f_name f) as [n|] eqn:Fn; [|apply Hnop; [reflexivity | intros rest; reflexivity]].
        apply (Hpub n); [reflexivity|]. intros v Ha [x [Hx1 Hx2]]. exists x. rewrite Hx1.
        split; [intros rest; reflexivity | exact Hx2].
      + apply (Hpub (fld ++ "_data")%string); [reflexivity|]. intros v Ha [x [Hx1 Hx2]]. exists x. rewrite Hx1.
        split; [intros rest; reflexivity | exact Hx2].
  Qed.

  (* the public names of a wire-unambiguous body are distinct, new, and none is "byte_size" *)
  Lemma wire_names : forall is last lens pubs, wire_instrs sizef wcls progf last lens pubs is = true ->
    NoDup (pub_names is) /\ forall n, In n (pub_names is) -> n <> "byte_size"%string /\ ~ In n pubs.
  Proof.
    induction is as [|i t IHt]; intros last lens pubs W; cbn [pub_names].
    - split; [constructor | intros n []].
    - assert (Hpub : forall n, pub_name i = Some n -> pub_fresh n lens pubs = true ->
                (exists lens', wire_instrs sizef wcls progf last lens' (n :: pubs) t = true) ->
                NoDup (n :: pub_names t) /\ forall k, In k (n :: pub_names t) -> k <> "byte_size"%string /\ ~ In k pubs).
      { intros n _ Hfr [lens' Wt]. destruct (IHt _ _ _ Wt) as [ND Hall]. apply pub_fresh_spec in Hfr as [Hbs Hfr].
        apply fresh_spec in Hfr as [_ Hfr]. split.
        - constructor; [|exact ND]. intros Hin. destruct (Hall n Hin) as [_ Hx]. apply Hx. left. reflexivity.
        - intros k [<-|Hk]; [auto|]. destruct (Hall k Hk) as [H1 H2]. split; [exact H1|]. intros Hin. apply H2. right. exact Hin. }
      destruct i as [f|f dl tr cnt|name lt off opt of rb|ty lit g|fld cs|b|]; try discriminate W; cbn [pub_name] in *.
      + apply wire_field_inv in W as [Wn [_ [_ Wt]]]. destruct (f_name f) as [n|].
        * destruct Wn as [Wfr _]. apply (Hpub n eq_refl Wfr). eauto.
        * apply (IHt _ _ _ Wt).
      + apply wire_array_inv in W as [_ [n [Fn [Wfr [_ [_ [_ Wt]]]]]]]. rewrite Fn in *. apply (Hpub n eq_refl Wfr). eauto.
      + cbn [wire_instrs] in W. apply andb_true_iff in W as [_ Wt]. destruct rb as [fr|]; [|discriminate Wt]. apply (IHt _ _ _ Wt).
      + cbn [wire_instrs] in W. apply andb_true_iff in W as [W Wt]. apply andb_true_iff in W as [W _].
        apply andb_true_iff in W as [_ Wfr]. apply (Hpub _ eq_refl Wfr). eauto.
  Qed.

  (* ---------------- one class body ---------------- *)
  Lemma rt_body sd last c flds out r d p post :
    wire_body sizef wcls progf last (sd_body sd) = true ->
    map fst flds = pub_names (sd_body sd) -> obj_instrs vo flds (sd_body sd) false = true ->
    enc_body erec sd (VObj c flds) false = Some out -> (last = true -> post = []) ->
    nc r d p -> frame d p out post ->
    exists r' fl, deser_body drec sd r = (r', Ok (VObj (sd_name sd) (fl ++ [("byte_size"%string, VInt (zlen out))]))) /\
                  strip_fields fl = flds /\ ~ In "byte_size"%string (map fst fl) /\ nc r' d (p + zlen out).
  Proof.
    intros W Hm O He Hpost Hn Hf. unfold wire_body in W. unfold enc_body in He. unfold deser_body.
    destruct (Hn) as [Hrd [Hrp Hrc]]. rewrite Hrc, Hrp.
    destruct (sole_dummy (sd_body sd)) as [[ty lit]|] eqn:Sd.
    - apply sole_dummy_spec in Sd. rewrite Sd in *. cbn [pub_names pub_name] in Hm. destruct flds; [|discriminate Hm].
      apply enc_dummy_body in He as [lv [Hlv Ev]].
      assert (Hty : match ty with EInt _ | EBool _ | EEnum _ _ | EStr _ => True | _ => False end) by (destruct ty; try discriminate W; exact I).
      destruct (skip_value ty None false lv out r d p post Hty Ev) as [r1 [x [Hd Hn1]]];
        [intros _; destruct ty; try exact I; discriminate W | exact Hn | exact Hf |].
      cbn [deser_instrs deser_instr andb]. rewrite Hd. cbn [build_fields rbind].
      exists (r_set_chunked r1 false), []. destruct Hn1 as [H1 [H2 H3]]. rewrite H2. replace (p + zlen out - p) with (zlen out) by lia.
      split; [reflexivity|]. split; [reflexivity|]. split; [intros []|]. apply nc_set_chunked_false. unfold nc. auto.
    - destruct (rt_instrs flds p (sd_body sd) last [] [] false false [] out [] r d p post W O He (fun H => H) Hpost Hn Hf)
        as [r1 [locals1 [Hd [Hn1 Pi1]]]].
      + intros l fr [].
      + intros n [].
      + rewrite Hd. rewrite app_nil_r in Pi1. destruct (wire_names _ _ _ _ W) as [ND Hnames].
        destruct (build_strip flds locals1 (sd_body sd) flds false O Hm) as [fl [Hb [Hs Hf1]]].
        { intros k v Hin. assert (Hk : In k (pub_names (sd_body sd))).
          { rewrite <- Hm. apply in_map_iff. exists (k, v). split; [reflexivity | exact Hin]. }
          destruct (Hnames k Hk) as [Hbs _]. split; [exact Hbs|].
          assert (Ha : assoc flds k = Some v) by (apply assoc_nodup; [rewrite Hm; exact ND | exact Hin]).
          split; [exact Ha|]. destruct (Pi1 k Hk) as [x [v' [Hx1 [Hx2 Hx3]]]]. rewrite Ha in Hx2. injection Hx2 as <-. eauto. }
        rewrite Hb. cbn [rbind]. exists (r_set_chunked r1 false), fl. destruct Hn1 as [H1 [H2 H3]]. rewrite H2.
        replace (p + zlen out - p) with (zlen out) by lia.
        split; [reflexivity|]. split; [exact Hs|]. split.
        * rewrite Hf1, Hm. intros Hin. destruct (Hnames _ Hin) as [Hbs _]. apply Hbs. reflexivity.
        * apply nc_set_chunked_false. unfold nc. auto.
  Qed.
End Body.

(* ====================================================================================================== *)
(* 6. the knot: classes of any nesting depth                                                              *)
(* ====================================================================================================== *)
Theorem rt_struct E : forall fuel cls last v out r d p post,
  wire_class fuel E cls last = true -> valid_obj fuel E cls v = true -> enc_struct fuel E cls v false = Some out ->
  (last = true -> post = []) -> nc r d p -> frame d p out post ->
  exists r' v', deser_struct fuel E cls r = (r', Ok v') /\ strip_bs v' = v /\ nc r' d (p + zlen out) /\
                top_byte_size v' = Some (zlen out).
Proof.
  induction fuel as [|fuel IHf]; intros cls last v out r d p post W V He Hpost Hn Hf; [discriminate W|].
  cbn [wire_class valid_obj enc_struct deser_struct] in *.
  destruct (env_find E cls) as [sd|] eqn:Ef; [|discriminate W]. destruct v as [| | | | | |c flds]; try discriminate V.
  apply andb_true_iff in V as [V O]. apply andb_true_iff in V as [Vc Vm]. apply String.eqb_eq in Vc. apply strs_eqb_eq in Vm.
  assert (IH' : forall n last x out r d p post,
            wire_class fuel E n last = true -> valid_obj fuel E n x = true -> enc_struct fuel E n x false = Some out ->
            (last = true -> post = []) -> nc r d p -> frame d p out post ->
            exists r' x', deser_struct fuel E n r = (r', Ok x') /\ strip_bs x' = x /\ nc r' d (p + zlen out)).
  { intros n l x o r0 d0 p0 post0 H1 H2 H3 H4 H5 H6. destruct (IHf n l x o r0 d0 p0 post0 H1 H2 H3 H4 H5 H6) as [r' [x' [A [B [C _]]]]]. eauto. }
  destruct (rt_body E fuel IH' sd last c flds out r d p post W Vm O He Hpost Hn Hf) as [r' [fl [Hd [Hs [Hbs Hn']]]]].
  rewrite Hd. eexists _, _. split; [reflexivity|]. rewrite (env_find_name _ _ _ Ef), Vc.
  split; [|split; [exact Hn'|]].
  - rewrite strip_bs_obj, strip_fields_app, Hs. cbn [strip_fields]. rewrite String.eqb_refl, app_nil_r. reflexivity.
  - cbn [top_byte_size]. rewrite (assoc_app_notin _ _ _ Hbs). cbn [assoc]. rewrite String.eqb_refl. reflexivity.
Qed.

Theorem roundtrip_nonchunked E cls v w :
  wire_ok E cls = true -> valid_obj (S (List.length E)) E cls v = true ->
  serialize E cls v false = (w, Ok tt) ->
  exists r v', deserialize E cls (wdata w) false = (r, Ok v') /\
               strip_bs v' = v /\ rpos r = zlen (wdata w) /\ top_byte_size v' = Some (zlen (wdata w)).
Proof.
  intros W V S. apply serialize_is_encode in S as [out [He ->]]. cbn [wdata]. unfold wire_ok in W. unfold encode in He.
  unfold deserialize.
  destruct (rt_struct E _ cls true v out (initR out) out 0 [] W V He (fun _ => eq_refl) (nc_init out) (frame_whole out))
    as [r' [v' [Hd [Hs [Hn Hb]]]]].
  exists r', v'. split; [exact Hd|]. split; [exact Hs|]. split; [|exact Hb]. destruct Hn as [_ [Hp _]]. rewrite Hp. lia.
Qed.

(* ====================================================================================================== *)
(* 7. valid objects of wire-unambiguous classes have an encoding                                           *)
(* ====================================================================================================== *)
Lemma bool_range' (b : bool) t : 0 <= (if b then 1 else 0) <= itype_max t.
Proof. destruct b, t; cbn [itype_max]; lia. Qed.

Lemma valid_len_check f v : valid_len f v = true -> len_ok f v = true.
Proof.
  unfold valid_len, len_ok, len_check. destruct (f_name f); [|reflexivity].
  destruct (f_len f) as [|n|l]; [reflexivity | |]; destruct (py_len v) as [k|]; try discriminate.
  - destruct (f_padded f); intros H.
    + destruct (k >? n) eqn:Q; [lia | reflexivity].
    + destruct (negb (k =? n)) eqn:Q; [apply negb_true_iff in Q; lia | reflexivity].
  - intros H. destruct (k >? f_maxlen f) eqn:Q; [lia | reflexivity].
Qed.

Lemma sequence_ok {A B} (f : A -> option B) : forall l, (forall x, In x l -> exists y, f x = Some y) ->
  exists ys, sequence (map f l) = Some ys.
Proof.
  induction l as [|x l IHl]; intros H; cbn [map sequence]; [eauto|].
  destruct (H x (or_introl eq_refl)) as [y Hy]. rewrite Hy.
  destruct (IHl (fun x' Hin => H x' (or_intror Hin))) as [ys Hys]. rewrite Hys. eauto.
Qed.

(* a literal accepted as an integer is a numeral without sign: it is not negative *)
Lemma digits_val_nonneg s : forall acc, all_digits s = true -> 0 <= acc -> 0 <= digits_val s acc.
Proof.
  induction s as [|c s IHs]; intros acc H Ha; cbn [digits_val all_digits] in *; [exact Ha|].
  apply andb_true_iff in H as [Hc Hs]. apply IHs; [exact Hs|]. unfold is_digit in Hc.
  apply andb_true_iff in Hc as [H1 H2]. apply Nat.leb_le in H1. lia.
Qed.
Lemma parse_int_digits lit : isdigit lit = true -> parse_int lit = Some (digits_val lit 0).
Proof.
  destruct lit as [|c t]; [discriminate|]. intros D.
  destruct c as [[|] [|] [|] [|] [|] [|] [|] [|]]; cbn [isdigit all_digits] in D;
    try (apply andb_true_iff in D as [D0 _]; discriminate D0); cbn [parse_int isdigit all_digits]; rewrite D; reflexivity.
Qed.
Lemma lit_int_nonneg t lit z : lit_value (EInt t) lit = Ok (VInt z) -> 0 <= z.
Proof.
  cbn [lit_value]. destruct (isdigit lit) eqn:D.
  - rewrite (parse_int_digits _ D). intros H. injection H as <-. apply digits_val_nonneg; [|lia].
    destruct lit; [discriminate D | exact D].
  - destruct (parse_int lit); discriminate.
Qed.

Lemma lit_enc_value erec ty flen padded lit lv :
  lit_enc_ok ty flen padded lit = true -> lit_value ty lit = Ok lv ->
  exists out, enc_value erec ty lv (match flen with LLit n => Some n | _ => None end) padded 0 false = Some out.
Proof.
  unfold lit_enc_ok. intros H Hl. rewrite Hl in H. destruct ty as [t|t|en t|enc| |n]; cbn [lit_value] in Hl; try discriminate Hl.
  - assert (Hz : exists z, lv = VInt z).
    { destruct (parse_int lit) as [z|]; [|discriminate Hl]. destruct (isdigit lit); [|discriminate Hl]. injection Hl as <-. eauto. }
    destruct Hz as [z ->]. pose proof (lit_int_nonneg t lit z Hl) as Hz.
    cbn [enc_value]. rewrite Z.sub_0_r. apply enc_int_ok. lia.
  - assert (Hb : exists b, lv = VBool b).
    { destruct (String.eqb lit "true"); [injection Hl as <-; eauto|]. destruct (String.eqb lit "false"); [injection Hl as <-; eauto | discriminate Hl]. }
    destruct Hb as [b ->]. cbn [enc_value truthy]. apply enc_int_ok. apply bool_range'.
  - injection Hl as <-. cbn [enc_value]. unfold enc_str. destruct flen as [|n|l]; eauto.
    destruct padded; rewrite H; eauto.
Qed.

Section EncOk.
  Variable E : env.
  Variable fuel : nat.
  Local Notation sizef := (size_of (S (List.length E)) E).
  Local Notation progf := (progress_class (S (List.length E)) E).
  Local Notation wcls := (wire_class fuel E).
  Local Notation vo := (valid_obj fuel E).
  Local Notation erec := (enc_struct fuel E).
  Hypothesis IH : forall n last x, wcls n last = true -> vo n x = true -> exists out, erec n x false = Some out.

  Lemma enc_value_ok ty flen len padded v :
    obj_value vo ty flen padded v = true ->
    (forall n, ty = EStruct n -> exists last, wcls n last = true) ->
    (forall s n, v = VStr s -> len = Some n -> if padded then zlen s <= n else zlen s = n) ->
    exists out, enc_value erec ty v len padded 0 false = Some out.
  Proof.
    intros Ho Hw Hs. destruct ty as [t|t|en t|enc| |n]; cbn [obj_value enc_value] in *.
    - destruct v as [|z| | | | |]; try discriminate Ho. rewrite Z.sub_0_r. apply enc_int_ok. lia.
    - destruct v as [| |b| | | |]; try discriminate Ho. cbn [truthy]. apply enc_int_ok. apply bool_range'.
    - destruct v as [|z| | | | |]; try discriminate Ho. apply enc_int_ok. lia.
    - destruct v as [| | |s| | |]; try discriminate Ho. unfold enc_str. destruct len as [n|]; [|eauto].
      specialize (Hs s n eq_refl eq_refl). destruct padded.
      + destruct (zlen s <=? n) eqn:Q; [eauto | lia].
      + destruct (zlen s =? n) eqn:Q; [eauto | lia].
    - destruct v as [| | | |b| |]; try discriminate Ho. eauto.
    - destruct (Hw n eq_refl) as [last Hl]. apply (IH _ _ _ Hl Ho).
  Qed.

  Definition enc_step (flds : list (string * value)) (i : einstr) (t : list einstr) (last : bool) (rmo_e : bool) (acc : list Z) : Prop :=
    exists o1 rmo_e' lens1 pubs1 rmo_v1,
      enc_instr erec flds i rmo_e false acc = Some (o1, rmo_e') /\
      wire_instrs sizef wcls progf last lens1 pubs1 t = true /\ obj_instrs vo flds t rmo_v1 = true /\
      (rmo_e' = true -> rmo_v1 = true).

  Lemma field_len_str f s n : valid_len f (VStr s) = true -> field_len f (VStr s) = Some n ->
    if f_padded f then zlen s <= n else zlen s = n.
  Proof.
    unfold valid_len, field_len. cbn [py_len]. destruct (f_len f) as [|k|l]; [discriminate | |]; intros H Hn; injection Hn as <-.
    - destruct (f_padded f); lia.
    - destruct (f_padded f); lia.
  Qed.

  Lemma enc_step_field flds f t last lens pubs rmo_e rmo_v acc :
    wire_instrs sizef wcls progf last lens pubs (EField f :: t) = true ->
    obj_instrs vo flds (EField f :: t) rmo_v = true -> (rmo_e = true -> rmo_v = true) ->
    enc_step flds (EField f) t last rmo_e acc.
  Proof.
    intros W O Hrmo. apply (wire_field_inv E fuel) in W as [Wn [Wo [Wty Wt]]]. unfold enc_step. cbn [enc_instr]. unfold enc_field.
    destruct (f_name f) as [n|] eqn:Fn.
    - destruct (obj_field_inv E fuel _ _ _ _ _ O Fn) as [v [Fa [Hh [[Fo [-> Ot]]|[Hopt [Hvl [Hov [Ot Hnn]]]]]]]]; rewrite Fa.
      + rewrite Fo. unfold opt_guard. cbn [is_none]. rewrite orb_true_r. cbn [negb]. eexists _, _, _, _, true. eauto.
      + assert (Hv : exists o1, enc_value erec (f_ty f) v (field_len f v) (f_padded f) 0 false = Some o1).
        { apply (enc_value_ok _ (f_len f)); [exact Hov | |].
          - intros cn Hc. rewrite Hc in Wty. eauto.
          - intros s k -> Hk. apply (field_len_str _ _ _ Hvl Hk). }
        destruct Hv as [o1 Ev]. rewrite Hnn, !andb_false_r, (valid_len_check _ _ Hvl), Ev. unfold opt_guard. rewrite Hnn, orb_false_r.
        destruct (f_optional f) eqn:Fo.
        * destruct (Hopt eq_refl) as [Hrv _].
          assert (Hre : rmo_e = false) by (destruct rmo_e; [rewrite (Hrmo eq_refl) in Hrv; discriminate Hrv | reflexivity]).
          rewrite Hre. assert (Hb : (if f_opt_first f then false else false) = false) by (destruct (f_opt_first f); reflexivity).
          rewrite Hb. cbn [negb]. eexists _, _, _, _, rmo_v. split; [reflexivity|]. split; [exact Wt|]. split; [exact Ot | discriminate].
        * cbn [negb]. eexists _, _, _, _, rmo_v. split; [reflexivity|]. split; [exact Wt|]. split; [exact Ot | exact Hrmo].
    - destruct Wn as [Fo [Wnr [lit [Fh Hlit]]]]. cbn [obj_instrs] in O. rewrite Fn in O. rewrite Fh.
      destruct (lit_value (f_ty f) lit) as [lv|] eqn:Elv; [|unfold lit_enc_ok in Hlit; rewrite Elv in Hlit; discriminate Hlit].
      destruct (lit_enc_value erec _ _ _ _ _ Hlit Elv) as [o1 Ev]. rewrite Ev.
      eexists _, _, _, _, rmo_v. split; [reflexivity|]. split; [exact Wt|]. split; [exact O | exact Hrmo].
  Qed.

  Lemma enc_step_array flds f dl tr cnt t last lens pubs rmo_e rmo_v acc :
    wire_instrs sizef wcls progf last lens pubs (EArray f dl tr cnt :: t) = true ->
    obj_instrs vo flds (EArray f dl tr cnt :: t) rmo_v = true -> (rmo_e = true -> rmo_v = true) ->
    enc_step flds (EArray f dl tr cnt) t last rmo_e acc.
  Proof.
    intros W O Hrmo. apply (wire_array_inv E fuel) in W as [-> [n [Fn [Wfr [Wo [Wel [Wc Wt]]]]]]].
    unfold enc_step. cbn [enc_instr]. unfold enc_array. rewrite Fn.
    destruct (obj_array_inv E fuel _ _ _ _ _ _ _ _ O Fn) as [[Fa [Fo Ot]]|[elems [Fa [Hopt [Hvl [Hlit [Hov Ot]]]]]]]; rewrite Fa.
    - rewrite Fo. unfold opt_guard. cbn [is_none]. rewrite orb_true_r. cbn [negb]. eexists _, _, _, _, true. eauto.
    - assert (Hc : array_count_ok f elems = true).
      { unfold array_count_ok. unfold valid_len in Hvl. cbn [py_len] in Hvl. destruct (f_len f) as [|k|l]; [reflexivity | |].
        - rewrite (Hlit k eq_refl). apply Z.eqb_refl.
        - exact Hvl. }
      assert (Hq : exists bodies, sequence (map (fun e => enc_value erec (f_ty f) e None false 0 false) elems) = Some bodies).
      { apply sequence_ok. intros e Hin. rewrite forallb_forall in Hov. apply (enc_value_ok _ LNone); [apply (Hov e Hin) | |].
        - intros cn Hcn. unfold elem_wire in Wel. rewrite Hcn in Wel. eauto.
        - intros s k _ Hk. discriminate Hk. }
      destruct Hq as [bodies Hq]. rewrite Hc. unfold enc_elems. rewrite Hq. unfold opt_guard. cbn [is_none]. rewrite orb_false_r.
      destruct (f_optional f) eqn:Fo.
      + destruct (Hopt eq_refl) as [Hrv _].
        assert (Hre : rmo_e = false) by (destruct rmo_e; [rewrite (Hrmo eq_refl) in Hrv; discriminate Hrv | reflexivity]).
        rewrite Hre. assert (Hb : (if f_opt_first f then false else false) = false) by (destruct (f_opt_first f); reflexivity).
        rewrite Hb. cbn [negb]. eexists _, _, _, _, rmo_v. split; [reflexivity|]. split; [exact Wt|]. split; [exact Ot | discriminate].
      + cbn [negb]. eexists _, _, _, _, rmo_v. split; [reflexivity|]. split; [exact Wt|]. split; [exact Ot | exact Hrmo].
  Qed.

  Lemma enc_instrs_ok flds : forall is last lens pubs rmo_e rmo_v acc,
    wire_instrs sizef wcls progf last lens pubs is = true -> obj_instrs vo flds is rmo_v = true ->
    (rmo_e = true -> rmo_v = true) -> exists out, enc_instrs erec flds is rmo_e false acc = Some out.
  Proof.
    induction is as [|i t IHt]; intros last lens pubs rmo_e rmo_v acc W O Hrmo; cbn [enc_instrs]; [eauto|].
    assert (Hstep : enc_step flds i t last rmo_e acc).
    { destruct i as [f|f dl tr cnt|name lt off opt of rb|ty lit g|fld cs|b|]; try discriminate W.
      - apply (enc_step_field _ _ _ _ _ _ _ _ _ W O Hrmo).
      - apply (enc_step_array _ _ _ _ _ _ _ _ _ _ _ _ W O Hrmo).
      - cbn [wire_instrs] in W. apply andb_true_iff in W as [W Wt]. apply andb_true_iff in W as [Wopt Wfr].
        destruct opt; [discriminate Wopt|]. destruct rb as [fr|]; [|discriminate Wt].
        cbn [obj_instrs] in O. apply andb_true_iff in O as [O Ot].
        destruct (assoc flds fr) as [fv|] eqn:Fa; [|discriminate O]. destruct (py_len fv) as [l|] eqn:Fl; [|discriminate O].
        unfold enc_step. cbn [enc_instr]. rewrite Fa. unfold length_slot. rewrite Fl, opt_guard_required. cbn [negb].
        destruct (enc_int_ok lt (l - off) ltac:(lia)) as [ob Eb]. rewrite Eb. eexists _, _, _, _, rmo_v. eauto.
      - cbn [wire_instrs] in W. apply andb_true_iff in W as [W Wt]. apply andb_true_iff in W as [W Wc].
        cbn [obj_instrs] in O. apply andb_true_iff in O as [O Ot].
        destruct (assoc flds fld) as [fv|] eqn:Fa; [|discriminate O]. destruct fv as [|z| | | | |]; try discriminate O.
        destruct (assoc flds (fld ++ "_data")) as [dv|] eqn:Fd; [|discriminate O].
        unfold enc_step. cbn [enc_instr]. rewrite Fa, Fd.
        destruct (find_case cs (Some z)) as [c|] eqn:Fc; [|rewrite O; eexists _, _, _, _, rmo_v; eauto].
        destruct (c_cls c) as [cls|] eqn:Cc; [|rewrite O; eexists _, _, _, _, rmo_v; eauto].
        destruct (obj_class dv) as [c'|]; [|discriminate O]. apply andb_true_iff in O as [Oeq Ov]. rewrite Oeq.
        rewrite forallb_forall in Wc. specialize (Wc c (find_case_In' _ _ _ Fc)). rewrite Cc in Wc.
        destruct (IH _ _ _ Wc Ov) as [ob Eb]. rewrite Eb. eexists _, _, _, _, rmo_v. eauto. }
    destruct Hstep as [o1 [rmo_e' [lens1 [pubs1 [rmo_v1 [Ei [Wt [Ot Hrmo1]]]]]]]]. rewrite Ei.
    assert (Hm : instr_mode i false = false) by (destruct i; try reflexivity; discriminate W). rewrite Hm.
    destruct (IHt last lens1 pubs1 rmo_e' rmo_v1 (acc ++ o1) Wt Ot Hrmo1) as [o2 Et]. rewrite Et. eauto.
  Qed.
End EncOk.

Theorem enc_struct_ok E : forall fuel cls last v,
  wire_class fuel E cls last = true -> valid_obj fuel E cls v = true -> exists out, enc_struct fuel E cls v false = Some out.
Proof.
  induction fuel as [|fuel IHf]; intros cls last v W V; [discriminate W|].
  cbn [wire_class valid_obj enc_struct] in *.
  destruct (env_find E cls) as [sd|] eqn:Ef; [|discriminate W]. destruct v as [| | | | | |c flds]; try discriminate V.
  apply andb_true_iff in V as [V O]. unfold enc_body. unfold wire_body in W.
  destruct (sole_dummy (sd_body sd)) as [[ty lit]|] eqn:Sd.
  - apply sole_dummy_spec in Sd. rewrite Sd. cbn [enc_instrs enc_instr andb].
    assert (Hlit : lit_enc_ok ty LNone false lit = true) by (destruct ty; try discriminate W; exact W).
    destruct (lit_value ty lit) as [lv|] eqn:Elv; [|unfold lit_enc_ok in Hlit; rewrite Elv in Hlit; discriminate Hlit].
    destruct (lit_enc_value (enc_struct fuel E) _ _ _ _ _ Hlit Elv) as [o1 Ev]. rewrite Ev. eauto.
  - apply (enc_instrs_ok E fuel IHf flds _ _ _ _ _ _ _ W O (fun H => H)).
Qed.

Theorem valid_serializes E cls v :
  wire_ok E cls = true -> valid_obj (S (List.length E)) E cls v = true -> exists w, serialize E cls v false = (w, Ok tt).
Proof.
  intros W V. destruct (enc_struct_ok E _ cls true v W V) as [out He].
  exists (mkW out false). apply serialize_is_encode. exists out. split; [exact He | reflexivity].
Qed.

Theorem round_ok_holds E cls v :
  wire_ok E cls = true -> valid_obj (S (List.length E)) E cls v = true -> round_ok E cls v = true.
Proof.
  intros W V. destruct (valid_serializes E cls v W V) as [w S].
  destruct (roundtrip_nonchunked E cls v w W V S) as [r [v' [Hd [Hs [Hp Hb]]]]].
  unfold round_ok, run_ser, run_deser. rewrite S, Hd, Hs, Hp, Hb, value_eqb_refl, Z.eqb_refl.
  cbn [opt_eqb andb]. apply Z.eqb_refl.
Qed.
