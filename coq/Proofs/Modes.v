(* Lemma library for C15: how generated serialize / deserialize bodies treat the writer's
   string-sanitisation mode (wsan) and the reader's chunked-reading mode (rchunked).
   Every statement except the mode statement ESetMode preserves the mode (in Ok and Err results alike),
   nested calls preserve it whenever the callee does, and the body's `finally` restores the entry mode. *)
From EO Require Import Prelude.Py Model.Limits Model.Number Model.StringEnc Model.Cp1252
  Model.Writer Model.Reader Model.Spec Model.Ser Model.Deser.
Set Default Timeout 60.
Open Scope Z_scope.

(* ------------------------------------------------------------------------------------------ *)
(* the mode in force after a statement list, as a function of the entry mode                    *)
(* ------------------------------------------------------------------------------------------ *)
Definition instr_mode (m : bool) (i : einstr) : bool := match i with ESetMode b => b | _ => m end.

Fixpoint static_mode (m : bool) (is : list einstr) : bool :=
  match is with [] => m | ESetMode b :: t => static_mode b t | _ :: t => static_mode m t end.

Definition is_set_mode (i : einstr) : bool := match i with ESetMode _ => true | _ => false end.

Lemma static_mode_cons m i t : static_mode m (i :: t) = static_mode (instr_mode m i) t.
Proof. destruct i; reflexivity. Qed.

Lemma static_mode_app m a b : static_mode m (a ++ b) = static_mode (static_mode m a) b.
Proof.
  revert m; induction a as [|i a IH]; intros m; [reflexivity|].
  rewrite <- app_comm_cons, !static_mode_cons. apply IH.
Qed.

(* a list without mode statements leaves the mode alone *)
Lemma static_mode_no_set m is : forallb (fun i => negb (is_set_mode i)) is = true -> static_mode m is = m.
Proof.
  revert m; induction is as [|i t IH]; intros m Hall; [reflexivity|].
  cbn [forallb] in Hall. apply andb_true_iff in Hall as [Hi Ht].
  rewrite static_mode_cons. destruct i; cbn [instr_mode]; try (apply IH; exact Ht). discriminate Hi.
Qed.

(* the shape `_generate_chunked` emits: mode = True; body; mode = False *)
Lemma static_mode_chunked m body rest :
  static_mode m (ESetMode true :: body ++ ESetMode false :: rest) = static_mode false rest.
Proof. cbn [static_mode]. rewrite static_mode_app. reflexivity. Qed.

Ltac brk := match goal with |- context [match ?x with _ => _ end] => destruct x eqn:? end.
Ltac inv_pair := let H := fresh "Hp" in intros H; inversion H; subst; clear H.

(* ------------------------------------------------------------------------------------------ *)
(* writer primitives                                                                            *)
(* ------------------------------------------------------------------------------------------ *)
Lemma w_extend_san w bs : wsan (w_extend w bs) = wsan w.
Proof. reflexivity. Qed.

Lemma w_set_san_san w b : wsan (w_set_san w b) = b.
Proof. reflexivity. Qed.

Lemma w_add_byte_san w v w' r : w_add_byte w v = (w', r) -> wsan w' = wsan w.
Proof. unfold w_add_byte. repeat brk; inv_pair; reflexivity. Qed.

Lemma w_add_bytes_san w bs w' r : w_add_bytes w bs = (w', r) -> wsan w' = wsan w.
Proof. unfold w_add_bytes. inv_pair; reflexivity. Qed.

Lemma w_add_number_san w n lim size w' r : w_add_number w n lim size = (w', r) -> wsan w' = wsan w.
Proof. unfold w_add_number. repeat brk; inv_pair; reflexivity. Qed.

Lemma w_add_char_san w n w' r : w_add_char w n = (w', r) -> wsan w' = wsan w.
Proof. apply w_add_number_san. Qed.
Lemma w_add_short_san w n w' r : w_add_short w n = (w', r) -> wsan w' = wsan w.
Proof. apply w_add_number_san. Qed.
Lemma w_add_three_san w n w' r : w_add_three w n = (w', r) -> wsan w' = wsan w.
Proof. apply w_add_number_san. Qed.
Lemma w_add_int_san w n w' r : w_add_int w n = (w', r) -> wsan w' = wsan w.
Proof. apply w_add_number_san. Qed.

Lemma w_add_string_san w s w' r : w_add_string w s = (w', r) -> wsan w' = wsan w.
Proof. unfold w_add_string, w_add_bytes. inv_pair; reflexivity. Qed.

Lemma w_add_fixed_string_san w s len p w' r : w_add_fixed_string w s len p = (w', r) -> wsan w' = wsan w.
Proof. unfold w_add_fixed_string, w_add_bytes. repeat brk; inv_pair; reflexivity. Qed.

Lemma w_add_encoded_string_san w s w' r : w_add_encoded_string w s = (w', r) -> wsan w' = wsan w.
Proof. unfold w_add_encoded_string, w_add_bytes. inv_pair; reflexivity. Qed.

Lemma w_add_fixed_encoded_string_san w s len p w' r :
  w_add_fixed_encoded_string w s len p = (w', r) -> wsan w' = wsan w.
Proof. unfold w_add_fixed_encoded_string, w_add_bytes. repeat brk; inv_pair; reflexivity. Qed.

Lemma w_add_int_of_san t w z w' r : w_add_int_of t w z = (w', r) -> wsan w' = wsan w.
Proof.
  destruct t; cbn [w_add_int_of];
    [apply w_add_byte_san | apply w_add_char_san | apply w_add_short_san | apply w_add_three_san | apply w_add_int_san].
Qed.

(* every operation of a writer history other than the mode setter *)
Lemma wstep_san w o w' r : wstep w o = (w', r) -> wsan w' = match o with WSetSan b => b | _ => wsan w end.
Proof.
  destruct o; cbn [wstep];
    eauto using w_add_byte_san, w_add_bytes_san, w_add_char_san, w_add_short_san, w_add_three_san, w_add_int_san,
      w_add_string_san, w_add_fixed_string_san, w_add_encoded_string_san, w_add_fixed_encoded_string_san.
  inv_pair; reflexivity.
Qed.

(* ------------------------------------------------------------------------------------------ *)
(* serialize: statements                                                                        *)
(* ------------------------------------------------------------------------------------------ *)
Definition ser_rec_keeps (rec : string -> value -> wstate -> wres) : Prop :=
  forall n v w, wsan (fst (rec n v w)) = wsan w.

Lemma ser_rec_keeps_pair rec : ser_rec_keeps rec -> forall n v w w' r, rec n v w = (w', r) -> wsan w' = wsan w.
Proof. intros Hrec n v w w' r Heq. rewrite <- (Hrec n v w), Heq. reflexivity. Qed.

Section SerWithRec.
  Variable rec : string -> value -> wstate -> wres.
  Hypothesis Hrec : ser_rec_keeps rec.

  Lemma ser_value_san ty v len p off w w' r : ser_value rec ty v len p off w = (w', r) -> wsan w' = wsan w.
  Proof.
    destruct ty; cbn [ser_value].
    - destruct v; try (inv_pair; reflexivity); apply w_add_int_of_san.
    - apply w_add_int_of_san.
    - destruct v; try (inv_pair; reflexivity); apply w_add_int_of_san.
    - destruct v; try (inv_pair; reflexivity).
      destruct len, encoded;
        eauto using w_add_string_san, w_add_fixed_string_san, w_add_encoded_string_san, w_add_fixed_encoded_string_san.
    - destruct v; try (inv_pair; reflexivity); apply w_add_bytes_san.
    - apply (ser_rec_keeps_pair rec Hrec).
  Qed.

  Lemma ser_elems_san ty d tr n : forall i elems w w' r,
    ser_elems rec ty d tr n i elems w = (w', r) -> wsan w' = wsan w.
  Proof.
    induction n as [|n IH]; intros i elems w w' r; cbn [ser_elems].
    - inv_pair; reflexivity.
    - destruct (if d && negb tr && (i >? 0) then w_add_byte w 255 else (w, Ok tt)) as [w1 r1] eqn:E1.
      assert (H1 : wsan w1 = wsan w).
      { destruct (d && negb tr && (i >? 0)); [eapply w_add_byte_san; exact E1 | inversion E1; reflexivity]. }
      destruct r1 as [u1|e1]; [|inv_pair; exact H1].
      destruct elems as [|x rest]; [inv_pair; exact H1|].
      destruct (ser_value rec ty x None false 0 w1) as [w2 r2] eqn:E2.
      assert (H2 : wsan w2 = wsan w1) by (eapply ser_value_san; exact E2).
      destruct r2 as [u2|e2]; [|inv_pair; congruence].
      destruct (if d && tr then w_add_byte w2 255 else (w2, Ok tt)) as [w3 r3] eqn:E3.
      assert (H3 : wsan w3 = wsan w2).
      { destruct (d && tr); [eapply w_add_byte_san; exact E3 | inversion E3; reflexivity]. }
      destruct r3 as [u3|e3]; [|inv_pair; congruence].
      intros Hrest. apply IH in Hrest. congruence.
  Qed.

  Lemma ser_field_san flds f rmo w w' r rmo' : ser_field rec flds f rmo w = (w', r, rmo') -> wsan w' = wsan w.
  Proof.
    unfold ser_field.
    destruct (f_name f) as [name|].
    - destruct (assoc flds name) as [v|]; [|inv_pair; reflexivity].
      destruct (opt_guard (f_optional f) (f_opt_first f) rmo v) as [rmo1 go].
      destruct (negb go); [inv_pair; reflexivity|].
      destruct (negb (f_optional f) && match f_hard f with Some _ => false | None => true end && is_none v);
        [inv_pair; reflexivity|].
      destruct (len_check f v); [|inv_pair; reflexivity].
      match goal with |- context [ser_value rec ?a ?b ?c ?d ?e ?x] => destruct (ser_value rec a b c d e x) as [w1 r1] eqn:E end.
      inv_pair. eapply ser_value_san; exact E.
    - destruct (f_hard f) as [lit|]; [|inv_pair; reflexivity].
      destruct (lit_value (f_ty f) lit) as [v|e]; [|inv_pair; reflexivity].
      match goal with |- context [ser_value rec ?a ?b ?c ?d ?e ?x] => destruct (ser_value rec a b c d e x) as [w1 r1] eqn:E end.
      inv_pair. eapply ser_value_san; exact E.
  Qed.

  Lemma ser_array_san flds f d tr rmo w w' r rmo' : ser_array rec flds f d tr rmo w = (w', r, rmo') -> wsan w' = wsan w.
  Proof.
    unfold ser_array.
    destruct (f_name f) as [name|]; [|inv_pair; reflexivity].
    destruct (assoc flds name) as [v|]; [|inv_pair; reflexivity].
    destruct (opt_guard (f_optional f) (f_opt_first f) rmo v) as [rmo1 go].
    destruct (negb go); [inv_pair; reflexivity|].
    destruct (negb (f_optional f) && is_none v); [inv_pair; reflexivity|].
    destruct (len_check f v); [|inv_pair; reflexivity].
    destruct v; try (inv_pair; reflexivity).
    match goal with |- context [ser_elems rec ?a ?b ?c ?n ?i ?l ?x] => destruct (ser_elems rec a b c n i l x) as [w1 r1] eqn:E end.
    inv_pair. eapply ser_elems_san; exact E.
  Qed.

  (* one statement: the mode statement sets the mode and cannot fail, every other statement keeps it *)
  Lemma ser_instr_mode flds old i rmo w w' r rmo' :
    ser_instr rec flds old i rmo w = (w', r, rmo') -> wsan w' = instr_mode (wsan w) i.
  Proof.
    destruct i; cbn [ser_instr instr_mode].
    - apply ser_field_san.
    - apply ser_array_san.
    - destruct ref_by as [fr|]; [|inv_pair; reflexivity].
      destruct (assoc flds fr) as [fv|]; [|inv_pair; reflexivity].
      destruct (length_slot fv) as [sv|]; [|inv_pair; reflexivity].
      destruct (opt_guard optional opt_first rmo sv) as [rmo1 go].
      destruct (negb go); [inv_pair; reflexivity|].
      destruct sv as [|l| | | | |]; try (inv_pair; reflexivity).
      destruct (w_add_int_of t w (l - offset)) as [w1 r1] eqn:E.
      inv_pair. eapply w_add_int_of_san; exact E.
    - destruct (guarded && negb (zlen (wdata w) =? old)); [inv_pair; reflexivity|].
      destruct (lit_value ty lit) as [v|e]; [|inv_pair; reflexivity].
      destruct (ser_value rec ty v None false 0 w) as [w1 r1] eqn:E.
      inv_pair. eapply ser_value_san; exact E.
    - destruct (assoc flds field) as [fv|]; [|inv_pair; reflexivity].
      destruct (assoc flds (field ++ "_data")%string) as [dv|]; [|inv_pair; reflexivity].
      match goal with |- context [find_case cases ?z] => destruct (find_case cases z) as [c|] end;
        [|destruct (is_none dv); inv_pair; reflexivity].
      destruct (c_cls c) as [cls|]; [|destruct (is_none dv); inv_pair; reflexivity].
      destruct (obj_class dv) as [c'|]; [|inv_pair; reflexivity].
      destruct (String.eqb c' cls); [|inv_pair; reflexivity].
      destruct (rec cls dv w) as [w1 r1] eqn:E.
      inv_pair. eapply (ser_rec_keeps_pair rec Hrec); exact E.
    - inv_pair; reflexivity.
    - destruct (w_add_byte w 255) as [w1 r1] eqn:E. inv_pair. eapply w_add_byte_san; exact E.
  Qed.

  Lemma ser_instr_set_mode_ok flds old b rmo w : ser_instr rec flds old (ESetMode b) rmo w = (w_set_san w b, Ok tt, rmo).
  Proof. reflexivity. Qed.

  Lemma ser_instr_err_not_set_mode flds old i rmo w w' e rmo' :
    ser_instr rec flds old i rmo w = (w', Err e, rmo') -> is_set_mode i = false.
  Proof. destruct i; try reflexivity. cbn [ser_instr]. intros Hp; discriminate Hp. Qed.

  (* statement lists: normal completion *)
  Lemma ser_instrs_mode_ok flds old is : forall rmo w w',
    ser_instrs rec flds old is rmo w = (w', Ok tt) -> wsan w' = static_mode (wsan w) is.
  Proof.
    induction is as [|i t IH]; intros rmo w w'; cbn [ser_instrs].
    - inv_pair; reflexivity.
    - destruct (ser_instr rec flds old i rmo w) as [[w1 r1] rmo1] eqn:Ei.
      apply ser_instr_mode in Ei.
      destruct r1 as [u|e]; [|intros Hp; discriminate Hp].
      intros Hrest. apply IH in Hrest. rewrite static_mode_cons, <- Ei. exact Hrest.
  Qed.

  (* statement lists: an exception escapes from the statement `i` after the executed prefix `pre`;
     `i` is not a mode statement, and the mode is the static mode after `pre` *)
  Lemma ser_instrs_mode_err flds old is : forall rmo w w' e,
    ser_instrs rec flds old is rmo w = (w', Err e) ->
    exists pre i post, is = pre ++ i :: post /\ is_set_mode i = false /\ wsan w' = static_mode (wsan w) pre.
  Proof.
    induction is as [|i t IH]; intros rmo w w' e; cbn [ser_instrs].
    - intros Hp; discriminate Hp.
    - destruct (ser_instr rec flds old i rmo w) as [[w1 r1] rmo1] eqn:Ei.
      destruct r1 as [u|e1].
      + intros Hrest. apply IH in Hrest. destruct Hrest as (pre & j & post & Heq & Hj & Hm).
        exists (i :: pre), j, post. split; [rewrite Heq; reflexivity|]. split; [exact Hj|].
        apply ser_instr_mode in Ei. rewrite static_mode_cons, <- Ei. exact Hm.
      + inv_pair. exists [], i, t. split; [reflexivity|]. split.
        * eapply ser_instr_err_not_set_mode; exact Ei.
        * pose proof (ser_instr_err_not_set_mode _ _ _ _ _ _ _ _ Ei) as Hns.
          apply ser_instr_mode in Ei. rewrite Ei. destruct i; try reflexivity. discriminate Hns.
  Qed.

  (* any outcome: the mode is the static mode after some prefix of the list *)
  Lemma ser_instrs_mode_any flds old is rmo w w' r :
    ser_instrs rec flds old is rmo w = (w', r) ->
    exists pre post, is = pre ++ post /\ wsan w' = static_mode (wsan w) pre.
  Proof.
    destruct r as [[]|e]; intros Hs.
    - exists is, []. split; [symmetry; apply app_nil_r | eapply ser_instrs_mode_ok; exact Hs].
    - apply ser_instrs_mode_err in Hs. destruct Hs as (pre & i & post & Heq & _ & Hm).
      exists pre, (i :: post). split; assumption.
  Qed.
End SerWithRec.

(* the body restores the entry mode whatever the callee does (no hypothesis on rec) *)
Lemma ser_body_san rec d v w : wsan (fst (ser_body rec d v w)) = wsan w.
Proof.
  unfold ser_body. destruct v; try (destruct (sd_body d); reflexivity).
  destruct (ser_instrs rec fields (zlen (wdata w)) (sd_body d) false w) as [w1 r1]. reflexivity.
Qed.

Lemma ser_body_keeps rec d : ser_rec_keeps (fun _ => ser_body rec d).
Proof. intros n v w. apply ser_body_san. Qed.

Lemma ser_struct_san fuel E cls v w : wsan (fst (ser_struct fuel E cls v w)) = wsan w.
Proof.
  destruct fuel as [|f]; cbn [ser_struct]; [reflexivity|].
  destruct (env_find E cls) as [d|]; [apply ser_body_san | reflexivity].
Qed.

Lemma ser_struct_keeps fuel E : ser_rec_keeps (ser_struct fuel E).
Proof. intros n v w. apply ser_struct_san. Qed.

Lemma serialize_san E cls v san : wsan (fst (serialize E cls v san)) = san.
Proof. unfold serialize. rewrite ser_struct_san. reflexivity. Qed.

(* ------------------------------------------------------------------------------------------ *)
(* reader primitives                                                                            *)
(* ------------------------------------------------------------------------------------------ *)
Lemma r_set_chunked_chunked r b : rchunked (r_set_chunked r b) = b.
Proof. reflexivity. Qed.

Lemma r_set_pos_chunked r p : rchunked (r_set_pos r p) = rchunked r.
Proof. reflexivity. Qed.

Lemma r_read_byte_chunked r : rchunked (fst (r_read_byte r)) = rchunked r.
Proof. unfold r_read_byte. destruct (r_remaining r >? 0); reflexivity. Qed.

Lemma r_read_bytes_chunked r n : rchunked (fst (r_read_bytes r n)) = rchunked r.
Proof. reflexivity. Qed.

Lemma r_get_byte_chunked r : rchunked (fst (r_get_byte r)) = rchunked r.
Proof. apply r_read_byte_chunked. Qed.
Lemma r_get_bytes_chunked r n : rchunked (fst (r_get_bytes r n)) = rchunked r.
Proof. reflexivity. Qed.
Lemma r_get_number_chunked r n : rchunked (fst (r_get_number r n)) = rchunked r.
Proof. reflexivity. Qed.
Lemma r_get_char_chunked r : rchunked (fst (r_get_char r)) = rchunked r.
Proof. reflexivity. Qed.
Lemma r_get_short_chunked r : rchunked (fst (r_get_short r)) = rchunked r.
Proof. reflexivity. Qed.
Lemma r_get_three_chunked r : rchunked (fst (r_get_three r)) = rchunked r.
Proof. reflexivity. Qed.
Lemma r_get_int_chunked r : rchunked (fst (r_get_int r)) = rchunked r.
Proof. reflexivity. Qed.
Lemma r_get_string_chunked r : rchunked (fst (r_get_string r)) = rchunked r.
Proof. reflexivity. Qed.
Lemma r_get_encoded_string_chunked r : rchunked (fst (r_get_encoded_string r)) = rchunked r.
Proof. reflexivity. Qed.

Lemma r_get_fixed_string_chunked r len p r' s : r_get_fixed_string r len p = Ok (r', s) -> rchunked r' = rchunked r.
Proof. unfold r_get_fixed_string, r_read_bytes. destruct (len <? 0); intros Hp; inversion Hp; reflexivity. Qed.

Lemma r_get_fixed_encoded_string_chunked r len p r' s :
  r_get_fixed_encoded_string r len p = Ok (r', s) -> rchunked r' = rchunked r.
Proof. unfold r_get_fixed_encoded_string, r_read_bytes. destruct (len <? 0); intros Hp; inversion Hp; reflexivity. Qed.

Lemma r_next_chunk_chunked r r' : r_next_chunk r = Ok r' -> rchunked r' = rchunked r.
Proof. unfold r_next_chunk. destruct (negb (rchunked r)); intros Hp; inversion Hp; reflexivity. Qed.

Lemma r_get_int_of_chunked t r : rchunked (fst (r_get_int_of t r)) = rchunked r.
Proof. destruct t; cbn [r_get_int_of]; [apply r_read_byte_chunked | reflexivity ..]. Qed.

Lemma r_get_int_of_chunked_pair t r r' z : r_get_int_of t r = (r', z) -> rchunked r' = rchunked r.
Proof. intros Heq. rewrite <- (r_get_int_of_chunked t r), Heq. reflexivity. Qed.

(* ------------------------------------------------------------------------------------------ *)
(* deserialize: statements                                                                      *)
(* ------------------------------------------------------------------------------------------ *)
Definition deser_rec_keeps (rec : string -> rstate -> rres value) : Prop :=
  forall n r, rchunked (fst (rec n r)) = rchunked r.

Lemma deser_rec_keeps_pair rec : deser_rec_keeps rec -> forall n r r' v, rec n r = (r', v) -> rchunked r' = rchunked r.
Proof. intros Hrec n r r' v Heq. rewrite <- (Hrec n r), Heq. reflexivity. Qed.

Section DeserWithRec.
  Variable rec : string -> rstate -> rres value.
  Hypothesis Hrec : deser_rec_keeps rec.

  Lemma deser_value_chunked ty len p off r r' v : deser_value rec ty len p off r = (r', v) -> rchunked r' = rchunked r.
  Proof.
    destruct ty; cbn [deser_value].
    - destruct (r_get_int_of t r) as [r1 z] eqn:E. inv_pair. eapply r_get_int_of_chunked_pair; exact E.
    - destruct (r_get_int_of t r) as [r1 z] eqn:E. inv_pair. eapply r_get_int_of_chunked_pair; exact E.
    - destruct (r_get_int_of t r) as [r1 z] eqn:E. inv_pair. eapply r_get_int_of_chunked_pair; exact E.
    - destruct len as [n|].
      + destruct encoded.
        * destruct (r_get_fixed_encoded_string r n p) as [[r1 s]|e] eqn:E; inv_pair; [|reflexivity].
          eapply r_get_fixed_encoded_string_chunked; exact E.
        * destruct (r_get_fixed_string r n p) as [[r1 s]|e] eqn:E; inv_pair; [|reflexivity].
          eapply r_get_fixed_string_chunked; exact E.
      + destruct encoded; inv_pair; reflexivity.
    - inv_pair; reflexivity.
    - apply (deser_rec_keeps_pair rec Hrec).
  Qed.

  Lemma deser_for_chunked ty d tr k : forall i n acc r r' v,
    deser_for rec ty d tr k i n acc r = (r', v) -> rchunked r' = rchunked r.
  Proof.
    induction k as [|k IH]; intros i n acc r r' v; cbn [deser_for].
    - inv_pair; reflexivity.
    - destruct (deser_value rec ty None false 0 r) as [r1 x] eqn:E1.
      apply deser_value_chunked in E1.
      destruct x as [x|e]; [|inv_pair; exact E1].
      destruct (d && (tr || (i + 1 <? n))).
      + destruct (r_next_chunk r1) as [r2|e] eqn:E2; [|inv_pair; exact E1].
        apply r_next_chunk_chunked in E2. intros Hrest. apply IH in Hrest. congruence.
      + intros Hrest. apply IH in Hrest. congruence.
  Qed.

  Lemma deser_while_chunked ty d fuel : forall acc r r' v,
    deser_while rec ty d fuel acc r = (r', v) -> rchunked r' = rchunked r.
  Proof.
    induction fuel as [|f IH]; intros acc r r' v; cbn [deser_while].
    - destruct (r_remaining r >? 0); inv_pair; reflexivity.
    - destruct (r_remaining r >? 0); [|inv_pair; reflexivity].
      destruct (deser_value rec ty None false 0 r) as [r1 x] eqn:E1.
      apply deser_value_chunked in E1.
      destruct x as [x|e]; [|inv_pair; exact E1].
      destruct d.
      + destruct (r_next_chunk r1) as [r2|e] eqn:E2; [|inv_pair; exact E1].
        apply r_next_chunk_chunked in E2. intros Hrest. apply IH in Hrest. congruence.
      + intros Hrest. apply IH in Hrest. congruence.
  Qed.

  Lemma deser_instr_mode start i locals r r' v :
    deser_instr rec start i locals r = (r', v) -> rchunked r' = instr_mode (rchunked r) i.
  Proof.
    destruct i; cbn [deser_instr instr_mode].
    - destruct (f_optional f && negb (r_remaining r >? 0)); [inv_pair; reflexivity|].
      destruct (len_expr f locals) as [len|e]; [|inv_pair; reflexivity].
      destruct (deser_value rec (f_ty f) len (f_padded f) 0 r) as [r1 x] eqn:E.
      apply deser_value_chunked in E. destruct x; inv_pair; exact E.
    - destruct (f_name f) as [name|]; [|inv_pair; reflexivity].
      destruct (f_optional f && negb (r_remaining r >? 0)); [inv_pair; reflexivity|].
      match goal with |- (let '(_, _) := ?x in _) = _ -> _ => destruct x as [r1 x1] eqn:E end.
      assert (H1 : rchunked r1 = rchunked r).
      { destruct count as [|size|].
        - destruct (len_expr f locals) as [[n|]|e]; [|inversion E; reflexivity ..].
          eapply deser_for_chunked; exact E.
        - destruct (size =? 0); [inversion E; reflexivity|]. eapply deser_for_chunked; exact E.
        - eapply deser_while_chunked; exact E. }
      destruct x1; inv_pair; exact H1.
    - destruct (optional && negb (r_remaining r >? 0)); [inv_pair; reflexivity|].
      destruct (r_get_int_of t r) as [r1 z] eqn:E. inv_pair. eapply r_get_int_of_chunked_pair; exact E.
    - destruct (guarded && negb (rpos r =? start)); [inv_pair; reflexivity|].
      destruct (deser_value rec ty None false 0 r) as [r1 x] eqn:E.
      apply deser_value_chunked in E. destruct x; inv_pair; exact E.
    - match goal with |- context [find_case cases ?z] => destruct (find_case cases z) as [c|] end;
        [|inv_pair; reflexivity].
      destruct (c_cls c) as [cls|]; [|inv_pair; reflexivity].
      destruct (rec cls r) as [r1 x] eqn:E.
      apply (deser_rec_keeps_pair rec Hrec) in E. destruct x; inv_pair; exact E.
    - inv_pair; reflexivity.
    - destruct (r_next_chunk r) as [r1|e] eqn:E; inv_pair; [|reflexivity].
      eapply r_next_chunk_chunked; exact E.
  Qed.

  Lemma deser_instr_err_not_set_mode start i locals r r' e :
    deser_instr rec start i locals r = (r', Err e) -> is_set_mode i = false.
  Proof. destruct i; try reflexivity. cbn [deser_instr]. intros Hp; discriminate Hp. Qed.

  Lemma deser_instrs_mode_ok start is : forall locals r r' l,
    deser_instrs rec start is locals r = (r', Ok l) -> rchunked r' = static_mode (rchunked r) is.
  Proof.
    induction is as [|i t IH]; intros locals r r' l; cbn [deser_instrs].
    - inv_pair; reflexivity.
    - destruct (deser_instr rec start i locals r) as [r1 v1] eqn:Ei.
      apply deser_instr_mode in Ei.
      destruct v1 as [l1|e]; [|intros Hp; discriminate Hp].
      intros Hrest. apply IH in Hrest. rewrite static_mode_cons, <- Ei. exact Hrest.
  Qed.

  Lemma deser_instrs_mode_err start is : forall locals r r' e,
    deser_instrs rec start is locals r = (r', Err e) ->
    exists pre i post, is = pre ++ i :: post /\ is_set_mode i = false /\ rchunked r' = static_mode (rchunked r) pre.
  Proof.
    induction is as [|i t IH]; intros locals r r' e; cbn [deser_instrs].
    - intros Hp; discriminate Hp.
    - destruct (deser_instr rec start i locals r) as [r1 v1] eqn:Ei.
      destruct v1 as [l1|e1].
      + intros Hrest. apply IH in Hrest. destruct Hrest as (pre & j & post & Heq & Hj & Hm).
        exists (i :: pre), j, post. split; [rewrite Heq; reflexivity|]. split; [exact Hj|].
        apply deser_instr_mode in Ei. rewrite static_mode_cons, <- Ei. exact Hm.
      + inv_pair. exists [], i, t. split; [reflexivity|].
        pose proof (deser_instr_err_not_set_mode _ _ _ _ _ _ Ei) as Hns. split; [exact Hns|].
        apply deser_instr_mode in Ei. rewrite Ei. destruct i; try reflexivity. discriminate Hns.
  Qed.

  Lemma deser_instrs_mode_any start is locals r r' v :
    deser_instrs rec start is locals r = (r', v) ->
    exists pre post, is = pre ++ post /\ rchunked r' = static_mode (rchunked r) pre.
  Proof.
    destruct v as [l|e]; intros Hs.
    - exists is, []. split; [symmetry; apply app_nil_r | eapply deser_instrs_mode_ok; exact Hs].
    - apply deser_instrs_mode_err in Hs. destruct Hs as (pre & i & post & Heq & _ & Hm).
      exists pre, (i :: post). split; assumption.
  Qed.
End DeserWithRec.

Lemma deser_body_chunked rec d r : rchunked (fst (deser_body rec d r)) = rchunked r.
Proof.
  unfold deser_body. destruct (deser_instrs rec (rpos r) (sd_body d) [] r) as [r1 v1]. reflexivity.
Qed.

Lemma deser_struct_chunked fuel E cls r : rchunked (fst (deser_struct fuel E cls r)) = rchunked r.
Proof.
  destruct fuel as [|f]; cbn [deser_struct]; [reflexivity|].
  destruct (env_find E cls) as [d|]; [apply deser_body_chunked | reflexivity].
Qed.

Lemma deser_struct_keeps fuel E : deser_rec_keeps (deser_struct fuel E).
Proof. intros n r. apply deser_struct_chunked. Qed.

Lemma deserialize_chunked E cls data b : rchunked (fst (deserialize E cls data b)) = b.
Proof. unfold deserialize. rewrite deser_struct_chunked. destruct b; reflexivity. Qed.
