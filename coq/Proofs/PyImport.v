(* Lemmas about the import-system model (Model/PyImport.v) used by property C20. *)
From EO Require Import Prelude.Py Model.Spec Model.PyImport.
From Coq Require Import String.
Set Default Timeout 60.
Open Scope string_scope.
Open Scope list_scope.

(* ------------------------------------------------------------------------------------------ *)
(* 0. basics: option bind, sys.modules lookup/update, namespaces                              *)
(* ------------------------------------------------------------------------------------------ *)
Lemma obind_some {A B} (o : option A) (f : A -> option B) b :
  obind o f = Some b -> exists a, o = Some a /\ f a = Some b.
Proof. destruct o as [a|]; simpl; intros H; [eauto | discriminate]. Qed.

Lemma wfind_wset_same w p m : wfind (wset w p m) p = Some m.
Proof.
  induction w as [|[q x] t IH]; simpl.
  - rewrite String.eqb_refl; reflexivity.
  - destruct (String.eqb q p) eqn:E; simpl; rewrite E; auto.
Qed.

Lemma wfind_wset_other w p q m : p <> q -> wfind (wset w p m) q = wfind w q.
Proof.
  intros Hne. induction w as [|[r x] t IH]; simpl.
  - destruct (String.eqb p q) eqn:E; auto. apply String.eqb_eq in E; contradiction.
  - destruct (String.eqb r p) eqn:E; simpl.
    + apply String.eqb_eq in E; subst r.
      destruct (String.eqb p q) eqn:E2; auto. apply String.eqb_eq in E2; contradiction.
    + destruct (String.eqb r q); auto.
Qed.

Lemma wfind_bind_same w p k v m :
  wfind w p = Some m -> wfind (bind w p k v) p = Some (mkM (m_ns m ++ [(k, v)]) (m_all m) (m_done m)).
Proof. intros H. unfold bind. rewrite H. apply wfind_wset_same. Qed.

Lemma wfind_bind_other w p q k v : p <> q -> wfind (bind w p k v) q = wfind w q.
Proof. intros H. unfold bind. destruct (wfind w p); auto. apply wfind_wset_other; auto. Qed.

Lemma bind_unregistered w p k v : wfind w p = None -> bind w p k v = w.
Proof. intros H. unfold bind. rewrite H. reflexivity. Qed.

Lemma wfind_bind_none w p q k v : wfind w q = None -> wfind (bind w p k v) q = None.
Proof.
  intros H. destruct (string_dec p q) as [->|Hne].
  - rewrite bind_unregistered; auto.
  - rewrite wfind_bind_other; auto.
Qed.

Lemma ns_get_app a b k acc : ns_get (a ++ b) k acc = ns_get b k (ns_get a k acc).
Proof. revert acc. induction a as [|[k' v] t IH]; intros acc; simpl; auto. Qed.

Lemma ns_get_acc l k acc :
  ns_get l k acc = match ns_get l k None with Some v => Some v | None => acc end.
Proof.
  revert acc. induction l as [|[k' v] t IH]; intros acc; simpl; auto.
  rewrite IH. rewrite (IH (if String.eqb k' k then Some v else None)).
  destruct (ns_get t k None); auto. destruct (String.eqb k' k); auto.
Qed.

Lemma ns_lookup_app ns l k :
  ns_lookup (ns ++ l) k = match ns_lookup l k with Some v => Some v | None => ns_lookup ns k end.
Proof. unfold ns_lookup. rewrite ns_get_app, ns_get_acc. reflexivity. Qed.

Lemma ns_lookup_cons k' v t k :
  ns_lookup ((k', v) :: t) k =
  match ns_lookup t k with Some x => Some x | None => if String.eqb k' k then Some v else None end.
Proof. unfold ns_lookup. simpl. rewrite ns_get_acc. reflexivity. Qed.

Lemma ns_lookup_snoc_same ns k v : ns_lookup (ns ++ [(k, v)]) k = Some v.
Proof. rewrite ns_lookup_app, ns_lookup_cons. unfold ns_lookup; simpl. rewrite String.eqb_refl. reflexivity. Qed.

Lemma ns_lookup_snoc_other ns k k' v : k' <> k -> ns_lookup (ns ++ [(k', v)]) k = ns_lookup ns k.
Proof.
  intros H. rewrite ns_lookup_app, ns_lookup_cons. unfold ns_lookup at 1; simpl.
  destruct (String.eqb k' k) eqn:E; auto. apply String.eqb_eq in E; contradiction.
Qed.

Lemma ns_lookup_in l k : In k (map fst l) -> exists v, ns_lookup l k = Some v.
Proof.
  induction l as [|[k' v] t IH]; simpl; intros H; [contradiction|].
  rewrite ns_lookup_cons. destruct (ns_lookup t k) as [x|] eqn:E; eauto.
  destruct H as [->|H].
  - rewrite String.eqb_refl; eauto.
  - destruct (IH H) as [x Hx]; discriminate.
Qed.

Lemma ns_lookup_notin l k : ~ In k (map fst l) -> ns_lookup l k = None.
Proof.
  induction l as [|[k' v] t IH]; simpl; intros H; [reflexivity|].
  rewrite ns_lookup_cons, IH by tauto.
  destruct (String.eqb k' k) eqn:E; auto. apply String.eqb_eq in E. tauto.
Qed.

Lemma ns_lookup_forall (Q : string * obj -> Prop) l k v :
  Forall Q l -> ns_lookup l k = Some v -> Q (k, v).
Proof.
  induction l as [|[k' x] t IH]; intros HF H.
  - discriminate.
  - inversion HF as [|? ? Hq Ht]; subst. rewrite ns_lookup_cons in H.
    destruct (ns_lookup t k) as [y|] eqn:E.
    + inversion H; subst. auto.
    + destruct (String.eqb k' k) eqn:E2; [|discriminate].
      apply String.eqb_eq in E2. inversion H; subst. exact Hq.
Qed.

(* ------------------------------------------------------------------------------------------ *)
(* 1. dotted paths: p = parent_of p ++ "." ++ leaf_of p                                         *)
(* ------------------------------------------------------------------------------------------ *)
Lemma sapp_assoc (a b c : string) : ((a ++ b) ++ c = a ++ (b ++ c))%string.
Proof. induction a as [|ch a IH]; simpl; [reflexivity | rewrite IH; reflexivity]. Qed.

Lemma sapp_nil_r (a : string) : (a ++ "" = a)%string.
Proof. induction a as [|ch a IH]; simpl; [reflexivity | rewrite IH; reflexivity]. Qed.

Lemma split_dots_nonempty s acc : split_dots s acc <> [].
Proof.
  revert acc. induction s as [|c s IH]; intros acc; simpl; [discriminate|].
  destruct (Ascii.ascii_dec c ".") as [->|Hne]; [discriminate|].
  assert (E : split_dots (String c s) acc = split_dots s (acc ++ String c "")).
  { simpl. destruct c as [[] [] [] [] [] [] [] []]; try reflexivity. contradiction Hne; reflexivity. }
  simpl in E. rewrite E. apply IH.
Qed.

Lemma join_split s acc : join_dots (split_dots s acc) = (acc ++ s)%string.
Proof.
  revert acc. induction s as [|c s IH]; intros acc.
  - simpl. rewrite sapp_nil_r. reflexivity.
  - destruct (Ascii.ascii_dec c ".") as [->|Hne].
    + change (split_dots (String "." s) acc) with (acc :: split_dots s "").
      destruct (split_dots s "") as [|x t] eqn:E; [exfalso; eapply split_dots_nonempty; eauto|].
      change (join_dots (acc :: x :: t)) with (acc ++ "." ++ join_dots (x :: t))%string.
      rewrite <- E, IH. reflexivity.
    + assert (E : split_dots (String c s) acc = split_dots s (acc ++ String c "")).
      { simpl. destruct c as [[] [] [] [] [] [] [] []]; try reflexivity. contradiction Hne; reflexivity. }
      rewrite E, IH, sapp_assoc. reflexivity.
Qed.

Lemma join_snoc a x : a <> [] -> join_dots (a ++ [x]) = (join_dots a ++ "." ++ x)%string.
Proof.
  induction a as [|y a IH]; intros H; [contradiction|].
  destruct a as [|z a'].
  - reflexivity.
  - change (join_dots ((y :: z :: a') ++ [x])) with (y ++ "." ++ join_dots ((z :: a') ++ [x]))%string.
    rewrite IH by discriminate.
    change (join_dots (y :: z :: a')) with (y ++ "." ++ join_dots (z :: a'))%string.
    rewrite !sapp_assoc. reflexivity.
Qed.

Lemma path_split p : parent_of p <> "" -> p = (parent_of p ++ "." ++ leaf_of p)%string.
Proof.
  unfold parent_of, leaf_of. intros H.
  assert (Hl := split_dots_nonempty p "").
  assert (Hj := join_split p ""). simpl in Hj.
  rewrite (app_removelast_last "" Hl) in Hj.
  rewrite join_snoc in Hj; [congruence|].
  intros E. rewrite E in H. apply H. reflexivity.
Qed.

(* ------------------------------------------------------------------------------------------ *)
(* 2. unfolding equations for the mutually recursive interpreter                                *)
(* ------------------------------------------------------------------------------------------ *)
Definition fresh_mod : mstate := mkM [] None false.

(* what happens when a module's body has run: marked done, then bound in its parent *)
Definition finish (p : string) (w3 : world) : world :=
  let w4 := match wfind w3 p with Some m => wset w3 p (mkM (m_ns m) (m_all m) true) | None => w3 end in
  if String.eqb (parent_of p) EmptyString then w4 else bind w4 (parent_of p) (leaf_of p) (OMod p).

Definition import_step (f : nat) (P : program) (w : world) (p : string) : option world :=
  match wfind w p with
  | Some _ => Some w
  | None =>
    match pfind P p with
    | None => Some w
    | Some body =>
      obind (if String.eqb (parent_of p) EmptyString then Some w else import_module f P w (parent_of p)) (fun w1 =>
      match wfind w1 p with
      | Some _ => Some w1
      | None => obind (exec_stmts f P (wset w1 p fresh_mod) p body) (fun w3 => Some (finish p w3))
      end)
    end
  end.

Definition star_fold (cur : string) (m : mstate) (w : world) : world :=
  fold_left (fun w k => match ns_lookup (m_ns m) k with Some v => bind w cur k v | None => w end) (public_names m) w.

Definition from_item (f : nat) (P : program) (cur t : string) (w : world) (ab : string * string) : option world :=
  let '(a, b) := ab in
  match wfind w t with
  | Some m =>
    match ns_lookup (m_ns m) a with
    | Some v => Some (bind w cur b v)
    | None =>
      let sub := (t ++ "." ++ a)%string in
      if is_internal P sub then obind (import_module f P w sub) (fun w => Some (bind w cur b (OMod sub))) else Some w
    end
  | None => Some (bind w cur b (ODef t a))
  end.

Definition rebind_item (f : nat) (P : program) (cur : string) (w : world) (n : string) : option world :=
  let sub := (cur ++ "." ++ n)%string in
  obind (import_module f P w sub) (fun w => Some (bind w cur n (OMod sub))).

Definition exec_stmt (f : nat) (P : program) (w : world) (cur : string) (s : stmt) : option world :=
  match s with
  | SStar t =>
    obind (import_module f P w t) (fun w =>
    match wfind w t with Some m => Some (star_fold cur m w) | None => Some w end)
  | SFrom t names => obind (import_module f P w t) (fun w => ofold (from_item f P cur t) names w)
  | SImport b bound t => obind (import_module f P w t) (fun w => Some (bind w cur b (OMod bound)))
  | SDef n => Some (bind w cur n (ODef cur n))
  | SAll l => Some (match wfind w cur with Some m => wset w cur (mkM (m_ns m) (Some l) (m_done m)) | None => w end)
  | SRebind names => ofold (rebind_item f P cur) names w
  end.

Lemma import_module_0 P w p : import_module 0 P w p = None.
Proof. reflexivity. Qed.
Lemma exec_stmts_0 P w cur body : exec_stmts 0 P w cur body = None.
Proof. reflexivity. Qed.
Lemma import_module_S f P w p : import_module (S f) P w p = import_step f P w p.
Proof. reflexivity. Qed.
Lemma exec_stmts_S_nil f P w cur : exec_stmts (S f) P w cur [] = Some w.
Proof. reflexivity. Qed.
Lemma exec_stmts_S_cons f P w cur s rest :
  exec_stmts (S f) P w cur (s :: rest) = obind (exec_stmt f P w cur s) (fun w => exec_stmts f P w cur rest).
Proof. destruct s; reflexivity. Qed.

Lemma import_step_inv f P w p w' :
  import_step f P w p = Some w' ->
  (w' = w /\ (wfind w p <> None \/ pfind P p = None)) \/
  exists body w1,
    wfind w p = None /\ pfind P p = Some body /\
    (if String.eqb (parent_of p) EmptyString then w1 = w else import_module f P w (parent_of p) = Some w1) /\
    ((w' = w1 /\ wfind w1 p <> None) \/
     (wfind w1 p = None /\ exists w3, exec_stmts f P (wset w1 p fresh_mod) p body = Some w3 /\ w' = finish p w3)).
Proof.
  unfold import_step. intros H.
  destruct (wfind w p) as [m|] eqn:Hw.
  { inversion H; subst. left. split; auto. left; congruence. }
  destruct (pfind P p) as [body|] eqn:Hp.
  2:{ inversion H; subst. left. split; auto. }
  right. exists body.
  apply obind_some in H as (w1 & H1 & H). exists w1.
  split; [reflexivity|]. split; [reflexivity|]. split.
  { destruct (String.eqb (parent_of p) ""); [inversion H1; reflexivity | exact H1]. }
  destruct (wfind w1 p) as [m1|] eqn:Hw1.
  { inversion H; subst. left. split; auto. congruence. }
  right. split; [reflexivity|].
  apply obind_some in H as (w3 & H3 & H). exists w3. split; auto. inversion H; reflexivity.
Qed.

(* ------------------------------------------------------------------------------------------ *)
(* 3. fuel monotonicity                                                                         *)
(* ------------------------------------------------------------------------------------------ *)
Lemma ofold_mono {A B} (f g : A -> B -> option A) l :
  (forall a x a', f a x = Some a' -> g a x = Some a') ->
  forall a a', ofold f l a = Some a' -> ofold g l a = Some a'.
Proof.
  intros Hfg. induction l as [|x t IH]; intros a a' H; simpl in *; auto.
  apply obind_some in H as (a1 & H1 & H). rewrite (Hfg _ _ _ H1). simpl. auto.
Qed.

Section Mono.
  Variables (f f' : nat) (P : program).
  Hypothesis Hi : forall w p w', import_module f P w p = Some w' -> import_module f' P w p = Some w'.
  Hypothesis He : forall w c b w', exec_stmts f P w c b = Some w' -> exec_stmts f' P w c b = Some w'.

  Lemma import_step_mono w p w' : import_step f P w p = Some w' -> import_step f' P w p = Some w'.
  Proof.
    unfold import_step. destruct (wfind w p); auto. destruct (pfind P p) as [body|]; auto.
    intros H. apply obind_some in H as (w1 & H1 & H).
    assert (H1' : (if String.eqb (parent_of p) "" then Some w else import_module f' P w (parent_of p)) = Some w1).
    { destruct (String.eqb (parent_of p) ""); auto. }
    rewrite H1'. simpl. destruct (wfind w1 p); auto.
    apply obind_some in H as (w3 & H3 & H). rewrite (He _ _ _ _ H3). simpl. exact H.
  Qed.

  Lemma exec_stmt_mono w c s w' : exec_stmt f P w c s = Some w' -> exec_stmt f' P w c s = Some w'.
  Proof.
    destruct s as [t|t names|b bound t|n|l|names]; simpl; intros H; auto.
    - apply obind_some in H as (w1 & H1 & H). rewrite (Hi _ _ _ H1). exact H.
    - apply obind_some in H as (w1 & H1 & H). rewrite (Hi _ _ _ H1). simpl.
      revert H. apply ofold_mono. intros a [x y] a'. unfold from_item.
      destruct (wfind a t) as [m|]; auto. destruct (ns_lookup (m_ns m) x); auto.
      destruct (is_internal P (t ++ "." ++ x)); auto.
      intros H. apply obind_some in H as (w2 & H2 & H). rewrite (Hi _ _ _ H2). exact H.
    - apply obind_some in H as (w1 & H1 & H). rewrite (Hi _ _ _ H1). exact H.
    - revert H. apply ofold_mono. intros a x a'. unfold rebind_item.
      intros H. apply obind_some in H as (w2 & H2 & H). rewrite (Hi _ _ _ H2). exact H.
  Qed.
End Mono.

Lemma fuel_mono_S : forall fuel P,
  (forall w p w', import_module fuel P w p = Some w' -> import_module (S fuel) P w p = Some w') /\
  (forall w c b w', exec_stmts fuel P w c b = Some w' -> exec_stmts (S fuel) P w c b = Some w').
Proof.
  induction fuel as [|f IH]; intros P; split; intros.
  - rewrite import_module_0 in H; discriminate.
  - rewrite exec_stmts_0 in H; discriminate.
  - destruct (IH P) as [IHi IHe]. rewrite import_module_S in *. eapply import_step_mono; eauto.
  - destruct (IH P) as [IHi IHe]. destruct b as [|s rest].
    + rewrite exec_stmts_S_nil in *. exact H.
    + rewrite exec_stmts_S_cons in *. apply obind_some in H as (w1 & H1 & H).
      rewrite (exec_stmt_mono _ _ _ IHi _ _ _ _ H1). simpl. apply IHe. exact H.
Qed.

Lemma import_fuel_mono fuel fuel' P w p w' :
  import_module fuel P w p = Some w' -> (fuel <= fuel')%nat -> import_module fuel' P w p = Some w'.
Proof. intros H Hle. induction Hle; auto. apply fuel_mono_S; auto. Qed.

Lemma exec_fuel_mono fuel fuel' P w c b w' :
  exec_stmts fuel P w c b = Some w' -> (fuel <= fuel')%nat -> exec_stmts fuel' P w c b = Some w'.
Proof. intros H Hle. induction Hle; auto. apply fuel_mono_S; auto. Qed.

(* ------------------------------------------------------------------------------------------ *)
(* 4. a statement is a sequence of imports and of updates of the current module                 *)
(* ------------------------------------------------------------------------------------------ *)
Inductive lstep (f : nat) (P : program) (cur : string) : world -> world -> Prop :=
| ls_import w p w1 : import_module f P w p = Some w1 -> lstep f P cur w w1
| ls_bind w k v : lstep f P cur w (bind w cur k v)
| ls_all w m l : wfind w cur = Some m -> lstep f P cur w (wset w cur (mkM (m_ns m) (Some l) (m_done m))).
Inductive lrun (f : nat) (P : program) (cur : string) : world -> world -> Prop :=
| lr_refl w : lrun f P cur w w
| lr_step w w1 w2 : lstep f P cur w w1 -> lrun f P cur w1 w2 -> lrun f P cur w w2.

Lemma lrun_trans f P cur w w1 w2 : lrun f P cur w w1 -> lrun f P cur w1 w2 -> lrun f P cur w w2.
Proof. induction 1 as [|a b c Hs Hr IH]; auto. intros H2. econstructor; eauto. Qed.
Lemma lrun_one f P cur w w1 : lstep f P cur w w1 -> lrun f P cur w w1.
Proof. intros H. econstructor; [exact H | constructor]. Qed.

Lemma lrun_rel f P cur (R : world -> world -> Prop) :
  (forall a, R a a) -> (forall a b c, R a b -> R b c -> R a c) ->
  (forall w w1, lstep f P cur w w1 -> R w w1) ->
  forall w w', lrun f P cur w w' -> R w w'.
Proof. intros Hr Ht Hs w w' H. induction H as [|a b c Hab Hbc IH]; eauto. Qed.

Lemma ofold_rel {A B} (R : A -> A -> Prop) (f : A -> B -> option A) l :
  (forall a, R a a) -> (forall a b c, R a b -> R b c -> R a c) ->
  (forall a x a', f a x = Some a' -> R a a') ->
  forall a a', ofold f l a = Some a' -> R a a'.
Proof.
  intros Hr Ht Hs. induction l as [|x t IH]; intros a a' H; simpl in H.
  - inversion H; subst; auto.
  - apply obind_some in H as (a1 & H1 & H). eauto.
Qed.

Lemma star_fold_lrun f P cur m w : lrun f P cur w (star_fold cur m w).
Proof.
  unfold star_fold. generalize (public_names m) as l. intros l. revert w.
  induction l as [|k t IH]; intros w; simpl; [constructor|].
  eapply lrun_trans; [|apply IH].
  destruct (ns_lookup (m_ns m) k); [apply lrun_one; constructor | constructor].
Qed.

Lemma exec_stmt_lrun f P w cur s w' : exec_stmt f P w cur s = Some w' -> lrun f P cur w w'.
Proof.
  destruct s as [t|t names|b bound t|n|l|names]; simpl; intros H.
  - apply obind_some in H as (w1 & H1 & H).
    eapply lr_step; [eapply ls_import; exact H1|].
    destruct (wfind w1 t); inversion H; subst; [apply star_fold_lrun | constructor].
  - apply obind_some in H as (w1 & H1 & H).
    eapply lr_step; [eapply ls_import; exact H1|].
    revert H. apply ofold_rel; [constructor | apply lrun_trans |].
    intros a [x y] a'. unfold from_item.
    destruct (wfind a t) as [m|].
    + destruct (ns_lookup (m_ns m) x).
      * intros H; inversion H; subst. apply lrun_one; constructor.
      * destruct (is_internal P (t ++ "." ++ x)).
        -- intros H. apply obind_some in H as (w2 & H2 & H). inversion H; subst.
           eapply lr_step; [eapply ls_import; exact H2|]. apply lrun_one; constructor.
        -- intros H; inversion H; subst. constructor.
    + intros H; inversion H; subst. apply lrun_one; constructor.
  - apply obind_some in H as (w1 & H1 & H). inversion H; subst.
    eapply lr_step; [eapply ls_import; exact H1|]. apply lrun_one; constructor.
  - inversion H; subst. apply lrun_one; constructor.
  - inversion H; subst. destruct (wfind w cur) as [m|] eqn:E; [|constructor].
    apply lrun_one. apply ls_all; exact E.
  - revert H. apply ofold_rel; [constructor | apply lrun_trans |].
    intros a x a'. unfold rebind_item. intros H.
    apply obind_some in H as (w2 & H2 & H). inversion H; subst.
    eapply lr_step; [eapply ls_import; exact H2|]. apply lrun_one; constructor.
Qed.

Lemma exec_stmts_single fuel P w c s w' :
  exec_stmts fuel P w c [s] = Some w' -> exists f, fuel = S (S f) /\ exec_stmt (S f) P w c s = Some w'.
Proof.
  destruct fuel as [|f]; [rewrite exec_stmts_0; discriminate|].
  rewrite exec_stmts_S_cons. intros H. apply obind_some in H as (w1 & H1 & H).
  destruct f as [|f]; [rewrite exec_stmts_0 in H; discriminate|].
  rewrite exec_stmts_S_nil in H. inversion H; subst. eauto.
Qed.

Lemma exec_stmts_app fuel P w c a b w' :
  exec_stmts fuel P w c (a ++ b) = Some w' ->
  exists w1, exec_stmts fuel P w c a = Some w1 /\ exec_stmts (fuel - List.length a) P w1 c b = Some w'.
Proof.
  revert fuel w. induction a as [|s a IH]; intros fuel w H.
  - destruct fuel as [|f]; [rewrite exec_stmts_0 in H; discriminate|].
    exists w. rewrite exec_stmts_S_nil. split; auto.
  - destruct fuel as [|f]; [rewrite exec_stmts_0 in H; discriminate|].
    simpl app in H. rewrite exec_stmts_S_cons in H. apply obind_some in H as (w1 & H1 & H).
    apply IH in H as (w2 & H2 & H3). exists w2. rewrite exec_stmts_S_cons, H1. simpl. auto.
Qed.

(* ------------------------------------------------------------------------------------------ *)
(* 5. nothing leaves sys.modules; a completed module stays completed                            *)
(* ------------------------------------------------------------------------------------------ *)
Definition wle (w w' : world) : Prop :=
  forall q m, wfind w q = Some m -> exists m', wfind w' q = Some m' /\ (m_done m = true -> m_done m' = true).

Lemma wle_refl w : wle w w.
Proof. intros q m H; eauto. Qed.
Lemma wle_trans a b c : wle a b -> wle b c -> wle a c.
Proof.
  intros H1 H2 q m H. destruct (H1 _ _ H) as (m1 & Hm1 & Hd1). destruct (H2 _ _ Hm1) as (m2 & Hm2 & Hd2). eauto.
Qed.
Lemma wle_wset_new w p m : wfind w p = None -> wle w (wset w p m).
Proof. intros H q m0 Hq. assert (p <> q) by congruence. rewrite wfind_wset_other; eauto. Qed.
Lemma wle_wset_upd w p m m' :
  wfind w p = Some m -> (m_done m = true -> m_done m' = true) -> wle w (wset w p m').
Proof.
  intros H Hd q m0 Hq. destruct (string_dec p q) as [->|Hne].
  - rewrite wfind_wset_same. exists m'. split; auto. rewrite H in Hq; inversion Hq; subst; auto.
  - rewrite wfind_wset_other; eauto.
Qed.
Lemma wle_bind w p k v : wle w (bind w p k v).
Proof.
  unfold bind. destruct (wfind w p) as [m|] eqn:E; [|apply wle_refl].
  eapply wle_wset_upd; eauto.
Qed.
Lemma wle_finish p w : wle w (finish p w).
Proof.
  unfold finish. eapply wle_trans.
  2:{ destruct (String.eqb (parent_of p) ""); [apply wle_refl | apply wle_bind]. }
  destruct (wfind w p) as [m|] eqn:E; [|apply wle_refl]. eapply wle_wset_upd; eauto.
Qed.

Lemma lstep_wle f P cur :
  (forall w p w', import_module f P w p = Some w' -> wle w w') ->
  forall w w1, lstep f P cur w w1 -> wle w w1.
Proof.
  intros IHi w w1 H. destruct H as [w p w1 H|w k v|w m l H]; eauto using wle_bind.
  eapply wle_wset_upd; eauto.
Qed.

Lemma wle_all : forall fuel P,
  (forall w p w', import_module fuel P w p = Some w' -> wle w w') /\
  (forall w c b w', exec_stmts fuel P w c b = Some w' -> wle w w').
Proof.
  induction fuel as [|f IH]; intros P; split; intros.
  - rewrite import_module_0 in H; discriminate.
  - rewrite exec_stmts_0 in H; discriminate.
  - destruct (IH P) as [IHi IHe]. rewrite import_module_S in H.
    apply import_step_inv in H as [[-> _] | (body & w1 & Hn & Hp & Hpar & Hrest)]; [apply wle_refl|].
    assert (Hw1 : wle w w1).
    { destruct (String.eqb (parent_of p) ""); [subst; apply wle_refl | eauto]. }
    destruct Hrest as [[-> _] | (Hn1 & w3 & He & ->)]; auto.
    eapply wle_trans; [exact Hw1|]. eapply wle_trans; [apply wle_wset_new; exact Hn1|].
    eapply wle_trans; [eapply IHe; exact He | apply wle_finish].
  - destruct (IH P) as [IHi IHe]. destruct b as [|s rest].
    + rewrite exec_stmts_S_nil in H. inversion H; subst. apply wle_refl.
    + rewrite exec_stmts_S_cons in H. apply obind_some in H as (w1 & H1 & H).
      eapply wle_trans; [|eapply IHe; exact H].
      apply exec_stmt_lrun in H1. revert H1.
      apply lrun_rel; [apply wle_refl | apply wle_trans | apply lstep_wle; exact IHi].
Qed.

Lemma import_wle fuel P w p w' : import_module fuel P w p = Some w' -> wle w w'.
Proof. apply wle_all. Qed.
Lemma exec_wle fuel P w c b w' : exec_stmts fuel P w c b = Some w' -> wle w w'.
Proof. apply wle_all. Qed.
Lemma exec_stmt_wle f P w c s w' : exec_stmt f P w c s = Some w' -> wle w w'.
Proof.
  intros H. apply exec_stmt_lrun in H. revert H.
  apply lrun_rel; [apply wle_refl | apply wle_trans | apply lstep_wle; apply import_wle].
Qed.

Lemma import_registers fuel P w p w' :
  import_module fuel P w p = Some w' -> is_internal P p = true -> exists m, wfind w' p = Some m.
Proof.
  destruct fuel as [|f]; [rewrite import_module_0; discriminate|].
  rewrite import_module_S. intros H Hint.
  apply import_step_inv in H as [[-> Hs] | (body & w1 & Hn & Hp & Hpar & Hrest)].
  - destruct Hs as [Hs|Hs].
    + destruct (wfind w p); [eauto | contradiction].
    + unfold is_internal in Hint. rewrite Hs in Hint. discriminate.
  - destruct Hrest as [[-> Hr] | (Hn1 & w3 & He & ->)].
    + destruct (wfind w1 p); [eauto | contradiction].
    + apply exec_wle in He.
      destruct (He p fresh_mod (wfind_wset_same _ _ _)) as (m3 & Hm3 & _).
      destruct (wle_finish p w3 p m3 Hm3) as (m4 & Hm4 & _). eauto.
Qed.

(* ------------------------------------------------------------------------------------------ *)
(* 6. the frame lemma: while a module is in sys.modules, code running in OTHER modules changes   *)
(*    its namespace only by appending `leaf -> the submodule with that leaf` (a completed child) *)
(* ------------------------------------------------------------------------------------------ *)
Definition child_binding (cur : string) (kv : string * obj) : Prop :=
  snd kv = OMod (cur ++ "." ++ fst kv).
Definition mext (m : mstate) (l : list (string * obj)) : mstate := mkM (m_ns m ++ l) (m_all m) (m_done m).
Definition frame_ext (cur : string) (w w' : world) : Prop :=
  forall m, wfind w cur = Some m -> exists l, wfind w' cur = Some (mext m l) /\ Forall (child_binding cur) l.

Lemma mext_nil m : mext m [] = m.
Proof. destruct m; unfold mext; simpl. rewrite app_nil_r. reflexivity. Qed.
Lemma mext_mext m a b : mext (mext m a) b = mext m (a ++ b).
Proof. unfold mext; simpl. rewrite app_assoc. reflexivity. Qed.

Lemma frame_ext_same cur w w' : wfind w' cur = wfind w cur -> frame_ext cur w w'.
Proof. intros E m H. exists []. rewrite mext_nil. split; [congruence | constructor]. Qed.
Lemma frame_ext_refl cur w : frame_ext cur w w.
Proof. apply frame_ext_same; reflexivity. Qed.
Lemma frame_ext_trans cur a b c : frame_ext cur a b -> frame_ext cur b c -> frame_ext cur a c.
Proof.
  intros H1 H2 m H. destruct (H1 _ H) as (l1 & Hm1 & F1). destruct (H2 _ Hm1) as (l2 & Hm2 & F2).
  exists (l1 ++ l2). rewrite <- mext_mext. split; auto. apply Forall_app; auto.
Qed.
Lemma frame_ext_wset_other cur w p m : p <> cur -> frame_ext cur w (wset w p m).
Proof. intros H. apply frame_ext_same. apply wfind_wset_other; auto. Qed.
Lemma frame_ext_bind_other cur w p k v : p <> cur -> frame_ext cur w (bind w p k v).
Proof. intros H. apply frame_ext_same. apply wfind_bind_other; auto. Qed.
Lemma frame_ext_bind_child cur w k : frame_ext cur w (bind w cur k (OMod (cur ++ "." ++ k))).
Proof.
  intros m H. exists [(k, OMod (cur ++ "." ++ k))]. split.
  - rewrite (wfind_bind_same _ _ _ _ _ H). reflexivity.
  - constructor; [reflexivity | constructor].
Qed.
Lemma frame_ext_parent_bind cur w p :
  parent_of p <> "" -> frame_ext cur w (bind w (parent_of p) (leaf_of p) (OMod p)).
Proof.
  intros Hpar. destruct (string_dec (parent_of p) cur) as [E|Hne].
  - rewrite (path_split p Hpar) at 3. rewrite E. apply frame_ext_bind_child.
  - apply frame_ext_bind_other; auto.
Qed.
Lemma frame_ext_finish cur p w : p <> cur -> frame_ext cur w (finish p w).
Proof.
  intros Hne. unfold finish. eapply frame_ext_trans.
  2:{ destruct (String.eqb (parent_of p) "") eqn:E; [apply frame_ext_refl|].
      apply frame_ext_parent_bind. intros E2. rewrite E2 in E. discriminate. }
  destruct (wfind w p) as [m|]; [apply frame_ext_wset_other; exact Hne | apply frame_ext_refl].
Qed.

Lemma frame_all : forall fuel P,
  (forall w p w', import_module fuel P w p = Some w' -> forall cur, frame_ext cur w w') /\
  (forall w c b w', exec_stmts fuel P w c b = Some w' -> forall cur, cur <> c -> frame_ext cur w w').
Proof.
  induction fuel as [|f IH]; intros P; split; intros.
  - rewrite import_module_0 in H; discriminate.
  - rewrite exec_stmts_0 in H; discriminate.
  - destruct (IH P) as [IHi IHe]. rewrite import_module_S in H.
    apply import_step_inv in H as [[-> _] | (body & w1 & Hn & Hp & Hpar & Hrest)]; [apply frame_ext_refl|].
    assert (Hw1 : frame_ext cur w w1).
    { destruct (String.eqb (parent_of p) ""); [subst; apply frame_ext_refl | eauto]. }
    destruct Hrest as [[-> _] | (Hn1 & w3 & He & ->)]; auto.
    destruct (string_dec p cur) as [->|Hne].
    { intros m Hm. congruence. }
    eapply frame_ext_trans; [exact Hw1|].
    eapply frame_ext_trans; [apply frame_ext_wset_other; exact Hne|].
    eapply frame_ext_trans; [eapply IHe; [exact He | congruence] | apply frame_ext_finish; exact Hne].
  - destruct (IH P) as [IHi IHe]. destruct b as [|s rest].
    + rewrite exec_stmts_S_nil in H. inversion H; subst. apply frame_ext_refl.
    + rewrite exec_stmts_S_cons in H. apply obind_some in H as (w1 & H1 & H).
      eapply frame_ext_trans; [|eapply IHe; eauto].
      apply exec_stmt_lrun in H1. revert H1.
      apply lrun_rel; [apply frame_ext_refl | apply frame_ext_trans |].
      intros a a1 Hs. destruct Hs as [a p a1 Hs|a k v|a m l Hs]; eauto.
      * apply frame_ext_bind_other; congruence.
      * apply frame_ext_wset_other; congruence.
Qed.

Lemma import_frame fuel P w p w' cur : import_module fuel P w p = Some w' -> frame_ext cur w w'.
Proof. intros H. destruct (frame_all fuel P) as [Hi _]. eauto. Qed.
Lemma exec_frame fuel P w c b w' cur : exec_stmts fuel P w c b = Some w' -> cur <> c -> frame_ext cur w w'.
Proof. intros H Hne. destruct (frame_all fuel P) as [_ He]. eauto. Qed.

(* what a namespace looks up after child bindings were appended *)
Lemma lookup_child_ext cur ns l k :
  Forall (child_binding cur) l ->
  ns_lookup (ns ++ l) k = ns_lookup ns k \/ ns_lookup (ns ++ l) k = Some (OMod (cur ++ "." ++ k)).
Proof.
  intros HF. rewrite ns_lookup_app. destruct (ns_lookup l k) as [v|] eqn:E; auto.
  right. apply (ns_lookup_forall _ _ _ _ HF) in E. unfold child_binding in E. cbn [fst snd] in E. congruence.
Qed.
Lemma lookup_child_ext_stable cur ns l k :
  Forall (child_binding cur) l -> ns_lookup ns k = Some (OMod (cur ++ "." ++ k)) ->
  ns_lookup (ns ++ l) k = Some (OMod (cur ++ "." ++ k)).
Proof. intros HF H. destruct (lookup_child_ext cur ns l k HF) as [E|E]; congruence. Qed.
Lemma lookup_child_ext_in cur ns l k :
  Forall (child_binding cur) l -> In k (map fst l) -> ns_lookup (ns ++ l) k = Some (OMod (cur ++ "." ++ k)).
Proof.
  intros HF Hin. rewrite ns_lookup_app. destruct (ns_lookup_in _ _ Hin) as [v Hv]. rewrite Hv.
  apply (ns_lookup_forall _ _ _ _ HF) in Hv. unfold child_binding in Hv. cbn [fst snd] in Hv. congruence.
Qed.

(* ------------------------------------------------------------------------------------------ *)
(* 7. the re-binding loop                                                                        *)
(* ------------------------------------------------------------------------------------------ *)
Lemma rebind_loop f P cur names : forall w w' m0,
  ofold (rebind_item f P cur) names w = Some w' -> wfind w cur = Some m0 ->
  exists l, wfind w' cur = Some (mext m0 l) /\ Forall (child_binding cur) l /\ incl names (map fst l).
Proof.
  induction names as [|n t IH]; intros w w' m0 H Hm; simpl in H.
  - inversion H; subst. exists []. rewrite mext_nil. split; auto. split; [constructor | intros x []].
  - apply obind_some in H as (w1 & H1 & H). unfold rebind_item in H1.
    apply obind_some in H1 as (wa & Ha & H1). inversion H1; subst w1; clear H1.
    destruct (import_frame _ _ _ _ _ cur Ha _ Hm) as (la & Hma & Fa).
    pose proof (wfind_bind_same _ _ n (OMod (cur ++ "." ++ n)) _ Hma) as Hb.
    change (mkM (m_ns (mext m0 la) ++ [(n, OMod (cur ++ "." ++ n))]) (m_all (mext m0 la)) (m_done (mext m0 la)))
      with (mext (mext m0 la) [(n, OMod (cur ++ "." ++ n))]) in Hb.
    rewrite mext_mext in Hb.
    destruct (IH _ _ _ H Hb) as (l' & Hm' & F' & Hin'). rewrite mext_mext in Hm'.
    exists ((la ++ [(n, OMod (cur ++ "." ++ n))]) ++ l'). split; [exact Hm'|]. split.
    + apply Forall_app. split; auto. apply Forall_app. split; auto. constructor; [reflexivity | constructor].
    + intros x [<-|Hx]; rewrite !map_app, !in_app_iff; simpl; auto.
Qed.

(* ------------------------------------------------------------------------------------------ *)
(* 8. the copying part of `from t import *`                                                      *)
(* ------------------------------------------------------------------------------------------ *)
Definition copied_from (mt : mstate) (kv : string * obj) : Prop :=
  In (fst kv) (public_names mt) /\ ns_lookup (m_ns mt) (fst kv) = Some (snd kv).

Lemma star_copy_list cur mt names : forall w m0,
  wfind w cur = Some m0 ->
  let w' := fold_left (fun w k => match ns_lookup (m_ns mt) k with Some v => bind w cur k v | None => w end) names w in
  exists l, wfind w' cur = Some (mext m0 l) /\
            Forall (fun kv => In (fst kv) names /\ ns_lookup (m_ns mt) (fst kv) = Some (snd kv)) l /\
            (forall k v, In k names -> ns_lookup (m_ns mt) k = Some v -> In k (map fst l)) /\
            (forall q, q <> cur -> wfind w' q = wfind w q).
Proof.
  induction names as [|k t IH]; intros w m0 Hm; simpl.
  - exists []. rewrite mext_nil. repeat split; auto; intros k v [].
  - destruct (ns_lookup (m_ns mt) k) as [v|] eqn:E.
    + pose proof (wfind_bind_same _ _ k v _ Hm) as Hb.
      change (mkM (m_ns m0 ++ [(k, v)]) (m_all m0) (m_done m0)) with (mext m0 [(k, v)]) in Hb.
      destruct (IH _ _ Hb) as (l & Hl & F & Hin & Hoth). rewrite mext_mext in Hl.
      exists ([(k, v)] ++ l). split; [exact Hl|]. split; [|split].
      * apply Forall_app. split.
        -- constructor; [|constructor]. simpl. auto.
        -- eapply Forall_impl; [|exact F]. simpl. intros a [Ha Hb']. auto.
      * intros k' v' [<-|Hk] Hv; simpl; eauto.
      * intros q Hq. rewrite Hoth by exact Hq. apply wfind_bind_other. congruence.
    + destruct (IH _ _ Hm) as (l & Hl & F & Hin & Hoth).
      exists l. split; [exact Hl|]. split; [|split]; auto.
      * eapply Forall_impl; [|exact F]. simpl. intros a [Ha Hb']. auto.
      * intros k' v' [<-|Hk] Hv; eauto. congruence.
Qed.

Lemma star_fold_spec cur mt w m0 :
  wfind w cur = Some m0 ->
  exists m', wfind (star_fold cur mt w) cur = Some m' /\
    m_all m' = m_all m0 /\ m_done m' = m_done m0 /\
    (forall k v, In k (public_names mt) -> ns_lookup (m_ns mt) k = Some v -> ns_lookup (m_ns m') k = Some v) /\
    (forall k, ~ In k (public_names mt) -> ns_lookup (m_ns m') k = ns_lookup (m_ns m0) k) /\
    (forall q, q <> cur -> wfind (star_fold cur mt w) q = wfind w q).
Proof.
  intros Hm. destruct (star_copy_list cur mt (public_names mt) w m0 Hm) as (l & Hl & F & Hin & Hoth).
  exists (mext m0 l). split; [exact Hl|]. split; [reflexivity|]. split; [reflexivity|]. split; [|split].
  - intros k v Hk Hv. simpl. rewrite ns_lookup_app.
    destruct (ns_lookup_in _ _ (Hin _ _ Hk Hv)) as [v' Hv']. rewrite Hv'.
    apply (ns_lookup_forall _ _ _ _ F) in Hv'. cbn [fst snd] in Hv'. destruct Hv' as [_ Hv']. congruence.
  - intros k Hk. simpl. rewrite ns_lookup_app.
    destruct (ns_lookup l k) as [v'|] eqn:E; auto.
    apply (ns_lookup_forall _ _ _ _ F) in E. cbn [fst snd] in E. tauto.
  - exact Hoth.
Qed.

(* ------------------------------------------------------------------------------------------ *)
(* 9. module postconditions: whatever a module body establishes about its own namespace and is   *)
(*    stable under appending child bindings holds of every module imported by a complete run     *)
(* ------------------------------------------------------------------------------------------ *)
Lemma finish_dom p w q : wfind w q = None -> wfind (finish p w) q = None.
Proof.
  intros H. unfold finish.
  assert (H4 : wfind (match wfind w p with Some m => wset w p (mkM (m_ns m) (m_all m) true) | None => w end) q = None).
  { destruct (wfind w p) as [m|] eqn:E; auto. rewrite wfind_wset_other; auto. congruence. }
  destruct (String.eqb (parent_of p) ""); auto. apply wfind_bind_none; auto.
Qed.

Lemma finish_self p w m :
  wfind w p = Some m ->
  exists l, wfind (finish p w) p = Some (mkM (m_ns m ++ l) (m_all m) true) /\ Forall (child_binding p) l.
Proof.
  intros H. unfold finish. rewrite H.
  set (w4 := wset w p (mkM (m_ns m) (m_all m) true)).
  assert (H4 : wfind w4 p = Some (mkM (m_ns m) (m_all m) true)) by apply wfind_wset_same.
  destruct (String.eqb (parent_of p) "") eqn:E.
  - exists []. rewrite app_nil_r. split; [exact H4 | constructor].
  - assert (Hpar : parent_of p <> "") by (intros E2; rewrite E2 in E; discriminate).
    destruct (frame_ext_parent_bind p w4 p Hpar _ H4) as (l & Hl & F). exists l. split; auto.
Qed.

Section Post.
  Variable P : program.
  Variable Q : string -> list (string * obj) -> Prop.
  Hypothesis Q_stable : forall q ns l, Q q ns -> Forall (child_binding q) l -> Q q (ns ++ l).
  Hypothesis Q_body : forall fuel w q body w' m,
    pfind P q = Some body -> wfind w q = Some fresh_mod ->
    exec_stmts fuel P w q body = Some w' -> wfind w' q = Some m -> Q q (m_ns m).

  Definition new_ok (w w' : world) : Prop :=
    forall q, wfind w q = None -> forall m, wfind w' q = Some m -> m_done m = true /\ Q q (m_ns m).

  Lemma new_ok_samedom w w' : (forall q, wfind w q = None -> wfind w' q = None) -> new_ok w w'.
  Proof. intros H q Hq m Hm. rewrite (H q Hq) in Hm. discriminate. Qed.

  Lemma new_ok_trans w w1 w2 :
    new_ok w w1 -> new_ok w1 w2 -> (forall q, wfind w q = None -> frame_ext q w1 w2) -> new_ok w w2.
  Proof.
    intros H1 H2 Hf q Hq m Hm. destruct (wfind w1 q) as [m1|] eqn:E.
    - destruct (H1 q Hq _ E) as [Hd HQ]. destruct (Hf q Hq _ E) as (l & Hl & F).
      rewrite Hm in Hl. inversion Hl; subst. simpl. split; auto.
    - eapply H2; eauto.
  Qed.

  (* what one statement of module c does, as one relation *)
  Definition stmt_rel (c : string) (a b : world) : Prop :=
    wle a b /\ (forall cur, cur <> c -> frame_ext cur a b) /\ (wfind a c <> None -> new_ok a b).

  Lemma stmt_rel_refl c a : stmt_rel c a a.
  Proof.
    split; [apply wle_refl|]. split; [intros; apply frame_ext_refl|]. intros _. apply new_ok_samedom; auto.
  Qed.
  Lemma stmt_rel_trans c a b d : stmt_rel c a b -> stmt_rel c b d -> stmt_rel c a d.
  Proof.
    intros (L1 & F1 & N1) (L2 & F2 & N2). split; [eapply wle_trans; eauto|]. split.
    - intros cur Hc. eapply frame_ext_trans; eauto.
    - intros Hc. assert (Hb : wfind b c <> None).
      { destruct (wfind a c) as [m|] eqn:E; [|contradiction]. destruct (L1 _ _ E) as (m' & Hm' & _). congruence. }
      eapply new_ok_trans; eauto. intros q Hq. apply F2. congruence.
  Qed.

  Lemma new_all : forall fuel,
    (forall w p w', import_module fuel P w p = Some w' -> new_ok w w') /\
    (forall w c b w', exec_stmts fuel P w c b = Some w' -> wfind w c <> None -> new_ok w w').
  Proof.
    induction fuel as [|f IH]; split; intros.
    - rewrite import_module_0 in H; discriminate.
    - rewrite exec_stmts_0 in H; discriminate.
    - destruct IH as [IHi IHe]. rewrite import_module_S in H.
      apply import_step_inv in H as [[-> _] | (body & w1 & Hn & Hp & Hpar & Hrest)];
        [apply new_ok_samedom; auto|].
      assert (Hw1 : new_ok w w1).
      { destruct (String.eqb (parent_of p) ""); [subst; apply new_ok_samedom; auto | eauto]. }
      destruct Hrest as [[-> _] | (Hn1 & w3 & He & ->)]; auto.
      assert (Hreg : wfind (wset w1 p fresh_mod) p = Some fresh_mod) by apply wfind_wset_same.
      intros q Hq m Hm. destruct (string_dec q p) as [->|Hne].
      + destruct (exec_wle _ _ _ _ _ _ He _ _ Hreg) as (m3 & Hm3 & _).
        destruct (finish_self _ _ _ Hm3) as (l & Hl & F). rewrite Hm in Hl. inversion Hl; subst. simpl.
        split; auto. apply Q_stable; auto. eapply Q_body; eauto.
      + assert (Hfr : frame_ext q w1 (finish p w3)).
        { eapply frame_ext_trans; [apply (frame_ext_wset_other q w1 p fresh_mod); congruence|].
          eapply frame_ext_trans; [eapply exec_frame; [exact He | exact Hne] | apply frame_ext_finish; congruence]. }
        destruct (wfind w1 q) as [m1|] eqn:E1.
        * destruct (Hw1 q Hq _ E1) as [Hd HQ]. destruct (Hfr _ E1) as (l & Hl & F).
          rewrite Hm in Hl. inversion Hl; subst. simpl. split; auto.
        * assert (E2 : wfind (wset w1 p fresh_mod) q = None) by (rewrite wfind_wset_other; congruence).
          destruct (wfind w3 q) as [m3|] eqn:E3.
          2:{ rewrite (finish_dom p w3 q E3) in Hm. discriminate. }
          assert (Hc : wfind (wset w1 p fresh_mod) p <> None) by congruence.
          destruct (IHe _ _ _ _ He Hc q E2 _ E3) as [Hd HQ].
          destruct (frame_ext_finish q p w3 (not_eq_sym Hne) _ E3) as (l & Hl & F).
          rewrite Hm in Hl. inversion Hl; subst. simpl. split; auto.
    - destruct IH as [IHi IHe]. destruct b as [|s rest].
      + rewrite exec_stmts_S_nil in H. inversion H; subst. apply new_ok_samedom; auto.
      + rewrite exec_stmts_S_cons in H. apply obind_some in H as (w1 & H1 & H).
        assert (Hs : stmt_rel c w w1).
        { apply exec_stmt_lrun in H1. revert H1.
          apply lrun_rel; [apply stmt_rel_refl | apply stmt_rel_trans |].
          intros a a1 Hs. destruct Hs as [a p a1 Hs|a k v|a m l Hs].
          - split; [eapply import_wle; eauto|]. split; [intros; eapply import_frame; eauto | intros _; eauto].
          - split; [apply wle_bind|]. split; [intros; apply frame_ext_bind_other; congruence|].
            intros _. apply new_ok_samedom. intros q Hq. apply wfind_bind_none; auto.
          - split; [eapply wle_wset_upd; eauto|]. split; [intros; apply frame_ext_wset_other; congruence|].
            intros _. apply new_ok_samedom. intros q Hq. rewrite wfind_wset_other; congruence. }
        destruct Hs as (L1 & F1 & N1).
        assert (Hc1 : wfind w1 c <> None).
        { destruct (wfind w c) as [m|] eqn:E; [|contradiction]. destruct (L1 _ _ E) as (m' & Hm' & _). congruence. }
        eapply new_ok_trans; [apply N1; assumption | eapply IHe; eauto |].
        intros q Hq. eapply exec_frame; [exact H | congruence].
  Qed.

  Lemma fresh_run_post fuel first w :
    fresh_run fuel P first = Some w ->
    forall q m, wfind w q = Some m -> m_done m = true /\ Q q (m_ns m).
  Proof.
    unfold fresh_run. intros H. apply obind_some in H as (w1 & H1 & H2).
    destruct (new_all fuel) as [Hi _].
    assert (N : new_ok [] w).
    { eapply new_ok_trans; [eapply Hi; exact H1 | eapply Hi; exact H2 |].
      intros q _. eapply import_frame; exact H2. }
    intros q m Hm. apply (N q); auto.
  Qed.
End Post.
