(* Termination of the reference deserializer (Model/Deser.v) on classes accepted by Model/Progress.v:
   no `Err EFuel` - neither from a `while reader.remaining > 0:` loop nor from the struct-depth fuel. *)
From EO Require Import Prelude.Py Model.Number Model.StringEnc Model.Cp1252 Model.Reader Model.Spec Model.Ser Model.Deser Model.WfEnv Model.Progress Proofs.Reader Proofs.DeserSafe.
Open Scope Z_scope.
Set Default Timeout 60.

(* a property of the final reader state of a successful run *)
Definition post {A} (P : rstate -> Prop) (res : rres A) : Prop :=
  match snd res with Ok _ => P (fst res) | Err _ => True end.

(* cache valid and position not beyond the break: from here next_chunk() only moves forward *)
Definition tight (r : rstate) : Prop := rbrk r = find_break (rdata r) (rcstart r) /\ rpos r <= rbrk r.
Definition ab (a : bool) (r : rstate) : Prop := a = true -> tight r.

Lemma ab_weaken a a' r : (a' = true -> a = true) -> ab a r -> ab a' r.
Proof. intros I H X. apply H, I, X. Qed.

Lemma ab_false r : ab false r.
Proof. intros X. discriminate X. Qed.

(* ================= primitive reads: what they leave unchanged, how far they move ================= *)
Definition readrel (r r' : rstate) : Prop :=
  rdata r' = rdata r /\ rchunked r' = rchunked r /\ rcstart r' = rcstart r /\ rbrk r' = rbrk r /\
  rpos r <= rpos r' <= rpos r + r_remaining r.

Lemma readrel_refl r : r_inv r -> readrel r r.
Proof. intros H. pose proof (rem_bounds r H) as [R0 _]. unfold readrel. repeat split; lia. Qed.

Lemma readrel_read_bytes r n : r_inv r -> 0 <= n -> readrel r (fst (r_read_bytes r n)).
Proof.
  intros H Hn. pose proof (rem_bounds r H) as [R0 _]. unfold r_read_bytes. cbv zeta. cbn [fst].
  unfold readrel, r_set_pos. cbn [rdata rpos rchunked rcstart rbrk]. repeat split; lia.
Qed.

Lemma readrel_read_byte r : r_inv r -> readrel r (fst (r_read_byte r)).
Proof.
  intros H. unfold r_read_byte. destruct (r_remaining r >? 0) eqn:E; cbn [fst]; [|apply readrel_refl; exact H].
  unfold readrel, r_set_pos. cbn [rdata rpos rchunked rcstart rbrk]. repeat split; lia.
Qed.

Lemma readrel_number r size : r_inv r -> 0 <= size -> readrel r (fst (r_get_number r size)).
Proof.
  intros H Hs. pose proof (readrel_read_bytes r size H Hs) as K. unfold r_get_number.
  destruct (r_read_bytes r size) as [r' bs]. exact K.
Qed.

Lemma readrel_int_of t r : r_inv r -> readrel r (fst (r_get_int_of t r)).
Proof.
  intros H. destruct t; cbn [r_get_int_of].
  - apply readrel_read_byte; exact H.
  - apply readrel_number; [exact H | lia].
  - apply readrel_number; [exact H | lia].
  - apply readrel_number; [exact H | lia].
  - apply readrel_number; [exact H | lia].
Qed.

Definition is_struct (ty : etype) : bool := match ty with EStruct _ => true | _ => false end.

Lemma readrel_value rec ty len padded off r : is_struct ty = false -> r_inv r ->
  readrel r (fst (deser_value rec ty len padded off r)).
Proof.
  intros S H. pose proof (rem_bounds r H) as [R0 _].
  destruct ty as [t|t|nm t|enc| |nm]; cbn [deser_value]; [| | | | |discriminate S].
  - pose proof (readrel_int_of t r H) as K. destruct (r_get_int_of t r) as [r' z]. exact K.
  - pose proof (readrel_int_of t r H) as K. destruct (r_get_int_of t r) as [r' z]. exact K.
  - pose proof (readrel_int_of t r H) as K. destruct (r_get_int_of t r) as [r' z]. exact K.
  - destruct len as [n|]; destruct enc.
    + unfold r_get_fixed_encoded_string. destruct (n <? 0) eqn:E; cbn [fst]; [apply readrel_refl; exact H|].
      pose proof (readrel_read_bytes r n H ltac:(lia)) as K. destruct (r_read_bytes r n) as [r' bs]. exact K.
    + unfold r_get_fixed_string. destruct (n <? 0) eqn:E; cbn [fst]; [apply readrel_refl; exact H|].
      pose proof (readrel_read_bytes r n H ltac:(lia)) as K. destruct (r_read_bytes r n) as [r' bs]. exact K.
    + unfold r_get_encoded_string. pose proof (readrel_read_bytes r _ H R0) as K.
      destruct (r_read_bytes r (r_remaining r)) as [r' bs]. exact K.
    + unfold r_get_string. pose proof (readrel_read_bytes r _ H R0) as K.
      destruct (r_read_bytes r (r_remaining r)) as [r' bs]. exact K.
  - unfold r_get_bytes. pose proof (readrel_read_bytes r _ H R0) as K.
    destruct (r_read_bytes r (r_remaining r)) as [r' bs]. exact K.
Qed.

(* with data remaining, a read of >= 1 byte moves the position *)
Lemma adv_read_bytes r n : r_remaining r > 0 -> 0 < n -> rpos r < rpos (fst (r_read_bytes r n)).
Proof. intros R Hn. unfold r_read_bytes. cbv zeta. cbn [fst r_set_pos rpos]. lia. Qed.

Lemma adv_number r size : r_remaining r > 0 -> 0 < size -> rpos r < rpos (fst (r_get_number r size)).
Proof.
  intros R Hs. pose proof (adv_read_bytes r size R Hs) as K. unfold r_get_number.
  destruct (r_read_bytes r size) as [r' bs]. exact K.
Qed.

Lemma adv_int_of t r : r_remaining r > 0 -> rpos r < rpos (fst (r_get_int_of t r)).
Proof.
  intros R. destruct t; cbn [r_get_int_of].
  - unfold r_get_byte, r_read_byte. destruct (r_remaining r >? 0) eqn:E; [|lia]. cbn [fst r_set_pos rpos]. lia.
  - apply adv_number; [exact R | lia].
  - apply adv_number; [exact R | lia].
  - apply adv_number; [exact R | lia].
  - apply adv_number; [exact R | lia].
Qed.

(* the value reads that consume: ints, whole-rest strings / blobs, fixed strings of positive length *)
Definition adv_len (ty : etype) (len : option Z) : Prop :=
  match ty with
  | EStr _ => match len with None => True | Some n => 0 < n end
  | EStruct _ => False
  | _ => True
  end.

Lemma adv_value rec ty len padded off r : adv_len ty len -> r_remaining r > 0 ->
  post (fun r' => rpos r < rpos r') (deser_value rec ty len padded off r).
Proof.
  intros A R. unfold post.
  destruct ty as [t|t|nm t|enc| |nm]; cbn [deser_value adv_len] in *; [| | | | |destruct A].
  - pose proof (adv_int_of t r R) as K. destruct (r_get_int_of t r) as [r' z]. exact K.
  - pose proof (adv_int_of t r R) as K. destruct (r_get_int_of t r) as [r' z]. exact K.
  - pose proof (adv_int_of t r R) as K. destruct (r_get_int_of t r) as [r' z]. exact K.
  - destruct len as [n|]; destruct enc.
    + unfold r_get_fixed_encoded_string. destruct (n <? 0) eqn:E; cbn [snd]; [exact I|].
      pose proof (adv_read_bytes r n R A) as K. destruct (r_read_bytes r n) as [r' bs]. exact K.
    + unfold r_get_fixed_string. destruct (n <? 0) eqn:E; cbn [snd]; [exact I|].
      pose proof (adv_read_bytes r n R A) as K. destruct (r_read_bytes r n) as [r' bs]. exact K.
    + unfold r_get_encoded_string. pose proof (adv_read_bytes r (r_remaining r) R ltac:(lia)) as K.
      destruct (r_read_bytes r (r_remaining r)) as [r' bs]. exact K.
    + unfold r_get_string. pose proof (adv_read_bytes r (r_remaining r) R ltac:(lia)) as K.
      destruct (r_read_bytes r (r_remaining r)) as [r' bs]. exact K.
  - unfold r_get_bytes. pose proof (adv_read_bytes r (r_remaining r) R ltac:(lia)) as K.
    destruct (r_read_bytes r (r_remaining r)) as [r' bs]. exact K.
Qed.

(* no value read of a non-struct type fails with EFuel *)
Lemma value_not_fuel rec ty len padded off r : is_struct ty = false ->
  snd (deser_value rec ty len padded off r) <> Err EFuel.
Proof.
  intros S. destruct ty as [t|t|nm t|enc| |nm]; cbn [deser_value]; [| | | | |discriminate S].
  - destruct (r_get_int_of t r) as [r' z]. cbn [snd]. discriminate.
  - destruct (r_get_int_of t r) as [r' z]. cbn [snd]. discriminate.
  - destruct (r_get_int_of t r) as [r' z]. cbn [snd]. discriminate.
  - destruct len as [n|]; destruct enc.
    + unfold r_get_fixed_encoded_string. destruct (n <? 0); [cbn [snd]; discriminate|].
      destruct (r_read_bytes r n) as [r' bs]. cbn [snd]. discriminate.
    + unfold r_get_fixed_string. destruct (n <? 0); [cbn [snd]; discriminate|].
      destruct (r_read_bytes r n) as [r' bs]. cbn [snd]. discriminate.
    + destruct (r_get_encoded_string r) as [r' s]. cbn [snd]. discriminate.
    + destruct (r_get_string r) as [r' s]. cbn [snd]. discriminate.
  - destruct (r_get_bytes r (r_remaining r)) as [r' b]. cbn [snd]. discriminate.
Qed.

Lemma next_chunk_err_runtime r e : r_next_chunk r = Err e -> e = ERuntime.
Proof. unfold r_next_chunk. destruct (negb (rchunked r)); intros X; [injection X as <-; reflexivity | discriminate X]. Qed.

(* ================= tight states ================= *)
Lemma tight_of_remaining r : r_inv r -> rchunked r = true -> r_remaining r > 0 -> tight r.
Proof.
  intros [H1 [H2 H3]] C R. unfold r_remaining in R. rewrite C in R.
  destruct H3 as [H3|[_ H3]]; [|congruence]. split; [exact H3 | lia].
Qed.

Lemma tight_readrel r r' : rchunked r = true -> tight r -> readrel r r' -> tight r'.
Proof.
  intros C [T1 T2] [D [M [CS [B P]]]]. unfold r_remaining in P. rewrite C in P.
  split; [rewrite B, D, CS; exact T1 | rewrite B; lia].
Qed.

Lemma tight_set_chunked r b : r_inv r -> tight r -> tight (r_set_chunked r b).
Proof.
  intros [H1 [H2 _]] [T1 T2]. pose proof (find_break_bounds (rdata r) (rcstart r) ltac:(lia)) as B.
  unfold tight, r_set_chunked. cbn [rdata rpos rchunked rcstart rbrk].
  destruct (rbrk r =? -1) eqn:E; [lia|]. split; [exact T1 | exact T2].
Qed.

(* from a tight state next_chunk() moves forward and lands in a tight state *)
Lemma tight_next_chunk r r' : r_inv r -> tight r -> r_next_chunk r = Ok r' -> rpos r <= rpos r' /\ tight r'.
Proof.
  intros [H1 [H2 _]] [T1 T2] N. unfold r_next_chunk in N. destruct (negb (rchunked r)); [discriminate N|].
  injection N as <-. pose proof (find_break_bounds (rdata r) (rcstart r) ltac:(lia)) as B. rewrite <- T1 in B.
  unfold tight. cbn [rdata rpos rchunked rcstart rbrk].
  destruct (rbrk r <? zlen (rdata r)) eqn:L.
  - pose proof (find_break_bounds (rdata r) (rbrk r + 1) ltac:(lia)) as B2. split; [lia|]. split; [reflexivity | lia].
  - pose proof (find_break_bounds (rdata r) (rbrk r) ltac:(lia)) as B2. split; [lia|]. split; [reflexivity | lia].
Qed.

(* ================= the chunk start never moves backwards ================= *)
Definition keepsC (r r' : rstate) : Prop := keeps r r' /\ rcstart r <= rcstart r'.

Lemma keepsC_refl r : r_inv r -> keepsC r r.
Proof. intros H. split; [apply keeps_refl; exact H | lia]. Qed.

Lemma keepsC_trans r r1 r2 : keepsC r r1 -> keepsC r1 r2 -> keepsC r r2.
Proof. intros [K1 C1] [K2 C2]. split; [apply (keeps_trans r r1 r2 K1 K2) | lia]. Qed.

Lemma keepsC_set_chunked r b : r_inv r -> keepsC r (r_set_chunked r b).
Proof. intros H. split; [apply keeps_set_chunked; exact H | cbn [r_set_chunked rcstart]; lia]. Qed.

Lemma keepsC_next_chunk r r' : r_inv r -> r_next_chunk r = Ok r' -> keepsC r r'.
Proof.
  intros H N. split; [apply (keeps_next_chunk r r' H N)|].
  unfold r_next_chunk in N. destruct (rchunked r) eqn:C; cbn [negb] in N; [|discriminate N].
  injection N as <-. destruct H as [H1 [H2 H3]]. destruct H3 as [H3|[_ H3]]; [|congruence].
  pose proof (find_break_bounds (rdata r) (rcstart r) ltac:(lia)) as B. rewrite <- H3 in B.
  cbn [rcstart]. destruct (rbrk r <? zlen (rdata r)); lia.
Qed.

Section CsRec.
  Variable rec : string -> rstate -> rres value.
  Hypothesis HrecC : forall n r, r_inv r -> keepsC r (fst (rec n r)).

  Let Hrec : forall n r, r_inv r -> keeps r (fst (rec n r)) := fun n r H => proj1 (HrecC n r H).

  Lemma keepsC_deser_value ty len padded off r : r_inv r -> keepsC r (fst (deser_value rec ty len padded off r)).
  Proof.
    intros H. destruct (is_struct ty) eqn:S.
    - destruct ty; try discriminate S. cbn [deser_value]. apply HrecC. exact H.
    - split; [apply (keeps_deser_value rec Hrec); exact H|].
      pose proof (readrel_value rec ty len padded off r S H) as [_ [_ [CS _]]]. lia.
  Qed.

  Lemma keepsC_deser_for ty delimited trailing : forall k i n acc r, r_inv r ->
    keepsC r (fst (deser_for rec ty delimited trailing k i n acc r)).
  Proof.
    induction k as [|k IH]; intros i n acc r H; cbn [deser_for]; [apply keepsC_refl; exact H|].
    pose proof (keepsC_deser_value ty None false 0 r H) as K.
    destruct (deser_value rec ty None false 0 r) as [r1 [x|e]]; cbn [fst] in K |- *; [|exact K].
    destruct (delimited && (trailing || (i + 1 <? n))).
    - destruct (r_next_chunk r1) as [r2|e] eqn:N; cbn [fst]; [|exact K].
      pose proof (keepsC_next_chunk r1 r2 (proj1 (proj1 K)) N) as K2.
      apply (keepsC_trans r r1); [exact K|]. apply (keepsC_trans r1 r2); [exact K2|]. apply IH. exact (proj1 (proj1 K2)).
    - apply (keepsC_trans r r1); [exact K|]. apply IH. exact (proj1 (proj1 K)).
  Qed.

  Lemma keepsC_deser_while ty delimited : forall fuel acc r, r_inv r ->
    keepsC r (fst (deser_while rec ty delimited fuel acc r)).
  Proof.
    induction fuel as [|f IH]; intros acc r H; cbn [deser_while].
    - destruct (r_remaining r >? 0); apply keepsC_refl; exact H.
    - destruct (r_remaining r >? 0); [|apply keepsC_refl; exact H].
      pose proof (keepsC_deser_value ty None false 0 r H) as K.
      destruct (deser_value rec ty None false 0 r) as [r1 [x|e]]; cbn [fst] in K |- *; [|exact K].
      destruct delimited.
      + destruct (r_next_chunk r1) as [r2|e] eqn:N; cbn [fst]; [|exact K].
        pose proof (keepsC_next_chunk r1 r2 (proj1 (proj1 K)) N) as K2.
        apply (keepsC_trans r r1); [exact K|]. apply (keepsC_trans r1 r2); [exact K2|]. apply IH. exact (proj1 (proj1 K2)).
      + apply (keepsC_trans r r1); [exact K|]. apply IH. exact (proj1 (proj1 K)).
  Qed.

  Lemma keepsC_deser_instr start i locals r : r_inv r -> keepsC r (fst (deser_instr rec start i locals r)).
  Proof.
    intros H. pose proof (keepsC_refl r H) as K0.
    destruct i as [f|f delimited trailing count|name t off optional o1 o2|ty lit guarded|field cases|b|]; cbn [deser_instr].
    - destruct (f_optional f && negb (r_remaining r >? 0)); [exact K0|].
      destruct (len_expr f locals) as [len|e]; [|exact K0].
      pose proof (keepsC_deser_value (f_ty f) len (f_padded f) 0 r H) as K.
      destruct (deser_value rec (f_ty f) len (f_padded f) 0 r) as [r' [x|e]]; exact K.
    - destruct (f_name f) as [name|]; [|exact K0].
      destruct (f_optional f && negb (r_remaining r >? 0)); [exact K0|].
      match goal with |- keepsC r (fst (let '(r', v) := ?X in _)) => assert (K : keepsC r (fst X)) end.
      { destruct count as [|size|].
        - destruct (len_expr f locals) as [[n|]|e]; [apply keepsC_deser_for; exact H | exact K0 | exact K0].
        - destruct (size =? 0); [exact K0 | apply keepsC_deser_for; exact H].
        - apply keepsC_deser_while; exact H. }
      match goal with |- keepsC r (fst (let '(r', v) := ?X in _)) => destruct X as [r' [l|e]] end; exact K.
    - destruct (optional && negb (r_remaining r >? 0)); [exact K0|].
      pose proof (keepsC_deser_value (EInt t) None false 0 r H) as K. cbn [deser_value] in K.
      destruct (r_get_int_of t r) as [r' z]. exact K.
    - destruct (guarded && negb (rpos r =? start)); [exact K0|].
      pose proof (keepsC_deser_value ty None false 0 r H) as K.
      destruct (deser_value rec ty None false 0 r) as [r' [x|e]]; exact K.
    - destruct (find_case cases _) as [c|]; [|exact K0]. destruct (c_cls c) as [cls|]; [|exact K0].
      pose proof (HrecC cls r H) as K. destruct (rec cls r) as [r' [x|e]]; exact K.
    - apply keepsC_set_chunked; exact H.
    - destruct (r_next_chunk r) as [r'|e] eqn:N; cbn [fst]; [|exact K0]. apply (keepsC_next_chunk r r' H N).
  Qed.

  Lemma keepsC_deser_instrs start : forall is locals r, r_inv r -> keepsC r (fst (deser_instrs rec start is locals r)).
  Proof.
    induction is as [|i t IH]; intros locals r H; cbn [deser_instrs]; [apply keepsC_refl; exact H|].
    pose proof (keepsC_deser_instr start i locals r H) as K.
    destruct (deser_instr rec start i locals r) as [r' [l|e]]; cbn [fst] in K |- *; [|exact K].
    apply (keepsC_trans r r'); [exact K|]. apply IH. exact (proj1 (proj1 K)).
  Qed.

  Lemma keepsC_deser_body d r : r_inv r -> keepsC r (fst (deser_body rec d r)).
  Proof.
    intros H. unfold deser_body. pose proof (keepsC_deser_instrs (rpos r) (sd_body d) [] r H) as K.
    destruct (deser_instrs rec (rpos r) (sd_body d) [] r) as [r' v]. cbn [fst] in K |- *.
    apply (keepsC_trans r r'); [exact K|]. apply keepsC_set_chunked. exact (proj1 (proj1 K)).
  Qed.
End CsRec.

Lemma keepsC_deser_struct E : forall fuel cls r, r_inv r -> keepsC r (fst (deser_struct fuel E cls r)).
Proof.
  induction fuel as [|f IH]; intros cls r H; cbn [deser_struct]; [apply keepsC_refl; exact H|].
  destruct (env_find E cls) as [d|]; [|apply keepsC_refl; exact H].
  apply keepsC_deser_body; [|exact H]. intros n r0 H0. apply IH. exact H0.
Qed.

(* ================= monotonicity: an accepted class never moves the position backwards ================= *)
Lemma post_mono {A} (P Q : rstate -> Prop) (res : rres A) : (forall r, P r -> Q r) -> post P res -> post Q res.
Proof. unfold post. intros Imp H. destruct (snd res); [apply Imp; exact H | exact I]. Qed.

Lemma an_loop_stable f a J : an_loop f a = Some J ->
  (J = true -> a = true) /\ exists o, f J = Some o /\ (J = true -> o = true).
Proof.
  unfold an_loop. destruct a.
  - destruct (f true) as [[|]|] eqn:F1.
    + intros X. injection X as <-. split; [reflexivity|]. exists true. split; [exact F1 | reflexivity].
    + destruct (f false) as [o|] eqn:F0; intros X; [injection X as <- | discriminate X].
      split; [intros Y; discriminate Y|]. exists o. split; [exact F0 | intros Y; discriminate Y].
    + destruct (f false) as [o|] eqn:F0; intros X; [injection X as <- | discriminate X].
      split; [intros Y; discriminate Y|]. exists o. split; [exact F0 | intros Y; discriminate Y].
  - destruct (f false) as [o|] eqn:F0; intros X; [injection X as <- | discriminate X].
    split; [intros Y; discriminate Y|]. exists o. split; [exact F0 | intros Y; discriminate Y].
Qed.

Lemma pg_mode_after m i : pg_mode m i = mode_after m i.
Proof. reflexivity. Qed.

Section MonoRec.
  Variable rec : string -> rstate -> rres value.
  Variable an_cls : string -> bool -> bool -> option bool.
  Hypothesis Hrec : forall n r, r_inv r -> keeps r (fst (rec n r)).
  Hypothesis Hmode : forall n r, rchunked (fst (rec n r)) = rchunked r.
  Hypothesis Han : forall n m a a' r, an_cls n m a = Some a' -> r_inv r -> rchunked r = m -> ab a r ->
    post (fun r' => rpos r <= rpos r' /\ ab a' r') (rec n r).

  Lemma mono_value ty len padded off m a a1 r : an_type an_cls m a ty = Some a1 -> r_inv r -> rchunked r = m -> ab a r ->
    post (fun r' => rpos r <= rpos r' /\ ab a1 r') (deser_value rec ty len padded off r).
  Proof.
    intros A H M Hab. destruct (is_struct ty) eqn:S.
    - destruct ty; try discriminate S. cbn [an_type deser_value] in *. apply (Han _ m a a1 r A H M Hab).
    - assert (A1 : a1 = a && m) by (destruct ty; try discriminate S; cbn [an_type] in A; injection A as <-; reflexivity).
      pose proof (readrel_value rec ty len padded off r S H) as RR.
      unfold post. destruct (snd (deser_value rec ty len padded off r)); [|exact I].
      split; [destruct RR as [_ [_ [_ [_ P]]]]; lia|].
      intros X. subst a1. apply andb_true_iff in X as [Xa Xm]. subst m.
      apply (tight_readrel r _ Xm (Hab Xa) RR).
  Qed.

  (* one iteration: the element, with the state the optional next_chunk() needs *)
  Lemma iter_step ty delimited m a a2 r : an_iter an_cls m ty delimited a = Some a2 -> r_inv r -> rchunked r = m -> ab a r ->
    post (fun r1 => rpos r <= rpos r1 /\ ab a2 r1 /\ (delimited = true -> tight r1 /\ a2 = true)) (deser_value rec ty None false 0 r).
  Proof.
    intros A H M Hab. unfold an_iter in A. destruct (an_type an_cls m a ty) as [a1|] eqn:T; [|discriminate A].
    apply (post_mono (fun r' => rpos r <= rpos r' /\ ab a1 r')); [|apply (mono_value ty None false 0 m a a1 r T H M Hab)].
    intros r1 [P Q]. destruct delimited.
    - destruct a1; [|discriminate A]. injection A as <-. split; [exact P|]. split; [exact Q|]. intros _. split; [apply Q; reflexivity | reflexivity].
    - injection A as <-. split; [exact P|]. split; [exact Q|]. intros X. discriminate X.
  Qed.

  Lemma mono_for ty delimited trailing m J o : an_iter an_cls m ty delimited J = Some o -> (J = true -> o = true) ->
    forall k i n acc r, r_inv r -> rchunked r = m -> ab J r ->
    post (fun r' => rpos r <= rpos r' /\ ab J r') (deser_for rec ty delimited trailing k i n acc r).
  Proof.
    intros A St. induction k as [|k IH]; intros i n acc r H M Hab; cbn [deser_for].
    - unfold post. cbn [fst snd]. split; [lia | exact Hab].
    - pose proof (iter_step ty delimited m J o r A H M Hab) as IS.
      pose proof (keeps_deser_value rec Hrec ty None false 0 r H) as K.
      pose proof (mode_deser_value rec Hmode ty None false 0 r) as MV.
      destruct (deser_value rec ty None false 0 r) as [r1 [x|e]]; unfold post in IS; cbn [fst snd] in IS, K, MV; [|exact I].
      destruct IS as [P [Q D]].
      destruct (delimited && (trailing || (i + 1 <? n))) eqn:DD.
      + apply andb_true_iff in DD as [DD _]. destruct (D DD) as [T1 _].
        destruct (r_next_chunk r1) as [r2|e] eqn:N; [|exact I].
        destruct (tight_next_chunk r1 r2 (proj1 K) T1 N) as [P2 T2].
        pose proof (keeps_next_chunk r1 r2 (proj1 K) N) as K2. pose proof (next_chunk_mode r1 r2 N) as M2.
        apply (post_mono (fun r' => rpos r2 <= rpos r' /\ ab J r')); [intros r' [X Y]; split; [lia | exact Y]|].
        apply IH; [exact (proj1 K2) | congruence | intros _; exact T2].
      + apply (post_mono (fun r' => rpos r1 <= rpos r' /\ ab J r')); [intros r' [X Y]; split; [lia | exact Y]|].
        apply IH; [exact (proj1 K) | congruence | apply (ab_weaken o); [exact St | exact Q]].
  Qed.

  Lemma mono_while ty delimited m J o : an_iter an_cls m ty delimited J = Some o -> (J = true -> o = true) ->
    forall fuel acc r, r_inv r -> rchunked r = m -> ab J r ->
    post (fun r' => rpos r <= rpos r' /\ ab J r') (deser_while rec ty delimited fuel acc r).
  Proof.
    intros A St. induction fuel as [|f IH]; intros acc r H M Hab; cbn [deser_while].
    - destruct (r_remaining r >? 0); unfold post; cbn [fst snd]; [exact I | split; [lia | exact Hab]].
    - destruct (r_remaining r >? 0); [|unfold post; cbn [fst snd]; split; [lia | exact Hab]].
      pose proof (iter_step ty delimited m J o r A H M Hab) as IS.
      pose proof (keeps_deser_value rec Hrec ty None false 0 r H) as K.
      pose proof (mode_deser_value rec Hmode ty None false 0 r) as MV.
      destruct (deser_value rec ty None false 0 r) as [r1 [x|e]]; unfold post in IS; cbn [fst snd] in IS, K, MV; [|exact I].
      destruct IS as [P [Q D]].
      destruct delimited.
      + destruct (D eq_refl) as [T1 _].
        destruct (r_next_chunk r1) as [r2|e] eqn:N; [|exact I].
        destruct (tight_next_chunk r1 r2 (proj1 K) T1 N) as [P2 T2].
        pose proof (keeps_next_chunk r1 r2 (proj1 K) N) as K2. pose proof (next_chunk_mode r1 r2 N) as M2.
        apply (post_mono (fun r' => rpos r2 <= rpos r' /\ ab J r')); [intros r' [X Y]; split; [lia | exact Y]|].
        apply IH; [exact (proj1 K2) | congruence | intros _; exact T2].
      + apply (post_mono (fun r' => rpos r1 <= rpos r' /\ ab J r')); [intros r' [X Y]; split; [lia | exact Y]|].
        apply IH; [exact (proj1 K) | congruence | apply (ab_weaken o); [exact St | exact Q]].
  Qed.

  Lemma an_cases_sound m a : forall cases o, an_cases an_cls m a cases = Some o ->
    (o = true -> a = true) /\
    forall c cls, In c cases -> c_cls c = Some cls -> exists a1, an_cls cls m a = Some a1 /\ (o = true -> a1 = true).
  Proof.
    induction cases as [|c0 t IH]; intros o A; cbn [an_cases] in A.
    - injection A as <-. split; [intros X; exact X|]. intros c cls [].
    - destruct (an_cases an_cls m a t) as [o1|] eqn:A1; [|discriminate A]. destruct (IH o1 eq_refl) as [I1 I2].
      destruct (c_cls c0) as [cls0|] eqn:C0.
      + destruct (an_cls cls0 m a) as [a0|] eqn:A0; [|discriminate A]. injection A as <-.
        split; [intros X; apply andb_true_iff in X as [X _]; apply I1; exact X|].
        intros c cls [->|Hin] Cc.
        * rewrite C0 in Cc. injection Cc as <-. exists a0. split; [exact A0|]. intros X. apply andb_true_iff in X as [_ X]. exact X.
        * destruct (I2 c cls Hin Cc) as [a1 [E1 E2]]. exists a1. split; [exact E1|]. intros X. apply andb_true_iff in X as [X _]. apply E2. exact X.
      + injection A as <-. split; [exact I1|]. intros c cls [->|Hin] Cc; [congruence|]. apply (I2 c cls Hin Cc).
  Qed.

  Lemma mono_instr start i locals m a a1 r : an_instr an_cls m a i = Some a1 -> r_inv r -> rchunked r = m -> ab a r ->
    post (fun r' => rpos r <= rpos r' /\ ab a1 r') (deser_instr rec start i locals r).
  Proof.
    intros A H M Hab.
    assert (Skip : forall A (v : A), (a1 = true -> a = true) -> post (fun r' => rpos r <= rpos r' /\ ab a1 r') (r, Ok v)).
    { intros A0 v W. unfold post. cbn [fst snd]. split; [lia | apply (ab_weaken a); [exact W | exact Hab]]. }
    destruct i as [f|f delimited trailing count|name t off optional o1 o2|ty lit guarded|field cases|b|]; cbn [deser_instr an_instr] in *.
    - destruct (an_type an_cls m a (f_ty f)) as [a0|] eqn:T; [|discriminate A]. injection A as <-.
      destruct (f_optional f && negb (r_remaining r >? 0)); [apply Skip; intros X; apply andb_true_iff in X as [X _]; exact X|].
      destruct (len_expr f locals) as [len|e]; [|exact I].
      pose proof (mono_value (f_ty f) len (f_padded f) 0 m a a0 r T H M Hab) as K.
      destruct (deser_value rec (f_ty f) len (f_padded f) 0 r) as [r' [x|e]]; unfold post in *; cbn [fst snd] in *; [|exact I].
      split; [apply K|]. apply (ab_weaken a0); [intros X; apply andb_true_iff in X as [_ X]; exact X | apply K].
    - destruct (f_name f) as [name|]; [|exact I].
      destruct (an_loop_stable _ _ _ A) as [W [o [F St]]].
      destruct (f_optional f && negb (r_remaining r >? 0)); [apply Skip; exact W|].
      pose proof (ab_weaken a a1 r W Hab) as HabJ.
      match goal with |- post _ (let '(r', v) := ?X in _) => assert (K : post (fun r' => rpos r <= rpos r' /\ ab a1 r') X) end.
      { destruct count as [|size|].
        - destruct (len_expr f locals) as [[n|]|e]; [|exact I|exact I].
          apply (mono_for (f_ty f) delimited trailing m a1 o F St); assumption.
        - destruct (size =? 0); [exact I|]. apply (mono_for (f_ty f) delimited trailing m a1 o F St); assumption.
        - apply (mono_while (f_ty f) delimited m a1 o F St); assumption. }
      match goal with |- post _ (let '(r', v) := ?X in _) => destruct X as [r' [l|e]] end; exact K.
    - injection A as <-.
      destruct (optional && negb (r_remaining r >? 0)); [apply Skip; intros X; apply andb_true_iff in X as [X _]; exact X|].
      pose proof (mono_value (EInt t) None false 0 m a (a && m) r eq_refl H M Hab) as K. cbn [deser_value] in K.
      destruct (r_get_int_of t r) as [r' z]. exact K.
    - destruct (an_type an_cls m a ty) as [a0|] eqn:T; [|discriminate A]. injection A as <-.
      destruct (guarded && negb (rpos r =? start)); [apply Skip; intros X; apply andb_true_iff in X as [X _]; exact X|].
      pose proof (mono_value ty None false 0 m a a0 r T H M Hab) as K.
      destruct (deser_value rec ty None false 0 r) as [r' [x|e]]; unfold post in *; cbn [fst snd] in *; [|exact I].
      split; [apply K|]. apply (ab_weaken a0); [intros X; apply andb_true_iff in X as [_ X]; exact X | apply K].
    - destruct (an_cases_sound m a cases a1 A) as [W Cs].
      destruct (find_case cases _) as [c|] eqn:FC; [|apply Skip; exact W].
      destruct (c_cls c) as [cls|] eqn:CC; [|apply Skip; exact W].
      destruct (Cs c cls (find_case_In _ _ _ FC) CC) as [a0 [E0 W0]].
      pose proof (Han cls m a a0 r E0 H M Hab) as K.
      destruct (rec cls r) as [r' [x|e]]; unfold post in *; cbn [fst snd] in *; [|exact I].
      split; [apply K|]. apply (ab_weaken a0); [exact W0 | apply K].
    - injection A as <-. unfold post. cbn [fst snd]. split; [cbn [r_set_chunked rpos]; lia|].
      intros X. apply tight_set_chunked; [exact H | apply Hab; exact X].
    - destruct a; [|discriminate A]. injection A as <-.
      destruct (r_next_chunk r) as [r'|e] eqn:N; [|exact I]. unfold post. cbn [fst snd].
      destruct (tight_next_chunk r r' H (Hab eq_refl) N) as [P T]. split; [exact P | intros _; exact T].
  Qed.

  Lemma mono_instrs start : forall is locals m a a' r, an_instrs an_cls m a is = Some a' -> r_inv r -> rchunked r = m -> ab a r ->
    post (fun r' => rpos r <= rpos r' /\ ab a' r') (deser_instrs rec start is locals r).
  Proof.
    induction is as [|i t IH]; intros locals m a a' r A H M Hab; cbn [deser_instrs an_instrs] in *.
    - injection A as <-. unfold post. cbn [fst snd]. split; [lia | exact Hab].
    - destruct (an_instr an_cls m a i) as [a1|] eqn:A1; [|discriminate A].
      pose proof (mono_instr start i locals m a a1 r A1 H M Hab) as K.
      pose proof (keeps_deser_instr rec Hrec start i locals r H) as KI.
      pose proof (mode_deser_instr rec Hmode start i locals r) as MI.
      destruct (deser_instr rec start i locals r) as [r1 [l1|e]]; unfold post in K; cbn [fst snd] in K, KI, MI; [|exact I].
      destruct K as [P Q]. rewrite M in MI. rewrite <- pg_mode_after in MI.
      apply (post_mono (fun r' => rpos r1 <= rpos r' /\ ab a' r')); [intros r' [X Y]; split; [lia | exact Y]|].
      apply (IH l1 (pg_mode m i) a1 a' r1 A (proj1 KI) MI Q).
  Qed.

  Lemma mono_body d m a a' r : an_instrs an_cls m a (sd_body d) = Some a' -> r_inv r -> rchunked r = m -> ab a r ->
    post (fun r' => rpos r <= rpos r' /\ ab a' r') (deser_body rec d r).
  Proof.
    intros A H M Hab. unfold deser_body.
    pose proof (mono_instrs (rpos r) (sd_body d) [] m a a' r A H M Hab) as K.
    pose proof (keeps_deser_instrs rec Hrec (rpos r) (sd_body d) [] r H) as KI.
    destruct (deser_instrs rec (rpos r) (sd_body d) [] r) as [r' [l|e]]; unfold post in *; cbn [fst snd] in *; [|exact I].
    destruct (build_fields (sd_body d) l) as [flds|e]; cbn [rbind]; [|exact I].
    destruct K as [P Q]. split; [cbn [r_set_chunked rpos]; exact P|].
    intros X. apply tight_set_chunked; [exact (proj1 KI) | apply Q; exact X].
  Qed.
End MonoRec.

Lemma mono_deser_struct E : forall fuel cls m a a' r, an_class fuel E cls m a = Some a' -> r_inv r -> rchunked r = m -> ab a r ->
  post (fun r' => rpos r <= rpos r' /\ ab a' r') (deser_struct fuel E cls r).
Proof.
  induction fuel as [|f IH]; intros cls m a a' r A H M Hab; cbn [deser_struct an_class] in *; [discriminate A|].
  destruct (env_find E cls) as [d|]; [|discriminate A].
  apply (mono_body (deser_struct f E) (an_class f E) (fun n r0 H0 => keeps_deser_struct E f n r0 H0) (mode_deser_struct E f) IH d m a a' r A H M Hab).
Qed.

(* ================= advancing classes consume at least one byte ================= *)
Lemma rem_set_same r m : r_inv r -> rchunked r = m -> r_remaining (r_set_chunked r m) = r_remaining r.
Proof.
  intros [H1 [H2 H3]] M. unfold r_remaining, r_set_chunked. cbn [rdata rpos rchunked rcstart rbrk]. rewrite M.
  destruct m; [|reflexivity]. destruct (rbrk r =? -1) eqn:E; [|reflexivity].
  destruct H3 as [H3|[_ H3]]; [rewrite <- H3; reflexivity | congruence].
Qed.

Lemma adv_scan_cons adv_cls m i t :
  adv_scan adv_cls m (i :: t) =
  match i with
  | ESetMode b => Bool.eqb b m && adv_scan adv_cls m t
  | _ => adv_first adv_cls m i || (plain_instr i && adv_scan adv_cls m t)
  end.
Proof. reflexivity. Qed.

(* ---- plain instructions only read ---- *)
Lemma readrel_trans r r1 r2 : readrel r r1 -> readrel r1 r2 -> readrel r r2.
Proof.
  unfold readrel, r_remaining. intros [D1 [M1 [C1 [B1 P1]]]] [D2 [M2 [C2 [B2 P2]]]].
  rewrite M1, B1, D1 in P2. split; [congruence|]. split; [congruence|]. split; [congruence|]. split; [congruence|].
  destruct (rchunked r); lia.
Qed.

Lemma readrel_inv r r' : r_inv r -> readrel r r' -> r_inv r'.
Proof.
  intros H RR. pose proof (rem_bounds r H) as [R0 R1]. destruct H as [H1 [H2 H3]]. destruct RR as [D [M [C [B P]]]].
  unfold r_inv. rewrite D, M, C, B. split; [lia|]. split; [lia | exact H3].
Qed.

Lemma readrel_same_pos r r' : readrel r r' -> rpos r' = rpos r -> r_remaining r' = r_remaining r.
Proof. intros [D [M [C [B P]]]] E. unfold r_remaining. rewrite D, M, B, E. reflexivity. Qed.

Lemma plain_ty_struct ty : plain_ty ty = true -> is_struct ty = false.
Proof. destruct ty; intros X; try reflexivity. discriminate X. Qed.

Section Plain.
  Variable rec : string -> rstate -> rres value.

  Lemma readrel_for ty trailing : is_struct ty = false -> forall k i n acc r, r_inv r ->
    readrel r (fst (deser_for rec ty false trailing k i n acc r)).
  Proof.
    intros S. induction k as [|k IH]; intros i n acc r H; cbn [deser_for]; [apply readrel_refl; exact H|].
    pose proof (readrel_value rec ty None false 0 r S H) as RR.
    destruct (deser_value rec ty None false 0 r) as [r1 [x|e]]; cbn [fst] in RR |- *; [|exact RR].
    cbn [andb]. apply (readrel_trans r r1); [exact RR|]. apply IH. apply (readrel_inv r r1 H RR).
  Qed.

  Lemma readrel_while ty : is_struct ty = false -> forall fuel acc r, r_inv r ->
    readrel r (fst (deser_while rec ty false fuel acc r)).
  Proof.
    intros S. induction fuel as [|f IH]; intros acc r H; cbn [deser_while].
    - destruct (r_remaining r >? 0); apply readrel_refl; exact H.
    - destruct (r_remaining r >? 0); [|apply readrel_refl; exact H].
      pose proof (readrel_value rec ty None false 0 r S H) as RR.
      destruct (deser_value rec ty None false 0 r) as [r1 [x|e]]; cbn [fst] in RR |- *; [|exact RR].
      apply (readrel_trans r r1); [exact RR|]. apply IH. apply (readrel_inv r r1 H RR).
  Qed.

  Lemma plain_instr_readrel start i locals r : plain_instr i = true -> r_inv r ->
    readrel r (fst (deser_instr rec start i locals r)).
  Proof.
    intros P H. pose proof (readrel_refl r H) as K0.
    destruct i as [f|f delimited trailing count|name t off optional o1 o2|ty lit guarded|field cases|b|];
      cbn [deser_instr plain_instr] in *; try discriminate P.
    - apply plain_ty_struct in P.
      destruct (f_optional f && negb (r_remaining r >? 0)); [exact K0|].
      destruct (len_expr f locals) as [len|e]; [|exact K0].
      pose proof (readrel_value rec (f_ty f) len (f_padded f) 0 r P H) as K.
      destruct (deser_value rec (f_ty f) len (f_padded f) 0 r) as [r' [x|e]]; exact K.
    - apply andb_true_iff in P as [P D]. apply plain_ty_struct in P. destruct delimited; [discriminate D|].
      destruct (f_name f) as [name|]; [|exact K0].
      destruct (f_optional f && negb (r_remaining r >? 0)); [exact K0|].
      match goal with |- readrel r (fst (let '(r', v) := ?X in _)) => assert (K : readrel r (fst X)) end.
      { destruct count as [|size|].
        - destruct (len_expr f locals) as [[n|]|e]; [apply readrel_for; assumption | exact K0 | exact K0].
        - destruct (size =? 0); [exact K0 | apply readrel_for; assumption].
        - apply readrel_while; assumption. }
      match goal with |- readrel r (fst (let '(r', v) := ?X in _)) => destruct X as [r' [l|e]] end; exact K.
    - destruct (optional && negb (r_remaining r >? 0)); [exact K0|].
      pose proof (readrel_int_of t r H) as K. destruct (r_get_int_of t r) as [r' z]. exact K.
    - apply plain_ty_struct in P.
      destruct (guarded && negb (rpos r =? start)); [exact K0|].
      pose proof (readrel_value rec ty None false 0 r P H) as K.
      destruct (deser_value rec ty None false 0 r) as [r' [x|e]]; exact K.
  Qed.
End Plain.

Lemma plain_instr_mode m i : plain_instr i = true -> pg_mode m i = m.
Proof. destruct i; intros X; try reflexivity. discriminate X. Qed.

Section AdvRec.
  Variable rec : string -> rstate -> rres value.
  Variable adv_cls : string -> bool -> bool.
  Variable an_cls : string -> bool -> bool -> option bool.
  Hypothesis Hrec : forall n r, r_inv r -> keeps r (fst (rec n r)).
  Hypothesis Hmode : forall n r, rchunked (fst (rec n r)) = rchunked r.
  Hypothesis Han : forall n m a a' r, an_cls n m a = Some a' -> r_inv r -> rchunked r = m -> ab a r ->
    post (fun r' => rpos r <= rpos r' /\ ab a' r') (rec n r).
  Hypothesis Hadv : forall n m r, adv_cls n m = true -> r_inv r -> rchunked r = m -> r_remaining r > 0 ->
    post (fun r' => rpos r < rpos r') (rec n r).

  Lemma adv_first_sound start i locals m r : adv_first adv_cls m i = true -> r_inv r -> rchunked r = m ->
    r_remaining r > 0 -> rpos r = start -> post (fun r' => rpos r < rpos r') (deser_instr rec start i locals r).
  Proof.
    intros A H M R St. assert (G : (r_remaining r >? 0) = true) by lia.
    destruct i as [f|f delimited trailing count|name t off optional o1 o2|ty lit guarded|field cases|b|];
      cbn [deser_instr adv_first] in *; try discriminate A.
    - rewrite G. cbn [negb]. rewrite andb_false_r.
      destruct (len_expr f locals) as [len|e] eqn:L; [|exact I].
      assert (K : post (fun r' => rpos r < rpos r') (deser_value rec (f_ty f) len (f_padded f) 0 r)).
      { destruct (f_ty f) as [t|t|nm t|enc| |nm] eqn:Ty; cbn [adv_type] in A.
        - apply adv_value; [exact I | exact R].
        - apply adv_value; [exact I | exact R].
        - apply adv_value; [exact I | exact R].
        - apply adv_value; [|exact R]. cbn [adv_len]. unfold len_expr in L.
          destruct (f_len f) as [|n|fld]; [injection L as <-; exact I | injection L as <-; lia | discriminate A].
        - apply adv_value; [exact I | exact R].
        - cbn [deser_value]. apply (Hadv nm m r A H M R). }
      destruct (deser_value rec (f_ty f) len (f_padded f) 0 r) as [r' [x|e]]; exact K.
    - rewrite G. cbn [negb]. rewrite andb_false_r.
      pose proof (adv_int_of t r R) as K. destruct (r_get_int_of t r) as [r' z]. exact K.
    - assert (G2 : (rpos r =? start) = true) by lia. rewrite G2. cbn [negb]. rewrite andb_false_r.
      assert (K : post (fun r' => rpos r < rpos r') (deser_value rec ty None false 0 r)).
      { apply adv_value; [|exact R]. destruct ty; try discriminate A; exact I. }
      destruct (deser_value rec ty None false 0 r) as [r' [x|e]]; exact K.
  Qed.

  Lemma adv_scan_sound start : forall is locals m a a' r, adv_scan adv_cls m is = true ->
    an_instrs an_cls m a is = Some a' -> r_inv r -> rchunked r = m -> ab a r ->
    r_remaining r > 0 -> rpos r = start -> post (fun r' => rpos r < rpos r') (deser_instrs rec start is locals r).
  Proof.
    induction is as [|i t IH]; intros locals m a a' r A AN H M Hab R St; [discriminate A|].
    cbn [an_instrs] in AN. destruct (an_instr an_cls m a i) as [a1|] eqn:AI; [|discriminate AN].
    pose proof (mono_instr rec an_cls Hrec Hmode Han start i locals m a a1 r AI H M Hab) as K2.
    pose proof (keeps_deser_instr rec Hrec start i locals r H) as KI.
    pose proof (mode_deser_instr rec Hmode start i locals r) as MI.
    rewrite M in MI. rewrite <- pg_mode_after in MI.
    (* the instruction consumes *)
    assert (Gen1 : adv_first adv_cls m i = true -> post (fun r' => rpos r < rpos r') (deser_instrs rec start (i :: t) locals r)).
    { intros A1. cbn [deser_instrs].
      pose proof (adv_first_sound start i locals m r A1 H M R St) as K1.
      destruct (deser_instr rec start i locals r) as [r1 [l1|e]]; unfold post in K1, K2; cbn [fst snd] in K1, K2, KI, MI; [|exact I].
      apply (post_mono (fun r' => rpos r1 <= rpos r' /\ ab a' r')); [intros r' [X Y]; lia|].
      apply (mono_instrs rec an_cls Hrec Hmode Han start t l1 (pg_mode m i) a1 a' r1 AN (proj1 KI) MI (proj2 K2)). }
    (* the instruction is plain: it has consumed, or nothing has changed *)
    assert (Gen2 : plain_instr i = true -> adv_scan adv_cls m t = true ->
                   post (fun r' => rpos r < rpos r') (deser_instrs rec start (i :: t) locals r)).
    { intros P1 A2. cbn [deser_instrs].
      pose proof (plain_instr_readrel rec start i locals r P1 H) as RR.
      rewrite (plain_instr_mode m i P1) in MI, AN.
      destruct (deser_instr rec start i locals r) as [r1 [l1|e]]; unfold post in K2; cbn [fst snd] in K2, KI, MI, RR; [|exact I].
      destruct K2 as [P Q]. destruct (Z.eq_dec (rpos r1) (rpos r)) as [Eq|Ne].
      - apply (post_mono (fun r' => rpos r1 < rpos r')); [intros r' X; lia|].
        apply (IH l1 m a1 a' r1 A2 AN (proj1 KI) MI Q); [rewrite (readrel_same_pos r r1 RR Eq); exact R | congruence].
      - apply (post_mono (fun r' => rpos r1 <= rpos r' /\ ab a' r')); [intros r' [X Y]; lia|].
        apply (mono_instrs rec an_cls Hrec Hmode Han start t l1 m a1 a' r1 AN (proj1 KI) MI Q). }
    rewrite adv_scan_cons in A.
    destruct i as [f|f delimited trailing count|name t0 off optional o1 o2|ty lit guarded|field cases|b|];
      try (apply orb_true_iff in A as [A|A]; [apply (Gen1 A) | apply andb_true_iff in A as [A1 A2]; apply (Gen2 A1 A2)]).
    apply andb_true_iff in A as [A1 A2]. apply Bool.eqb_prop in A1. subst b.
    cbn [an_instr] in AI. injection AI as <-. cbn [pg_mode] in AN.
    cbn [deser_instrs deser_instr].
    apply (IH locals m a a' (r_set_chunked r m) A2 AN).
    - apply keeps_set_chunked. exact H.
    - reflexivity.
    - intros X. apply tight_set_chunked; [exact H | apply Hab; exact X].
    - rewrite (rem_set_same r m H M). exact R.
    - exact St.
  Qed.

  Lemma adv_body d m r : adv_instrs adv_cls an_cls m (sd_body d) = true -> r_inv r -> rchunked r = m ->
    r_remaining r > 0 -> post (fun r' => rpos r < rpos r') (deser_body rec d r).
  Proof.
    intros A H M R. unfold deser_body. unfold adv_instrs in A.
    destruct (an_instrs an_cls m m (sd_body d)) as [a'|] eqn:AN; [|discriminate A].
    assert (Hab : ab m r) by (intros X; subst m; apply tight_of_remaining; assumption).
    pose proof (adv_scan_sound (rpos r) (sd_body d) [] m m a' r A AN H M Hab R eq_refl) as K.
    destruct (deser_instrs rec (rpos r) (sd_body d) [] r) as [r' [l|e]]; unfold post in *; cbn [fst snd] in *; [|exact I].
    destruct (build_fields (sd_body d) l) as [flds|e]; cbn [rbind]; [|exact I]. exact K.
  Qed.
End AdvRec.

Lemma adv_deser_struct E : forall fuel cls m r, adv_class fuel E cls m = true -> r_inv r -> rchunked r = m ->
  r_remaining r > 0 -> post (fun r' => rpos r < rpos r') (deser_struct fuel E cls r).
Proof.
  induction fuel as [|f IH]; intros cls m r A H M R; cbn [deser_struct adv_class] in *; [discriminate A|].
  destruct (env_find E cls) as [d|]; [|discriminate A].
  apply (adv_body (deser_struct f E) (adv_class f E) (an_class f E) (fun n r0 H0 => keeps_deser_struct E f n r0 H0)
           (mode_deser_struct E f) (mono_deser_struct E f) IH d m r A H M R).
Qed.

(* ================= classes that always break move the chunk start forward ================= *)
(* next_chunk() moves the chunk start strictly forward, unless it is already at the end of the data *)
Definition csadv (r r' : rstate) : Prop := rcstart r < rcstart r' \/ rcstart r' = zlen (rdata r).

Lemma next_chunk_cs r1 r2 : r_inv r1 -> r_next_chunk r1 = Ok r2 -> csadv r1 r2.
Proof.
  intros [H1 [H2 H3]] N. unfold r_next_chunk in N. destruct (rchunked r1) eqn:C; cbn [negb] in N; [|discriminate N].
  injection N as <-. destruct H3 as [H3|[_ H3]]; [|congruence].
  pose proof (find_break_bounds (rdata r1) (rcstart r1) ltac:(lia)) as B. rewrite <- H3 in B.
  unfold csadv. cbn [rcstart]. destruct (rbrk r1 <? zlen (rdata r1)) eqn:L; lia.
Qed.

Lemma csadv_then r r1 r2 : keepsC r r1 -> csadv r r1 -> keepsC r1 r2 -> csadv r r2.
Proof.
  intros [[_ D1] C1] A [[[H1 [H2 _]] D2] C2]. unfold csadv in *. rewrite D2, D1 in H2. lia.
Qed.

Lemma csadv_after r r1 r2 : keepsC r r1 -> csadv r1 r2 -> csadv r r2.
Proof. intros [[_ D1] C1] A. unfold csadv in *. rewrite D1 in A. lia. Qed.

Section BrkRec.
  Variable rec : string -> rstate -> rres value.
  Variable brk_cls : string -> bool.
  Hypothesis HrecC : forall n r, r_inv r -> keepsC r (fst (rec n r)).
  Hypothesis Hbrk : forall n r, brk_cls n = true -> r_inv r -> post (csadv r) (rec n r).

  Lemma brk_instr_sound start i locals r : brk_instr brk_cls i = true -> r_inv r ->
    post (csadv r) (deser_instr rec start i locals r).
  Proof.
    intros B H.
    destruct i as [f|f delimited trailing count|name t off optional o1 o2|ty lit guarded|field cases|b|];
      cbn [deser_instr brk_instr] in *; try discriminate B.
    - apply andb_true_iff in B as [B1 B2]. destruct (f_optional f); [discriminate B1|]. cbn [andb].
      destruct (len_expr f locals) as [len|e]; [|exact I].
      destruct (f_ty f) as [| | | | |nm]; try discriminate B2. cbn [deser_value].
      pose proof (Hbrk nm r B2 H) as K. destruct (rec nm r) as [r' [x|e]]; exact K.
    - destruct (r_next_chunk r) as [r'|e] eqn:N; [|exact I]. unfold post. cbn [fst snd]. apply (next_chunk_cs r r' H N).
  Qed.

  Lemma brk_instrs_sound start : forall is locals r, brk_instrs brk_cls is = true -> r_inv r ->
    post (csadv r) (deser_instrs rec start is locals r).
  Proof.
    unfold brk_instrs. induction is as [|i t IH]; intros locals r B H; cbn [existsb] in B; [discriminate B|].
    cbn [deser_instrs].
    pose proof (keepsC_deser_instr rec HrecC start i locals r H) as KI.
    destruct (brk_instr brk_cls i) eqn:Bi.
    - pose proof (brk_instr_sound start i locals r Bi H) as K1.
      destruct (deser_instr rec start i locals r) as [r1 [l1|e]]; unfold post in K1; cbn [fst snd] in K1, KI; [|exact I].
      pose proof (keepsC_deser_instrs rec HrecC start t l1 r1 (proj1 (proj1 KI))) as KT.
      unfold post. destruct (snd (deser_instrs rec start t l1 r1)); [|exact I]. apply (csadv_then r r1 _ KI K1 KT).
    - cbn [orb] in B.
      destruct (deser_instr rec start i locals r) as [r1 [l1|e]]; cbn [fst snd] in KI; [|exact I].
      apply (post_mono (csadv r1)); [intros r' X; apply (csadv_after r r1 r' KI X)|].
      apply IH; [exact B | exact (proj1 (proj1 KI))].
  Qed.

  Lemma brk_body d r : brk_instrs brk_cls (sd_body d) = true -> r_inv r -> post (csadv r) (deser_body rec d r).
  Proof.
    intros B H. unfold deser_body. pose proof (brk_instrs_sound (rpos r) (sd_body d) [] r B H) as K.
    destruct (deser_instrs rec (rpos r) (sd_body d) [] r) as [r' [l|e]]; unfold post in *; cbn [fst snd] in *; [|exact I].
    destruct (build_fields (sd_body d) l) as [flds|e]; cbn [rbind]; [|exact I]. exact K.
  Qed.
End BrkRec.

Lemma brk_deser_struct E : forall fuel cls r, brk_class fuel E cls = true -> r_inv r ->
  post (csadv r) (deser_struct fuel E cls r).
Proof.
  induction fuel as [|f IH]; intros cls r B H; cbn [deser_struct brk_class] in *; [discriminate B|].
  destruct (env_find E cls) as [d|]; [|discriminate B].
  apply (brk_body (deser_struct f E) (brk_class f E) (keepsC_deser_struct E f) IH d r B H).
Qed.

(* ================= no loop runs out of fuel ================= *)
Ltac errne L := let X := fresh "X" in intros X; apply L; injection X as ->; reflexivity.
Lemma len_expr_not_fuel f locals : len_expr f locals <> Err EFuel.
Proof.
  unfold len_expr. destruct (f_len f) as [|n|fld]; try discriminate.
  destruct (assoc_last locals fld None) as [[]|]; discriminate.
Qed.

Lemma lit_value_not_fuel ty lit : lit_value ty lit <> Err EFuel.
Proof.
  unfold lit_value. destruct ty; try discriminate.
  - destruct (parse_int lit); [destruct (isdigit lit)|]; discriminate.
  - destruct (String.eqb lit "true"); [discriminate|]. destruct (String.eqb lit "false"); discriminate.
Qed.

Lemma build_fields_not_fuel locals : forall is, build_fields is locals <> Err EFuel.
Proof.
  induction is as [|i t IH]; cbn [build_fields]; [discriminate|].
  destruct (build_fields t locals) as [rest|e]; cbn [rbind]; [|exact IH].
  destruct i as [f|f delimited trailing count|name t1 off optional o1 o2|ty lit guarded|field cases|b|]; try discriminate.
  - destruct (f_name f) as [n|]; [|discriminate]. destruct (f_hard f) as [lit|].
    + pose proof (lit_value_not_fuel (f_ty f) lit) as L. destruct (lit_value (f_ty f) lit) as [v|e]; cbn [rbind]; [discriminate | errne L].
    + destruct (assoc_last locals n None); discriminate.
  - destruct (f_name f) as [n|]; [|discriminate]. destruct (assoc_last locals n None); discriminate.
  - destruct (assoc_last locals _ None); discriminate.
Qed.

Section FuelRec.
  Variable rec : string -> rstate -> rres value.
  Variable prog_cls : string -> bool -> bool.
  Variable adv_cls : string -> bool -> bool.
  Variable brk_cls : string -> bool.
  Hypothesis HrecC : forall n r, r_inv r -> keepsC r (fst (rec n r)).
  Hypothesis Hmode : forall n r, rchunked (fst (rec n r)) = rchunked r.
  Hypothesis Hadv : forall n m r, adv_cls n m = true -> r_inv r -> rchunked r = m -> r_remaining r > 0 ->
    post (fun r' => rpos r < rpos r') (rec n r).
  Hypothesis Hbrk : forall n r, brk_cls n = true -> r_inv r -> post (csadv r) (rec n r).
  Hypothesis Hnf : forall n r, prog_cls n (rchunked r) = true -> r_inv r -> snd (rec n r) <> Err EFuel.

  Lemma nf_value ty len padded off r : prog_type prog_cls (rchunked r) ty = true -> r_inv r ->
    snd (deser_value rec ty len padded off r) <> Err EFuel.
  Proof.
    intros P H. destruct (is_struct ty) eqn:S; [|apply value_not_fuel; exact S].
    destruct ty; try discriminate S. cbn [deser_value prog_type] in *. apply Hnf; assumption.
  Qed.

  Lemma elem_adv_sound ty r : adv_type adv_cls (rchunked r) ty LNone = true -> r_inv r -> r_remaining r > 0 ->
    post (fun r' => rpos r < rpos r') (deser_value rec ty None false 0 r).
  Proof.
    intros A H R. destruct (is_struct ty) eqn:S.
    - destruct ty; try discriminate S. cbn [deser_value adv_type] in *. apply (Hadv _ (rchunked r) r A H eq_refl R).
    - apply adv_value; [|exact R]. destruct ty; try discriminate S; exact I.
  Qed.

  Lemma nf_for ty delimited trailing : forall k i n acc r, prog_type prog_cls (rchunked r) ty = true -> r_inv r ->
    snd (deser_for rec ty delimited trailing k i n acc r) <> Err EFuel.
  Proof.
    induction k as [|k IH]; intros i n acc r P H; cbn [deser_for]; [cbn [snd]; discriminate|].
    pose proof (nf_value ty None false 0 r P H) as NV.
    pose proof (keepsC_deser_value rec HrecC ty None false 0 r H) as K.
    pose proof (mode_deser_value rec Hmode ty None false 0 r) as MV.
    destruct (deser_value rec ty None false 0 r) as [r1 [x|e]]; cbn [fst snd] in NV, K, MV |- *; [|errne NV].
    destruct (delimited && (trailing || (i + 1 <? n))).
    - destruct (r_next_chunk r1) as [r2|e] eqn:N.
      + pose proof (keeps_next_chunk r1 r2 (proj1 (proj1 K)) N) as K2. pose proof (next_chunk_mode r1 r2 N) as M2.
        apply IH; [rewrite M2, MV; exact P | exact (proj1 K2)].
      + cbn [snd]. apply next_chunk_err_runtime in N. subst e. discriminate.
    - apply IH; [rewrite MV; exact P | exact (proj1 (proj1 K))].
  Qed.

  (* non-delimited: every iteration consumes, so at most (length - position) iterations *)
  Lemma nf_while_nd ty : forall fuel acc r, prog_type prog_cls (rchunked r) ty = true ->
    adv_type adv_cls (rchunked r) ty LNone = true -> r_inv r -> Z.of_nat fuel > zlen (rdata r) - rpos r ->
    snd (deser_while rec ty false fuel acc r) <> Err EFuel.
  Proof.
    induction fuel as [|f IH]; intros acc r P A H F; cbn [deser_while]; pose proof (rem_bounds r H) as [R0 R1].
    - destruct (r_remaining r >? 0) eqn:G; [lia | cbn [snd]; discriminate].
    - destruct (r_remaining r >? 0) eqn:G; [|cbn [snd]; discriminate].
      pose proof (nf_value ty None false 0 r P H) as NV.
      pose proof (elem_adv_sound ty r A H ltac:(lia)) as AV.
      pose proof (keepsC_deser_value rec HrecC ty None false 0 r H) as K.
      pose proof (mode_deser_value rec Hmode ty None false 0 r) as MV.
      destruct (deser_value rec ty None false 0 r) as [r1 [x|e]]; unfold post in AV; cbn [fst snd] in NV, AV, K, MV |- *; [|errne NV].
      destruct K as [[K1 K2] K3].
      apply IH; [rewrite MV; exact P | rewrite MV; exact A | exact K1 | rewrite K2; lia].
  Qed.

  (* delimited: every iteration ends with next_chunk(), so at most (length - chunk start) iterations -
     whatever the element does *)
  Lemma nf_while_d ty : forall fuel acc r, prog_type prog_cls (rchunked r) ty = true ->
    r_inv r -> Z.of_nat fuel > zlen (rdata r) - rcstart r ->
    snd (deser_while rec ty true fuel acc r) <> Err EFuel.
  Proof.
    induction fuel as [|f IH]; intros acc r P H F; cbn [deser_while]; pose proof (rem_bounds r H) as [R0 R1];
      pose proof H as [H1 _].
    - destruct (r_remaining r >? 0) eqn:G; [lia | cbn [snd]; discriminate].
    - destruct (r_remaining r >? 0) eqn:G; [|cbn [snd]; discriminate].
      pose proof (nf_value ty None false 0 r P H) as NV.
      pose proof (keepsC_deser_value rec HrecC ty None false 0 r H) as K.
      pose proof (mode_deser_value rec Hmode ty None false 0 r) as MV.
      destruct (deser_value rec ty None false 0 r) as [r1 [x|e]]; cbn [fst snd] in NV, K, MV |- *; [|errne NV].
      destruct K as [[K1 K2] K3].
      destruct (r_next_chunk r1) as [r2|e] eqn:N.
      + pose proof (keeps_next_chunk r1 r2 K1 N) as [J1 J2]. pose proof (next_chunk_mode r1 r2 N) as M2.
        pose proof (next_chunk_cs r1 r2 K1 N) as CS. unfold csadv in CS. rewrite K2 in CS.
        apply IH; [rewrite M2, MV; exact P | exact J1 | rewrite J2, K2; lia].
      + cbn [snd]. apply next_chunk_err_runtime in N. subst e. discriminate.
  Qed.

  (* non-delimited, element always breaks: the same bound as for delimited arrays *)
  Lemma nf_while_brk ty : forall fuel acc r, prog_type prog_cls (rchunked r) ty = true -> brk_type brk_cls ty = true ->
    r_inv r -> Z.of_nat fuel > zlen (rdata r) - rcstart r ->
    snd (deser_while rec ty false fuel acc r) <> Err EFuel.
  Proof.
    induction fuel as [|f IH]; intros acc r P B H F; cbn [deser_while]; pose proof (rem_bounds r H) as [R0 R1];
      pose proof H as [H1 _].
    - destruct (r_remaining r >? 0) eqn:G; [lia | cbn [snd]; discriminate].
    - destruct (r_remaining r >? 0) eqn:G; [|cbn [snd]; discriminate].
      pose proof (nf_value ty None false 0 r P H) as NV.
      pose proof (keepsC_deser_value rec HrecC ty None false 0 r H) as K.
      pose proof (mode_deser_value rec Hmode ty None false 0 r) as MV.
      assert (BV : post (csadv r) (deser_value rec ty None false 0 r)).
      { destruct ty as [| | | | |nm]; try discriminate B. cbn [deser_value brk_type] in *. apply (Hbrk nm r B H). }
      destruct (deser_value rec ty None false 0 r) as [r1 [x|e]]; unfold post in BV; cbn [fst snd] in NV, K, MV, BV |- *; [|errne NV].
      destruct K as [[K1 K2] K3]. unfold csadv in BV.
      apply IH; [rewrite MV; exact P | exact B | exact K1 | rewrite K2; lia].
  Qed.

  Lemma nf_instr start i locals r : prog_instr prog_cls adv_cls brk_cls (rchunked r) i = true -> r_inv r ->
    snd (deser_instr rec start i locals r) <> Err EFuel.
  Proof.
    intros P H.
    destruct i as [f|f delimited trailing count|name t off optional o1 o2|ty lit guarded|field cases|b|]; cbn [deser_instr prog_instr] in *.
    - destruct (f_optional f && negb (r_remaining r >? 0)); [cbn [snd]; discriminate|].
      pose proof (len_expr_not_fuel f locals) as L. destruct (len_expr f locals) as [len|e]; [|cbn [snd]; errne L].
      pose proof (nf_value (f_ty f) len (f_padded f) 0 r P H) as NV.
      destruct (deser_value rec (f_ty f) len (f_padded f) 0 r) as [r' [x|e]]; cbn [snd] in *; [discriminate | errne NV].
    - apply andb_true_iff in P as [P W].
      destruct (f_name f) as [name|]; [|cbn [snd]; discriminate].
      destruct (f_optional f && negb (r_remaining r >? 0)); [cbn [snd]; discriminate|].
      match goal with |- snd (let '(r', v) := ?X in _) <> _ => assert (K : snd X <> Err EFuel) end.
      { destruct count as [|size|].
        - pose proof (len_expr_not_fuel f locals) as L.
          destruct (len_expr f locals) as [[n|]|e]; [apply nf_for; assumption | cbn [snd]; discriminate | cbn [snd]; errne L].
        - destruct (size =? 0); [cbn [snd]; discriminate | apply nf_for; assumption].
        - destruct H as [H1 [H2 H3]]. destruct delimited.
          + apply nf_while_d; [exact P | split; [exact H1 | split; [exact H2 | exact H3]] | unfold zlen; lia].
          + cbn [orb] in W. apply orb_true_iff in W as [W|W].
            * apply nf_while_nd; [exact P | exact W | split; [exact H1 | split; [exact H2 | exact H3]] | unfold zlen; lia].
            * apply nf_while_brk; [exact P | exact W | split; [exact H1 | split; [exact H2 | exact H3]] | unfold zlen; lia]. }
      match goal with |- snd (let '(r', v) := ?X in _) <> _ => destruct X as [r' [l|e]] end; cbn [snd] in *; [discriminate | errne K].
    - destruct (optional && negb (r_remaining r >? 0)); [cbn [snd]; discriminate|].
      destruct (r_get_int_of t r) as [r' z]. cbn [snd]. discriminate.
    - destruct (guarded && negb (rpos r =? start)); [cbn [snd]; discriminate|].
      pose proof (nf_value ty None false 0 r P H) as NV.
      destruct (deser_value rec ty None false 0 r) as [r' [x|e]]; cbn [snd] in *; [discriminate | errne NV].
    - destruct (find_case cases _) as [c|] eqn:FC; [|cbn [snd]; discriminate].
      destruct (c_cls c) as [cls|] eqn:CC; [|cbn [snd]; discriminate].
      rewrite forallb_forall in P. specialize (P c (find_case_In _ _ _ FC)). rewrite CC in P.
      pose proof (Hnf cls r P H) as NV.
      destruct (rec cls r) as [r' [x|e]]; cbn [snd] in *; [discriminate | errne NV].
    - cbn [snd]. discriminate.
    - destruct (r_next_chunk r) as [r'|e] eqn:N; cbn [snd]; [discriminate|].
      apply next_chunk_err_runtime in N. subst e. discriminate.
  Qed.

  Lemma nf_instrs start : forall is locals r, prog_instrs prog_cls adv_cls brk_cls (rchunked r) is = true -> r_inv r ->
    snd (deser_instrs rec start is locals r) <> Err EFuel.
  Proof.
    induction is as [|i t IH]; intros locals r P H; cbn [deser_instrs prog_instrs] in *; [cbn [snd]; discriminate|].
    apply andb_true_iff in P as [P1 P2].
    pose proof (nf_instr start i locals r P1 H) as NI.
    pose proof (keepsC_deser_instr rec HrecC start i locals r H) as KI.
    pose proof (mode_deser_instr rec Hmode start i locals r) as MI.
    destruct (deser_instr rec start i locals r) as [r1 [l1|e]]; cbn [fst snd] in NI, KI, MI |- *; [|errne NI].
    apply IH; [rewrite MI, <- pg_mode_after; exact P2 | exact (proj1 (proj1 KI))].
  Qed.

  Lemma nf_body d r : prog_instrs prog_cls adv_cls brk_cls (rchunked r) (sd_body d) = true -> r_inv r ->
    snd (deser_body rec d r) <> Err EFuel.
  Proof.
    intros P H. unfold deser_body. pose proof (nf_instrs (rpos r) (sd_body d) [] r P H) as NI.
    destruct (deser_instrs rec (rpos r) (sd_body d) [] r) as [r' [l|e]]; cbn [fst snd] in *; [|errne NI].
    pose proof (build_fields_not_fuel l (sd_body d)) as BF.
    destruct (build_fields (sd_body d) l) as [flds|e]; cbn [rbind]; [discriminate | errne BF].
  Qed.
End FuelRec.

(* the main lemma: on an accepted class neither the loop fuel nor the struct-depth fuel runs out *)
Lemma nf_deser_struct E : forall fuel cls r, prog_class fuel E cls (rchunked r) = true -> r_inv r ->
  snd (deser_struct fuel E cls r) <> Err EFuel.
Proof.
  induction fuel as [|f IH]; intros cls r P H; cbn [deser_struct prog_class] in *; [discriminate P|].
  destruct (env_find E cls) as [d|]; [|discriminate P].
  apply (nf_body (deser_struct f E) (prog_class f E) (adv_class f E) (brk_class f E) (keepsC_deser_struct E f)
           (mode_deser_struct E f) (adv_deser_struct E f) (brk_deser_struct E f) IH d r P H).
Qed.

(* ================= the struct-depth fuel ================= *)
(* a class body only calls the deserializers of the classes it references *)
Section Congr.
  Variable rec1 rec2 : string -> rstate -> rres value.
  Definition agree (ns : list string) : Prop := forall n, In n ns -> forall r, rec1 n r = rec2 n r.

  Lemma cg_value ty len padded off r : agree (ty_refs ty) ->
    deser_value rec1 ty len padded off r = deser_value rec2 ty len padded off r.
  Proof. intros A. destruct ty; try reflexivity. cbn [deser_value]. apply A. left. reflexivity. Qed.

  Lemma cg_for ty delimited trailing : agree (ty_refs ty) -> forall k i n acc r,
    deser_for rec1 ty delimited trailing k i n acc r = deser_for rec2 ty delimited trailing k i n acc r.
  Proof.
    intros A. induction k as [|k IH]; intros i n acc r; cbn [deser_for]; [reflexivity|].
    rewrite (cg_value ty None false 0 r A). destruct (deser_value rec2 ty None false 0 r) as [r1 [x|e]]; [|reflexivity].
    destruct (delimited && (trailing || (i + 1 <? n))); [|apply IH].
    destruct (r_next_chunk r1) as [r2|e]; [apply IH | reflexivity].
  Qed.

  Lemma cg_while ty delimited : agree (ty_refs ty) -> forall fuel acc r,
    deser_while rec1 ty delimited fuel acc r = deser_while rec2 ty delimited fuel acc r.
  Proof.
    intros A. induction fuel as [|f IH]; intros acc r; cbn [deser_while]; [reflexivity|].
    destruct (r_remaining r >? 0); [|reflexivity].
    rewrite (cg_value ty None false 0 r A). destruct (deser_value rec2 ty None false 0 r) as [r1 [x|e]]; [|reflexivity].
    destruct delimited; [|apply IH]. destruct (r_next_chunk r1) as [r2|e]; [apply IH | reflexivity].
  Qed.

  Lemma cg_instr start i locals r : agree (instr_refs i) ->
    deser_instr rec1 start i locals r = deser_instr rec2 start i locals r.
  Proof.
    intros A.
    destruct i as [f|f delimited trailing count|name t off optional o1 o2|ty lit guarded|field cases|b|];
      cbn [deser_instr instr_refs] in *; try reflexivity.
    - destruct (f_optional f && negb (r_remaining r >? 0)); [reflexivity|].
      destruct (len_expr f locals) as [len|e]; [|reflexivity]. rewrite (cg_value (f_ty f) len (f_padded f) 0 r A). reflexivity.
    - destruct (f_name f) as [name|]; [|reflexivity].
      destruct (f_optional f && negb (r_remaining r >? 0)); [reflexivity|].
      destruct count as [|size|].
      + destruct (len_expr f locals) as [[n|]|e]; [|reflexivity|reflexivity]. rewrite (cg_for (f_ty f) delimited trailing A). reflexivity.
      + destruct (size =? 0); [reflexivity|]. rewrite (cg_for (f_ty f) delimited trailing A). reflexivity.
      + rewrite (cg_while (f_ty f) delimited A). reflexivity.
    - destruct (guarded && negb (rpos r =? start)); [reflexivity|]. rewrite (cg_value ty None false 0 r A). reflexivity.
    - destruct (find_case cases _) as [c|] eqn:FC; [|reflexivity]. destruct (c_cls c) as [cls|] eqn:CC; [|reflexivity].
      rewrite (A cls); [reflexivity|]. apply in_flat_map. exists c. split; [apply (find_case_In _ _ _ FC)|].
      rewrite CC. left. reflexivity.
  Qed.

  Lemma cg_instrs start : forall is locals r, agree (body_refs is) ->
    deser_instrs rec1 start is locals r = deser_instrs rec2 start is locals r.
  Proof.
    induction is as [|i t IH]; intros locals r A; cbn [deser_instrs]; [reflexivity|].
    rewrite (cg_instr start i locals r); [|intros n Hn; apply A; unfold body_refs; cbn [flat_map]; apply in_or_app; left; exact Hn].
    destruct (deser_instr rec2 start i locals r) as [r' [l|e]]; [|reflexivity].
    apply IH. intros n Hn. apply A. unfold body_refs. cbn [flat_map]. apply in_or_app. right. exact Hn.
  Qed.

  Lemma cg_body d r : agree (body_refs (sd_body d)) -> deser_body rec1 d r = deser_body rec2 d r.
  Proof. intros A. unfold deser_body. rewrite (cg_instrs (rpos r) (sd_body d) [] r A). reflexivity. Qed.
End Congr.

Lemma depth_le_S E : forall f cls, depth_le f E cls = true -> depth_le (S f) E cls = true.
Proof.
  induction f as [|f IH]; intros cls D; [discriminate D|]. cbn [depth_le] in D. remember (S f) as f1. cbn [depth_le]. subst f1.
  destruct (env_find E cls) as [d|]; [|reflexivity].
  rewrite forallb_forall in D |- *. intros n Hn. apply IH, D, Hn.
Qed.

(* once the fuel covers the nesting depth of a class, more fuel changes nothing: the depth fuel is not what makes
   a run fail *)
Lemma deser_struct_fuel_irrelevant E : forall f cls, depth_le f E cls = true ->
  forall k r, deser_struct (f + k) E cls r = deser_struct f E cls r.
Proof.
  induction f as [|f IH]; intros cls D k r; [discriminate D|].
  cbn [depth_le] in D. cbn [Nat.add deser_struct]. destruct (env_find E cls) as [d|]; [|reflexivity].
  apply cg_body. intros n Hn r0. rewrite forallb_forall in D. apply IH, D, Hn.
Qed.

Lemma env_find_In E : forall cls d, env_find E cls = Some d -> In d E /\ sd_name d = cls.
Proof.
  induction E as [|d0 t IH]; intros cls d F; cbn [env_find] in F; [discriminate F|].
  destruct (String.eqb (sd_name d0) cls) eqn:Q.
  - injection F as <-. split; [left; reflexivity | apply String.eqb_eq; exact Q].
  - destruct (IH cls d F) as [I1 I2]. split; [right; exact I1 | exact I2].
Qed.

Lemma depth_ok_class E cls : depth_ok E = true -> depth_le (S (List.length E)) E cls = true.
Proof.
  intros D. destruct (env_find E cls) as [d|] eqn:F.
  - destruct (env_find_In E cls d F) as [I1 I2]. unfold depth_ok in D. rewrite forallb_forall in D.
    specialize (D d I1). rewrite I2 in D. apply depth_le_S. exact D.
  - cbn [depth_le]. rewrite F. reflexivity.
Qed.

(* ---- the static checks do not depend on their fuel either, once it covers the nesting depth ---- *)
Lemma forallb_congr {A} (f g : A -> bool) : forall l, (forall x, In x l -> f x = g x) -> forallb f l = forallb g l.
Proof.
  induction l as [|x t IH]; intros Hfg; cbn [forallb]; [reflexivity|].
  rewrite (Hfg x (or_introl eq_refl)). rewrite IH; [reflexivity|]. intros y Hy. apply Hfg. right. exact Hy.
Qed.

Lemma case_ref_In (cases : list ecase) c cls : In c cases -> c_cls c = Some cls ->
  In cls (flat_map (fun c => match c_cls c with Some cls => [cls] | None => [] end) cases).
Proof. intros Hin CC. apply in_flat_map. exists c. split; [exact Hin|]. rewrite CC. left. reflexivity. Qed.

Section CongrAn.
  Variable an1 an2 : string -> bool -> bool -> option bool.
  Definition agreeA (ns : list string) : Prop := forall n, In n ns -> forall m a, an1 n m a = an2 n m a.

  Lemma cg_an_type m a ty : agreeA (ty_refs ty) -> an_type an1 m a ty = an_type an2 m a ty.
  Proof. intros A. destruct ty; try reflexivity. cbn [an_type]. apply A. left. reflexivity. Qed.

  Lemma cg_an_cases m a : forall cases, agreeA (instr_refs (ESwitch EmptyString cases)) ->
    an_cases an1 m a cases = an_cases an2 m a cases.
  Proof.
    induction cases as [|c t IH]; intros A; cbn [an_cases]; [reflexivity|].
    rewrite IH; [|intros n Hn; apply A; cbn [instr_refs flat_map] in *; apply in_or_app; right; exact Hn].
    destruct (an_cases an2 m a t) as [o|]; [|reflexivity]. destruct (c_cls c) as [cls|] eqn:CC; [|reflexivity].
    rewrite (A cls); [reflexivity|]. cbn [instr_refs flat_map]. rewrite CC. left. reflexivity.
  Qed.

  Lemma cg_an_instr m a i : agreeA (instr_refs i) -> an_instr an1 m a i = an_instr an2 m a i.
  Proof.
    intros A. destruct i as [f|f delimited trailing count|name t off optional o1 o2|ty lit guarded|field cases|b|];
      cbn [an_instr instr_refs] in *; try reflexivity.
    - rewrite (cg_an_type m a (f_ty f) A). reflexivity.
    - unfold an_loop, an_iter. rewrite !(cg_an_type m _ (f_ty f) A). reflexivity.
    - rewrite (cg_an_type m a ty A). reflexivity.
    - apply cg_an_cases. exact A.
  Qed.

  Lemma cg_an_instrs : forall is m a, agreeA (body_refs is) -> an_instrs an1 m a is = an_instrs an2 m a is.
  Proof.
    induction is as [|i t IH]; intros m a A; cbn [an_instrs]; [reflexivity|].
    rewrite (cg_an_instr m a i); [|intros n Hn; apply A; unfold body_refs; cbn [flat_map]; apply in_or_app; left; exact Hn].
    destruct (an_instr an2 m a i) as [a1|]; [|reflexivity].
    apply IH. intros n Hn. apply A. unfold body_refs. cbn [flat_map]. apply in_or_app. right. exact Hn.
  Qed.
End CongrAn.

Section CongrAdv.
  Variable adv1 adv2 : string -> bool -> bool.
  Variable an1 an2 : string -> bool -> bool -> option bool.
  Definition agreeB (ns : list string) : Prop := forall n, In n ns -> forall m, adv1 n m = adv2 n m.

  Lemma cg_adv_type m ty len : agreeB (ty_refs ty) -> adv_type adv1 m ty len = adv_type adv2 m ty len.
  Proof. intros A. destruct ty; try reflexivity. cbn [adv_type]. apply A. left. reflexivity. Qed.

  Lemma cg_adv_first m i : agreeB (instr_refs i) -> adv_first adv1 m i = adv_first adv2 m i.
  Proof. intros A. destruct i; try reflexivity. cbn [adv_first instr_refs] in *. apply cg_adv_type. exact A. Qed.

  Lemma cg_adv_scan : forall is m, agreeB (body_refs is) -> adv_scan adv1 m is = adv_scan adv2 m is.
  Proof.
    induction is as [|i t IH]; intros m A; [reflexivity|]. rewrite !adv_scan_cons.
    assert (Ai : agreeB (instr_refs i)) by (intros n Hn; apply A; unfold body_refs; cbn [flat_map]; apply in_or_app; left; exact Hn).
    rewrite (cg_adv_first m i Ai). rewrite (IH m); [reflexivity|].
    intros n Hn. apply A. unfold body_refs. cbn [flat_map]. apply in_or_app. right. exact Hn.
  Qed.

  Lemma cg_adv_instrs is m : agreeB (body_refs is) -> agreeA an1 an2 (body_refs is) ->
    adv_instrs adv1 an1 m is = adv_instrs adv2 an2 m is.
  Proof. intros A B. unfold adv_instrs. rewrite (cg_an_instrs an1 an2 is m m B). rewrite (cg_adv_scan is m A). reflexivity. Qed.
End CongrAdv.

Section CongrBrk.
  Variable brk1 brk2 : string -> bool.
  Definition agreeK (ns : list string) : Prop := forall n, In n ns -> brk1 n = brk2 n.

  Lemma cg_brk_type ty : agreeK (ty_refs ty) -> brk_type brk1 ty = brk_type brk2 ty.
  Proof. intros A. destruct ty; try reflexivity. cbn [brk_type]. apply A. left. reflexivity. Qed.

  Lemma cg_brk_instr i : agreeK (instr_refs i) -> brk_instr brk1 i = brk_instr brk2 i.
  Proof.
    intros A. destruct i as [f| | | | | |]; try reflexivity. cbn [brk_instr instr_refs] in *.
    destruct (f_ty f); try reflexivity. rewrite (A name); [reflexivity | left; reflexivity].
  Qed.

  Lemma cg_brk_instrs : forall is, agreeK (body_refs is) -> brk_instrs brk1 is = brk_instrs brk2 is.
  Proof.
    unfold brk_instrs. induction is as [|i t IH]; intros A; cbn [existsb]; [reflexivity|].
    rewrite (cg_brk_instr i); [rewrite IH; [reflexivity|]|];
      intros n Hn; apply A; unfold body_refs; cbn [flat_map]; apply in_or_app; first [left; exact Hn | right; exact Hn].
  Qed.
End CongrBrk.

Section CongrProg.
  Variable prog1 prog2 : string -> bool -> bool.
  Variable adv1 adv2 : string -> bool -> bool.
  Variable brk1 brk2 : string -> bool.

  Lemma cg_prog_type m ty : agreeB prog1 prog2 (ty_refs ty) -> prog_type prog1 m ty = prog_type prog2 m ty.
  Proof. intros A. destruct ty; try reflexivity. cbn [prog_type]. apply A. left. reflexivity. Qed.

  Lemma cg_prog_instr m i : agreeB prog1 prog2 (instr_refs i) -> agreeB adv1 adv2 (instr_refs i) ->
    agreeK brk1 brk2 (instr_refs i) -> prog_instr prog1 adv1 brk1 m i = prog_instr prog2 adv2 brk2 m i.
  Proof.
    intros A B C. destruct i as [f|f delimited trailing count|name t off optional o1 o2|ty lit guarded|field cases|b|];
      cbn [prog_instr instr_refs] in *; try reflexivity.
    - apply cg_prog_type. exact A.
    - rewrite (cg_prog_type m (f_ty f) A). rewrite (cg_adv_type adv1 adv2 m (f_ty f) LNone B).
      rewrite (cg_brk_type brk1 brk2 (f_ty f) C). reflexivity.
    - apply cg_prog_type. exact A.
    - apply forallb_congr. intros c Hin. destruct (c_cls c) as [cls|] eqn:CC; [|reflexivity].
      apply A. apply (case_ref_In cases c cls Hin CC).
  Qed.

  Lemma cg_prog_instrs : forall is m, agreeB prog1 prog2 (body_refs is) -> agreeB adv1 adv2 (body_refs is) ->
    agreeK brk1 brk2 (body_refs is) -> prog_instrs prog1 adv1 brk1 m is = prog_instrs prog2 adv2 brk2 m is.
  Proof.
    induction is as [|i t IH]; intros m A B C; cbn [prog_instrs]; [reflexivity|].
    rewrite (cg_prog_instr m i); [rewrite IH; [reflexivity| | |]| | |];
      intros n Hn; first [apply A | apply B | apply C]; unfold body_refs; cbn [flat_map]; apply in_or_app; first [left; exact Hn | right; exact Hn].
  Qed.
End CongrProg.

Section CongrWf.
  Variable wf1 wf2 : string -> bool -> bool.

  Lemma cg_type_ok m ty : agreeB wf1 wf2 (ty_refs ty) -> type_ok wf1 m ty = type_ok wf2 m ty.
  Proof. intros A. destruct ty; try reflexivity. cbn [type_ok]. apply A. left. reflexivity. Qed.

  Lemma cg_wf_instr m lens i : agreeB wf1 wf2 (instr_refs i) -> wf_instr wf1 m lens i = wf_instr wf2 m lens i.
  Proof.
    intros A. destruct i as [f|f delimited trailing count|name t off optional o1 o2|ty lit guarded|field cases|b|];
      cbn [wf_instr instr_refs] in *; try reflexivity.
    - rewrite (cg_type_ok m (f_ty f) A). reflexivity.
    - rewrite (cg_type_ok m (f_ty f) A). reflexivity.
    - f_equal. apply forallb_congr. intros c Hin. destruct (c_cls c) as [cls|] eqn:CC; [|reflexivity].
      apply A. apply (case_ref_In cases c cls Hin CC).
  Qed.

  Lemma cg_wf_instrs : forall is m lens, agreeB wf1 wf2 (body_refs is) -> wf_instrs wf1 m lens is = wf_instrs wf2 m lens is.
  Proof.
    induction is as [|i t IH]; intros m lens A; [reflexivity|]. rewrite !wf_instrs_cons.
    rewrite (cg_wf_instr m lens i); [rewrite IH; [reflexivity|]|];
      intros n Hn; apply A; unfold body_refs; cbn [flat_map]; apply in_or_app; first [left; exact Hn | right; exact Hn].
  Qed.
End CongrWf.

Lemma an_class_fuel_irrelevant E : forall f cls, depth_le f E cls = true ->
  forall k m a, an_class (f + k) E cls m a = an_class f E cls m a.
Proof.
  induction f as [|f IH]; intros cls D k m a; [discriminate D|].
  cbn [depth_le] in D. cbn [Nat.add an_class]. destruct (env_find E cls) as [d|]; [|reflexivity].
  apply cg_an_instrs. intros n Hn m0 a0. rewrite forallb_forall in D. apply IH, D, Hn.
Qed.

Lemma adv_class_fuel_irrelevant E : forall f cls, depth_le f E cls = true ->
  forall k m, adv_class (f + k) E cls m = adv_class f E cls m.
Proof.
  induction f as [|f IH]; intros cls D k m; [discriminate D|].
  cbn [depth_le] in D. cbn [Nat.add adv_class]. destruct (env_find E cls) as [d|]; [|reflexivity].
  rewrite forallb_forall in D. apply cg_adv_instrs.
  - intros n Hn m0. apply IH, D, Hn.
  - intros n Hn m0 a0. apply an_class_fuel_irrelevant, D, Hn.
Qed.

Lemma brk_class_fuel_irrelevant E : forall f cls, depth_le f E cls = true ->
  forall k, brk_class (f + k) E cls = brk_class f E cls.
Proof.
  induction f as [|f IH]; intros cls D k; [discriminate D|].
  cbn [depth_le] in D. cbn [Nat.add brk_class]. destruct (env_find E cls) as [d|]; [|reflexivity].
  rewrite forallb_forall in D. apply cg_brk_instrs. intros n Hn. apply IH, D, Hn.
Qed.

Lemma prog_class_fuel_irrelevant E : forall f cls, depth_le f E cls = true ->
  forall k m, prog_class (f + k) E cls m = prog_class f E cls m.
Proof.
  induction f as [|f IH]; intros cls D k m; [discriminate D|].
  cbn [depth_le] in D. cbn [Nat.add prog_class]. destruct (env_find E cls) as [d|]; [|reflexivity].
  rewrite forallb_forall in D. apply cg_prog_instrs.
  - intros n Hn m0. apply IH, D, Hn.
  - intros n Hn m0. apply adv_class_fuel_irrelevant, D, Hn.
  - intros n Hn. apply brk_class_fuel_irrelevant, D, Hn.
Qed.

Lemma wf_class_fuel_irrelevant E : forall f cls, depth_le f E cls = true ->
  forall k m, wf_class (f + k) E cls m = wf_class f E cls m.
Proof.
  induction f as [|f IH]; intros cls D k m; [discriminate D|].
  cbn [depth_le] in D. cbn [Nat.add wf_class]. destruct (env_find E cls) as [d|]; [|reflexivity].
  rewrite forallb_forall in D. apply cg_wf_instrs. intros n Hn m0. apply IH, D, Hn.
Qed.
