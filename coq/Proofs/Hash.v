From EO Require Import Prelude.Py Model.Hash.
Open Scope Z_scope.
Set Default Timeout 120.

Lemma mod_is_rem a b : 0 < b -> u_mod a b = Z.rem a b.
Proof.
  intros Hb. unfold u_mod.
  destruct (a <? 0) eqn:Ha; cbn [andb].
  - assert (Hm : exists m, a = - m /\ 0 < m) by (exists (- a); lia). destruct Hm as [m [-> Hm]].
    rewrite Z.rem_opp_l by lia. rewrite (Z.rem_mod_nonneg m b) by lia.
    destruct (Z.eq_dec (m mod b) 0) as [E|E].
    + rewrite (Z.mod_opp_l_z m b) by lia. change (0 =? 0) with true. cbn [negb]. lia.
    + rewrite (Z.mod_opp_l_nz m b) by lia. pose proof (Z.mod_pos_bound m b Hb).
      destruct (b - m mod b =? 0) eqn:Hz2; cbn [negb]; lia.
  - apply eq_sym, Z.rem_mod_nonneg; lia.
Qed.

Lemma hash_equals_client c : 0 <= c + 1 -> server_verification_hash c = client_hash c.
Proof.
  intros H. unfold server_verification_hash, client_hash. cbv zeta.
  rewrite (Z.rem_mod_nonneg (c + 1) 11) by lia.
  assert (0 < ((c + 1) mod 11 + 1) * 119) by (pose proof (Z.mod_pos_bound (c + 1) 11); lia).
  rewrite !mod_is_rem by lia. reflexivity.
Qed.

(* range: 0 <= c <= 11092003 analytically, the last 107 values by a finite sweep *)
Lemma hash_range_low c : 0 <= c <= 11092003 -> 0 <= client_hash c < 4097152081.
Proof.
  intros H. unfold client_hash. cbv zeta.
  set (k := c + 1).
  assert (Hk : 0 < k <= 11092004) by (unfold k; lia).
  pose proof (Z.rem_bound_pos k 9 ltac:(lia) ltac:(lia)) as B9.
  pose proof (Z.rem_bound_pos k 11 ltac:(lia) ltac:(lia)) as B11.
  pose proof (Z.rem_bound_pos k 2004 ltac:(lia) ltac:(lia)) as B2004.
  remember (Z.rem k 9) as r9. remember (Z.rem k 11) as r11. remember (Z.rem k 2004) as r2004.
  assert (Hm : 0 < (r11 + 1) * 119 <= 1309) by lia.
  pose proof (Z.rem_bound_pos (11092004 - k) ((r11 + 1) * 119) ltac:(lia) ltac:(lia)) as BM.
  remember (Z.rem (11092004 - k) ((r11 + 1) * 119)) as rm.
  clear Heqr9 Heqr11 Heqr2004 Heqrm.
  assert (0 <= (r9 + 1) * rm <= 9 * 1308).
  { split; [apply Z.mul_nonneg_nonneg; lia|]. apply Z.mul_le_mono_nonneg; lia. }
  lia.
Qed.

Fixpoint zrange (lo : Z) (n : nat) : list Z :=
  match n with O => [] | S n' => lo :: zrange (lo + 1) n' end.
Lemma zrange_in lo n x : lo <= x < lo + Z.of_nat n -> In x (zrange lo n).
Proof.
  revert lo; induction n as [|n IH]; intros lo H; [lia|]. cbn [zrange].
  destruct (Z.eq_dec lo x); [left; assumption | right; apply IH; lia].
Qed.

Lemma hash_range_high_sweep :
  forallb (fun c => (0 <=? client_hash c) && (client_hash c <? 4097152081)) (zrange 11092004 107) = true.
Proof. vm_compute. reflexivity. Qed.

Lemma hash_range c : 0 <= c <= 11092110 -> 0 <= client_hash c < 4097152081.
Proof.
  intros H. destruct (Z_le_dec c 11092003) as [L|L]; [apply hash_range_low; lia|].
  pose proof hash_range_high_sweep as S. rewrite forallb_forall in S.
  assert (I : In c (zrange 11092004 107)) by (apply zrange_in; lia).
  specialize (S c I). remember (client_hash c) as h. clear Heqh.
  apply andb_true_iff in S. destruct S as [S1 S2]. lia.
Qed.

(* the documented bound is sharp: one past it the hash is negative *)
Lemma hash_negative_past_bound : client_hash 11092111 < 0.
Proof. vm_compute. reflexivity. Qed.

(* the unrepaired helper deviates from the client on exact negative multiples *)
Lemma unrepaired_refuted : exists c, 0 <= c < 16194277 /\ hash_unrepaired c <> client_hash c.
Proof. exists 11092479. split; [lia|]. vm_compute. discriminate. Qed.
