From EO Require Import Prelude.Py Model.Limits Model.SeqStart.
Open Scope Z_scope.
Set Default Timeout 120.

Lemma randrange_ok a b draws r rest : randrange a b draws = Ok (r, rest) ->
  a <= r < b /\ draws = r :: rest.
Proof.
  unfold randrange. destruct (a <? b) eqn:E; [|discriminate].
  destruct draws as [|x t]; [discriminate|].
  destruct ((a <=? x) && (x <? b)) eqn:R; [|discriminate].
  intros H. injection H as <- <-. split; [lia | reflexivity].
Qed.

Lemma randrange_not_evalue a b draws : a < b -> randrange a b draws <> Err EValue.
Proof.
  intros H. unfold randrange. destruct (a <? b) eqn:E; [|lia].
  destruct draws as [|x t]; [discriminate|]. destruct ((a <=? x) && (x <? b)); discriminate.
Qed.

Lemma randrange_total a b r rest : a <= r < b -> randrange a b (r :: rest) = Ok (r, rest).
Proof.
  intros H. unfold randrange. destruct (a <? b) eqn:E; [|lia].
  destruct ((a <=? r) && (r <? b)) eqn:R; [reflexivity | lia].
Qed.

(* the draw range of seq1 is never empty *)
Lemma init_range_nonempty v : 0 <= v < 1757 -> 0 < seq1_max v - seq1_min v.
Proof. intros H. unfold seq1_max, seq1_min, truediv_int, CHAR_MAX. lia. Qed.

Lemma init_components v r : 0 <= v < 1757 -> 0 <= r < seq1_max v - seq1_min v ->
  let s1 := r + seq1_min v in let s2 := v - s1 * 7 + 13 in
  0 <= s1 <= 252 /\ 0 <= s2 <= 252 /\ init_from_init_values s1 s2 = (v, s1, s2).
Proof.
  intros Hv Hr. cbv zeta. unfold init_from_init_values.
  unfold seq1_max, seq1_min, truediv_int, CHAR_MAX in *.
  split; [lia|]. split; [lia|]. f_equal. f_equal. lia.
Qed.
