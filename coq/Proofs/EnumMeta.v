(* Lemmas about the protocol-enum metaclass model (Model/EnumMeta.v). *)
From EO Require Import Prelude.Py Model.Spec Model.EnumMeta.
From Coq Require Import DecimalString DecimalZ DecimalFacts.
Set Default Timeout 60.
Open Scope Z_scope.

(* ---- membership in [seen] ------------------------------------------------------------- *)
Lemma existsb_eqb_In : forall v seen, existsb (Z.eqb v) seen = true <-> In v seen.
Proof.
  intros v seen. rewrite existsb_exists. split.
  - intros [x [Hin Heq]]. apply Z.eqb_eq in Heq. subst x. exact Hin.
  - intros Hin. exists v. split; [exact Hin | apply Z.eqb_refl].
Qed.

Lemma existsb_eqb_nIn : forall v seen, existsb (Z.eqb v) seen = false <-> ~ In v seen.
Proof.
  intros v seen. rewrite <- existsb_eqb_In. destruct (existsb (Z.eqb v) seen); split; intro H; congruence.
Qed.

(* ---- canonical members ---------------------------------------------------------------- *)
(* every canonical member is the FIRST declaration of its ordinal, and its ordinal was not seen before *)
Lemma canon_members_first : forall l seen nm n, In (nm, n) (canon_members l seen) ->
  ~ In n seen /\ exists pre post, l = pre ++ (nm, n) :: post /\ ~ In n (map snd pre).
Proof.
  induction l as [|[nm0 v] t IH]; intros seen nm n Hin; cbn [canon_members] in Hin; [destruct Hin|].
  destruct (existsb (Z.eqb v) seen) eqn:Hseen.
  - apply existsb_eqb_In in Hseen. destruct (IH _ _ _ Hin) as [Hns [pre [post [Heq Hpre]]]].
    split; [exact Hns|]. exists ((nm0, v) :: pre), post. split; [rewrite Heq; reflexivity|].
    cbn [map snd In]. intros [Hv | Hp]; [subst v; exact (Hns Hseen) | exact (Hpre Hp)].
  - apply existsb_eqb_nIn in Hseen. destruct Hin as [Hhd | Htl].
    + inversion Hhd; subst nm0 v. split; [exact Hseen|]. exists [], t. split; [reflexivity | intros []].
    + destruct (IH _ _ _ Htl) as [Hns [pre [post [Heq Hpre]]]].
      split; [intro Hs; apply Hns; right; exact Hs|].
      exists ((nm0, v) :: pre), post. split; [rewrite Heq; reflexivity|].
      cbn [map snd In]. intros [Hv | Hp]; [apply Hns; left; exact Hv | exact (Hpre Hp)].
Qed.

Lemma canon_members_sub : forall l seen nm n, In (nm, n) (canon_members l seen) -> In (nm, n) l.
Proof.
  intros l seen nm n Hin. destruct (canon_members_first _ _ _ _ Hin) as [_ [pre [post [Heq _]]]].
  rewrite Heq. apply in_or_app. right. left. reflexivity.
Qed.

Lemma canon_members_not_seen : forall l seen n, In n (map snd (canon_members l seen)) -> ~ In n seen.
Proof.
  intros l seen n Hin. apply in_map_iff in Hin. destruct Hin as [[nm v] [Hv Hin]]. cbn [snd] in Hv. subst v.
  exact (proj1 (canon_members_first _ _ _ _ Hin)).
Qed.

Lemma canon_members_NoDup : forall l seen, NoDup (map snd (canon_members l seen)).
Proof.
  induction l as [|[nm0 v] t IH]; intros seen; cbn [canon_members]; [constructor|].
  destruct (existsb (Z.eqb v) seen); [apply IH|].
  cbn [map snd]. constructor; [|apply IH].
  intro Hin. apply canon_members_not_seen in Hin. apply Hin. left. reflexivity.
Qed.

(* every declared, not yet seen ordinal has a canonical member *)
Lemma canon_members_complete : forall l seen n, In n (map snd l) -> ~ In n seen ->
  In n (map snd (canon_members l seen)).
Proof.
  induction l as [|[nm0 v] t IH]; intros seen n Hin Hns; cbn [map snd] in Hin; [destruct Hin|].
  cbn [canon_members]. destruct (existsb (Z.eqb v) seen) eqn:Hseen.
  - apply existsb_eqb_In in Hseen. destruct Hin as [Hv | Ht]; [subst v; destruct (Hns Hseen)|].
    apply IH; assumption.
  - cbn [map snd]. destruct (Z.eq_dec v n) as [Hvn | Hvn]; [left; exact Hvn|].
    right. apply IH; [destruct Hin as [Hv | Ht]; [destruct (Hvn Hv) | exact Ht]|].
    intros [Hv | Hs]; [exact (Hvn Hv) | exact (Hns Hs)].
Qed.

Lemma canon_members_snd_iff : forall l n, In n (map snd (canon_members l [])) <-> In n (map snd l).
Proof.
  intros l n. split.
  - intro Hin. apply in_map_iff in Hin. destruct Hin as [[nm v] [Hv Hin]]. cbn [snd] in Hv. subst v.
    apply canon_members_sub in Hin. apply in_map_iff. exists (nm, n). split; [reflexivity | exact Hin].
  - intro Hin. apply canon_members_complete; [exact Hin | intros []].
Qed.

(* ---- the value -> member map ---------------------------------------------------------- *)
Definition v2m_of (k : nat) (ms : list (string * Z)) : list (Z * nat) :=
  map (fun p : nat * (string * Z) => (snd (snd p), fst p)) (combine (seq k (List.length ms)) ms).

Lemma v2m_find_first_index : forall ms k n, v2m_find (v2m_of k ms) n = first_index n ms k.
Proof.
  induction ms as [|[nm v] t IH]; intros k n; [reflexivity|].
  unfold v2m_of. cbn [List.length seq combine map fst snd v2m_find first_index].
  destruct (v =? n); [reflexivity|]. apply IH.
Qed.

Lemma first_index_Some : forall ms k n i, first_index n ms k = Some i ->
  exists j nm, i = (k + j)%nat /\ nth_error ms j = Some (nm, n) /\ ~ In n (map snd (firstn j ms)).
Proof.
  induction ms as [|[nm v] t IH]; intros k n i Hfi; cbn [first_index] in Hfi; [discriminate|].
  destruct (v =? n) eqn:Hvn.
  - apply Z.eqb_eq in Hvn. subst v. inversion Hfi; subst i. exists 0%nat, nm.
    split; [lia|]. split; [reflexivity | intros []].
  - apply Z.eqb_neq in Hvn. destruct (IH _ _ _ Hfi) as [j [nm' [Hi [Hnth Hpre]]]].
    exists (S j), nm'. split; [lia|]. split; [exact Hnth|].
    cbn [firstn map snd In]. intros [Hv | Hp]; [exact (Hvn Hv) | exact (Hpre Hp)].
Qed.

Lemma first_index_None : forall ms k n, first_index n ms k = None <-> ~ In n (map snd ms).
Proof.
  induction ms as [|[nm v] t IH]; intros k n; cbn [first_index map snd In].
  - split; [intros _ [] | reflexivity].
  - destruct (v =? n) eqn:Hvn.
    + apply Z.eqb_eq in Hvn. split; [discriminate | intro Hn; exfalso; apply Hn; left; exact Hvn].
    + apply Z.eqb_neq in Hvn. rewrite IH. split.
      * intros Hn [Hv | Ht]; [exact (Hvn Hv) | exact (Hn Ht)].
      * intros Hn Ht. apply Hn. right. exact Ht.
Qed.

Lemma mk_class_members : forall decl, ec_members (mk_class decl) = canon_members decl [].
Proof. reflexivity. Qed.

Lemma mk_class_v2m : forall decl, ec_v2m (mk_class decl) = v2m_of 0 (canon_members decl []).
Proof. reflexivity. Qed.

Lemma mk_class_find : forall decl n,
  v2m_find (ec_v2m (mk_class decl)) n = first_index n (canon_members decl []) 0.
Proof. intros decl n. rewrite mk_class_v2m. apply v2m_find_first_index. Qed.

(* ---- calls ---------------------------------------------------------------------------- *)
Lemma ecall_fst : forall c n, fst (ecall c n) = c.
Proof. intros c n. unfold ecall. destruct (v2m_find (ec_v2m c) n); reflexivity. Qed.

Lemma ecalls_fst : forall ns c, fst (ecalls c ns) = c.
Proof.
  induction ns as [|n t IH]; intros c; cbn [ecalls]; [reflexivity|].
  pose proof (ecall_fst c n) as Hc. destruct (ecall c n) as [c1 v]. cbn [fst] in Hc. subst c1.
  pose proof (IH c) as Ht. destruct (ecalls c t) as [c2 vs]. exact Ht.
Qed.

Lemma ecalls_length : forall ns c, List.length (snd (ecalls c ns)) = List.length ns.
Proof.
  induction ns as [|n t IH]; intros c; cbn [ecalls]; [reflexivity|].
  destruct (ecall c n) as [c1 v]. pose proof (IH c1) as Ht. destruct (ecalls c1 t) as [c2 vs].
  cbn [snd List.length] in *. lia.
Qed.

(* the results of a history are the results of the individual calls on the original class *)
Lemma ecalls_snd : forall ns c, snd (ecalls c ns) = map (fun n => snd (ecall c n)) ns.
Proof.
  induction ns as [|n t IH]; intros c; cbn [ecalls map]; [reflexivity|].
  pose proof (ecall_fst c n) as Hc. destruct (ecall c n) as [c1 v]. cbn [fst] in Hc. subst c1.
  pose proof (IH c) as Ht. destruct (ecalls c t) as [c2 vs]. cbn [snd] in *. rewrite Ht. reflexivity.
Qed.

Lemma ecall_declared : forall decl n, In n (map snd decl) ->
  exists i nm, snd (ecall (mk_class decl) n) = Member i /\
    nth_error (ec_members (mk_class decl)) i = Some (nm, n) /\
    ~ In n (map snd (firstn i (ec_members (mk_class decl)))) /\
    (exists pre post, decl = pre ++ (nm, n) :: post /\ ~ In n (map snd pre)).
Proof.
  intros decl n Hin. unfold ecall. rewrite mk_class_find, mk_class_members.
  destruct (first_index n (canon_members decl []) 0) as [i|] eqn:Hfi.
  - destruct (first_index_Some _ _ _ _ Hfi) as [j [nm [Hi [Hnth Hpre]]]]. cbn [Nat.add] in Hi. subst j.
    exists i, nm. split; [reflexivity|]. split; [exact Hnth|]. split; [exact Hpre|].
    apply nth_error_In in Hnth. exact (proj2 (canon_members_first _ _ _ _ Hnth)).
  - apply first_index_None in Hfi. exfalso. apply Hfi. apply canon_members_snd_iff. exact Hin.
Qed.

Lemma ecall_undeclared : forall decl n, ~ In n (map snd decl) ->
  snd (ecall (mk_class decl) n) = Unrecognized n.
Proof.
  intros decl n Hn. unfold ecall. rewrite mk_class_find.
  destruct (first_index n (canon_members decl []) 0) as [i|] eqn:Hfi; [|reflexivity].
  destruct (first_index_Some _ _ _ _ Hfi) as [j [nm [_ [Hnth _]]]].
  apply nth_error_In in Hnth. apply canon_members_sub in Hnth.
  exfalso. apply Hn. apply in_map_iff. exists (nm, n). split; [reflexivity | exact Hnth].
Qed.

Lemma e_int_member : forall c i nm n, nth_error (ec_members c) i = Some (nm, n) -> e_int c (Member i) = n.
Proof. intros c i nm n Hnth. unfold e_int. rewrite (nth_error_nth _ _ _ Hnth). reflexivity. Qed.

Lemma e_name_member : forall c i nm n, nth_error (ec_members c) i = Some (nm, n) -> e_name c (Member i) = nm.
Proof. intros c i nm n Hnth. unfold e_name. rewrite (nth_error_nth _ _ _ Hnth). reflexivity. Qed.

(* a Member result always points inside the member list, whatever the integer *)
Lemma ecall_member_in_range : forall decl n i, snd (ecall (mk_class decl) n) = Member i ->
  exists nm, nth_error (ec_members (mk_class decl)) i = Some (nm, n).
Proof.
  intros decl n i Hc. destruct (in_dec Z.eq_dec n (map snd decl)) as [Hin | Hn].
  - destruct (ecall_declared _ _ Hin) as [i' [nm [Hc' [Hnth _]]]]. rewrite Hc in Hc'. inversion Hc'; subst i'.
    exists nm. exact Hnth.
  - rewrite (ecall_undeclared _ _ Hn) in Hc. discriminate.
Qed.

(* ---- decimal rendering ---------------------------------------------------------------- *)
Lemma to_int_not_nil : forall n, Z.to_int n <> Decimal.Pos Decimal.Nil /\ Z.to_int n <> Decimal.Neg Decimal.Nil.
Proof.
  intros n. split; intro Heq; pose proof (of_to n) as Hot; rewrite Heq in Hot; cbn in Hot; subst n; discriminate.
Qed.

Lemma dec_inj : forall n m, dec n = dec m -> n = m.
Proof.
  intros n m Heq. unfold dec in Heq. apply to_int_inj.
  destruct (to_int_not_nil n) as [Hn1 Hn2]. destruct (to_int_not_nil m) as [Hm1 Hm2].
  pose proof (NilZero.isi _ Hn1 Hn2) as Hin. pose proof (NilZero.isi _ Hm1 Hm2) as Him.
  rewrite Heq in Hin. rewrite Hin in Him. inversion Him. reflexivity.
Qed.

Lemma unrecognized_name_inj : forall c n m, e_name c (Unrecognized n) = e_name c (Unrecognized m) -> n = m.
Proof.
  intros c n m Heq. cbn [e_name] in Heq. apply dec_inj.
  change ("Unrecognized(" ++ dec n ++ ")")%string with ("Unrecognized(" ++ (dec n ++ ")"))%string in Heq.
  cbn [String.append] in Heq. inversion Heq as [Heq']. clear Heq.
  revert Heq'. generalize (dec n) as a, (dec m) as b. 
  induction a as [|ca a IH]; intros b Heq'; destruct b as [|cb b]; cbn [String.append] in Heq'.
  - reflexivity.
  - exfalso. inversion Heq' as [[Hc Hb]]. destruct b; discriminate.
  - exfalso. inversion Heq' as [[Hc Ha]]. destruct a; discriminate.
  - inversion Heq' as [[Hc Ht]]. f_equal. apply IH. exact Ht.
Qed.
