(* Lemma library for C03: memory-safety / error discipline of the reference deserializer (Model/Deser.v) over the
   EoReader model R (Model/Reader.v). *)
From EO Require Import Prelude.Py Model.Number Model.StringEnc Model.Cp1252 Model.Reader Model.Spec Model.Ser Model.Deser Model.WfEnv Proofs.Reader.
Open Scope Z_scope.
Set Default Timeout 60.
Ltac Zify.zify_post_hook ::= Z.to_euclidean_division_equations.

(* ================= the reader invariant ================= *)
Definition r_inv (r : rstate) : Prop :=
  0 <= rcstart r <= rpos r /\ rpos r <= zlen (rdata r) /\
  (rbrk r = find_break (rdata r) (rcstart r) \/ (rbrk r = -1 /\ rchunked r = false)).

(* r' is a state over the same data that satisfies the invariant *)
Definition keeps (r r' : rstate) : Prop := r_inv r' /\ rdata r' = rdata r.

Lemma keeps_refl r : r_inv r -> keeps r r.
Proof. intros H. split; [exact H | reflexivity]. Qed.

Lemma keeps_trans r r1 r2 : keeps r r1 -> keeps r1 r2 -> keeps r r2.
Proof. intros [H1 D1] [H2 D2]. split; [exact H2 | congruence]. Qed.

Lemma r_inv_init d : r_inv (initR d).
Proof.
  unfold r_inv, initR. cbn [rdata rpos rchunked rcstart rbrk]. pose proof (zlen_nonneg d) as Hd.
  split; [lia|]. split; [lia|]. right. split; reflexivity.
Qed.

Lemma keeps_set_chunked r b : r_inv r -> keeps r (r_set_chunked r b).
Proof.
  intros [H1 [H2 H3]]. unfold keeps, r_inv, r_set_chunked. cbn [rdata rpos rchunked rcstart rbrk].
  split; [|reflexivity]. split; [lia|]. split; [lia|]. left.
  destruct (rbrk r =? -1) eqn:E; [reflexivity|].
  destruct H3 as [H3|[H3 _]]; [exact H3 | lia].
Qed.

Lemma r_inv_init_mode d (b : bool) : r_inv (if b then r_set_chunked (initR d) true else initR d).
Proof. destruct b; [apply keeps_set_chunked|]; apply r_inv_init. Qed.

Lemma rem_bounds r : r_inv r -> 0 <= r_remaining r /\ rpos r + r_remaining r <= zlen (rdata r).
Proof.
  intros [H1 [H2 H3]]. unfold r_remaining. destruct (rchunked r) eqn:C.
  - destruct H3 as [H3|[_ H3]]; [|discriminate H3].
    pose proof (find_break_bounds (rdata r) (rcstart r)) as B. rewrite <- H3 in B. lia.
  - lia.
Qed.

(* every primitive read returns data[pos, pos') and never passes the end of the chunk / the data *)
Lemma read_bytes_spec r n : r_inv r -> 0 <= n ->
  snd (r_read_bytes r n) = slice (rdata r) (rpos r) (rpos (fst (r_read_bytes r n))) /\
  rpos r <= rpos (fst (r_read_bytes r n)) <= zlen (rdata r) /\
  rpos (fst (r_read_bytes r n)) - rpos r = Z.min n (r_remaining r) /\
  keeps r (fst (r_read_bytes r n)).
Proof.
  intros H Hn. pose proof (rem_bounds r H) as [R0 R1]. destruct H as [H1 [H2 H3]].
  unfold r_read_bytes. cbv zeta. cbn [fst snd]. unfold keeps, r_inv, r_set_pos. cbn [rdata rpos rchunked rcstart rbrk].
  split; [reflexivity|]. split; [lia|]. split; [lia|]. split; [|reflexivity].
  split; [lia|]. split; [lia | exact H3].
Qed.

Lemma keeps_read_bytes r n : r_inv r -> 0 <= n -> keeps r (fst (r_read_bytes r n)).
Proof. intros H Hn. apply (read_bytes_spec r n H Hn). Qed.

Lemma keeps_read_byte r : r_inv r -> keeps r (fst (r_read_byte r)).
Proof.
  intros H. pose proof (rem_bounds r H) as [R0 R1]. unfold r_read_byte.
  destruct (r_remaining r >? 0) eqn:E; cbn [fst]; [|apply keeps_refl; exact H].
  destruct H as [H1 [H2 H3]]. unfold keeps, r_inv, r_set_pos. cbn [rdata rpos rchunked rcstart rbrk].
  split; [|reflexivity]. split; [lia|]. split; [lia | exact H3].
Qed.

Lemma keeps_number r size : r_inv r -> 0 <= size -> keeps r (fst (r_get_number r size)).
Proof.
  intros H Hs. pose proof (keeps_read_bytes r size H Hs) as K. unfold r_get_number.
  destruct (r_read_bytes r size) as [r' bs]. exact K.
Qed.

Lemma keeps_int_of t r : r_inv r -> keeps r (fst (r_get_int_of t r)).
Proof.
  intros H. destruct t; cbn [r_get_int_of].
  - apply keeps_read_byte; exact H.
  - apply keeps_number; [exact H | lia].
  - apply keeps_number; [exact H | lia].
  - apply keeps_number; [exact H | lia].
  - apply keeps_number; [exact H | lia].
Qed.

Lemma keeps_get_string r : r_inv r -> keeps r (fst (r_get_string r)).
Proof.
  intros H. pose proof (rem_bounds r H) as [R0 _]. pose proof (keeps_read_bytes r _ H R0) as K.
  unfold r_get_string. destruct (r_read_bytes r (r_remaining r)) as [r' bs]. exact K.
Qed.

Lemma keeps_get_encoded_string r : r_inv r -> keeps r (fst (r_get_encoded_string r)).
Proof.
  intros H. pose proof (rem_bounds r H) as [R0 _]. pose proof (keeps_read_bytes r _ H R0) as K.
  unfold r_get_encoded_string. destruct (r_read_bytes r (r_remaining r)) as [r' bs]. exact K.
Qed.

Lemma keeps_get_bytes_rem r : r_inv r -> keeps r (fst (r_get_bytes r (r_remaining r))).
Proof. intros H. pose proof (rem_bounds r H) as [R0 _]. apply keeps_read_bytes; assumption. Qed.

(* a negative length is the documented ValueError and leaves the reader untouched *)
Lemma fixed_string_spec r n p : r_inv r ->
  match r_get_fixed_string r n p with Ok (r', _) => 0 <= n /\ keeps r r' | Err e => n < 0 /\ e = EValue end.
Proof.
  intros H. unfold r_get_fixed_string. destruct (n <? 0) eqn:E; [split; [lia | reflexivity]|].
  pose proof (keeps_read_bytes r n H ltac:(lia)) as K. destruct (r_read_bytes r n) as [r' bs]. split; [lia | exact K].
Qed.

Lemma fixed_encoded_string_spec r n p : r_inv r ->
  match r_get_fixed_encoded_string r n p with Ok (r', _) => 0 <= n /\ keeps r r' | Err e => n < 0 /\ e = EValue end.
Proof.
  intros H. unfold r_get_fixed_encoded_string. destruct (n <? 0) eqn:E; [split; [lia | reflexivity]|].
  pose proof (keeps_read_bytes r n H ltac:(lia)) as K. destruct (r_read_bytes r n) as [r' bs]. split; [lia | exact K].
Qed.

(* next_chunk may move the position backwards, but never out of the data *)
Lemma keeps_next_chunk r r' : r_inv r -> r_next_chunk r = Ok r' -> keeps r r'.
Proof.
  intros H E. unfold r_next_chunk in E. destruct (rchunked r) eqn:C; cbn [negb] in E; [|discriminate E].
  injection E as <-. destruct H as [H1 [H2 H3]]. destruct H3 as [H3|[_ H3]]; [|congruence].
  pose proof (find_break_bounds (rdata r) (rcstart r) ltac:(lia)) as B. rewrite <- H3 in B.
  unfold keeps, r_inv. cbn [rdata rpos rchunked rcstart rbrk]. split; [|reflexivity].
  destruct (rbrk r <? zlen (rdata r)) eqn:L.
  - split; [lia|]. split; [lia|]. left. reflexivity.
  - split; [lia|]. split; [lia|]. left. reflexivity.
Qed.

(* ================= (a) the deserializer keeps the invariant ================= *)
Section KeepsRec.
  Variable rec : string -> rstate -> rres value.
  Hypothesis Hrec : forall n r, r_inv r -> keeps r (fst (rec n r)).

  Lemma keeps_deser_value ty len padded off r : r_inv r -> keeps r (fst (deser_value rec ty len padded off r)).
  Proof.
    intros H. destruct ty as [t|t|nm t|enc| |nm]; cbn [deser_value].
    - pose proof (keeps_int_of t r H) as K. destruct (r_get_int_of t r) as [r' z]. exact K.
    - pose proof (keeps_int_of t r H) as K. destruct (r_get_int_of t r) as [r' z]. exact K.
    - pose proof (keeps_int_of t r H) as K. destruct (r_get_int_of t r) as [r' z]. exact K.
    - destruct len as [n|].
      + destruct enc.
        * pose proof (fixed_encoded_string_spec r n padded H) as K.
          destruct (r_get_fixed_encoded_string r n padded) as [[r' s]|e]; cbn [fst]; [apply K | apply keeps_refl; exact H].
        * pose proof (fixed_string_spec r n padded H) as K.
          destruct (r_get_fixed_string r n padded) as [[r' s]|e]; cbn [fst]; [apply K | apply keeps_refl; exact H].
      + destruct enc.
        * pose proof (keeps_get_encoded_string r H) as K. destruct (r_get_encoded_string r) as [r' s]. exact K.
        * pose proof (keeps_get_string r H) as K. destruct (r_get_string r) as [r' s]. exact K.
    - pose proof (keeps_get_bytes_rem r H) as K. destruct (r_get_bytes r (r_remaining r)) as [r' b]. exact K.
    - apply Hrec; exact H.
  Qed.

  Lemma keeps_deser_for ty delimited trailing : forall k i n acc r, r_inv r ->
    keeps r (fst (deser_for rec ty delimited trailing k i n acc r)).
  Proof.
    induction k as [|k IH]; intros i n acc r H; cbn [deser_for]; [apply keeps_refl; exact H|].
    pose proof (keeps_deser_value ty None false 0 r H) as K.
    destruct (deser_value rec ty None false 0 r) as [r1 [x|e]]; cbn [fst] in K |- *; [|exact K].
    destruct (delimited && (trailing || (i + 1 <? n))).
    - destruct (r_next_chunk r1) as [r2|e] eqn:N; cbn [fst]; [|exact K].
      pose proof (keeps_next_chunk r1 r2 (proj1 K) N) as K2.
      apply (keeps_trans r r1); [exact K|]. apply (keeps_trans r1 r2); [exact K2|]. apply IH. exact (proj1 K2).
    - apply (keeps_trans r r1); [exact K|]. apply IH. exact (proj1 K).
  Qed.

  Lemma keeps_deser_while ty delimited : forall fuel acc r, r_inv r ->
    keeps r (fst (deser_while rec ty delimited fuel acc r)).
  Proof.
    induction fuel as [|f IH]; intros acc r H; cbn [deser_while].
    - destruct (r_remaining r >? 0); apply keeps_refl; exact H.
    - destruct (r_remaining r >? 0); [|apply keeps_refl; exact H].
      pose proof (keeps_deser_value ty None false 0 r H) as K.
      destruct (deser_value rec ty None false 0 r) as [r1 [x|e]]; cbn [fst] in K |- *; [|exact K].
      destruct delimited.
      + destruct (r_next_chunk r1) as [r2|e] eqn:N; cbn [fst]; [|exact K].
        pose proof (keeps_next_chunk r1 r2 (proj1 K) N) as K2.
        apply (keeps_trans r r1); [exact K|]. apply (keeps_trans r1 r2); [exact K2|]. apply IH. exact (proj1 K2).
      + apply (keeps_trans r r1); [exact K|]. apply IH. exact (proj1 K).
  Qed.

  Lemma keeps_deser_instr start i locals r : r_inv r -> keeps r (fst (deser_instr rec start i locals r)).
  Proof.
    intros H. pose proof (keeps_refl r H) as K0.
    destruct i as [f|f delimited trailing count|name t off optional o1 o2|ty lit guarded|field cases|b|]; cbn [deser_instr].
    - destruct (f_optional f && negb (r_remaining r >? 0)); [exact K0|].
      destruct (len_expr f locals) as [len|e]; [|exact K0].
      pose proof (keeps_deser_value (f_ty f) len (f_padded f) 0 r H) as K.
      destruct (deser_value rec (f_ty f) len (f_padded f) 0 r) as [r' [x|e]]; exact K.
    - destruct (f_name f) as [name|]; [|exact K0].
      destruct (f_optional f && negb (r_remaining r >? 0)); [exact K0|].
      match goal with |- keeps r (fst (let '(r', v) := ?X in _)) => assert (K : keeps r (fst X)) end.
      { destruct count as [|size|].
        - destruct (len_expr f locals) as [[n|]|e]; [apply keeps_deser_for; exact H | exact K0 | exact K0].
        - destruct (size =? 0); [exact K0 | apply keeps_deser_for; exact H].
        - apply keeps_deser_while; exact H. }
      match goal with |- keeps r (fst (let '(r', v) := ?X in _)) => destruct X as [r' [l|e]] end; exact K.
    - destruct (optional && negb (r_remaining r >? 0)); [exact K0|].
      pose proof (keeps_int_of t r H) as K. destruct (r_get_int_of t r) as [r' z]. exact K.
    - destruct (guarded && negb (rpos r =? start)); [exact K0|].
      pose proof (keeps_deser_value ty None false 0 r H) as K.
      destruct (deser_value rec ty None false 0 r) as [r' [x|e]]; exact K.
    - destruct (find_case cases _) as [c|]; [|exact K0]. destruct (c_cls c) as [cls|]; [|exact K0].
      pose proof (Hrec cls r H) as K. destruct (rec cls r) as [r' [x|e]]; exact K.
    - apply keeps_set_chunked; exact H.
    - destruct (r_next_chunk r) as [r'|e] eqn:N; cbn [fst]; [|exact K0]. apply (keeps_next_chunk r r' H N).
  Qed.

  Lemma keeps_deser_instrs start : forall is locals r, r_inv r -> keeps r (fst (deser_instrs rec start is locals r)).
  Proof.
    induction is as [|i t IH]; intros locals r H; cbn [deser_instrs]; [apply keeps_refl; exact H|].
    pose proof (keeps_deser_instr start i locals r H) as K.
    destruct (deser_instr rec start i locals r) as [r' [l|e]]; cbn [fst] in K |- *; [|exact K].
    apply (keeps_trans r r'); [exact K|]. apply IH. exact (proj1 K).
  Qed.

  Lemma keeps_deser_body d r : r_inv r -> keeps r (fst (deser_body rec d r)).
  Proof.
    intros H. unfold deser_body. pose proof (keeps_deser_instrs (rpos r) (sd_body d) [] r H) as K.
    destruct (deser_instrs rec (rpos r) (sd_body d) [] r) as [r' v]. cbn [fst] in K |- *.
    apply (keeps_trans r r'); [exact K|]. apply keeps_set_chunked. exact (proj1 K).
  Qed.
End KeepsRec.

Lemma keeps_deser_struct E : forall fuel cls r, r_inv r -> keeps r (fst (deser_struct fuel E cls r)).
Proof.
  induction fuel as [|f IH]; intros cls r H; cbn [deser_struct]; [apply keeps_refl; exact H|].
  destruct (env_find E cls) as [d|]; [|apply keeps_refl; exact H].
  apply keeps_deser_body; [|exact H]. intros n r0 H0. apply IH. exact H0.
Qed.

(* ================= the chunked-mode flag ================= *)
Lemma mode_read_bytes r n : rchunked (fst (r_read_bytes r n)) = rchunked r.
Proof. reflexivity. Qed.

Lemma mode_read_byte r : rchunked (fst (r_read_byte r)) = rchunked r.
Proof. unfold r_read_byte. destruct (r_remaining r >? 0); reflexivity. Qed.

Lemma mode_number r size : rchunked (fst (r_get_number r size)) = rchunked r.
Proof. unfold r_get_number. pose proof (mode_read_bytes r size) as K. destruct (r_read_bytes r size) as [r' bs]. exact K. Qed.

Lemma mode_int_of t r : rchunked (fst (r_get_int_of t r)) = rchunked r.
Proof. destruct t; cbn [r_get_int_of]; [apply mode_read_byte | apply mode_number ..]. Qed.

Lemma next_chunk_mode r r' : r_next_chunk r = Ok r' -> rchunked r' = rchunked r.
Proof.
  unfold r_next_chunk. destruct (rchunked r); cbn [negb]; intros E; [|discriminate E]. injection E as <-. reflexivity.
Qed.

Lemma next_chunk_err r e : r_next_chunk r = Err e -> rchunked r = false.
Proof. unfold r_next_chunk. destruct (rchunked r); cbn [negb]; intros E; [discriminate E | reflexivity]. Qed.

Definition mode_after (m : bool) (i : einstr) : bool := match i with ESetMode b => b | _ => m end.

Section ModeRec.
  Variable rec : string -> rstate -> rres value.
  Hypothesis Hmode : forall n r, rchunked (fst (rec n r)) = rchunked r.

  Lemma mode_deser_value ty len padded off r : rchunked (fst (deser_value rec ty len padded off r)) = rchunked r.
  Proof.
    destruct ty as [t|t|nm t|enc| |nm]; cbn [deser_value].
    - pose proof (mode_int_of t r) as K. destruct (r_get_int_of t r) as [r' z]. exact K.
    - pose proof (mode_int_of t r) as K. destruct (r_get_int_of t r) as [r' z]. exact K.
    - pose proof (mode_int_of t r) as K. destruct (r_get_int_of t r) as [r' z]. exact K.
    - destruct len as [n|]; destruct enc.
      + unfold r_get_fixed_encoded_string. destruct (n <? 0); [reflexivity|].
        pose proof (mode_read_bytes r n) as K. destruct (r_read_bytes r n) as [r' bs]. exact K.
      + unfold r_get_fixed_string. destruct (n <? 0); [reflexivity|].
        pose proof (mode_read_bytes r n) as K. destruct (r_read_bytes r n) as [r' bs]. exact K.
      + unfold r_get_encoded_string. pose proof (mode_read_bytes r (r_remaining r)) as K.
        destruct (r_read_bytes r (r_remaining r)) as [r' bs]. exact K.
      + unfold r_get_string. pose proof (mode_read_bytes r (r_remaining r)) as K.
        destruct (r_read_bytes r (r_remaining r)) as [r' bs]. exact K.
    - unfold r_get_bytes. pose proof (mode_read_bytes r (r_remaining r)) as K.
      destruct (r_read_bytes r (r_remaining r)) as [r' bs]. exact K.
    - apply Hmode.
  Qed.

  Lemma mode_deser_for ty delimited trailing : forall k i n acc r,
    rchunked (fst (deser_for rec ty delimited trailing k i n acc r)) = rchunked r.
  Proof.
    induction k as [|k IH]; intros i n acc r; cbn [deser_for]; [reflexivity|].
    pose proof (mode_deser_value ty None false 0 r) as K.
    destruct (deser_value rec ty None false 0 r) as [r1 [x|e]]; cbn [fst] in K |- *; [|exact K].
    destruct (delimited && (trailing || (i + 1 <? n))).
    - destruct (r_next_chunk r1) as [r2|e] eqn:N; cbn [fst]; [|exact K].
      rewrite IH. rewrite (next_chunk_mode r1 r2 N). exact K.
    - rewrite IH. exact K.
  Qed.

  Lemma mode_deser_while ty delimited : forall fuel acc r,
    rchunked (fst (deser_while rec ty delimited fuel acc r)) = rchunked r.
  Proof.
    induction fuel as [|f IH]; intros acc r; cbn [deser_while].
    - destruct (r_remaining r >? 0); reflexivity.
    - destruct (r_remaining r >? 0); [|reflexivity].
      pose proof (mode_deser_value ty None false 0 r) as K.
      destruct (deser_value rec ty None false 0 r) as [r1 [x|e]]; cbn [fst] in K |- *; [|exact K].
      destruct delimited.
      + destruct (r_next_chunk r1) as [r2|e] eqn:N; cbn [fst]; [|exact K].
        rewrite IH. rewrite (next_chunk_mode r1 r2 N). exact K.
      + rewrite IH. exact K.
  Qed.

  Lemma mode_deser_instr start i locals r :
    rchunked (fst (deser_instr rec start i locals r)) = mode_after (rchunked r) i.
  Proof.
    destruct i as [f|f delimited trailing count|name t off optional o1 o2|ty lit guarded|field cases|b|]; cbn [deser_instr mode_after].
    - destruct (f_optional f && negb (r_remaining r >? 0)); [reflexivity|].
      destruct (len_expr f locals) as [len|e]; [|reflexivity].
      pose proof (mode_deser_value (f_ty f) len (f_padded f) 0 r) as K.
      destruct (deser_value rec (f_ty f) len (f_padded f) 0 r) as [r' [x|e]]; exact K.
    - destruct (f_name f) as [name|]; [|reflexivity].
      destruct (f_optional f && negb (r_remaining r >? 0)); [reflexivity|].
      match goal with |- rchunked (fst (let '(r', v) := ?X in _)) = _ => assert (K : rchunked (fst X) = rchunked r) end.
      { destruct count as [|size|].
        - destruct (len_expr f locals) as [[n|]|e]; [apply mode_deser_for | reflexivity | reflexivity].
        - destruct (size =? 0); [reflexivity | apply mode_deser_for].
        - apply mode_deser_while. }
      match goal with |- rchunked (fst (let '(r', v) := ?X in _)) = _ => destruct X as [r' [l|e]] end; exact K.
    - destruct (optional && negb (r_remaining r >? 0)); [reflexivity|].
      pose proof (mode_int_of t r) as K. destruct (r_get_int_of t r) as [r' z]. exact K.
    - destruct (guarded && negb (rpos r =? start)); [reflexivity|].
      pose proof (mode_deser_value ty None false 0 r) as K.
      destruct (deser_value rec ty None false 0 r) as [r' [x|e]]; exact K.
    - destruct (find_case cases _) as [c|]; [|reflexivity]. destruct (c_cls c) as [cls|]; [|reflexivity].
      pose proof (Hmode cls r) as K. destruct (rec cls r) as [r' [x|e]]; exact K.
    - reflexivity.
    - destruct (r_next_chunk r) as [r'|e] eqn:N; cbn [fst]; [|reflexivity]. apply (next_chunk_mode r r' N).
  Qed.

  (* whatever happens inside, Cls.deserialize restores the mode it was entered in *)
  Lemma mode_deser_body d r : rchunked (fst (deser_body rec d r)) = rchunked r.
  Proof.
    unfold deser_body. destruct (deser_instrs rec (rpos r) (sd_body d) [] r) as [r' v]. reflexivity.
  Qed.
End ModeRec.

Lemma mode_deser_struct E : forall fuel cls r, rchunked (fst (deser_struct fuel E cls r)) = rchunked r.
Proof.
  induction fuel as [|f IH]; intros cls r; cbn [deser_struct]; [reflexivity|].
  destruct (env_find E cls) as [d|]; [|reflexivity]. apply mode_deser_body.
Qed.

(* ================= (b) error discipline on well-formed classes ================= *)
(* the name an instruction binds in the deserializer's locals *)
Definition binds (i : einstr) : option string :=
  match i with
  | EField f => f_name f
  | EArray f _ _ _ => f_name f
  | ELength name _ _ _ _ _ => Some name
  | ESwitch field _ => Some (field ++ "_data")%string
  | _ => None
  end.
Definition is_len (i : einstr) : bool := match i with ELength _ _ _ optional _ _ => negb optional | _ => false end.
Definition lens_after (lens : list string) (i : einstr) : list string :=
  match i with ELength name _ _ optional _ _ => if optional then lens else name :: lens | _ => lens end.
(* the instruction does not rebind a required length field read earlier (a required length field may) *)
Definition fresh_instr (lens : list string) (i : einstr) : bool :=
  if is_len i then true else match binds i with Some n => negb (mem_str n lens) | None => true end.
Fixpoint fresh_lens (lens : list string) (is : list einstr) : bool :=
  match is with [] => true | i :: t => fresh_instr lens i && fresh_lens (lens_after lens i) t end.

(* the head conjunct of wf_instrs *)
Definition wf_instr (wf_cls : string -> bool -> bool) (m : bool) (lens : list string) (i : einstr) : bool :=
  match i with
  | EField f =>
    type_ok wf_cls m (f_ty f) && len_ok lens (f_len f) &&
    (match f_name f, f_hard f with
     | None, None => false
     | None, Some _ => basic_ty (f_ty f)
     | Some n, Some lit => lit_ok (f_ty f) lit && negb (mem_str n lens)
     | Some n, None => negb (mem_str n lens) end)
  | EArray f delimited _ count =>
    (match f_name f with Some n => negb (mem_str n lens) | None => false end) &&
    type_ok wf_cls m (f_ty f) && len_ok lens (f_len f) && (negb delimited || m) &&
    (match count with
     | ACExpr => match f_len f with LNone => false | _ => true end
     | ACRemaining sz => 0 <? sz
     | ACWhile => true end)
  | ELength name _ _ _ _ _ => negb (mem_str name lens)
  | EDummy ty _ _ => basic_ty ty
  | ESwitch field cases =>
    negb (mem_str (field ++ "_data")%string lens) &&
    forallb (fun c => match c_cls c with Some cls => wf_cls cls m | None => true end) cases
  | ESetMode _ => true
  | EBreak => m
  end.

Lemma wf_instrs_cons wf_cls m lens i t :
  wf_instrs wf_cls m lens (i :: t) = wf_instr wf_cls m lens i && wf_instrs wf_cls (mode_after m i) (lens_after lens i) t.
Proof. destruct i; reflexivity. Qed.

Definition hard_ok (i : einstr) : bool :=
  match i with
  | EField f => match f_name f, f_hard f with Some _, Some lit => lit_ok (f_ty f) lit | _, _ => true end
  | _ => true
  end.

Lemma wf_instr_hard wf_cls m lens i : wf_instr wf_cls m lens i = true -> hard_ok i = true.
Proof.
  destruct i as [f| | | | | |]; cbn [wf_instr hard_ok]; try reflexivity.
  intros W. apply andb_true_iff in W as [_ W]. destruct (f_name f), (f_hard f); try reflexivity.
  apply andb_true_iff in W as [W _]. exact W.
Qed.

Lemma wf_instr_fresh wf_cls m lens i : wf_instr wf_cls m lens i = true -> fresh_instr lens i = true.
Proof.
  unfold fresh_instr.
  destruct i as [f|f delimited trailing count|name t off optional o1 o2|ty lit guarded|field cases|b|]; cbn [wf_instr binds is_len]; try reflexivity.
  - intros W. apply andb_true_iff in W as [_ W]. destruct (f_name f) as [n|]; [|reflexivity].
    destruct (f_hard f); [apply andb_true_iff in W as [_ W]|]; exact W.
  - intros W. repeat (apply andb_true_iff in W as [W _]). destruct (f_name f) as [n|]; [exact W | reflexivity].
  - intros W. destruct (negb optional); [reflexivity | exact W].
  - intros W. apply andb_true_iff in W as [W _]. exact W.
Qed.

Lemma wf_instrs_fresh wf_cls : forall is m lens, wf_instrs wf_cls m lens is = true -> fresh_lens lens is = true.
Proof.
  induction is as [|i t IH]; intros m lens W; [reflexivity|].
  rewrite wf_instrs_cons in W. apply andb_true_iff in W as [W1 W2]. cbn [fresh_lens].
  rewrite (wf_instr_fresh _ _ _ _ W1). cbn [andb]. apply (IH _ _ W2).
Qed.

Lemma assoc_last_app {A} (l : list (string * A)) k v k' : forall acc,
  assoc_last (l ++ [(k, v)]) k' acc = if String.eqb k k' then Some v else assoc_last l k' acc.
Proof.
  induction l as [|[k0 v0] l IH]; intros acc; cbn [app assoc_last]; [reflexivity | apply IH].
Qed.

Definition bound (locals : list (string * value)) (n : string) : Prop := exists v, assoc_last locals n None = Some v.
Definition lens_bound (lens : list string) (locals : list (string * value)) : Prop :=
  forall n, mem_str n lens = true -> exists z, assoc_last locals n None = Some (VInt z).

Lemma bound_app_old locals n x n' : bound locals n' -> bound (locals ++ [(n, x)]) n'.
Proof. intros [v B]. unfold bound. rewrite assoc_last_app. destruct (String.eqb n n'); eauto. Qed.

Lemma bound_app_new locals n x : bound (locals ++ [(n, x)]) n.
Proof. unfold bound. rewrite assoc_last_app. rewrite String.eqb_refl. eauto. Qed.

Lemma lens_bound_nil locals : lens_bound [] locals.
Proof. intros n H. discriminate H. Qed.

Lemma lens_bound_app_fresh lens locals n x : mem_str n lens = false -> lens_bound lens locals -> lens_bound lens (locals ++ [(n, x)]).
Proof.
  intros F B n' M. rewrite assoc_last_app. destruct (String.eqb n n') eqn:E; [|apply B; exact M].
  apply String.eqb_eq in E. subst n'. congruence.
Qed.

Lemma lens_bound_app_len lens locals n z : lens_bound lens locals -> lens_bound (n :: lens) (locals ++ [(n, VInt z)]).
Proof.
  intros B n' M. rewrite assoc_last_app. destruct (String.eqb n n') eqn:E; [eauto|].
  cbn [mem_str] in M. rewrite String.eqb_sym in E. rewrite E in M. cbn [orb] in M. apply B. exact M.
Qed.

Lemma find_case_In cases z c : find_case cases z = Some c -> In c cases.
Proof.
  induction cases as [|c0 t IH]; cbn [find_case]; intros H; [discriminate H|].
  destruct (c_key c0) as [v|].
  - destruct z as [x|].
    + destruct (x =? v); [injection H as <-; left; reflexivity | right; apply IH; exact H].
    + right; apply IH; exact H.
  - injection H as <-. left. reflexivity.
Qed.

(* allowed failures: the documented ValueError, and exhausted loop fuel (the model's stand-in for non-termination) *)
Definition okerr (e : err) : Prop := e = EValue \/ e = EFuel.

Section Locals.
  Variable rec : string -> rstate -> rres value.

  (* an instruction that succeeds appends exactly the binding of its name; a required length field binds an int *)
  Lemma deser_instr_locals start i locals r l : snd (deser_instr rec start i locals r) = Ok l ->
    match binds i with
    | Some n => exists x, l = locals ++ [(n, x)] /\ (is_len i = true -> exists z, x = VInt z)
    | None => l = locals
    end.
  Proof.
    assert (F : forall x : value, false = true -> exists z, x = VInt z) by (intros x X; discriminate X).
    destruct i as [f|f delimited trailing count|name t off optional o1 o2|ty lit guarded|field cases|b|]; cbn [deser_instr binds is_len].
    - destruct (f_optional f && negb (r_remaining r >? 0)).
      + cbn [snd]. intros X. injection X as <-. destruct (f_name f) as [n|]; [|reflexivity]. eexists. split; [reflexivity | apply F].
      + destruct (len_expr f locals) as [len|e]; cbn [snd]; [|intros X; discriminate X].
        destruct (deser_value rec (f_ty f) len (f_padded f) 0 r) as [r' [x|e]]; cbn [snd]; intros X; [|discriminate X].
        injection X as <-. destruct (f_name f) as [n|]; [|reflexivity]. eexists. split; [reflexivity | apply F].
    - destruct (f_name f) as [name|]; cbn [snd]; [|intros X; discriminate X].
      destruct (f_optional f && negb (r_remaining r >? 0)).
      + cbn [snd]. intros X. injection X as <-. eexists. split; [reflexivity | apply F].
      + match goal with |- snd (let '(r', v) := ?X in _) = _ -> _ => destruct X as [r' [l0|e]] end; cbn [snd]; intros X; [|discriminate X].
        injection X as <-. eexists. split; [reflexivity | apply F].
    - destruct optional; cbn [andb negb].
      + destruct (negb (r_remaining r >? 0)).
        * cbn [snd]. intros X. injection X as <-. eexists. split; [reflexivity | apply F].
        * destruct (r_get_int_of t r) as [r' z]. cbn [snd]. intros X. injection X as <-. eexists. split; [reflexivity | apply F].
      + destruct (r_get_int_of t r) as [r' z]. cbn [snd]. intros X. injection X as <-. eexists. split; [reflexivity|]. intros _. eexists. reflexivity.
    - destruct (guarded && negb (rpos r =? start)); cbn [snd]; [intros X; injection X as <-; reflexivity|].
      destruct (deser_value rec ty None false 0 r) as [r' [x|e]]; cbn [snd]; intros X; [|discriminate X]. injection X as <-. reflexivity.
    - destruct (find_case cases _) as [c|]; cbn [snd].
      + destruct (c_cls c) as [cls|]; cbn [snd].
        * destruct (rec cls r) as [r' [x|e]]; cbn [snd]; intros X; [|discriminate X]. injection X as <-. eexists. split; [reflexivity | apply F].
        * intros X. injection X as <-. eexists. split; [reflexivity | apply F].
      + intros X. injection X as <-. eexists. split; [reflexivity | apply F].
    - cbn [snd]. intros X. injection X as <-. reflexivity.
    - destruct (r_next_chunk r) as [r'|e]; cbn [snd]; intros X; [|discriminate X]. injection X as <-. reflexivity.
  Qed.

  Lemma lens_bound_step start i lens locals r l : snd (deser_instr rec start i locals r) = Ok l ->
    fresh_instr lens i = true -> lens_bound lens locals -> lens_bound (lens_after lens i) l.
  Proof.
    intros D Fr B. pose proof (deser_instr_locals start i locals r l D) as S. unfold fresh_instr in Fr.
    destruct i as [f|f delimited trailing count|name t off optional o1 o2|ty lit guarded|field cases|b|];
      cbn [binds is_len lens_after] in *.
    - destruct (f_name f) as [n|]; [|subst l; exact B]. destruct S as [x [-> _]].
      apply lens_bound_app_fresh; [|exact B]. destruct (mem_str n lens); [discriminate Fr | reflexivity].
    - destruct (f_name f) as [n|]; [|subst l; exact B]. destruct S as [x [-> _]].
      apply lens_bound_app_fresh; [|exact B]. destruct (mem_str n lens); [discriminate Fr | reflexivity].
    - destruct S as [x [-> Z]]. destruct optional; cbn [negb] in *.
      + apply lens_bound_app_fresh; [|exact B]. destruct (mem_str name lens); [discriminate Fr | reflexivity].
      + destruct (Z eq_refl) as [z ->]. apply lens_bound_app_len. exact B.
    - subst l. exact B.
    - destruct S as [x [-> _]].
      apply lens_bound_app_fresh; [|exact B]. destruct (mem_str _ lens); [discriminate Fr | reflexivity].
    - subst l. exact B.
    - subst l. exact B.
  Qed.

  (* the constructor call Cls(...) finds every public field among the locals *)
  Lemma build_fields_ok locals : forall is,
    Forall (fun i => hard_ok i = true /\ match binds i with Some n => bound locals n | None => True end) is ->
    exists flds, build_fields is locals = Ok flds.
  Proof.
    induction is as [|i t IH]; intros HF; cbn [build_fields]; [eexists; reflexivity|].
    inversion HF as [|i0 t0 [Hh Hb] Ht]; subst. destruct (IH Ht) as [rest ->]. cbn [rbind].
    destruct i as [f|f delimited trailing count|name t1 off optional o1 o2|ty lit guarded|field cases|b|];
      cbn [binds hard_ok] in *; try (eexists; reflexivity).
    - destruct (f_name f) as [n|]; [|eexists; reflexivity].
      destruct (f_hard f) as [lit|].
      + unfold lit_ok in Hh. destruct (lit_value (f_ty f) lit) as [v|e]; [|discriminate Hh]. cbn [rbind]. eexists; reflexivity.
      + destruct Hb as [v ->]. eexists; reflexivity.
    - destruct (f_name f) as [n|]; [|eexists; reflexivity]. destruct Hb as [v ->]. eexists; reflexivity.
    - destruct Hb as [v ->]. eexists; reflexivity.
  Qed.
End Locals.

Section ErrRec.
  Variable rec : string -> rstate -> rres value.
  Variable wf_cls : string -> bool -> bool.
  Hypothesis Hmode : forall n r, rchunked (fst (rec n r)) = rchunked r.
  Hypothesis Herr : forall n r e, wf_cls n (rchunked r) = true -> snd (rec n r) = Err e -> okerr e.

  Lemma err_deser_value ty len padded off r e : type_ok wf_cls (rchunked r) ty = true ->
    snd (deser_value rec ty len padded off r) = Err e -> okerr e.
  Proof.
    intros T. destruct ty as [t|t|nm t|enc| |nm]; cbn [deser_value].
    - destruct (r_get_int_of t r) as [r' z]. cbn [snd]. intros X. discriminate X.
    - destruct (r_get_int_of t r) as [r' z]. cbn [snd]. intros X. discriminate X.
    - destruct (r_get_int_of t r) as [r' z]. cbn [snd]. intros X. discriminate X.
    - destruct len as [n|]; destruct enc.
      + unfold r_get_fixed_encoded_string. destruct (n <? 0).
        * cbn [snd]. intros X. injection X as <-. left. reflexivity.
        * destruct (r_read_bytes r n) as [r' bs]. cbn [snd]. intros X. discriminate X.
      + unfold r_get_fixed_string. destruct (n <? 0).
        * cbn [snd]. intros X. injection X as <-. left. reflexivity.
        * destruct (r_read_bytes r n) as [r' bs]. cbn [snd]. intros X. discriminate X.
      + destruct (r_get_encoded_string r) as [r' s]. cbn [snd]. intros X. discriminate X.
      + destruct (r_get_string r) as [r' s]. cbn [snd]. intros X. discriminate X.
    - destruct (r_get_bytes r (r_remaining r)) as [r' b]. cbn [snd]. intros X. discriminate X.
    - cbn [type_ok] in T. apply Herr. exact T.
  Qed.

  Lemma err_deser_for ty delimited trailing : forall k i n acc r e,
    type_ok wf_cls (rchunked r) ty = true -> (delimited = true -> rchunked r = true) ->
    snd (deser_for rec ty delimited trailing k i n acc r) = Err e -> okerr e.
  Proof.
    induction k as [|k IH]; intros i n acc r e T M; cbn [deser_for]; [cbn [snd]; intros X; discriminate X|].
    pose proof (err_deser_value ty None false 0 r e T) as EV.
    pose proof (mode_deser_value rec Hmode ty None false 0 r) as MV.
    destruct (deser_value rec ty None false 0 r) as [r1 [x|e0]]; cbn [fst snd] in EV, MV |- *; [|intros X; injection X as ->; apply EV; reflexivity].
    destruct (delimited && (trailing || (i + 1 <? n))) eqn:D.
    - apply andb_true_iff in D as [D _]. destruct (r_next_chunk r1) as [r2|e1] eqn:N.
      + pose proof (next_chunk_mode r1 r2 N) as M2. apply IH; [congruence|]. intros _. rewrite M2, MV. apply M. exact D.
      + apply next_chunk_err in N. rewrite MV, (M D) in N. discriminate N.
    - apply IH; [congruence|]. intros Dl. rewrite MV. apply M. exact Dl.
  Qed.

  Lemma err_deser_while ty delimited : forall fuel acc r e,
    type_ok wf_cls (rchunked r) ty = true -> (delimited = true -> rchunked r = true) ->
    snd (deser_while rec ty delimited fuel acc r) = Err e -> okerr e.
  Proof.
    induction fuel as [|f IH]; intros acc r e T M; cbn [deser_while].
    - destruct (r_remaining r >? 0); cbn [snd]; intros X; [injection X as <-; right; reflexivity | discriminate X].
    - destruct (r_remaining r >? 0); [|cbn [snd]; intros X; discriminate X].
      pose proof (err_deser_value ty None false 0 r e T) as EV.
      pose proof (mode_deser_value rec Hmode ty None false 0 r) as MV.
      destruct (deser_value rec ty None false 0 r) as [r1 [x|e0]]; cbn [fst snd] in EV, MV |- *; [|intros X; injection X as ->; apply EV; reflexivity].
      destruct delimited.
      + destruct (r_next_chunk r1) as [r2|e1] eqn:N.
        * pose proof (next_chunk_mode r1 r2 N) as M2. apply IH; [congruence|]. intros _. rewrite M2, MV. apply M. reflexivity.
        * apply next_chunk_err in N. rewrite MV, (M eq_refl) in N. discriminate N.
      + apply IH; [congruence|]. intros Dl. discriminate Dl.
  Qed.

  Lemma len_expr_ok f lens locals : len_ok lens (f_len f) = true -> lens_bound lens locals ->
    exists len, len_expr f locals = Ok len /\ (len = None -> f_len f = LNone).
  Proof.
    intros L B. unfold len_expr. destruct (f_len f) as [|n|fld]; cbn [len_ok] in L.
    - eexists. split; [reflexivity | intros _; reflexivity].
    - eexists. split; [reflexivity | intros X; discriminate X].
    - destruct (B fld L) as [z ->]. eexists. split; [reflexivity | intros X; discriminate X].
  Qed.

  Lemma err_deser_instr start i lens locals r e : wf_instr wf_cls (rchunked r) lens i = true -> lens_bound lens locals ->
    snd (deser_instr rec start i locals r) = Err e -> okerr e.
  Proof.
    intros W B.
    destruct i as [f|f delimited trailing count|name t off optional o1 o2|ty lit guarded|field cases|b|]; cbn [deser_instr wf_instr] in *.
    - apply andb_true_iff in W as [W _]. apply andb_true_iff in W as [T L].
      destruct (f_optional f && negb (r_remaining r >? 0)); [cbn [snd]; intros X; discriminate X|].
      destruct (len_expr_ok f lens locals L B) as [len [-> _]].
      pose proof (err_deser_value (f_ty f) len (f_padded f) 0 r e T) as EV.
      destruct (deser_value rec (f_ty f) len (f_padded f) 0 r) as [r' [x|e0]]; cbn [snd] in *; [intros X; discriminate X | intros X; injection X as ->; apply EV; reflexivity].
    - apply andb_true_iff in W as [W C]. apply andb_true_iff in W as [W D]. apply andb_true_iff in W as [W L].
      apply andb_true_iff in W as [Nm T].
      destruct (f_name f) as [nm|]; [|discriminate Nm].
      destruct (f_optional f && negb (r_remaining r >? 0)); [cbn [snd]; intros X; discriminate X|].
      assert (M : delimited = true -> rchunked r = true).
      { intros Dl. rewrite Dl in D. cbn [negb orb] in D. exact D. }
      match goal with |- snd (let '(r', v) := ?X in _) = _ -> _ => assert (K : snd X = Err e -> okerr e) end.
      { destruct count as [|size|].
        - destruct (len_expr_ok f lens locals L B) as [len [-> LN]]. destruct len as [n|].
          + apply err_deser_for; assumption.
          + rewrite (LN eq_refl) in C. discriminate C.
        - destruct (size =? 0) eqn:Z0; [lia|]. apply err_deser_for; assumption.
        - apply err_deser_while; assumption. }
      match goal with |- snd (let '(r', v) := ?X in _) = _ -> _ => destruct X as [r' [l0|e0]] end; cbn [snd] in *; [intros X; discriminate X | intros X; injection X as ->; apply K; reflexivity].
    - destruct (optional && negb (r_remaining r >? 0)); [cbn [snd]; intros X; discriminate X|].
      destruct (r_get_int_of t r) as [r' z]. cbn [snd]. intros X. discriminate X.
    - destruct (guarded && negb (rpos r =? start)); [cbn [snd]; intros X; discriminate X|].
      assert (T : type_ok wf_cls (rchunked r) ty = true) by (destruct ty; try reflexivity; discriminate W).
      pose proof (err_deser_value ty None false 0 r e T) as EV.
      destruct (deser_value rec ty None false 0 r) as [r' [x|e0]]; cbn [snd] in *; [intros X; discriminate X | intros X; injection X as ->; apply EV; reflexivity].
    - apply andb_true_iff in W as [_ W].
      destruct (find_case cases _) as [c|] eqn:FC; [|cbn [snd]; intros X; discriminate X].
      destruct (c_cls c) as [cls|] eqn:CC; [|cbn [snd]; intros X; discriminate X].
      rewrite forallb_forall in W. specialize (W c (find_case_In _ _ _ FC)). rewrite CC in W.
      pose proof (Herr cls r e W) as EV.
      destruct (rec cls r) as [r' [x|e0]]; cbn [snd] in *; [intros X; discriminate X | intros X; injection X as ->; apply EV; reflexivity].
    - cbn [snd]. intros X. discriminate X.
    - destruct (r_next_chunk r) as [r'|e0] eqn:N; cbn [snd]; intros X; [discriminate X|].
      apply next_chunk_err in N. congruence.
  Qed.

  Lemma safe_deser_instrs start : forall is lens locals r,
    wf_instrs wf_cls (rchunked r) lens is = true -> lens_bound lens locals ->
    match snd (deser_instrs rec start is locals r) with
    | Err e => okerr e
    | Ok l => (forall n, bound locals n -> bound l n) /\
              Forall (fun i => hard_ok i = true /\ match binds i with Some n => bound l n | None => True end) is
    end.
  Proof.
    induction is as [|i t IH]; intros lens locals r W B; cbn [deser_instrs].
    - cbn [snd]. split; [intros n Hn; exact Hn | constructor].
    - rewrite wf_instrs_cons in W. apply andb_true_iff in W as [W1 W2].
      pose proof (err_deser_instr start i lens locals r) as EI.
      pose proof (mode_deser_instr rec Hmode start i locals r) as MI.
      pose proof (deser_instr_locals rec start i locals r) as LI.
      pose proof (lens_bound_step rec start i lens locals r) as BI.
      destruct (deser_instr rec start i locals r) as [r' [l1|e]]; cbn [fst snd] in *; [|apply (EI e W1 B eq_refl)].
      rewrite <- MI in W2. specialize (IH _ l1 r' W2 (BI l1 eq_refl (wf_instr_fresh _ _ _ _ W1) B)).
      specialize (LI l1 eq_refl).
      destruct (snd (deser_instrs rec start t l1 r')) as [l|e]; [|exact IH].
      destruct IH as [Mono FA].
      assert (Mono1 : forall n, bound locals n -> bound l1 n).
      { intros n Hn. destruct (binds i) as [nm|]; [|subst l1; exact Hn]. destruct LI as [x [-> _]]. apply bound_app_old. exact Hn. }
      split; [intros n Hn; apply Mono, Mono1; exact Hn|].
      constructor; [|exact FA]. split; [apply (wf_instr_hard _ _ _ _ W1)|].
      destruct (binds i) as [nm|]; [|exact I]. destruct LI as [x [-> _]]. apply Mono. apply bound_app_new.
  Qed.

  Lemma err_deser_body d r e : wf_instrs wf_cls (rchunked r) [] (sd_body d) = true ->
    snd (deser_body rec d r) = Err e -> okerr e.
  Proof.
    intros W. unfold deser_body.
    pose proof (safe_deser_instrs (rpos r) (sd_body d) [] [] r W (lens_bound_nil [])) as S.
    destruct (deser_instrs rec (rpos r) (sd_body d) [] r) as [r' [l|e0]]; cbn [fst snd] in *.
    - destruct S as [_ FA]. destruct (build_fields_ok l (sd_body d) FA) as [flds ->]. cbn [rbind]. intros X. discriminate X.
    - intros X. injection X as <-. exact S.
  Qed.
End ErrRec.

Lemma err_deser_struct E : forall fuel cls r e,
  wf_class fuel E cls (rchunked r) = true -> snd (deser_struct fuel E cls r) = Err e -> okerr e.
Proof.
  induction fuel as [|f IH]; intros cls r e W; cbn [deser_struct wf_class] in *; [discriminate W|].
  destruct (env_find E cls) as [d|]; [|discriminate W].
  apply (err_deser_body (deser_struct f E) (wf_class f E)); [apply mode_deser_struct | exact IH | exact W].
Qed.

(* a class accepted when entered non-chunked is accepted when entered chunked *)
Lemma wf_instrs_mono (wf_cls : string -> bool -> bool) :
  (forall n, wf_cls n false = true -> wf_cls n true = true) ->
  forall is lens, wf_instrs wf_cls false lens is = true -> wf_instrs wf_cls true lens is = true.
Proof.
  intros Hc. induction is as [|i t IH]; intros lens W; [reflexivity|].
  rewrite wf_instrs_cons in W |- *. apply andb_true_iff in W as [W1 W2]. apply andb_true_iff. split.
  - destruct i as [f|f delimited trailing count|name t0 off optional o1 o2|ty lit guarded|field cases|b|]; cbn [wf_instr] in *; try exact W1.
    + apply andb_true_iff in W1 as [W1 W3]. apply andb_true_iff in W1 as [T L].
      rewrite L, W3. rewrite !andb_true_r. destruct (f_ty f); try reflexivity. cbn [type_ok] in *. apply Hc. exact T.
    + apply andb_true_iff in W1 as [W1 C]. apply andb_true_iff in W1 as [W1 D]. apply andb_true_iff in W1 as [W1 L].
      apply andb_true_iff in W1 as [Nm T]. rewrite Nm, L, C. rewrite orb_true_r. rewrite !andb_true_r. cbn [andb].
      destruct (f_ty f); try reflexivity. cbn [type_ok] in *. apply Hc. exact T.
    + apply andb_true_iff in W1 as [F W1]. rewrite F. cbn [andb]. rewrite forallb_forall in W1 |- *.
      intros c Hin. specialize (W1 c Hin). destruct (c_cls c) as [cls|]; [apply Hc; exact W1 | reflexivity].
    + reflexivity.
  - destruct i; cbn [mode_after] in *; try (apply IH; exact W2). exact W2.
Qed.

Lemma wf_class_mono E : forall fuel cls, wf_class fuel E cls false = true -> wf_class fuel E cls true = true.
Proof.
  induction fuel as [|f IH]; intros cls W; cbn [wf_class] in *; [discriminate W|].
  destruct (env_find E cls) as [d|]; [|discriminate W]. apply wf_instrs_mono; [exact IH | exact W].
Qed.

(* ================= (c) reading rules ================= *)
Lemma read_bytes_let r n : r_inv r -> 0 <= n ->
  let '(r', bs) := r_read_bytes r n in
  bs = slice (rdata r) (rpos r) (rpos r') /\ rpos r <= rpos r' <= zlen (rdata r) /\
  rpos r' - rpos r = Z.min n (r_remaining r) /\ r_inv r'.
Proof.
  intros H Hn. pose proof (read_bytes_spec r n H Hn) as [S1 [S2 [S3 [S4 _]]]].
  destruct (r_read_bytes r n) as [r' bs]. cbn [fst snd] in *.
  split; [exact S1|]. split; [exact S2|]. split; [exact S3 | exact S4].
Qed.

Section Rules.
  Variable rec : string -> rstate -> rres value.

  (* an optional named field is absent exactly when no data remains *)
  (* the guard is tested before the length expression is evaluated, so no hypothesis on len_expr is needed *)
  Lemma optional_absent_strong start f locals r n : f_optional f = true -> f_name f = Some n ->
    (r_remaining r > 0 -> False) -> deser_instr rec start (EField f) locals r = (r, Ok (locals ++ [(n, VNone)])).
  Proof.
    intros O N R. cbn [deser_instr]. rewrite O, N. destruct (r_remaining r >? 0) eqn:E; [exfalso; apply R; lia|]. reflexivity.
  Qed.

  Lemma optional_absent start f locals r n len : f_optional f = true -> f_name f = Some n -> len_expr f locals = Ok len ->
    (r_remaining r > 0 -> False) -> deser_instr rec start (EField f) locals r = (r, Ok (locals ++ [(n, VNone)])).
  Proof. intros O N _ R. apply optional_absent_strong; assumption. Qed.

  Lemma optional_present start f locals r n len : f_optional f = true -> f_name f = Some n -> len_expr f locals = Ok len ->
    r_remaining r > 0 ->
    deser_instr rec start (EField f) locals r =
      (fst (deser_value rec (f_ty f) len (f_padded f) 0 r),
       match snd (deser_value rec (f_ty f) len (f_padded f) 0 r) with Ok x => Ok (locals ++ [(n, x)]) | Err e => Err e end).
  Proof.
    intros O N L R. cbn [deser_instr]. rewrite O, N. destruct (r_remaining r >? 0) eqn:E; [|lia]. cbn [negb andb]. rewrite L.
    destruct (deser_value rec (f_ty f) len (f_padded f) 0 r) as [r' [x|e]]; reflexivity.
  Qed.

  Lemma optional_as_stated start f locals r : f_optional f = true ->
    forall n, f_name f = Some n -> (r_remaining r > 0 -> False) ->
    (exists e, len_expr f locals = Err e) \/ deser_instr rec start (EField f) locals r = (r, Ok (locals ++ [(n, VNone)])).
  Proof.
    intros O n N R. right. apply (optional_absent_strong start f locals r n O N R).
  Qed.

  (* unknown enum ordinals are kept as the raw integer: whatever the wire value decodes to *)
  Lemma enum_preserved name t r :
    deser_value rec (EEnum name t) None false 0 r = (fst (r_get_int_of t r), Ok (VInt (snd (r_get_int_of t r)))).
  Proof. cbn [deser_value]. destruct (r_get_int_of t r) as [r' z]. reflexivity. Qed.

  Lemma read_bytes_exhausted r n : r_remaining r = 0 -> 0 <= n ->
    r_read_bytes r n = (r_set_pos r (rpos r + 0), []).
  Proof.
    intros R Hn. unfold r_read_bytes. rewrite R. rewrite Z.min_r by lia. cbv zeta. rewrite slice_nil by lia. reflexivity.
  Qed.

  Lemma int_of_exhausted t r : r_remaining r = 0 ->
    snd (r_get_int_of t r) = 0 /\ rpos (fst (r_get_int_of t r)) = rpos r.
  Proof.
    intros R. destruct t; cbn [r_get_int_of].
    - unfold r_get_byte, r_read_byte. rewrite R. cbn [fst snd]. split; reflexivity.
    - unfold r_get_char, r_get_number. rewrite (read_bytes_exhausted r 1 R) by lia. cbn [fst snd r_set_pos rpos]. split; [reflexivity | lia].
    - unfold r_get_short, r_get_number. rewrite (read_bytes_exhausted r 2 R) by lia. cbn [fst snd r_set_pos rpos]. split; [reflexivity | lia].
    - unfold r_get_three, r_get_number. rewrite (read_bytes_exhausted r 3 R) by lia. cbn [fst snd r_set_pos rpos]. split; [reflexivity | lia].
    - unfold r_get_int, r_get_number. rewrite (read_bytes_exhausted r 4 R) by lia. cbn [fst snd r_set_pos rpos]. split; [reflexivity | lia].
  Qed.

  (* missing data reads as zero / empty and does not move the position *)
  Lemma exhausted_int t r : r_remaining r = 0 ->
    exists r', deser_value rec (EInt t) None false 0 r = (r', Ok (VInt 0)) /\ rpos r' = rpos r.
  Proof.
    intros R. destruct (int_of_exhausted t r R) as [Z0 P]. cbn [deser_value].
    destruct (r_get_int_of t r) as [r' z]. cbn [fst snd] in *. subst z. exists r'. split; [reflexivity | exact P].
  Qed.

  Lemma exhausted_bool t r : r_remaining r = 0 ->
    exists r', deser_value rec (EBool t) None false 0 r = (r', Ok (VBool false)) /\ rpos r' = rpos r.
  Proof.
    intros R. destruct (int_of_exhausted t r R) as [Z0 P]. cbn [deser_value].
    destruct (r_get_int_of t r) as [r' z]. cbn [fst snd] in *. subst z. exists r'. split; [reflexivity | exact P].
  Qed.

  Lemma exhausted_str enc r : r_remaining r = 0 ->
    exists r', deser_value rec (EStr enc) None false 0 r = (r', Ok (VStr [])) /\ rpos r' = rpos r.
  Proof.
    intros R. cbn [deser_value]. destruct enc.
    - unfold r_get_encoded_string. rewrite R. rewrite (read_bytes_exhausted r 0 R) by lia.
      eexists. split; [reflexivity|]. cbn [r_set_pos rpos]. lia.
    - unfold r_get_string. rewrite R. rewrite (read_bytes_exhausted r 0 R) by lia.
      eexists. split; [reflexivity|]. cbn [r_set_pos rpos]. lia.
  Qed.

  Lemma exhausted_fixed_str enc n p r : r_remaining r = 0 -> 0 <= n ->
    exists r', deser_value rec (EStr enc) (Some n) p 0 r = (r', Ok (VStr [])) /\ rpos r' = rpos r.
  Proof.
    intros R Hn. cbn [deser_value]. destruct enc.
    - unfold r_get_fixed_encoded_string. destruct (n <? 0) eqn:E; [lia|]. rewrite (read_bytes_exhausted r n R Hn).
      eexists. split; [destruct p; reflexivity|]. cbn [r_set_pos rpos]. lia.
    - unfold r_get_fixed_string. destruct (n <? 0) eqn:E; [lia|]. rewrite (read_bytes_exhausted r n R Hn).
      eexists. split; [destruct p; reflexivity|]. cbn [r_set_pos rpos]. lia.
  Qed.

  Lemma exhausted_blob r : r_remaining r = 0 ->
    exists r', deser_value rec EBlob None false 0 r = (r', Ok (VBytes [])) /\ rpos r' = rpos r.
  Proof.
    intros R. cbn [deser_value]. unfold r_get_bytes. rewrite R. rewrite (read_bytes_exhausted r 0 R) by lia.
    eexists. split; [reflexivity|]. cbn [r_set_pos rpos]. lia.
  Qed.

  (* the documented ValueError: a negative fixed-string length, reader untouched *)
  Lemma negative_length_value_error enc n p r : n < 0 -> deser_value rec (EStr enc) (Some n) p 0 r = (r, Err EValue).
  Proof.
    intros Hn. cbn [deser_value]. destruct enc.
    - unfold r_get_fixed_encoded_string. destruct (n <? 0) eqn:E; [reflexivity | lia].
    - unfold r_get_fixed_string. destruct (n <? 0) eqn:E; [reflexivity | lia].
  Qed.
End Rules.
