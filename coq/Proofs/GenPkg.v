(* Lemmas about the generator-output model (Model/GenPkg.v), used by Properties/C18.v:
   - str_leb is a total order on strings;
   - the descending insertion sort of a duplicate-free list is determined by its set of elements;
   - render_imports is a permutation of the deduplicated input, with the `from __future__` lines first;
   - fs_get after a sequence of writes is the last write to that path, else the old content;
   - snake_case output contains no upper-case ASCII letter and is the identity on upper-case-free names. *)
From EO Require Import Prelude.Py Model.Spec Model.Elab Model.GenPkg.
From Coq Require Import Sorting.Permutation Sorting.Sorted.
Set Default Timeout 60.
Open Scope string_scope.
Open Scope list_scope.

(* ------------------------------------------------------------------------------------------ *)
(* str_leb: reflexive, antisymmetric, transitive, total                                         *)
(* ------------------------------------------------------------------------------------------ *)

Lemma nat_of_ascii_inj (x y : ascii) : nat_of_ascii x = nat_of_ascii y -> x = y.
Proof.
  intros Hxy. rewrite <- (ascii_nat_embedding x), <- (ascii_nat_embedding y). now rewrite Hxy.
Qed.

Lemma str_leb_cons x a y b :
  str_leb (String x a) (String y b) =
  if (nat_of_ascii x <? nat_of_ascii y)%nat then true
  else if (nat_of_ascii y <? nat_of_ascii x)%nat then false else str_leb a b.
Proof. reflexivity. Qed.

Lemma str_leb_refl a : str_leb a a = true.
Proof.
  induction a as [|x a IH]; [reflexivity|].
  rewrite str_leb_cons, Nat.ltb_irrefl. exact IH.
Qed.

Lemma str_leb_antisym a b : str_leb a b = true -> str_leb b a = true -> a = b.
Proof.
  revert b; induction a as [|x a IH]; intros [|y b] Hab Hba; try reflexivity; try discriminate.
  rewrite str_leb_cons in Hab, Hba.
  destruct (Nat.ltb_spec (nat_of_ascii x) (nat_of_ascii y)) as [Hlt|Hge];
  destruct (Nat.ltb_spec (nat_of_ascii y) (nat_of_ascii x)) as [Hlt'|Hge']; try discriminate; try lia.
  assert (Hxy : x = y) by (apply nat_of_ascii_inj; lia).
  subst y. f_equal. apply IH; assumption.
Qed.

Lemma str_leb_trans a b c : str_leb a b = true -> str_leb b c = true -> str_leb a c = true.
Proof.
  revert b c; induction a as [|x a IH]; intros [|y b] [|z c] Hab Hbc; try reflexivity; try discriminate.
  rewrite str_leb_cons in Hab, Hbc |- *.
  destruct (Nat.ltb_spec (nat_of_ascii x) (nat_of_ascii y)) as [Hxy|Hxy];
  destruct (Nat.ltb_spec (nat_of_ascii y) (nat_of_ascii x)) as [Hyx|Hyx]; try discriminate; try lia;
  destruct (Nat.ltb_spec (nat_of_ascii y) (nat_of_ascii z)) as [Hyz|Hyz];
  destruct (Nat.ltb_spec (nat_of_ascii z) (nat_of_ascii y)) as [Hzy|Hzy]; try discriminate; try lia;
  destruct (Nat.ltb_spec (nat_of_ascii x) (nat_of_ascii z)) as [Hxz|Hxz]; try reflexivity;
  destruct (Nat.ltb_spec (nat_of_ascii z) (nat_of_ascii x)) as [Hzx|Hzx]; try lia.
  apply (IH b c); assumption.
Qed.

Lemma str_leb_total a b : str_leb a b = true \/ str_leb b a = true.
Proof.
  revert b; induction a as [|x a IH]; intros [|y b]; try (left; reflexivity); try (right; reflexivity).
  rewrite !str_leb_cons.
  destruct (Nat.ltb_spec (nat_of_ascii x) (nat_of_ascii y)) as [Hxy|Hxy];
  destruct (Nat.ltb_spec (nat_of_ascii y) (nat_of_ascii x)) as [Hyx|Hyx];
    [exfalso; lia | left; reflexivity | right; reflexivity | apply IH].
Qed.

Lemma str_leb_false a b : str_leb a b = false -> str_leb b a = true.
Proof. intros Hf. destruct (str_leb_total a b) as [Ht|Ht]; [congruence | exact Ht]. Qed.

(* ------------------------------------------------------------------------------------------ *)
(* membership, dedup, dup_free                                                                  *)
(* ------------------------------------------------------------------------------------------ *)

Lemma mem_str_In x l : mem_str x l = true <-> In x l.
Proof.
  induction l as [|y t IH]; cbn [mem_str In]; [split; [discriminate | tauto]|].
  rewrite orb_true_iff, IH, String.eqb_eq. split; intros [H|H]; auto.
Qed.

Lemma mem_str_not_In x l : mem_str x l = false <-> ~ In x l.
Proof. rewrite <- mem_str_In. destruct (mem_str x l); split; congruence. Qed.

Lemma dup_free_NoDup l : dup_free l = true <-> NoDup l.
Proof.
  induction l as [|x t IH]; cbn [dup_free]; [split; [constructor | reflexivity]|].
  rewrite andb_true_iff, negb_true_iff, mem_str_not_In, IH. split.
  - intros [Hn Ht]. constructor; assumption.
  - intros Hnd. inversion Hnd; subst. split; assumption.
Qed.

Lemma dedup_In l x : In x (dedup l) <-> In x l.
Proof.
  induction l as [|y t IH]; cbn [dedup]; [tauto|].
  destruct (mem_str y t) eqn:Hm.
  - rewrite IH. cbn [In]. apply mem_str_In in Hm. split; [auto | intros [->|Hx]; assumption].
  - cbn [In]. rewrite IH. tauto.
Qed.

Lemma dedup_NoDup l : NoDup (dedup l).
Proof.
  induction l as [|y t IH]; cbn [dedup]; [constructor|].
  destruct (mem_str y t) eqn:Hm; [exact IH|].
  constructor; [|exact IH]. rewrite dedup_In. apply mem_str_not_In. exact Hm.
Qed.

(* a duplicate-free list is left alone *)
Lemma dedup_id l : NoDup l -> dedup l = l.
Proof.
  induction l as [|y t IH]; intros Hnd; [reflexivity|].
  inversion Hnd as [|? ? Hn Ht]; subst. cbn [dedup].
  apply mem_str_not_In in Hn. rewrite Hn, IH by assumption. reflexivity.
Qed.

(* ------------------------------------------------------------------------------------------ *)
(* descending insertion sort                                                                    *)
(* ------------------------------------------------------------------------------------------ *)

(* x before y in a descending list: y <= x *)
Definition desc (x y : string) : Prop := str_leb y x = true.

Lemma insert_desc_perm x l : Permutation (x :: l) (insert_desc x l).
Proof.
  induction l as [|y t IH]; cbn [insert_desc]; [apply Permutation_refl|].
  destruct (str_leb y x); [apply Permutation_refl|].
  eapply perm_trans; [apply perm_swap|]. apply perm_skip. exact IH.
Qed.

Lemma sort_desc_perm l : Permutation l (sort_desc l).
Proof.
  induction l as [|x t IH]; cbn [sort_desc]; [constructor|].
  eapply perm_trans; [apply perm_skip; exact IH | apply insert_desc_perm].
Qed.

Lemma insert_desc_sorted x l : StronglySorted desc l -> StronglySorted desc (insert_desc x l).
Proof.
  induction l as [|y t IH]; intros Hs; cbn [insert_desc].
  - constructor; constructor.
  - inversion Hs as [|? ? Hst Hall]; subst.
    destruct (str_leb y x) eqn:Hyx.
    + constructor; [exact Hs|]. constructor; [exact Hyx|].
      rewrite Forall_forall in Hall |- *. intros z Hz. unfold desc in *.
      apply (str_leb_trans z y x); [apply Hall; exact Hz | exact Hyx].
    + constructor; [apply IH; exact Hst|].
      rewrite Forall_forall in Hall |- *. intros z Hz.
      apply (Permutation_in _ (Permutation_sym (insert_desc_perm x t))) in Hz.
      destruct Hz as [<-|Hz]; [apply str_leb_false; exact Hyx | apply Hall; exact Hz].
Qed.

Lemma sort_desc_sorted l : StronglySorted desc (sort_desc l).
Proof.
  induction l as [|x t IH]; cbn [sort_desc]; [constructor | apply insert_desc_sorted; exact IH].
Qed.

Lemma sort_desc_In l x : In x (sort_desc l) <-> In x l.
Proof.
  split; apply Permutation_in; [apply Permutation_sym|]; apply sort_desc_perm.
Qed.

Lemma sort_desc_NoDup l : NoDup l -> NoDup (sort_desc l).
Proof. apply Permutation_NoDup, sort_desc_perm. Qed.

(* two descending duplicate-free lists with the same elements are equal *)
Lemma sorted_unique l l' :
  StronglySorted desc l -> StronglySorted desc l' -> NoDup l -> NoDup l' ->
  (forall x, In x l <-> In x l') -> l = l'.
Proof.
  revert l'; induction l as [|x t IH]; intros [|y t'] Hs Hs' Hnd Hnd' Hset.
  - reflexivity.
  - exfalso. apply (proj2 (Hset y)). left; reflexivity.
  - exfalso. apply (proj1 (Hset x)). left; reflexivity.
  - inversion Hs as [|? ? Hst Hall]; inversion Hs' as [|? ? Hst' Hall']; subst.
    inversion Hnd as [|? ? Hnx Hndt]; inversion Hnd' as [|? ? Hny Hndt']; subst.
    rewrite Forall_forall in Hall, Hall'.
    assert (Hxy : x = y).
    { destruct (proj1 (Hset x) (or_introl eq_refl)) as [Hyx|Hxin]; [congruence|].
      destruct (proj2 (Hset y) (or_introl eq_refl)) as [Hyx|Hyin]; [congruence|].
      apply str_leb_antisym; [apply Hall'; exact Hxin | apply Hall; exact Hyin]. }
    subst y. f_equal. apply IH; try assumption.
    intros z. split; intros Hz.
    + destruct (proj1 (Hset z) (or_intror Hz)) as [Hxz|Hin]; [subst z; contradiction | exact Hin].
    + destruct (proj2 (Hset z) (or_intror Hz)) as [Hxz|Hin]; [subst z; contradiction | exact Hin].
Qed.

Lemma sort_dedup_set l l' : (forall x, In x l <-> In x l') -> sort_desc (dedup l) = sort_desc (dedup l').
Proof.
  intros Hset. apply sorted_unique; try apply sort_desc_sorted; try (apply sort_desc_NoDup, dedup_NoDup).
  intros x. rewrite !sort_desc_In, !dedup_In. apply Hset.
Qed.

(* a list that is already descending and duplicate-free is a fixed point *)
Lemma sort_desc_id l : StronglySorted desc l -> NoDup l -> sort_desc l = l.
Proof.
  intros Hs Hnd. apply sorted_unique; try assumption.
  - apply sort_desc_sorted.
  - apply sort_desc_NoDup; exact Hnd.
  - apply sort_desc_In.
Qed.

(* ------------------------------------------------------------------------------------------ *)
(* partition by a predicate (future imports first)                                              *)
(* ------------------------------------------------------------------------------------------ *)

Lemma partition_perm {A} (f : A -> bool) (s : list A) :
  Permutation s (filter f s ++ filter (fun x => negb (f x)) s).
Proof.
  induction s as [|x t IH]; cbn [filter]; [constructor|].
  destruct (f x); cbn [negb app].
  - apply perm_skip; exact IH.
  - eapply perm_trans; [apply perm_skip; exact IH | apply Permutation_middle].
Qed.

Lemma split_adjacent {A} (f : A -> bool) (l1 l2 pre post : list A) a b :
  Forall (fun x => f x = true) l1 -> Forall (fun x => f x = false) l2 ->
  l1 ++ l2 = pre ++ a :: b :: post -> f b = true -> f a = true.
Proof.
  revert pre; induction l1 as [|x l1 IH]; intros pre H1 H2 Heq Hb.
  - cbn [app] in Heq. subst l2. rewrite Forall_forall in H2.
    rewrite (H2 b) in Hb; [discriminate|]. apply in_or_app. right. right. left. reflexivity.
  - inversion H1 as [|? ? Hx H1']; subst. destruct pre as [|y pre]; cbn [app] in Heq.
    + injection Heq as Hxa _. subst a. exact Hx.
    + injection Heq as _ Heq. apply (IH pre); assumption.
Qed.

Lemma render_imports_perm l : Permutation (dedup l) (render_imports l).
Proof.
  unfold render_imports. eapply perm_trans; [apply sort_desc_perm | apply partition_perm].
Qed.

Lemma render_imports_In l x : In x (render_imports l) <-> In x l.
Proof.
  rewrite <- (dedup_In l x). split; apply Permutation_in; [apply Permutation_sym|]; apply render_imports_perm.
Qed.

Lemma render_imports_NoDup l : NoDup (render_imports l).
Proof. apply (Permutation_NoDup (render_imports_perm l)), dedup_NoDup. Qed.

Lemma render_imports_set l l' : (forall x, In x l <-> In x l') -> render_imports l = render_imports l'.
Proof. intros Hset. unfold render_imports. rewrite (sort_dedup_set l l' Hset). reflexivity. Qed.

Lemma filter_sorted (f : string -> bool) l : StronglySorted desc l -> StronglySorted desc (filter f l).
Proof.
  induction l as [|x t IH]; intros Hs; cbn [filter]; [constructor|].
  inversion Hs as [|? ? Hst Hall]; subst. destruct (f x); [|apply IH; exact Hst].
  constructor; [apply IH; exact Hst|].
  rewrite Forall_forall in Hall |- *. intros z Hz. apply filter_In in Hz. apply Hall, Hz.
Qed.

(* ------------------------------------------------------------------------------------------ *)
(* the output map                                                                               *)
(* ------------------------------------------------------------------------------------------ *)

Lemma fs_get_write out w p :
  fs_get (fs_write out w) p = if String.eqb (fst w) p then Some (snd w) else fs_get out p.
Proof.
  induction out as [|[q c] t IH].
  - destruct w as [q c]. reflexivity.
  - cbn [fs_write]. destruct (String.eqb q (fst w)) eqn:Hq; cbn [fs_get].
    + apply String.eqb_eq in Hq. subst q. destruct (String.eqb (fst w) p); reflexivity.
    + rewrite IH. destruct (String.eqb q p) eqn:Hqp; [|reflexivity].
      apply String.eqb_eq in Hqp. subst q. rewrite String.eqb_sym, Hq. reflexivity.
Qed.

(* the last write to p among ws, else the default *)
Fixpoint last_write (ws : list (string * content)) (p : string) (acc : option content) : option content :=
  match ws with
  | [] => acc
  | w :: t => last_write t p (if String.eqb (fst w) p then Some (snd w) else acc)
  end.

Lemma fs_get_fold ws out p : fs_get (fold_left fs_write ws out) p = last_write ws p (fs_get out p).
Proof.
  revert out; induction ws as [|w t IH]; intros out; cbn [fold_left last_write]; [reflexivity|].
  rewrite IH, fs_get_write. reflexivity.
Qed.

Lemma last_write_notin ws p acc : ~ In p (map fst ws) -> last_write ws p acc = acc.
Proof.
  revert acc; induction ws as [|w t IH]; intros acc Hn; cbn [last_write]; [reflexivity|].
  cbn [map In] in Hn. rewrite IH by tauto.
  destruct (String.eqb (fst w) p) eqn:Hw; [|reflexivity].
  apply String.eqb_eq in Hw. tauto.
Qed.

Lemma last_write_in ws p acc acc' : In p (map fst ws) -> last_write ws p acc = last_write ws p acc'.
Proof.
  revert acc acc'; induction ws as [|w t IH]; intros acc acc' Hin; cbn [last_write]; [destruct Hin|].
  destruct (String.eqb (fst w) p) eqn:Hw; [reflexivity|].
  cbn [map In] in Hin. destruct Hin as [Hp|Hin]; [|apply IH; exact Hin].
  apply String.eqb_neq in Hw. contradiction.
Qed.

Lemma last_write_some ws p acc : In p (map fst ws) -> exists c, In (p, c) ws /\ last_write ws p acc = Some c.
Proof.
  revert acc; induction ws as [|w t IH]; intros acc Hin; [destruct Hin|].
  cbn [last_write]. destruct (in_dec string_dec p (map fst t)) as [Ht|Ht].
  - destruct (IH (if String.eqb (fst w) p then Some (snd w) else acc) Ht) as [c [Hc Hl]].
    exists c. split; [right; exact Hc | exact Hl].
  - cbn [map In] in Hin. destruct Hin as [Hp|Hin]; [|contradiction].
    rewrite last_write_notin by exact Ht. subst p. rewrite String.eqb_refl.
    exists (snd w). split; [left; destruct w; reflexivity | reflexivity].
Qed.

Lemma last_write_nodup ws p c acc : NoDup (map fst ws) -> In (p, c) ws -> last_write ws p acc = Some c.
Proof.
  revert acc; induction ws as [|w t IH]; intros acc Hnd Hin; [destruct Hin|].
  cbn [map] in Hnd. inversion Hnd as [|? ? Hn Hnd']; subst. cbn [last_write].
  destruct Hin as [Hw|Hin].
  - subst w. cbn [fst snd] in *. rewrite String.eqb_refl. apply last_write_notin. exact Hn.
  - apply IH; assumption.
Qed.

(* the result of a run, read at any path *)
Lemma generate_get fs out p :
  fs_get (generate fs out) p = last_write (flat_map file_outputs fs) p (fs_get out p).
Proof. apply fs_get_fold. Qed.

Lemma generate_get_written fs out p c :
  valid_layout fs = true -> In (p, c) (flat_map file_outputs fs) -> fs_get (generate fs out) p = Some c.
Proof.
  intros Hv Hin. rewrite generate_get. apply last_write_nodup; [|exact Hin].
  apply dup_free_NoDup. exact Hv.
Qed.

Lemma generate_get_untouched fs out p : ~ In p (all_paths fs) -> fs_get (generate fs out) p = fs_get out p.
Proof. intros Hn. rewrite generate_get. apply last_write_notin. exact Hn. Qed.

Lemma outputs_perm fs fs' : Permutation fs fs' -> Permutation (flat_map file_outputs fs) (flat_map file_outputs fs').
Proof. apply Permutation_flat_map. Qed.

Lemma valid_layout_perm fs fs' : Permutation fs fs' -> valid_layout fs = true -> valid_layout fs' = true.
Proof.
  intros Hp Hv. apply dup_free_NoDup. apply dup_free_NoDup in Hv.
  eapply Permutation_NoDup; [|exact Hv]. apply Permutation_map, outputs_perm, Hp.
Qed.

Lemma module_output_in fs f d :
  In f fs -> In d (file_decls f) -> In (module_path d, CModule d) (flat_map file_outputs fs).
Proof.
  intros Hf Hd. apply in_flat_map. exists f. split; [exact Hf|].
  unfold file_outputs. apply in_or_app. left.
  apply in_map_iff. exists d. split; [reflexivity | exact Hd].
Qed.

Lemma init_output_in fs f : In f fs -> In (dir_init f) (flat_map file_outputs fs).
Proof.
  intros Hf. apply in_flat_map. exists f. split; [exact Hf|].
  unfold file_outputs. apply in_or_app. right. left. reflexivity.
Qed.

(* ------------------------------------------------------------------------------------------ *)
(* snake case                                                                                   *)
(* ------------------------------------------------------------------------------------------ *)

Lemma lower_ascii_not_upper c : is_upper c = false -> lower_ascii c = c.
Proof. unfold is_upper, lower_ascii. intros Hc. cbv zeta in Hc |- *. rewrite Hc. reflexivity. Qed.

Lemma is_upper_lower_ascii c : is_upper (lower_ascii c) = false.
Proof.
  unfold lower_ascii. cbv zeta.
  destruct ((65 <=? nat_of_ascii c)%nat && (nat_of_ascii c <=? 90)%nat) eqn:Hc.
  - unfold is_upper. cbv zeta. apply andb_true_iff in Hc as [H1 H2].
    apply Nat.leb_le in H1. apply Nat.leb_le in H2.
    rewrite nat_ascii_embedding by lia. apply andb_false_iff. right. apply Nat.leb_gt. lia.
  - exact Hc.
Qed.

Lemma is_lower_lower_ascii c : is_upper c = true -> is_lower (lower_ascii c) = true.
Proof.
  unfold is_upper, lower_ascii, is_lower. cbv zeta. intros Hc. rewrite Hc.
  apply andb_true_iff in Hc as [H1 H2]. apply Nat.leb_le in H1. apply Nat.leb_le in H2.
  rewrite nat_ascii_embedding by lia. apply andb_true_iff. split; apply Nat.leb_le; lia.
Qed.

Lemma snake_from_cons prev c t :
  snake_from prev (String c t) =
  let rest := String (lower_ascii c) (snake_from (Some c) t) in
  if match prev with
     | None => false
     | Some p => is_upper c && (match t with String d _ => negb (is_upper d) | EmptyString => false end || is_lower p)
     end
  then String "_" rest else rest.
Proof. reflexivity. Qed.

Lemma snake_from_lowercase prev s :
  (forall c, In c (list_ascii_of_string s) -> is_upper c = false) -> snake_from prev s = s.
Proof.
  revert prev; induction s as [|c t IH]; intros prev Hall; [reflexivity|].
  rewrite snake_from_cons. cbv zeta.
  assert (Hc : is_upper c = false) by (apply Hall; left; reflexivity).
  rewrite Hc, (lower_ascii_not_upper c Hc), IH.
  - destruct prev; reflexivity.
  - intros d Hd. apply Hall. right. exact Hd.
Qed.

Lemma snake_from_no_upper prev s c : In c (list_ascii_of_string (snake_from prev s)) -> is_upper c = false.
Proof.
  revert prev; induction s as [|c0 t IH]; intros prev Hin; [destruct Hin|].
  rewrite snake_from_cons in Hin. cbv zeta in Hin.
  assert (Hrest : In c (list_ascii_of_string (String (lower_ascii c0) (snake_from (Some c0) t))) -> is_upper c = false).
  { cbn [list_ascii_of_string In]. intros [Hc|Hc]; [subst c; apply is_upper_lower_ascii | apply (IH (Some c0)); exact Hc]. }
  match type of Hin with context [if ?b then _ else _] => destruct b end; [|apply Hrest; exact Hin].
  cbn [list_ascii_of_string In] in Hin, Hrest. destruct Hin as [Hc|Hin]; [subst c; reflexivity | apply Hrest; exact Hin].
Qed.

(* the output length: one character per input character plus the inserted underscores; never shorter than the input *)
Lemma snake_from_length prev s : (String.length s <= String.length (snake_from prev s))%nat.
Proof.
  revert prev; induction s as [|c t IH]; intros prev; [apply Nat.le_refl|].
  rewrite snake_from_cons. cbv zeta. specialize (IH (Some c)).
  match goal with |- context [if ?b then _ else _] => destruct b end; cbn [String.length]; lia.
Qed.
