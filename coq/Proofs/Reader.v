(* Lemma library for the reader models: R (Model/Reader.v, cached _next_break) and A (Model/ReaderSpec.v, documented). *)
From EO Require Import Prelude.Py Model.Number Model.StringEnc Model.Cp1252 Model.Reader Model.ReaderSpec.
From Coq Require Import ZifyNat.
Open Scope Z_scope.
Set Default Timeout 60.
Ltac Zify.zify_post_hook ::= Z.to_euclidean_division_equations.

(* ================= generic list facts: nth / skipn / firstn / slice ================= *)
Lemma nth_skipn_add {A} (d0 : A) : forall c l k, nth k (skipn c l) d0 = nth (c + k) l d0.
Proof.
  induction c as [|c IH]; intros l k; [reflexivity|].
  destruct l as [|x l]; cbn [skipn Nat.add nth].
  - destruct k; reflexivity.
  - apply IH.
Qed.

Lemma nth_firstn_lt {A} (d0 : A) : forall n l k, (k < n)%nat -> nth k (firstn n l) d0 = nth k l d0.
Proof.
  induction n as [|n IH]; intros l k Hk; [lia|].
  destruct l as [|x l]; cbn [firstn]; [reflexivity|].
  destruct k as [|k]; cbn [nth]; [reflexivity | apply IH; lia].
Qed.

Lemma zget_skipn d c k : 0 <= c -> 0 <= k -> zget (skipn (Z.to_nat c) d) k = zget d (c + k).
Proof. intros Hc Hk. unfold zget. rewrite nth_skipn_add. f_equal. lia. Qed.

Lemma zlen_skipn {A} (d : list A) c : 0 <= c <= zlen d -> zlen (skipn (Z.to_nat c) d) = zlen d - c.
Proof. intros H. unfold zlen in *. rewrite skipn_length. lia. Qed.

Lemma skipn_past {A} (d : list A) i : zlen d <= i -> skipn (Z.to_nat i) d = [].
Proof. intros H. apply skipn_all2. unfold zlen in H. lia. Qed.

Lemma firstn_clip {A} (l : list A) n : firstn (Z.to_nat (Z.min (zlen l) n)) l = firstn (Z.to_nat n) l.
Proof.
  unfold zlen. destruct (Z_le_gt_dec n (Z.of_nat (length l))) as [H|H].
  - rewrite Z.min_r by lia. reflexivity.
  - rewrite Z.min_l by lia. rewrite !firstn_all2 by lia. reflexivity.
Qed.

Lemma slice_length {A} (l : list A) a b : 0 <= a <= b -> b <= zlen l -> zlen (slice l a b) = b - a.
Proof. intros Ha Hb. unfold slice, zlen in *. rewrite firstn_length, skipn_length. lia. Qed.

Lemma slice_nil {A} (l : list A) a b : b <= a -> slice l a b = [].
Proof. intros H. unfold slice. replace (Z.to_nat (b - a)) with O by lia. reflexivity. Qed.

Lemma slice_as_firstn_skipn {A} (l : list A) a n : slice l a (a + n) = firstn (Z.to_nat n) (skipn (Z.to_nat a) l).
Proof. unfold slice. replace (a + n - a) with n by lia. reflexivity. Qed.

(* the clipped slice the code computes is the plain firstn/skipn the docs describe *)
Lemma slice_clip {A} (l : list A) b n : 0 <= b <= zlen l ->
  slice l b (b + Z.min (zlen l - b) n) = firstn (Z.to_nat n) (skipn (Z.to_nat b) l).
Proof. intros H. rewrite slice_as_firstn_skipn. rewrite <- (zlen_skipn l b H). apply firstn_clip. Qed.

Lemma zget_slice l a b k : 0 <= a -> 0 <= k < b - a -> zget (slice l a b) k = zget l (a + k).
Proof.
  intros Ha Hk. unfold slice. rewrite <- zget_skipn by lia. unfold zget. apply nth_firstn_lt. lia.
Qed.

Lemma slice_Forall (P : Z -> Prop) l a b : 0 <= a -> b <= zlen l ->
  (forall i, a <= i < b -> P (zget l i)) -> Forall P (slice l a b).
Proof.
  intros Ha Hb HP. apply Forall_forall. intros x Hx.
  apply (In_nth _ _ 0) in Hx. destruct Hx as [k [Hk Hn]].
  assert (Hlen : Z.of_nat k < b - a).
  { unfold slice in Hk. rewrite firstn_length in Hk. lia. }
  assert (Hz : zget (slice l a b) (Z.of_nat k) = x) by (unfold zget; rewrite Nat2Z.id; exact Hn).
  rewrite zget_slice in Hz by lia. rewrite <- Hz. apply HP. lia.
Qed.

(* ================= find_ff / find_break ================= *)
Lemma find_ff_bounds l : forall i, i <= find_ff l i <= i + zlen l.
Proof.
  induction l as [|x t IH]; intros i; cbn [find_ff].
  - unfold zlen; cbn [length]; lia.
  - rewrite zlen_cons. pose proof (zlen_nonneg t) as Ht. destruct (x =? 255); [lia|].
    specialize (IH (i + 1)). lia.
Qed.

(* no 0xFF strictly before the index found *)
Lemma find_ff_before l : forall i k, 0 <= k -> i + k < find_ff l i -> zget l k <> 255.
Proof.
  induction l as [|x t IH]; intros i k Hk Hlt; cbn [find_ff] in Hlt; [lia|].
  destruct (x =? 255) eqn:E; [lia|].
  destruct (Z.eq_dec k 0) as [->|Hne].
  - unfold zget. change (Z.to_nat 0) with O. cbn [nth]. lia.
  - unfold zget. replace (Z.to_nat k) with (S (Z.to_nat (k - 1))) by lia. cbn [nth].
    apply (IH (i + 1) (k - 1)); lia.
Qed.

(* 0xFF at the index found, when it is inside the list *)
Lemma find_ff_at l : forall i, find_ff l i < i + zlen l -> zget l (find_ff l i - i) = 255.
Proof.
  induction l as [|x t IH]; intros i H; cbn [find_ff] in *.
  - unfold zlen in H; cbn [length] in H; lia.
  - rewrite zlen_cons in H. destruct (x =? 255) eqn:E.
    + replace (i - i) with 0 by lia. unfold zget. change (Z.to_nat 0) with O. cbn [nth]. lia.
    + pose proof (find_ff_bounds t (i + 1)) as B. specialize (IH (i + 1)).
      unfold zget in *.
      replace (Z.to_nat (find_ff t (i + 1) - i)) with (S (Z.to_nat (find_ff t (i + 1) - (i + 1)))) by lia.
      cbn [nth]. apply IH. lia.
Qed.

(* these three facts characterise the result *)
Lemma find_ff_unique l i e : i <= e <= i + zlen l ->
  (forall k, 0 <= k < e - i -> zget l k <> 255) ->
  (e < i + zlen l -> zget l (e - i) = 255) -> find_ff l i = e.
Proof.
  intros Hb Hno Hat. pose proof (find_ff_bounds l i) as B.
  destruct (Z.lt_trichotomy (find_ff l i) e) as [Hlt|[Heq|Hgt]]; [|exact Heq|].
  - exfalso. apply (Hno (find_ff l i - i)); [lia | apply find_ff_at; lia].
  - exfalso. apply (find_ff_before l i (e - i)); [lia | lia | apply Hat; lia].
Qed.

Lemma find_break_eq d c : 0 <= c <= zlen d -> find_break d c = find_ff (skipn (Z.to_nat c) d) c.
Proof. intros H. unfold find_break. destruct (c <=? zlen d) eqn:E; [reflexivity | lia]. Qed.

Lemma find_break_past d c : zlen d < c -> find_break d c = zlen d.
Proof. intros H. unfold find_break. destruct (c <=? zlen d) eqn:E; [lia | reflexivity]. Qed.

Lemma find_break_bounds d c : 0 <= c <= zlen d -> c <= find_break d c <= zlen d.
Proof.
  intros H. rewrite find_break_eq by exact H.
  pose proof (find_ff_bounds (skipn (Z.to_nat c) d) c) as B. rewrite zlen_skipn in B by exact H. lia.
Qed.

Lemma find_break_no_ff d c i : 0 <= c <= zlen d -> c <= i < find_break d c -> zget d i <> 255.
Proof.
  intros H Hi. rewrite find_break_eq in Hi by exact H.
  replace i with (c + (i - c)) by lia. rewrite <- zget_skipn by lia.
  apply (find_ff_before _ c); lia.
Qed.

Lemma find_break_at d c : 0 <= c <= zlen d -> find_break d c < zlen d -> zget d (find_break d c) = 255.
Proof.
  intros H Hlt. rewrite find_break_eq in * by exact H.
  pose proof (find_ff_bounds (skipn (Z.to_nat c) d) c) as B.
  pose proof (find_ff_at (skipn (Z.to_nat c) d) c) as At. rewrite zlen_skipn in At by exact H.
  rewrite zget_skipn in At by lia.
  replace (c + (find_ff (skipn (Z.to_nat c) d) c - c)) with (find_ff (skipn (Z.to_nat c) d) c) in At by lia.
  apply At. lia.
Qed.

Lemma find_break_unique d c e : 0 <= c <= e -> e <= zlen d ->
  (forall i, c <= i < e -> zget d i <> 255) -> (e < zlen d -> zget d e = 255) -> find_break d c = e.
Proof.
  intros Hc He Hno Hat. rewrite find_break_eq by lia. apply find_ff_unique.
  - rewrite zlen_skipn by lia. lia.
  - intros k Hk. rewrite zget_skipn by lia. apply Hno. lia.
  - rewrite zlen_skipn by lia. intros Hlt. rewrite zget_skipn by lia.
    replace (c + (e - c)) with e by lia. apply Hat. lia.
Qed.

(* ================= upd / pools ================= *)
Lemma upd_length {A} (l : list A) : forall n v, length (upd l n v) = length l.
Proof. induction l as [|x l IH]; intros [|n] v; cbn [upd length]; auto. Qed.

Lemma nth_error_upd_eq {A} (l : list A) : forall n v, (n < length l)%nat -> nth_error (upd l n v) n = Some v.
Proof.
  induction l as [|x l IH]; intros [|n] v H; cbn [length] in H; cbn [upd nth_error]; try lia; [reflexivity|].
  apply IH. lia.
Qed.

Lemma nth_error_upd_neq {A} (l : list A) : forall n m v, n <> m -> nth_error (upd l n v) m = nth_error l m.
Proof.
  induction l as [|x l IH]; intros [|n] [|m] v H; cbn [upd nth_error]; try reflexivity; try congruence.
  apply IH. congruence.
Qed.

Lemma upd_beyond {A} (l : list A) : forall n v, (length l <= n)%nat -> upd l n v = l.
Proof.
  induction l as [|x l IH]; intros [|n] v H; cbn [length] in H; cbn [upd]; try reflexivity; try lia.
  f_equal. apply IH. lia.
Qed.

Lemma Forall_upd {A} (P : A -> Prop) (l : list A) : forall n v, Forall P l -> P v -> Forall P (upd l n v).
Proof.
  induction l as [|x l IH]; intros [|n] v Hl Hv; cbn [upd]; try assumption.
  - inversion Hl; subst. constructor; assumption.
  - inversion Hl; subst. constructor; [assumption | apply IH; assumption].
Qed.

Lemma Forall2_upd {A B} (R : A -> B -> Prop) (l1 : list A) : forall (l2 : list B) n v1 v2,
  Forall2 R l1 l2 -> R v1 v2 -> Forall2 R (upd l1 n v1) (upd l2 n v2).
Proof.
  induction l1 as [|x l1 IH]; intros l2 n v1 v2 Hl Hv; inversion Hl; subst; destruct n as [|n]; cbn [upd].
  - constructor.
  - constructor.
  - constructor; assumption.
  - constructor; [assumption | apply IH; assumption].
Qed.

Lemma Forall2_nth_error {A B} (R : A -> B -> Prop) (l1 : list A) : forall (l2 : list B) n, Forall2 R l1 l2 ->
  match nth_error l1 n, nth_error l2 n with Some x, Some y => R x y | None, None => True | _, _ => False end.
Proof.
  induction l1 as [|x l1 IH]; intros l2 n Hl; inversion Hl; subst; destruct n as [|n]; cbn [nth_error]; try exact I.
  - assumption.
  - apply IH. assumption.
Qed.

Lemma Forall_nth_error {A} (P : A -> Prop) (l : list A) n x : Forall P l -> nth_error l n = Some x -> P x.
Proof. intros Hl Hn. rewrite Forall_forall in Hl. apply Hl. apply (nth_error_In _ _ Hn). Qed.

(* ================= R refines A ================= *)
(* abstraction function: forget the cache *)
Definition absR (r : rstate) : astate := mkA (rdata r) (rpos r) (rchunked r) (rcstart r).
(* the cache is either exact, or still the -1 sentinel while the reader has never been chunked *)
Definition cache_ok (r : rstate) : Prop :=
  rbrk r = find_break (rdata r) (rcstart r) \/ (rbrk r = -1 /\ rchunked r = false).

Definition rsim (r : rstate) (a : astate) : Prop :=
  rdata r = adata a /\ rpos r = apos a /\ rchunked r = achunked a /\ rcstart r = acstart a /\
  (rbrk r = find_break (rdata r) (rcstart r) \/ (rbrk r = -1 /\ rchunked r = false)).
Definition rsim_opt (x : option rstate) (y : option astate) : Prop :=
  match x, y with Some r, Some a => rsim r a | None, None => True | _, _ => False end.

Lemma rsim_abs r a : rsim r a <-> a = absR r /\ cache_ok r.
Proof.
  unfold rsim, cache_ok, absR. destruct a as [d p c s]. cbn [adata apos achunked acstart]. split.
  - intros [H1 [H2 [H3 [H4 H5]]]]. split; [congruence | exact H5].
  - intros [E H5]. injection E as -> -> -> ->. repeat split; exact H5.
Qed.

Lemma rsim_init d : rsim (initR d) (initA d).
Proof. unfold rsim, initR, initA. cbn [rdata rpos rchunked rcstart rbrk adata apos achunked acstart]. repeat split. right. split; reflexivity. Qed.

Lemma cache_ok_init d : cache_ok (initR d).
Proof. right. split; reflexivity. Qed.

Lemma remaining_abs r : cache_ok r -> a_remaining (absR r) = r_remaining r.
Proof.
  intros H. unfold a_remaining, r_remaining, chunk_end, absR. cbn [adata apos achunked acstart].
  destruct (rchunked r) eqn:C; [|reflexivity].
  destruct H as [H|[_ H]]; [rewrite H; reflexivity | congruence].
Qed.

Lemma read_abs r n : cache_ok r -> a_read (absR r) n = (absR (fst (r_read_bytes r n)), snd (r_read_bytes r n)).
Proof. intros H. unfold a_read, r_read_bytes. rewrite (remaining_abs r H). reflexivity. Qed.

Lemma read_byte_abs r : cache_ok r -> a_read_byte (absR r) = (absR (fst (r_read_byte r)), snd (r_read_byte r)).
Proof.
  intros H. unfold a_read_byte, r_read_byte. rewrite (remaining_abs r H).
  destruct (r_remaining r >? 0); reflexivity.
Qed.

Lemma cache_ok_set_pos r p : cache_ok r -> cache_ok (r_set_pos r p).
Proof. intros H. exact H. Qed.

Lemma cache_ok_read r n : cache_ok r -> cache_ok (fst (r_read_bytes r n)).
Proof. intros H. exact H. Qed.

Lemma cache_ok_read_byte r : cache_ok r -> cache_ok (fst (r_read_byte r)).
Proof. intros H. unfold r_read_byte. destruct (r_remaining r >? 0); exact H. Qed.

Lemma cache_ok_set_chunked r b : cache_ok r -> cache_ok (r_set_chunked r b).
Proof.
  intros H. left. unfold r_set_chunked. cbn [rbrk rdata rcstart].
  destruct (rbrk r =? -1) eqn:E; [reflexivity|].
  destruct H as [H|[H _]]; [exact H | lia].
Qed.

Lemma slice_abs r i l :
  match r_slice r i l, a_slice (absR r) i l with
  | Ok n, Ok m => m = absR n /\ cache_ok n
  | Err e, Err e' => e = e'
  | _, _ => False end.
Proof.
  unfold r_slice, a_slice, absR. cbn [adata apos].
  set (ix := match i with Some i0 => i0 | None => rpos r end).
  set (ln := match l with Some l0 => l0 | None => Z.max 0 (zlen (rdata r) - ix) end).
  destruct (ix <? 0) eqn:E1; cbn [orb]; [reflexivity|].
  destruct (ln <? 0) eqn:E2; [reflexivity|].
  split; [|apply cache_ok_init].
  pose proof (zlen_nonneg (rdata r)) as Hn.
  rewrite (Z.max_r 0 (Z.min (zlen (rdata r)) ix)) by lia.
  rewrite slice_clip by lia. reflexivity.
Qed.

(* one step of R is one step of A on the abstraction, with the same output *)
Lemma step_abs r o : cache_ok r ->
  astep (absR r) o = (absR (fst (fst (rstep r o))), snd (fst (rstep r o)), option_map absR (snd (rstep r o))) /\
  cache_ok (fst (fst (rstep r o))) /\ (forall n, snd (rstep r o) = Some n -> cache_ok n).
Proof.
  intros H.
  assert (HN : forall (x : rstate), (None : option rstate) = Some x -> cache_ok x) by (intros x E; discriminate E).
  destruct o as [|n| | | | | |n p| |n p|b| | | | |i l]; cbn [rstep astep].
  - (* RByte *) unfold r_get_byte. rewrite (read_byte_abs r H). pose proof (cache_ok_read_byte r H) as K.
    destruct (r_read_byte r) as [r' v]. cbn [fst snd option_map] in *. auto.
  - (* RBytes *) destruct (n <? 0); [cbn [fst snd option_map]; auto|].
    unfold r_get_bytes. rewrite (read_abs r n H). pose proof (cache_ok_read r n H) as K.
    destruct (r_read_bytes r n) as [r' v]. cbn [fst snd option_map] in *. auto.
  - (* RChar *) unfold r_get_char, r_get_number. rewrite (read_abs r 1 H). pose proof (cache_ok_read r 1 H) as K.
    destruct (r_read_bytes r 1) as [r' v]. cbn [fst snd option_map] in *. auto.
  - unfold r_get_short, r_get_number. rewrite (read_abs r 2 H). pose proof (cache_ok_read r 2 H) as K.
    destruct (r_read_bytes r 2) as [r' v]. cbn [fst snd option_map] in *. auto.
  - unfold r_get_three, r_get_number. rewrite (read_abs r 3 H). pose proof (cache_ok_read r 3 H) as K.
    destruct (r_read_bytes r 3) as [r' v]. cbn [fst snd option_map] in *. auto.
  - unfold r_get_int, r_get_number. rewrite (read_abs r 4 H). pose proof (cache_ok_read r 4 H) as K.
    destruct (r_read_bytes r 4) as [r' v]. cbn [fst snd option_map] in *. auto.
  - (* RString *) unfold r_get_string. rewrite (remaining_abs r H). rewrite (read_abs r _ H).
    pose proof (cache_ok_read r (r_remaining r) H) as K.
    destruct (r_read_bytes r (r_remaining r)) as [r' v]. cbn [fst snd option_map] in *. auto.
  - (* RFixed *) unfold r_get_fixed_string. destruct (n <? 0); [cbn [fst snd option_map]; auto|].
    rewrite (read_abs r n H). pose proof (cache_ok_read r n H) as K.
    destruct (r_read_bytes r n) as [r' v]. cbn [fst snd option_map] in *. auto.
  - (* REnc *) unfold r_get_encoded_string. rewrite (remaining_abs r H). rewrite (read_abs r _ H).
    pose proof (cache_ok_read r (r_remaining r) H) as K.
    destruct (r_read_bytes r (r_remaining r)) as [r' v]. cbn [fst snd option_map] in *. auto.
  - (* RFixedEnc *) unfold r_get_fixed_encoded_string. destruct (n <? 0); [cbn [fst snd option_map]; auto|].
    rewrite (read_abs r n H). pose proof (cache_ok_read r n H) as K.
    destruct (r_read_bytes r n) as [r' v]. cbn [fst snd option_map] in *. auto.
  - (* RSetChunked *) cbn [fst snd option_map]. split; [reflexivity|]. split; [apply cache_ok_set_chunked; exact H | exact HN].
  - cbn [fst snd option_map]. auto.
  - cbn [fst snd option_map]. rewrite (remaining_abs r H). auto.
  - cbn [fst snd option_map]. auto.
  - (* RNextChunk *) unfold r_next_chunk, a_next_chunk, chunk_end. cbn [absR adata apos achunked acstart].
    destruct (rchunked r) eqn:C; cbn [negb]; [|cbn [fst snd option_map]; auto].
    destruct H as [Hb|[_ Hc]]; [|congruence]. rewrite <- Hb.
    cbn [fst snd option_map]. unfold absR. cbn [rdata rpos rchunked rcstart rbrk].
    split; [reflexivity|]. split; [left; reflexivity | exact HN].
  - (* RSlice *) pose proof (slice_abs r i l) as S.
    destruct (r_slice r i l) as [nr|e], (a_slice (absR r) i l) as [na|e']; try contradiction; cbn [fst snd option_map].
    + destruct S as [-> K]. split; [reflexivity|]. split; [exact H|]. intros x E. injection E as <-. exact K.
    + subst e'. auto.
Qed.

Lemma rsim_step r a o : rsim r a ->
  let '(r', out, nr) := rstep r o in let '(a', out', na) := astep a o in
  out = out' /\ rsim r' a' /\ rsim_opt nr na.
Proof.
  intros S. apply rsim_abs in S. destruct S as [-> H].
  destruct (step_abs r o H) as [E [K1 K2]]. rewrite E.
  destruct (rstep r o) as [[r' out] nr]. cbn [fst snd] in *.
  split; [reflexivity|]. split; [apply rsim_abs; split; [reflexivity | exact K1]|].
  destruct nr as [n|]; cbn [option_map rsim_opt]; [|exact I].
  apply rsim_abs. split; [reflexivity | apply K2; reflexivity].
Qed.

(* whole histories over pools: same outputs, and the final pools are still related *)
Lemma rsim_run ops : forall pr pa, Forall2 rsim pr pa ->
  snd (rrun pr ops) = snd (arun pa ops) /\ Forall2 rsim (fst (rrun pr ops)) (fst (arun pa ops)).
Proof.
  induction ops as [|[h o] t IH]; intros pr pa HP; cbn [rrun arun].
  - split; [reflexivity | exact HP].
  - pose proof (Forall2_nth_error rsim pr pa h HP) as Hn.
    destruct (nth_error pr h) as [r|], (nth_error pa h) as [a|]; try contradiction.
    + pose proof (rsim_step r a o Hn) as St.
      destruct (rstep r o) as [[r' out] nr]. destruct (astep a o) as [[a' out'] na].
      destruct St as [<- [S1 S2]].
      assert (HP' : Forall2 rsim (match nr with Some n => upd pr h r' ++ [n] | None => upd pr h r' end)
                                 (match na with Some n => upd pa h a' ++ [n] | None => upd pa h a' end)).
      { pose proof (Forall2_upd rsim pr pa h r' a' HP S1) as U.
        destruct nr as [n|], na as [m|]; cbn [rsim_opt] in S2; try contradiction; [|exact U].
        apply Forall2_app; [exact U | constructor; [exact S2 | constructor]]. }
      specialize (IH _ _ HP'). destruct IH as [IH1 IH2].
      destruct (rrun _ t) as [p1 o1]. destruct (arun _ t) as [p2 o2]. cbn [fst snd] in *.
      split; [f_equal; exact IH1 | exact IH2].
    + specialize (IH _ _ HP). destruct IH as [IH1 IH2].
      destruct (rrun pr t) as [p1 o1]. destruct (arun pa t) as [p2 o2]. cbn [fst snd] in *.
      split; [f_equal; exact IH1 | exact IH2].
Qed.

(* ================= invariants of the documented model A ================= *)
Definition a_inv (a : astate) : Prop := 0 <= acstart a <= apos a /\ apos a <= zlen (adata a).

Lemma a_inv_init d : a_inv (initA d).
Proof. unfold a_inv, initA. cbn [adata apos acstart]. pose proof (zlen_nonneg d). lia. Qed.

Lemma chunk_end_bounds a : a_inv a -> acstart a <= chunk_end a <= zlen (adata a).
Proof. intros [H1 H2]. unfold chunk_end. apply find_break_bounds. lia. Qed.

Lemma chunk_end_no_ff a i : a_inv a -> acstart a <= i < chunk_end a -> zget (adata a) i <> 255.
Proof. intros [H1 H2] Hi. unfold chunk_end in Hi. apply (find_break_no_ff (adata a) (acstart a)); [lia | exact Hi]. Qed.

Lemma chunk_end_at a : a_inv a -> chunk_end a < zlen (adata a) -> zget (adata a) (chunk_end a) = 255.
Proof. intros [H1 H2] Hlt. unfold chunk_end in *. apply find_break_at; [lia | exact Hlt]. Qed.

Lemma a_remaining_chunked a : achunked a = true -> apos a + a_remaining a = Z.max (apos a) (chunk_end a).
Proof. intros C. unfold a_remaining. rewrite C. lia. Qed.

Lemma a_remaining_plain a : achunked a = false -> apos a + a_remaining a = zlen (adata a).
Proof. intros C. unfold a_remaining. rewrite C. lia. Qed.

Lemma a_remaining_nonneg a : a_inv a -> 0 <= a_remaining a.
Proof. intros [H1 H2]. unfold a_remaining. destruct (achunked a); lia. Qed.

Lemma a_remaining_le a : a_inv a -> apos a + a_remaining a <= zlen (adata a).
Proof.
  intros H. pose proof (chunk_end_bounds a H) as B. destruct H as [H1 H2].
  destruct (achunked a) eqn:C; [rewrite (a_remaining_chunked a C) | rewrite (a_remaining_plain a C)]; lia.
Qed.

Lemma a_inv_set_pos a p : a_inv a -> apos a <= p <= zlen (adata a) -> a_inv (a_set_pos a p).
Proof. intros [H1 H2] Hp. unfold a_inv, a_set_pos. cbn [adata apos acstart]. lia. Qed.

Lemma a_set_pos_same a : a_set_pos a (apos a + 0) = a.
Proof. destruct a as [d p c s]. unfold a_set_pos. cbn [adata apos achunked acstart]. f_equal. lia. Qed.

(* every read returns exactly data[pos, pos') and never passes the chunk end / the end of data *)
Lemma a_read_bounded a n : a_inv a -> 0 <= n ->
  let '(a', bs) := a_read a n in
  bs = slice (adata a) (apos a) (apos a') /\ zlen bs = apos a' - apos a /\ apos a' - apos a = Z.min n (a_remaining a) /\
  apos a' <= (if achunked a then Z.max (apos a) (chunk_end a) else zlen (adata a)) /\
  (achunked a = true -> Forall (fun b => b <> 255) bs).
Proof.
  intros H Hn. unfold a_read. cbv zeta. unfold a_set_pos at 1 2 3 4. cbn [apos].
  pose proof (a_remaining_nonneg a H) as R0. pose proof (a_remaining_le a H) as R1.
  pose proof (chunk_end_bounds a H) as B. pose proof H as [H1 H2].
  set (k := Z.min n (a_remaining a)) in *. assert (Hk : 0 <= k <= a_remaining a) by lia.
  split; [reflexivity|]. split; [rewrite slice_length by lia; lia|]. split; [lia|]. split.
  - destruct (achunked a) eqn:C; [rewrite <- (a_remaining_chunked a C) | rewrite <- (a_remaining_plain a C)]; lia.
  - intros C. pose proof (a_remaining_chunked a C) as RC.
    apply slice_Forall; [lia | lia |]. intros i Hi. apply (chunk_end_no_ff a i H). lia.
Qed.

Lemma a_read_inv a n : a_inv a -> 0 <= n ->
  a_inv (fst (a_read a n)) /\ adata (fst (a_read a n)) = adata a /\ apos a <= apos (fst (a_read a n)).
Proof.
  intros H Hn. pose proof (a_remaining_nonneg a H) as R0. pose proof (a_remaining_le a H) as R1.
  unfold a_read. cbv zeta. cbn [fst]. split; [apply a_inv_set_pos; [exact H | lia]|].
  unfold a_set_pos. cbn [adata apos]. split; [reflexivity | lia].
Qed.

Lemma a_read_byte_inv a : a_inv a ->
  a_inv (fst (a_read_byte a)) /\ adata (fst (a_read_byte a)) = adata a /\ apos a <= apos (fst (a_read_byte a)).
Proof.
  intros H. pose proof (a_remaining_le a H) as R1. unfold a_read_byte.
  destruct (a_remaining a >? 0) eqn:E; cbn [fst]; [|split; [exact H | split; [reflexivity | lia]]].
  split; [apply a_inv_set_pos; [exact H | lia]|]. unfold a_set_pos. cbn [adata apos]. split; [reflexivity | lia].
Qed.

(* next_chunk: where it goes *)
Lemma a_next_chunk_spec a a' : a_next_chunk a = Ok a' ->
  achunked a = true /\ apos a' = (if chunk_end a <? zlen (adata a) then chunk_end a + 1 else chunk_end a) /\
  acstart a' = apos a' /\ achunked a' = true /\ adata a' = adata a.
Proof.
  unfold a_next_chunk. destruct (achunked a); cbn [negb]; intros E; [|discriminate E].
  injection E as <-. cbn [adata apos achunked acstart]. repeat split.
Qed.

Lemma a_next_chunk_plain a : achunked a = false -> a_next_chunk a = Err ERuntime.
Proof. intros C. unfold a_next_chunk. rewrite C. reflexivity. Qed.

Lemma a_next_chunk_inv a a' : a_inv a -> a_next_chunk a = Ok a' -> a_inv a' /\ adata a' = adata a.
Proof.
  intros H E. pose proof (chunk_end_bounds a H) as B. destruct H as [H1 H2].
  destruct (a_next_chunk_spec a a' E) as [_ [P [S [_ D]]]]. split; [|exact D].
  unfold a_inv. rewrite S, D, P. destruct (chunk_end a <? zlen (adata a)) eqn:L; lia.
Qed.

(* next_chunk may move the position BACKWARDS: exactly when the position is more than one past the chunk end *)
Lemma a_next_chunk_monotone_iff a a' : a_inv a -> a_next_chunk a = Ok a' ->
  (apos a <= apos a' <-> apos a <= chunk_end a + 1).
Proof.
  intros H E. pose proof (chunk_end_bounds a H) as B. destruct H as [H1 H2].
  destruct (a_next_chunk_spec a a' E) as [_ [P _]]. rewrite P.
  destruct (chunk_end a <? zlen (adata a)) eqn:L; lia.
Qed.

(* slices *)
Lemma a_slice_some a i n : 0 <= i -> 0 <= n ->
  a_slice a (Some i) (Some n) = Ok (initA (firstn (Z.to_nat n) (skipn (Z.to_nat i) (adata a)))).
Proof.
  intros Hi Hn. unfold a_slice. destruct (i <? 0) eqn:E1; [lia|]. destruct (n <? 0) eqn:E2; [lia|]. cbn [orb].
  destruct (Z_le_gt_dec i (zlen (adata a))) as [L|G].
  - rewrite Z.min_r by lia. reflexivity.
  - rewrite Z.min_l by lia. rewrite (skipn_past (adata a) i) by lia. rewrite (skipn_past (adata a) (zlen (adata a))) by lia.
    reflexivity.
Qed.

Lemma a_slice_default a : 0 <= apos a -> a_slice a None None = Ok (initA (skipn (Z.to_nat (apos a)) (adata a))).
Proof.
  intros Hp. unfold a_slice. destruct (apos a <? 0) eqn:E1; [lia|].
  destruct (Z.max 0 (zlen (adata a) - apos a) <? 0) eqn:E2; [lia|]. cbn [orb].
  destruct (Z_le_gt_dec (apos a) (zlen (adata a))) as [L|G].
  - rewrite Z.min_r by lia. rewrite firstn_all2; [reflexivity|].
    rewrite skipn_length. unfold zlen in *. lia.
  - rewrite Z.min_l by lia. rewrite (skipn_past (adata a) (apos a)) by lia. rewrite (skipn_past (adata a) (zlen (adata a))) by lia.
    rewrite firstn_nil. reflexivity.
Qed.

Lemma a_slice_negative a i n : i < 0 \/ n < 0 -> a_slice a (Some i) (Some n) = Err EValue.
Proof.
  intros H. unfold a_slice. destruct (i <? 0) eqn:E1; cbn [orb]; [reflexivity|].
  destruct (n <? 0) eqn:E2; [reflexivity | lia].
Qed.

Lemma a_slice_inv a i l n : a_slice a i l = Ok n -> a_inv n.
Proof.
  unfold a_slice. destruct (_ || _); intros E; [discriminate E|]. injection E as <-. apply a_inv_init.
Qed.

(* one step keeps the invariant and the data; the position is monotone EXCEPT for next_chunk from more than one
   byte past the chunk end (possible after unchunked over-reading followed by switching to chunked mode) *)
Lemma a_inv_step a o : a_inv a ->
  a_inv (fst (fst (astep a o))) /\ adata (fst (fst (astep a o))) = adata a /\
  (apos a <= apos (fst (fst (astep a o))) <-> (o = RNextChunk -> achunked a = true -> apos a <= chunk_end a + 1)) /\
  (forall n, snd (astep a o) = Some n -> a_inv n).
Proof.
  intros H.
  assert (HN : forall (x : astate), (None : option astate) = Some x -> a_inv x) by (intros x E; discriminate E).
  assert (M : forall (o : rop) (P : Prop), o <> RNextChunk -> P -> (P <-> (o = RNextChunk -> achunked a = true -> apos a <= chunk_end a + 1))).
  { intros o0 P Hne HP. split; [intros _ E; contradiction | intros _; exact HP]. }
  assert (RD : forall n, 0 <= n -> forall (f : list Z -> rout) (o : rop), o <> RNextChunk ->
     let st := (let '(a', v) := a_read a n in (a', f v, @None astate)) in
     a_inv (fst (fst st)) /\ adata (fst (fst st)) = adata a /\
     (apos a <= apos (fst (fst st)) <-> (o = RNextChunk -> achunked a = true -> apos a <= chunk_end a + 1)) /\
     (forall x, snd st = Some x -> a_inv x)).
  { intros n Hn f o0 Hne. pose proof (a_read_inv a n H Hn) as [I1 [I2 I3]].
    destruct (a_read a n) as [a' v]. cbn [fst snd] in *.
    split; [exact I1|]. split; [exact I2|]. split; [apply M; assumption | exact HN]. }
  assert (ID : forall (out : rout) (o : rop), o <> RNextChunk ->
     a_inv a /\ adata a = adata a /\
     (apos a <= apos a <-> (o = RNextChunk -> achunked a = true -> apos a <= chunk_end a + 1)) /\
     (forall x, @None astate = Some x -> a_inv x)).
  { intros out o0 Hne. split; [exact H|]. split; [reflexivity|]. split; [apply M; [assumption | lia] | exact HN]. }
  pose proof (a_remaining_nonneg a H) as R0.
  destruct o as [|n| | | | | |n p| |n p|b| | | | |i l]; cbn [astep].
  - (* RByte *) pose proof (a_read_byte_inv a H) as [I1 [I2 I3]]. destruct (a_read_byte a) as [a' v]. cbn [fst snd] in *.
    split; [exact I1|]. split; [exact I2|]. split; [apply M; [discriminate | exact I3] | exact HN].
  - destruct (n <? 0) eqn:E; [cbn [fst snd]; apply (ID OUnit); discriminate|].
    apply (RD n); [lia | discriminate].
  - apply (RD 1 ltac:(lia) (fun v => OZ (decode_number v))); discriminate.
  - apply (RD 2 ltac:(lia) (fun v => OZ (decode_number v))); discriminate.
  - apply (RD 3 ltac:(lia) (fun v => OZ (decode_number v))); discriminate.
  - apply (RD 4 ltac:(lia) (fun v => OZ (decode_number v))); discriminate.
  - apply (RD (a_remaining a) R0 (fun v => OStr (cp_decode v))); discriminate.
  - destruct (n <? 0) eqn:E; [cbn [fst snd]; apply (ID OUnit); discriminate|].
    apply (RD n ltac:(lia) (fun v => OStr (cp_decode (if p then remove_padding v else v)))); discriminate.
  - apply (RD (a_remaining a) R0 (fun v => OStr (cp_decode (decode_string v)))); discriminate.
  - destruct (n <? 0) eqn:E; [cbn [fst snd]; apply (ID OUnit); discriminate|].
    apply (RD n ltac:(lia) (fun v => OStr (cp_decode (if p then remove_padding (decode_string v) else decode_string v)))); discriminate.
  - (* RSetChunked *) cbn [fst snd adata apos]. split; [exact H|]. split; [reflexivity|]. split; [apply M; [discriminate | lia] | exact HN].
  - cbn [fst snd]. apply (ID OUnit); discriminate.
  - cbn [fst snd]. apply (ID OUnit); discriminate.
  - cbn [fst snd]. apply (ID OUnit); discriminate.
  - (* RNextChunk *) destruct (a_next_chunk a) as [a'|e] eqn:E; cbn [fst snd].
    + destruct (a_next_chunk_inv a a' H E) as [I1 I2]. destruct (a_next_chunk_spec a a' E) as [C _].
      split; [exact I1|]. split; [exact I2|]. split; [|exact HN].
      rewrite (a_next_chunk_monotone_iff a a' H E). split; [intros L _ _; exact L | intros L; apply L; [reflexivity | exact C]].
    + split; [exact H|]. split; [reflexivity|]. split; [|exact HN].
      split; [|intros _; lia]. intros _ _ C. unfold a_next_chunk in E. rewrite C in E. discriminate E.
  - (* RSlice *) destruct (a_slice a i l) as [n|e] eqn:E; cbn [fst snd]; [|apply (ID OUnit); discriminate].
    split; [exact H|]. split; [reflexivity|]. split; [apply M; [discriminate | lia]|].
    intros x Ex. injection Ex as <-. apply (a_slice_inv a i l n E).
Qed.

Lemma a_inv_run ops : forall pool, Forall a_inv pool -> Forall a_inv (fst (arun pool ops)).
Proof.
  induction ops as [|[h o] t IH]; intros pool HP; cbn [arun]; [exact HP|].
  destruct (nth_error pool h) as [a|] eqn:N.
  - pose proof (a_inv_step a o (Forall_nth_error a_inv pool h a HP N)) as [I1 [_ [_ I4]]].
    destruct (astep a o) as [[a' out] na]. cbn [fst snd] in *.
    assert (HP' : Forall a_inv (match na with Some n => upd pool h a' ++ [n] | None => upd pool h a' end)).
    { pose proof (Forall_upd a_inv pool h a' HP I1) as U. destruct na as [n|]; [|exact U].
      apply Forall_app. split; [exact U | constructor; [apply I4; reflexivity | constructor]]. }
    specialize (IH _ HP'). destruct (arun _ t) as [p outs]. exact IH.
  - specialize (IH _ HP). destruct (arun pool t) as [p outs]. exact IH.
Qed.

(* exhausted readers *)
Lemma a_read_exhausted a n : a_remaining a = 0 -> 0 <= n -> a_read a n = (a, []).
Proof.
  intros R Hn. unfold a_read. rewrite R. rewrite Z.min_r by lia. cbv zeta.
  rewrite a_set_pos_same. rewrite slice_nil by lia. reflexivity.
Qed.

Lemma a_read_byte_exhausted a : a_remaining a = 0 -> a_read_byte a = (a, 0).
Proof. intros R. unfold a_read_byte. rewrite R. reflexivity. Qed.

Lemma astep_exhausted a o : a_remaining a = 0 ->
  match o with
  | RByte | RChar | RShort | RThree | RInt => astep a o = (a, OZ 0, None)
  | RBytes n => 0 <= n -> astep a o = (a, OBytes [], None)
  | RString | REnc => astep a o = (a, OStr [], None)
  | RFixed n p | RFixedEnc n p => 0 <= n -> astep a o = (a, OStr [], None)
  | _ => True end.
Proof.
  intros R. destruct o as [|n| | | | | |n p| |n p|b| | | | |i l]; cbn [astep]; try exact I.
  - rewrite (a_read_byte_exhausted a R). reflexivity.
  - intros Hn. destruct (n <? 0) eqn:E; [lia|]. rewrite (a_read_exhausted a n R Hn). reflexivity.
  - rewrite (a_read_exhausted a 1 R) by lia. reflexivity.
  - rewrite (a_read_exhausted a 2 R) by lia. reflexivity.
  - rewrite (a_read_exhausted a 3 R) by lia. reflexivity.
  - rewrite (a_read_exhausted a 4 R) by lia. reflexivity.
  - rewrite (a_read_exhausted a _ R) by lia. reflexivity.
  - intros Hn. destruct (n <? 0) eqn:E; [lia|]. rewrite (a_read_exhausted a n R Hn). destruct p; reflexivity.
  - rewrite (a_read_exhausted a _ R) by lia. reflexivity.
  - intros Hn. destruct (n <? 0) eqn:E; [lia|]. rewrite (a_read_exhausted a n R Hn). destruct p; reflexivity.
Qed.
