(* Lemma library for Model/Writer.v (EoWriter).
   Plan: every operation is factored as  "compute the bytes to emit, or fail" (wemit, a function of the
   sanitisation mode and the operation only)  followed by  "append them" (wstep_factor).  All facts about single
   steps are then facts about wemit, and a history is a fold over wemit (wrun_factor). *)
From EO Require Import Prelude.Py Model.Limits Model.Number Model.StringEnc Model.Cp1252 Model.Writer
  Proofs.Number Proofs.StringEnc Proofs.Cp1252.
Open Scope Z_scope.
Set Default Timeout 60.
Ltac Zify.zify_post_hook ::= Z.to_euclidean_division_equations.

(* ---------------- lists ---------------- *)
Lemma zlen_map {A B} (f : A -> B) l : zlen (map f l) = zlen l.
Proof. unfold zlen. now rewrite map_length. Qed.

Lemma zlen_zrepeat {A} (x : A) n : zlen (zrepeat x n) = Z.max 0 n.
Proof. unfold zlen, zrepeat. rewrite repeat_length. lia. Qed.

Lemma zrepeat_nonpos {A} (x : A) n : n <= 0 -> zrepeat x n = [].
Proof. intros H. unfold zrepeat. replace (Z.to_nat n) with 0%nat by lia. reflexivity. Qed.

Lemma zlen_slice0 {A} (l : list A) k : 0 <= k <= zlen l -> zlen (slice l 0 k) = k.
Proof.
  intros H. unfold slice. rewrite Z.sub_0_r. change (Z.to_nat 0) with 0%nat. cbn [skipn].
  unfold zlen in *. rewrite firstn_length. lia.
Qed.

Lemma cnt_zrepeat x n : Z.of_nat (count_occ Z.eq_dec (zrepeat x n) x) = Z.max 0 n.
Proof. unfold zrepeat. rewrite count_occ_repeat_eq by reflexivity. lia. Qed.

(* ---------------- numbers ---------------- *)
Lemma check_number_size_ok n m : check_number_size n m = Ok tt <-> n <= m.
Proof. unfold check_number_size. destruct (n >? m) eqn:E; split; intros H; try reflexivity; try discriminate; lia. Qed.

Lemma check_number_size_err n m e : check_number_size n m = Err e -> e = EValue /\ m < n.
Proof. unfold check_number_size. destruct (n >? m) eqn:E; intros H; [|discriminate]. split; [congruence | lia]. Qed.

Lemma encode_number_inv n bs : encode_number n = Ok bs -> bs = encode_digits n.
Proof. unfold encode_number, py_bytes. destruct (bytes_okb (encode_digits n)); congruence. Qed.

Lemma encode_number_err n e : encode_number n = Err e -> e = EValue.
Proof. unfold encode_number, py_bytes. destruct (bytes_okb (encode_digits n)); congruence. Qed.

(* below CHAR_MAX - negative numbers included - the encoding is one digit and three fillers, when it exists:
   -1 is encoded (as 0x00), anything below is refused by bytes([...]) *)
Lemma encode_number_small n : n < CHAR_MAX ->
  encode_number n = if 0 <=? n + 1 then Ok [n + 1; 254; 254; 254] else Err EValue.
Proof.
  intros H. unfold encode_number, encode_digits, CHAR_MAX, SHORT_MAX, THREE_MAX in *.
  destruct (n >=? 16194277) eqn:E3; [lia|]. destruct (n >=? 64009) eqn:E2; [lia|]. destruct (n >=? 253) eqn:E1; [lia|].
  unfold py_bytes, bytes_okb. cbn [forallb].
  destruct (0 <=? n + 1) eqn:P.
  - assert (n + 1 <=? 255 = true) as -> by lia. reflexivity.
  - reflexivity.
Qed.

(* the bytes a number write emits, or the failure *)
Definition num_emit (n lim k : Z) : res (list Z) :=
  if n >? lim - 1 then Err EValue
  else match encode_number n with Err e => Err e | Ok bs => Ok (slice bs 0 k) end.

Lemma w_add_number_factor w n lim k : w_add_number w n lim k =
  match num_emit n lim k with
  | Ok out => (mkW (wdata w ++ out) (wsan w), Ok tt)
  | Err e => (w, Err e) end.
Proof.
  unfold w_add_number, num_emit, check_number_size. destruct (n >? lim - 1); [reflexivity|].
  destruct (encode_number n); reflexivity.
Qed.

Lemma num_emit_err n lim k e : num_emit n lim k = Err e -> e = EValue.
Proof.
  unfold num_emit. destruct (n >? lim - 1); [congruence|].
  destruct (encode_number n) as [bs|e'] eqn:E; [discriminate|]. intros H. injection H as <-. now apply encode_number_err in E.
Qed.

Lemma num_emit_size n lim k out : 0 <= k <= 4 -> num_emit n lim k = Ok out -> zlen out = k.
Proof.
  intros Hk. unfold num_emit. destruct (n >? lim - 1); [discriminate|].
  destruct (encode_number n) as [bs|e'] eqn:E; [|discriminate]. intros H. injection H as <-.
  apply encode_number_inv in E. subst bs. apply zlen_slice0. unfold zlen. rewrite encode_digits_length. lia.
Qed.

Lemma num_emit_over n lim k : n >= lim -> num_emit n lim k = Err EValue.
Proof. intros H. unfold num_emit. destruct (n >? lim - 1) eqn:E; [reflexivity | lia]. Qed.

Lemma num_emit_in_range n lim k : lim <= INT_MAX -> 0 <= n < lim ->
  num_emit n lim k = Ok (slice (encode_digits n) 0 k).
Proof.
  intros Hl H. unfold num_emit. destruct (n >? lim - 1) eqn:E; [lia|].
  rewrite encode_number_ok by lia. reflexivity.
Qed.

(* negative arguments: exactly as CPython - -1 slips through, the rest raise ValueError *)
Lemma num_emit_minus_one lim k : 0 <= lim -> num_emit (-1) lim k = Ok (slice [0; 254; 254; 254] 0 k).
Proof. intros H. unfold num_emit. destruct (-1 >? lim - 1) eqn:E; [lia | reflexivity]. Qed.

Lemma num_emit_negative n lim k : n <= -2 -> num_emit n lim k = Err EValue.
Proof.
  intros H. unfold num_emit. destruct (n >? lim - 1); [reflexivity|].
  rewrite encode_number_small by (unfold CHAR_MAX; lia). destruct (0 <=? n + 1) eqn:P; [lia | reflexivity].
Qed.

(* ---------------- sanitisation ---------------- *)
Lemma sanitize_false bs : sanitize false bs = bs.
Proof. reflexivity. Qed.

Lemma sanitize_length san bs : length (sanitize san bs) = length bs.
Proof. destruct san; [apply map_length | reflexivity]. Qed.

Lemma zlen_sanitize san bs : zlen (sanitize san bs) = zlen bs.
Proof. unfold zlen. now rewrite sanitize_length. Qed.

Lemma sanitize_true_no255 bs : ~ In 255 (sanitize true bs).
Proof.
  cbn [sanitize]. intros H. apply in_map_iff in H as [b [E _]]. destruct (b =? 255) eqn:Q; lia.
Qed.

Lemma sanitize_true_cnt bs : count_occ Z.eq_dec (sanitize true bs) 255 = 0%nat.
Proof. apply count_occ_not_In, sanitize_true_no255. Qed.

Lemma sanitize_idem san bs : sanitize san (sanitize san bs) = sanitize san bs.
Proof.
  destruct san; [|reflexivity]. cbn [sanitize]. rewrite map_map. apply map_ext. intros b.
  destruct (b =? 255) eqn:Q; [reflexivity | now rewrite Q].
Qed.

Lemma sanitize_bytes_ok san bs : bytes_ok bs -> bytes_ok (sanitize san bs).
Proof.
  destruct san; [|trivial]. unfold bytes_ok. cbn [sanitize]. intros H. apply Forall_forall. intros x Hx.
  apply in_map_iff in Hx as [b [E Hb]]. rewrite Forall_forall in H. specialize (H b Hb).
  destruct (b =? 255); lia.
Qed.

(* the sanitised image of a str, code point by code point *)
Lemma sanitize_cp_map s : sanitize true (cp_encode s) = map (fun c => if c =? 255 then 121 else cp_enc c) s.
Proof.
  unfold sanitize, cp_encode. rewrite map_map. apply map_ext. intros c.
  destruct (cp_enc_255 c) as [F B].
  destruct (cp_enc c =? 255) eqn:P; destruct (c =? 255) eqn:Q; try reflexivity; exfalso; lia.
Qed.

Lemma zlen_str_bytes san s : zlen (sanitize san (cp_encode s)) = zlen s.
Proof. rewrite zlen_sanitize. unfold zlen. now rewrite cp_encode_length. Qed.

(* ---------------- padding ---------------- *)
Definition pad255 (bs : list Z) (len : Z) : list Z := bs ++ zrepeat 255 (len - zlen bs).

Lemma add_padding_eq bs len : add_padding bs len = pad255 bs len.
Proof.
  unfold add_padding, pad255. destruct (zlen bs =? len) eqn:E; [|reflexivity].
  rewrite zrepeat_nonpos by lia. now rewrite app_nil_r.
Qed.

Lemma zlen_pad255 bs len : zlen bs <= len -> zlen (pad255 bs len) = len.
Proof. intros H. unfold pad255. rewrite zlen_app, zlen_zrepeat. lia. Qed.

Lemma cnt_pad255 bs len : zlen bs <= len ->
  Z.of_nat (count_occ Z.eq_dec (pad255 bs len) 255) = Z.of_nat (count_occ Z.eq_dec bs 255) + (len - zlen bs).
Proof. intros H. unfold pad255. rewrite count_occ_app, Nat2Z.inj_add, cnt_zrepeat. lia. Qed.

Lemma check_string_length_ok s len p :
  check_string_length s len p = Ok tt <-> (if p then zlen s <= len else zlen s = len).
Proof.
  unfold check_string_length. destruct p.
  - destruct (len >=? zlen s) eqn:E; split; intros H; try reflexivity; try discriminate; lia.
  - destruct (zlen s =? len) eqn:E; cbn [negb]; split; intros H; try reflexivity; try discriminate; lia.
Qed.

Lemma check_string_length_cases s len p :
  check_string_length s len p = Ok tt \/ check_string_length s len p = Err EValue.
Proof.
  unfold check_string_length. destruct p; [destruct (len >=? zlen s) | destruct (negb (zlen s =? len))]; auto.
Qed.

(* ---------------- encode_string keeps the break bytes where they are ---------------- *)
Lemma invert_from_cnt b : b = 0 \/ b = 255 -> forall l f,
  count_occ Z.eq_dec (invert_from f l) b = count_occ Z.eq_dec l b.
Proof.
  intros Hb. induction l as [|c l IH]; intros f; cbn [invert_from count_occ]; [reflexivity|].
  rewrite IH. pose proof (inv_byte_break_safe f c b Hb) as [S1 S2].
  destruct (Z.eq_dec (inv_byte f c) b) as [E|E]; destruct (Z.eq_dec c b) as [E'|E']; try reflexivity; exfalso; auto.
Qed.

Lemma encode_cnt b l : b = 0 \/ b = 255 ->
  count_occ Z.eq_dec (encode_string l) b = count_occ Z.eq_dec l b.
Proof. intros Hb. unfold encode_string, invert. rewrite count_occ_rev. now apply invert_from_cnt. Qed.

(* position-wise: output byte i is a break byte exactly when input byte len-1-i is *)
Lemma encode_break_pos b l i d : b = 0 \/ b = 255 -> (i < length l)%nat ->
  (nth i (encode_string l) d = b <-> nth (length l - S i) l d = b).
Proof. intros Hb Hi. rewrite encode_shape by exact Hi. now apply inv_byte_break_safe. Qed.

Lemma zlen_encode l : zlen (encode_string l) = zlen l.
Proof. unfold zlen. now rewrite encode_length. Qed.

(* ---------------- one step = emit, then append ---------------- *)
Definition fixed_bytes (san : bool) (s : list Z) (len : Z) (p : bool) : list Z :=
  if p then pad255 (sanitize san (cp_encode s)) len else sanitize san (cp_encode s).

Definition wemit (san : bool) (o : wop) : res (list Z) :=
  match o with
  | WByte v => if v >? 255 then Err EValue else if (0 <=? v) && (v <=? 255) then Ok [v] else Err EValue
  | WBytes bs => Ok bs
  | WChar n => num_emit n CHAR_MAX 1
  | WShort n => num_emit n SHORT_MAX 2
  | WThree n => num_emit n THREE_MAX 3
  | WInt n => num_emit n INT_MAX 4
  | WString s => Ok (sanitize san (cp_encode s))
  | WFixed s len p =>
      match check_string_length s len p with Err e => Err e | Ok _ => Ok (fixed_bytes san s len p) end
  | WEnc s => Ok (encode_string (sanitize san (cp_encode s)))
  | WFixedEnc s len p =>
      match check_string_length s len p with Err e => Err e | Ok _ => Ok (encode_string (fixed_bytes san s len p)) end
  | WSetSan _ => Ok []
  end.

Definition next_san (san : bool) (o : wop) : bool := match o with WSetSan b => b | _ => san end.

Theorem wstep_factor w o : wstep w o =
  match wemit (wsan w) o with
  | Ok out => (mkW (wdata w ++ out) (next_san (wsan w) o), Ok tt)
  | Err e => (w, Err e)
  end.
Proof.
  destruct o as [v|bs|n|n|n|n|s|s len p|s|s len p|b]; cbn [wstep wemit next_san].
  - unfold w_add_byte, check_number_size. destruct (v >? 255); [reflexivity|].
    destruct ((0 <=? v) && (v <=? 255)); reflexivity.
  - reflexivity.
  - apply w_add_number_factor.
  - apply w_add_number_factor.
  - apply w_add_number_factor.
  - apply w_add_number_factor.
  - reflexivity.
  - unfold w_add_fixed_string, fixed_bytes. destruct (check_string_length s len p); [|reflexivity].
    destruct p; [rewrite add_padding_eq|]; reflexivity.
  - reflexivity.
  - unfold w_add_fixed_encoded_string, fixed_bytes. destruct (check_string_length s len p); [|reflexivity].
    destruct p; [rewrite add_padding_eq|]; reflexivity.
  - unfold w_set_san. now rewrite app_nil_r.
Qed.

(* the mirror of the property vocabulary (Properties/C09.v restates these definitions verbatim) *)
Definition op_limit (o : wop) : option (Z * Z) :=
  match o with WByte v => Some (v, 256) | WChar n => Some (n, CHAR_MAX) | WShort n => Some (n, SHORT_MAX)
             | WThree n => Some (n, THREE_MAX) | WInt n => Some (n, INT_MAX) | _ => None end.
Definition op_over (o : wop) : bool := match op_limit o with Some (v, lim) => v >=? lim | None => false end.
Definition op_badlen (o : wop) : bool :=
  match o with WFixed s len p | WFixedEnc s len p => if p then zlen s >? len else negb (zlen s =? len) | _ => false end.
Definition op_size (o : wop) : Z :=
  match o with WByte _ | WChar _ => 1 | WShort _ => 2 | WThree _ => 3 | WInt _ => 4 | WBytes bs => zlen bs
             | WString s | WEnc s => zlen s | WFixed _ len _ | WFixedEnc _ len _ => len | WSetSan _ => 0 end.
Definition op_image (san : bool) (o : wop) : option (list Z) :=
  match o with
  | WString s => Some (sanitize san (cp_encode s))
  | WFixed s len p => Some (if p then pad255 (sanitize san (cp_encode s)) len else sanitize san (cp_encode s))
  | WEnc s => Some (encode_string (sanitize san (cp_encode s)))
  | WFixedEnc s len p => Some (encode_string (if p then pad255 (sanitize san (cp_encode s)) len else sanitize san (cp_encode s)))
  | _ => None end.
Definition op_padding (o : wop) : Z := match o with WFixed s len true | WFixedEnc s len true => len - zlen s | _ => 0 end.

Lemma wemit_err san o e : wemit san o = Err e -> e = EValue.
Proof.
  destruct o as [v|bs|n|n|n|n|s|s len p|s|s len p|b]; cbn [wemit]; try discriminate; try apply num_emit_err.
  - destruct (v >? 255); [congruence|]. destruct ((0 <=? v) && (v <=? 255)); congruence.
  - destruct (check_string_length_cases s len p) as [-> | ->]; congruence.
  - destruct (check_string_length_cases s len p) as [-> | ->]; congruence.
Qed.

Lemma wemit_err_san san o e : wemit san o = Err e -> next_san san o = san.
Proof. destruct o; cbn [wemit next_san]; try reflexivity. discriminate. Qed.

Lemma zlen_fixed_bytes san s len p : check_string_length s len p = Ok tt -> zlen (fixed_bytes san s len p) = len.
Proof.
  intros H. apply check_string_length_ok in H. unfold fixed_bytes. destruct p.
  - apply zlen_pad255. now rewrite zlen_str_bytes.
  - now rewrite zlen_str_bytes.
Qed.

Lemma wemit_size san o out : wemit san o = Ok out -> zlen out = op_size o.
Proof.
  destruct o as [v|bs|n|n|n|n|s|s len p|s|s len p|b]; cbn [wemit op_size].
  - destruct (v >? 255); [discriminate|]. destruct ((0 <=? v) && (v <=? 255)); [|discriminate].
    intros H. injection H as <-. reflexivity.
  - intros H. injection H as <-. reflexivity.
  - apply num_emit_size. lia.
  - apply num_emit_size. lia.
  - apply num_emit_size. lia.
  - apply num_emit_size. lia.
  - intros H. injection H as <-. apply zlen_str_bytes.
  - destruct (check_string_length s len p) as [[]|e] eqn:C; [|discriminate]. intros H. injection H as <-.
    now apply zlen_fixed_bytes.
  - intros H. injection H as <-. rewrite zlen_encode. apply zlen_str_bytes.
  - destruct (check_string_length s len p) as [[]|e] eqn:C; [|discriminate]. intros H. injection H as <-.
    rewrite zlen_encode. now apply zlen_fixed_bytes.
  - intros H. injection H as <-. reflexivity.
Qed.

Lemma check_string_length_bad (s : list Z) len (p : bool) :
  (if p then zlen s >? len else negb (zlen s =? len)) = true -> check_string_length s len p = Err EValue.
Proof.
  unfold check_string_length. destruct p; intros H.
  - destruct (len >=? zlen s) eqn:E; [lia | reflexivity].
  - now rewrite H.
Qed.

Lemma wemit_reject san o : op_over o = true \/ op_badlen o = true -> wemit san o = Err EValue.
Proof.
  unfold op_over.
  destruct o as [v|bs|n|n|n|n|s|s len p|s|s len p|b]; cbn [wemit op_limit op_badlen]; intros [H|H]; try discriminate;
    try (apply num_emit_over; lia).
  - destruct (v >? 255) eqn:E; [reflexivity | lia].
  - now rewrite check_string_length_bad.
  - now rewrite check_string_length_bad.
Qed.

Lemma wemit_in_range san o v lim : op_limit o = Some (v, lim) -> 0 <= v < lim -> exists out, wemit san o = Ok out.
Proof.
  destruct o as [x|bs|n|n|n|n|s|s len p|s|s len p|b]; cbn [wemit op_limit]; intros H R; try discriminate;
    injection H as <- <-.
  - destruct (x >? 255) eqn:E; [lia|]. destruct ((0 <=? x) && (x <=? 255)) eqn:B; [eexists; reflexivity | lia].
  - eexists. apply num_emit_in_range; [unfold CHAR_MAX, INT_MAX; lia | exact R].
  - eexists. apply num_emit_in_range; [unfold SHORT_MAX, INT_MAX; lia | exact R].
  - eexists. apply num_emit_in_range; [unfold THREE_MAX, INT_MAX; lia | exact R].
  - eexists. apply num_emit_in_range; [lia | exact R].
Qed.

Lemma wemit_image san o img out : op_image san o = Some img -> wemit san o = Ok out -> out = img.
Proof.
  destruct o as [x|bs|n|n|n|n|s|s len p|s|s len p|b]; cbn [wemit op_image]; intros H; try discriminate;
    injection H as <-.
  - congruence.
  - destruct (check_string_length s len p); [|discriminate]. unfold fixed_bytes. congruence.
  - congruence.
  - destruct (check_string_length s len p); [|discriminate]. unfold fixed_bytes. congruence.
Qed.

(* ---- the step-level statements (in the shape Properties/C09.v uses them) ---- *)
Lemma wstep_atomic w o w' e : wstep w o = (w', Err e) -> w' = w /\ e = EValue.
Proof.
  rewrite wstep_factor. destruct (wemit (wsan w) o) as [out|e'] eqn:E; intros H; [discriminate|].
  injection H as <- <-. split; [reflexivity | now apply wemit_err in E].
Qed.

Lemma wstep_rejects w o : op_over o = true \/ op_badlen o = true -> wstep w o = (w, Err EValue).
Proof. intros H. rewrite wstep_factor, (wemit_reject _ _ H). reflexivity. Qed.

Lemma wstep_accept w o w' : wstep w o = (w', Ok tt) ->
  exists out, wemit (wsan w) o = Ok out /\ wdata w' = wdata w ++ out /\ zlen out = op_size o /\
              wsan w' = next_san (wsan w) o.
Proof.
  rewrite wstep_factor. destruct (wemit (wsan w) o) as [out|e'] eqn:E; intros H; [|discriminate].
  injection H as <-. exists out. repeat split. now apply wemit_size in E.
Qed.

Lemma wstep_in_range w o v lim : op_limit o = Some (v, lim) -> 0 <= v < lim -> exists w', wstep w o = (w', Ok tt).
Proof.
  intros H R. destruct (wemit_in_range (wsan w) o v lim H R) as [out E]. rewrite wstep_factor, E.
  eexists. reflexivity.
Qed.

Lemma wstep_image w o w' img : op_image (wsan w) o = Some img -> wstep w o = (w', Ok tt) -> wdata w' = wdata w ++ img.
Proof.
  intros I H. apply wstep_accept in H as [out [E [D _]]]. rewrite D. f_equal. exact (wemit_image _ _ _ _ I E).
Qed.

(* every outcome is Ok or ValueError, whatever the arguments *)
Lemma wstep_total w o : (exists w', wstep w o = (w', Ok tt)) \/ wstep w o = (w, Err EValue).
Proof.
  rewrite wstep_factor. destruct (wemit (wsan w) o) as [out|e] eqn:E.
  - left. eexists. reflexivity.
  - right. now rewrite (wemit_err _ _ _ E).
Qed.

(* ---------------- sanitised images: the only 0xFF bytes are padding ---------------- *)
Lemma cnt_str_bytes s : count_occ Z.eq_dec (sanitize true (cp_encode s)) 255 = 0%nat.
Proof. apply sanitize_true_cnt. Qed.

Lemma cnt_fixed_image s len (p : bool) : (if p then zlen s >? len else negb (zlen s =? len)) = false ->
  Z.of_nat (count_occ Z.eq_dec (if p then pad255 (sanitize true (cp_encode s)) len else sanitize true (cp_encode s)) 255)
  = if p then len - zlen s else 0.
Proof.
  intros H. destruct p.
  - rewrite cnt_pad255 by (rewrite zlen_str_bytes; lia). rewrite cnt_str_bytes, zlen_str_bytes. lia.
  - now rewrite cnt_str_bytes.
Qed.

Lemma some_inj {A} (a b : A) : Some a = Some b -> a = b.
Proof. congruence. Qed.

Lemma image_cnt_255 o img : op_image true o = Some img -> op_badlen o = false ->
  Z.of_nat (count_occ Z.eq_dec img 255) = op_padding o.
Proof.
  destruct o as [x|bs|n|n|n|n|s|s len p|s|s len p|b]; unfold op_image, op_badlen, op_padding; intros H B; try discriminate;
    apply some_inj in H; subst img.
  - now rewrite cnt_str_bytes.
  - rewrite (cnt_fixed_image s len p B). destruct p; reflexivity.
  - rewrite encode_cnt by auto. now rewrite cnt_str_bytes.
  - rewrite encode_cnt by auto. rewrite (cnt_fixed_image s len p B). destruct p; reflexivity.
Qed.

(* with sanitisation off, every U+00FF of the str is an extra 0xFF byte *)
Lemma image_cnt_255_raw s : count_occ Z.eq_dec (sanitize false (cp_encode s)) 255 = count_occ Z.eq_dec s 255.
Proof.
  cbn [sanitize]. unfold cp_encode. induction s as [|c s IH]; cbn [map count_occ]; [reflexivity|]. rewrite IH.
  destruct (cp_enc_255 c) as [F B].
  destruct (Z.eq_dec (cp_enc c) 255) as [E|E]; destruct (Z.eq_dec c 255) as [E'|E']; try reflexivity; exfalso; auto.
Qed.

(* ---------------- histories ---------------- *)
Fixpoint run_out (san : bool) (ops : list wop) : list Z :=
  match ops with
  | [] => []
  | o :: t => match wemit san o with Ok out => out | Err _ => [] end ++ run_out (next_san san o) t
  end.
Fixpoint run_res (san : bool) (ops : list wop) : list (res unit) :=
  match ops with
  | [] => []
  | o :: t => match wemit san o with Ok _ => Ok tt | Err e => Err e end :: run_res (next_san san o) t
  end.

Theorem wrun_factor ops : forall w,
  wrun w ops = (mkW (wdata w ++ run_out (wsan w) ops) (fold_left next_san ops (wsan w)), run_res (wsan w) ops).
Proof.
  induction ops as [|o t IH]; intros w; cbn [wrun run_out run_res fold_left].
  - rewrite app_nil_r. destruct w; reflexivity.
  - rewrite wstep_factor. destruct (wemit (wsan w) o) as [out|e] eqn:E.
    + rewrite IH. cbn [wdata wsan]. now rewrite app_assoc.
    + rewrite IH. rewrite (wemit_err_san _ _ _ E). reflexivity.
Qed.

Lemma run_res_length san ops : length (run_res san ops) = length ops.
Proof. revert san; induction ops as [|o t IH]; intros san; cbn [run_res length]; [reflexivity | now rewrite IH]. Qed.

Lemma run_res_outcomes san ops : Forall (fun r => r = Ok tt \/ r = Err EValue) (run_res san ops).
Proof.
  revert san; induction ops as [|o t IH]; intros san; cbn [run_res]; constructor; [|apply IH].
  destruct (wemit san o) as [out|e] eqn:E; [left; reflexivity | right; now rewrite (wemit_err _ _ _ E)].
Qed.

(* the bytes written = the declared sizes of the accepted operations, summed *)
Fixpoint accepted_size (ops : list wop) (rs : list (res unit)) : Z :=
  match ops, rs with
  | o :: t, Ok _ :: rt => op_size o + accepted_size t rt
  | _ :: t, Err _ :: rt => accepted_size t rt
  | _, _ => 0
  end.

Lemma run_out_length san ops : zlen (run_out san ops) = accepted_size ops (run_res san ops).
Proof.
  revert san; induction ops as [|o t IH]; intros san; cbn [run_out run_res accepted_size]; [reflexivity|].
  rewrite zlen_app, IH. destruct (wemit san o) as [out|e] eqn:E.
  - now rewrite (wemit_size _ _ _ E).
  - reflexivity.
Qed.

Lemma wrun_spec ops w : let '(w', rs) := wrun w ops in
  length rs = length ops /\ exists out, wdata w' = wdata w ++ out.
Proof.
  rewrite wrun_factor. split; [apply run_res_length|]. eexists. reflexivity.
Qed.

Lemma wrun_strong ops w w' rs : wrun w ops = (w', rs) ->
  length rs = length ops /\
  Forall (fun r => r = Ok tt \/ r = Err EValue) rs /\
  wdata w' = wdata w ++ run_out (wsan w) ops /\
  zlen (wdata w') = zlen (wdata w) + accepted_size ops rs /\
  wsan w' = fold_left next_san ops (wsan w).
Proof.
  rewrite wrun_factor. intros H. injection H as <- <-. cbn [wdata wsan].
  repeat split; [apply run_res_length | apply run_res_outcomes |].
  rewrite zlen_app, run_out_length. reflexivity.
Qed.

(* histories compose *)
Lemma wrun_app ops1 ops2 w :
  wrun w (ops1 ++ ops2) =
  let '(w1, r1) := wrun w ops1 in let '(w2, r2) := wrun w1 ops2 in (w2, r1 ++ r2).
Proof.
  revert w; induction ops1 as [|o t IH]; intros w; cbn [app wrun].
  - destruct (wrun w ops2) as [w2 r2]. reflexivity.
  - destruct (wstep w o) as [w1 r]. rewrite IH. destruct (wrun w1 t) as [w1' r1]. destruct (wrun w1' ops2) as [w2 r2].
    reflexivity.
Qed.
