(* Lemmas about the object/heap model of generated classes (property C19). *)
From EO Require Import Prelude.Py Model.Writer Model.Spec Model.Ser Model.Deser Model.ObjModel.
Set Default Timeout 60.
Open Scope Z_scope.

(* ---------------- association lists ---------------- *)

Lemma assoc_map_val : forall (A B : Type) (g : A -> B) (l : list (string * A)) (k : string),
  assoc (map (fun s => (fst s, g (snd s))) l) k = option_map g (assoc l k).
Proof.
  intros A B g l k. induction l as [|[k' v] t IH]; [reflexivity|].
  cbn [map fst snd assoc]. destruct (String.eqb k' k); [reflexivity|exact IH].
Qed.

Lemma assoc_In : forall (A : Type) (l : list (string * A)) (k : string) (v : A),
  assoc l k = Some v -> In (k, v) l.
Proof.
  intros A l k v. induction l as [|[k' v'] t IH]; cbn [assoc]; intros Ha; [discriminate|].
  destruct (String.eqb k' k) eqn:Hk.
  - apply String.eqb_eq in Hk. injection Ha as Ha. subst. left. reflexivity.
  - right. apply IH. exact Ha.
Qed.

Lemma assoc_nodup : forall (A : Type) (l : list (string * A)) (k : string) (v : A),
  NoDup (map fst l) -> In (k, v) l -> assoc l k = Some v.
Proof.
  intros A l k v. induction l as [|[k' v'] t IH]; intros Hnd Hin; [destruct Hin|].
  cbn [map fst] in Hnd. inversion Hnd as [|x xs Hnotin Hnd' Heq]. subst.
  cbn [assoc]. destruct Hin as [Heq|Hin].
  - injection Heq as Hk Hv. subst. rewrite String.eqb_refl. reflexivity.
  - destruct (String.eqb k' k) eqn:Hk.
    + apply String.eqb_eq in Hk. subst. exfalso. apply Hnotin.
      apply (in_map fst) in Hin. exact Hin.
    + apply IH; assumption.
Qed.

(* ---------------- the serializer reads slots only through name lookup ---------------- *)

Definition fields_eq (f f' : list (string * value)) : Prop := forall n, assoc f n = assoc f' n.

Lemma ser_instr_ext : forall rec f f' old i rmo w, fields_eq f f' ->
  ser_instr rec f old i rmo w = ser_instr rec f' old i rmo w.
Proof.
  intros rec f f' old i rmo w Hf. destruct i as [fs|fs d t c|nm t off opt of rb|ty lit g|fld cases|b|].
  - unfold ser_instr, ser_field. destruct (f_name fs) as [n|]; [|reflexivity]. rewrite (Hf n). reflexivity.
  - unfold ser_instr, ser_array. destruct (f_name fs) as [n|]; [|reflexivity]. rewrite (Hf n). reflexivity.
  - unfold ser_instr. destruct rb as [fr|]; [|reflexivity]. rewrite (Hf fr). reflexivity.
  - reflexivity.
  - unfold ser_instr. rewrite (Hf fld), (Hf (fld ++ "_data")%string). reflexivity.
  - reflexivity.
  - reflexivity.
Qed.

Lemma ser_instrs_ext : forall rec f f' old is rmo w, fields_eq f f' ->
  ser_instrs rec f old is rmo w = ser_instrs rec f' old is rmo w.
Proof.
  intros rec f f' old is. induction is as [|i t IH]; intros rmo w Hf; [reflexivity|].
  cbn [ser_instrs]. rewrite (ser_instr_ext rec f f' old i rmo w Hf).
  destruct (ser_instr rec f' old i rmo w) as [[w' r] rmo']. destruct r as [u|e]; [|reflexivity].
  apply IH. exact Hf.
Qed.

Lemma ser_body_ext : forall rec d c f f' w, fields_eq f f' ->
  ser_body rec d (VObj c f) w = ser_body rec d (VObj c f') w.
Proof.
  intros rec d c f f' w Hf. unfold ser_body.
  rewrite (ser_instrs_ext rec f f' (zlen (wdata w)) (sd_body d) false w Hf). reflexivity.
Qed.

Lemma ser_struct_ext : forall fuel E cls c f f' w, fields_eq f f' ->
  ser_struct fuel E cls (VObj c f) w = ser_struct fuel E cls (VObj c f') w.
Proof.
  intros fuel E cls c f f' w Hf. destruct fuel as [|n]; [reflexivity|].
  cbn [ser_struct]. destruct (env_find E cls) as [d|]; [|reflexivity].
  apply ser_body_ext. exact Hf.
Qed.

Lemma serialize_ext : forall E cls c f f' san, fields_eq f f' ->
  serialize E cls (VObj c f) san = serialize E cls (VObj c f') san.
Proof. intros E cls c f f' san Hf. unfold serialize. apply ser_struct_ext. exact Hf. Qed.

(* ---------------- views ---------------- *)

Definition vfields (h : heap) (o : inst) : list (string * value) := map (fun s => (fst s, deref h (snd s))) (i_slots o).

Lemma view_eq : forall h o, view h o = VObj (i_cls o) (vfields h o).
Proof. reflexivity. Qed.

Lemma vfields_assoc : forall h o n, assoc (vfields h o) n = option_map (deref h) (assoc (i_slots o) n).
Proof. intros h o n. unfold vfields. apply assoc_map_val. Qed.

Lemma frozen_fields_eq : forall h h' o, frozen o -> fields_eq (vfields h o) (vfields h' o).
Proof.
  intros h h' o Hfr n. rewrite !vfields_assoc. specialize (Hfr n).
  destruct (assoc (i_slots o) n) as [[v|c]|]; [reflexivity| |reflexivity].
  exfalso. apply (Hfr c). reflexivity.
Qed.

(* what the serializer computes from a frozen instance does not depend on the heap, for ANY class and entry mode *)
Lemma frozen_serialize_heap_independent : forall E cls san h h' o, frozen o ->
  serialize E cls (view h o) san = serialize E cls (view h' o) san.
Proof.
  intros E cls san h h' o Hfr. rewrite !view_eq. apply serialize_ext. apply frozen_fields_eq. exact Hfr.
Qed.

(* ---------------- frozenb: the decidable, duplicate-proof form ---------------- *)

Lemma frozenb_frozen : forall o, frozenb o = true -> frozen o.
Proof.
  intros o Hb n c Ha. unfold frozenb in Hb. rewrite forallb_forall in Hb.
  apply assoc_In in Ha. specialize (Hb _ Ha). cbn [snd] in Hb. discriminate.
Qed.

Lemma frozenb_view : forall h h' o, frozenb o = true -> view h o = view h' o.
Proof.
  intros h h' o Hb. unfold view. f_equal. unfold frozenb in Hb. rewrite forallb_forall in Hb.
  apply map_ext_in. intros [n x] Hin. specialize (Hb _ Hin). cbn [fst snd] in *.
  destruct x as [v|c]; [reflexivity|discriminate].
Qed.

Lemma frozen_nodup_frozenb : forall o, NoDup (map fst (i_slots o)) -> frozen o -> frozenb o = true.
Proof.
  intros o Hnd Hfr. unfold frozenb. rewrite forallb_forall. intros [n x] Hin. cbn [snd].
  destruct x as [v|c]; [reflexivity|]. exfalso.
  apply (Hfr n c). apply assoc_nodup; assumption.
Qed.

(* ---------------- construct / of_value ---------------- *)

Definition ctor_slot (body : list einstr) (h : heap) (n : string) (x : hval) : hval :=
  if is_array_field body n then HImm (deref h x) else x.

Lemma construct_slots : forall body cls h args,
  i_slots (construct body cls h args) = map (fun a => (fst a, ctor_slot body h (fst a) (snd a))) args.
Proof.
  intros body cls h args. unfold construct. cbn [i_slots]. apply map_ext. intros [n x].
  unfold ctor_slot. cbn [fst snd]. destruct (is_array_field body n); reflexivity.
Qed.

Lemma construct_cls : forall body cls h args, i_cls (construct body cls h args) = cls.
Proof. reflexivity. Qed.

Lemma construct_keys : forall body cls h args, map fst (i_slots (construct body cls h args)) = map fst args.
Proof. intros body cls h args. rewrite construct_slots, map_map. reflexivity. Qed.

Lemma construct_assoc : forall body cls h args n,
  assoc (i_slots (construct body cls h args)) n = option_map (ctor_slot body h n) (assoc args n).
Proof.
  intros body cls h args n. rewrite construct_slots.
  induction args as [|[k x] t IH]; [reflexivity|].
  cbn [map fst snd assoc]. destruct (String.eqb k n) eqn:Hk; [|exact IH].
  apply String.eqb_eq in Hk. subst. reflexivity.
Qed.

Lemma construct_frozen : forall body cls h args, args_typed body args -> frozen (construct body cls h args).
Proof.
  intros body cls h args Hty n c. rewrite construct_assoc.
  destruct (assoc args n) as [x|] eqn:Ha; cbn [option_map]; [|discriminate].
  unfold ctor_slot. destruct (is_array_field body n) eqn:Harr; [discriminate|].
  intros Heq. injection Heq as Heq. subst x. specialize (Hty n c Ha). congruence.
Qed.

Lemma construct_frozenb : forall body cls h args, NoDup (map fst args) -> args_typed body args ->
  frozenb (construct body cls h args) = true.
Proof.
  intros body cls h args Hnd Hty. apply frozen_nodup_frozenb.
  - rewrite construct_keys. exact Hnd.
  - apply construct_frozen. exact Hty.
Qed.

Lemma of_value_frozenb : forall v, frozenb (of_value v) = true.
Proof.
  intros v. destruct v as [| z | b | s | b | l | c flds]; try reflexivity.
  unfold of_value, frozenb. cbn [i_slots]. rewrite forallb_forall. intros s Hin.
  apply in_map_iff in Hin. destruct Hin as [p [Hp _]]. subst s. reflexivity.
Qed.

Lemma of_value_frozen : forall v, frozen (of_value v).
Proof. intros v. apply frozenb_frozen. apply of_value_frozenb. Qed.

(* a deserialized instance presents exactly the value deserialize built, whatever the heap *)
Lemma of_value_view : forall h c flds, view h (of_value (VObj c flds)) = VObj c flds.
Proof.
  intros h c flds. unfold view, of_value. cbn [i_cls i_slots]. f_equal.
  rewrite map_map. cbn [fst snd deref]. rewrite <- (map_id flds) at 2. apply map_ext. intros [n v]. reflexivity.
Qed.

(* ---------------- histories ---------------- *)

Lemma prun_inst : forall E ops h o, snd (fst (prun E h o ops)) = o.
Proof.
  intros E ops. induction ops as [|op t IH]; intros h o; [reflexivity|].
  cbn [prun]. destruct (pstep E h o op) as [[h1 o1] out] eqn:Hs.
  assert (Ho : o1 = o).
  { destruct op as [f|f x|c v|]; cbn [pstep] in Hs.
    - injection Hs as _ Ho _. symmetry. exact Ho.
    - injection Hs as _ Ho _. symmetry. exact Ho.
    - injection Hs as _ Ho _. symmetry. exact Ho.
    - destruct (serialize E (i_cls o) (view h o) false) as [w r]. injection Hs as _ Ho _. symmetry. exact Ho. }
  subst o1. specialize (IH h1 o). destruct (prun E h1 o t) as [[h2 o2] outs]. exact IH.
Qed.

(* every serialization in a history of a frozen instance equals the serialization under ANY reference heap h0 *)
Lemma prun_snapshot : forall E o h0, frozen o -> forall ops h r bs,
  In (OBytes r bs) (snd (prun E h o ops)) ->
  (r, bs) = (snd (serialize E (i_cls o) (view h0 o) false), wdata (fst (serialize E (i_cls o) (view h0 o) false))).
Proof.
  intros E o h0 Hfr ops. induction ops as [|op t IH]; intros h r bs Hin; [destruct Hin|].
  cbn [prun] in Hin. destruct (pstep E h o op) as [[h1 o1] out] eqn:Hs.
  assert (Ho : o1 = o).
  { pose proof (prun_inst E [op] h o) as Hp. cbn [prun] in Hp. rewrite Hs in Hp. exact Hp. }
  subst o1. specialize (IH h1 r bs).
  destruct (prun E h1 o t) as [[h2 o2] outs]. cbn [snd] in Hin, IH.
  destruct Hin as [Hout|Hin]; [|apply IH; exact Hin].
  subst out. apply (f_equal snd) in Hs. cbn [snd] in Hs.
  destruct op as [f|f x|c v|]; cbn [pstep] in Hs; try discriminate Hs.
  rewrite (frozen_serialize_heap_independent E (i_cls o) false h0 h o Hfr).
  destruct (serialize E (i_cls o) (view h o) false) as [w r0]. cbn [snd fst] in Hs |- *.
  injection Hs as Hr Hb. subst. reflexivity.
Qed.

(* getters of a frozen instance never return a cell reference, anywhere in a history *)
Lemma prun_get_immutable : forall E o, frozen o -> forall ops h c,
  ~ In (OVal (Some (HCell c))) (snd (prun E h o ops)).
Proof.
  intros E o Hfr ops. induction ops as [|op t IH]; intros h c Hin; [destruct Hin|].
  cbn [prun] in Hin. destruct (pstep E h o op) as [[h1 o1] out] eqn:Hs.
  assert (Ho : o1 = o).
  { pose proof (prun_inst E [op] h o) as Hp. cbn [prun] in Hp. rewrite Hs in Hp. exact Hp. }
  subst o1. specialize (IH h1 c).
  destruct (prun E h1 o t) as [[h2 o2] outs]. cbn [snd] in Hin, IH.
  destruct Hin as [Hout|Hin]; [|apply IH; exact Hin].
  subst out. apply (f_equal snd) in Hs. cbn [snd] in Hs.
  destruct op as [f|f x|c' v|]; cbn [pstep] in Hs; try discriminate Hs.
  - cbn [snd] in Hs. injection Hs as Ha. apply (Hfr f c). exact Ha.
  - destruct (serialize E (i_cls o) (view h o) false) as [w r0]. discriminate Hs.
Qed.

(* every assignment in a history is rejected *)
Lemma prun_set_rejected : forall E ops1 f x ops2 h o,
  nth_error (snd (prun E h o (ops1 ++ PSet f x :: ops2))) (List.length ops1) = Some OAttrError.
Proof.
  intros E ops1 f x ops2. induction ops1 as [|op t IH]; intros h o.
  - cbn [app prun pstep List.length]. destruct (prun E h o ops2) as [[h2 o2] outs]. reflexivity.
  - cbn [app prun List.length]. destruct (pstep E h o op) as [[h1 o1] out]. specialize (IH h1 o1).
    destruct (prun E h1 o1 (t ++ PSet f x :: ops2)) as [[h2 o2] outs]. exact IH.
Qed.
