(* The generator's deserialize templates mean what Model/Deser.v says:
   running the statements `render_deser is` with the interpreter of Model/PyStmtR.v = `deser_instrs` of Model/Deser.v,
   the whole method body (frame variables, try / finally mode restore, construction of the result, byte_size, return) =
   `deser_body`, and the program parsed from the generated text = `deser_struct`. *)
From EO Require Import Prelude.Py Prelude.Corr Model.Limits Model.Number Model.StringEnc Model.Cp1252 Model.Reader Model.Spec Model.Elab Model.Ser Model.Deser
     Model.PyStmt Model.PyStmtR Model.RenderDeser Model.RenderCheck Model.RenderCheckD.
Open Scope string_scope.
Open Scope list_scope.
Open Scope Z_scope.
Set Default Timeout 60.

(* ---------------------------------------------------------------- unfolding the interpreter *)
Section Eqns.
  Variable rec : string -> rstate -> rstate * res value.
  Variable ctor : string -> list (string * value) -> res value.
  Notation dexec_stmt := (dexec_stmt rec ctor).
  Notation dexec_stmts := (dexec_stmts rec ctor).
  Notation deval := (deval rec ctor).

  Lemma dx_nil L r : dexec_stmts [] L r = (r, Ok ONormal, L).
  Proof. reflexivity. Qed.
  Lemma dx_cons s t L r :
    dexec_stmts (s :: t) L r =
    let '(r1, o1, L1) := dexec_stmt s L r in
    match o1 with Ok ONormal => dexec_stmts t L1 r1 | _ => (r1, o1, L1) end.
  Proof. reflexivity. Qed.
  Lemma dx_app a b L r :
    dexec_stmts (a ++ b) L r =
    let '(r1, o1, L1) := dexec_stmts a L r in
    match o1 with Ok ONormal => dexec_stmts b L1 r1 | _ => (r1, o1, L1) end.
  Proof.
    revert L r; induction a as [|s a IH]; intros L r; [reflexivity|].
    rewrite <- app_comm_cons, !dx_cons. destruct (dexec_stmt s L r) as [[r1 [[|v]|e]] L1]; [apply IH | reflexivity | reflexivity].
  Qed.
  Lemma dx_one s L r : dexec_stmts [s] L r = dexec_stmt s L r.
  Proof. rewrite dx_cons. destruct (dexec_stmt s L r) as [[r1 [[|v]|e]] L1]; reflexivity. Qed.

  Lemma dx_assign x e L r :
    dexec_stmt (DSAssign x e) L r =
    let '(r1, v) := deval L e r in
    match v with
    | Err er => (r1, Err er, L)
    | Ok v => if aliases e v then (r1, Err EUnexpected, L) else (r1, Ok ONormal, (x, v) :: L)
    end.
  Proof. reflexivity. Qed.
  Lemma dx_expr e L r :
    dexec_stmt (DSExpr e) L r = let '(r1, v) := deval L e r in (r1, match v with Err x => Err x | Ok _ => Ok ONormal end, L).
  Proof. reflexivity. Qed.
  Lemma dx_append x e L r :
    dexec_stmt (DSAppend x e) L r =
    match assoc L x with
    | None => (r, Err EUnexpected, L)
    | Some (VList l) =>
      let '(r1, v) := deval L e r in
      match v with
      | Err er => (r1, Err er, L)
      | Ok v => if aliases e v then (r1, Err EUnexpected, L) else (r1, Ok ONormal, (x, VList (l ++ [v])) :: L)
      end
    | Some _ => (r, Err EAttribute, L)
    end.
  Proof. reflexivity. Qed.
  Lemma dx_if c th el L r :
    dexec_stmt (DSIf c th el) L r =
    let '(r1, v) := deval L c r in
    match v with
    | Err x => (r1, Err x, L)
    | Ok v => if py_truth v then dexec_stmts th L r1 else dexec_stmts el L r1
    end.
  Proof. reflexivity. Qed.
  Lemma dx_for x e body L r :
    dexec_stmt (DSFor x e body) L r =
    let '(r1, v) := deval L e r in
    match v with
    | Err er => (r1, Err er, L)
    | Ok v => match as_int v with
              | None => (r1, Err EType, L)
              | Some n => dexec_for rec ctor x body (Z.to_nat n) 0 L r1
              end
    end.
  Proof.
    cbn [PyStmtR.dexec_stmt]. destruct (deval L e r) as [r1 [v|er]]; [|reflexivity]. destruct (as_int v) as [n|]; [|reflexivity].
    generalize (Z.to_nat n) 0 L r1. intro k; induction k as [|k IH]; intros i L0 r0; [reflexivity|].
    cbn [dexec_for].
    match goal with |- match ?a with _ => _ end = _ => change a with (dexec_stmts body ((x, VInt i) :: L0) r0) end.
    destruct (dexec_stmts body ((x, VInt i) :: L0) r0) as [[r2 [[|v2]|er]] L2]; [apply IH | reflexivity | reflexivity].
  Qed.
  Lemma dx_while c body L r :
    dexec_stmt (DSWhile c body) L r = dexec_while rec ctor c body (while_fuel r) L r.
  Proof.
    cbn [PyStmtR.dexec_stmt].
    generalize (while_fuel r). intro k. generalize L r. induction k as [|k IH]; intros L0 r0.
    - cbn [dexec_while]. destruct (deval L0 c r0) as [r1 [v|er]]; reflexivity.
    - cbn [dexec_while]. destruct (deval L0 c r0) as [r1 [v|er]]; [|reflexivity]. destruct (py_truth v); [|reflexivity].
      match goal with |- match ?a with _ => _ end = _ => change a with (dexec_stmts body L0 r1) end.
      destruct (dexec_stmts body L0 r1) as [[r2 [[|v2]|er]] L2]; [apply IH | reflexivity | reflexivity].
  Qed.
  Lemma dx_next_chunk L r :
    dexec_stmt DSNextChunk L r = match r_next_chunk r with Ok r' => (r', Ok ONormal, L) | Err x => (r, Err x, L) end.
  Proof. reflexivity. Qed.
  Lemma dx_set_mode e L r :
    dexec_stmt (DSSetMode e) L r =
    let '(r1, v) := deval L e r in
    match v with
    | Err x => (r1, Err x, L)
    | Ok (VBool b) => (r_set_chunked r1 b, Ok ONormal, L)
    | Ok _ => (r1, Err EUnexpected, L)
    end.
  Proof. reflexivity. Qed.
  Lemma dx_set_byte_size x e L r :
    dexec_stmt (DSSetByteSize x e) L r =
    let '(r1, v) := deval L e r in
    match v with
    | Err er => (r1, Err er, L)
    | Ok v =>
      match assoc L x with
      | None => (r1, Err EUnexpected, L)
      | Some (VObj c flds) => (r1, Ok ONormal, (x, VObj c (set_byte_size flds v)) :: L)
      | Some _ => (r1, Err EAttribute, L)
      end
    end.
  Proof. reflexivity. Qed.
  Lemma dx_return e L r :
    dexec_stmt (DSReturn e) L r = let '(r1, v) := deval L e r in (r1, match v with Err x => Err x | Ok v => Ok (OReturn v) end, L).
  Proof. reflexivity. Qed.
  Lemma dx_try body fin L r :
    dexec_stmt (DSTryFinally body fin) L r =
    let '(r1, o1, L1) := dexec_stmts body L r in
    let '(r2, o2, L2) := dexec_stmts fin L1 r1 in
    (r2, match o2 with Ok ONormal => o1 | _ => o2 end, L2).
  Proof. reflexivity. Qed.
End Eqns.

(* ---------------------------------------------------------------- locals *)
Lemma assoc_cons {A} k (v : A) l x : assoc ((k, v) :: l) x = if String.eqb k x then Some v else assoc l x.
Proof. reflexivity. Qed.
Lemma assoc_cons_eq {A} k (v : A) l : assoc ((k, v) :: l) k = Some v.
Proof. rewrite assoc_cons, String.eqb_refl. reflexivity. Qed.
Lemma assoc_cons_ne {A} k (v : A) l x : k <> x -> assoc ((k, v) :: l) x = assoc l x.
Proof. intro H. rewrite assoc_cons. apply String.eqb_neq in H. rewrite H. reflexivity. Qed.
Lemma assoc_in {A} (l : list (string * A)) k v : assoc l k = Some v -> In (k, v) l.
Proof.
  induction l as [|[k0 v0] l IH]; cbn [assoc]; [discriminate|].
  destruct (String.eqb k0 k) eqn:Ek; [intro H; inversion H; subst; apply String.eqb_eq in Ek; subst; left; reflexivity | intro H; right; apply IH, H].
Qed.
Lemma in_assoc_some {A} (l : list (string * A)) k v : In (k, v) l -> assoc l k <> None.
Proof.
  induction l as [|[k0 v0] l IH]; [intros []|]. intros [H|H]; cbn [assoc].
  - inversion H; subst. rewrite String.eqb_refl. discriminate.
  - destruct (String.eqb k0 k); [discriminate | apply IH, H].
Qed.
Lemma assoc_last_snoc {A} (l : list (string * A)) n v x acc :
  assoc_last (l ++ [(n, v)]) x acc = if String.eqb n x then Some v else assoc_last l x acc.
Proof.
  revert acc; induction l as [|[k w] l IH]; intro acc; cbn [assoc_last app]; [reflexivity | apply IH].
Qed.
Lemma assoc_last_snoc_eq {A} (l : list (string * A)) n v acc : assoc_last (l ++ [(n, v)]) n acc = Some v.
Proof. rewrite assoc_last_snoc, String.eqb_refl. reflexivity. Qed.
Lemma assoc_last_snoc_ne {A} (l : list (string * A)) n v x acc : n <> x -> assoc_last (l ++ [(n, v)]) x acc = assoc_last l x acc.
Proof. intro H. rewrite assoc_last_snoc. apply String.eqb_neq in H. rewrite H. reflexivity. Qed.

(* L' binds what L binds, except possibly the names in ex *)
Definition extx (ex : list string) (L L' : locals) : Prop := forall x, ~ In x ex -> assoc L' x = assoc L x.
Lemma extx_refl ex L : extx ex L L.
Proof. intros x _. reflexivity. Qed.
Lemma extx_trans ex L1 L2 L3 : extx ex L1 L2 -> extx ex L2 L3 -> extx ex L1 L3.
Proof. intros H1 H2 x Hx. rewrite H2, H1; auto. Qed.
Lemma extx_cons ex L k v : In k ex -> extx ex L ((k, v) :: L).
Proof. intros Hk x Hx. apply assoc_cons_ne. intros ->. exact (Hx Hk). Qed.
Lemma extx_weaken ex ex' L L' : incl ex ex' -> extx ex L L' -> extx ex' L L'.
Proof. intros Hi H x Hx. apply H. intro Hin. apply Hx, Hi, Hin. Qed.

(* the two variables of the method frame keep their binding *)
Definition keep (L L' : locals) : Prop := assoc L' D_RSP = assoc L D_RSP /\ assoc L' D_OCRM = assoc L D_OCRM.
Lemma keep_refl L : keep L L.
Proof. split; reflexivity. Qed.
Lemma keep_trans L1 L2 L3 : keep L1 L2 -> keep L2 L3 -> keep L1 L3.
Proof. intros [A1 B1] [A2 B2]. split; congruence. Qed.
Lemma keep_extx ex L L' : extx ex L L' -> ~ In D_RSP ex -> ~ In D_OCRM ex -> keep L L'.
Proof. intros H H1 H2. split; apply H; assumption. Qed.

Lemma mem_str_false_in x l : mem_str x l = false -> ~ In x l.
Proof.
  induction l as [|y l IH]; cbn [mem_str]; [intros _ []|]. intro H. apply orb_false_iff in H as [H1 H2].
  intros [<-|Hin]; [rewrite String.eqb_refl in H1; discriminate | exact (IH H2 Hin)].
Qed.
Lemma mem_str_true_in x l : mem_str x l = true -> In x l.
Proof.
  induction l as [|y l IH]; cbn [mem_str]; [discriminate|]. intro H. apply orb_true_iff in H as [H|H].
  - apply String.eqb_eq in H. left. congruence.
  - right. apply IH, H.
Qed.

(* ---------------------------------------------------------------- the invariant between the two sets of locals *)
Definition kind_ok (k : kind) (v : value) : Prop :=
  match k with
  | KAny => True
  | KLen => match v with VInt _ | VNone => True | _ => False end
  | KArr o => match v with VList _ => True | VNone => o = true | _ => False end
  | KStr o => match v with VStr _ => True | VNone => o = true | _ => False end
  end.
(* every name an instruction has assigned so far holds the same value in the interpreter's locals (L, latest first) and in
   Deser.v's (dl, latest last), of the kind recorded for it *)
Definition inv (T : tctx) (L : locals) (dl : list (string * value)) : Prop :=
  forall n k, In (n, k) T -> exists v, assoc L n = Some v /\ assoc_last dl n None = Some v /\ kind_ok k v.

Lemma unbound_none T n : unbound T n = true -> assoc T n = None.
Proof. unfold unbound. destruct (assoc T n); [discriminate | reflexivity]. Qed.
Lemma inv_extx ex T L L' dl : inv T L dl -> extx ex L L' -> (forall x, In x ex -> assoc T x = None) -> inv T L' dl.
Proof.
  intros Hi He Hex n k Hin. destruct (Hi n k Hin) as [v [H1 [H2 H3]]]. exists v. split; [|split; assumption].
  rewrite He; [exact H1|]. intro Hx. apply (in_assoc_some _ _ _ Hin). apply Hex, Hx.
Qed.
Lemma inv_bind T L dl x k v : inv T L dl -> assoc T x = None -> kind_ok k v -> inv ((x, k) :: T) ((x, v) :: L) (dl ++ [(x, v)]).
Proof.
  intros Hi Hx Hk n k' [Heq|Hin].
  - inversion Heq; subst. exists v. rewrite assoc_cons_eq, assoc_last_snoc_eq. auto.
  - destruct (Hi n k' Hin) as [v' [H1 [H2 H3]]]. exists v'.
    assert (Hne : x <> n) by (intros ->; exact (in_assoc_some _ _ _ Hin Hx)).
    rewrite assoc_cons_ne, assoc_last_snoc_ne by exact Hne. auto.
Qed.
Lemma fresh_facts T n : fresh T n = true -> n <> D_RSP /\ n <> D_OCRM /\ assoc T n = None.
Proof.
  unfold fresh. intro H. apply andb_true_iff in H as [H1 H2]. apply negb_true_iff in H1. apply mem_str_false_in in H1.
  repeat split; [intros ->; apply H1; left; reflexivity | intros ->; apply H1; right; left; reflexivity | apply unbound_none, H2].
Qed.
Lemma keep_cons L n v : n <> D_RSP -> n <> D_OCRM -> keep L ((n, v) :: L).
Proof. intros H1 H2. split; apply assoc_cons_ne; assumption. Qed.

Definition lift {A} (x : res A) : res outcome := match x with Ok _ => Ok ONormal | Err e => Err e end.

(* ---------------------------------------------------------------- the read expression *)
Section Read.
  Variable rec : string -> rstate -> rstate * res value.
  Variable ctor : string -> list (string * value) -> res value.
  Notation deval := (deval rec ctor).

  Lemma exec_get_int t r : exec_get (get_meth t) r = let '(r', z) := r_get_int_of t r in (r', Ok (VInt z)).
  Proof. destruct t; reflexivity. Qed.

  Lemma deval_int_offset t off L r :
    deval L (d_with_offset (DGet (get_meth t)) off) r = let '(r', z) := r_get_int_of t r in (r', Ok (VInt (z + off))).
  Proof.
    unfold d_with_offset. destruct (off =? 0) eqn:E0.
    - apply Z.eqb_eq in E0. subst off. cbn [PyStmtR.deval]. rewrite exec_get_int. destruct (r_get_int_of t r) as [r' z]. rewrite Z.add_0_r. reflexivity.
    - destruct (off >? 0); cbn [PyStmtR.deval]; rewrite exec_get_int; destruct (r_get_int_of t r) as [r' z]; cbn [rbind py_bin as_int]; [reflexivity|].
      do 3 f_equal. lia.
  Qed.

  Lemma read_expr_ok ty lenexpr padded off L r lenv :
    (off = 0 \/ exists t, ty = EInt t) ->
    (forall enc, ty = EStr enc ->
                 match lenexpr with
                 | None => lenv = None
                 | Some le => exists n, deval L le r = (r, Ok (VInt n)) /\ lenv = Some n
                 end) ->
    deval L (read_expr ty lenexpr padded off) r = deser_value rec ty lenv padded off r.
  Proof.
    intros Hoff Hlen. destruct ty as [t|t|en t|enc| |sn]; cbn [read_expr deser_value].
    - apply deval_int_offset.
    - destruct Hoff as [-> | [t' Ht]]; [|discriminate Ht]. cbn [PyStmtR.deval]. rewrite deval_int_offset.
      destruct (r_get_int_of t r) as [r' z]. cbn [PyStmtR.deval rbind]. unfold py_cmp. cbn [as_int]. rewrite Z.add_0_r. reflexivity.
    - destruct Hoff as [-> | [t' Ht]]; [|discriminate Ht]. cbn [PyStmtR.deval]. rewrite deval_int_offset.
      destruct (r_get_int_of t r) as [r' z]. cbn [rbind py_enum_of as_int]. rewrite Z.add_0_r. reflexivity.
    - specialize (Hlen enc eq_refl). destruct lenexpr as [le|].
      + destruct Hlen as [n [Hle ->]]. cbn [PyStmtR.deval]. rewrite Hle. unfold exec_get_fixed. cbn [as_int]. reflexivity.
      + subst lenv. destruct enc; reflexivity.
    - cbn [PyStmtR.deval exec_get_bytes as_int]. unfold r_get_bytes. destruct (r_read_bytes r (r_remaining r)) as [r' b]. reflexivity.
    - reflexivity.
  Qed.

  Lemma read_expr_noalias ty lenexpr padded off v : aliases (read_expr ty lenexpr padded off) v = false.
  Proof.
    assert (H : forall m, aliases (d_with_offset (DGet m) off) v = false)
      by (intro m; unfold d_with_offset; destruct (off =? 0); [reflexivity|]; destruct (off >? 0); reflexivity).
    destruct ty; cbn [read_expr]; try reflexivity; try apply H. destruct lenexpr; reflexivity.
  Qed.

  Lemma deser_value_nolen_padded ty p p' off r : deser_value rec ty None p off r = deser_value rec ty None p' off r.
  Proof. destruct ty; reflexivity. Qed.

  Lemma deser_value_str enc len p off r r' x : deser_value rec (EStr enc) len p off r = (r', Ok x) -> exists s, x = VStr s.
  Proof.
    cbn [deser_value]. destruct len as [n|].
    - destruct (if enc then r_get_fixed_encoded_string r n p else r_get_fixed_string r n p) as [[r1 s]|e]; intro H; inversion H; eauto.
    - destruct (if enc then r_get_encoded_string r else r_get_string r) as [r1 s]. intro H; inversion H; eauto.
  Qed.

  Lemma deval_has_remaining L r : deval L has_remaining r = (r, Ok (VBool (r_remaining r >? 0))).
  Proof. reflexivity. Qed.
End Read.

(* ---------------------------------------------------------------- statements around a read *)
Section Stmts.
  Variable rec : string -> rstate -> rstate * res value.
  Variable ctor : string -> list (string * value) -> res value.
  Notation dexec_stmts := (dexec_stmts rec ctor).
  Notation deval := (deval rec ctor).

  (* n = <read> *)
  Lemma assign_ok n e L r :
    (forall v, aliases e v = false) ->
    dexec_stmts [DSAssign n e] L r =
    let '(r', v) := deval L e r in
    match v with Err x => (r', Err x, L) | Ok v => (r', Ok ONormal, (n, v) :: L) end.
  Proof.
    intro Ha. rewrite dx_one, dx_assign. destruct (deval L e r) as [r' [v|x]]; [rewrite Ha|]; reflexivity.
  Qed.
  (* <read>, value dropped *)
  Lemma expr_ok e L r :
    dexec_stmts [DSExpr e] L r = let '(r', v) := deval L e r in (r', lift v, L).
  Proof. rewrite dx_one, dx_expr. destruct (deval L e r) as [r' [v|x]]; reflexivity. Qed.

  (* the optional wrap *)
  Lemma opt_wrap_ok optional n core L r :
    dexec_stmts (d_opt_wrap optional n core) L r =
    if optional
    then (if r_remaining r >? 0 then dexec_stmts core ((n, VNone) :: L) r else (r, Ok ONormal, (n, VNone) :: L))
    else dexec_stmts core L r.
  Proof.
    unfold d_opt_wrap. destruct optional; [|reflexivity].
    rewrite dx_cons, dx_assign. cbn [PyStmtR.deval aliases]. rewrite dx_one, dx_if, deval_has_remaining. cbn [py_truth].
    destruct (r_remaining r >? 0); reflexivity.
  Qed.

  Lemma next_chunk_ok L r :
    dexec_stmts [DSNextChunk] L r = match r_next_chunk r with Ok r' => (r', Ok ONormal, L) | Err x => (r, Err x, L) end.
  Proof. rewrite dx_one, dx_next_chunk. reflexivity. Qed.
End Stmts.

(* ---------------------------------------------------------------- one instruction *)
Definition field_kind (f : fieldspec) : kind := match f_ty f with EStr _ => KStr (f_optional f) | _ => KAny end.
Definition field_len_static (T : tctx) (f : fieldspec) : bool :=
  match f_len f with LNone => true | l => (match f_ty f with EStr _ => true | _ => false end) && len_ok T l end.

Section Instr.
  Variable rec : string -> rstate -> rstate * res value.
  Variable ctor : string -> list (string * value) -> res value.
  Variable start : Z.
  Notation dexec_stmts := (dexec_stmts rec ctor).
  Notation deval := (deval rec ctor).

  (* what an instruction leaves behind *)
  Definition post (T : tctx) (i : einstr) (L L' : locals) (res : res (list (string * value))) : Prop :=
    keep L L' /\ match res with Ok dl' => inv (instr_binds i ++ T) L' dl' | Err _ => True end.

  Lemma field_read_ok f T L dl r :
    field_len_static T f = true -> inv T L dl ->
    deval L (field_read f) r =
    match Deser.len_expr f dl with Err e => (r, Err e) | Ok len => deser_value rec (f_ty f) len (f_padded f) 0 r end.
  Proof.
    unfold field_len_static, field_read, Deser.len_expr. intros Hst Hinv. destruct (f_len f) as [|k|fld] eqn:El; cbn [d_len_expr].
    - apply read_expr_ok; [left; reflexivity | intros enc _; reflexivity].
    - destruct (f_ty f) as [| | |enc| |] eqn:Ety; try discriminate Hst.
      apply read_expr_ok; [left; reflexivity | intros enc' _; exists k; split; reflexivity].
    - destruct (f_ty f) as [| | |enc| |] eqn:Ety; try discriminate Hst. cbn [andb len_ok] in Hst.
      destruct (assoc T fld) as [[| | |]|] eqn:Ea; try discriminate Hst.
      destruct (Hinv fld KLen (assoc_in _ _ _ Ea)) as [v [H1 [H2 H3]]]. rewrite H2.
      destruct v; try contradiction.
      + cbn [read_expr PyStmtR.deval]. rewrite H1. reflexivity.
      + apply read_expr_ok; [left; reflexivity | intros enc' _; exists z; split; [cbn [PyStmtR.deval]; rewrite H1|]; reflexivity].
  Qed.

  (* n = <read of f>, from locals that already agree with Deser.v's *)
  Lemma named_core_ok f n T L0 dl r :
    field_len_static T f = true -> n <> D_RSP -> n <> D_OCRM -> assoc T n = None -> inv T L0 dl ->
    forall r' res,
      match Deser.len_expr f dl with
      | Err e => (r, Err e)
      | Ok len => let '(r1, v) := deser_value rec (f_ty f) len (f_padded f) 0 r in
                  match v with Err e => (r1, Err e) | Ok x => (r1, Ok (dl ++ [(n, x)])) end
      end = (r', res) ->
      exists L', dexec_stmts [DSAssign n (field_read f)] L0 r = (r', lift res, L') /\ keep L0 L' /\
                 match res with Ok dl' => inv ((n, field_kind f) :: T) L' dl' | Err _ => True end.
  Proof.
    intros Hst Hn1 Hn2 HT Hinv r' res. rewrite assign_ok by (intro v; apply read_expr_noalias).
    rewrite (field_read_ok f T L0 dl r Hst Hinv).
    destruct (Deser.len_expr f dl) as [len|e].
    - destruct (deser_value rec (f_ty f) len (f_padded f) 0 r) as [r1 [x|e]] eqn:Ev; intro H; inversion H; subst; clear H.
      + exists ((n, x) :: L0). split; [reflexivity|]. split; [apply keep_cons; assumption|].
        apply inv_bind; [exact Hinv | exact HT|]. unfold field_kind. destruct (f_ty f) eqn:Ety; try exact I.
        destruct (deser_value_str rec _ _ _ _ _ _ _ Ev) as [s ->]. exact I.
      + exists L0. split; [reflexivity|]. split; [apply keep_refl | exact I].
    - intro H; inversion H; subst. exists L0. split; [reflexivity|]. split; [apply keep_refl | exact I].
  Qed.

  Lemma inv_cons_unbound T L dl n v : inv T L dl -> assoc T n = None -> inv T ((n, v) :: L) dl.
  Proof.
    intros Hi Hn. apply (inv_extx [n] T L); [exact Hi | apply extx_cons; left; reflexivity|].
    intros x [<-|[]]. exact Hn.
  Qed.

  (* ---- EField ---- *)
  Lemma field_ok f ss T L dl r :
    d_render_instr (EField f) = Some ss -> instr_static_ok_d T (EField f) = true -> inv T L dl ->
    forall r' res, deser_instr rec start (EField f) dl r = (r', res) ->
    exists L', dexec_stmts ss L r = (r', lift res, L') /\ post T (EField f) L L' res.
  Proof.
    cbn [d_render_instr instr_static_ok_d deser_instr instr_binds]. unfold post. intros Hr Hst Hinv r' res.
    apply andb_true_iff in Hst as [Hfresh Hlen]. fold (field_len_static T f) in Hlen.
    destruct (f_name f) as [n|] eqn:Hn.
    - inversion Hr; subst ss; clear Hr. destruct (fresh_facts T n Hfresh) as [Hn1 [Hn2 HT]].
      cbn [instr_binds]. rewrite Hn. cbn [app]. fold (field_kind f).
      rewrite opt_wrap_ok. destruct (f_optional f) eqn:Eo; cbn [andb].
      + destruct (r_remaining r >? 0) eqn:Er; cbn [negb].
        * intro H.
          destruct (named_core_ok f n T ((n, VNone) :: L) dl r Hlen Hn1 Hn2 HT (inv_cons_unbound _ _ _ _ _ Hinv HT) r' res H) as [L' [Hx [Hk Hi]]].
          exists L'. split; [exact Hx|]. split; [apply (keep_trans L ((n, VNone) :: L) L'); [apply keep_cons; assumption | exact Hk] | exact Hi].
        * intro H; inversion H; subst. exists ((n, VNone) :: L). split; [reflexivity|]. split; [apply keep_cons; assumption|].
          apply inv_bind; [exact Hinv | exact HT|]. unfold field_kind. rewrite Eo. destruct (f_ty f); try exact I. reflexivity.
      + intro H.
        destruct (named_core_ok f n T L dl r Hlen Hn1 Hn2 HT Hinv r' res H) as [L' [Hx [Hk Hi]]].
        exists L'. split; [exact Hx|]. split; [exact Hk | exact Hi].
    - destruct (f_optional f) eqn:Eo; [discriminate|]. inversion Hr; subst ss; clear Hr. cbn [instr_binds]. rewrite Hn. cbn [andb app].
      rewrite expr_ok, (field_read_ok f T L dl r Hlen Hinv).
      destruct (Deser.len_expr f dl) as [len|e].
      + destruct (deser_value rec (f_ty f) len (f_padded f) 0 r) as [r1 [x|e]]; intro H; inversion H; subst;
          exists L; (split; [reflexivity|]); (split; [apply keep_refl|]); [exact Hinv | exact I].
      + intro H; inversion H; subst. exists L. split; [reflexivity|]. split; [apply keep_refl | exact I].
  Qed.

  (* ---- ELength ---- *)
  Lemma length_ok name t off optional opt_first ref_by ss T L dl r :
    let i := ELength name t off optional opt_first ref_by in
    d_render_instr i = Some ss -> instr_static_ok_d T i = true -> inv T L dl ->
    forall r' res, deser_instr rec start i dl r = (r', res) ->
    exists L', dexec_stmts ss L r = (r', lift res, L') /\ post T i L L' res.
  Proof.
    cbn zeta. cbn [d_render_instr instr_static_ok_d deser_instr instr_binds]. unfold post. intros Hr Hfresh Hinv r' res.
    inversion Hr; subst ss; clear Hr. destruct (fresh_facts T name Hfresh) as [Hn1 [Hn2 HT]]. cbn [app].
    assert (Hcore : forall L0, inv T L0 dl ->
              dexec_stmts [DSAssign name (read_expr (EInt t) None false off)] L0 r =
              (let '(r1, z) := r_get_int_of t r in (r1, Ok ONormal, (name, VInt (z + off)) :: L0))).
    { intros L0 _. rewrite assign_ok by (intro v; apply read_expr_noalias). cbn [read_expr]. rewrite deval_int_offset.
      destruct (r_get_int_of t r) as [r1 z]. reflexivity. }
    rewrite opt_wrap_ok. destruct optional; cbn [andb].
    - destruct (r_remaining r >? 0) eqn:Er; cbn [negb].
      + rewrite Hcore by (apply inv_cons_unbound; assumption). destruct (r_get_int_of t r) as [r1 z]. intro H; inversion H; subst.
        eexists. split; [reflexivity|]. split; [eapply keep_trans; apply keep_cons; assumption|].
        apply inv_bind; [apply inv_cons_unbound; assumption | exact HT | exact I].
      + intro H; inversion H; subst. eexists. split; [reflexivity|]. split; [apply keep_cons; assumption|].
        apply inv_bind; [exact Hinv | exact HT | exact I].
    - rewrite Hcore by exact Hinv. destruct (r_get_int_of t r) as [r1 z]. intro H; inversion H; subst.
      eexists. split; [reflexivity|]. split; [apply keep_cons; assumption|].
      apply inv_bind; [exact Hinv | exact HT | exact I].
  Qed.

  (* ---- EDummy ---- *)
  Lemma dummy_ok ty lit guarded ss T L dl r :
    let i := EDummy ty lit guarded in
    d_render_instr i = Some ss -> inv T L dl -> assoc L D_RSP = Some (VInt start) ->
    forall r' res, deser_instr rec start i dl r = (r', res) ->
    exists L', dexec_stmts ss L r = (r', lift res, L') /\ post T i L L' res.
  Proof.
    cbn zeta. cbn [d_render_instr deser_instr instr_binds]. unfold post. intros Hr Hinv Hrsp r' res.
    inversion Hr; subst ss; clear Hr. cbn [app].
    assert (Hcore : dexec_stmts [DSExpr (read_expr ty None false 0)] L r =
                    (let '(r1, v) := deser_value rec ty None false 0 r in (r1, lift v, L))).
    { rewrite expr_ok, (read_expr_ok rec ctor ty None false 0 L r None); [reflexivity | left; reflexivity | intros enc _; reflexivity]. }
    assert (Hfin : (let '(r1, v) := deser_value rec ty None false 0 r in match v with Err e => (r1, Err e) | Ok _ => (r1, Ok dl) end) = (r', res) ->
                   exists L', (let '(r1, v) := deser_value rec ty None false 0 r in (r1, lift v, L)) = (r', lift res, L') /\
                              keep L L' /\ match res with Ok dl' => inv T L' dl' | Err _ => True end).
    { destruct (deser_value rec ty None false 0 r) as [r1 [x|e]]; intro H; inversion H; subst; exists L;
        (split; [reflexivity|]); (split; [apply keep_refl|]); [exact Hinv | exact I]. }
    destruct guarded; cbn [andb].
    - rewrite dx_one, dx_if. cbn [PyStmtR.deval]. rewrite Hrsp. cbn [rbind]. unfold py_cmp. cbn [as_int py_truth].
      destruct (rpos r =? start); cbn [negb].
      + rewrite Hcore. exact Hfin.
      + intro H; inversion H; subst. exists L. split; [reflexivity|]. split; [apply keep_refl | exact Hinv].
    - rewrite Hcore. exact Hfin.
  Qed.

  (* ---- ESwitch ---- *)
  Lemma d_case_body_ok dn c L r :
    dexec_stmts (d_case_body dn c) L r =
    match c_cls c with
    | None => (r, Ok ONormal, (dn, VNone) :: L)
    | Some cls => let '(r1, v) := rec cls r in
                  match v with Err e => (r1, Err e, L) | Ok x => (r1, Ok ONormal, (dn, x) :: L) end
    end.
  Proof.
    unfold d_case_body. destruct (c_cls c) as [cls|]; rewrite assign_ok by (intro v; reflexivity); reflexivity.
  Qed.

  Lemma d_case_chain_ok field dn fv cases L :
    assoc L field = Some fv ->
    forall ss r, d_case_chain field dn cases = Some ss ->
    dexec_stmts ss L r =
    match find_case cases (as_int fv) with
    | None => (r, Ok ONormal, L)
    | Some c => dexec_stmts (d_case_body dn c) L r
    end.
  Proof.
    intro Hf. induction cases as [|c cases IH]; intros ss r; cbn [d_case_chain find_case].
    - intro H; inversion H; subst ss. reflexivity.
    - destruct (c_key c) as [k|].
      + destruct (d_case_chain field dn cases) as [el|]; [|discriminate]. intro H; inversion H; subst ss.
        rewrite dx_one, dx_if. cbn [PyStmtR.deval]. rewrite Hf. cbn [rbind]. unfold py_cmp. cbn [as_int].
        destruct (as_int fv) as [x|].
        * cbn [py_truth]. destruct (x =? k); [reflexivity | apply IH; reflexivity].
        * cbn [py_truth]. apply IH. reflexivity.
      + destruct cases; [|discriminate]. intro H; inversion H; subst ss. reflexivity.
  Qed.

  Lemma switch_ok field cases ss T L dl r :
    let i := ESwitch field cases in
    d_render_instr i = Some ss -> instr_static_ok_d T i = true -> inv T L dl ->
    forall r' res, deser_instr rec start i dl r = (r', res) ->
    exists L', dexec_stmts ss L r = (r', lift res, L') /\ post T i L L' res.
  Proof.
    cbn zeta. cbn [d_render_instr instr_static_ok_d deser_instr instr_binds]. unfold post. intros Hr Hst Hinv r' res.
    apply andb_true_iff in Hst as [Hfresh Hbound]. set (dn := (field ++ "_data")%string) in *.
    destruct (fresh_facts T dn Hfresh) as [Hn1 [Hn2 HT]]. cbn [app].
    (* the chain, run after `dn = None` *)
    assert (Hchain : exists ch, ss = DSAssign dn DNone :: ch /\
                                (cases = [] -> ch = []) /\
                                (cases <> [] -> d_case_chain field dn cases = Some ch)).
    { destruct cases as [|c cs].
      - inversion Hr. exists []. split; [reflexivity|]. split; [reflexivity | congruence].
      - destruct (c_key c) eqn:Ek; [|discriminate].
        destruct (d_case_chain field dn (c :: cs)) as [ch|] eqn:Ec; [|discriminate]. inversion Hr.
        exists ch. split; [reflexivity|]. split; [discriminate | reflexivity]. }
    destruct Hchain as [ch [-> [Hch0 Hch1]]].
    rewrite dx_cons, dx_assign. cbn [PyStmtR.deval aliases].
    set (L1 := (dn, VNone) :: L).
    assert (Hinv1 : inv T L1 dl) by (apply inv_cons_unbound; assumption).
    assert (Hk1 : keep L L1) by (apply keep_cons; assumption).
    (* both sides select the same case *)
    assert (Hsel : dexec_stmts ch L1 r =
                   match find_case cases (match assoc_last dl field None with
                                          | Some (VInt z) => Some z | Some (VBool b) => Some (if b then 1 else 0) | _ => None end) with
                   | None => (r, Ok ONormal, L1)
                   | Some c => dexec_stmts (d_case_body dn c) L1 r
                   end).
    { destruct cases as [|c0 cs] eqn:Ecs.
      - rewrite (Hch0 eq_refl). reflexivity.
      - rewrite <- Ecs in *. apply negb_true_iff in Hbound. unfold unbound in Hbound.
        destruct (assoc T field) as [k|] eqn:Ea; [|discriminate Hbound].
        destruct (Hinv1 field k (assoc_in _ _ _ Ea)) as [fv [H1 [H2 _]]]. rewrite H2.
        rewrite (d_case_chain_ok field dn fv cases L1 H1 ch r); [|apply Hch1; rewrite Ecs; discriminate].
        destruct fv; reflexivity. }
    rewrite Hsel. clear Hsel.
    destruct (find_case cases _) as [c|].
    - rewrite d_case_body_ok. destruct (c_cls c) as [cls|].
      + destruct (rec cls r) as [r1 [x|e]]; intro H; inversion H; subst.
        * eexists. split; [reflexivity|]. split; [eapply keep_trans; [exact Hk1 | apply keep_cons; assumption]|].
          apply inv_bind; [exact Hinv1 | exact HT | exact I].
        * exists L1. split; [reflexivity|]. split; [exact Hk1 | exact I].
      + intro H; inversion H; subst. eexists. split; [reflexivity|].
        split; [eapply keep_trans; [exact Hk1 | apply keep_cons; assumption]|].
        apply inv_bind; [exact Hinv1 | exact HT | exact I].
    - intro H; inversion H; subst. exists L1. split; [reflexivity|]. split; [exact Hk1|].
      apply inv_bind; [exact Hinv | exact HT | exact I].
  Qed.
End Instr.

(* ---------------------------------------------------------------- arrays *)
Lemma inv_bind_at T L dl x k v :
  inv T L dl -> assoc T x = None -> assoc L x = Some v -> kind_ok k v -> inv ((x, k) :: T) L (dl ++ [(x, v)]).
Proof.
  intros Hi Hx HL Hk n k' [Heq|Hin].
  - inversion Heq; subst. exists v. rewrite assoc_last_snoc_eq. auto.
  - destruct (Hi n k' Hin) as [v' [H1 [H2 H3]]]. exists v'.
    assert (Hne : x <> n) by (intros ->; exact (in_assoc_some _ _ _ Hin Hx)).
    rewrite assoc_last_snoc_ne by exact Hne. auto.
Qed.

Section Arrays.
  Variable rec : string -> rstate -> rstate * res value.
  Variable ctor : string -> list (string * value) -> res value.
  Notation dexec_stmts := (dexec_stmts rec ctor).
  Notation deval := (deval rec ctor).

  Definition loop_tail (d t : bool) (le : dexpr) : list dstmt :=
    if d then (if t then [DSNextChunk] else [DSIf (DCmp CLt (DBin BAdd (DVar D_LOOP) (DInt 1)) le) [DSNextChunk] []]) else [].

  (* xs.append(<read>) *)
  Lemma elem_ok f n L r acc :
    assoc L n = Some (VList (rev acc)) ->
    dexec_stmts [array_elem f n] L r =
    let '(r1, v) := deser_value rec (f_ty f) None false 0 r in
    match v with Err e => (r1, Err e, L) | Ok x => (r1, Ok ONormal, (n, VList (rev (x :: acc))) :: L) end.
  Proof.
    intro Hn. unfold array_elem. rewrite dx_one, dx_append, Hn.
    rewrite (read_expr_ok rec ctor (f_ty f) None (f_padded f) 0 L r None); [|left; reflexivity | intros enc _; reflexivity].
    rewrite (deser_value_nolen_padded rec (f_ty f) (f_padded f) false).
    destruct (deser_value rec (f_ty f) None false 0 r) as [r1 [x|e]]; [|reflexivity].
    rewrite read_expr_noalias. reflexivity.
  Qed.

  Lemma for_ok f n d t le nval L0 :
    n <> D_LOOP ->
    (forall L' r', extx [D_LOOP; n] L0 L' -> deval L' le r' = (r', Ok (VInt nval))) ->
    forall k i acc L r,
      extx [D_LOOP; n] L0 L -> assoc L n = Some (VList (rev acc)) ->
      exists L2,
        dexec_for rec ctor D_LOOP ([array_elem f n] ++ loop_tail d t le) k i L r =
        (let '(r', v) := deser_for rec (f_ty f) d t k i nval acc r in (r', lift v, L2)) /\
        extx [D_LOOP; n] L0 L2 /\
        (forall r' l, deser_for rec (f_ty f) d t k i nval acc r = (r', Ok l) -> assoc L2 n = Some (VList l)).
  Proof.
    intros Hni Hle. induction k as [|k IH]; intros i acc L r Hext Hn.
    - exists L. split; [reflexivity|]. split; [exact Hext|]. cbn [deser_for]. intros r' l H; inversion H; subst. exact Hn.
    - cbn [dexec_for deser_for]. set (L1 := (D_LOOP, VInt i) :: L).
      assert (Hext1 : extx [D_LOOP; n] L0 L1) by (eapply extx_trans; [exact Hext | apply extx_cons; left; reflexivity]).
      assert (Hn1 : assoc L1 n = Some (VList (rev acc))) by (unfold L1; rewrite assoc_cons_ne; [exact Hn | congruence]).
      rewrite dx_app, (elem_ok f n L1 r acc Hn1).
      destruct (deser_value rec (f_ty f) None false 0 r) as [r1 [x|e]].
      2:{ exists L1. split; [reflexivity|]. split; [exact Hext1 | discriminate]. }
      set (L2 := (n, VList (rev (x :: acc))) :: L1).
      assert (Hext2 : extx [D_LOOP; n] L0 L2) by (eapply extx_trans; [exact Hext1 | apply extx_cons; right; left; reflexivity]).
      assert (Hn2 : assoc L2 n = Some (VList (rev (x :: acc)))) by apply assoc_cons_eq.
      assert (Htail : dexec_stmts (loop_tail d t le) L2 r1 =
                      if d && (t || (i + 1 <? nval))
                      then match r_next_chunk r1 with Ok r2 => (r2, Ok ONormal, L2) | Err e => (r1, Err e, L2) end
                      else (r1, Ok ONormal, L2)).
      { unfold loop_tail. destruct d; [|reflexivity]. destruct t; cbn [andb orb]; [apply next_chunk_ok|].
        rewrite dx_one, dx_if. cbn [PyStmtR.deval].
        assert (Hi : assoc L2 D_LOOP = Some (VInt i)) by (unfold L2, L1; rewrite assoc_cons_ne by exact Hni; apply assoc_cons_eq).
        rewrite Hi, (Hle L2 r1 Hext2). cbn [rbind py_bin as_int]. unfold py_cmp. cbn [as_int py_truth].
        destruct (i + 1 <? nval); [apply next_chunk_ok | reflexivity]. }
      rewrite Htail. destruct (d && (t || (i + 1 <? nval))).
      + destruct (r_next_chunk r1) as [r2|e].
        * apply IH; assumption.
        * exists L2. split; [reflexivity|]. split; [exact Hext2 | discriminate].
      + apply IH; assumption.
  Qed.

  Lemma while_ok f n (d : bool) L0 :
    forall fuel acc L r,
      extx [n] L0 L -> assoc L n = Some (VList (rev acc)) ->
      exists L2,
        dexec_while rec ctor has_remaining ([array_elem f n] ++ (if d then [DSNextChunk] else [])) fuel L r =
        (let '(r', v) := deser_while rec (f_ty f) d fuel acc r in (r', lift v, L2)) /\
        extx [n] L0 L2 /\
        (forall r' l, deser_while rec (f_ty f) d fuel acc r = (r', Ok l) -> assoc L2 n = Some (VList l)).
  Proof.
    induction fuel as [|fuel IH]; intros acc L r Hext Hn.
    - cbn [dexec_while deser_while]. rewrite deval_has_remaining. cbn [py_truth]. destruct (r_remaining r >? 0).
      + exists L. split; [reflexivity|]. split; [exact Hext | discriminate].
      + exists L. split; [reflexivity|]. split; [exact Hext|]. intros r' l H; inversion H; subst. exact Hn.
    - cbn [dexec_while deser_while]. rewrite deval_has_remaining. cbn [py_truth]. destruct (r_remaining r >? 0).
      2:{ exists L. split; [reflexivity|]. split; [exact Hext|]. intros r' l H; inversion H; subst. exact Hn. }
      rewrite dx_app, (elem_ok f n L r acc Hn).
      destruct (deser_value rec (f_ty f) None false 0 r) as [r1 [x|e]].
      2:{ exists L. split; [reflexivity|]. split; [exact Hext | discriminate]. }
      set (L2 := (n, VList (rev (x :: acc))) :: L).
      assert (Hext2 : extx [n] L0 L2) by (eapply extx_trans; [exact Hext | apply extx_cons; left; reflexivity]).
      assert (Hn2 : assoc L2 n = Some (VList (rev (x :: acc)))) by apply assoc_cons_eq.
      destruct d.
      + rewrite next_chunk_ok. destruct (r_next_chunk r1) as [r2|e].
        * apply IH; assumption.
        * exists L2. split; [reflexivity|]. split; [exact Hext2 | discriminate].
      + rewrite dx_nil. apply IH; assumption.
  Qed.

  (* xs = []; for i in range(le): ... *)
  Lemma for_array_ok f n d t le nval L0 r :
    n <> D_LOOP ->
    (forall L' r', extx [D_LOOP; n] L0 L' -> deval L' le r' = (r', Ok (VInt nval))) ->
    exists L2,
      dexec_stmts [DSAssign n DEmptyList; array_for f n d t le] L0 r =
      (let '(r', v) := deser_for rec (f_ty f) d t (Z.to_nat nval) 0 nval [] r in (r', lift v, L2)) /\
      extx [D_LOOP; n] L0 L2 /\
      (forall r' l, deser_for rec (f_ty f) d t (Z.to_nat nval) 0 nval [] r = (r', Ok l) -> assoc L2 n = Some (VList l)).
  Proof.
    intros Hni Hle. rewrite dx_cons, dx_assign. cbn [PyStmtR.deval aliases].
    set (L1 := (n, VList []) :: L0).
    assert (Hext1 : extx [D_LOOP; n] L0 L1) by (apply extx_cons; right; left; reflexivity).
    unfold array_for. rewrite dx_one, dx_for, (Hle L1 r Hext1). cbn [as_int].
    apply (for_ok f n d t le nval L0 Hni Hle (Z.to_nat nval) 0 [] L1 r Hext1). apply assoc_cons_eq.
  Qed.

  (* xs = []; while reader.remaining > 0: ... *)
  Lemma while_array_ok f n (d : bool) L0 r :
    exists L2,
      dexec_stmts [DSAssign n DEmptyList; array_while f n d] L0 r =
      (let '(r', v) := deser_while rec (f_ty f) d (S (List.length (rdata r))) [] r in (r', lift v, L2)) /\
      extx [n] L0 L2 /\
      (forall r' l, deser_while rec (f_ty f) d (S (List.length (rdata r))) [] r = (r', Ok l) -> assoc L2 n = Some (VList l)).
  Proof.
    rewrite dx_cons, dx_assign. cbn [PyStmtR.deval aliases].
    set (L1 := (n, VList []) :: L0).
    assert (Hext1 : extx [n] L0 L1) by (apply extx_cons; left; reflexivity).
    unfold array_while. rewrite dx_one, dx_while. unfold while_fuel.
    apply (while_ok f n d L0 (S (List.length (rdata r))) [] L1 r Hext1). apply assoc_cons_eq.
  Qed.
End Arrays.

Section Instr2.
  Variable rec : string -> rstate -> rstate * res value.
  Variable ctor : string -> list (string * value) -> res value.
  Variable start : Z.
  Notation dexec_stmts := (dexec_stmts rec ctor).
  Notation deval := (deval rec ctor).

  (* Deser.v's element list of an array *)
  Definition array_res (f : fieldspec) (d t : bool) (count : acount) (dl : list (string * value)) (r : rstate) : rres (list value) :=
    match count with
    | ACExpr =>
      match Deser.len_expr f dl with
      | Ok (Some n) => deser_for rec (f_ty f) d t (Z.to_nat n) 0 n [] r
      | Ok None => (r, Err EUnexpected)
      | Err e => (r, Err e)
      end
    | ACRemaining size =>
      if size =? 0 then (r, Err EUnexpected) else
      let n := truediv_int (r_remaining r) size in
      deser_for rec (f_ty f) d t (Z.to_nat n) 0 n [] r
    | ACWhile => deser_while rec (f_ty f) d (S (List.length (rdata r))) [] r
    end.

  Lemma loop_static_facts T n :
    unbound T D_LOOP && negb (String.eqb n D_LOOP) = true -> assoc T D_LOOP = None /\ n <> D_LOOP.
  Proof.
    intro H. apply andb_true_iff in H as [H1 H2]. split; [apply unbound_none, H1|]. apply negb_true_iff, String.eqb_neq in H2. exact H2.
  Qed.

  Lemma array_core_ok f n d t count core T L0 dl r :
    array_core f n d t count = Some core ->
    assoc T n = None -> n <> D_RSP -> n <> D_OCRM -> len_ok T (f_len f) = true ->
    match count with ACWhile => true | _ => unbound T D_LOOP && negb (String.eqb n D_LOOP) end = true ->
    match count with
    | ACRemaining _ => let rl := rem_len_name n in unbound T rl && negb (mem_str rl [D_RSP; D_OCRM; D_LOOP; n])
    | _ => true
    end = true ->
    inv T L0 dl ->
    exists L2,
      dexec_stmts core L0 r = (let '(r1, v) := array_res f d t count dl r in (r1, lift v, L2)) /\
      keep L0 L2 /\ inv T L2 dl /\
      (forall r1 l, array_res f d t count dl r = (r1, Ok l) -> assoc L2 n = Some (VList l)).
  Proof.
    intros Hc HT Hn1 Hn2 Hlen Hloop Hrem Hinv. unfold array_core in Hc. unfold array_res, Deser.len_expr.
    destruct count as [|size|].
    - (* for i in range(<length attribute>) *)
      destruct (loop_static_facts T n Hloop) as [HTi Hni].
      assert (Hfin : forall L2, extx [D_LOOP; n] L0 L2 -> keep L0 L2 /\ inv T L2 dl).
      { intros L2 He. split.
        - apply (keep_extx _ _ _ He); intros [H|[H|[]]]; try discriminate H; congruence.
        - apply (inv_extx _ _ _ _ _ Hinv He). intros x [<-|[<-|[]]]; assumption. }
      destruct (f_len f) as [|k|fld] eqn:El; cbn [d_len_expr] in Hc; [discriminate| |]; inversion Hc; subst core; clear Hc.
      + destruct (for_array_ok rec ctor f n d t (DInt k) k L0 r Hni) as [L2 [Hx [He Hl]]]; [intros; reflexivity|].
        exists L2. split; [exact Hx|]. destruct (Hfin L2 He) as [Hk Hi]. split; [exact Hk|]. split; [exact Hi | exact Hl].
      + cbn [len_ok] in Hlen. destruct (assoc T fld) as [[| | |]|] eqn:Ea; try discriminate Hlen.
        destruct (Hinv fld KLen (assoc_in _ _ _ Ea)) as [v [H1 [H2 H3]]]. rewrite H2.
        assert (Hfi : fld <> D_LOOP) by (intros ->; congruence).
        assert (Hfn : fld <> n) by (intros ->; congruence).
        destruct v; try contradiction.
        * (* the length field is absent: range(None) *)
          rewrite dx_cons, dx_assign. cbn [PyStmtR.deval aliases]. unfold array_for. rewrite dx_one, dx_for. cbn [PyStmtR.deval].
          rewrite assoc_cons_ne, H1 by congruence. cbn [as_int].
          exists ((n, VList []) :: L0). split; [reflexivity|]. split; [apply keep_cons; assumption|].
          split; [apply inv_cons_unbound; assumption | discriminate].
        * destruct (for_array_ok rec ctor f n d t (DVar fld) z L0 r Hni) as [L2 [Hx [He Hl]]].
          { intros L' r' He. cbn [PyStmtR.deval]. rewrite (He fld), H1; [reflexivity|]. intros [H|[H|[]]]; congruence. }
          exists L2. split; [exact Hx|]. destruct (Hfin L2 He) as [Hk Hi]. split; [exact Hk|]. split; [exact Hi | exact Hl].
    - (* xs_length = int(reader.remaining / size); for i in range(xs_length) *)
      destruct (loop_static_facts T n Hloop) as [HTi Hni]. cbn zeta in Hrem.
      apply andb_true_iff in Hrem as [Hrl Hrl2]. apply unbound_none in Hrl. apply negb_true_iff, mem_str_false_in in Hrl2.
      set (rl := rem_len_name n) in *.
      assert (Hrl_rsp : rl <> D_RSP) by (intros E; apply Hrl2; left; congruence).
      assert (Hrl_ocrm : rl <> D_OCRM) by (intros E; apply Hrl2; right; left; congruence).
      assert (Hrl_i : rl <> D_LOOP) by (intros E; apply Hrl2; right; right; left; congruence).
      assert (Hrl_n : rl <> n) by (intros E; apply Hrl2; right; right; right; left; congruence).
      destruct (f_len f) eqn:El; cbn [d_len_expr] in Hc; try discriminate Hc. inversion Hc; subst core; clear Hc.
      rewrite dx_cons, dx_assign. cbn [PyStmtR.deval rbind]. unfold py_int_div. cbn [as_int].
      destruct (size =? 0).
      + exists L0. split; [reflexivity|]. split; [apply keep_refl|]. split; [exact Hinv | discriminate].
      + cbn [aliases]. set (q := truediv_int (r_remaining r) size). set (L1 := (rl, VInt q) :: L0).
        destruct (for_array_ok rec ctor f n d t (DVar rl) q L1 r Hni) as [L2 [Hx [He Hl]]].
        { intros L' r' He. cbn [PyStmtR.deval]. rewrite (He rl); [unfold L1; rewrite assoc_cons_eq; reflexivity|].
          intros [H|[H|[]]]; congruence. }
        exists L2. split; [exact Hx|].
        assert (He0 : extx [D_LOOP; n; rl] L0 L2).
        { eapply extx_trans; [apply (extx_cons _ L0 rl (VInt q)); right; right; left; reflexivity|].
          eapply extx_weaken; [|exact He]. intros x [<-|[<-|[]]]; [left | right; left]; reflexivity. }
        split; [|split; [|exact Hl]].
        * apply (keep_extx _ _ _ He0); intros [H|[H|[H|[]]]]; try discriminate H; congruence.
        * apply (inv_extx _ _ _ _ _ Hinv He0). intros x [<-|[<-|[<-|[]]]]; assumption.
    - (* while reader.remaining > 0 *)
      destruct (f_len f) eqn:El; cbn [d_len_expr] in Hc; try discriminate Hc. inversion Hc; subst core; clear Hc.
      destruct (while_array_ok rec ctor f n d L0 r) as [L2 [Hx [He Hl]]].
      exists L2. split; [exact Hx|]. split; [|split; [|exact Hl]].
      + apply (keep_extx _ _ _ He); intros [H|[]]; congruence.
      + apply (inv_extx _ _ _ _ _ Hinv He). intros x [<-|[]]. exact HT.
  Qed.

  (* ---- EArray ---- *)
  Lemma array_ok f d t count ss T L dl r :
    let i := EArray f d t count in
    d_render_instr i = Some ss -> instr_static_ok_d T i = true -> inv T L dl ->
    forall r' res, deser_instr rec start i dl r = (r', res) ->
    exists L', dexec_stmts ss L r = (r', lift res, L') /\ post T i L L' res.
  Proof.
    cbn zeta. cbn [d_render_instr instr_static_ok_d]. unfold post. cbn [instr_binds]. intros Hr Hst Hinv r' res.
    destruct (f_name f) as [n|] eqn:Hn; [|discriminate].
    destruct (array_core f n d t count) as [core|] eqn:Ec; [|discriminate]. inversion Hr; subst ss; clear Hr.
    apply andb_true_iff in Hst as [Hst Hrem]. apply andb_true_iff in Hst as [Hst Hloop]. apply andb_true_iff in Hst as [Hfresh Hlen].
    destruct (fresh_facts T n Hfresh) as [Hn1 [Hn2 HT]]. cbn [app].
    assert (Hd : deser_instr rec start (EArray f d t count) dl r =
                 if f_optional f && negb (r_remaining r >? 0) then (r, Ok (dl ++ [(n, VNone)])) else
                 let '(r1, v) := array_res f d t count dl r in
                 match v with Err e => (r1, Err e) | Ok l => (r1, Ok (dl ++ [(n, VList l)])) end).
    { cbn [deser_instr]. rewrite Hn. reflexivity. }
    rewrite Hd. clear Hd.
    assert (Hcore : forall L0, inv T L0 dl -> keep L L0 ->
              forall r' res, (let '(r1, v) := array_res f d t count dl r in
                              match v with Err e => (r1, Err e) | Ok l => (r1, Ok (dl ++ [(n, VList l)])) end) = (r', res) ->
              exists L', dexec_stmts core L0 r = (r', lift res, L') /\ keep L L' /\
                         match res with Ok dl' => inv ((n, KArr (f_optional f)) :: T) L' dl' | Err _ => True end).
    { intros L0 Hinv0 Hk0 r1' res1.
      destruct (array_core_ok f n d t count core T L0 dl r Ec HT Hn1 Hn2 Hlen Hloop Hrem Hinv0) as [L2 [Hx [Hk [Hi Hl]]]].
      rewrite Hx. destruct (array_res f d t count dl r) as [r1 [l|e]]; intro H; inversion H; subst.
      - exists L2. split; [reflexivity|]. split; [eapply keep_trans; eassumption|].
        apply inv_bind_at; [exact Hi | exact HT | apply (Hl r1' l eq_refl) | exact I].
      - exists L2. split; [reflexivity|]. split; [eapply keep_trans; eassumption | exact I]. }
    rewrite opt_wrap_ok. destruct (f_optional f) eqn:Eo; cbn [andb].
    - destruct (r_remaining r >? 0); cbn [negb].
      + apply Hcore; [apply inv_cons_unbound; assumption | apply keep_cons; assumption].
      + intro H; inversion H; subst. exists ((n, VNone) :: L). split; [reflexivity|]. split; [apply keep_cons; assumption|].
        apply inv_bind; [exact Hinv | exact HT | reflexivity].
    - apply Hcore; [exact Hinv | apply keep_refl].
  Qed.

  (* ---- all instructions ---- *)
  Theorem d_instr_ok i ss T L dl r :
    d_render_instr i = Some ss -> instr_static_ok_d T i = true -> inv T L dl -> assoc L D_RSP = Some (VInt start) ->
    forall r' res, deser_instr rec start i dl r = (r', res) ->
    exists L', dexec_stmts ss L r = (r', lift res, L') /\ post T i L L' res.
  Proof.
    destruct i as [f|f d t c|name t off optional opt_first ref_by|ty lit guarded|field cases|b|]; intros Hr Hst Hinv Hrsp r' res Hs.
    - eapply field_ok; eassumption.
    - eapply array_ok; eassumption.
    - eapply length_ok; eassumption.
    - eapply dummy_ok; eassumption.
    - eapply switch_ok; eassumption.
    - cbn [d_render_instr] in Hr. inversion Hr; subst ss. cbn [deser_instr] in Hs. inversion Hs; subst.
      exists L. rewrite dx_one, dx_set_mode. cbn [PyStmtR.deval]. split; [reflexivity|]. split; [apply keep_refl | exact Hinv].
    - cbn [d_render_instr] in Hr. inversion Hr; subst ss. cbn [deser_instr] in Hs.
      exists L. rewrite next_chunk_ok. destruct (r_next_chunk r) as [r1|e]; inversion Hs; subst;
        (split; [reflexivity|]); (split; [apply keep_refl|]); [exact Hinv | exact I].
  Qed.
End Instr2.

(* ---------------------------------------------------------------- the instruction list *)
Fixpoint tctx_after (T : tctx) (is : list einstr) : tctx :=
  match is with [] => T | i :: t => tctx_after (instr_binds i ++ T) t end.

Section Main.
  Variable rec : string -> rstate -> rstate * res value.
  Variable ctor : string -> list (string * value) -> res value.
  Notation dexec_stmts := (dexec_stmts rec ctor).
  Notation deval := (deval rec ctor).

  (* MAIN THEOREM (instruction list): the rendered statements compute deser_instrs *)
  Theorem render_deser_correct start is :
    forall ss T L dl r,
      render_deser is = Some ss ->
      static_ok_from T is = true ->
      inv T L dl ->
      assoc L D_RSP = Some (VInt start) ->
      forall r' res, deser_instrs rec start is dl r = (r', res) ->
      exists L', dexec_stmts ss L r = (r', lift res, L') /\ keep L L' /\
                 match res with Ok dl' => inv (tctx_after T is) L' dl' | Err _ => True end.
  Proof.
    induction is as [|i t IH]; intros ss T L dl r Hr Hst Hinv Hrsp r' res Hs.
    - cbn [render_deser] in Hr. inversion Hr; subst ss. cbn [deser_instrs] in Hs. inversion Hs; subst.
      exists L. split; [reflexivity|]. split; [apply keep_refl | exact Hinv].
    - cbn [render_deser] in Hr. destruct (d_render_instr i) as [a|] eqn:Ea; [|discriminate].
      destruct (render_deser t) as [b|] eqn:Eb; [|discriminate]. inversion Hr; subst ss; clear Hr.
      cbn [static_ok_from] in Hst. apply andb_true_iff in Hst as [Hst1 Hst2].
      cbn [deser_instrs] in Hs. destruct (deser_instr rec start i dl r) as [r1 res1] eqn:Ei.
      destruct (d_instr_ok rec ctor start i a T L dl r Ea Hst1 Hinv Hrsp r1 res1 Ei) as [L1 [Hx [Hk Hi]]].
      rewrite dx_app, Hx. destruct res1 as [dl1|e1]; cbn [lift].
      + destruct (IH b (instr_binds i ++ T) L1 dl1 r1 eq_refl Hst2 Hi) with (r' := r') (res := res) as [L2 [Hx2 [Hk2 Hi2]]].
        * destruct Hk as [Hk _]. rewrite Hk. exact Hrsp.
        * exact Hs.
        * exists L2. split; [exact Hx2|]. split; [eapply keep_trans; eassumption | exact Hi2].
      + inversion Hs; subst. exists L1. split; [reflexivity|]. split; [exact Hk | exact I].
  Qed.
End Main.

(* ---------------------------------------------------------------- the constructor call *)
Lemma lookup_args_ok L names :
  (forall n, In n names -> exists v, assoc L n = Some v) ->
  exists vs, lookup_args L (map (fun n => (n, n)) names) = Ok vs /\ map fst vs = names /\
             forall n, In n names -> assoc vs n = assoc L n.
Proof.
  induction names as [|n0 names IH]; intro H.
  - exists []. split; [reflexivity|]. split; [reflexivity | intros n []].
  - destruct (H n0 (or_introl eq_refl)) as [v0 Hv0]. destruct IH as [vs [Hl [Hm Ha]]]; [intros n Hn; apply H; right; exact Hn|].
    exists ((n0, v0) :: vs). cbn [map lookup_args]. rewrite Hv0, Hl. cbn [rbind fst]. split; [reflexivity|]. split; [f_equal; exact Hm|].
    intros n [<-|Hn].
    + rewrite assoc_cons_eq. symmetry. exact Hv0.
    + rewrite assoc_cons. destruct (String.eqb n0 n) eqn:E; [apply String.eqb_eq in E; subst; symmetry; exact Hv0 | apply Ha, Hn].
Qed.

Lemma strs_eqb_refl l : strs_eqb l l = true.
Proof. induction l as [|x l IH]; [reflexivity|]. cbn [strs_eqb]. rewrite String.eqb_refl. exact IH. Qed.

Lemma lit_value_err ty lit e : lit_value ty lit = Err e -> e = EUnexpected.
Proof.
  destruct ty; cbn [lit_value]; try (intro H; inversion H; reflexivity).
  - destruct (parse_int lit); [destruct (isdigit lit)|]; intro H; inversion H; reflexivity.
  - destruct (String.eqb lit "true"); [discriminate|]. destruct (String.eqb lit "false"); intro H; inversion H; reflexivity.
Qed.
Lemma build_fields_err is dl e : build_fields is dl = Err e -> e = EUnexpected.
Proof.
  revert e; induction is as [|i t IH]; intro e; cbn [build_fields]; [discriminate|].
  destruct (build_fields t dl) as [rest|e0]; cbn [rbind]; [|intro H; inversion H; subst; apply IH; reflexivity].
  destruct i as [f|f d tr c|? ? ? ? ? ?|? ? ?|field cases|?|]; try discriminate.
  - destruct (f_name f) as [n|]; [|discriminate]. destruct (f_hard f) as [lit|].
    + destruct (lit_value (f_ty f) lit) as [v|e1] eqn:El; cbn [rbind]; [discriminate|]. intro H; inversion H; subst. eapply lit_value_err, El.
    + destruct (assoc_last dl n None); [discriminate | intro H; inversion H; reflexivity].
  - destruct (f_name f) as [n|]; [|discriminate]. destruct (assoc_last dl n None); [discriminate | intro H; inversion H; reflexivity].
  - destruct (assoc_last dl _ None); [discriminate | intro H; inversion H; reflexivity].
Qed.
Lemma build_fields_names is dl flds : build_fields is dl = Ok flds -> map fst flds = public_names is.
Proof.
  revert flds; induction is as [|i t IH]; intro flds; cbn [build_fields]; [intro H; inversion H; reflexivity|].
  unfold public_names. cbn [flat_map]. fold (public_names t).
  destruct (build_fields t dl) as [rest|e0]; cbn [rbind]; [|discriminate]. specialize (IH rest eq_refl).
  destruct i as [f|f d tr c|? ? ? ? ? ?|? ? ?|field cases|?|]; cbn [instr_public app]; try (intro H; inversion H; subst; exact IH).
  - destruct (f_name f) as [n|]; [|intro H; inversion H; subst; exact IH]. destruct (f_hard f) as [lit|].
    + destruct (lit_value (f_ty f) lit) as [v|e1]; cbn [rbind]; [|discriminate]. intro H; inversion H; subst. cbn [map fst app]. f_equal. exact IH.
    + destruct (assoc_last dl n None); [|discriminate]. intro H; inversion H; subst. cbn [map fst app]. f_equal. exact IH.
  - destruct (f_name f) as [n|]; [|intro H; inversion H; subst; exact IH].
    destruct (assoc_last dl n None); [|discriminate]. intro H; inversion H; subst. cbn [map fst app]. f_equal. exact IH.
  - destruct (assoc_last dl _ None); [|discriminate]. intro H; inversion H; subst. cbn [map fst app]. f_equal. exact IH.
Qed.

(* the only static fact the constructor needs: a length attribute sits on a string field *)
Definition instr_shape (i : einstr) : Prop :=
  match i with EField f => f_len f = LNone \/ exists enc, f_ty f = EStr enc | _ => True end.
Lemma static_shape is : forall T, static_ok_from T is = true -> Forall instr_shape is.
Proof.
  induction is as [|i t IH]; intros T H; [constructor|]. cbn [static_ok_from] in H. apply andb_true_iff in H as [H1 H2].
  constructor; [|eapply IH; exact H2]. destruct i; try exact I. cbn [instr_static_ok_d] in H1. apply andb_true_iff in H1 as [_ H1].
  cbn [instr_shape]. destruct (f_len f); [left; reflexivity | |]; right; destruct (f_ty f); try discriminate H1; eauto.
Qed.
Lemma tctx_after_incl is : forall T b, In b T -> In b (tctx_after T is).
Proof. induction is as [|i t IH]; intros T b H; [exact H|]. cbn [tctx_after]. apply IH, in_or_app. right. exact H. Qed.
Lemma binds_in_after is : forall T i b, In i is -> In b (instr_binds i) -> In b (tctx_after T is).
Proof.
  induction is as [|i0 t IH]; intros T i b Hin Hb; [destruct Hin|]. destruct Hin as [<-|Hi]; cbn [tctx_after].
  - apply tctx_after_incl, in_or_app. left. exact Hb.
  - eapply IH; eassumption.
Qed.

(* the generated constructor, called with the locals, builds what Deser.v's build_fields builds *)
Lemma init_build is args dl :
  Forall instr_shape is ->
  (forall i n k, In i is -> In (n, k) (instr_binds i) -> In n (instr_public i) ->
                 exists v, assoc args n = Some v /\ assoc_last dl n None = Some v /\ kind_ok k v) ->
  init_fields is args = build_fields is dl.
Proof.
  induction is as [|i t IH]; intros Hsh H; [reflexivity|].
  inversion Hsh as [|i' t' Hsh1 Hsh2]; subst i' t'.
  assert (IHt : init_fields t args = build_fields t dl) by (apply IH; [exact Hsh2 | intros i0 n k Hi; apply H; right; exact Hi]).
  specialize (H i). cbn [init_fields build_fields]. rewrite IHt.
  destruct i as [f|f d tr c|? ? ? ? ? ?|? ? ?|field cases|?|]; try (destruct (build_fields t dl); reflexivity).
  - cbn [instr_binds instr_public instr_shape] in *. destruct (f_name f) as [n|]; [|destruct (build_fields t dl); reflexivity].
    destruct (H n _ (or_introl eq_refl) (or_introl eq_refl) (or_introl eq_refl)) as [v [H1 [H2 H3]]].
    assert (Hls : forall v0, (f_len f = LNone \/ (exists s, v0 = VStr s) \/ (v0 = VNone /\ f_optional f = true)) -> len_slot_check f v0 = Ok tt).
    { intros v0 Hv0. unfold len_slot_check. destruct (f_len f) eqn:El; try reflexivity.
      destruct Hv0 as [Hv0|[[s ->]|[-> ->]]]; [discriminate | rewrite andb_false_r; reflexivity | reflexivity]. }
    destruct (f_hard f) as [lit|].
    + destruct (lit_value (f_ty f) lit) as [v0|e0] eqn:Elit; cbn [rbind].
      * rewrite Hls; [cbn [rbind]; destruct (build_fields t dl); reflexivity|].
        destruct Hsh1 as [Hl|[enc Hty]]; [left; exact Hl|]. right. left. rewrite Hty in Elit. cbn [lit_value] in Elit. inversion Elit. eauto.
      * destruct (build_fields t dl) as [rest|e1] eqn:Eb; cbn [rbind]; [reflexivity|].
        rewrite (lit_value_err _ _ _ Elit), (build_fields_err _ _ _ Eb). reflexivity.
    + rewrite H1, H2. cbn [rbind]. rewrite Hls; [cbn [rbind]; destruct (build_fields t dl); reflexivity|].
      destruct Hsh1 as [Hl|[enc Hty]]; [left; exact Hl|]. rewrite Hty in H3. cbn [kind_ok] in H3.
      destruct v; try contradiction; [right; right; split; [reflexivity | exact H3] | right; left; eauto].
  - cbn [instr_binds instr_public] in *. destruct (f_name f) as [n|]; [|destruct (build_fields t dl); reflexivity].
    destruct (H n _ (or_introl eq_refl) (or_introl eq_refl) (or_introl eq_refl)) as [v [H1 [H2 H3]]].
    rewrite H1, H2. cbn [rbind kind_ok] in *. destruct v; try contradiction.
    + (* None: an absent optional array *)
      rewrite H3. cbn [andb is_none rbind]. unfold len_slot_check. rewrite H3. cbn [andb is_none].
      destruct (f_len f); cbn [rbind]; destruct (build_fields t dl); reflexivity.
    + rewrite andb_false_r. cbn [py_tuple rbind]. unfold len_slot_check. rewrite andb_false_r. cbn [py_len].
      destruct (f_len f); cbn [rbind]; destruct (build_fields t dl); reflexivity.
  - cbn [instr_binds instr_public] in *.
    destruct (H (field ++ "_data")%string KAny (or_introl eq_refl) (or_introl eq_refl) (or_introl eq_refl)) as [v [H1 [H2 H3]]].
    rewrite H1, H2. cbn [rbind]. destruct (build_fields t dl); reflexivity.
Qed.

Lemma set_byte_size_fresh flds v :
  mem_str "byte_size" (map fst flds) = false -> set_byte_size flds v = flds ++ [("byte_size", v)].
Proof.
  intro H. unfold set_byte_size. f_equal. induction flds as [|[k x] flds IH]; [reflexivity|].
  cbn [map fst mem_str] in H. apply orb_false_iff in H as [H1 H2]. cbn [filter fst].
  rewrite String.eqb_sym in H1. rewrite H1. cbn [negb]. f_equal. apply IH, H2.
Qed.

Lemma public_in_binds i n : In n (instr_public i) -> exists k, In (n, k) (instr_binds i).
Proof.
  destruct i as [f|f d tr c|? ? ? ? ? ?|? ? ?|field cases|?|]; cbn [instr_public instr_binds]; intro H; try (destruct H; fail).
  - destruct (f_name f); [|destruct H]. destruct H as [<-|[]]. eexists; left; reflexivity.
  - destruct (f_name f); [|destruct H]. destruct H as [<-|[]]. eexists; left; reflexivity.
  - destruct H as [<-|[]]. eexists; left; reflexivity.
Qed.

(* ---------------------------------------------------------------- the method body *)
Section Method.
  Variable rec : string -> rstate -> rstate * res value.
  Variable ctor : string -> list (string * value) -> res value.
  Notation dexec_stmts := (dexec_stmts rec ctor).

  Definition ret {A} (v : res A) (f : A -> value) : res outcome := match v with Ok x => Ok (OReturn (f x)) | Err e => Err e end.

  (* the arguments the emitted `deserialize` passes to the constructor: exactly the public names, in declaration order, each bound to
     a value of the kind its instruction reads (an array: a list, or None when optional; a string field: a str or None) *)
  Definition deser_args (is : list einstr) (args : list (string * value)) : Prop :=
    map fst args = public_names is /\
    forall i n k, In i is -> In (n, k) (instr_binds i) -> In n (instr_public i) -> exists v, assoc args n = Some v /\ kind_ok k v.
  (* Cls(..) is the generated constructor, as far as `deserialize` can tell *)
  Definition ctor_agrees (d : sdef) : Prop :=
    forall args, deser_args (sd_body d) args -> ctor (sd_name d) args = init_model (sd_name d) (sd_body d) args.

  (* MAIN THEOREM (method body): def deserialize(reader) of the class with definition `d` is deser_body, for every reader state
     and callee, provided Cls(..) is the generated constructor (on the arguments this method passes: `ctor_agrees`) *)
  Theorem render_deserialize_correct_gen d ss r :
    render_deserialize (sd_name d) (sd_body d) = Some ss ->
    static_ok_d (sd_body d) = true ->
    ctor_agrees d ->
    exists L', dexec_stmts ss [] r = (let '(r', v) := deser_body rec d r in (r', ret v (fun x => x), L')).
  Proof.
    unfold render_deserialize, static_ok_d. destruct (render_deser (sd_body d)) as [body|] eqn:Eb; [|discriminate].
    intros Hr Hst Hctor. inversion Hr; subst ss; clear Hr. apply andb_true_iff in Hst as [Hst Hbs]. apply negb_true_iff in Hbs.
    rewrite dx_cons, dx_assign. cbn [PyStmtR.deval aliases]. set (old := rchunked r). set (L0 := [(D_OCRM, VBool old)]).
    rewrite dx_one, dx_try. cbn [app]. rewrite dx_cons, dx_assign. cbn [PyStmtR.deval aliases].
    set (L1 := (D_RSP, VInt (rpos r)) :: L0).
    assert (Hrsp1 : assoc L1 D_RSP = Some (VInt (rpos r))) by apply assoc_cons_eq.
    assert (Hocrm1 : assoc L1 D_OCRM = Some (VBool old)) by reflexivity.
    unfold deser_body. fold old. destruct (deser_instrs rec (rpos r) (sd_body d) [] r) as [r1 res] eqn:Ei.
    destruct (render_deser_correct rec ctor (rpos r) (sd_body d) body [] L1 [] r Eb Hst) with (r' := r1) (res := res)
      as [L2 [Hx [[Hk1 Hk2] Hi]]]; [intros n k [] | exact Hrsp1 | exact Ei |].
    rewrite dx_app, Hx.
    (* the finally block, from any locals that kept old_chunked_reading_mode *)
    assert (Hfin : forall L r0, assoc L D_OCRM = Some (VBool old) ->
                                dexec_stmts [DSSetMode (DVar D_OCRM)] L r0 = (r_set_chunked r0 old, Ok ONormal, L)).
    { intros L r0 HL. rewrite dx_one, dx_set_mode. cbn [PyStmtR.deval]. rewrite HL. reflexivity. }
    destruct res as [dl|e]; cbn [lift].
    2:{ rewrite Hfin by (rewrite Hk2; exact Hocrm1). exists L2. reflexivity. }
    (* every public name is bound, to the same value on both sides *)
    assert (Hpub : forall i n k, In i (sd_body d) -> In (n, k) (instr_binds i) ->
                                 exists v, assoc L2 n = Some v /\ assoc_last dl n None = Some v /\ kind_ok k v).
    { intros i n k Hin Hb. apply Hi. eapply binds_in_after; eassumption. }
    destruct (lookup_args_ok L2 (public_names (sd_body d))) as [vs [Hlook [Hnames Hvs]]].
    { intros n Hn. unfold public_names in Hn. apply in_flat_map in Hn as [i [Hin Hn]].
      destruct (public_in_binds i n Hn) as [k Hb]. destruct (Hpub i n k Hin Hb) as [v [Hv _]]. eauto. }
    assert (Hinit : init_fields (sd_body d) vs = build_fields (sd_body d) dl).
    { apply init_build; [eapply static_shape; exact Hst|]. intros i n k Hin Hb Hp.
      destruct (Hpub i n k Hin Hb) as [v [H1 [H2 H3]]]. exists v. split; [|split; assumption].
      rewrite Hvs; [exact H1|]. unfold public_names. apply in_flat_map. exists i. split; assumption. }
    unfold method_tail. rewrite dx_cons, dx_assign. cbn [PyStmtR.deval]. rewrite Hlook. cbn [rbind].
    rewrite Hctor.
    2:{ split; [exact Hnames|]. intros i n k Hin Hb Hp. destruct (Hpub i n k Hin Hb) as [v [H1 [_ H3]]]. exists v. split; [|exact H3].
        rewrite Hvs; [exact H1|]. unfold public_names. apply in_flat_map. exists i. split; assumption. }
    unfold init_model. rewrite Hnames, strs_eqb_refl, Hinit.
    destruct (build_fields (sd_body d) dl) as [flds|e] eqn:Ebf; cbn [rbind].
    2:{ rewrite Hfin by (rewrite Hk2; exact Hocrm1). exists L2. reflexivity. }
    cbn [aliases]. set (obj := VObj (sd_name d) flds). set (L3 := (D_RESULT, obj) :: L2).
    rewrite dx_cons, dx_set_byte_size. cbn [PyStmtR.deval].
    assert (Hrsp3 : assoc L3 D_RSP = Some (VInt (rpos r))) by (unfold L3; rewrite assoc_cons_ne by discriminate; rewrite Hk1; exact Hrsp1).
    assert (Hres3 : assoc L3 D_RESULT = Some obj) by apply assoc_cons_eq.
    rewrite Hrsp3. cbn [rbind py_bin as_int]. rewrite Hres3. unfold obj at 1.
    rewrite set_byte_size_fresh by (rewrite (build_fields_names _ _ _ Ebf); exact Hbs).
    match goal with |- context [(D_RESULT, ?v) :: L3] =>
      set (L4 := (D_RESULT, v) :: L3); assert (Hres4 : assoc L4 D_RESULT = Some v) by apply assoc_cons_eq end.
    rewrite dx_one, dx_return. cbn [PyStmtR.deval]. rewrite Hres4.
    rewrite Hfin.
    - exists L4. reflexivity.
    - unfold L4, L3. rewrite !assoc_cons_ne by discriminate. rewrite Hk2. exact Hocrm1.
  Qed.

  Theorem render_deserialize_correct d ss r :
    render_deserialize (sd_name d) (sd_body d) = Some ss ->
    static_ok_d (sd_body d) = true ->
    (forall args, ctor (sd_name d) args = init_model (sd_name d) (sd_body d) args) ->
    exists L', dexec_stmts ss [] r = (let '(r', v) := deser_body rec d r in (r', ret v (fun x => x), L')).
  Proof. intros Hr Hst Hc. apply render_deserialize_correct_gen; [exact Hr | exact Hst | intros args _; apply Hc]. Qed.

  (* ... as a function call *)
  Corollary render_deserialize_call_gen d ss r :
    render_deserialize (sd_name d) (sd_body d) = Some ss ->
    static_ok_d (sd_body d) = true ->
    ctor_agrees d ->
    dcall rec ctor ss r = deser_body rec d r.
  Proof.
    intros Hr Hst Hc. unfold dcall. destruct (render_deserialize_correct_gen d ss r Hr Hst Hc) as [L' Hx]. rewrite Hx.
    destruct (deser_body rec d r) as [r' [v|e]]; reflexivity.
  Qed.
  Corollary render_deserialize_call d ss r :
    render_deserialize (sd_name d) (sd_body d) = Some ss ->
    static_ok_d (sd_body d) = true ->
    (forall args, ctor (sd_name d) args = init_model (sd_name d) (sd_body d) args) ->
    dcall rec ctor ss r = deser_body rec d r.
  Proof. intros Hr Hst Hc. apply render_deserialize_call_gen; [exact Hr | exact Hst | intros args _; apply Hc]. Qed.
End Method.

(* ---------------------------------------------------------------- soundness of the executable comparison *)
Lemma d_cmpop_eqb_eq a b : cmpop_eqb a b = true -> a = b.
Proof. destruct a, b; simpl; congruence. Qed.
Lemma d_binop_eqb_eq a b : binop_eqb a b = true -> a = b.
Proof. destruct a, b; simpl; congruence. Qed.
Lemma rmeth_eqb_eq a b : rmeth_eqb a b = true -> a = b.
Proof. destruct a, b; simpl; congruence. Qed.
Lemma args_eqb_eq a : forall b, args_eqb a b = true -> a = b.
Proof.
  induction a as [|[k x] a IH]; intros [|[k' x'] b] H; cbn [args_eqb] in H; try discriminate H; [reflexivity|].
  apply andb_true_iff in H as [H H3]. apply andb_true_iff in H as [H1 H2].
  apply String.eqb_eq in H1, H2. subst. f_equal. apply IH, H3.
Qed.

Ltac d_eqb_split :=
  repeat match goal with
         | H : _ && _ = true |- _ => apply andb_true_iff in H as [? ?]
         end;
  repeat match goal with
         | H : String.eqb _ _ = true |- _ => apply String.eqb_eq in H
         | H : Bool.eqb _ _ = true |- _ => apply Bool.eqb_prop in H
         | H : (_ =? _) = true |- _ => apply Z.eqb_eq in H
         | H : cmpop_eqb _ _ = true |- _ => apply d_cmpop_eqb_eq in H
         | H : binop_eqb _ _ = true |- _ => apply d_binop_eqb_eq in H
         | H : rmeth_eqb _ _ = true |- _ => apply rmeth_eqb_eq in H
         | H : args_eqb _ _ = true |- _ => apply args_eqb_eq in H
         end.

Lemma dexpr_eqb_eq a : forall b, dexpr_eqb a b = true -> a = b.
Proof.
  induction a; intros e' H; destruct e'; cbn [dexpr_eqb] in H; try discriminate H; d_eqb_split;
    repeat match goal with
           | IH : forall b, dexpr_eqb ?a b = true -> ?a = b, H : dexpr_eqb ?a _ = true |- _ => apply IH in H
           end; subst; reflexivity.
Qed.

Lemma dstmts_eqb_unfold a b :
  (fix eqs (l1 l2 : list dstmt) {struct l1} : bool :=
     match l1, l2 with
     | [], [] => true
     | x :: t1, y :: t2 => dstmt_eqb x y && eqs t1 t2
     | _, _ => false
     end) a b = dstmts_eqb a b.
Proof. revert b; induction a as [|x a IH]; intros [|y b]; cbn; try reflexivity; try (rewrite IH; reflexivity). Qed.

Fixpoint dstmt_eqb_eq (a : dstmt) {struct a} : forall b, dstmt_eqb a b = true -> a = b.
Proof.
  assert (Hl : forall l, (forall x, In x l -> forall y, dstmt_eqb x y = true -> x = y) -> forall l', dstmts_eqb l l' = true -> l = l').
  { induction l as [|x l IHl]; intros Hin [|y l'] H; cbn [dstmts_eqb] in H; try discriminate H; [reflexivity|].
    apply andb_true_iff in H as [H1 H2]. f_equal; [apply Hin; [left; reflexivity | exact H1] | apply IHl; [intros; apply Hin; [right; assumption | assumption] | exact H2]]. }
  destruct a; intros s' H; destruct s'; cbn [dstmt_eqb] in H; try discriminate H; rewrite ?dstmts_eqb_unfold in H; d_eqb_split;
    repeat match goal with
           | H : dexpr_eqb _ _ = true |- _ => apply dexpr_eqb_eq in H
           end; subst; try reflexivity.
  - f_equal; (apply Hl; [|assumption]).
    + clear -dstmt_eqb_eq. induction th as [|s th IH]; intros x Hin; [destruct Hin | destruct Hin as [<-|Hin]; [apply dstmt_eqb_eq | apply IH, Hin]].
    + clear -dstmt_eqb_eq. induction el as [|s el IH]; intros x Hin; [destruct Hin | destruct Hin as [<-|Hin]; [apply dstmt_eqb_eq | apply IH, Hin]].
  - f_equal. apply Hl; [|assumption].
    clear -dstmt_eqb_eq. induction body as [|s body IH]; intros x Hin; [destruct Hin | destruct Hin as [<-|Hin]; [apply dstmt_eqb_eq | apply IH, Hin]].
  - f_equal. apply Hl; [|assumption].
    clear -dstmt_eqb_eq. induction body as [|s body IH]; intros x Hin; [destruct Hin | destruct Hin as [<-|Hin]; [apply dstmt_eqb_eq | apply IH, Hin]].
  - f_equal; (apply Hl; [|assumption]).
    + clear -dstmt_eqb_eq. induction body as [|s body IH]; intros x Hin; [destruct Hin | destruct Hin as [<-|Hin]; [apply dstmt_eqb_eq | apply IH, Hin]].
    + clear -dstmt_eqb_eq. induction fin as [|s fin IH]; intros x Hin; [destruct Hin | destruct Hin as [<-|Hin]; [apply dstmt_eqb_eq | apply IH, Hin]].
Qed.

Lemma dstmts_eqb_eq l : forall l', dstmts_eqb l l' = true -> l = l'.
Proof.
  induction l as [|x l IH]; intros [|y l'] H; cbn [dstmts_eqb] in H; try discriminate H; [reflexivity|].
  apply andb_true_iff in H as [H1 H2]. f_equal; [apply dstmt_eqb_eq, H1 | apply IH, H2].
Qed.

(* replacing Enum.Member by its integer value does not change what the statements do *)
Section Erase.
  Variable rec : string -> rstate -> rstate * res value.
  Variable ctor : string -> list (string * value) -> res value.
  Notation dexec_stmt := (dexec_stmt rec ctor).
  Notation dexec_stmts := (dexec_stmts rec ctor).
  Notation deval := (deval rec ctor).

  Lemma d_erase_e_ok L e : forall r, deval L (d_erase_e e) r = deval L e r.
  Proof.
    induction e; intro r; cbn [d_erase_e PyStmtR.deval]; try reflexivity;
      repeat match goal with H : forall r, deval _ (d_erase_e _) r = _ |- _ => rewrite H; clear H end; try reflexivity.
    - destruct (deval L e1 r) as [r1 [x|er]]; [rewrite IHe2|]; reflexivity.
    - destruct (deval L e1 r) as [r1 [x|er]]; [rewrite IHe2|]; reflexivity.
    - destruct (deval L e1 r) as [r1 [x|er]]; [rewrite IHe2|]; reflexivity.
  Qed.
  Lemma d_erase_alias e v : aliases (d_erase_e e) v = aliases e v.
  Proof. destruct e; reflexivity. Qed.

  Lemma dexec_for_ext x b1 b2 :
    (forall L r, dexec_stmts b1 L r = dexec_stmts b2 L r) ->
    forall k i L r, dexec_for rec ctor x b1 k i L r = dexec_for rec ctor x b2 k i L r.
  Proof.
    intros Hb. induction k as [|k IH]; intros i L r; cbn [dexec_for]; [reflexivity|].
    rewrite Hb. destruct (dexec_stmts b2 ((x, VInt i) :: L) r) as [[r1 [[|v]|e]] L1]; [apply IH | reflexivity | reflexivity].
  Qed.
  Lemma dexec_while_ext c1 c2 b1 b2 :
    (forall L r, deval L c1 r = deval L c2 r) ->
    (forall L r, dexec_stmts b1 L r = dexec_stmts b2 L r) ->
    forall k L r, dexec_while rec ctor c1 b1 k L r = dexec_while rec ctor c2 b2 k L r.
  Proof.
    intros Hc Hb. induction k as [|k IH]; intros L r; cbn [dexec_while]; rewrite Hc; [reflexivity|].
    destruct (deval L c2 r) as [r1 [v|e]]; [|reflexivity]. destruct (py_truth v); [|reflexivity].
    rewrite Hb. destruct (dexec_stmts b2 L r1) as [[r2 [[|v2]|e]] L2]; [apply IH | reflexivity | reflexivity].
  Qed.

  Fixpoint d_erase_s_ok (s : dstmt) {struct s} : forall L r, dexec_stmt (d_erase_s s) L r = dexec_stmt s L r.
  Proof.
    assert (Hl : forall l, (forall x, In x l -> forall L r, dexec_stmt (d_erase_s x) L r = dexec_stmt x L r) ->
                           forall L r, dexec_stmts (map d_erase_s l) L r = dexec_stmts l L r).
    { induction l as [|x l IHl]; intros Hin L r; [reflexivity|]. cbn [map]. rewrite !dx_cons, Hin by (left; reflexivity).
      destruct (dexec_stmt x L r) as [[r1 [[|v]|e]] L1]; try reflexivity. apply IHl. intros; apply Hin; right; assumption. }
    assert (Hin : forall l, (forall x, In x l -> forall L r, dexec_stmt (d_erase_s x) L r = dexec_stmt x L r) -> True) by auto.
    destruct s; intros L r; cbn [d_erase_s].
    - rewrite !dx_assign, d_erase_e_ok. destruct (deval L e r) as [r1 [v|er]]; [rewrite d_erase_alias|]; reflexivity.
    - rewrite !dx_expr, d_erase_e_ok. reflexivity.
    - rewrite !dx_append. destruct (assoc L x) as [[| | | | |l|]|]; try reflexivity.
      rewrite d_erase_e_ok. destruct (deval L e r) as [r1 [v|er]]; [rewrite d_erase_alias|]; reflexivity.
    - rewrite !dx_if, d_erase_e_ok. destruct (deval L c r) as [r1 [v|er]]; [|reflexivity].
      destruct (py_truth v); apply Hl.
      + clear -d_erase_s_ok. induction th as [|s th IH]; intros x Hx; [destruct Hx | destruct Hx as [<-|Hx]; [apply d_erase_s_ok | apply IH, Hx]].
      + clear -d_erase_s_ok. induction el as [|s el IH]; intros x Hx; [destruct Hx | destruct Hx as [<-|Hx]; [apply d_erase_s_ok | apply IH, Hx]].
    - rewrite !dx_for, d_erase_e_ok. destruct (deval L e r) as [r1 [v|er]]; [|reflexivity]. destruct (as_int v); [|reflexivity].
      apply dexec_for_ext. apply Hl.
      clear -d_erase_s_ok. induction body as [|s body IH]; intros y Hx; [destruct Hx | destruct Hx as [<-|Hx]; [apply d_erase_s_ok | apply IH, Hx]].
    - rewrite !dx_while. apply dexec_while_ext; [intros; apply d_erase_e_ok|]. apply Hl.
      clear -d_erase_s_ok. induction body as [|s body IH]; intros y Hx; [destruct Hx | destruct Hx as [<-|Hx]; [apply d_erase_s_ok | apply IH, Hx]].
    - reflexivity.
    - rewrite !dx_set_mode, d_erase_e_ok. reflexivity.
    - rewrite !dx_set_byte_size, d_erase_e_ok. reflexivity.
    - rewrite !dx_return, d_erase_e_ok. reflexivity.
    - rewrite !dx_try.
      rewrite (Hl body).
      2:{ clear -d_erase_s_ok. induction body as [|s body IH]; intros y Hx; [destruct Hx | destruct Hx as [<-|Hx]; [apply d_erase_s_ok | apply IH, Hx]]. }
      destruct (dexec_stmts body L r) as [[r1 o1] L1]. rewrite (Hl fin); [reflexivity|].
      clear -d_erase_s_ok. induction fin as [|s fin IH]; intros y Hx; [destruct Hx | destruct Hx as [<-|Hx]; [apply d_erase_s_ok | apply IH, Hx]].
  Qed.

  Lemma d_erase_stmts_ok l L r : dexec_stmts (map d_erase_s l) L r = dexec_stmts l L r.
  Proof.
    revert L r; induction l as [|x l IH]; intros L r; [reflexivity|]. cbn [map]. rewrite !dx_cons, d_erase_s_ok.
    destruct (dexec_stmt x L r) as [[r1 [[|v]|e]] L1]; [apply IH | reflexivity | reflexivity].
  Qed.
End Erase.

Lemma d_render_class_inv enums d ss :
  d_render_class enums d ss = [] ->
  exists rs, render_deserialize (sd_name d) (sd_body d) = Some rs /\ map d_erase_s ss = rs /\ static_ok_d (sd_body d) = true.
Proof.
  unfold d_render_class. destruct (negb (forallb (d_consts_s enums) ss)); [discriminate|].
  destruct (render_deserialize (sd_name d) (sd_body d)) as [rs|]; [|discriminate].
  destruct (dstmts_eqb (map d_erase_s ss) rs) eqn:Eq; [|discriminate].
  destruct (static_ok_d (sd_body d)); [|discriminate]. intros _. exists rs. apply dstmts_eqb_eq in Eq. auto.
Qed.

(* what a clean run of the harness check (Model/RenderCheckD.d_render_class = []) on a class gives: the statements PARSED FROM THE
   SOURCE TEXT of its deserialize method, called as a function, compute deser_body - for every reader state and callee *)
Theorem checked_class_correct_d_gen rec ctor enums d parsed_stmts r :
  d_render_class enums d parsed_stmts = [] ->
  ctor_agrees ctor d ->
  dcall rec ctor parsed_stmts r = deser_body rec d r.
Proof.
  intros Hrc Hctor. destruct (d_render_class_inv enums d parsed_stmts Hrc) as [rs [Hrs [Her Hst]]].
  rewrite <- (render_deserialize_call_gen rec ctor d rs r Hrs Hst Hctor). unfold dcall.
  rewrite <- Her, d_erase_stmts_ok. reflexivity.
Qed.
Theorem checked_class_correct_d rec ctor enums d parsed_stmts r :
  d_render_class enums d parsed_stmts = [] ->
  (forall args, ctor (sd_name d) args = init_model (sd_name d) (sd_body d) args) ->
  dcall rec ctor parsed_stmts r = deser_body rec d r.
Proof. intros Hrc Hctor. apply (checked_class_correct_d_gen rec ctor enums); [exact Hrc | intros args _; apply Hctor]. Qed.

(* ---------------------------------------------------------------- the class-level function: deser_struct *)
Section Ext.
  Variable rec1 rec2 : string -> rstate -> rres value.
  Hypothesis Hrec : forall cls r, rec1 cls r = rec2 cls r.

  Lemma deser_value_ext ty len p off r : deser_value rec1 ty len p off r = deser_value rec2 ty len p off r.
  Proof. destruct ty; try reflexivity. cbn [deser_value]. apply Hrec. Qed.
  Lemma deser_for_ext ty d t : forall k i n acc r, deser_for rec1 ty d t k i n acc r = deser_for rec2 ty d t k i n acc r.
  Proof.
    induction k as [|k IH]; intros i n acc r; cbn [deser_for]; [reflexivity|]. rewrite deser_value_ext.
    destruct (deser_value rec2 ty None false 0 r) as [r1 [x|e]]; [|reflexivity].
    destruct (d && (t || (i + 1 <? n))); [destruct (r_next_chunk r1); [apply IH | reflexivity] | apply IH].
  Qed.
  Lemma deser_while_ext ty d : forall fuel acc r, deser_while rec1 ty d fuel acc r = deser_while rec2 ty d fuel acc r.
  Proof.
    induction fuel as [|fuel IH]; intros acc r; cbn [deser_while]; [reflexivity|].
    destruct (r_remaining r >? 0); [|reflexivity]. rewrite deser_value_ext.
    destruct (deser_value rec2 ty None false 0 r) as [r1 [x|e]]; [|reflexivity].
    destruct d; [destruct (r_next_chunk r1); [apply IH | reflexivity] | apply IH].
  Qed.
  Lemma deser_instr_ext start i dl r : deser_instr rec1 start i dl r = deser_instr rec2 start i dl r.
  Proof.
    destruct i as [f|f d t c|? ? ? ? ? ?|ty lit guarded|field cases|?|]; cbn [deser_instr]; try reflexivity.
    - destruct (f_optional f && negb (r_remaining r >? 0)); [reflexivity|]. destruct (Deser.len_expr f dl); [|reflexivity].
      rewrite deser_value_ext. reflexivity.
    - destruct (f_name f); [|reflexivity]. destruct (f_optional f && negb (r_remaining r >? 0)); [reflexivity|].
      destruct c; [destruct (Deser.len_expr f dl) as [[n|]|]; try reflexivity; rewrite deser_for_ext; reflexivity
                  | match goal with |- context [?s =? 0] => destruct (s =? 0) end; [reflexivity | rewrite deser_for_ext; reflexivity]
                  | rewrite deser_while_ext; reflexivity].
    - destruct (guarded && negb (rpos r =? start)); [reflexivity|]. rewrite deser_value_ext. reflexivity.
    - match goal with |- context [find_case cases ?z] => destruct (find_case cases z) as [c|] end; [|reflexivity].
      destruct (c_cls c); [|reflexivity]. rewrite Hrec. reflexivity.
  Qed.
  Lemma deser_instrs_ext start is : forall dl r, deser_instrs rec1 start is dl r = deser_instrs rec2 start is dl r.
  Proof.
    induction is as [|i t IH]; intros dl r; [reflexivity|]. cbn [deser_instrs]. rewrite deser_instr_ext.
    destruct (deser_instr rec2 start i dl r) as [r1 [l|e]]; [apply IH | reflexivity].
  Qed.
  Lemma deser_body_ext d r : deser_body rec1 d r = deser_body rec2 d r.
  Proof. unfold deser_body. rewrite deser_instrs_ext. reflexivity. Qed.
End Ext.

Lemma flat_map_nil {A B} (f : A -> list B) l : flat_map f l = [] -> forall x, In x l -> f x = [].
Proof.
  induction l as [|a l IH]; cbn [flat_map]; intros H x Hx; [destruct Hx|].
  apply app_eq_nil in H as [H1 H2]. destruct Hx as [<-|Hx]; [exact H1 | apply IH; assumption].
Qed.
Lemma env_find_in E cls d : env_find E cls = Some d -> In d E /\ sd_name d = cls.
Proof.
  induction E as [|d0 E IH]; cbn [env_find]; [discriminate|].
  destruct (String.eqb (sd_name d0) cls) eqn:En.
  - intro H; inversion H; subst. split; [left; reflexivity | apply String.eqb_eq, En].
  - intro H. destruct (IH H) as [Hi Hn]. split; [right; exact Hi | exact Hn].
Qed.

Section ClassLevel.
  Variable E : env.                                   (* the model's classes *)
  Variable enums : list penum.
  Variable P : dparsed.                               (* the program: class name -> statements parsed from its deserialize method *)

  (* Cls(kw=.., ..): the generated constructor of class cls *)
  Definition ctor_of (cls : string) (args : list (string * value)) : res value :=
    match env_find E cls with
    | Some d => init_model cls (sd_body d) args
    | None => Err EUnexpected
    end.

  (* Cls.deserialize(reader) in the program P: look the class up, call its statements; callee = the same function
     (fuel = nesting depth of the calls, as in deser_struct) *)
  Fixpoint py_deserialize (fuel : nat) (cls : string) (r : rstate) : rres value :=
    match fuel with
    | O => (r, Err EFuel)
    | S f => match assoc P cls with
             | None => (r, Err EAttribute)
             | Some ss => dcall (py_deserialize f) ctor_of ss r
             end
    end.

  (* what a clean harness run establishes about the program (render_detail_d = [], lemma render_detail_d_program below) *)
  Definition program_ok_d : Prop :=
    forall cls, match env_find E cls with
                | Some d => exists ss, assoc P cls = Some ss /\ d_render_class enums d ss = []
                | None => assoc P cls = None
                end.

  (* MAIN THEOREM (class level): the program parsed from the generated text computes deser_struct, on every reader state *)
  Theorem py_deserialize_correct :
    program_ok_d ->
    forall fuel cls r, py_deserialize fuel cls r = deser_struct fuel E cls r.
  Proof.
    intro HP. induction fuel as [|f IH]; intros cls r; [reflexivity|].
    cbn [py_deserialize deser_struct]. specialize (HP cls).
    destruct (env_find E cls) as [d|] eqn:Ef; [|rewrite HP; reflexivity].
    destruct HP as [ss [HPc Hrc]]. rewrite HPc.
    destruct (env_find_in _ _ _ Ef) as [_ Hn].
    rewrite (checked_class_correct_d (py_deserialize f) ctor_of enums d ss r Hrc).
    - apply deser_body_ext. exact IH.
    - intro args. unfold ctor_of. rewrite Hn, Ef. reflexivity.
  Qed.
End ClassLevel.

(* a clean run of the harness check on a tree gives program_ok_d for the elaborated package *)
Theorem render_detail_d_program files P p :
  elab files = Ok p -> render_detail_d files P = [] -> program_ok_d (pk_env p) (pk_enums p) P.
Proof.
  intros He Hd. unfold render_detail_d in Hd. rewrite He in Hd.
  apply app_eq_nil in Hd as [HA Hd]. apply app_eq_nil in Hd as [HB _].
  intro cls. destruct (env_find (pk_env p) cls) as [d|] eqn:Ef.
  - destruct (env_find_in _ _ _ Ef) as [Hin Hn]. pose proof (flat_map_nil _ _ HA d Hin) as Hx. cbv beta in Hx. rewrite Hn in Hx.
    destruct (assoc P cls) as [ss|]; [|discriminate Hx]. exists ss. split; [reflexivity | exact Hx].
  - destruct (assoc P cls) as [ss|] eqn:Ea; [|reflexivity]. apply assoc_in in Ea.
    pose proof (flat_map_nil _ _ HB (cls, ss) Ea) as Hx. cbn [fst] in Hx. rewrite Ef in Hx. discriminate Hx.
Qed.

(* ... and the whole deserialization from bytes: a fresh reader, entered in the given mode *)
Corollary py_deserialize_bytes E enums P cls data (chunked : bool) :
  program_ok_d E enums P ->
  py_deserialize E P (S (List.length E)) cls (let r := initR data in if chunked then r_set_chunked r true else r)
  = deserialize E cls data chunked.
Proof. intro HP. unfold deserialize. apply (py_deserialize_correct E enums P HP). Qed.

(* ---------------------------------------------------------------- where Deser.v and the emitted code differ *)
(* Inputs outside `static_ok_d` on which the reference semantics and the interpreter run on the rendered statements give
   different answers.  `drec0`: a callee that reads nothing.  The first five are FINDINGS ABOUT THE REAL GENERATOR: it accepts the
   tree and the generated class behaves as the rendered statements do, not as Deser.v says (checked on the real generated classes
   LoopVar, RemLen, StartPos, OldMode, ByteSize: tools/render_name_collisions.py). *)
Definition drec0 : string -> rstate -> rres value := fun _ r => (r, Ok VNone).
Definition run_rendered_d (is : list einstr) (data : list Z) : option (res value) :=
  match render_deserialize "D" is with
  | Some ss => Some (snd (dcall drec0 (fun c args => init_model c is args) ss (initR data)))
  | None => None
  end.
Definition run_model_d (is : list einstr) (data : list Z) : res value := snd (deser_body drec0 (mkSDef "D" is) (initR data)).
Definition fld (n : string) (ty : etype) : fieldspec := mkField (Some n) ty LNone false false true None 0.

(* 1. FINDING: a field named `i` read before an array that is read with `for i in range(..)`: the loop variable overwrites it.
      struct LoopVar { char i; char xs[2] } on bytes [8, 3, 4]: the generated class answers i = 1. *)
Example loop_variable_differs :
  let body := [EField (fld "i" (EInt TChar)); EArray (mkField (Some "xs") (EInt TChar) (LLit 2) false false true None 0) false false ACExpr] in
  static_ok_d body = false /\
  run_rendered_d body [8; 3; 4] = Some (Ok (VObj "D" [("i", VInt 1); ("xs", VList [VInt 2; VInt 3]); ("byte_size", VInt 3)])) /\
  run_model_d body [8; 3; 4] = Ok (VObj "D" [("i", VInt 7); ("xs", VList [VInt 2; VInt 3]); ("byte_size", VInt 3)]).
Proof. repeat split; vm_compute; reflexivity. Qed.

(* 2. FINDING: a field named `<array>_length` read before the array whose count is `int(reader.remaining / size)`.
      struct RemLen { char xs_length; char xs[] } on bytes [8, 3, 4]: the generated class answers xs_length = 2. *)
Example remaining_length_variable_differs :
  let body := [EField (fld "xs_length" (EInt TChar)); EArray (fld "xs" (EInt TChar)) false false (ACRemaining 1)] in
  static_ok_d body = false /\
  run_rendered_d body [8; 3; 4] = Some (Ok (VObj "D" [("xs_length", VInt 2); ("xs", VList [VInt 2; VInt 3]); ("byte_size", VInt 3)])) /\
  run_model_d body [8; 3; 4] = Ok (VObj "D" [("xs_length", VInt 7); ("xs", VList [VInt 2; VInt 3]); ("byte_size", VInt 3)]).
Proof. repeat split; vm_compute; reflexivity. Qed.

(* 3. FINDING: a field named `reader_start_position`: byte_size is computed from the field's value (and guarded dummies test it).
      struct StartPos { char reader_start_position; char b } on bytes [8, 3]: the generated class answers byte_size = -5. *)
Example start_position_variable_differs :
  let body := [EField (fld "reader_start_position" (EInt TChar)); EField (fld "b" (EInt TChar))] in
  static_ok_d body = false /\
  run_rendered_d body [8; 3] = Some (Ok (VObj "D" [("reader_start_position", VInt 7); ("b", VInt 2); ("byte_size", VInt (-5))])) /\
  run_model_d body [8; 3] = Ok (VObj "D" [("reader_start_position", VInt 7); ("b", VInt 2); ("byte_size", VInt 2)]).
Proof. repeat split; vm_compute; reflexivity. Qed.

(* 4. FINDING: a field named `old_chunked_reading_mode`: the finally block assigns the field's value to
      reader.chunked_reading_mode (struct OldMode on bytes [8, 3]: the reader is left with chunked_reading_mode = 7, truthy;
      an int there is outside the modelled fragment: EUnexpected). *)
Example old_mode_variable_differs :
  let body := [EField (fld "old_chunked_reading_mode" (EInt TChar)); EField (fld "b" (EInt TChar))] in
  static_ok_d body = false /\
  run_rendered_d body [8; 3] = Some (Err EUnexpected) /\
  run_model_d body [8; 3] = Ok (VObj "D" [("old_chunked_reading_mode", VInt 7); ("b", VInt 2); ("byte_size", VInt 2)]).
Proof. repeat split; vm_compute; reflexivity. Qed.

(* 5. FINDING: a field named `byte_size`: `result._byte_size = ..` overwrites it (struct ByteSize { char byte_size; char b } on
      bytes [8, 3]: the generated class answers byte_size = 2 and the field's value 7 is gone). *)
Example byte_size_field_differs :
  let body := [EField (fld "byte_size" (EInt TChar)); EField (fld "b" (EInt TChar))] in
  static_ok_d body = false /\
  run_rendered_d body [8; 3] = Some (Ok (VObj "D" [("b", VInt 2); ("byte_size", VInt 2)])) /\
  run_model_d body [8; 3] = Ok (VObj "D" [("byte_size", VInt 7); ("b", VInt 2); ("byte_size", VInt 2)]).
Proof. repeat split; vm_compute; reflexivity. Qed.

(* ... while the same names read AFTER the emitted code's last use of its variable are harmless, and inside the theorem
   (struct ByteFields of the corpus has a field `i` after an array; a field `result` is passed to the constructor before
   `result` is rebound) *)
Example late_names_inside_the_theorem :
  static_ok_d [EArray (mkField (Some "xs") (EInt TChar) (LLit 2) false false true None 0) false false ACExpr; EField (fld "i" (EInt TChar));
               EField (fld "result" (EInt TChar)); EField (fld "xs_length" (EInt TChar))] = true.
Proof. vm_compute; reflexivity. Qed.

(* 6. (static; the generator refuses it: "field is not accessible") a switch on a name that was never assigned: UnboundLocalError *)
Example unbound_switch_field_differs :
  let body := [ESwitch "k" [mkCase (CKValue 1) None]] in
  static_ok_d body = false /\
  run_rendered_d body [] = Some (Err EUnexpected) /\
  run_model_d body [] = Ok (VObj "D" [("k_data", VNone); ("byte_size", VInt 0)]).
Proof. repeat split; vm_compute; reflexivity. Qed.

(* 7. (static; the generator refuses it: "Only string types may specify a length") a length attribute on a non-string field: the
      emitted read ignores it and the generated constructor evaluates len(<int>) for the length slot: TypeError *)
Example length_on_non_string_differs :
  let body := [ELength "n" TChar 0 false true (Some "x"); EField (mkField (Some "x") (EInt TChar) (LRef "n") false false true None 252)] in
  static_ok_d body = false /\
  run_rendered_d body [3; 8] = Some (Err EType) /\
  run_model_d body [3; 8] = Ok (VObj "D" [("x", VInt 7); ("byte_size", VInt 2)]).
Proof. repeat split; vm_compute; reflexivity. Qed.

(* ---------------------------------------------------------------- non-vacuity: a worked program *)
Definition d_demo_env : env :=
  [mkSDef "Inner" [EField (fld "x" (EInt TChar))];
   mkSDef "Outer" [ELength "n" TChar 1 false true (Some "s");
                   EField (mkField (Some "s") (EStr false) (LRef "n") false false true None 253);
                   ESetMode true;
                   EArray (fld "items" (EStruct "Inner")) true true ACWhile;
                   ESetMode false;
                   EField (mkField (Some "tail") (EInt TShort) LNone false true true None 0)]].
Definition d_demo_prog : dparsed :=
  flat_map (fun d => match render_deserialize (sd_name d) (sd_body d) with Some ss => [(sd_name d, ss)] | None => [] end) d_demo_env.

Example d_demo_program_ok : program_ok_d d_demo_env [] d_demo_prog.
Proof.
  intro cls. cbn [d_demo_env env_find sd_name].
  destruct (String.eqb "Inner" cls) eqn:E1; [apply String.eqb_eq in E1; subst cls; eexists; split; [vm_compute; reflexivity | vm_compute; reflexivity]|].
  destruct (String.eqb "Outer" cls) eqn:E2; [apply String.eqb_eq in E2; subst cls; eexists; split; [vm_compute; reflexivity | vm_compute; reflexivity]|].
  assert (Hp : exists a b, d_demo_prog = [("Inner", a); ("Outer", b)]) by (eexists; eexists; vm_compute; reflexivity).
  destruct Hp as [a [b ->]]. cbn [assoc]. rewrite E1, E2. reflexivity.
Qed.

Example d_demo_run :
  let data := [2; 65; 66; 4; 255; 5; 255] in
  py_deserialize d_demo_env d_demo_prog 3 "Outer" (initR data) = deser_struct 3 d_demo_env "Outer" (initR data) /\
  snd (deser_struct 3 d_demo_env "Outer" (initR data)) =
  Ok (VObj "Outer" [("s", VStr [65; 66]);
                    ("items", VList [VObj "Inner" [("x", VInt 3); ("byte_size", VInt 1)]; VObj "Inner" [("x", VInt 4); ("byte_size", VInt 1)]]);
                    ("tail", VNone); ("byte_size", VInt 7)]).
Proof.
  split; [apply (py_deserialize_correct d_demo_env [] d_demo_prog d_demo_program_ok) | vm_compute; reflexivity].
Qed.
