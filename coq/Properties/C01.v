(* Property C01, stage A (specifications without chunked sections):
   for a wire-unambiguous class (wire_ok) and a valid object (valid_obj), serializing with a fresh writer and deserializing the bytes
   with a fresh reader gives back the object field by field, consumes exactly the bytes written, and byte_size is that count.
   Proofs: Proofs/RoundTrip.v.  Side conditions: Model/WireOk.v (the conditions marked [C01-A1..A9] were found missing while
   proving the theorem; each has a necessity witness below, checked against the ORIGINAL definitions kept in Module Old). *)
From EO Require Import Prelude.Py Prelude.Corr Model.Writer Model.Reader Model.Spec Model.Ser Model.Deser Model.Enc Model.ValidDecl
  Model.Limits Model.Cp1252 Model.WireOk Model.GenHarness Proofs.RoundTrip.
Open Scope Z_scope.
Set Default Timeout 60.

(* full statement kept visible; stage A = specifications without chunked sections
   (wire_ok rejects ESetMode / EBreak / delimited arrays) *)
Theorem C01_roundtrip_nonchunked : forall E cls v w,
  wire_ok E cls = true -> valid_obj (S (List.length E)) E cls v = true ->
  serialize E cls v false = (w, Ok tt) ->
  exists r v', deserialize E cls (wdata w) false = (r, Ok v') /\
               strip_bs v' = v /\ rpos r = zlen (wdata w) /\ top_byte_size v' = Some (zlen (wdata w)).
Proof. exact roundtrip_nonchunked. Qed.

(* valid objects of wire_ok classes do serialize *)
Theorem C01_valid_serializes : forall E cls v,
  wire_ok E cls = true -> valid_obj (S (List.length E)) E cls v = true ->
  exists w, serialize E cls v false = (w, Ok tt).
Proof. exact valid_serializes. Qed.

Corollary C01_round_ok : forall E cls v,
  wire_ok E cls = true -> valid_obj (S (List.length E)) E cls v = true -> round_ok E cls v = true.
Proof. exact round_ok_holds. Qed.

(* the frame form the induction runs on: the encoding may sit anywhere inside a non-chunked reader's data, and nested classes
   that do not end the message (last = false) may be followed by arbitrary bytes *)
Theorem C01_roundtrip_framed : forall E fuel cls last v out r d p post,
  wire_class fuel E cls last = true -> valid_obj fuel E cls v = true -> enc_struct fuel E cls v false = Some out ->
  (last = true -> post = []) -> nc r d p -> frame d p out post ->
  exists r' v', deser_struct fuel E cls r = (r', Ok v') /\ strip_bs v' = v /\ nc r' d (p + zlen out) /\
                top_byte_size v' = Some (zlen out).
Proof. exact rt_struct. Qed.

Print Assumptions C01_roundtrip_nonchunked.
Print Assumptions C01_valid_serializes.
Print Assumptions C01_round_ok.
Print Assumptions C01_roundtrip_framed.

(* ====================================================================================================== *)
(* a concrete specification exercising every construct of stage A                                         *)
(* ====================================================================================================== *)
Open Scope string_scope.
Definition fld n ty len := mkField (Some n) ty len false false true None 0.
Definition ofld n ty len first := mkField (Some n) ty len false true first None 0.
Definition Item := mkSDef "Item" [EField (fld "id" (EInt TShort) LNone); EField (fld "amount" (EInt TChar) LNone)].
Definition Coord := mkSDef "Coord" [EField (fld "x" (EInt TChar) LNone); EField (fld "y" (EInt TChar) LNone)].
Definition KA := mkSDef "Pkt.KindDataA"
  [EField (fld "gold" (EInt TInt) LNone); EField (mkField (Some "tag") (EStr true) (LLit 4) true false true None 0)].
Definition MD := mkSDef "Pkt.ModeDataDefault" [EField (fld "flag" (EBool TChar) LNone)].
Definition Pkt := mkSDef "Pkt"
  [ ELength "name_length" TChar 1 false true (Some "name");                                          (* length prefix, offset 1 *)
    EField (mkField (Some "name") (EStr false) (LRef "name_length") false false true None 253);      (* length-prefixed string *)
    EField (mkField None (EInt TChar) LNone false false true (Some "7") 0);                          (* unnamed hardcoded field *)
    EField (fld "kind" (EEnum "Kind" TChar) LNone);
    EField (fld "mode" (EInt TChar) LNone);
    EArray (fld "items" (EStruct "Item") (LLit 2)) false false ACExpr;                              (* literal-length array of nested structs *)
    ESwitch "kind" [mkCase (CKValue 1) (Some "Pkt.KindDataA"); mkCase (CKValue 2) None];             (* switch on an enum, no default *)
    ESwitch "mode" [mkCase (CKValue 0) None; mkCase CKDefault (Some "Pkt.ModeDataDefault")];         (* switch with a default *)
    EField (ofld "extra" (EInt TChar) LNone true);                                                    (* optional tail ... *)
    EArray (ofld "coords" (EStruct "Coord") LNone false) false false (ACRemaining 2) ].              (* ... ending in an implied-length array *)
Definition Env := [Item; Coord; KA; MD; Pkt].
Definition item a b := VObj "Item" [("id", VInt a); ("amount", VInt b)].
Definition coord a b := VObj "Coord" [("x", VInt a); ("y", VInt b)].
(* everything present; kind 1 selects case data A; mode 7 is not listed and selects the default *)
Definition obj1 := VObj "Pkt" [("name", VStr [72;105;255]); ("kind", VInt 1); ("mode", VInt 7);
   ("items", VList [item 1000 3; item 0 252]);
   ("kind_data", VObj "Pkt.KindDataA" [("gold", VInt 4097152080); ("tag", VStr [65;66])]);
   ("mode_data", VObj "Pkt.ModeDataDefault" [("flag", VBool true)]);
   ("extra", VInt 9); ("coords", VList [coord 1 2; coord 3 4; coord 5 6])].
(* unrecognised ordinal 77: no case, no data; mode 0: empty case; optional tail half present *)
Definition obj2 := VObj "Pkt" [("name", VStr [90]); ("kind", VInt 77); ("mode", VInt 0);
   ("items", VList [item 1 1; item 2 2]); ("kind_data", VNone); ("mode_data", VNone); ("extra", VInt 0); ("coords", VNone)].
(* kind 2: the empty case; optional tail absent *)
Definition obj3 := VObj "Pkt" [("name", VStr [65]); ("kind", VInt 2); ("mode", VInt 1);
   ("items", VList [item 1 1; item 2 2]); ("kind_data", VNone);
   ("mode_data", VObj "Pkt.ModeDataDefault" [("flag", VBool false)]); ("extra", VNone); ("coords", VNone)].

Example ex_wire_ok : wire_ok Env "Pkt" = true. Proof. vm_compute. reflexivity. Qed.
Example ex_valid1 : valid_obj 6 Env "Pkt" obj1 = true. Proof. vm_compute. reflexivity. Qed.
Example ex_valid2 : valid_obj 6 Env "Pkt" obj2 = true. Proof. vm_compute. reflexivity. Qed.
Example ex_valid3 : valid_obj 6 Env "Pkt" obj3 = true. Proof. vm_compute. reflexivity. Qed.
Example ex_round1 : round_ok Env "Pkt" obj1 = true. Proof. vm_compute. reflexivity. Qed.
Example ex_round2 : round_ok Env "Pkt" obj2 = true. Proof. vm_compute. reflexivity. Qed.
Example ex_round3 : round_ok Env "Pkt" obj3 = true. Proof. vm_compute. reflexivity. Qed.
Example ex_bytes1 : run_ser Env "Pkt" obj1 false =
  (Ok tt, [3; 72; 105; 255; 8; 2; 8; 242; 4; 4; 1; 254; 253; 253; 253; 253; 253; 255; 255; 47; 94; 2; 10; 2; 3; 4; 5; 6; 7], false).
Proof. vm_compute. reflexivity. Qed.
(* the theorem, instantiated *)
Example ex_by_theorem : round_ok Env "Pkt" obj1 = true.
Proof. apply C01_round_ok; vm_compute; reflexivity. Qed.

(* an implied-length array of progress-making structs read by the `while remaining > 0` loop (ACWhile), and a trailing blob *)
Definition Line := mkSDef "Line" [ELength "n" TChar 0 false true (Some "text"); EField (mkField (Some "text") (EStr true) (LRef "n") false false true None 252)].
Definition Book := mkSDef "Book" [EField (fld "id" (EInt TThree) LNone); EArray (fld "lines" (EStruct "Line") LNone) false false ACWhile].
Definition Blob := mkSDef "Blob" [EField (fld "tag" (EInt TByte) LNone); EField (fld "rest" EBlob LNone)].
Definition EnvB := [Line; Book; Blob].
Definition line s := VObj "Line" [("text", VStr s)].
Definition book := VObj "Book" [("id", VInt 16194276); ("lines", VList [line [104;105]; line []; line [33;34;35]])].
Example ex_book : wire_ok EnvB "Book" = true /\ valid_obj 4 EnvB "Book" book = true /\ round_ok EnvB "Book" book = true.
Proof. vm_compute. auto. Qed.
Example ex_blob : let v := VObj "Blob" [("tag", VInt 255); ("rest", VBytes [0; 255; 254; 1])] in
  wire_ok EnvB "Blob" = true /\ valid_obj 4 EnvB "Blob" v = true /\ round_ok EnvB "Blob" v = true.
Proof. vm_compute. auto. Qed.

(* ====================================================================================================== *)
(* necessity of valid_obj's conditions (each object breaks exactly one of them)                           *)
(* ====================================================================================================== *)
Definition Opt := mkSDef "Opt" [EField (fld "a" (EInt TChar) LNone); EField (ofld "s" (EStr false) LNone true)].
(* a present-but-empty optional string reads back as absent *)
Example nec_empty_optional : let v := VObj "Opt" [("a", VInt 1); ("s", VStr [])] in
  wire_ok [Opt] "Opt" = true /\ valid_obj 2 [Opt] "Opt" v = false /\ round_ok [Opt] "Opt" v = false /\
  valid_obj 2 [Opt] "Opt" (VObj "Opt" [("a", VInt 1); ("s", VStr [65])]) = true.
Proof. vm_compute. auto. Qed.
Definition EncS := mkSDef "EncS" [EField (fld "s" (EStr true) LNone)].
(* '~' (126) in an encoded string: encode_string / decode_string do not invert each other on it *)
Example nec_tilde : let v := VObj "EncS" [("s", VStr [65; 126; 66])] in
  wire_ok [EncS] "EncS" = true /\ valid_obj 2 [EncS] "EncS" v = false /\ round_ok [EncS] "EncS" v = false /\
  valid_obj 2 [EncS] "EncS" (VObj "EncS" [("s", VStr [65; 125; 66])]) = true.
Proof. vm_compute. auto. Qed.
Definition PadS := mkSDef "PadS" [EField (mkField (Some "s") (EStr false) (LLit 5) true false true None 0)].
(* U+00FF in a padded string is taken for the start of the padding *)
Example nec_ff_padded : let v := VObj "PadS" [("s", VStr [65; 255; 66])] in
  wire_ok [PadS] "PadS" = true /\ valid_obj 2 [PadS] "PadS" v = false /\ round_ok [PadS] "PadS" v = false /\
  valid_obj 2 [PadS] "PadS" (VObj "PadS" [("s", VStr [65; 254; 66])]) = true.
Proof. vm_compute. auto. Qed.
(* a character windows-1252 cannot carry (U+0100) comes back as '?' *)
Example nec_unencodable : let v := VObj "PadS" [("s", VStr [256])] in
  valid_obj 2 [PadS] "PadS" v = false /\ round_ok [PadS] "PadS" v = false.
Proof. vm_compute. auto. Qed.
(* a number at the type's limit is refused by the writer *)
Example nec_range : let v := VObj "Opt" [("a", VInt 253); ("s", VNone)] in
  valid_obj 2 [Opt] "Opt" v = false /\ round_ok [Opt] "Opt" v = false.
Proof. vm_compute. auto. Qed.
(* an optional present after an absent one *)
Definition Opt2 := mkSDef "Opt2" [EField (ofld "a" (EInt TChar) LNone true); EField (ofld "b" (EInt TChar) LNone false)].
Example nec_optional_order : let v := VObj "Opt2" [("a", VNone); ("b", VInt 3)] in
  wire_ok [Opt2] "Opt2" = true /\ valid_obj 2 [Opt2] "Opt2" v = false /\ round_ok [Opt2] "Opt2" v = false.
Proof. vm_compute. auto. Qed.

(* ====================================================================================================== *)
(* the original definitions of Model/WireOk.v, verbatim, to check the witnesses of the added conditions   *)
(* ====================================================================================================== *)
Close Scope string_scope.
Module Old.
(* ---------------- static sizes ---------------- *)
Section Size.
  Variable size_cls : string -> option Z.
  Definition ty_size (ty : etype) (len : elen) : option Z :=
    match ty with
    | EInt t | EBool t | EEnum _ t => Some (itype_size t)
    | EStr _ => match len with LLit n => Some n | _ => None end
    | EBlob => None
    | EStruct n => size_cls n
    end.
  Definition instr_size (i : einstr) : option Z :=
    match i with
    | EField f => if f_optional f then None else ty_size (f_ty f) (f_len f)
    | EArray f false _ _ =>
      if f_optional f then None else
      match f_len f, ty_size (f_ty f) LNone with LLit n, Some s => Some (n * s) | _, _ => None end
    | ELength _ t _ false _ _ => Some (itype_size t)
    | _ => None
    end.
  Fixpoint body_size (is : list einstr) : option Z :=
    match is with
    | [] => Some 0
    | i :: t => match instr_size i, body_size t with Some a, Some b => Some (a + b) | _, _ => None end
    end.
End Size.
Fixpoint size_of (fuel : nat) (E : env) (cls : string) : option Z :=
  match fuel with
  | O => None
  | S f => match env_find E cls with
           | Some d => match sd_body d with
                       | [EDummy ty _ false] => ty_size (fun _ => None) ty LNone
                       | b => body_size (size_of f E) b end
           | None => None end
  end.

(* ---------------- wire-unambiguity (no chunked sections) ---------------- *)
Definition is_optional_instr (i : einstr) : bool :=
  match i with EField f | EArray f _ _ _ => f_optional f | _ => false end.
Definition only_optionals (is : list einstr) : bool := forallb is_optional_instr is.

Section Wire.
  Variable E : env.
  Variable sizef : string -> option Z.
  (* wire_cls n last: class n is unambiguous when [last] says whether nothing follows it in the whole message *)
  Variable wire_cls : string -> bool -> bool.
  (* every object of class n occupies at least one byte, and its reads cannot come back empty-handed *)
  Variable progress_cls : string -> bool.

  (* a value of this type is self-delimiting given its length expression *)
  Definition closed_ty (ty : etype) (len : elen) : bool :=
    match ty with
    | EInt _ | EBool _ | EEnum _ _ => true
    | EStr _ => match len with LNone => false | _ => true end
    | EBlob => false
    | EStruct n => wire_cls n false
    end.
  Definition elem_size (ty : etype) : option Z := ty_size sizef ty LNone.

  Fixpoint wire_instrs (last : bool) (lens : list string) (is : list einstr) : bool :=
    match is with
    | [] => true
    | i :: t =>
      let final := last && match t with [] => true | _ => false end in   (* nothing at all follows this instruction *)
      match i with
      | EField f =>
        (match f_len f with LRef l => mem_str l lens | _ => true end) &&
        (match f_name f, f_hard f with None, None => false | _, _ => true end) &&
        (if f_optional f then
           (* optional: presence is "data remains": optionals last, in a class that ends the message *)
           last && only_optionals t &&
           match f_name f with Some _ => true | None => false end &&
           (closed_ty (f_ty f) (f_len f) || final) &&
           match f_ty f with EStruct n => wire_cls n final | _ => true end
         else
           match f_ty f with
           | EStruct n => wire_cls n final
           | _ => closed_ty (f_ty f) (f_len f) || final
           end) &&
        wire_instrs last lens t
      | EArray f delimited _ count =>
        negb delimited &&
        (match f_name f with Some _ => true | None => false end) &&
        (if f_optional f then last && only_optionals t else true) &&
        (match f_ty f with EStruct n => wire_cls n false | ty => closed_ty ty LNone end) &&
        (match count with
         | ACExpr => match f_len f with LRef l => mem_str l lens | LLit n => 0 <=? n | LNone => false end
         | ACRemaining sz => final && (0 <? sz) && match elem_size (f_ty f) with Some s => s =? sz | None => false end
         | ACWhile => final && match f_ty f with EStruct n => progress_cls n | _ => false end
         end) &&
        wire_instrs last lens t
      | ELength name _ _ optional _ ref_by =>
        negb optional && negb (mem_str name lens) &&
        (match ref_by with Some _ => true | None => false end) &&
        wire_instrs last (name :: lens) t
      | EDummy _ _ _ => false                      (* a dummy is only allowed as the sole instruction: see wire_body *)
      | ESwitch field cases =>
        forallb (fun c => match c_cls c with Some cls => wire_cls cls final | None => true end) cases &&
        wire_instrs last lens t
      | ESetMode _ => false
      | EBreak => false
      end
    end.

  Definition wire_body (last : bool) (is : list einstr) : bool :=
    match is with
    | [EDummy ty lit false] => match ty with EInt _ | EBool _ => true | EStr _ => false | _ => false end
    | _ => wire_instrs last [] is
    end.

  (* the first thing the class writes is a required fixed-size scalar: it always makes progress *)
  Definition progress_body (is : list einstr) : bool :=
    match is with
    | EField f :: _ => negb (f_optional f) && match f_ty f with EInt _ | EBool _ | EEnum _ _ => true | EStruct n => progress_cls n | _ => false end
    | ELength _ _ _ false _ _ :: _ => true
    | [EDummy (EInt _) _ false] => true
    | _ => false
    end.
End Wire.

Fixpoint progress_class (fuel : nat) (E : env) (cls : string) : bool :=
  match fuel with
  | O => false
  | S f => match env_find E cls with Some d => progress_body (progress_class f E) (sd_body d) | None => false end
  end.

Fixpoint wire_class (fuel : nat) (E : env) (cls : string) (last : bool) : bool :=
  match fuel with
  | O => false
  | S f => match env_find E cls with
           | Some d => wire_body (size_of (S (List.length E)) E) (wire_class f E) (progress_class (S (List.length E)) E) last (sd_body d)
           | None => false
           end
  end.
Definition wire_ok (E : env) (cls : string) : bool := wire_class (S (List.length E)) E cls true.

(* ---------------- objects the format can carry ---------------- *)
Definition no_255 (s : list Z) : bool := forallb (fun c => negb (c =? 255)) s.
Definition no_126 (s : list Z) : bool := forallb (fun c => negb (c =? 126)) s.

Section Obj.
  Variable vo : string -> value -> bool.
  Definition obj_value (ty : etype) (len : elen) (padded : bool) (v : value) : bool :=
    match ty, v with
    | EInt t, VInt z => (0 <=? z) && (z <=? itype_max t)
    | EBool _, VBool _ => true
    | EEnum _ t, VInt z => (0 <=? z) && (z <=? itype_max t)
    | EStr enc, VStr s => forallb cp_encodable s && (negb (padded && match len with LNone => false | _ => true end) || forallb (fun c => negb (c =? 255)) s)
                          && (negb enc || forallb (fun c => negb (c =? 126)) s)
    | EBlob, VBytes b => bytes_okb b
    | EStruct n, x => vo n x
    | _, _ => false
    end.
  (* the encoding of a present optional value must not be empty (an empty optional tail reads back as absent) *)
  Definition nonempty_value (v : value) : bool :=
    match v with VStr s => negb (zlen s =? 0) | VBytes b => negb (zlen b =? 0) | VList l => negb (zlen l =? 0) | _ => true end.

  Fixpoint obj_instrs (flds : list (string * value)) (is : list einstr) (rmo : bool) : bool :=
    match is with
    | [] => true
    | i :: t =>
      match i with
      | EField f =>
        match f_name f with
        | None => obj_instrs flds t rmo
        | Some name =>
          match assoc flds name with
          | None => false
          | Some v =>
            if f_optional f then
              (if is_none v then obj_instrs flds t true
               else negb rmo && nonempty_value v && valid_len f v && obj_value (f_ty f) (f_len f) (f_padded f) v && obj_instrs flds t rmo)
            else
              (match f_hard f with
               | Some lit => match lit_value (f_ty f) lit with Ok lv => true | Err _ => false end
               | None => true end) &&
              valid_len f v && obj_value (f_ty f) (f_len f) (f_padded f) v && obj_instrs flds t rmo
          end
        end
      | EArray f _ _ _ =>
        match f_name f with
        | None => false
        | Some name =>
          match assoc flds name with
          | Some (VList elems) =>
            (negb (f_optional f) || (negb rmo && nonempty_value (VList elems))) &&
            valid_len f (VList elems) && forallb (obj_value (f_ty f) LNone false) elems && obj_instrs flds t rmo
          | Some VNone => f_optional f && obj_instrs flds t true
          | _ => false
          end
        end
      | ELength _ lty off _ _ ref_by =>
        match ref_by with
        | Some fr => match assoc flds fr with
                     | Some fv => match py_len fv with Some l => (0 <=? l - off) && (l - off <=? itype_max lty) | None => false end
                     | None => false end
        | None => false
        end && obj_instrs flds t rmo
      | ESwitch field cases =>
        match assoc flds field, assoc flds (field ++ "_data")%string with
        | Some (VInt z), Some dv =>
          match find_case cases (Some z) with
          | None => is_none dv
          | Some c => match c_cls c with
                      | None => is_none dv
                      | Some cls => match obj_class dv with Some c' => String.eqb c' cls && vo cls dv | None => false end
                      end
          end
        | _, _ => false
        end && obj_instrs flds t rmo
      | _ => obj_instrs flds t rmo
      end
    end.
End Obj.

Fixpoint valid_obj (fuel : nat) (E : env) (cls : string) (v : value) : bool :=
  match fuel with
  | O => false
  | S f => match env_find E cls, v with
           | Some d, VObj c flds => String.eqb c cls && obj_instrs (valid_obj f E) flds (sd_body d) false
           | _, _ => false
           end
  end.

(* what deserialize builds for an object: its public fields (hardcoded named fields hold their literal) plus byte_size *)
Definition public_fields (v : value) : list (string * value) := match v with VObj _ f => f | _ => [] end.
End Old.
Open Scope string_scope.

(* ====================================================================================================== *)
(* necessity of the conditions added to Model/WireOk.v: each witness satisfies the ORIGINAL wire_ok and  *)
(* valid_obj (Module Old), is refused by the new ones, and does not round-trip in the model                *)
(* ====================================================================================================== *)
Definition witness (E : env) (cls : string) (v : value) : bool :=
  Old.wire_ok E cls && Old.valid_obj (S (List.length E)) E cls v &&
  negb (wire_ok E cls && valid_obj (S (List.length E)) E cls v) && negb (round_ok E cls v).
Definition sfld n len maxlen := mkField (Some n) (EStr false) len false false true None maxlen.

(* [C01-A1] bound names are distinct.  (a) the same public name twice: the object's second slot is unreachable *)
Definition DupF := mkSDef "DupF" [EField (fld "a" (EInt TChar) LNone); EField (fld "a" (EInt TChar) LNone)].
Example A1_dup_field_necessary : witness [DupF] "DupF" (VObj "DupF" [("a", VInt 1); ("a", VInt 2)]) = true.
Proof. vm_compute. reflexivity. Qed.
(* (b) a length field named like an earlier field: the deserializer's local is rebound *)
Definition LenClash := mkSDef "LenClash"
  [EField (fld "n" (EInt TChar) LNone); ELength "n" TChar 0 false true (Some "s"); EField (sfld "s" (LRef "n") 252)].
Example A1_length_name_necessary : witness [LenClash] "LenClash" (VObj "LenClash" [("n", VInt 5); ("s", VStr [97; 98])]) = true.
Proof. vm_compute. reflexivity. Qed.

(* [C01-A2] a field called byte_size collides with the size entry of the deserialized object *)
Definition BS := mkSDef "BS" [EField (fld "byte_size" (EInt TChar) LNone)].
Example A2_byte_size_necessary : witness [BS] "BS" (VObj "BS" [("byte_size", VInt 3)]) = true.
Proof. vm_compute. reflexivity. Qed.

(* [C01-A3] a length reference must name a length field whose slot is assigned from this very field.
   (a) two fields share one length field (the generator rejects this; the elaborated form can express it) *)
Definition TwoRefs := mkSDef "TwoRefs"
  [ELength "n" TChar 0 false true (Some "b"); EField (sfld "a" (LRef "n") 252); EField (sfld "b" (LRef "n") 252)].
Example A3_shared_length_necessary : witness [TwoRefs] "TwoRefs" (VObj "TwoRefs" [("a", VStr [120; 121]); ("b", VStr [122])]) = true.
Proof. vm_compute. reflexivity. Qed.
(* (b) an unnamed hardcoded string with a length reference is written whole but read with that length *)
Definition UnnamedRef := mkSDef "UnnamedRef"
  [ELength "n" TChar 0 false true (Some "b");
   EField (mkField None (EStr false) (LRef "n") false false true (Some "ab") 252); EField (sfld "b" (LRef "n") 252)].
Example A3_unnamed_ref_necessary : witness [UnnamedRef] "UnnamedRef" (VObj "UnnamedRef" [("b", VStr [120; 121; 122])]) = true.
Proof. vm_compute. reflexivity. Qed.

(* [C01-A4] the field a switch inspects must have been read before the switch *)
Definition CaseC := mkSDef "Sw.KDataC" [EField (fld "x" (EInt TChar) LNone)].
Definition Sw := mkSDef "Sw" [ESwitch "k" [mkCase (CKValue 1) (Some "Sw.KDataC")]; EField (fld "k" (EInt TChar) LNone)].
Example A4_switch_field_necessary :
  witness [CaseC; Sw] "Sw" (VObj "Sw" [("k_data", VObj "Sw.KDataC" [("x", VInt 9)]); ("k", VInt 1)]) = true.
Proof. vm_compute. reflexivity. Qed.

(* [C01-A5] a present optional struct must occupy at least one byte *)
Definition Empty := mkSDef "Empty" [].
Definition Holder := mkSDef "Holder" [EField (fld "a" (EInt TChar) LNone); EField (ofld "e" (EStruct "Empty") LNone true)].
Example A5_optional_empty_struct_necessary :
  witness [Empty; Holder] "Holder" (VObj "Holder" [("a", VInt 1); ("e", VObj "Empty" [])]) = true.
Proof. vm_compute. reflexivity. Qed.
(* the same for the elements of an optional array *)
Definition HolderA := mkSDef "HolderA"
  [ELength "n" TChar 0 false true (Some "es");
   EArray (mkField (Some "es") (EStruct "Empty") (LRef "n") false true true None 252) false false ACExpr].
Example A5_optional_empty_elements_necessary :
  witness [Empty; HolderA] "HolderA" (VObj "HolderA" [("es", VList [VObj "Empty" []])]) = true.
Proof. vm_compute. reflexivity. Qed.

(* [C01-A6] the literal of an unnamed hardcoded field / of a dummy must have an encoding *)
Definition BadLit := mkSDef "BadLit" [EField (mkField None (EInt TChar) LNone false false true (Some "300") 0); EField (fld "a" (EInt TChar) LNone)].
Example A6_unnamed_literal_necessary : witness [BadLit] "BadLit" (VObj "BadLit" [("a", VInt 1)]) = true.
Proof. vm_compute. reflexivity. Qed.
Definition BadDummy := mkSDef "BadDummy" [EDummy (EInt TChar) "300" false].
Example A6_dummy_literal_necessary : witness [BadDummy] "BadDummy" (VObj "BadDummy" []) = true.
Proof. vm_compute. reflexivity. Qed.

(* [C01-A7] a hardcoded named field holds its literal: deserialize rebuilds it from the literal *)
Definition Hard := mkSDef "Hard" [EField (mkField (Some "x") (EInt TChar) LNone false false true (Some "5") 0)].
Example A7_hardcoded_value_necessary : witness [Hard] "Hard" (VObj "Hard" [("x", VInt 6)]) = true.
Proof. vm_compute. reflexivity. Qed.
Example A7_hardcoded_value_ok : let v := VObj "Hard" [("x", VInt 5)] in
  wire_ok [Hard] "Hard" = true /\ valid_obj 2 [Hard] "Hard" v = true /\ round_ok [Hard] "Hard" v = true.
Proof. vm_compute. auto. Qed.

(* [C01-A8] the object holds exactly the public fields, in declaration order *)
Definition Plain := mkSDef "Plain" [EField (fld "a" (EInt TChar) LNone); EField (fld "b" (EInt TChar) LNone)].
Example A8_extra_field_necessary : witness [Plain] "Plain" (VObj "Plain" [("a", VInt 1); ("b", VInt 2); ("zzz", VInt 3)]) = true.
Proof. vm_compute. reflexivity. Qed.
Example A8_field_order_necessary : witness [Plain] "Plain" (VObj "Plain" [("b", VInt 2); ("a", VInt 1)]) = true.
Proof. vm_compute. reflexivity. Qed.

(* [C01-A9] an array with a literal length holds exactly that many elements (whatever its `padded` flag says) *)
Definition PadArr := mkSDef "PadArr" [EArray (mkField (Some "xs") (EInt TChar) (LLit 2) true false true None 0) false false ACExpr].
Example A9_array_length_necessary : witness [PadArr] "PadArr" (VObj "PadArr" [("xs", VList [VInt 1])]) = true.
Proof. vm_compute. reflexivity. Qed.

(* ====================================================================================================== *)
(* the two refactorings (sole_dummy instead of deep list patterns) did not change size_of / progress_class *)
(* ====================================================================================================== *)
Lemma body_size_same s1 s2 : (forall n, s1 n = s2 n) -> forall is, Old.body_size s1 is = body_size s2 is.
Proof.
  intros Hs. induction is as [|i t IHt]; [reflexivity|]. cbn [Old.body_size body_size]. rewrite IHt.
  assert (Hi : Old.instr_size s1 i = instr_size s2 i).
  { assert (Ht : forall ty len, Old.ty_size s1 ty len = ty_size s2 ty len) by (intros ty len; destruct ty; cbn; auto).
    destruct i; cbn [Old.instr_size instr_size]; rewrite ?Ht; reflexivity. }
  rewrite Hi. reflexivity.
Qed.

Lemma size_of_refactor E : forall fuel cls, Old.size_of fuel E cls = size_of fuel E cls.
Proof.
  induction fuel as [|fuel IHf]; intros cls; [reflexivity|]. cbn [Old.size_of size_of].
  destruct (env_find E cls) as [d|]; [|reflexivity]. pose proof (body_size_same _ _ IHf (sd_body d)) as Hb.
  unfold sole_dummy. destruct (sd_body d) as [|i [|j t]]; try exact Hb; destruct i; try exact Hb;
    destruct guarded; try exact Hb. destruct ty; reflexivity.
Qed.

Lemma progress_class_refactor E : forall fuel cls, Old.progress_class fuel E cls = progress_class fuel E cls.
Proof.
  induction fuel as [|fuel IHf]; intros cls; [reflexivity|]. cbn [Old.progress_class progress_class].
  destruct (env_find E cls) as [d|]; [|reflexivity]. unfold Old.progress_body, progress_body, sole_dummy.
  destruct (sd_body d) as [|i [|j t]]; try reflexivity; destruct i; try reflexivity;
    try (destruct (f_ty f); rewrite ?IHf; reflexivity); try (destruct guarded; destruct ty; reflexivity).
Qed.

(* ====================================================================================================== *)
(* the new side conditions only ADD to the original ones: whatever they accept, the originals accepted    *)
(* ====================================================================================================== *)
Lemma ref_ok_mem l n lens : ref_ok l n lens = true -> mem_str l (map fst lens) = true.
Proof.
  intros H. apply ref_ok_In in H. apply mem_str_In. apply in_map_iff. exists (l, n). split; [reflexivity | exact H].
Qed.

Section Stronger.
  Variables (sz : string -> option Z) (wc wc' : string -> bool -> bool) (pc : string -> bool).
  Hypothesis Hwc : forall n l, wc n l = true -> wc' n l = true.

  Lemma closed_ty_mono ty len b : closed_ty wc ty len || b = true -> Old.closed_ty wc' ty len || b = true.
  Proof.
    intros H. apply orb_true_iff in H as [H|H]; [|rewrite H; apply orb_true_r]. apply orb_true_iff. left.
    destruct ty; try exact H. apply Hwc. exact H.
  Qed.

  Lemma wire_instrs_stronger : forall is last lens pubs,
    wire_instrs sz wc pc last lens pubs is = true -> Old.wire_instrs sz wc' pc last (map fst lens) is = true.
  Proof.
    induction is as [|i t IHt]; intros last lens pubs W; [reflexivity|].
    destruct i as [f|f dl tr cnt|name lt off opt of rb|ty lit g|fld cs|b|]; cbn [wire_instrs Old.wire_instrs] in *; try discriminate W;
      change (Old.only_optionals t) with (only_optionals t).
    - apply andb_true_iff in W as [W Wt]. apply andb_true_iff in W as [Wn Wo]. rewrite (IHt _ _ _ Wt), andb_true_r.
      assert (A : match f_len f with LRef l => mem_str l (map fst lens) | _ => true end = true).
      { destruct (f_len f) as [| |l]; try reflexivity. destruct (f_name f); apply andb_true_iff in Wn as [_ Wn];
          [apply (ref_ok_mem _ _ _ Wn) | discriminate Wn]. }
      assert (B : match f_name f, f_hard f with None, None => false | _, _ => true end = true).
      { destruct (f_name f); [reflexivity|]. destruct (f_hard f); [reflexivity | discriminate Wn]. }
      rewrite A, B. cbn [andb]. destruct (f_optional f).
      + apply andb_true_iff in Wo as [Wo _]. apply andb_true_iff in Wo as [Wo W5]. apply andb_true_iff in Wo as [Wo W4].
        apply andb_true_iff in Wo as [Wo W3]. rewrite Wo, W3, (closed_ty_mono _ _ _ W4). cbn [andb].
        destruct (f_ty f); try reflexivity. apply Hwc. exact W5.
      + destruct (f_ty f); try (apply closed_ty_mono; exact Wo). apply Hwc. exact Wo.
    - apply andb_true_iff in W as [W Wt]. apply andb_true_iff in W as [W Wc]. apply andb_true_iff in W as [W We].
      apply andb_true_iff in W as [W Wo]. apply andb_true_iff in W as [Wd Wn].
      rewrite (IHt _ _ _ Wt), Wd, andb_true_r. cbn [andb].
      assert (N : match f_name f with Some _ => true | None => false end = true) by (destruct (f_name f); [reflexivity | discriminate Wn]).
      assert (O : (if f_optional f then last && only_optionals t else true) = true).
      { destruct (f_optional f); [|reflexivity]. apply andb_true_iff in Wo as [Wo _]. exact Wo. }
      assert (El : match f_ty f with EStruct n => wc' n false | ty => Old.closed_ty wc' ty LNone end = true).
      { destruct (f_ty f); try exact We. apply Hwc. exact We. }
      rewrite N, O, El. cbn [andb]. destruct cnt as [|s|]; try exact Wc.
      destruct (f_len f) as [|k|l]; try exact Wc. destruct (f_name f); [apply (ref_ok_mem _ _ _ Wc) | discriminate Wc].
    - apply andb_true_iff in W as [W Wt]. apply andb_true_iff in W as [Wopt Wfr]. destruct rb as [fr|]; [|discriminate Wt].
      rewrite Wopt. unfold fresh in Wfr. apply andb_true_iff in Wfr as [Wfr _]. rewrite Wfr. cbn [andb].
      apply (IHt _ _ _ Wt).
    - apply andb_true_iff in W as [W Wt]. apply andb_true_iff in W as [_ Wc]. rewrite (IHt _ _ _ Wt), andb_true_r.
      rewrite forallb_forall in *. intros c Hc. specialize (Wc c Hc). destruct (c_cls c); [apply Hwc; exact Wc | reflexivity].
  Qed.
End Stronger.

Lemma wire_class_stronger E : forall fuel cls last, wire_class fuel E cls last = true -> Old.wire_class fuel E cls last = true.
Proof.
  induction fuel as [|fuel IHf]; intros cls last W; [discriminate W|]. cbn [wire_class Old.wire_class] in *.
  destruct (env_find E cls) as [d|]; [|discriminate W]. unfold wire_body in W. unfold Old.wire_body.
  assert (Hgen : wire_instrs (size_of (S (List.length E)) E) (wire_class fuel E) (progress_class (S (List.length E)) E) last [] [] (sd_body d) = true ->
                 Old.wire_instrs (Old.size_of (S (List.length E)) E) (Old.wire_class fuel E) (Old.progress_class (S (List.length E)) E) last [] (sd_body d) = true).
  { intros H. apply (wire_instrs_stronger _ _ _ _ IHf) in H. cbn [map] in H.
    revert H. generalize (sd_body d) (@nil string). intros is lens H.
    assert (Hext : forall s1 s2 p1 p2 is lens last, (forall n, s1 n = s2 n) -> (forall n, p1 n = p2 n) ->
              Old.wire_instrs s1 (Old.wire_class fuel E) p1 last lens is = Old.wire_instrs s2 (Old.wire_class fuel E) p2 last lens is).
    { intros s1 s2 p1 p2 is0. induction is0 as [|i t IHt]; intros lens0 last0 Hs Hp; [reflexivity|].
      destruct i; cbn [Old.wire_instrs]; rewrite ?(IHt _ _ Hs Hp); try reflexivity.
      - unfold Old.elem_size. destruct count; try reflexivity.
        + assert (Ht : Old.ty_size s1 (f_ty f) LNone = Old.ty_size s2 (f_ty f) LNone) by (destruct (f_ty f); cbn; auto). rewrite Ht. reflexivity.
        + destruct (f_ty f); try reflexivity. rewrite Hp. reflexivity. }
    rewrite (Hext _ (size_of (S (List.length E)) E) _ (progress_class (S (List.length E)) E)); [exact H | |].
    - intros n. apply size_of_refactor.
    - intros n. apply progress_class_refactor. }
  unfold sole_dummy in W. destruct (sd_body d) as [|i [|j t]]; try (apply Hgen; exact W); destruct i; try (apply Hgen; exact W);
    destruct guarded; try (apply Hgen; exact W). destruct ty; try discriminate W; reflexivity.
Qed.

Theorem wire_ok_stronger E cls : wire_ok E cls = true -> Old.wire_ok E cls = true.
Proof. apply wire_class_stronger. Qed.
Print Assumptions wire_ok_stronger.

Section StrongerObj.
  Variables (vo vo' : string -> value -> bool).
  Hypothesis Hvo : forall n x, vo n x = true -> vo' n x = true.

  Lemma obj_value_stronger ty len padded v : obj_value vo ty len padded v = true -> Old.obj_value vo' ty len padded v = true.
  Proof. destruct ty; cbn [obj_value Old.obj_value]; try (intros H; exact H). apply Hvo. Qed.

  Lemma obj_instrs_stronger flds : forall is rmo, obj_instrs vo flds is rmo = true -> Old.obj_instrs vo' flds is rmo = true.
  Proof.
    induction is as [|i t IHt]; intros rmo O; [reflexivity|].
    destruct i as [f|f dl tr cnt|name lt off opt of rb|ty lit g|fld cs|b|]; cbn [obj_instrs Old.obj_instrs] in *; try (apply IHt; exact O);
      change Old.nonempty_value with nonempty_value.
    - destruct (f_name f) as [n|]; [|apply IHt; exact O]. destruct (assoc flds n) as [v|]; [|discriminate O].
      apply andb_true_iff in O as [Oh O]. destruct (f_optional f).
      + destruct (is_none v); [apply IHt; exact O|]. apply andb_true_iff in O as [O O5]. apply andb_true_iff in O as [O O4].
        rewrite O, (obj_value_stronger _ _ _ _ O4), (IHt _ O5). reflexivity.
      + apply andb_true_iff in O as [O O3]. apply andb_true_iff in O as [O1 O2].
        rewrite O1, (obj_value_stronger _ _ _ _ O2), (IHt _ O3), !andb_true_r. unfold hard_agrees in Oh.
        destruct (f_hard f) as [lit|]; [|reflexivity]. destruct (lit_value (f_ty f) lit); [reflexivity | discriminate Oh].
    - destruct (f_name f) as [n|]; [|discriminate O]. destruct (assoc flds n) as [v|]; [|discriminate O].
      destruct v as [| | | | |elems|]; try discriminate O.
      + apply andb_true_iff in O as [O1 O2]. rewrite O1, (IHt _ O2). reflexivity.
      + apply andb_true_iff in O as [O O5]. apply andb_true_iff in O as [O O4]. apply andb_true_iff in O as [O _].
        rewrite O, (IHt _ O5), !andb_true_r. cbn [andb]. rewrite forallb_forall in *. intros e He. apply obj_value_stronger. apply (O4 e He).
    - apply andb_true_iff in O as [O Ot]. rewrite O, (IHt _ Ot). reflexivity.
    - apply andb_true_iff in O as [O Ot]. rewrite (IHt _ Ot), andb_true_r.
      destruct (assoc flds fld) as [fv|]; [|discriminate O]. destruct fv; try discriminate O.
      destruct (assoc flds (fld ++ "_data")) as [dv|]; [|discriminate O].
      destruct (find_case cs (Some z)) as [c|]; [|exact O]. destruct (c_cls c) as [cls|]; [|exact O].
      destruct (obj_class dv); [|discriminate O]. apply andb_true_iff in O as [O1 O2]. rewrite O1, (Hvo _ _ O2). reflexivity.
  Qed.
End StrongerObj.

Theorem valid_obj_stronger E : forall fuel cls v, valid_obj fuel E cls v = true -> Old.valid_obj fuel E cls v = true.
Proof.
  induction fuel as [|fuel IHf]; intros cls v V; [discriminate V|]. cbn [valid_obj Old.valid_obj] in *.
  destruct (env_find E cls) as [d|]; [|discriminate V]. destruct v; try discriminate V.
  apply andb_true_iff in V as [V O]. apply andb_true_iff in V as [Vc _]. rewrite Vc. cbn [andb].
  apply (obj_instrs_stronger _ _ IHf _ _ _ O).
Qed.
Print Assumptions valid_obj_stronger.
