From EO Require Import Prelude.Py Model.Spec Model.Elab Model.Ser Model.Deser Model.GenHarness.
Theorem C01_placeholder : True. Proof. exact I. Qed.
