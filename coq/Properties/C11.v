(* C11 - Server verification hash equals the game client's arithmetic. *)
From EO Require Import Prelude.Py Model.Hash Proofs.Hash.
Open Scope Z_scope.

(* for every challenge of the three-byte field (indeed for every challenge >= -1) the hash is the
   published formula evaluated with truncating remainder *)
Theorem C11_equals_client : forall c, 0 <= c < 16194277 -> server_verification_hash c = client_hash c.
Proof. intros c H. apply hash_equals_client. lia. Qed.

(* up to the documented bound the hash is non-negative and fits an EO int *)
Theorem C11_range : forall c, 0 <= c <= 11092110 -> 0 <= server_verification_hash c < 4097152081.
Proof. intros c H. rewrite hash_equals_client by lia. apply hash_range. exact H. Qed.

(* the helper is exactly the truncating remainder for positive divisors *)
Theorem C11_mod_is_truncating : forall a b, 0 < b -> u_mod a b = Z.rem a b.
Proof. exact mod_is_rem. Qed.

(* the code as it was before the repair does NOT satisfy the first statement (finding F1, fixed) *)
Theorem C11_unrepaired_refuted : exists c, 0 <= c < 16194277 /\ hash_unrepaired c <> client_hash c.
Proof. exact unrepaired_refuted. Qed.

Example C11_vectors :
  map server_verification_hash [0; 1; 2; 5; 12345; 100000; 5000000; 11092003; 11092004; 11092005; 11092110; 11092111; 11111111; 12345678; 16194276]
  = [114000; 115191; 229432; 613210; 266403; 145554; 339168; 112773; 112655; 112299; 11016; -2787; 103749; -32046; 105960].
Proof. vm_compute. reflexivity. Qed.

Print Assumptions C11_equals_client.
Print Assumptions C11_range.
Print Assumptions C11_mod_is_truncating.
Print Assumptions C11_unrepaired_refuted.
