(* C09 - EoWriter: every add_* either appends exactly the declared bytes or raises ValueError and leaves the
   writer untouched; string writes emit the (sanitised / padded / encoded) windows-1252 image. *)
From EO Require Import Prelude.Py Model.Limits Model.Number Model.StringEnc Model.Cp1252 Model.Writer Proofs.Writer.
Open Scope Z_scope.
Set Default Timeout 60.

Definition limit_of (o : wop) : option (Z * Z) :=
  match o with WByte v => Some (v, 256) | WChar n => Some (n, CHAR_MAX) | WShort n => Some (n, SHORT_MAX)
             | WThree n => Some (n, THREE_MAX) | WInt n => Some (n, INT_MAX) | _ => None end.
Definition over_limit (o : wop) : bool := match limit_of o with Some (v, lim) => v >=? lim | None => false end.
Definition bad_length (o : wop) : bool :=
  match o with WFixed s len p | WFixedEnc s len p => if p then zlen s >? len else negb (zlen s =? len) | _ => false end.
Definition declared_size (o : wop) : Z :=
  match o with WByte _ | WChar _ => 1 | WShort _ => 2 | WThree _ => 3 | WInt _ => 4 | WBytes bs => zlen bs
             | WString s | WEnc s => zlen s | WFixed _ len _ | WFixedEnc _ len _ => len | WSetSan _ => 0 end.
(* what a string write must emit, given the mode *)
Definition pad_to (bs : list Z) (len : Z) : list Z := bs ++ zrepeat 255 (len - zlen bs).
Definition string_image (san : bool) (o : wop) : option (list Z) :=
  match o with
  | WString s => Some (sanitize san (cp_encode s))
  | WFixed s len p => Some (if p then pad_to (sanitize san (cp_encode s)) len else sanitize san (cp_encode s))
  | WEnc s => Some (encode_string (sanitize san (cp_encode s)))
  | WFixedEnc s len p => Some (encode_string (if p then pad_to (sanitize san (cp_encode s)) len else sanitize san (cp_encode s)))
  | _ => None end.
Definition padding_of (o : wop) : Z := match o with WFixed s len true | WFixedEnc s len true => len - zlen s | _ => 0 end.

(* the vocabulary above is, definition for definition, the one Proofs/Writer.v is stated in *)
Local Lemma vocabulary :
  limit_of = op_limit /\ over_limit = op_over /\ bad_length = op_badlen /\ declared_size = op_size /\
  pad_to = pad255 /\ string_image = op_image /\ padding_of = op_padding.
Proof. repeat split. Qed.

Theorem C09_atomic : forall w o w' e, wstep w o = (w', Err e) -> w' = w /\ e = EValue.
Proof. exact wstep_atomic. Qed.

Theorem C09_rejects : forall w o, over_limit o = true \/ bad_length o = true -> wstep w o = (w, Err EValue).
Proof. exact wstep_rejects. Qed.

Theorem C09_accept_size : forall w o w', wstep w o = (w', Ok tt) ->
  exists out, wdata w' = wdata w ++ out /\ zlen out = declared_size o /\
              wsan w' = (match o with WSetSan b => b | _ => wsan w end).
Proof.
  intros w o w' H. destruct (wstep_accept w o w' H) as [out [_ [D [S M]]]].
  exists out. repeat split; [exact D | exact S | exact M].
Qed.

Theorem C09_in_range_accepted : forall w o v lim, limit_of o = Some (v, lim) -> 0 <= v < lim -> exists w', wstep w o = (w', Ok tt).
Proof. exact wstep_in_range. Qed.

Theorem C09_string_output : forall w o w' img, string_image (wsan w) o = Some img -> wstep w o = (w', Ok tt) -> wdata w' = wdata w ++ img.
Proof. exact wstep_image. Qed.

(* sanitisation on: the 0xFF bytes emitted are exactly the padding bytes; every y-diaeresis (U+00FF) became 'y' (121),
   all else is the cp1252 byte *)
Theorem C09_sanitised : forall o img, string_image true o = Some img -> bad_length o = false ->
  Z.of_nat (count_occ Z.eq_dec img 255) = padding_of o.
Proof. exact image_cnt_255. Qed.

Theorem C09_sanitise_map : forall s, sanitize true (cp_encode s) = map (fun c => if c =? 255 then 121 else cp_enc c) s.
Proof. exact sanitize_cp_map. Qed.

(* sanitisation off: exact windows-1252 image *)
Theorem C09_exact_image : forall s, sanitize false (cp_encode s) = cp_encode s.
Proof. intros s. apply sanitize_false. Qed.

(* histories: a failing step never changes what has been written; the mode changes only by WSetSan *)
Theorem C09_history : forall ops w, let '(w', rs) := wrun w ops in
  length rs = length ops /\ exists out, wdata w' = wdata w ++ out.
Proof. exact wrun_spec. Qed.

(* "abÿ" = [97;98;255]; U+20AC (euro) -> 0x80; U+0100 has no windows-1252 byte -> '?' *)
Example C09_run :
  wrun initW [WChar 1; WByte 256; WSetSan true; WFixed [97;98;255] 5 true; WInt (-2); WEnc [255;8364;256]; WShort (-1)] =
  (mkW ([2] ++ [97;98;121;255;255] ++ [50;128;84] ++ [0;254]) true,
   [Ok tt; Err EValue; Ok tt; Ok tt; Err EValue; Ok tt; Ok tt]).
Proof. vm_compute. reflexivity. Qed.

Example C09_modes :
  fst (wstep initW (WString [255;126;255])) = mkW [255;126;255] false /\
  fst (wstep (mkW [] true) (WString [255;126;255])) = mkW [121;126;121] true /\
  fst (wstep (mkW [7] true) (WFixedEnc [72;255] 4 true)) = mkW [7;255;255;84;87] true /\
  wstep (mkW [7] true) (WFixedEnc [72;255] 1 true) = (mkW [7] true, Err EValue) /\
  wstep (mkW [7] true) (WFixed [72;255] 3 false) = (mkW [7] true, Err EValue) /\
  wstep initW (WThree (THREE_MAX - 1)) = (mkW [253;253;253] false, Ok tt) /\
  wstep initW (WThree THREE_MAX) = (initW, Err EValue) /\
  wstep initW (WByte (-1)) = (initW, Err EValue) /\
  wstep initW (WChar (-1)) = (mkW [0] false, Ok tt) /\
  wstep initW (WChar (-2)) = (initW, Err EValue).
Proof. vm_compute. repeat split. Qed.

Print Assumptions C09_atomic.
Print Assumptions C09_rejects.
Print Assumptions C09_accept_size.
Print Assumptions C09_in_range_accepted.
Print Assumptions C09_string_output.
Print Assumptions C09_sanitised.
Print Assumptions C09_sanitise_map.
Print Assumptions C09_exact_image.
Print Assumptions C09_history.
