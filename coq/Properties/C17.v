(* C17: a specification that breaks a rule of the protocol grammar is rejected (elab = Err), wherever the violation
   occurs.  Statements only; the proofs are in Proofs/Reject.v.
   Vocabulary (defined in Proofs/Reject.v):
     rejects r                 := exists e, r = Err e
     bad_at T tf cls c i       := forall fuel rest, rejects (elab_instrs T tf fuel cls c (i :: rest))
     body_rejected T tf cls c b := forall fuel, rejects (elab_instrs T tf fuel cls c b)
     chunk_ctx c / case_ctx c  := the context in which a <chunked> body / a <case> body is elaborated
     occurs i kc ks body       := i occurs in body at some (arbitrarily nested) position; kc / ks tell whether the
                                  path crosses a <chunked> / a <case>
     body_of f body            := body is the body of a struct or packet declared in file f *)
From EO Require Import Prelude.Py Model.Spec Model.Elab Proofs.ElabAttr Proofs.Reject.
Open Scope string_scope.
Open Scope list_scope.
Open Scope Z_scope.
Set Default Timeout 60.

(* ================= test protocol for the non-vacuity examples ================= *)
Definition enum_fam := mkREnum (Some "PacketFamily") (Some "char") [(Some "Connection", Some "1")].
Definition enum_act := mkREnum (Some "PacketAction") (Some "char") [(Some "Accept", Some "1"); (Some "Ping", Some "2")].
Definition enum_dir := mkREnum (Some "Direction") (Some "char") [(Some "Down", Some "0"); (Some "Up", Some "1")].
Definition struct_coords :=
  mkRStruct (Some "Coords") [RField (Some "x") (Some "char") None None None None; RField (Some "y") (Some "char") None None None None].
Definition net_file (enums : list renum) (structs : list rstruct) := mkRFile "net" ([enum_fam; enum_act; enum_dir] ++ enums) (struct_coords :: structs) [].
Definition pkt (body : list rinstr) := mkRPacket (Some "Connection") (Some "Accept") body.
Definition client_file (body : list rinstr) := mkRFile "net/client" [] [] [pkt body].
Definition proto (body : list rinstr) : list rfile := [net_file [] []; client_file body].

Definition fld (n ty : string) := RField (Some n) (Some ty) None None None None.
Definition fld_len (n ty len : string) := RField (Some n) (Some ty) (Some len) None None None.
Definition fld_opt (n ty : string) := RField (Some n) (Some ty) None None (Some "true") None.
Definition lit (ty v : string) := RField None (Some ty) None None None (Some v).
Definition arr (n ty : string) := RArray (Some n) (Some ty) None None None None.
Definition arr_delim (n ty : string) := RArray (Some n) (Some ty) None None (Some "true") None.
Definition len (n ty : string) := RLength (Some n) (Some ty) None None.
Definition case_ (v : string) (body : list rinstr) := RCase (Some v) None body.
Definition default_ (body : list rinstr) := RCase None (Some "true") body.

Definition good_body : list rinstr :=
  [fld "a" "char"; fld "d" "Direction"; len "n" "char"; fld_len "s" "string" "n"; fld "c" "Coords";
   RSwitch (Some "a") [case_ "1" [fld "p" "short"]; default_ [fld "q" "int"]];
   RSwitch (Some "d") [case_ "Up" [fld "p" "short"]; case_ "7" []];
   RChunked [arr_delim "xs" "char"; RBreak; fld "t" "string"]].

Example C17_base_accepted : accepts (proto good_body) = true.
Proof. vm_compute. reflexivity. Qed.


(* ================= (A) propagation: a rejected part rejects the whole, for every fuel ================= *)
Section A.
  Variable T : tenv.
  Variable tf : nat.
  Notation EI := (elab_instrs T tf).

  (* sequence: pre succeeds (for some fuel) with context c1, rest is rejected from c1 *)
  Theorem C17_A_sequence cls c pre rest f1 c1 es aux :
    EI f1 cls c pre = Ok (c1, es, aux) -> (forall f, rejects (EI f cls c1 rest)) ->
    forall f, rejects (EI f cls c (pre ++ rest)).
  Proof. exact (seq_rejected T tf cls c pre rest f1 c1 es aux). Qed.

  (* sequence: pre itself is rejected *)
  Theorem C17_A_sequence_prefix cls c pre rest :
    (forall f, rejects (EI f cls c pre)) -> forall f, rejects (EI f cls c (pre ++ rest)).
  Proof. exact (seq_rejected_prefix T tf cls c pre rest). Qed.

  (* sequence: whatever pre does, rest is rejected from every context pre can produce *)
  Theorem C17_A_sequence_gen cls c pre rest :
    (forall f c1 es aux, EI f cls c pre = Ok (c1, es, aux) -> forall f', rejects (EI f' cls c1 rest)) ->
    forall f, rejects (EI f cls c (pre ++ rest)).
  Proof. exact (seq_rejected_gen T tf cls c pre rest). Qed.

  (* one rejected instruction anywhere in a list rejects the list *)
  Theorem C17_A_sequence_instruction cls c pre i rest :
    (forall c1, bad_at T tf cls c1 i) -> forall f, rejects (EI f cls c (pre ++ i :: rest)).
  Proof. exact (seq_rejected_instr_any T tf cls c pre i rest). Qed.

  Theorem C17_A_chunked cls c body :
    (forall f, rejects (EI f cls (chunk_ctx c) body)) ->
    forall f rest, rejects (EI f cls c (RChunked body :: rest)).
  Proof. exact (chunked_rejected T tf cls c body). Qed.

  Theorem C17_A_switch cls c field cs1 v d body cs2 :
    (forall ccls f, rejects (EI f ccls (case_ctx c) body)) ->
    forall f rest, rejects (EI f cls c (RSwitch field (cs1 ++ RCase v d body :: cs2) :: rest)).
  Proof. exact (switch_rejected T tf cls c field cs1 v d body cs2). Qed.

  Theorem C17_A_object cls body : (forall f, rejects (EI f cls ctx0 body)) -> rejects (elab_object T tf cls body).
  Proof. exact (object_rejected T tf cls body). Qed.

  Theorem C17_A_file_struct f s :
    In s (rf_structs f) -> (forall n, rs_name s = Some n -> rejects (elab_object T tf n (rs_body s))) ->
    rejects (gen_file T tf f).
  Proof. exact (file_rejected_struct T tf f s). Qed.

  Theorem C17_A_file_packet f p :
    In p (rf_packets f) -> (forall cls, rejects (elab_object T tf cls (rp_body p))) -> rejects (gen_file T tf f).
  Proof. exact (file_rejected_packet T tf f p). Qed.

  (* a context-insensitive local violation is rejected at ANY path, from any context, for any fuel *)
  Theorem C17_A_any_path i kc ks body :
    (forall cls c, bad_at T tf cls c i) -> occurs i kc ks body -> forall cls c f, rejects (EI f cls c body).
  Proof. exact (occurs_rejected T tf i kc ks body). Qed.

  (* context-sensitive violations: P holds initially and survives along the path *)
  Theorem C17_A_any_path_gen (P : ctx -> Prop) i kc ks body :
    (forall cls c, P c -> bad_at T tf cls c i) -> seq_stable T tf P -> occurs i kc ks body ->
    (kc = true -> chunk_stable P) -> (ks = true -> case_stable P) ->
    forall cls c, P c -> forall f, rejects (EI f cls c body).
  Proof. intros Hb Hs Ho. exact (occurs_rejected_gen T tf P i Hb Hs kc ks body Ho). Qed.
End A.

Theorem C17_A_protocol_index fs : rejects (index_files [] fs) -> rejects (elab fs).
Proof. exact (protocol_rejected_index fs). Qed.

Theorem C17_A_protocol_file fs f :
  In f fs -> (forall T, index_files [] fs = Ok T -> rejects (gen_file T (S (S (List.length T))) f)) -> rejects (elab fs).
Proof. exact (protocol_rejected_file fs f). Qed.

(* a rejected struct or packet body anywhere in any file rejects the whole protocol *)
Theorem C17_A_protocol_body fs f body :
  In f fs -> body_of f body ->
  (forall T, index_files [] fs = Ok T -> forall cls f', rejects (elab_instrs T (S (S (List.length T))) f' cls ctx0 body)) ->
  rejects (elab fs).
Proof. exact (protocol_rejected_body fs f body). Qed.

(* the rule holds wherever in a specification the violation occurs *)
Theorem C17_A_protocol_any_path fs f body i kc ks :
  In f fs -> body_of f body -> occurs i kc ks body ->
  (forall T, index_files [] fs = Ok T -> forall cls c, bad_at T (S (S (List.length T))) cls c i) ->
  rejects (elab fs).
Proof. exact (protocol_rejected_occurrence fs f body i kc ks). Qed.

Theorem C17_A_accepts fs : rejects (elab fs) <-> accepts fs = false.
Proof. exact (rejects_accepts fs). Qed.

(* ================= (B) local rules ================= *)
Section B.
  Variable T : tenv.
  Variable tf : nat.
  Variable cls : string.
  Variable c : ctx.
  Notation bad := (bad_at T tf cls c).
  Notation EI := (elab_instrs T tf).

  (* --- unknown type --- *)
  Theorem C17_B_field_unknown_type n tn l p o tx : rejects (get_type T tf tn l) -> bad (RField n (Some tn) l p o tx).
  Proof. apply field_unknown_type. Qed.
  Theorem C17_B_array_unknown_type n tn l o d tr : rejects (get_type T tf tn None) -> bad (RArray n (Some tn) l o d tr).
  Proof. apply array_unknown_type. Qed.
  Theorem C17_B_length_unknown_type n tn off o : rejects (get_type T tf tn None) -> bad (RLength n (Some tn) off o).
  Proof. apply length_unknown_type. Qed.
  Theorem C17_B_dummy_unknown_type tn tx : rejects (get_type T tf tn None) -> bad (RDummy (Some tn) tx).
  Proof. apply dummy_unknown_type. Qed.
  (* a name that is neither builtin nor declared does not resolve *)
  Theorem C17_B_undeclared_name_unresolved fuel n : custom_name n = true -> assoc T n = None -> rejects (get_type T fuel n None).
  Proof. apply get_type_unknown. Qed.

  (* --- redefined field --- *)
  Theorem C17_B_field_redefined n fd ty l p o tx : assoc (cx_fields c) n = Some fd -> bad (RField (Some n) ty l p o tx).
  Proof. apply field_redefined. Qed.
  Theorem C17_B_array_redefined n fd ty l o d tr : assoc (cx_fields c) n = Some fd -> bad (RArray (Some n) ty l o d tr).
  Proof. apply array_redefined. Qed.
  Theorem C17_B_length_redefined n fd ty off o : assoc (cx_fields c) n = Some fd -> bad (RLength (Some n) ty off o).
  Proof. apply length_redefined. Qed.
  (* two-instruction form: a binder of n, anything in between, another binder of n (same list) *)
  Theorem C17_B_redefined_later i1 mid i2 rest n :
    binds i1 n -> binds i2 n -> forall f, rejects (EI f cls c (i1 :: mid ++ i2 :: rest)).
  Proof. apply redefined_later. Qed.
  (* ... also when the second binder sits inside (nested) <chunked> sections later in the list *)
  Theorem C17_B_redefined_later_path i1 i2 n kc body :
    binds i1 n -> binds i2 n -> occurs i2 kc false body -> forall f, rejects (EI f cls c (i1 :: body)).
  Proof. apply redefined_later_path. Qed.

  (* --- length references --- *)
  Theorem C17_B_field_bad_length_ref n ty l p o tx :
    isdigit l = false -> assoc (cx_lenmap c) l = None -> bad (RField n ty (Some l) p o tx).
  Proof. apply field_bad_length_ref. Qed.
  Theorem C17_B_array_bad_length_ref n ty l o d tr :
    isdigit l = false -> assoc (cx_lenmap c) l = None -> bad (RArray n ty (Some l) o d tr).
  Proof. apply array_bad_length_ref. Qed.
  Theorem C17_B_field_length_ref_twice n ty l p o tx : assoc (cx_lenmap c) l = Some true -> bad (RField n ty (Some l) p o tx).
  Proof. apply field_length_ref_twice. Qed.
  Theorem C17_B_array_length_ref_twice n ty l o d tr : assoc (cx_lenmap c) l = Some true -> bad (RArray n ty (Some l) o d tr).
  Proof. apply array_length_ref_twice. Qed.
  Theorem C17_B_length_ref_twice_later i1 mid i2 rest l :
    isdigit l = false -> marks_len i1 l -> refs_len i2 l -> forall f, rejects (EI f cls c (i1 :: mid ++ i2 :: rest)).
  Proof. apply length_ref_twice. Qed.
  Theorem C17_B_length_ref_twice_later_path i1 i2 l kc body :
    isdigit l = false -> marks_len i1 l -> refs_len i2 l -> occurs i2 kc false body ->
    forall f, rejects (EI f cls c (i1 :: body)).
  Proof. apply length_ref_twice_path. Qed.

  (* --- delimited arrays / breaks outside chunked sections --- *)
  Theorem C17_B_array_delimited_unchunked n ty l o d tr :
    cx_chunked c = false -> flag_attr d = true -> bad (RArray n ty l o d tr).
  Proof. apply array_delimited_unchunked. Qed.
  Theorem C17_B_break_unchunked : cx_chunked c = false -> bad RBreak.
  Proof. apply break_unchunked. Qed.
  (* path form: not under any <chunked> of the object (the path may cross <case>s) *)
  Theorem C17_B_break_outside_chunked ks body :
    cx_chunked c = false -> occurs RBreak false ks body -> forall f, rejects (EI f cls c body).
  Proof. apply break_outside_chunked. Qed.
  Theorem C17_B_delimited_outside_chunked ks body n ty l o d tr :
    cx_chunked c = false -> flag_attr d = true -> occurs (RArray n ty l o d tr) false ks body ->
    forall f, rejects (EI f cls c body).
  Proof. apply delimited_outside_chunked. Qed.
  (* the invariant behind it: elaboration preserves cx_chunked (and accessible fields, and used length fields) *)
  Theorem C17_B_context_invariant f is c' es aux : EI f cls c is = Ok (c', es, aux) -> ctx_le c c'.
  Proof. apply EI_ctx_le. Qed.

  (* --- required after optional --- *)
  Theorem C17_B_field_required_after_optional n ty l p o tx : cx_ropt c = true -> flag_attr o = false -> bad (RField n ty l p o tx).
  Proof. apply field_required_after_optional. Qed.
  Theorem C17_B_array_required_after_optional n ty l o d tr : cx_ropt c = true -> flag_attr o = false -> bad (RArray n ty l o d tr).
  Proof. apply array_required_after_optional. Qed.
  Theorem C17_B_length_required_after_optional n ty off o : cx_ropt c = true -> flag_attr o = false -> bad (RLength n ty off o).
  Proof. apply length_required_after_optional. Qed.
  Theorem C17_B_required_right_after_optional i1 i2 rest :
    optional_binder i1 -> required_binder i2 -> forall f, rejects (EI f cls c (i1 :: i2 :: rest)).
  Proof. apply required_right_after_optional. Qed.
  Theorem C17_B_required_after_optional i1 mid i2 rest :
    optional_binder i1 -> Forall simple_binder mid -> required_binder i2 ->
    forall f, rejects (EI f cls c (i1 :: mid ++ i2 :: rest)).
  Proof. apply required_after_optional. Qed.

  (* --- nothing after a dummy --- *)
  Theorem C17_B_anything_after_dummy i : cx_rdummy c = true -> bad i.
  Proof. apply anything_after_dummy. Qed.
  Theorem C17_B_dummy_then_any ty tx i rest : forall f, rejects (EI f cls c (RDummy ty tx :: i :: rest)).
  Proof. apply dummy_then_any. Qed.
  Theorem C17_B_dummy_then_any_path ty tx i kc ks body :
    occurs i kc ks body -> forall f, rejects (EI f cls c (RDummy ty tx :: body)).
  Proof. apply after_dummy_path. Qed.

  (* a <chunked> or <case> that ENDS with a dummy (at any depth) also forbids whatever follows it *)
  Theorem C17_B_after_nested_dummy i j rest : leaves_dummy i -> forall f, rejects (EI f cls c (i :: j :: rest)).
  Proof. apply after_nested_dummy. Qed.
  Theorem C17_B_after_nested_dummy_path i j kc ks body :
    leaves_dummy i -> occurs j kc ks body -> forall f, rejects (EI f cls c (i :: body)).
  Proof. apply after_nested_dummy_path. Qed.

  (* --- unnamed fields --- *)
  Theorem C17_B_field_unnamed_without_value ty l p o : bad (RField None ty l p o None).
  Proof. apply field_unnamed_without_value. Qed.
  Theorem C17_B_field_unnamed_optional ty l p o tx : flag_attr o = true -> bad (RField None ty l p o tx).
  Proof. apply field_unnamed_optional. Qed.

  (* --- hardcoded values --- *)
  Theorem C17_B_field_hardcoded_int_not_digits n tn l p o lit t i :
    get_type T tf tn l = Ok t -> ti_ty t = EInt i -> isdigit lit = false -> bad (RField n (Some tn) l p o (Some lit)).
  Proof. apply field_hardcoded_int_not_digits. Qed.
  Theorem C17_B_field_hardcoded_bool_not_bool n tn l p o lit t u :
    get_type T tf tn l = Ok t -> ti_ty t = EBool u -> lit <> "true" -> lit <> "false" -> bad (RField n (Some tn) l p o (Some lit)).
  Proof. apply field_hardcoded_bool_not_bool. Qed.
  Theorem C17_B_dummy_hardcoded_int_not_digits tn lit t i :
    get_type T tf tn None = Ok t -> ti_ty t = EInt i -> isdigit lit = false -> bad (RDummy (Some tn) (Some lit)).
  Proof. apply dummy_hardcoded_int_not_digits. Qed.
  Theorem C17_B_dummy_hardcoded_bool_not_bool tn lit t u :
    get_type T tf tn None = Ok t -> ti_ty t = EBool u -> lit <> "true" -> lit <> "false" -> bad (RDummy (Some tn) (Some lit)).
  Proof. apply dummy_hardcoded_bool_not_bool. Qed.
  Theorem C17_B_field_hardcoded_string_length_mismatch n tn l p o lit t enc z :
    get_type T tf tn (Some l) = Ok t -> ti_ty t = EStr enc -> parse_int l = Some z -> z <> str_len lit ->
    bad (RField n (Some tn) (Some l) p o (Some lit)).
  Proof. apply field_hardcoded_string_length_mismatch. Qed.
  (* enum, struct, blob: is_basic = false *)
  Theorem C17_B_field_hardcoded_nonbasic n tn l p o lit t :
    get_type T tf tn l = Ok t -> is_basic t = false -> bad (RField n (Some tn) l p o (Some lit)).
  Proof. apply field_hardcoded_nonbasic. Qed.
  Theorem C17_B_dummy_hardcoded_nonbasic tn lit t :
    get_type T tf tn None = Ok t -> is_basic t = false -> bad (RDummy (Some tn) (Some lit)).
  Proof. apply dummy_hardcoded_nonbasic. Qed.

  (* --- length attribute on a non-string type --- *)
  Theorem C17_B_length_attr_nonstring_unresolved fuel name l : is_string_name name = None -> rejects (get_type T fuel name (Some l)).
  Proof. apply get_type_length_nonstring. Qed.
  Theorem C17_B_field_length_on_nonstring n tn l p o tx : is_string_name tn = None -> bad (RField n (Some tn) (Some l) p o tx).
  Proof. apply field_length_on_nonstring. Qed.

  (* --- length fields --- *)
  Theorem C17_B_length_non_integer_type n tn off o t :
    get_type T tf tn None = Ok t -> is_integer t = None -> bad (RLength n (Some tn) off o).
  Proof. apply length_non_integer_type. Qed.
  Theorem C17_B_length_bad_offset n ty off o : parse_int off = None -> bad (RLength n ty (Some off) o).
  Proof. apply length_bad_offset. Qed.

  (* --- arrays --- *)
  Theorem C17_B_array_unbounded_element n tn l o d tr t :
    flag_attr d = false -> get_type T tf tn None = Ok t -> ti_bounded t = false -> bad (RArray n (Some tn) l o d tr).
  Proof. apply array_unbounded_element. Qed.

  (* --- missing attributes --- *)
  Theorem C17_B_array_without_name ty l o d tr : bad (RArray None ty l o d tr).
  Proof. apply array_without_name. Qed.
  Theorem C17_B_array_without_type n l o d tr : bad (RArray n None l o d tr).
  Proof. apply array_without_type. Qed.
  Theorem C17_B_field_without_type n l p o tx : bad (RField n None l p o tx).
  Proof. apply field_without_type. Qed.
  Theorem C17_B_length_without_name ty off o : bad (RLength None ty off o).
  Proof. apply length_without_name. Qed.
  Theorem C17_B_length_without_type n off o : bad (RLength n None off o).
  Proof. apply length_without_type. Qed.
  Theorem C17_B_dummy_without_type tx : bad (RDummy None tx).
  Proof. apply dummy_without_type. Qed.
  Theorem C17_B_dummy_without_value ty : bad (RDummy ty None).
  Proof. apply dummy_without_value. Qed.

  (* --- switches --- *)
  Theorem C17_B_switch_without_field cases : bad (RSwitch None cases).
  Proof. apply switch_without_field. Qed.
  Theorem C17_B_switch_inaccessible_field fname cases :
    assoc (cx_fields c) fname = None -> cases <> [] -> bad (RSwitch (Some fname) cases).
  Proof. apply switch_inaccessible_field. Qed.
  Theorem C17_B_switch_on_array_field fname fd cases :
    assoc (cx_fields c) fname = Some fd -> fd_array fd = true -> cases <> [] -> bad (RSwitch (Some fname) cases).
  Proof. apply switch_on_array_field. Qed.
  (* string, bool, blob, struct: switchable = false *)
  Theorem C17_B_switch_on_unsuitable_type fname fd cases :
    assoc (cx_fields c) fname = Some fd -> switchable (ti_ty (fd_ti fd)) = false -> cases <> [] ->
    bad (RSwitch (Some fname) cases).
  Proof. apply switch_on_unsuitable_type. Qed.
  Theorem C17_B_switch_default_first field v d b more : bool_attr d false = true -> bad (RSwitch field (RCase v d b :: more)).
  Proof. apply switch_default_first. Qed.
  Theorem C17_B_switch_case_without_value field cases d b :
    In (RCase None d b) cases -> bool_attr d false = false -> bad (RSwitch field cases).
  Proof. apply switch_case_without_value. Qed.
  Theorem C17_B_switch_case_int_not_digits fname fd i cases v d b :
    assoc (cx_fields c) fname = Some fd -> ti_ty (fd_ti fd) = EInt i ->
    In (RCase (Some v) d b) cases -> bool_attr d false = false -> isdigit v = false ->
    bad (RSwitch (Some fname) cases).
  Proof. apply switch_case_int_not_digits. Qed.
  Theorem C17_B_switch_case_enum_declared_ordinal fname fd en u cases v z d b :
    assoc (cx_fields c) fname = Some fd -> ti_ty (fd_ti fd) = EEnum en u ->
    In (RCase (Some v) d b) cases -> bool_attr d false = false ->
    parse_int v = Some z -> existsb (fun p => snd p =? z) (ti_values (fd_ti fd)) = true ->
    bad (RSwitch (Some fname) cases).
  Proof. apply switch_case_enum_declared_ordinal. Qed.
  Theorem C17_B_switch_case_enum_unknown_name fname fd en u cases v d b :
    assoc (cx_fields c) fname = Some fd -> ti_ty (fd_ti fd) = EEnum en u ->
    In (RCase (Some v) d b) cases -> bool_attr d false = false ->
    parse_int v = None -> assoc (ti_values (fd_ti fd)) v = None ->
    bad (RSwitch (Some fname) cases).
  Proof. apply switch_case_enum_unknown_name. Qed.

  (* --- type-name syntax `base:under` --- *)
  Theorem C17_D_override_two_colons fuel name base un :
    split_colon name = (base, Some un) -> has_colon un = true -> rejects (get_type T fuel name None).
  Proof. apply override_two_colons. Qed.
  Theorem C17_D_override_by_itself fuel name base : split_colon name = (base, Some base) -> rejects (get_type T fuel name None).
  Proof. apply override_by_itself. Qed.
  Theorem C17_D_override_non_integer fuel name base un :
    split_colon name = (base, Some un) -> builtin_int un = None -> rejects (get_type T fuel name None).
  Proof. apply override_non_integer. Qed.
  Theorem C17_D_override_on_integer fuel name base un i :
    split_colon name = (base, Some un) -> builtin_int base = Some i -> rejects (get_type T fuel name None).
  Proof. apply override_on_integer. Qed.
  Theorem C17_D_override_on_struct fuel name base un s p :
    split_colon name = (base, Some un) -> String.eqb base "bool" = false -> assoc T base = Some (RTStruct s p) ->
    rejects (get_type T fuel name None).
  Proof. apply override_on_struct. Qed.
  (* integer types are exactly byte/char/short/three/int *)
  Theorem C17_D_integer_types fuel tn ut i : get_type T fuel tn None = Ok ut -> is_integer ut = Some i -> builtin_int tn = Some i.
  Proof. apply get_type_integer_inv. Qed.

  (* --- a struct whose first (flattened) instruction has the struct's own type never resolves --- *)
  Theorem C17_D_struct_self_reference_unresolved n s p i rest :
    custom_name n = true -> assoc T n = Some (RTStruct s p) -> flatten (rs_body s) = i :: rest -> first_type_ref i n ->
    forall fuel, rejects (get_type T fuel n None).
  Proof. apply struct_self_reference. Qed.
End B.

(* ================= (D) declarations ================= *)
Theorem C17_D_duplicate_type_names fs : ~ NoDup (declared_names fs) -> rejects (elab fs).
Proof. intros H. apply protocol_rejected_index. now apply duplicate_type_names. Qed.
Theorem C17_D_duplicate_type_across_files fs1 f fs2 g fs3 n :
  declares_type f n -> declares_type g n -> rejects (elab (fs1 ++ f :: fs2 ++ g :: fs3)).
Proof. intros H1 H2. apply protocol_rejected_index. now apply duplicate_type_across_files with n. Qed.
Theorem C17_D_duplicate_enum_same_file fs f l1 e1 l2 e2 l3 n :
  In f fs -> rf_enums f = l1 ++ e1 :: l2 ++ e2 :: l3 -> re_name e1 = Some n -> re_name e2 = Some n -> rejects (elab fs).
Proof. intros Hf He H1 H2. apply protocol_rejected_index. exact (duplicate_enum_same_file fs f l1 e1 l2 e2 l3 n Hf He H1 H2). Qed.
Theorem C17_D_duplicate_struct_same_file fs f l1 s1 l2 s2 l3 n :
  In f fs -> rf_structs f = l1 ++ s1 :: l2 ++ s2 :: l3 -> rs_name s1 = Some n -> rs_name s2 = Some n -> rejects (elab fs).
Proof. intros Hf Hs H1 H2. apply protocol_rejected_index. exact (duplicate_struct_same_file fs f l1 s1 l2 s2 l3 n Hf Hs H1 H2). Qed.
Theorem C17_D_duplicate_enum_struct_same_file fs f e s n :
  In f fs -> In e (rf_enums f) -> In s (rf_structs f) -> re_name e = Some n -> rs_name s = Some n -> rejects (elab fs).
Proof. intros Hf He Hs H1 H2. apply protocol_rejected_index. exact (duplicate_enum_struct_same_file fs f e s n Hf He Hs H1 H2). Qed.
Theorem C17_D_unnamed_type fs f :
  In f fs -> ((exists e, In e (rf_enums f) /\ re_name e = None) \/ (exists s, In s (rf_structs f) /\ rs_name s = None)) ->
  rejects (elab fs).
Proof. intros Hf Hu. apply protocol_rejected_index. exact (unnamed_type fs f Hf Hu). Qed.

(* unknown type, protocol level: a field/array/length/dummy at any path of any body whose type is not declared anywhere *)
Theorem C17_D_unknown_type fs f body i kc ks n :
  In f fs -> body_of f body -> occurs i kc ks body -> refers_type i n ->
  custom_name n = true -> ~ In n (declared_names fs) -> rejects (elab fs).
Proof. exact (protocol_unknown_type fs f body i kc ks n). Qed.

(* enum values *)
Theorem C17_D_enum_value_bad_ordinal e n t : In (n, t) (re_values e) -> try_parse_int t = None -> rejects (enum_values e).
Proof. exact (enum_value_bad_ordinal e n t). Qed.
Theorem C17_D_enum_value_unnamed e t : In (None, t) (re_values e) -> rejects (enum_values e).
Proof. exact (enum_value_unnamed e t). Qed.
Theorem C17_D_enum_duplicate_ordinal e l1 n1 t1 l2 n2 t2 l3 z :
  re_values e = l1 ++ (n1, Some t1) :: l2 ++ (n2, Some t2) :: l3 -> parse_int t1 = Some z -> parse_int t2 = Some z ->
  rejects (enum_values e).
Proof. exact (enum_duplicate_ordinal e l1 n1 t1 l2 n2 t2 l3 z). Qed.
Theorem C17_D_enum_duplicate_name e l1 n1 t1 l2 n2 t2 l3 :
  re_values e = l1 ++ (Some n1, t1) :: l2 ++ (Some n2, t2) :: l3 -> python_name n1 = python_name n2 ->
  rejects (enum_values e).
Proof. exact (enum_duplicate_name e l1 n1 t1 l2 n2 t2 l3). Qed.
(* ... and a declared enum with malformed values, or a malformed underlying type, rejects the protocol *)
Theorem C17_D_enum_bad_values fs f e : In f fs -> In e (rf_enums f) -> rejects (enum_values e) -> rejects (elab fs).
Proof. exact (protocol_enum_bad_values fs f e). Qed.
Theorem C17_D_enum_non_integer_underlying fs f e tn :
  In f fs -> In e (rf_enums f) -> re_type e = Some tn -> builtin_int tn = None -> rejects (elab fs).
Proof. exact (protocol_enum_non_integer_underlying fs f e tn). Qed.
Theorem C17_D_enum_without_underlying fs f e : In f fs -> In e (rf_enums f) -> re_type e = None -> rejects (elab fs).
Proof. exact (protocol_enum_without_underlying fs f e). Qed.
Theorem C17_D_enum_self_underlying fs f e : In f fs -> In e (rf_enums f) -> re_type e = re_name e -> rejects (elab fs).
Proof. exact (protocol_enum_self_underlying fs f e). Qed.

(* structs *)
Theorem C17_D_struct_self_reference fs f s n i rest :
  In f fs -> In s (rf_structs f) -> rs_name s = Some n -> flatten (rs_body s) = i :: rest -> first_type_ref i n ->
  rejects (elab fs).
Proof. exact (protocol_struct_self_reference fs f s n i rest). Qed.

(* packets *)
Theorem C17_D_packet_bad_path fs f p :
  In f fs -> In p (rf_packets f) -> rf_path f <> "net/client" -> rf_path f <> "net/server" -> rejects (elab fs).
Proof. exact (protocol_packet_bad_path fs f p). Qed.
Theorem C17_D_packet_unknown_family fs f p fa :
  In f fs -> In p (rf_packets f) -> rp_family p = Some fa ->
  (forall g e t, In g fs -> In e (rf_enums g) -> re_name e = Some "PacketFamily" -> ~ In (Some fa, Some t) (re_values e)) ->
  rejects (elab fs).
Proof. exact (protocol_packet_unknown_family fs f p fa). Qed.
Theorem C17_D_packet_unknown_action fs f p ac :
  In f fs -> In p (rf_packets f) -> rp_action p = Some ac ->
  (forall g e t, In g fs -> In e (rf_enums g) -> re_name e = Some "PacketAction" -> ~ In (Some ac, Some t) (re_values e)) ->
  rejects (elab fs).
Proof. exact (protocol_packet_unknown_action fs f p ac). Qed.
Theorem C17_D_packet_without_family_or_action fs f p :
  In f fs -> In p (rf_packets f) -> rp_family p = None \/ rp_action p = None -> rejects (elab fs).
Proof. exact (protocol_packet_without_family_or_action fs f p). Qed.
Theorem C17_D_duplicate_packet_id fs f l1 p1 l2 p2 l3 fa ac :
  In f fs -> rf_packets f = l1 ++ p1 :: l2 ++ p2 :: l3 ->
  rp_family p1 = Some fa -> rp_action p1 = Some ac -> rp_family p2 = Some fa -> rp_action p2 = Some ac ->
  rejects (elab fs).
Proof. exact (protocol_duplicate_packet_id fs f l1 p1 l2 p2 l3 fa ac). Qed.

(* breaks / delimited arrays outside chunked sections, protocol level *)
Theorem C17_D_break_outside_chunked fs f body ks :
  In f fs -> body_of f body -> occurs RBreak false ks body -> rejects (elab fs).
Proof. exact (protocol_rejected_break fs f body ks). Qed.
Theorem C17_D_delimited_outside_chunked fs f body ks n ty l o d tr :
  In f fs -> body_of f body -> flag_attr d = true -> occurs (RArray n ty l o d tr) false ks body -> rejects (elab fs).
Proof. exact (protocol_rejected_delimited fs f body ks n ty l o d tr). Qed.

(* ================= assumptions ================= *)
Print Assumptions C17_A_sequence.
Print Assumptions C17_A_sequence_prefix.
Print Assumptions C17_A_sequence_gen.
Print Assumptions C17_A_sequence_instruction.
Print Assumptions C17_A_chunked.
Print Assumptions C17_A_switch.
Print Assumptions C17_A_object.
Print Assumptions C17_A_file_struct.
Print Assumptions C17_A_file_packet.
Print Assumptions C17_A_any_path.
Print Assumptions C17_A_any_path_gen.
Print Assumptions C17_A_protocol_index.
Print Assumptions C17_A_protocol_file.
Print Assumptions C17_A_protocol_body.
Print Assumptions C17_A_protocol_any_path.
Print Assumptions C17_A_accepts.
Print Assumptions C17_B_field_unknown_type.
Print Assumptions C17_B_array_unknown_type.
Print Assumptions C17_B_length_unknown_type.
Print Assumptions C17_B_dummy_unknown_type.
Print Assumptions C17_B_undeclared_name_unresolved.
Print Assumptions C17_B_field_redefined.
Print Assumptions C17_B_array_redefined.
Print Assumptions C17_B_length_redefined.
Print Assumptions C17_B_redefined_later.
Print Assumptions C17_B_redefined_later_path.
Print Assumptions C17_B_field_bad_length_ref.
Print Assumptions C17_B_array_bad_length_ref.
Print Assumptions C17_B_field_length_ref_twice.
Print Assumptions C17_B_array_length_ref_twice.
Print Assumptions C17_B_length_ref_twice_later.
Print Assumptions C17_B_length_ref_twice_later_path.
Print Assumptions C17_B_array_delimited_unchunked.
Print Assumptions C17_B_break_unchunked.
Print Assumptions C17_B_break_outside_chunked.
Print Assumptions C17_B_delimited_outside_chunked.
Print Assumptions C17_B_context_invariant.
Print Assumptions C17_B_field_required_after_optional.
Print Assumptions C17_B_array_required_after_optional.
Print Assumptions C17_B_length_required_after_optional.
Print Assumptions C17_B_required_right_after_optional.
Print Assumptions C17_B_required_after_optional.
Print Assumptions C17_B_anything_after_dummy.
Print Assumptions C17_B_dummy_then_any.
Print Assumptions C17_B_dummy_then_any_path.
Print Assumptions C17_B_after_nested_dummy.
Print Assumptions C17_B_after_nested_dummy_path.
Print Assumptions C17_B_field_unnamed_without_value.
Print Assumptions C17_B_field_unnamed_optional.
Print Assumptions C17_B_field_hardcoded_int_not_digits.
Print Assumptions C17_B_field_hardcoded_bool_not_bool.
Print Assumptions C17_B_dummy_hardcoded_int_not_digits.
Print Assumptions C17_B_dummy_hardcoded_bool_not_bool.
Print Assumptions C17_B_field_hardcoded_string_length_mismatch.
Print Assumptions C17_B_field_hardcoded_nonbasic.
Print Assumptions C17_B_dummy_hardcoded_nonbasic.
Print Assumptions C17_B_length_attr_nonstring_unresolved.
Print Assumptions C17_B_field_length_on_nonstring.
Print Assumptions C17_B_length_non_integer_type.
Print Assumptions C17_B_length_bad_offset.
Print Assumptions C17_B_array_unbounded_element.
Print Assumptions C17_B_array_without_name.
Print Assumptions C17_B_array_without_type.
Print Assumptions C17_B_field_without_type.
Print Assumptions C17_B_length_without_name.
Print Assumptions C17_B_length_without_type.
Print Assumptions C17_B_dummy_without_type.
Print Assumptions C17_B_dummy_without_value.
Print Assumptions C17_B_switch_without_field.
Print Assumptions C17_B_switch_inaccessible_field.
Print Assumptions C17_B_switch_on_array_field.
Print Assumptions C17_B_switch_on_unsuitable_type.
Print Assumptions C17_B_switch_default_first.
Print Assumptions C17_B_switch_case_without_value.
Print Assumptions C17_B_switch_case_int_not_digits.
Print Assumptions C17_B_switch_case_enum_declared_ordinal.
Print Assumptions C17_B_switch_case_enum_unknown_name.
Print Assumptions C17_D_override_two_colons.
Print Assumptions C17_D_override_by_itself.
Print Assumptions C17_D_override_non_integer.
Print Assumptions C17_D_override_on_integer.
Print Assumptions C17_D_override_on_struct.
Print Assumptions C17_D_integer_types.
Print Assumptions C17_D_struct_self_reference_unresolved.
Print Assumptions C17_D_duplicate_type_names.
Print Assumptions C17_D_duplicate_type_across_files.
Print Assumptions C17_D_duplicate_enum_same_file.
Print Assumptions C17_D_duplicate_struct_same_file.
Print Assumptions C17_D_duplicate_enum_struct_same_file.
Print Assumptions C17_D_unnamed_type.
Print Assumptions C17_D_unknown_type.
Print Assumptions C17_D_enum_value_bad_ordinal.
Print Assumptions C17_D_enum_value_unnamed.
Print Assumptions C17_D_enum_duplicate_ordinal.
Print Assumptions C17_D_enum_duplicate_name.
Print Assumptions C17_D_enum_bad_values.
Print Assumptions C17_D_enum_non_integer_underlying.
Print Assumptions C17_D_enum_without_underlying.
Print Assumptions C17_D_enum_self_underlying.
Print Assumptions C17_D_struct_self_reference.
Print Assumptions C17_D_packet_bad_path.
Print Assumptions C17_D_packet_unknown_family.
Print Assumptions C17_D_packet_unknown_action.
Print Assumptions C17_D_packet_without_family_or_action.
Print Assumptions C17_D_duplicate_packet_id.
Print Assumptions C17_D_break_outside_chunked.
Print Assumptions C17_D_delimited_outside_chunked.

(* ================= non-vacuity: each rule rejects a concrete protocol that is accepted without the violation ========= *)
Definition rej_acc (bad good : list rfile) : Prop := accepts bad = false /\ accepts good = true.
Ltac run := vm_compute; split; reflexivity.

Example C17_ex_unknown_type : rej_acc (proto [fld "a" "char"; fld "b" "nosuch"]) (proto [fld "a" "char"]).
Proof. run. Qed.
Example C17_ex_redefined_field : rej_acc (proto [fld "a" "char"; fld "b" "int"; arr "a" "short"]) (proto [fld "a" "char"; fld "b" "int"]).
Proof. run. Qed.
Example C17_ex_bad_length_ref : rej_acc (proto [fld "a" "char"; fld_len "s" "string" "a"]) (proto [fld "a" "char"]).
Proof. run. Qed.
Example C17_ex_length_ref_twice :
  rej_acc (proto [len "n" "char"; fld_len "s" "string" "n"; fld "b" "char"; fld_len "t" "string" "n"])
          (proto [len "n" "char"; fld_len "s" "string" "n"; fld "b" "char"]).
Proof. run. Qed.
Example C17_ex_delimited_outside_chunked :
  rej_acc (proto [fld "a" "char"; RSwitch (Some "a") [case_ "1" [arr_delim "xs" "char"]]])
          (proto [fld "a" "char"; RSwitch (Some "a") [case_ "1" []]]).
Proof. run. Qed.
Example C17_ex_delimited_inside_chunked_ok : accepts (proto [RChunked [fld "a" "char"; RSwitch (Some "a") [case_ "1" [arr_delim "xs" "char"]]]]) = true.
Proof. vm_compute. reflexivity. Qed.
Example C17_ex_break_outside_chunked : rej_acc (proto [fld "a" "char"; RBreak]) (proto [fld "a" "char"]).
Proof. run. Qed.
Example C17_ex_required_after_optional : rej_acc (proto [fld_opt "a" "char"; fld "b" "char"]) (proto [fld_opt "a" "char"]).
Proof. run. Qed.
Example C17_ex_after_dummy :
  rej_acc (proto [RDummy (Some "char") (Some "0"); fld "b" "char"]) (proto [RDummy (Some "char") (Some "0")]).
Proof. run. Qed.
Example C17_ex_after_nested_dummy :
  rej_acc (proto [fld "a" "char"; RSwitch (Some "a") [case_ "1" [RChunked [RDummy (Some "char") (Some "0")]]]; fld "b" "char"])
          (proto [fld "a" "char"; RSwitch (Some "a") [case_ "1" [RChunked [RDummy (Some "char") (Some "0")]]]]).
Proof. run. Qed.
Example C17_ex_unnamed_without_value : rej_acc (proto [fld "a" "char"; RField None (Some "char") None None None None]) (proto [fld "a" "char"]).
Proof. run. Qed.
Example C17_ex_unnamed_optional :
  rej_acc (proto [RField None (Some "char") None None (Some "true") (Some "1")]) (proto [RField None (Some "char") None None None (Some "1")]).
Proof. run. Qed.
Example C17_ex_hardcoded_wrong_type : rej_acc (proto [lit "char" "x"]) (proto [lit "char" "7"]).
Proof. run. Qed.
Example C17_ex_hardcoded_bool : rej_acc (proto [lit "bool" "1"]) (proto [lit "bool" "true"]).
Proof. run. Qed.
Example C17_ex_hardcoded_wrong_length :
  rej_acc (proto [RField None (Some "string") (Some "3") None None (Some "ab")])
          (proto [RField None (Some "string") (Some "2") None None (Some "ab")]).
Proof. run. Qed.
Example C17_ex_hardcoded_enum : rej_acc (proto [lit "Direction" "1"]) (proto []).
Proof. run. Qed.
Example C17_ex_length_on_non_string : rej_acc (proto [fld_len "a" "char" "3"]) (proto [fld "a" "char"]).
Proof. run. Qed.
Example C17_ex_length_field_non_integer : rej_acc (proto [len "n" "Direction"]) (proto [len "n" "char"]).
Proof. run. Qed.
Example C17_ex_length_field_bad_offset :
  rej_acc (proto [RLength (Some "n") (Some "char") (Some "x") None]) (proto [RLength (Some "n") (Some "char") (Some "-1") None]).
Proof. run. Qed.
Example C17_ex_array_unbounded : rej_acc (proto [arr "xs" "string"]) (proto [arr "xs" "Coords"]).
Proof. run. Qed.
Example C17_ex_switch_inaccessible :
  rej_acc (proto [fld "a" "char"; RSwitch (Some "b") [case_ "1" []]]) (proto [fld "a" "char"; RSwitch (Some "a") [case_ "1" []]]).
Proof. run. Qed.
Example C17_ex_switch_on_array :
  rej_acc (proto [arr "xs" "char"; RSwitch (Some "xs") [case_ "1" []]]) (proto [arr "xs" "char"]).
Proof. run. Qed.
Example C17_ex_switch_on_string :
  rej_acc (proto [fld "s" "string"; RSwitch (Some "s") [case_ "1" []]]) (proto [fld "s" "string"]).
Proof. run. Qed.
Example C17_ex_lone_default :
  rej_acc (proto [fld "a" "char"; RSwitch (Some "a") [default_ []]]) (proto [fld "a" "char"; RSwitch (Some "a") [case_ "1" []; default_ []]]).
Proof. run. Qed.
Example C17_ex_case_without_value :
  rej_acc (proto [fld "a" "char"; RSwitch (Some "a") [case_ "1" []; RCase None None []]]) (proto [fld "a" "char"; RSwitch (Some "a") [case_ "1" []]]).
Proof. run. Qed.
Example C17_ex_case_not_digits :
  rej_acc (proto [fld "a" "char"; RSwitch (Some "a") [case_ "Up" []]]) (proto [fld "a" "char"; RSwitch (Some "a") [case_ "1" []]]).
Proof. run. Qed.
Example C17_ex_case_declared_ordinal :
  rej_acc (proto [fld "d" "Direction"; RSwitch (Some "d") [case_ "1" []]]) (proto [fld "d" "Direction"; RSwitch (Some "d") [case_ "Up" []]]).
Proof. run. Qed.
Example C17_ex_case_unknown_enum_name :
  rej_acc (proto [fld "d" "Direction"; RSwitch (Some "d") [case_ "Sideways" []]]) (proto [fld "d" "Direction"; RSwitch (Some "d") [case_ "5" []]]).
Proof. run. Qed.

(* wherever it occurs: under a <case> under a <chunked> under a <case> *)
Definition nested (leaf : list rinstr) : list rinstr :=
  [fld "a" "char"; RSwitch (Some "a") [case_ "1" [RChunked [fld "z" "char"; RSwitch (Some "z") [case_ "1" leaf]]]]].
Example C17_ex_nested_unknown_type : rej_acc (proto (nested [fld "w" "nosuch"])) (proto (nested [])).
Proof. run. Qed.
Example C17_ex_nested_in_struct :
  rej_acc [net_file [] [mkRStruct (Some "S") (nested [fld "w" "nosuch"])]; client_file []]
          [net_file [] [mkRStruct (Some "S") (nested [fld "w" "char"])]; client_file []].
Proof. run. Qed.
(* ... and the path theorem does apply to it (its hypotheses are satisfiable) *)
Example C17_ex_any_path_theorem_applies : rejects (elab (proto (nested [fld "w" "nosuch"]))).
Proof.
  apply C17_D_unknown_type with (f := client_file (nested [fld "w" "nosuch"])) (body := nested [fld "w" "nosuch"])
    (i := fld "w" "nosuch") (kc := true) (ks := true) (n := "nosuch").
  - right. left. reflexivity.
  - right. exists (pkt (nested [fld "w" "nosuch"])). split; [now left | reflexivity].
  - apply (occ_case _ true true [fld "a" "char"] (Some "a") [] (Some "1") None _ [] []).
    apply (occ_chunked _ false true [] _ []).
    apply (occ_case _ false false [fld "z" "char"] (Some "z") [] (Some "1") None _ [] []).
    apply (occ_here _ [] []).
  - reflexivity.
  - reflexivity.
  - vm_compute. intros H. repeat (destruct H as [H|H]; [discriminate H|]). exact H.
Qed.

(* declarations *)
Example C17_ex_duplicate_type_across_files :
  rej_acc [net_file [] []; mkRFile "pub" [] [mkRStruct (Some "Direction") []] []; client_file []]
          [net_file [] []; mkRFile "pub" [] [mkRStruct (Some "Direction2") []] []; client_file []].
Proof. run. Qed.
Example C17_ex_enum_bad_ordinal :
  rej_acc [net_file [mkREnum (Some "E") (Some "char") [(Some "A", Some "x")]] []; client_file []]
          [net_file [mkREnum (Some "E") (Some "char") [(Some "A", Some "1")]] []; client_file []].
Proof. run. Qed.
Example C17_ex_enum_missing_ordinal :
  rej_acc [net_file [mkREnum (Some "E") (Some "char") [(Some "A", None)]] []; client_file []]
          [net_file [mkREnum (Some "E") (Some "char") []] []; client_file []].
Proof. run. Qed.
Example C17_ex_enum_duplicate_ordinal :
  rej_acc [net_file [mkREnum (Some "E") (Some "char") [(Some "A", Some "1"); (Some "B", Some "1")]] []; client_file []]
          [net_file [mkREnum (Some "E") (Some "char") [(Some "A", Some "1"); (Some "B", Some "2")]] []; client_file []].
Proof. run. Qed.
Example C17_ex_enum_duplicate_name :
  rej_acc [net_file [mkREnum (Some "E") (Some "char") [(Some "None", Some "1"); (Some "None_", Some "2")]] []; client_file []]
          [net_file [mkREnum (Some "E") (Some "char") [(Some "None", Some "1"); (Some "Some_", Some "2")]] []; client_file []].
Proof. run. Qed.
Example C17_ex_enum_underlying_not_integer :
  rej_acc [net_file [mkREnum (Some "E") (Some "string") []] []; client_file []]
          [net_file [mkREnum (Some "E") (Some "short") []] []; client_file []].
Proof. run. Qed.
Example C17_ex_enum_underlying_itself :
  rej_acc [net_file [mkREnum (Some "E") (Some "E") []] []; client_file []]
          [net_file [mkREnum (Some "E") (Some "int") []] []; client_file []].
Proof. run. Qed.
Example C17_ex_override :
  accepts (proto [fld "d" "Direction:short"; fld "b" "bool:short"]) = true /\
  accepts (proto [fld "d" "Direction:short:char"]) = false /\ accepts (proto [fld "d" "Direction:Direction"]) = false /\
  accepts (proto [fld "d" "Direction:string"]) = false /\ accepts (proto [fld "d" "Coords:char"]) = false /\
  accepts (proto [fld "d" "char:short"]) = false.
Proof. vm_compute. repeat split; reflexivity. Qed.
Example C17_ex_struct_self_reference :
  rej_acc [net_file [] [mkRStruct (Some "S") [fld "b" "S"]]; client_file []]
          [net_file [] [mkRStruct (Some "S") [fld "b" "char"]]; client_file []].
Proof. run. Qed.
Example C17_ex_packet_unknown_family :
  rej_acc [net_file [] []; mkRFile "net/client" [] [] [mkRPacket (Some "Nope") (Some "Accept") []]]
          [net_file [] []; mkRFile "net/client" [] [] [mkRPacket (Some "Connection") (Some "Accept") []]].
Proof. run. Qed.
Example C17_ex_packet_unknown_action :
  rej_acc [net_file [] []; mkRFile "net/server" [] [] [mkRPacket (Some "Connection") (Some "Nope") []]]
          [net_file [] []; mkRFile "net/server" [] [] [mkRPacket (Some "Connection") (Some "Ping") []]].
Proof. run. Qed.
Example C17_ex_packet_bad_path :
  rej_acc [net_file [] []; mkRFile "pub" [] [] [pkt []]] [net_file [] []; mkRFile "pub" [] [] []].
Proof. run. Qed.
Example C17_ex_duplicate_packet_id :
  rej_acc [net_file [] []; mkRFile "net/client" [] [] [pkt []; mkRPacket (Some "Connection") (Some "Ping") []; pkt [fld "a" "char"]]]
          [net_file [] []; mkRFile "net/client" [] [] [pkt []; mkRPacket (Some "Connection") (Some "Ping") []]].
Proof. run. Qed.

(* ================= rules, as phrased, that Model/Elab.v does NOT enforce ================= *)
(* a struct that refers to itself is accepted when the self-reference comes after an unbounded field: neither
   _calculate_fixed_struct_size nor _is_bounded resolves the type of that field (the first returns at the first
   non-fixed field, the second skips every instruction until the next <break> once the result is False) *)
Example C17_struct_self_reference_accepted_by_model :
  accepts [net_file [] [mkRStruct (Some "S") [fld "a" "string"; fld "b" "S"]]; client_file []] = true.
Proof. vm_compute. reflexivity. Qed.
(* mutual recursion is accepted in the same way *)
Example C17_struct_mutual_reference_accepted_by_model :
  accepts [net_file [] [mkRStruct (Some "S") [fld "a" "string"; fld "b" "R"]; mkRStruct (Some "R") [fld "a" "string"; fld "b" "S"]]; client_file []] = true.
Proof. vm_compute. reflexivity. Qed.
(* a switch without any case is accepted whatever its field: inaccessible, an array, or a string *)
Example C17_switch_no_cases_accepted_by_model :
  accepts (proto [RSwitch (Some "nosuch") []]) = true /\
  accepts (proto [arr "xs" "char"; RSwitch (Some "xs") []]) = true /\
  accepts (proto [fld "s" "string"; RSwitch (Some "s") []]) = true.
Proof. vm_compute. repeat split; reflexivity. Qed.
(* a numeric length may be "referenced" any number of times; only named length fields are tracked *)
Example C17_numeric_length_twice_accepted_by_model :
  accepts (proto [fld_len "s" "string" "3"; fld_len "t" "string" "3"]) = true.
Proof. vm_compute. reflexivity. Qed.
(* a <break> resets the "optional field reached" state: a required field may follow an optional one across a break *)
Example C17_required_after_optional_across_break_accepted_by_model :
  accepts (proto [RChunked [fld_opt "a" "char"; RBreak; fld "b" "char"]]) = true.
Proof. vm_compute. reflexivity. Qed.
(* an UNNAMED field does not mark the length field it references as used *)
Example C17_unnamed_length_reference_not_counted_accepted_by_model :
  accepts (proto [len "n" "char"; RField None (Some "string") (Some "n") None None (Some "ab"); fld_len "t" "string" "n"]) = true.
Proof. vm_compute. reflexivity. Qed.
