(* C16 - generated serializers refuse objects that violate their declaration: a required field left as None, a
   string or array whose length differs from a fixed length or exceeds a padded / length-field limit, an integer
   at or above its type's limit, or switch case data of the wrong kind for the switch value, raise
   SerializationError (or the writer's ValueError for range errors) instead of returning.  No invalid object
   ever yields a complete serialization. *)
From EO Require Import Prelude.Py Model.Limits Model.Writer Model.Spec Model.Ser Model.ValidDecl Proofs.Refuse.
Open Scope Z_scope.
Set Default Timeout 60.

(* the property: a complete serialization implies the object respects its declaration, at every nesting depth *)
Theorem C16_complete : forall fuel E cls v w w', ser_struct fuel E cls v w = (w', Ok tt) -> valid_decl fuel E cls v = true.
Proof. intros fuel E cls v w w'. apply ser_struct_ok. Qed.

(* contrapositive form *)
Theorem C16_invalid_refused : forall fuel E cls v w, valid_decl fuel E cls v = false -> exists e, snd (ser_struct fuel E cls v w) = Err e.
Proof. exact ser_struct_refuses. Qed.

(* per violation kind, at a field of the body being serialized (any position: `pre` may be any instructions that succeed) *)
Theorem C16_required_none : forall rec flds old f name rmo w,
  f_name f = Some name -> f_optional f = false -> f_hard f = None -> assoc flds name = Some VNone ->
  snd (fst (ser_instr rec flds old (EField f) rmo w)) = Err ESerialization /\ fst (fst (ser_instr rec flds old (EField f) rmo w)) = w.
Proof.
  intros rec flds old f name rmo w N O Hd A. rewrite (field_required_none rec flds old f name rmo w N O Hd A).
  split; reflexivity.
Qed.

Theorem C16_length_violation : forall rec flds old f name v rmo w,
  f_name f = Some name -> f_optional f = false -> assoc flds name = Some v -> is_none v = false ->
  valid_len f v = false -> (exists l, py_len v = Some l) ->
  snd (fst (ser_instr rec flds old (EField f) rmo w)) = Err ESerialization.
Proof.
  intros rec flds old f name v rmo w N O A NN V [l L].
  rewrite (field_length_violation rec flds old f name v l rmo w N O A NN V L). reflexivity.
Qed.

Theorem C16_int_at_limit : forall rec t z w, itype_max t < z ->
  ser_value rec (EInt t) (VInt z) None false 0 w = (w, Err EValue).
Proof. intros rec t z w H. now apply value_int_at_limit. Qed.

Theorem C16_wrong_case_data : forall rec flds old field cases z dv c rmo w,
  assoc flds field = Some (VInt z) -> assoc flds (field ++ "_data")%string = Some dv ->
  find_case cases (Some z) = Some c ->
  (match c_cls c with None => is_none dv = false | Some cls => obj_class dv <> Some cls end) ->
  ser_instr rec flds old (ESwitch field cases) rmo w = (w, Err ESerialization, rmo).
Proof. exact switch_wrong_case_data. Qed.

Theorem C16_unmatched_case_data : forall rec flds old field cases z dv rmo w,
  assoc flds field = Some (VInt z) -> assoc flds (field ++ "_data")%string = Some dv ->
  find_case cases (Some z) = None -> is_none dv = false ->
  ser_instr rec flds old (ESwitch field cases) rmo w = (w, Err ESerialization, rmo).
Proof. exact switch_unmatched_case_data. Qed.

(* failures are atomic with respect to earlier output: what was written before the failing instruction stays, nothing is lost *)
Theorem C16_prefix_kept : forall fuel E cls v w w' r, ser_struct fuel E cls v w = (w', r) -> exists out, wdata w' = wdata w ++ out.
Proof. intros fuel E cls v w w' r H. exact (proj1 (ser_struct_ext fuel E cls v w w' r H)). Qed.

(* ---------------- strengthenings ---------------- *)
(* the refusals leave the writer and the reached_missing_optional flag exactly as they were *)
Theorem C16_required_none_exact : forall rec flds old f name rmo w,
  f_name f = Some name -> f_optional f = false -> f_hard f = None -> assoc flds name = Some VNone ->
  ser_instr rec flds old (EField f) rmo w = (w, Err ESerialization, rmo).
Proof. exact field_required_none. Qed.

Theorem C16_length_violation_exact : forall rec flds old f name v l rmo w,
  f_name f = Some name -> f_optional f = false -> assoc flds name = Some v -> is_none v = false ->
  valid_len f v = false -> py_len v = Some l ->
  ser_instr rec flds old (EField f) rmo w = (w, Err ESerialization, rmo).
Proof. exact field_length_violation. Qed.

(* the length refusal does not depend on the field being required: it fires whenever the optional guard lets the
   statements of the field run *)
Theorem C16_length_violation_guarded : forall rec flds old f name v l rmo rmo' w,
  f_name f = Some name -> assoc flds name = Some v -> is_none v = false ->
  opt_guard (f_optional f) (f_opt_first f) rmo v = (rmo', true) ->
  valid_len f v = false -> py_len v = Some l ->
  ser_instr rec flds old (EField f) rmo w = (w, Err ESerialization, rmo').
Proof. exact field_length_violation_guarded. Qed.

Theorem C16_array_length_violation_guarded : forall rec flds old f d tr cnt name elems rmo rmo' w,
  f_name f = Some name -> assoc flds name = Some (VList elems) ->
  opt_guard (f_optional f) (f_opt_first f) rmo (VList elems) = (rmo', true) ->
  valid_len f (VList elems) = false ->
  ser_instr rec flds old (EArray f d tr cnt) rmo w = (w, Err ESerialization, rmo').
Proof. exact array_length_violation_guarded. Qed.

(* arrays: a required array left as None, an array of the wrong length *)
Theorem C16_array_required_none : forall rec flds old f d tr cnt name rmo w,
  f_name f = Some name -> f_optional f = false -> assoc flds name = Some VNone ->
  ser_instr rec flds old (EArray f d tr cnt) rmo w = (w, Err ESerialization, rmo).
Proof. exact array_required_none. Qed.

Theorem C16_array_length_violation : forall rec flds old f d tr cnt name elems rmo w,
  f_name f = Some name -> f_optional f = false -> assoc flds name = Some (VList elems) ->
  valid_len f (VList elems) = false ->
  ser_instr rec flds old (EArray f d tr cnt) rmo w = (w, Err ESerialization, rmo).
Proof. exact array_length_violation. Qed.

(* the integer refusal, for any length/padding arguments, for enum-typed values, and at the level of a field statement *)
Theorem C16_int_at_limit_any : forall rec t z len padded w, itype_max t < z ->
  ser_value rec (EInt t) (VInt z) len padded 0 w = (w, Err EValue).
Proof. intros rec t z len padded w H. now apply value_int_at_limit. Qed.

Theorem C16_enum_at_limit : forall rec nm t z len padded off w, itype_max t < z ->
  ser_value rec (EEnum nm t) (VInt z) len padded off w = (w, Err EValue).
Proof. intros rec nm t z len padded off w H. now apply value_enum_at_limit. Qed.

Theorem C16_int_field_at_limit : forall rec flds old f name t z rmo w,
  f_name f = Some name -> f_optional f = false -> f_len f = LNone -> f_ty f = EInt t ->
  assoc flds name = Some (VInt z) -> itype_max t < z ->
  ser_instr rec flds old (EField f) rmo w = (w, Err EValue, rmo).
Proof. exact field_int_at_limit. Qed.

(* body level, relative to any nested serializer that is itself sound *)
Theorem C16_body_complete : forall rec vc, (forall n x w w', rec n x w = (w', Ok tt) -> vc n x = true) ->
  forall flds old is rmo w w', ser_instrs rec flds old is rmo w = (w', Ok tt) -> valid_instrs vc flds is rmo = true.
Proof. intros rec vc R flds old is rmo w w'. now apply ser_instrs_ok. Qed.

(* whatever the outcome, earlier output stays and the sanitisation mode is the entry mode again (try/finally) *)
Theorem C16_prefix_kept_mode : forall fuel E cls v w w' r, ser_struct fuel E cls v w = (w', r) ->
  (exists out, wdata w' = wdata w ++ out) /\ wsan w' = wsan w.
Proof. exact ser_struct_ext. Qed.

(* ---------------- a concrete declaration, a valid object, one mutant per violation kind ---------------- *)
Local Open Scope string_scope.
Definition fld (name : string) (ty : etype) (len : elen) (padded : bool) (maxlen : Z) : fieldspec :=
  mkField (Some name) ty len padded false false None maxlen.

Definition exE : env := [
  mkSDef "Inner" [ EField (fld "x" (EInt TChar) LNone false 0) ];
  mkSDef "Other" [];
  mkSDef "Msg" [
    EField (fld "code" (EStr false) (LLit 3) false 0);                 (* fixed string of 3 *)
    EField (fld "tag" (EStr false) (LLit 5) true 0);                   (* padded string of at most 5 *)
    EArray (fld "pair" (EInt TChar) (LLit 2) false 0) false false ACExpr;   (* array of literal length 2 *)
    ELength "items_count" TChar 0 false false (Some "items");
    EArray (fld "items" (EInt TShort) (LRef "items_count") false 252) false false ACExpr;  (* at most max(char)+0 *)
    EField (fld "c" (EInt TChar) LNone false 0);
    EField (fld "kind" (EInt TChar) LNone false 0);
    ESwitch "kind" [ mkCase (CKValue 1) (Some "Inner"); mkCase (CKValue 2) None ]
  ] ].

Definition inner : value := VObj "Inner" [("x", VInt 7)].
Definition good : value := VObj "Msg" [
  ("code", VStr [65; 66; 67]); ("tag", VStr [104; 105]); ("pair", VList [VInt 1; VInt 2]);
  ("items", VList [VInt 300]); ("c", VInt 252); ("kind", VInt 1); ("kind_data", inner) ].

Fixpoint upd (l : list (string * value)) (k : string) (v : value) : list (string * value) :=
  match l with [] => [] | (k', x) :: t => if String.eqb k' k then (k', v) :: t else (k', x) :: upd t k v end.
Definition mutate (o : value) (k : string) (v : value) : value :=
  match o with VObj c fl => VObj c (upd fl k v) | _ => o end.

Definition run (v : value) : wres := serialize exE "Msg" v false.
Definition ok_decl (v : value) : bool := valid_decl (S (List.length exE)) exE "Msg" v.

Example ex_good_serializes :
  run good = (mkW [65; 66; 67; 104; 105; 255; 255; 255; 2; 3; 2; 48; 2; 253; 2; 8] false, Ok tt).
Proof. vm_compute. reflexivity. Qed.
Example ex_good_valid : ok_decl good = true.
Proof. vm_compute. reflexivity. Qed.

(* a required field left as None *)
Example ex_none : snd (run (mutate good "code" VNone)) = Err ESerialization /\ ok_decl (mutate good "code" VNone) = false.
Proof. vm_compute. split; reflexivity. Qed.
(* fixed string too long *)
Example ex_fixed_long : snd (run (mutate good "code" (VStr [65; 66; 67; 68]))) = Err ESerialization
  /\ ok_decl (mutate good "code" (VStr [65; 66; 67; 68])) = false.
Proof. vm_compute. split; reflexivity. Qed.
(* fixed string too short *)
Example ex_fixed_short : snd (run (mutate good "code" (VStr [65; 66]))) = Err ESerialization
  /\ ok_decl (mutate good "code" (VStr [65; 66])) = false.
Proof. vm_compute. split; reflexivity. Qed.
(* padded string too long *)
Example ex_padded_long : snd (run (mutate good "tag" (VStr [1; 2; 3; 4; 5; 6]))) = Err ESerialization
  /\ ok_decl (mutate good "tag" (VStr [1; 2; 3; 4; 5; 6])) = false.
Proof. vm_compute. split; reflexivity. Qed.
(* array longer than its literal length *)
Example ex_array_literal : snd (run (mutate good "pair" (VList [VInt 1; VInt 2; VInt 3]))) = Err ESerialization
  /\ ok_decl (mutate good "pair" (VList [VInt 1; VInt 2; VInt 3])) = false.
Proof. vm_compute. split; reflexivity. Qed.
(* array longer than max(length field type) + offset = 252: the length field, which is written first, already
   overflows, so the refusal is the writer's ValueError; the array statement on its own raises SerializationError *)
Example ex_array_lenfield : snd (run (mutate good "items" (VList (repeat (VInt 1) 253)))) = Err EValue
  /\ ok_decl (mutate good "items" (VList (repeat (VInt 1) 253))) = false.
Proof. vm_compute. split; reflexivity. Qed.
Example ex_array_lenfield_stmt :
  ser_instr (fun _ _ w => (w, Ok tt)) [("items", VList (repeat (VInt 1) 253))] 0
    (EArray (fld "items" (EInt TShort) (LRef "items_count") false 252) false false ACExpr) false initW
  = (initW, Err ESerialization, false).
Proof. vm_compute. reflexivity. Qed.
(* ... while 252 elements are accepted *)
Example ex_array_lenfield_max : snd (run (mutate good "items" (VList (repeat (VInt 1) 252)))) = Ok tt
  /\ ok_decl (mutate good "items" (VList (repeat (VInt 1) 252))) = true.
Proof. vm_compute. split; reflexivity. Qed.
(* char field = 253: the writer's ValueError *)
Example ex_char_253 : snd (run (mutate good "c" (VInt 253))) = Err EValue /\ ok_decl (mutate good "c" (VInt 253)) = false.
Proof. vm_compute. split; reflexivity. Qed.
(* an array element at its type's limit *)
Example ex_elem_limit : snd (run (mutate good "items" (VList [VInt 64009]))) = Err EValue
  /\ ok_decl (mutate good "items" (VList [VInt 64009])) = false.
Proof. vm_compute. split; reflexivity. Qed.
(* case data of the wrong class *)
Example ex_case_wrong_class : snd (run (mutate good "kind_data" (VObj "Other" []))) = Err ESerialization
  /\ ok_decl (mutate good "kind_data" (VObj "Other" [])) = false.
Proof. vm_compute. split; reflexivity. Qed.
(* case data for an empty case *)
Example ex_case_empty : snd (run (mutate good "kind" (VInt 2))) = Err ESerialization
  /\ ok_decl (mutate good "kind" (VInt 2)) = false.
Proof. vm_compute. split; reflexivity. Qed.
(* case data when no case matches *)
Example ex_case_unmatched : snd (run (mutate good "kind" (VInt 3))) = Err ESerialization
  /\ ok_decl (mutate good "kind" (VInt 3)) = false.
Proof. vm_compute. split; reflexivity. Qed.
(* a violation one level down: the nested object's integer is at the limit *)
Example ex_nested : snd (run (mutate good "kind_data" (VObj "Inner" [("x", VInt 253)]))) = Err EValue
  /\ ok_decl (mutate good "kind_data" (VObj "Inner" [("x", VInt 253)])) = false.
Proof. vm_compute. split; reflexivity. Qed.
(* what was written before the failing statement stays in the writer *)
Example ex_prefix : fst (run (mutate good "c" (VInt 253))) = mkW [65; 66; 67; 104; 105; 255; 255; 255; 2; 3; 2; 48; 2] false.
Proof. vm_compute. reflexivity. Qed.

Print Assumptions C16_complete.
Print Assumptions C16_invalid_refused.
Print Assumptions C16_required_none.
Print Assumptions C16_length_violation.
Print Assumptions C16_int_at_limit.
Print Assumptions C16_wrong_case_data.
Print Assumptions C16_unmatched_case_data.
Print Assumptions C16_prefix_kept.
Print Assumptions C16_required_none_exact.
Print Assumptions C16_length_violation_exact.
Print Assumptions C16_length_violation_guarded.
Print Assumptions C16_array_length_violation_guarded.
Print Assumptions C16_array_required_none.
Print Assumptions C16_array_length_violation.
Print Assumptions C16_int_at_limit_any.
Print Assumptions C16_enum_at_limit.
Print Assumptions C16_int_field_at_limit.
Print Assumptions C16_body_complete.
Print Assumptions C16_prefix_kept_mode.
