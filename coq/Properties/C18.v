From EO Require Import Prelude.Py Model.Spec Model.GenPkg.
Theorem C18_placeholder : True. Proof. exact I. Qed.
