(* C18 - For every valid specification tree the generator succeeds, and its output is a pure function of the XML:
   repeated runs, different hash seeds and different directory enumeration orders produce byte-identical files.
   The output is a complete importable package in which every declared enum, struct and packet is a class exported
   from its documented subpackage and from the top-level package.

   Model: Model/GenPkg.v.  `generate` is a total function (no failure mode), so "succeeds" is by construction; the two
   sources of nondeterminism of the Python program are explicit inputs: the iteration order of the import set (the
   argument list of render_imports) and the os.walk order (the order of the rfile list). *)
From EO Require Import Prelude.Py Model.Spec Model.Elab Model.GenPkg Proofs.GenPkg.
From Coq Require Import Sorting.Permutation Sorting.Sorted.
Set Default Timeout 60.
Open Scope string_scope.
Open Scope list_scope.

(* ---------------- hash seed: rendering of an import set ---------------- *)

(* the rendering depends only on the SET of import lines: not on duplicates, not on iteration order *)
Theorem C18_render_set : forall l l', (forall x, In x l <-> In x l') -> render_imports l = render_imports l'.
Proof. exact render_imports_set. Qed.

Theorem C18_hashseed : forall l l', Permutation l l' -> render_imports l = render_imports l'.
Proof.
  intros l l' Hp. apply C18_render_set. intros x.
  split; apply Permutation_in; [exact Hp | apply Permutation_sym; exact Hp].
Qed.

Theorem C18_render_complete : forall l x, In x (render_imports l) <-> In x l.
Proof. exact render_imports_In. Qed.

Theorem C18_render_nodup : forall l, NoDup (render_imports l).
Proof. exact render_imports_NoDup. Qed.

Theorem C18_future_first : forall l a b pre post,
  render_imports l = pre ++ a :: b :: post -> is_future b = true -> is_future a = true.
Proof.
  intros l a b pre post Heq Hb. unfold render_imports in Heq.
  eapply (split_adjacent is_future); [| |exact Heq|exact Hb]; apply Forall_forall; intros x Hx;
    apply filter_In in Hx; destruct Hx as [_ Hx]; [exact Hx | apply negb_true_iff; exact Hx].
Qed.

(* stronger: the exact shape.  Both blocks are in descending order and together they are the deduplicated input. *)
Theorem C18_render_shape : forall l,
  exists fut rest, render_imports l = fut ++ rest /\
    Forall (fun x => is_future x = true) fut /\ Forall (fun x => is_future x = false) rest /\
    StronglySorted (fun x y => str_leb y x = true) fut /\ StronglySorted (fun x y => str_leb y x = true) rest /\
    Permutation (dedup l) (fut ++ rest).
Proof.
  intros l. exists (filter is_future (sort_desc (dedup l))), (filter (fun x => negb (is_future x)) (sort_desc (dedup l))).
  split; [reflexivity|]. repeat split.
  - apply Forall_forall. intros x Hx. apply filter_In in Hx. apply Hx.
  - apply Forall_forall. intros x Hx. apply filter_In in Hx. apply negb_true_iff, Hx.
  - apply (filter_sorted is_future), sort_desc_sorted.
  - apply (filter_sorted (fun x => negb (is_future x))), sort_desc_sorted.
  - apply render_imports_perm.
Qed.

(* rendering is idempotent: the rendered lines have the same set of elements as the input, so rendering them again
   gives the same list *)
Theorem C18_render_idempotent_set : forall l, render_imports (render_imports l) = render_imports l.
Proof. intros l. apply C18_render_set. intros x. apply C18_render_complete. Qed.

(* str_leb, the comparison behind sorted(), is a total order *)
Theorem C18_str_leb_total_order :
  (forall a, str_leb a a = true) /\
  (forall a b, str_leb a b = true -> str_leb b a = true -> a = b) /\
  (forall a b c, str_leb a b = true -> str_leb b c = true -> str_leb a c = true) /\
  (forall a b, str_leb a b = true \/ str_leb b a = true).
Proof.
  split; [exact str_leb_refl|]. split; [exact str_leb_antisym|]. split; [exact str_leb_trans | exact str_leb_total].
Qed.

(* ---------------- directory enumeration order ---------------- *)

Theorem C18_walk_order : forall fs fs' out, valid_layout fs = true -> Permutation fs fs' ->
  forall p, fs_get (generate fs' out) p = fs_get (generate fs out) p.
Proof.
  intros fs fs' out Hv Hp p.
  destruct (in_dec string_dec p (all_paths fs)) as [Hin|Hn].
  - unfold all_paths in Hin. apply in_map_iff in Hin. destruct Hin as [[q c] [Hq Hin]]. cbn [fst] in Hq. subst q.
    rewrite (generate_get_written fs out p c Hv Hin).
    apply generate_get_written; [exact (valid_layout_perm fs fs' Hp Hv)|].
    exact (Permutation_in _ (outputs_perm fs fs' Hp) Hin).
  - rewrite (generate_get_untouched fs out p Hn). apply generate_get_untouched.
    intros Hin. apply Hn. unfold all_paths in *.
    exact (Permutation_in _ (Permutation_sym (Permutation_map fst (outputs_perm fs fs' Hp))) Hin).
Qed.

(* validity of the layout is itself independent of the walk order *)
Theorem C18_valid_layout_order : forall fs fs', Permutation fs fs' -> valid_layout fs = valid_layout fs'.
Proof.
  intros fs fs' Hp. destruct (valid_layout fs) eqn:Hv.
  - symmetry. exact (valid_layout_perm fs fs' Hp Hv).
  - destruct (valid_layout fs') eqn:Hv'; [|reflexivity].
    rewrite (valid_layout_perm fs' fs (Permutation_sym Hp) Hv') in Hv. discriminate.
Qed.

(* ---------------- repeated runs / pre-populated output directory ---------------- *)

(* (no layout hypothesis needed: a written path holds the LAST write to it, whatever was there before) *)
Theorem C18_written_independent_of_old_strong : forall fs out out' p, In p (all_paths fs) ->
  fs_get (generate fs out) p = fs_get (generate fs out') p.
Proof. intros fs out out' p Hin. rewrite !generate_get. apply last_write_in. exact Hin. Qed.

Theorem C18_written_independent_of_old : forall fs out out' p, valid_layout fs = true -> In p (all_paths fs) ->
  fs_get (generate fs out) p = fs_get (generate fs out') p.
Proof. intros fs out out' p _. apply C18_written_independent_of_old_strong. Qed.

Theorem C18_untouched : forall fs out p, ~ In p (all_paths fs) -> fs_get (generate fs out) p = fs_get out p.
Proof. exact generate_get_untouched. Qed.

Theorem C18_idempotent_strong : forall fs out p, fs_get (generate fs (generate fs out)) p = fs_get (generate fs out) p.
Proof.
  intros fs out p. destruct (in_dec string_dec p (all_paths fs)) as [Hin|Hn].
  - apply C18_written_independent_of_old_strong. exact Hin.
  - apply C18_untouched. exact Hn.
Qed.

Theorem C18_idempotent : forall fs out p, valid_layout fs = true ->
  fs_get (generate fs (generate fs out)) p = fs_get (generate fs out) p.
Proof. intros fs out p _. apply C18_idempotent_strong. Qed.

(* all three sources at once: another walk order AND another pre-existing output give the same file at every written path *)
Theorem C18_pure_function : forall fs fs' out out' p, valid_layout fs = true -> Permutation fs fs' -> In p (all_paths fs) ->
  fs_get (generate fs' out') p = fs_get (generate fs out) p.
Proof.
  intros fs fs' out out' p Hv Hp Hin. rewrite (C18_walk_order fs fs' out' Hv Hp p).
  apply C18_written_independent_of_old_strong. exact Hin.
Qed.

(* every written path exists afterwards, with a content that is one of the generated ones *)
Theorem C18_written_present : forall fs out p, In p (all_paths fs) ->
  exists c, In (p, c) (flat_map file_outputs fs) /\ fs_get (generate fs out) p = Some c.
Proof. intros fs out p Hin. rewrite generate_get. apply last_write_some. exact Hin. Qed.

(* ---------------- exports ---------------- *)

Theorem C18_exports : forall fs out f d, valid_layout fs = true -> In f fs -> In d (file_decls f) ->
  fs_get (generate fs out) (module_path d) = Some (CModule d) /\
  exists lines, fs_get (generate fs out) (init_path (rf_path f)) = Some (CInit lines) /\ In (init_line d) lines.
Proof.
  intros fs out f d Hv Hf Hd. split.
  - apply generate_get_written; [exact Hv | exact (module_output_in fs f d Hf Hd)].
  - exists (render_imports (map init_line (file_decls f))). split.
    + apply generate_get_written; [exact Hv | exact (init_output_in fs f Hf)].
    + apply C18_render_complete. apply in_map. exact Hd.
Qed.

(* the __init__ of a directory star-imports EXACTLY the modules of the types declared there, each once *)
Theorem C18_init_exact : forall fs out f, valid_layout fs = true -> In f fs ->
  exists lines, fs_get (generate fs out) (init_path (rf_path f)) = Some (CInit lines) /\ NoDup lines /\
    forall x, In x lines <-> exists d, In d (file_decls f) /\ x = init_line d.
Proof.
  intros fs out f Hv Hf. exists (render_imports (map init_line (file_decls f))). split; [|split].
  - apply generate_get_written; [exact Hv | exact (init_output_in fs f Hf)].
  - apply C18_render_nodup.
  - intros x. rewrite C18_render_complete, in_map_iff. split; intros [d [H1 H2]]; exists d; auto.
Qed.

(* the module file lives in the directory of the protocol.xml that declares the type *)
Theorem C18_module_in_declaring_dir : forall f d, In d (file_decls f) -> d_dir d = rf_path f.
Proof.
  intros f d Hd. unfold file_decls in Hd. rewrite !in_app_iff, !in_map_iff in Hd.
  destruct Hd as [[e [He _]]|[[s [Hs _]]|[p [Hp _]]]]; subst d; reflexivity.
Qed.

(* ---------------- snake case ---------------- *)

Theorem C18_snake_lowercase : forall s, (forall c, In c (list_ascii_of_string s) -> is_upper c = false) -> snake s = s.
Proof. intros s. apply snake_from_lowercase. Qed.

Theorem C18_snake_no_upper : forall s c, In c (list_ascii_of_string (snake s)) -> is_upper c = false.
Proof. intros s c. apply snake_from_no_upper. Qed.

Theorem C18_snake_idempotent : forall s, snake (snake s) = snake s.
Proof. intros s. apply C18_snake_lowercase. apply C18_snake_no_upper. Qed.

(* the first letter is only lower-cased (never prefixed by an underscore) and nothing is dropped *)
Theorem C18_snake_head : forall c t, exists r, snake (String c t) = String (lower_ascii c) r.
Proof. intros c t. exists (snake_from (Some c) t). reflexivity. Qed.
Theorem C18_snake_length : forall s, (String.length s <= String.length (snake s))%nat.
Proof. intros s. apply snake_from_length. Qed.

Print Assumptions C18_hashseed.
Print Assumptions C18_render_set.
Print Assumptions C18_render_complete.
Print Assumptions C18_render_nodup.
Print Assumptions C18_future_first.
Print Assumptions C18_render_shape.
Print Assumptions C18_render_idempotent_set.
Print Assumptions C18_str_leb_total_order.
Print Assumptions C18_walk_order.
Print Assumptions C18_valid_layout_order.
Print Assumptions C18_written_independent_of_old_strong.
Print Assumptions C18_written_independent_of_old.
Print Assumptions C18_untouched.
Print Assumptions C18_idempotent_strong.
Print Assumptions C18_idempotent.
Print Assumptions C18_pure_function.
Print Assumptions C18_written_present.
Print Assumptions C18_exports.
Print Assumptions C18_init_exact.
Print Assumptions C18_module_in_declaring_dir.
Print Assumptions C18_snake_lowercase.
Print Assumptions C18_snake_no_upper.
Print Assumptions C18_snake_idempotent.
Print Assumptions C18_snake_head.
Print Assumptions C18_snake_length.

(* ---------------- examples ---------------- *)

Example ex_snake_1 : snake "PacketFamily" = "packet_family".           Proof. vm_compute. reflexivity. Qed.
Example ex_snake_2 : snake "NPCMapInfo" = "npc_map_info".               Proof. vm_compute. reflexivity. Qed.
Example ex_snake_3 : snake "InitInitServerPacket" = "init_init_server_packet". Proof. vm_compute. reflexivity. Qed.
Example ex_snake_4 : snake "EIFRecord" = "eif_record".                  Proof. vm_compute. reflexivity. Qed.
Example ex_snake_5 : snake "Coords" = "coords".                         Proof. vm_compute. reflexivity. Qed.
Example ex_snake_6 : snake "already_snake_1" = "already_snake_1".       Proof. vm_compute. reflexivity. Qed.
Example ex_snake_7 : snake "PlayerKilledState" = "player_killed_state". Proof. vm_compute. reflexivity. Qed.
Example ex_snake_8 : snake "" = "".                                     Proof. vm_compute. reflexivity. Qed.

(* snake is not injective, which is why distinct output paths are a hypothesis (valid_layout) and not a theorem *)
Example ex_snake_clash : snake "NPCInfo" = snake "NpcInfo" /\ "NPCInfo" <> "NpcInfo".
Proof. split; [vm_compute; reflexivity | discriminate]. Qed.

Definition imports_a : list string :=
  [ "from typing import Optional"; "from __future__ import annotations"; "from ..coords import Coords";
    "from typing import Optional"; "from typing import cast"; "from ....data.eo_writer import EoWriter";
    "from __future__ import annotations"; "from collections.abc import Iterable" ].
Definition imports_b : list string :=
  [ "from collections.abc import Iterable"; "from ....data.eo_writer import EoWriter"; "from typing import cast";
    "from typing import Optional"; "from ..coords import Coords"; "from __future__ import annotations" ].
Example ex_render_a : render_imports imports_a =
  [ "from __future__ import annotations"; "from typing import cast"; "from typing import Optional";
    "from collections.abc import Iterable"; "from ..coords import Coords"; "from ....data.eo_writer import EoWriter" ].
Proof. vm_compute. reflexivity. Qed.
Example ex_render_ab : render_imports imports_a = render_imports imports_b.
Proof. vm_compute. reflexivity. Qed.
Example ex_render_rev : render_imports (rev imports_a) = render_imports imports_a.
Proof. vm_compute. reflexivity. Qed.

(* a two-file tree *)
Definition ex_root : rfile :=
  mkRFile "" [mkREnum (Some "AdminLevel") (Some "char") []]
             [mkRStruct (Some "Coords") []; mkRStruct (Some "NPCMapInfo") []] [].
Definition ex_client : rfile :=
  mkRFile "net/client" [] [mkRStruct (Some "ByteCoords") []]
          [mkRPacket (Some "Init") (Some "Init") []; mkRPacket (Some "Walk") (Some "Player") []].
Definition ex_old : list (string * content) :=
  [("coords.py", CInit ["stale"]); ("README.md", CInit ["kept"])].

Example ex_layout : valid_layout [ex_root; ex_client] = true.
Proof. vm_compute. reflexivity. Qed.
Example ex_paths : all_paths [ex_root; ex_client] =
  [ "admin_level.py"; "coords.py"; "npc_map_info.py"; "__init__.py";
    "net/client/byte_coords.py"; "net/client/init_init_client_packet.py"; "net/client/walk_player_client_packet.py";
    "net/client/__init__.py" ].
Proof. vm_compute. reflexivity. Qed.
(* both walk orders give the same file at every written path, at a pre-existing unrelated path and at a missing one
   (by computation), and at every path whatsoever (by the theorem) *)
Example ex_walk_order_get : forall p, In p ("README.md" :: "missing.py" :: all_paths [ex_root; ex_client]) ->
  fs_get (generate [ex_client; ex_root] ex_old) p = fs_get (generate [ex_root; ex_client] ex_old) p.
Proof.
  intros p Hin. vm_compute in Hin.
  repeat (destruct Hin as [Hp|Hin]; [subst p; vm_compute; reflexivity|]). destruct Hin.
Qed.
Example ex_walk_order_all : forall p,
  fs_get (generate [ex_client; ex_root] ex_old) p = fs_get (generate [ex_root; ex_client] ex_old) p.
Proof. intros p. apply C18_walk_order; [exact ex_layout | apply perm_swap]. Qed.
Example ex_init_root : fs_get (generate [ex_client; ex_root] ex_old) "__init__.py" =
  Some (CInit ["from .npc_map_info import *"; "from .coords import *"; "from .admin_level import *"]).
Proof. vm_compute. reflexivity. Qed.
Example ex_init_client : fs_get (generate [ex_root; ex_client] []) "net/client/__init__.py" =
  Some (CInit ["from .walk_player_client_packet import *"; "from .init_init_client_packet import *"; "from .byte_coords import *"]).
Proof. vm_compute. reflexivity. Qed.
Example ex_stale_overwritten : fs_get (generate [ex_root; ex_client] ex_old) "coords.py" = Some (CModule (mkDecl "" "Coords")).
Proof. vm_compute. reflexivity. Qed.
Example ex_other_kept : fs_get (generate [ex_root; ex_client] ex_old) "README.md" = Some (CInit ["kept"]).
Proof. vm_compute. reflexivity. Qed.
Example ex_rerun : generate [ex_root; ex_client] (generate [ex_root; ex_client] ex_old) = generate [ex_root; ex_client] ex_old.
Proof. vm_compute. reflexivity. Qed.

(* valid_layout is necessary for C18_exports: two types of one directory whose names differ only in capitalisation share
   a module file, and the first one is not exported *)
Definition ex_clash : rfile := mkRFile "" [] [mkRStruct (Some "NPCInfo") []; mkRStruct (Some "NpcInfo") []] [].
Example ex_clash_invalid : valid_layout [ex_clash] = false.
Proof. vm_compute. reflexivity. Qed.
Example ex_clash_lost : fs_get (generate [ex_clash] []) (module_path (mkDecl "" "NPCInfo")) = Some (CModule (mkDecl "" "NpcInfo")).
Proof. vm_compute. reflexivity. Qed.
(* ... and for C18_walk_order: two protocol files claiming the same directory *)
Definition ex_dirA : rfile := mkRFile "pub" [] [mkRStruct (Some "A") []] [].
Definition ex_dirB : rfile := mkRFile "pub" [] [mkRStruct (Some "B") []] [].
Example ex_same_dir_order_matters :
  fs_get (generate [ex_dirA; ex_dirB] []) "pub/__init__.py" <> fs_get (generate [ex_dirB; ex_dirA] []) "pub/__init__.py".
Proof. vm_compute. discriminate. Qed.
