(* C13 - Packet sequencer yields start + (n mod 10) under any update history. *)
From EO Require Import Prelude.Py Model.Sequencer Proofs.Sequencer.
Open Scope Z_scope.

(* for ANY finite history over {next_sequence, set_sequence_start v} and ANY start values, the stream of
   returned numbers is exactly: (start in force at that moment) + (number of earlier requests) mod 10 *)
Theorem C13_stream : forall v0 ops, run (seqr_init v0) ops = spec v0 0 ops.
Proof. exact run_spec. Qed.

(* updating the start never touches the counter: after any history the counter is (#requests) mod 10 *)
Theorem C13_counter : forall v0 ops, s_counter (final (seqr_init v0) ops) = nexts ops mod 10.
Proof. intros v0 ops. rewrite (final_counter ops (seqr_init v0) 0); [f_equal | lia | reflexivity]. Qed.

(* an update arriving after any prefix neither resets, skips nor repeats the counter: the stream
   continues with the new start at position (#requests so far) *)
Theorem C13_update_keeps_position : forall v0 before v after,
  run (seqr_init v0) (before ++ SetStart v :: after) =
  spec v0 0 before ++ spec v (nexts before) after.
Proof. intros. rewrite run_spec, spec_app. cbn [spec]. reflexivity. Qed.

(* lockstep: the stream is a function of the history alone (two peers fed the same history agree), and
   peers whose starts differ by a constant emit streams differing by that constant *)
Theorem C13_lockstep : forall v0 d ops,
  run (seqr_init (v0 + d)) (map (fun o => match o with Next => Next | SetStart v => SetStart (v + d) end) ops)
  = map (fun x => x + d) (run (seqr_init v0) ops).
Proof.
  intros v0 d ops. rewrite !run_spec. generalize 0 as n. revert v0.
  induction ops as [|o ops IH]; intros v0 n; cbn [map spec]; [reflexivity|].
  destruct o as [|v]; cbn [map spec]; [rewrite IH; f_equal; lia | apply IH].
Qed.

Example C13_wraps : run (seqr_init 100) (repeat Next 11 ++ [SetStart 7; Next; Next]) =
  [100;101;102;103;104;105;106;107;108;109;100;8;9].
Proof. vm_compute. reflexivity. Qed.

Print Assumptions C13_stream.
Print Assumptions C13_counter.
Print Assumptions C13_update_keeps_position.
Print Assumptions C13_lockstep.
