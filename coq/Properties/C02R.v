(* C02 (the emitted serialize methods ARE the reference semantics) - closing the last sampled link for serializers.
     tools/py2stmt.py parses, generically and fail-closed, the `serialize` method of every generated class from its SOURCE TEXT into
   the statement language of Model/PyStmt.v (a ~250-line big-step semantics of the Python subset the generator emits: the trusted
   reading of Python here, as Prelude/Py.v is for tools/py2coq.py).  Model/RenderSer.v is the generator's serialize templates as a
   Coq function `render_serialize : list einstr -> option (list pstmt)`, and Model/RenderCheck.v decides (vm_compute, per generated
   tree, on every run) that the parsed statements of every class equal `render_serialize` of that class's body in `elab tree`.
     The theorems below say what such a clean run means, for ALL objects and writer states: running the parsed statements is
   Model/Ser.v - the semantics every C01 / C02 / C15 / C16 theorem is about.  Side conditions: `static_ok` (decided by the run;
   no generated class has fallen outside it) and `instr_slots_ok` / `hok`: the instance's private slots agree with its public
   fields and hold what the generated constructor assigns (length slots = len of the referring field).
     Where Ser.v and the emitted code differ (inputs outside those side conditions) is recorded in Proofs/RenderSer.v as
   `..._differs` examples: a non-object passed as `data`, text values in enum / array slots, a switch without cases. *)
From EO Require Import Prelude.Py Model.Writer Model.Spec Model.Elab Model.Ser Model.PyStmt Model.RenderSer Model.RenderCheck Proofs.RenderSer Proofs.Shaped.
Open Scope Z_scope.

(* one method body: header, try / finally mode restore and the instruction statements *)
Theorem C02_rendered_serialize_is_ser_body : forall rec flds data d cls ss w,
  render_serialize (sd_body d) = Some ss -> static_ok (sd_body d) = true ->
  Forall (instr_slots_ok flds data) (sd_body d) ->
  forall w' r, ser_body rec d (VObj cls flds) w = (w', r) ->
  exists L', exec_stmts rec data ss [] w = (w', r, L').
Proof. intros rec flds data d cls ss w. exact (render_serialize_correct rec flds data d cls ss w). Qed.
Print Assumptions C02_rendered_serialize_is_ser_body.

(* what a clean harness verdict on one class gives: the statements PARSED FROM THE SOURCE TEXT compute ser_body *)
Theorem C02_checked_class : forall rec enums d parsed_stmts cls flds data w,
  render_class enums d parsed_stmts = [] -> Forall (instr_slots_ok flds data) (sd_body d) ->
  forall w' r, ser_body rec d (VObj cls flds) w = (w', r) ->
  exists L', exec_stmts rec data parsed_stmts [] w = (w', r, L').
Proof. exact checked_class_correct. Qed.
Print Assumptions C02_checked_class.

(* ... and on a whole generated package: every class of the elaborated tree has its parsed program, and nothing else is in it *)
Theorem C02_checked_package : forall files P p,
  elab files = Ok p -> render_detail files P = [] -> program_ok (pk_env p) (pk_enums p) P.
Proof. exact render_detail_program. Qed.
Print Assumptions C02_checked_package.

(* the whole call tree: Cls.serialize of the parsed program, calling itself for nested structs and case data, is ser_struct *)
Theorem C02_program_is_ser_struct : forall E enums P slots,
  program_ok E enums P ->
  forall fuel cls v w, hok E slots fuel cls v -> py_serialize P slots fuel cls v w = ser_struct fuel E cls v w.
Proof. intros E enums P slots. exact (py_serialize_correct E enums P slots). Qed.
Print Assumptions C02_program_is_ser_struct.

(* the side conditions are satisfiable: a concrete nested object built by the generated constructors *)
Example C02_program_nonvacuous : program_ok demo_env [] demo_prog /\ hok demo_env (ctor_slots demo_env) 2 "Outer" demo_obj.
Proof. exact (conj demo_program_ok demo_hok). Qed.

(* the slot side condition is discharged for EVERY object that is an instance of its class as far as Python types go - valid or not
   (a required field left None, wrong lengths, numbers out of range, case data of the wrong class all stay `shapedb`): for those, the
   program parsed from the generated text computes ser_struct, from every writer state.  `shape_static E` (decidable) holds of what
   `elab` produces: length fields distinct from public names and referenced as `Elab.fix_refs` says. *)
Theorem C02_program_is_ser_struct_on_shaped : forall E enums P fuel cls v w,
  program_ok E enums P -> shape_static E = true -> shapedb fuel E cls v = true ->
  py_serialize P (ctor_slots E) fuel cls v w = ser_struct fuel E cls v w.
Proof. exact shaped_program_correct. Qed.
Print Assumptions C02_program_is_ser_struct_on_shaped.
