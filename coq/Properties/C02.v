(* C02 - generated serializers: the bytes produced are exactly those the eo-protocol semantics assign to the
   declaring XML.
   `enc_*` (Model/Enc.v) is the wire format as a pure function of (elaborated declaration, value); `ser_*` (Model/Ser.v)
   is the statement-by-statement semantics of the generated `serialize` over the EoWriter model.  First theorem: they
   agree (bytes, success, and the writer's mode is left as found).  The others read the format off `enc_*`:
   document order, arrays (trailing / separating / plain delimiters; element counts), length fields, breaks,
   hardcoded and dummy values, 0xFF padding, sanitisation by static mode (= inside <chunked> only), switch cases.
   Last part (elaboration, Model/Elab.v): family/action of generated packets; explicit boolean defaults are no-ops.
   Statements only: every proof is an application of a lemma from Proofs/EncSer.v or Proofs/ElabAttr.v. *)
From EO Require Import Prelude.Py Model.Limits Model.Number Model.StringEnc Model.Cp1252 Model.Writer Model.Spec Model.Elab
  Model.Ser Model.Enc Proofs.EncSer Proofs.ElabAttr.
Open Scope string_scope.
Open Scope list_scope.
Open Scope Z_scope.
Set Default Timeout 60.

(* ====================== generated code = declarative format ====================== *)
Theorem C02_ser_is_enc : forall fuel E cls v w w',
  ser_struct fuel E cls v w = (w', Ok tt) <->
  exists out, enc_struct fuel E cls v (wsan w) = Some out /\ w' = mkW (wdata w ++ out) (wsan w).
Proof. exact ser_is_enc. Qed.

(* ... and it raises exactly on the values the declaration gives no encoding to *)
Theorem C02_ser_fails_iff : forall fuel E cls v w,
  (exists w' e, ser_struct fuel E cls v w = (w', Err e)) <-> enc_struct fuel E cls v (wsan w) = None.
Proof. exact ser_fails_iff. Qed.

Theorem C02_serialize_is_encode : forall E cls v san w',
  serialize E cls v san = (w', Ok tt) <-> exists out, encode E cls v san = Some out /\ w' = mkW out san.
Proof. exact serialize_is_encode. Qed.

(* the same at every layer, for any sub-serializer that refines its sub-format (open recursion) *)
Theorem C02_body_refines : forall rs re, refines rs re -> forall d v w,
  okw (ser_body rs d v w) = put w (enc_body re d v (wsan w)).
Proof. exact ser_body_refines. Qed.

(* ====================== document order ====================== *)
(* head instruction first, the rest in the state it leaves: rmo (reached_missing_optional), static mode, bytes so far *)
Theorem C02_document_order_cons : forall rec flds i is rmo san acc,
  enc_instrs rec flds (i :: is) rmo san acc =
  match enc_instr rec flds i rmo san acc with
  | None => None
  | Some (out, rmo') => option_map (app out) (enc_instrs rec flds is rmo' (instr_mode i san) (acc ++ out))
  end.
Proof. exact enc_instrs_cons. Qed.

(* a body split anywhere: the bytes of the first part, then the bytes of the second part *)
Theorem C02_document_order_app : forall rec flds a b rmo san acc out,
  enc_instrs rec flds (a ++ b) rmo san acc = Some out <->
  exists o1 rmo1 o2, enc_run rec flds a rmo san acc = Some (o1, rmo1) /\
                     enc_instrs rec flds b rmo1 (mode_after a san) (acc ++ o1) = Some o2 /\ out = o1 ++ o2.
Proof. exact enc_instrs_app. Qed.

Theorem C02_run_is_instrs : forall rec flds is rmo san acc,
  enc_instrs rec flds is rmo san acc = option_map fst (enc_run rec flds is rmo san acc).
Proof. exact enc_instrs_run. Qed.

(* the output of a body is the concatenation, in document order, of one output per instruction *)
Theorem C02_document_order : forall rec flds is rmo san acc out,
  enc_instrs rec flds is rmo san acc = Some out <->
  exists outs, enc_trace rec flds is rmo san acc outs /\ out = List.concat outs.
Proof. exact enc_instrs_trace. Qed.

Theorem C02_one_output_per_instruction : forall rec flds is rmo san acc outs,
  enc_trace rec flds is rmo san acc outs -> List.length outs = List.length is.
Proof. exact enc_trace_length. Qed.

(* ====================== arrays ====================== *)
(* all three: `go` = the optional guard lets the array through (always, for a required array: C02_required_guard) *)
Theorem C02_array_trailing : forall rec flds f cnt rmo san acc name elems,
  f_name f = Some name -> assoc flds name = Some (VList elems) ->
  enc_instr rec flds (EArray f true true cnt) rmo san acc =
  let '(rmo', go) := opt_guard (f_optional f) (f_opt_first f) rmo (VList elems) in
  if go
  then if array_count_ok f elems
       then option_map (fun bodies => (List.concat (map (fun b => b ++ [255]) bodies), rmo'))
              (sequence (map (fun e => enc_value rec (f_ty f) e None false 0 san) elems))
       else None
  else Some ([], rmo').
Proof. intros rec flds f cnt rmo san acc name elems. exact (enc_array_closed rec flds f true true cnt rmo san acc name elems). Qed.

Theorem C02_array_separating : forall rec flds f cnt rmo san acc name elems,
  f_name f = Some name -> assoc flds name = Some (VList elems) ->
  enc_instr rec flds (EArray f true false cnt) rmo san acc =
  let '(rmo', go) := opt_guard (f_optional f) (f_opt_first f) rmo (VList elems) in
  if go
  then if array_count_ok f elems
       then option_map (fun bodies => (intercalate [255] bodies, rmo'))
              (sequence (map (fun e => enc_value rec (f_ty f) e None false 0 san) elems))
       else None
  else Some ([], rmo').
Proof. intros rec flds f cnt rmo san acc name elems. exact (enc_array_closed rec flds f true false cnt rmo san acc name elems). Qed.

Theorem C02_array_plain : forall rec flds f trailing cnt rmo san acc name elems,
  f_name f = Some name -> assoc flds name = Some (VList elems) ->
  enc_instr rec flds (EArray f false trailing cnt) rmo san acc =
  let '(rmo', go) := opt_guard (f_optional f) (f_opt_first f) rmo (VList elems) in
  if go
  then if array_count_ok f elems
       then option_map (fun bodies => (List.concat bodies, rmo'))
              (sequence (map (fun e => enc_value rec (f_ty f) e None false 0 san) elems))
       else None
  else Some ([], rmo').
Proof. intros rec flds f trailing cnt rmo san acc name elems. exact (enc_array_closed rec flds f false trailing cnt rmo san acc name elems). Qed.

(* "all elements must have an encoding" *)
Theorem C02_array_all_elements : forall (l : list (option (list Z))) r, sequence l = Some r <-> l = map Some r.
Proof. exact (@sequence_spec (list Z)). Qed.
Theorem C02_array_any_element_fails : forall (l : list (option (list Z))), sequence l = None <-> In None l.
Proof. exact (@sequence_none (list Z)). Qed.

(* element counts: exactly n for a literal length, at most what the length field carries for a reference *)
Theorem C02_array_count : forall f elems,
  array_count_ok f elems = match f_len f with
                           | LLit n => zlen elems =? n
                           | LRef _ => zlen elems <=? f_maxlen f
                           | LNone => true end.
Proof. reflexivity. Qed.

(* the optional guard: required fields always pass; optional ones pass iff nothing optional was missing before *)
Theorem C02_required_guard : forall rmo v, opt_guard false false rmo v = (rmo, true) /\ opt_guard false true rmo v = (rmo, true).
Proof. exact opt_guard_required. Qed.
Theorem C02_optional_present : forall opt_first rmo v, is_none v = false ->
  opt_guard true opt_first rmo v = (if opt_first then (false, true) else (rmo, negb rmo)).
Proof. exact opt_guard_present. Qed.
Theorem C02_optional_missing : forall opt_first rmo, opt_guard true opt_first rmo VNone = (true, false).
Proof. exact opt_guard_missing. Qed.

(* ====================== length fields ====================== *)
Theorem C02_length_field : forall rec flds name t off opt_first fr v l rmo san acc,
  assoc flds fr = Some v -> py_len v = Some l ->
  enc_instr rec flds (ELength name t off false opt_first (Some fr)) rmo san acc =
  option_map (fun o => (o, rmo)) (enc_int t (l - off)).
Proof. exact enc_length_required. Qed.

Theorem C02_length_field_optional : forall rec flds name t off opt_first fr v l rmo san acc,
  assoc flds fr = Some v -> py_len v = Some l ->
  enc_instr rec flds (ELength name t off true opt_first (Some fr)) rmo san acc =
  let rmo' := if opt_first then false else rmo in
  if rmo' then Some ([], true) else option_map (fun o => (o, false)) (enc_int t (l - off)).
Proof. exact enc_length_optional. Qed.

(* the referencing field is None: an optional length field is skipped (with everything optional after it),
   a required one has no encoding *)
Theorem C02_length_field_absent : forall rec flds name t off optional opt_first fr rmo san acc,
  assoc flds fr = Some VNone ->
  enc_instr rec flds (ELength name t off optional opt_first (Some fr)) rmo san acc =
  if optional then Some ([], true) else None.
Proof. exact enc_length_absent. Qed.

(* integers on the wire *)
Theorem C02_int_encoding : forall t z,
  enc_int t z = match t with
                | TByte => if (0 <=? z) && (z <=? 255) then Some [z] else None
                | _ => if z <=? itype_max t
                       then match encode_number z with Ok _ => Some (slice (encode_digits z) 0 (itype_size t)) | Err _ => None end
                       else None
                end.
Proof. reflexivity. Qed.

(* one value of each declared type *)
Theorem C02_value_encoding : forall rec ty v len padded offset san,
  enc_value rec ty v len padded offset san =
  match ty with
  | EInt t => match v with
              | VInt z => enc_int t (z - offset)
              | VBool b => enc_int t ((if b then 1 else 0) - offset)
              | _ => None end
  | EBool t => enc_int t (if truthy v then 1 else 0)
  | EEnum _ t => match v with
                 | VInt z => enc_int t z
                 | VBool b => enc_int t (if b then 1 else 0)
                 | _ => None end
  | EStr enc => match v with VStr s => enc_str san enc s len padded | _ => None end
  | EBlob => match v with VBytes b => Some b | _ => None end
  | EStruct n => rec n v san
  end.
Proof. reflexivity. Qed.

(* ====================== breaks ====================== *)
Theorem C02_break : forall rec flds rmo san acc, enc_instr rec flds EBreak rmo san acc = Some ([255], rmo).
Proof. reflexivity. Qed.

(* ====================== hardcoded and dummy values ====================== *)
Theorem C02_hardcoded_unnamed : forall rec flds f lit rmo san acc,
  f_name f = None -> f_hard f = Some lit ->
  enc_instr rec flds (EField f) rmo san acc =
  match lit_value (f_ty f) lit with
  | Ok v => option_map (fun o => (o, rmo))
              (enc_value rec (f_ty f) v (match f_len f with LLit n => Some n | _ => None end) (f_padded f) 0 san)
  | Err _ => None
  end.
Proof. exact enc_hardcoded_unnamed. Qed.

Theorem C02_hardcoded_independent_of_object : forall rec flds1 flds2 f lit rmo san acc1 acc2,
  f_name f = None -> f_hard f = Some lit ->
  enc_instr rec flds1 (EField f) rmo san acc1 = enc_instr rec flds2 (EField f) rmo san acc2.
Proof.
  intros rec flds1 flds2 f lit rmo san acc1 acc2 Hn Hh.
  rewrite (enc_hardcoded_unnamed rec flds1 f lit rmo san acc1 Hn Hh).
  now rewrite (enc_hardcoded_unnamed rec flds2 f lit rmo san acc2 Hn Hh).
Qed.

(* a guarded <dummy> is emitted iff the struct has written nothing so far *)
Theorem C02_dummy : forall rec flds ty lit guarded rmo san acc,
  enc_instr rec flds (EDummy ty lit guarded) rmo san acc =
  if guarded && negb (match acc with [] => true | _ => false end) then Some ([], rmo)
  else match lit_value ty lit with
       | Ok v => option_map (fun o => (o, rmo)) (enc_value rec ty v None false 0 san)
       | Err _ => None
       end.
Proof. exact enc_dummy. Qed.

(* ====================== strings: padding and sanitisation ====================== *)
Theorem C02_string_field : forall rec flds f name enc s rmo san acc,
  f_name f = Some name -> f_ty f = EStr enc -> assoc flds name = Some (VStr s) ->
  enc_instr rec flds (EField f) rmo san acc =
  let '(rmo', go) := opt_guard (f_optional f) (f_opt_first f) rmo (VStr s) in
  if go
  then if len_ok f (VStr s)
       then option_map (fun o => (o, rmo')) (enc_str san enc s (field_len f (VStr s)) (f_padded f))
       else None
  else Some ([], rmo').
Proof. exact enc_string_field. Qed.

Theorem C02_padding : forall rec flds f name enc s n rmo san acc,
  f_name f = Some name -> f_ty f = EStr enc -> f_len f = LLit n -> f_padded f = true ->
  assoc flds name = Some (VStr s) ->
  enc_instr rec flds (EField f) rmo san acc =
  let '(rmo', go) := opt_guard (f_optional f) (f_opt_first f) rmo (VStr s) in
  if go
  then if zlen s <=? n
       then Some (place enc (sanitize san (cp_encode s) ++ zrepeat 255 (n - zlen s)), rmo')
       else None
  else Some ([], rmo').
Proof. exact enc_padded_field. Qed.

Theorem C02_string_image : forall san enc s len padded,
  enc_str san enc s len padded =
  match len with
  | None => Some (place enc (sanitize san (cp_encode s)))
  | Some n => if padded
              then if zlen s <=? n then Some (place enc (sanitize san (cp_encode s) ++ zrepeat 255 (n - zlen s))) else None
              else if zlen s =? n then Some (place enc (sanitize san (cp_encode s))) else None
  end.
Proof. reflexivity. Qed.

(* sanitised iff the static mode at the instruction is true ... *)
Theorem C02_sanitise_by_mode : forall bs,
  sanitize true bs = map (fun b => if b =? 255 then 121 else b) bs /\ sanitize false bs = bs.
Proof. intros bs. split; reflexivity. Qed.

(* ... the mode is static: only a <chunked> boundary moves it, and it emits nothing ... *)
Theorem C02_mode_static : forall i san, instr_mode i san = match i with ESetMode b => b | _ => san end.
Proof. reflexivity. Qed.
Theorem C02_set_mode_silent : forall rec flds b rmo san acc, enc_instr rec flds (ESetMode b) rmo san acc = Some ([], rmo).
Proof. reflexivity. Qed.
Theorem C02_mode_at : forall is san,
  mode_after is san = match find (fun i => match i with ESetMode _ => true | _ => false end) (rev is) with
                      | Some (ESetMode b) => b
                      | _ => san
                      end.
Proof. exact mode_after_static. Qed.

(* ... a nested struct is encoded in the mode current at its field and cannot change its parent's mode ... *)
Theorem C02_nested_mode : forall rec n v len padded off san, enc_value rec (EStruct n) v len padded off san = rec n v san.
Proof. reflexivity. Qed.

(* ... and the only mode changes the elaborator emits are the brackets of an outermost <chunked>: inside, mode true *)
Theorem C02_chunked_brackets : forall T tfuel fuel cls c body rest, cx_chunked c = false ->
  elab_instrs T tfuel (S fuel) cls c (RChunked body :: rest) =
  (do _ <- guard (negb (cx_rdummy c));
   do x <- elab_instrs T tfuel fuel cls (mkCtx true (cx_ropt c) (cx_rdummy c) (cx_fields c) (cx_lenmap c) true) body;
   let '(c2, es, aux) := x in
   do r2 <- elab_instrs T tfuel fuel cls (mkCtx false (cx_ropt c2) (cx_rdummy c2) (cx_fields c2) (cx_lenmap c2) (cx_emitted c2)) rest;
   let '(c'', es', aux') := r2 in
   Ok (c'', (ESetMode true :: es ++ [ESetMode false]) ++ es', aux ++ aux')).
Proof. exact elab_chunked_outer. Qed.

Theorem C02_chunked_nested_no_brackets : forall T tfuel fuel cls c body rest, cx_chunked c = true ->
  elab_instrs T tfuel (S fuel) cls c (RChunked body :: rest) =
  (do _ <- guard (negb (cx_rdummy c));
   do x <- elab_instrs T tfuel fuel cls (mkCtx true (cx_ropt c) (cx_rdummy c) (cx_fields c) (cx_lenmap c) (cx_emitted c)) body;
   let '(c2, es, aux) := x in
   do r2 <- elab_instrs T tfuel fuel cls (mkCtx true (cx_ropt c2) (cx_rdummy c2) (cx_fields c2) (cx_lenmap c2) (cx_emitted c2)) rest;
   let '(c'', es', aux') := r2 in
   Ok (c'', es ++ es', aux ++ aux')).
Proof. exact elab_chunked_nested. Qed.

Theorem C02_chunked_body_sanitised : forall rec flds es rmo san acc,
  enc_run rec flds (ESetMode true :: es ++ [ESetMode false]) rmo san acc = enc_run rec flds es rmo true acc /\
  mode_after (ESetMode true :: es ++ [ESetMode false]) san = false.
Proof. intros rec flds es rmo san acc. split; [apply enc_run_bracket | apply mode_after_bracket]. Qed.

(* ====================== switches ====================== *)
Theorem C02_switch_selects : forall rec flds field cases fv dv rmo san acc,
  assoc flds field = Some fv -> assoc flds (field ++ "_data")%string = Some dv ->
  enc_instr rec flds (ESwitch field cases) rmo san acc =
  match find_case cases (switch_key fv) with
  | Some (mkCase _ (Some cls)) =>
      match obj_class dv with
      | Some c' => if String.eqb c' cls then option_map (fun o => (o, rmo)) (rec cls dv san) else None
      | None => None
      end
  | _ => if is_none dv then Some ([], rmo) else None
  end.
Proof. exact enc_switch. Qed.

(* the case found: first in document order whose value is the field's, or the default; none = nothing matches *)
Theorem C02_switch_case_found : forall cases z,
  match find_case cases z with
  | Some c => exists pre post, cases = pre ++ c :: post /\ key_matches z c = true /\
                               forall c', In c' pre -> key_matches z c' = false
  | None => forall c', In c' cases -> key_matches z c' = false
  end.
Proof. exact find_case_spec. Qed.

(* ====================== elaboration: family / action ====================== *)
(* every generated packet class comes from a <packet> of a net/client or net/server file, is named
   family ++ action ++ Client/ServerPacket, and reports the ordinals PacketFamily / PacketAction declare for those names *)
Theorem C02_family_action : forall fs p pk, elab fs = Ok p -> In pk (pk_packets p) ->
  exists T f rp fa ac suffix efam pfam tf eact pact ta,
    index_files [] fs = Ok T /\ In f fs /\ In rp (rf_packets f) /\
    rp_family rp = Some fa /\ rp_action rp = Some ac /\
    ((rf_path f = "net/client" /\ suffix = "ClientPacket") \/ (rf_path f = "net/server" /\ suffix = "ServerPacket")) /\
    pp_cls pk = (fa ++ ac ++ suffix)%string /\
    assoc T "PacketFamily" = Some (RTEnum efam pfam) /\ In (Some fa, Some tf) (re_values efam) /\
    parse_int tf = Some (pp_family pk) /\
    assoc T "PacketAction" = Some (RTEnum eact pact) /\ In (Some ac, Some ta) (re_values eact) /\
    parse_int ta = Some (pp_action pk).
Proof. exact family_action. Qed.

(* the same with the two enums traced back to the files that declare them *)
Theorem C02_family_action_declared : forall fs p pk, elab fs = Ok p -> In pk (pk_packets p) ->
  exists f rp fa ac suffix ffam efam tf fact eact ta,
    In f fs /\ In rp (rf_packets f) /\ rp_family rp = Some fa /\ rp_action rp = Some ac /\
    ((rf_path f = "net/client" /\ suffix = "ClientPacket") \/ (rf_path f = "net/server" /\ suffix = "ServerPacket")) /\
    pp_cls pk = (fa ++ ac ++ suffix)%string /\
    In ffam fs /\ In efam (rf_enums ffam) /\ re_name efam = Some "PacketFamily" /\
    In (Some fa, Some tf) (re_values efam) /\ parse_int tf = Some (pp_family pk) /\
    In fact fs /\ In eact (rf_enums fact) /\ re_name eact = Some "PacketAction" /\
    In (Some ac, Some ta) (re_values eact) /\ parse_int ta = Some (pp_action pk).
Proof. exact family_action_declared. Qed.

(* and no declared packet is lost *)
Theorem C02_every_packet_generated : forall fs p f rp, elab fs = Ok p -> In f fs -> In rp (rf_packets f) ->
  exists pk fa ac suffix, In pk (pk_packets p) /\ rp_family rp = Some fa /\ rp_action rp = Some ac /\
    ((rf_path f = "net/client" /\ suffix = "ClientPacket") \/ (rf_path f = "net/server" /\ suffix = "ServerPacket")) /\
    pp_cls pk = (fa ++ ac ++ suffix)%string.
Proof. exact every_packet_generated. Qed.

(* ====================== elaboration: XML attributes -> instruction ("as declared") ====================== *)
Theorem C02_field_as_declared : forall T tfuel c name ty len padded optional text c' es,
  elab_field T tfuel c name ty len padded optional text = Ok (c', es) ->
  exists tn t l maxlen, ty = Some tn /\ get_type T tfuel tn len = Ok t /\ elab_len c len = Ok (l, maxlen) /\
    es = [EField (mkField name (ti_ty t) l (bool_attr padded false) (bool_attr optional false) (negb (cx_ropt c)) text maxlen)].
Proof. exact elab_field_inv. Qed.

Theorem C02_array_as_declared : forall T tfuel c name ty len optional delimited trailing c' es,
  elab_array T tfuel c name ty len optional delimited trailing = Ok (c', es) ->
  exists n tn t l maxlen cnt, name = Some n /\ ty = Some tn /\ get_type T tfuel tn None = Ok t /\
    elab_len c len = Ok (l, maxlen) /\
    es = [EArray (mkField (Some n) (ti_ty t) l false (bool_attr optional false) (negb (cx_ropt c)) None maxlen)
                 (bool_attr delimited false) (bool_attr trailing true) cnt] /\
    (bool_attr delimited false = true -> cx_chunked c = true).
Proof. exact elab_array_inv. Qed.

Theorem C02_length_as_declared : forall T tfuel c name ty offset optional c' es,
  elab_length T tfuel c name ty offset optional = Ok (c', es) ->
  exists n tn t i off, name = Some n /\ ty = Some tn /\ get_type T tfuel tn None = Ok t /\ ti_ty t = EInt i /\
    match offset with None => off = 0 | Some o => parse_int o = Some off end /\
    es = [ELength n i off (bool_attr optional false) (negb (cx_ropt c)) None].
Proof. exact elab_length_inv. Qed.

Theorem C02_dummy_as_declared : forall T tfuel c ty text c' es,
  elab_dummy T tfuel c ty text = Ok (c', es) ->
  exists tn lit t, ty = Some tn /\ text = Some lit /\ get_type T tfuel tn None = Ok t /\
    es = [EDummy (ti_ty t) lit (cx_emitted c)].
Proof. exact elab_dummy_inv. Qed.

(* ====================== elaboration: explicit boolean defaults ====================== *)
Theorem C02_bool_attr_default : forall s, String.eqb (lower s) "true" = false -> bool_attr (Some s) false = bool_attr None false.
Proof. exact bool_attr_default_false. Qed.

Theorem C02_bool_attr_default_true : forall s, String.eqb (lower s) "true" = true -> bool_attr (Some s) true = bool_attr None true.
Proof. exact bool_attr_default_true. Qed.

(* norm_instr erases, through the whole instruction tree, every optional / padded / delimited / default attribute that
   does not spell true and every trailing-delimiter attribute that does *)
Theorem C02_norm_erases : forall s,
  erase_false (Some s) = (if String.eqb (lower s) "true" then Some s else None) /\
  erase_true (Some s) = (if String.eqb (lower s) "true" then None else Some s).
Proof. intros s. split; reflexivity. Qed.

Theorem C02_norm_instr_def : forall i,
  norm_instr i = match i with
                 | RField n ty l p o tx => RField n ty l (erase_false p) (erase_false o) tx
                 | RArray n ty l o d tr => RArray n ty l (erase_false o) (erase_false d) (erase_true tr)
                 | RLength n ty off o => RLength n ty off (erase_false o)
                 | RDummy ty tx => RDummy ty tx
                 | RSwitch f cases => RSwitch f (map norm_case cases)
                 | RChunked b => RChunked (map norm_instr b)
                 | RBreak => RBreak
                 end
  /\ forall v d b, norm_case (RCase v d b) = RCase v (erase_false d) (map norm_instr b).
Proof. intros i. split; [destruct i; reflexivity | reflexivity]. Qed.

Theorem C02_explicit_defaults_instr : forall T tfuel fuel cls c i rest,
  elab_instrs T tfuel fuel cls c (norm_instr i :: rest) = elab_instrs T tfuel fuel cls c (i :: rest).
Proof. exact elab_instr_attr. Qed.

Theorem C02_explicit_defaults_same_spec : forall T tfuel fuel cls c is,
  elab_instrs T tfuel fuel cls c (map_norm is) = elab_instrs T tfuel fuel cls c is.
Proof. exact elab_instrs_norm. Qed.

(* whole protocols: structs referenced through the type environment included *)
Theorem C02_explicit_defaults_same_protocol : forall fs, elab (map norm_file fs) = elab fs.
Proof. exact elab_norm_files. Qed.

(* ====================== examples ====================== *)
Definition ex_fld n ty len pad := mkField (Some n) ty len pad false true None 252.
Definition ex_env : env :=
  [ mkSDef "Inner" [EField (ex_fld "s" (EStr false) LNone false)];
    mkSDef "P.KData1" [EField (ex_fld "extra" (EInt TShort) LNone false)];
    mkSDef "P"
      [ EField (ex_fld "k" (EInt TChar) LNone false);
        ELength "n" TChar 1 false true (Some "name");
        EField (ex_fld "name" (EStr false) (LRef "n") false);
        EField (mkField None (EStr false) (LLit 2) false false true (Some "hi") 0);
        ESetMode true;
        EField (ex_fld "title" (EStr false) LNone false);
        EBreak;
        EArray (ex_fld "items" (EStruct "Inner") LNone false) true false ACWhile;
        EBreak;
        EArray (ex_fld "nums" (EInt TChar) LNone false) true true ACWhile;
        EField (ex_fld "tag" (EStr false) (LLit 4) true);
        ESetMode false;
        ESwitch "k" [mkCase (CKValue 1) (Some "P.KData1"); mkCase CKDefault None];
        EDummy (EInt TByte) "255" true ] ].
Definition ex_inner s := VObj "Inner" [("s", VStr s)].
Definition ex_value (k : Z) (kd : value) : value :=
  VObj "P" [("k", VInt k); ("name", VStr [65; 255]); ("title", VStr [66; 255]);
            ("items", VList [ex_inner [97; 255]; ex_inner [98]]); ("nums", VList [VInt 0; VInt 5]); ("tag", VStr [67; 68]);
            ("k_data", kd)].

(* k | len(name)-1 | name raw (0xFF kept: not chunked) | "hi" | title sanitised | FF | items joined by FF | FF |
   nums each followed by FF | tag padded to 4 | case 1 data (short 300) | guarded dummy suppressed *)
Example C02_ex_bytes :
  encode ex_env "P" (ex_value 1 (VObj "P.KData1" [("extra", VInt 300)])) false
  = Some [2; 2; 65; 255; 104; 105; 66; 121; 255; 97; 121; 255; 98; 255; 1; 255; 6; 255; 67; 68; 255; 255; 48; 2]
  /\ serialize ex_env "P" (ex_value 1 (VObj "P.KData1" [("extra", VInt 300)])) false
  = (mkW [2; 2; 65; 255; 104; 105; 66; 121; 255; 97; 121; 255; 98; 255; 1; 255; 6; 255; 67; 68; 255; 255; 48; 2] false, Ok tt).
Proof. vm_compute. split; reflexivity. Qed.

(* default (empty) case: data must be None, nothing is written; wrong case class / stray data: no encoding *)
Example C02_ex_switch :
  encode ex_env "P" (ex_value 7 VNone) false
  = Some [8; 2; 65; 255; 104; 105; 66; 121; 255; 97; 121; 255; 98; 255; 1; 255; 6; 255; 67; 68; 255; 255]
  /\ encode ex_env "P" (ex_value 7 (VObj "P.KData1" [("extra", VInt 300)])) false = None
  /\ encode ex_env "P" (ex_value 1 VNone) false = None
  /\ encode ex_env "P" (ex_value 1 (VObj "Inner" [("s", VStr [])])) false = None.
Proof. vm_compute. repeat split. Qed.

(* a guarded dummy is the only content of an otherwise empty struct *)
Example C02_ex_dummy :
  encode [mkSDef "D" [EDummy (EInt TByte) "255" true]] "D" (VObj "D" []) false = Some [255]
  /\ encode [mkSDef "D" [EBreak; EDummy (EInt TByte) "255" true]] "D" (VObj "D" []) false = Some [255]
  /\ encode [mkSDef "D" [EBreak; EDummy (EInt TByte) "7" false]] "D" (VObj "D" []) false = Some [255; 7].
Proof. vm_compute. repeat split. Qed.

(* -1 is encodable in every non-byte integer type (as EoWriter does), -2 is not; a byte is a plain byte *)
Example C02_ex_ints :
  enc_int TChar (-1) = Some [0] /\ enc_int TShort (-1) = Some [0; 254] /\ enc_int TChar (-2) = None /\
  enc_int TByte (-1) = None /\ enc_int TChar 252 = Some [253] /\ enc_int TChar 253 = None /\
  enc_int TThree 64009 = Some [1; 1; 2].
Proof. vm_compute. repeat split. Qed.

Definition ex_files (explicit : bool) : list rfile :=
  let a (s : string) : option string := if explicit then Some s else None in
  [ mkRFile "net" [mkREnum (Some "PacketFamily") (Some "byte") [(Some "Init", Some "1")];
                   mkREnum (Some "PacketAction") (Some "byte") [(Some "Ping", Some "2")]] [] [];
    mkRFile "net/client" [] []
      [mkRPacket (Some "Init") (Some "Ping")
         [RField (Some "x") (Some "char") None (a "false") (a "FALSE") None;
          RChunked [RArray (Some "a") (Some "char") None (a "no") (Some "true") (a "True")]]] ].

Example C02_ex_defaults :
  map norm_file (ex_files true) = ex_files false /\ ex_files true <> ex_files false /\
  elab (ex_files true) = elab (ex_files false) /\
  (exists p, elab (ex_files true) = Ok p /\ pk_packets p = [mkPPacket "InitPingClientPacket" 1 2]).
Proof.
  split; [vm_compute; reflexivity|]. split; [intros H; discriminate H|]. split; [vm_compute; reflexivity|].
  eexists. split; [vm_compute; reflexivity | reflexivity].
Qed.

Print Assumptions C02_ser_is_enc.
Print Assumptions C02_ser_fails_iff.
Print Assumptions C02_serialize_is_encode.
Print Assumptions C02_body_refines.
Print Assumptions C02_document_order_cons.
Print Assumptions C02_document_order_app.
Print Assumptions C02_document_order.
Print Assumptions C02_array_trailing.
Print Assumptions C02_array_separating.
Print Assumptions C02_array_plain.
Print Assumptions C02_length_field.
Print Assumptions C02_length_field_optional.
Print Assumptions C02_length_field_absent.
Print Assumptions C02_break.
Print Assumptions C02_hardcoded_unnamed.
Print Assumptions C02_hardcoded_independent_of_object.
Print Assumptions C02_dummy.
Print Assumptions C02_string_field.
Print Assumptions C02_padding.
Print Assumptions C02_sanitise_by_mode.
Print Assumptions C02_mode_at.
Print Assumptions C02_chunked_brackets.
Print Assumptions C02_chunked_body_sanitised.
Print Assumptions C02_switch_selects.
Print Assumptions C02_switch_case_found.
Print Assumptions C02_family_action.
Print Assumptions C02_family_action_declared.
Print Assumptions C02_every_packet_generated.
Print Assumptions C02_field_as_declared.
Print Assumptions C02_array_as_declared.
Print Assumptions C02_length_as_declared.
Print Assumptions C02_dummy_as_declared.
Print Assumptions C02_bool_attr_default.
Print Assumptions C02_bool_attr_default_true.
Print Assumptions C02_explicit_defaults_instr.
Print Assumptions C02_explicit_defaults_same_spec.
Print Assumptions C02_explicit_defaults_same_protocol.
Print Assumptions C02_ex_bytes.
Print Assumptions C02_ex_defaults.
