(* C03 (acceptance => well-formedness) - the decidable hypotheses `wf_class` of C03_deserialize / C03_only_documented_error are
   CONSEQUENCES of the generator accepting the specification (Model/Elab.v mirrors its checks), for every specification that is
   non-degenerate in the sense of the property's quantifier:
     - class names distinct from each other and from enum names (identifiers colliding with generated names are "degenerate"),
     - no required length field named like the `<field>_data` member a switch generates (idem),
     - no zero-size element type in a `remaining / size` array (zero-size array elements are "degenerate"),
   and that (a) has no recursive struct (depth_ok: the generator accepts `struct Self { string s; Self me }`, whose
   generated package cannot even be imported), (b) does not reference an OPTIONAL length field (known finding F12).
   Each hypothesis is necessary: Proofs/ElabSound.v has an accepted tree violating exactly that one with wf_pkg = false. *)
From EO Require Import Prelude.Py Model.Number Model.Reader Model.Spec Model.Elab Model.Ser Model.Deser Model.WfEnv Model.Progress Model.NonDegen
  Proofs.ElabSound Properties.C03 Properties.C03T.
Open Scope Z_scope.

Theorem C03_accepted_wf : forall fs p,
  elab fs = Ok p -> nondegenerate p = true -> depth_ok (pk_env p) = true -> opt_lens_unreferenced p = true ->
  wf_pkg p = true.
Proof.
  intros fs p HE HN HD HO. unfold nondegenerate in HN.
  apply andb_prop in HN. destruct HN as [HN H4]. apply andb_prop in HN. destruct HN as [HN H3].
  apply andb_prop in HN. destruct HN as [H1 H2].
  exact (elab_wf_weak fs p HE HD HO H1 H2 H3 H4).
Qed.
Print Assumptions C03_accepted_wf.

(* ... so for every struct / packet class of an accepted non-degenerate specification the generated deserializer's only failure
   is the documented ValueError, on every byte string (termination: progress_okT, the static check of C03_terminates) *)
Theorem C03_accepted_only_documented_error : forall fs p cls d data e,
  elab fs = Ok p -> nondegenerate p = true -> depth_ok (pk_env p) = true -> opt_lens_unreferenced p = true ->
  In cls (top_classes p) -> env_find (pk_env p) cls = Some d ->
  progress_okT (pk_env p) cls false = true ->
  snd (deserialize (pk_env p) cls data false) = Err e -> e = EValue.
Proof.
  intros fs p cls d data e HE HN HD HO HT HF HP HX.
  pose proof (C03_accepted_wf fs p HE HN HD HO) as W. unfold wf_pkg in W.
  apply andb_prop in W. destruct W as [_ W].
  rewrite forallb_forall in W. specialize (W cls HT). rewrite HF in W.
  exact (C03_only_documented_error (pk_env p) cls data false e W HP HD HX).
Qed.
Print Assumptions C03_accepted_only_documented_error.

(* the hypotheses cannot be dropped (witnesses evaluated by the kernel) *)
Theorem C03_accepted_wf_needs_depth : exists fs p, elab fs = Ok p /\ Witness.hyps p = [false; true; true; true; true; true] /\ wf_pkg p = false.
Proof. exact depth_ok_needed. Qed.
Theorem C03_accepted_wf_needs_each : 
  (exists fs p, elab fs = Ok p /\ Witness.hyps p = [true; false; true; true; true; true] /\ wf_pkg p = false) /\
  (exists fs p, elab fs = Ok p /\ Witness.hyps p = [true; true; false; true; true; true] /\ wf_pkg p = false) /\
  (exists fs p, elab fs = Ok p /\ Witness.hyps p = [true; true; true; false; true; true] /\ wf_pkg p = false) /\
  (exists fs p, elab fs = Ok p /\ Witness.hyps p = [true; true; true; true; false; true] /\ wf_pkg p = false) /\
  (exists fs p, elab fs = Ok p /\ Witness.hyps p = [true; true; true; true; true; false] /\ wf_pkg p = false).
Proof.
  exact (conj opt_lens_unreferenced_needed (conj dup_free_needed (conj enum_names_fresh_needed (conj switch_data_fresh_needed arrays_sized_needed)))).
Qed.
Print Assumptions C03_accepted_wf_needs_each.
