(* C07 - EO number codec is a wire-safe bijection on its whole range.
   Statements are about the model (Model/Number.v).  The model is tied to /repo on every run by
   Bridge/B_number.v (translated source = model, for all inputs; transported statements
   C07_*_src there) and by the correspondence check. *)
From EO Require Import Prelude.Py Model.Limits Model.Number Proofs.Number.
Open Scope Z_scope.

(* round trip on the whole EO int range, about the translated source *)
Theorem C07_roundtrip : forall n, 0 <= n < 4097152081 ->
  exists bs, encode_number n = Ok bs /\ decode_number bs = n.
Proof.
  intros n H. exists (encode_digits n).   split; [apply encode_number_ok | apply decode_digits]; exact H.
Qed.

(* four bytes, none of them 0x00 or 0xFF (every byte in 1..254) *)
Theorem C07_wire_safe : forall n, 0 <= n < 4097152081 ->
  exists bs, encode_number n = Ok bs /\ length bs = 4%nat /\ Forall (fun b => 1 <= b <= 254) bs.
Proof.
  intros n H. exists (encode_digits n).
  split; [apply encode_number_ok; exact H|]. split; [reflexivity | apply encode_digits_range; exact H].
Qed.

(* for n < 253^k the first k bytes alone decode to n; the rest is 0xFE filler *)
Theorem C07_prefix : forall n bs, encode_number n = Ok bs ->
  (0 <= n < 253 -> decode_number (firstn 1 bs) = n /\ skipn 1 bs = [254; 254; 254]) /\
  (0 <= n < 64009 -> decode_number (firstn 2 bs) = n /\ skipn 2 bs = [254; 254]) /\
  (0 <= n < 16194277 -> decode_number (firstn 3 bs) = n /\ skipn 3 bs = [254]).
Proof.
  intros n bs E.
  assert (P : forall k, 0 <= n < k -> k <= 16194277 -> bs = encode_digits n).
  { intros k Hk Hle. rewrite encode_number_ok in E by (unfold INT_MAX; lia). injection E as <-. reflexivity. }
  split; [|split]; intros H.
  - rewrite (P _ H) by lia. apply prefix1; exact H.
  - rewrite (P _ H) by lia. apply prefix2; exact H.
  - rewrite (P _ H) by lia. apply prefix3; exact H.
Qed.

(* decoding ANY byte string is the documented positional formula (first 0xFE stops, <= 4 bytes) *)
Theorem C07_decode_formula : forall bs, decode_number bs = positional bs 1 4.
Proof. intros bs. reflexivity. Qed.

Theorem C07_decode_at_most_four : forall bs, decode_number bs = decode_number (firstn 4 bs).
Proof. intros bs. apply decode_firstn4. Qed.

(* distinct in-range numbers never share an encoding *)
Theorem C07_injective : forall n m, 0 <= n < 4097152081 -> 0 <= m < 4097152081 ->
  encode_number n = encode_number m -> n = m.
Proof.
  intros n m Hn Hm E.
  rewrite !encode_number_ok in E by assumption. apply (f_equal (fun r => match r with Ok l => l | Err _ => [] end)) in E. exact (encode_injective n m Hn Hm E).
Qed.

(* non-vacuity / the literal vectors of the existing tests *)
Example C07_vectors :
  map encode_number [0; 1; 28; 100; 128; 252; 253; 254; 255; 32003; 32004; 32005; 64008; 64009; 64010;
                       10000000; 16194276; 16194277; 16194278; 2048576039; 2048576040; 2048576041;
                       4097152079; 4097152080]
  = map Ok [[1;254;254;254]; [2;254;254;254]; [29;254;254;254]; [101;254;254;254]; [129;254;254;254];
            [253;254;254;254]; [1;2;254;254]; [2;2;254;254]; [3;2;254;254]; [126;127;254;254];
            [127;127;254;254]; [128;127;254;254]; [253;253;254;254]; [1;1;2;254]; [2;1;2;254];
            [176;58;157;254]; [253;253;253;254]; [1;1;1;2]; [2;1;1;2]; [126;127;127;127];
            [127;127;127;127]; [128;127;127;127]; [252;253;253;253]; [253;253;253;253]].
Proof. vm_compute. reflexivity. Qed.

Print Assumptions C07_roundtrip.
Print Assumptions C07_wire_safe.
Print Assumptions C07_prefix.
Print Assumptions C07_decode_formula.
Print Assumptions C07_decode_at_most_four.
Print Assumptions C07_injective.
