(* C15: every generated serialize call leaves the writer's string-sanitisation mode, and every generated
   deserialize call leaves the reader's chunked-reading mode, exactly as it was on entry -- whatever the
   entry mode, however chunked sections, structs, arrays and switch cases are nested, and whether the call
   returns or raises. *)
From EO Require Import Prelude.Py Model.Writer Model.Reader Model.Spec Model.Ser Model.Deser Proofs.Modes.
Set Default Timeout 60.
Open Scope Z_scope.

(* the property: for every fuel, environment, class, value / reader state; Ok or Err alike *)
Theorem C15_ser_restores : forall fuel E cls v w, wsan (fst (ser_struct fuel E cls v w)) = wsan w.
Proof. exact ser_struct_san. Qed.

Theorem C15_deser_restores : forall fuel E cls r, rchunked (fst (deser_struct fuel E cls r)) = rchunked r.
Proof. exact deser_struct_chunked. Qed.

(* it does not even depend on what nested serializers do: ANY callee (a failing or foreign one included) *)
Theorem C15_ser_body_restores : forall rec d v w, wsan (fst (ser_body rec d v w)) = wsan w.
Proof. exact ser_body_san. Qed.

Theorem C15_deser_body_restores : forall rec d r, rchunked (fst (deser_body rec d r)) = rchunked r.
Proof. exact deser_body_chunked. Qed.

(* inside a body the mode is a static function of the entry mode and the mode statements executed so far *)
Fixpoint static_mode (m : bool) (is : list einstr) : bool :=
  match is with [] => m | ESetMode b :: t => static_mode b t | _ :: t => static_mode m t end.

(* the same function as the one the lemma library reasons about *)
Lemma static_mode_eq : forall m is, static_mode m is = Modes.static_mode m is.
Proof. intros m is; revert m; induction is as [|i t IH]; intros m; [reflexivity|]. destruct i; cbn [static_mode Modes.static_mode]; apply IH. Qed.

Theorem C15_ser_mode_static : forall rec, (forall n v w, wsan (fst (rec n v w)) = wsan w) ->
  forall flds old is rmo w w', ser_instrs rec flds old is rmo w = (w', Ok tt) -> wsan w' = static_mode (wsan w) is.
Proof.
  intros rec Hrec flds old is rmo w w' Hs. rewrite static_mode_eq.
  exact (ser_instrs_mode_ok rec Hrec flds old is rmo w w' Hs).
Qed.

(* strengthened: the prefix `pre` is exactly the statements that completed, and the statement `i` the
   exception escaped from is not a mode statement (so no mode statement is ever half-executed) *)
Theorem C15_ser_mode_on_error_strong : forall rec, (forall n v w, wsan (fst (rec n v w)) = wsan w) ->
  forall flds old is rmo w w' e, ser_instrs rec flds old is rmo w = (w', Err e) ->
  exists pre i post, is = pre ++ i :: post /\ (forall b, i <> ESetMode b) /\ wsan w' = static_mode (wsan w) pre.
Proof.
  intros rec Hrec flds old is rmo w w' e Hs.
  destruct (ser_instrs_mode_err rec Hrec flds old is rmo w w' e Hs) as (pre & i & post & Heq & Hi & Hm).
  exists pre, i, post. split; [exact Heq|]. split; [|rewrite static_mode_eq; exact Hm].
  intros b Hb. rewrite Hb in Hi. discriminate Hi.
Qed.

Theorem C15_ser_mode_on_error : forall rec, (forall n v w, wsan (fst (rec n v w)) = wsan w) ->
  forall flds old is rmo w w' e, ser_instrs rec flds old is rmo w = (w', Err e) ->
  exists pre post, is = pre ++ post /\ wsan w' = static_mode (wsan w) pre.
Proof.
  intros rec Hrec flds old is rmo w w' e Hs.
  destruct (C15_ser_mode_on_error_strong rec Hrec flds old is rmo w w' e Hs) as (pre & i & post & Heq & _ & Hm).
  exists pre, (i :: post). split; [exact Heq | exact Hm].
Qed.

Theorem C15_deser_mode_static : forall rec, (forall n r, rchunked (fst (rec n r)) = rchunked r) ->
  forall start is locals r r' l, deser_instrs rec start is locals r = (r', Ok l) -> rchunked r' = static_mode (rchunked r) is.
Proof.
  intros rec Hrec start is locals r r' l Hs. rewrite static_mode_eq.
  exact (deser_instrs_mode_ok rec Hrec start is locals r r' l Hs).
Qed.

Theorem C15_deser_mode_on_error_strong : forall rec, (forall n r, rchunked (fst (rec n r)) = rchunked r) ->
  forall start is locals r r' e, deser_instrs rec start is locals r = (r', Err e) ->
  exists pre i post, is = pre ++ i :: post /\ (forall b, i <> ESetMode b) /\ rchunked r' = static_mode (rchunked r) pre.
Proof.
  intros rec Hrec start is locals r r' e Hs.
  destruct (deser_instrs_mode_err rec Hrec start is locals r r' e Hs) as (pre & i & post & Heq & Hi & Hm).
  exists pre, i, post. split; [exact Heq|]. split; [|rewrite static_mode_eq; exact Hm].
  intros b Hb. rewrite Hb in Hi. discriminate Hi.
Qed.

Theorem C15_deser_mode_on_error : forall rec, (forall n r, rchunked (fst (rec n r)) = rchunked r) ->
  forall start is locals r r' e, deser_instrs rec start is locals r = (r', Err e) ->
  exists pre post, is = pre ++ post /\ rchunked r' = static_mode (rchunked r) pre.
Proof.
  intros rec Hrec start is locals r r' e Hs.
  destruct (C15_deser_mode_on_error_strong rec Hrec start is locals r r' e Hs) as (pre & i & post & Heq & _ & Hm).
  exists pre, (i :: post). split; [exact Heq | exact Hm].
Qed.

(* hence: a nested struct is entered in the mode in force at the call, and the caller continues in that same mode *)
Theorem C15_nested_call : forall fuel E n v w, let w' := fst (ser_struct fuel E n v w) in wsan w' = wsan w.
Proof. intros fuel E n v w. exact (ser_struct_san fuel E n v w). Qed.

(* the same for the reader, and for the top-level entry points of the models *)
Theorem C15_nested_call_deser : forall fuel E n r, let r' := fst (deser_struct fuel E n r) in rchunked r' = rchunked r.
Proof. intros fuel E n r. exact (deser_struct_chunked fuel E n r). Qed.

Theorem C15_serialize_restores : forall E cls v san, wsan (fst (serialize E cls v san)) = san.
Proof. exact serialize_san. Qed.

Theorem C15_deserialize_restores : forall E cls data chunked, rchunked (fst (deserialize E cls data chunked)) = chunked.
Proof. exact deserialize_chunked. Qed.

(* the instances the mode theorems are used at: the generated callees themselves satisfy their hypothesis *)
Corollary C15_ser_struct_mode_static : forall fuel E flds old is rmo w w',
  ser_instrs (ser_struct fuel E) flds old is rmo w = (w', Ok tt) -> wsan w' = static_mode (wsan w) is.
Proof. intros fuel E. exact (C15_ser_mode_static (ser_struct fuel E) (ser_struct_keeps fuel E)). Qed.

Corollary C15_deser_struct_mode_static : forall fuel E start is locals r r' l,
  deser_instrs (deser_struct fuel E) start is locals r = (r', Ok l) -> rchunked r' = static_mode (rchunked r) is.
Proof. intros fuel E. exact (C15_deser_mode_static (deser_struct fuel E) (deser_struct_keeps fuel E)). Qed.

(* ------------------------------------------------------------------------------------------ *)
(* a concrete environment: Outer has a chunked section holding a nested Inner, which has its own;
   Plain has none.                                                                               *)
(* ------------------------------------------------------------------------------------------ *)
Module Ex.
  Open Scope string_scope.
  Definition fld (n : string) (ty : etype) : fieldspec := mkField (Some n) ty LNone false false false None 0.
  (* <chunked> <length name=n type=char offset=-5/> <field name=s type=string length=n/> <field name=t type=string/> </chunked> *)
  Definition Inner : sdef := mkSDef "Inner"
    [ESetMode true; ELength "n" TChar (-5) false false (Some "s");
     EField (mkField (Some "s") (EStr false) (LRef "n") false false false None 247);
     EField (fld "t" (EStr false)); ESetMode false].
  Definition Plain : sdef := mkSDef "Plain" [EField (fld "p" (EStr false))].
  (* a; <chunked> name; break; inner; break; plain; break; tail </chunked> post *)
  Definition Outer : sdef := mkSDef "Outer"
    [EField (fld "a" (EInt TChar)); ESetMode true; EField (fld "name" (EStr false)); EBreak;
     EField (fld "inner" (EStruct "Inner")); EBreak; EField (fld "plain" (EStruct "Plain")); EBreak;
     EField (fld "tail" (EStr false)); ESetMode false; EField (fld "post" (EStr false))].
  Definition E : env := [Outer; Inner; Plain].

  Definition plain := VObj "Plain" [("p", VStr [70; 255])].
  Definition inner_ok := VObj "Inner" [("s", VStr [66; 255]); ("t", VStr [67; 255])].
  Definition inner_bad := VObj "Inner" [("s", VStr [66; 255]); ("t", VNone)].      (* required field missing *)
  Definition outer (i : value) :=
    VObj "Outer" [("a", VInt 1); ("name", VStr [65; 255]); ("inner", i); ("plain", plain); ("tail", VStr [255; 68]); ("post", VStr [255; 69])].

  Definition out_bytes : list Z := [2; 65; 121; 255; 8; 66; 121; 67; 121; 255; 70; 121; 255; 121; 68; 255; 69].

  (* success, from either entry mode: same bytes, final mode = entry mode.  Inner's own `mode = False` does not
     leak into Outer ("plain" and "tail" after it are still sanitised: 121), and Outer's does not leak out. *)
  Example ser_ok_true : serialize E "Outer" (outer inner_ok) true = (mkW out_bytes true, Ok tt).
  Proof. vm_compute. reflexivity. Qed.
  Example ser_ok_false : serialize E "Outer" (outer inner_ok) false = (mkW out_bytes false, Ok tt).
  Proof. vm_compute. reflexivity. Qed.

  (* SerializationError raised two levels down, inside Inner's chunked section (mode True at that point) *)
  Example ser_err_true : serialize E "Outer" (outer inner_bad) true = (mkW [2; 65; 121; 255; 8; 66; 121] true, Err ESerialization).
  Proof. vm_compute. reflexivity. Qed.
  Example ser_err_false : serialize E "Outer" (outer inner_bad) false = (mkW [2; 65; 121; 255; 8; 66; 121] false, Err ESerialization).
  Proof. vm_compute. reflexivity. Qed.

  (* a struct without a chunked section is sanitised exactly when its caller's mode says so *)
  Example plain_alone_false : serialize E "Plain" plain false = (mkW [70; 255] false, Ok tt).
  Proof. vm_compute. reflexivity. Qed.
  Example plain_alone_true : serialize E "Plain" plain true = (mkW [70; 121] true, Ok tt).
  Proof. vm_compute. reflexivity. Qed.

  (* a rogue callee that flips the mode and raises: the body still restores the entry mode *)
  Definition rogue : string -> value -> wstate -> wres := fun _ _ w => (w_set_san w (negb (wsan w)), Err ERuntime).
  Example ser_rogue : ser_body rogue Outer (outer inner_ok) (mkW [] false) = (mkW [2; 65; 121; 255] false, Err ERuntime).
  Proof. vm_compute. reflexivity. Qed.

  (* deserialize: full data, from either entry mode *)
  Definition out_value : value :=
    VObj "Outer" [("a", VInt 1); ("name", VStr [65; 121]);
                  ("inner", VObj "Inner" [("s", VStr [66; 121]); ("t", VStr [67; 121]); ("byte_size", VInt 5)]);
                  ("plain", VObj "Plain" [("p", VStr [70; 121]); ("byte_size", VInt 2)]);
                  ("tail", VStr [121; 68]); ("post", VStr [255; 69]); ("byte_size", VInt 17)].
  Example deser_ok_true :
    let '(r, v) := deserialize E "Outer" out_bytes true in (rchunked r, rpos r, v) = (true, 17, Ok out_value).
  Proof. vm_compute. reflexivity. Qed.
  Example deser_ok_false :
    let '(r, v) := deserialize E "Outer" out_bytes false in (rchunked r, rpos r, v) = (false, 17, Ok out_value).
  Proof. vm_compute. reflexivity. Qed.

  (* truncated after "name" + break: Inner reads its length byte as 0, 0 + (-5) < 0, the fixed-string read
     raises ValueError inside Inner's chunked section *)
  Example deser_err_true :
    let '(r, v) := deserialize E "Outer" (firstn 4 out_bytes) true in (rchunked r, rpos r, v) = (true, 4, Err EValue).
  Proof. vm_compute. reflexivity. Qed.
  Example deser_err_false :
    let '(r, v) := deserialize E "Outer" (firstn 4 out_bytes) false in (rchunked r, rpos r, v) = (false, 4, Err EValue).
  Proof. vm_compute. reflexivity. Qed.

  (* truncated inside Inner: the lenient reads succeed with short values; the mode is restored all the same *)
  Example deser_short_false :
    let '(r, v) := deserialize E "Outer" (firstn 6 out_bytes) false in
    (rchunked r, match v with Ok _ => true | Err _ => false end) = (false, true).
  Proof. vm_compute. reflexivity. Qed.

  (* the static mode of the two bodies: false after the closing statement, whatever the entry mode *)
  Example static_outer : forall m, static_mode m (sd_body Outer) = false.
  Proof. intros m. reflexivity. Qed.
  Example static_inner_prefix : forall m, static_mode m (firstn 4 (sd_body Inner)) = true.
  Proof. intros m. reflexivity. Qed.
End Ex.

Print Assumptions C15_ser_restores.
Print Assumptions C15_deser_restores.
Print Assumptions C15_ser_body_restores.
Print Assumptions C15_deser_body_restores.
Print Assumptions C15_ser_mode_static.
Print Assumptions C15_ser_mode_on_error.
Print Assumptions C15_ser_mode_on_error_strong.
Print Assumptions C15_deser_mode_static.
Print Assumptions C15_deser_mode_on_error.
Print Assumptions C15_deser_mode_on_error_strong.
Print Assumptions C15_nested_call.
Print Assumptions C15_nested_call_deser.
Print Assumptions C15_serialize_restores.
Print Assumptions C15_deserialize_restores.
Print Assumptions C15_ser_struct_mode_static.
Print Assumptions C15_deser_struct_mode_static.
Print Assumptions Ex.ser_err_true.
Print Assumptions Ex.deser_err_false.
