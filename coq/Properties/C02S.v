(* C02 / C03 / C19 (acceptance => the static side conditions of the "way 1" theorems).
     The theorems of Properties/C02R.v, C03R.v and C19R.v about the emitted `serialize`, `deserialize` and `__init__` carry decidable
   side conditions on a class body (`static_ok`, `static_ok_d`, `init_static_ok`, `shape_static`), and the renderers must not
   answer `None`.  They are CONSEQUENCES of the generator accepting the specification (Model/Elab.v mirrors its checks), for every
   class of a specification that satisfies eight decidable conditions on the elaborated class bodies (Proofs/ElabStatic.v):
     names (no identifier of the specification collides with a name the generated code uses itself)
       sdata_fresh          the `<field>_data` attributes of the switches of a class are distinct from each other and from every
                            name the class declares;
       init_names_clean     no constructor parameter is called self, len or tuple;
       deser_names_clean    nothing is called reader_start_position / old_chunked_reading_mode; no constructor argument is called
                            byte_size; nothing assigned up to the last `for i in range(..)` array is called i; nothing assigned before
                            an array xs counted by reader.remaining is called xs_length;
       len_names_clean      no length field is called byte_size, is switched on, or is called like a `<field>_data` attribute;
     forms (accepted by the generator, but the emitted text is not Python or not what the theorems describe)
       unnamed_lens_literal no unnamed (hardcoded) field takes its length from a length field;
       defaults_last        a `default` case is the last case of its switch;
       nonempty             the class has at least one instruction;
       opt_lens_referenced  an optional length field that follows another optional field is referenced.
   `nondegenerate` is not needed.  Each condition is necessary: C02S_each_hypothesis_needed lists, per condition, an accepted tree
   that violates exactly that one and falsifies a goal (evaluated by the kernel). *)
From EO Require Import Prelude.Py Model.Spec Model.Elab Model.PyStmt Model.PyStmtR Model.RenderSer Model.RenderDeser Model.RenderInit
     Model.RenderCheck Model.RenderCheckD Model.RenderCheckI Proofs.Shaped Proofs.ElabStatic.
Open Scope string_scope.
Open Scope list_scope.

(* what acceptance guarantees about every class body (position-aware, decidable: Proofs/ElabStatic.gen_ok) *)
Theorem C02S_accepted_generated_form : forall fs p d,
  elab fs = Ok p -> In d (pk_env p) -> gen_ok (sd_body d) = true /\ refs_fixed (sd_body d) = true.
Proof. intros fs p d He Hd. exact (conj (elab_gen_ok fs p d He Hd) (elab_refs_fixed fs p d He Hd)). Qed.
Print Assumptions C02S_accepted_generated_form.

(* (1) serialize *)
Theorem C02S_accepted_static_ok : forall fs p d, elab fs = Ok p -> In d (pk_env p) ->
  unnamed_lens_literal (sd_body d) = true -> static_ok (sd_body d) = true.
Proof. exact elab_static_ok. Qed.
Print Assumptions C02S_accepted_static_ok.
Theorem C02S_accepted_render_serialize : forall fs p d, elab fs = Ok p -> In d (pk_env p) ->
  defaults_last (sd_body d) = true -> nonempty (sd_body d) = true -> render_serialize (sd_body d) <> None.
Proof. exact elab_render_serialize. Qed.
Print Assumptions C02S_accepted_render_serialize.

(* (2) deserialize *)
Theorem C03S_accepted_static_ok_d : forall fs p d, elab fs = Ok p -> In d (pk_env p) ->
  sdata_fresh (sd_body d) = true -> deser_names_clean (sd_body d) = true -> static_ok_d (sd_body d) = true.
Proof. exact elab_static_ok_d. Qed.
Print Assumptions C03S_accepted_static_ok_d.
Theorem C03S_accepted_render_deserialize : forall fs p d, elab fs = Ok p -> In d (pk_env p) ->
  defaults_last (sd_body d) = true -> render_deserialize (sd_name d) (sd_body d) <> None.
Proof. exact elab_render_deserialize. Qed.
Print Assumptions C03S_accepted_render_deserialize.

(* (3) __init__ *)
Theorem C19S_accepted_init_static_ok : forall fs p d, elab fs = Ok p -> In d (pk_env p) ->
  sdata_fresh (sd_body d) = true -> init_names_clean (sd_body d) = true -> init_static_ok (sd_body d) = true.
Proof. exact elab_init_static_ok. Qed.
Print Assumptions C19S_accepted_init_static_ok.
Theorem C19S_accepted_render_init : forall fs p d, elab fs = Ok p -> In d (pk_env p) ->
  sdata_fresh (sd_body d) = true -> init_names_clean (sd_body d) = true -> render_init (sd_body d) <> None.
Proof. exact elab_render_init. Qed.
Print Assumptions C19S_accepted_render_init.

(* (4) the slot condition *)
Theorem C02S_accepted_shape_static : forall fs p, elab fs = Ok p ->
  all_classes len_names_clean p = true -> all_classes opt_lens_referenced p = true -> shape_static (pk_env p) = true.
Proof. exact elab_shape_static. Qed.
Print Assumptions C02S_accepted_shape_static.

(* all of it under the two package-level conditions *)
Theorem C02S_accepted_static : forall fs p, elab fs = Ok p -> names_clean p = true -> forms_clean p = true ->
  shape_static (pk_env p) = true /\
  forall d, In d (pk_env p) ->
    (static_ok (sd_body d) = true /\ render_serialize (sd_body d) <> None) /\
    (static_ok_d (sd_body d) = true /\ render_deserialize (sd_name d) (sd_body d) <> None) /\
    (init_static_ok (sd_body d) = true /\ render_init (sd_body d) <> None).
Proof. exact elab_static. Qed.
Print Assumptions C02S_accepted_static.

(* ... and the conditions cannot be weakened as a whole: per class of an accepted specification, the seven statements hold together
   exactly when the eight conditions do *)
Theorem C02S_accepted_static_iff : forall fs p d, elab fs = Ok p -> In d (pk_env p) ->
  ((static_ok (sd_body d) = true /\ render_serialize (sd_body d) <> None) /\
   (static_ok_d (sd_body d) = true /\ render_deserialize (sd_name d) (sd_body d) <> None) /\
   (init_static_ok (sd_body d) = true /\ render_init (sd_body d) <> None) /\
   body_static (sd_body d) = true)
  <-> (body_names_clean (sd_body d) = true /\ body_forms_clean (sd_body d) = true).
Proof. exact elab_goals_iff_hyps. Qed.
Print Assumptions C02S_accepted_static_iff.

(* without hypotheses every one of the seven statements is false on some accepted tree *)
Theorem C02S_goals_refuted_without_hypotheses :
  (exists fs p d, elab fs = Ok p /\ In d (pk_env p) /\ static_ok (sd_body d) = false) /\
  (exists fs p d, elab fs = Ok p /\ In d (pk_env p) /\ render_serialize (sd_body d) = None) /\
  (exists fs p d, elab fs = Ok p /\ In d (pk_env p) /\ static_ok_d (sd_body d) = false) /\
  (exists fs p d, elab fs = Ok p /\ In d (pk_env p) /\ render_deserialize (sd_name d) (sd_body d) = None) /\
  (exists fs p d, elab fs = Ok p /\ In d (pk_env p) /\ init_static_ok (sd_body d) = false) /\
  (exists fs p d, elab fs = Ok p /\ In d (pk_env p) /\ render_init (sd_body d) = None) /\
  (exists fs p, elab fs = Ok p /\ shape_static (pk_env p) = false).
Proof. exact static_goals_refuted. Qed.
Print Assumptions C02S_goals_refuted_without_hypotheses.

(* each hypothesis is necessary: (hypotheses, goals) of class A of an accepted tree; exactly one hypothesis is false in each
   (order: unnamed_lens_literal, defaults_last, nonempty, opt_lens_referenced; sdata_fresh, init_names_clean, deser_names_clean,
   len_names_clean / static_ok, render_serialize; static_ok_d, render_deserialize; init_static_ok, render_init; body_static) *)
Theorem C02S_each_hypothesis_needed :
  let T := true in let F := false in
  WitnessS.report (WitnessS.one [WitnessS.len "n"; RField None (Some "string") (Some "n") None None (Some "ab")])
    = Some ([F;T;T;T; T;T;T;T], [F;T; T;T; T;T; T]) /\
  WitnessS.report (WitnessS.one [WitnessS.fld "x" "char"; WitnessS.sw "x" [WitnessS.cs "1"; RCase None (Some "true") []; WitnessS.cs "2"]])
    = Some ([T;F;T;T; T;T;T;T], [T;F; T;F; T;T; T]) /\
  WitnessS.report (WitnessS.one []) = Some ([T;T;F;T; T;T;T;T], [T;F; T;T; T;T; T]) /\
  WitnessS.report (WitnessS.one [RField (Some "a") (Some "char") None None (Some "true") None; RLength (Some "n") (Some "char") None (Some "true")])
    = Some ([T;T;T;F; T;T;T;T], [T;T; T;T; T;T; F]) /\
  WitnessS.report (WitnessS.one [WitnessS.fld "x" "char"; WitnessS.sw "x" [WitnessS.cs "1"]; WitnessS.sw "x" [WitnessS.cs "2"]])
    = Some ([T;T;T;T; F;T;T;T], [T;T; F;T; F;F; T]) /\
  WitnessS.report (WitnessS.one [WitnessS.fld "self" "char"]) = Some ([T;T;T;T; T;F;T;T], [T;T; T;T; T;F; T]) /\
  WitnessS.report (WitnessS.one [WitnessS.fld "i" "char"; WitnessS.arr "xs" "char" (Some "2")]) = Some ([T;T;T;T; T;T;F;T], [T;T; F;T; T;T; T]) /\
  WitnessS.report (WitnessS.one [WitnessS.len "n"; WitnessS.sw "n" [WitnessS.cs "1"]]) = Some ([T;T;T;T; T;T;T;F], [T;T; T;T; T;T; F]).
Proof.
  exact (conj WitnessS.unnamed_lens_literal_needed (conj WitnessS.defaults_last_needed (conj WitnessS.nonempty_needed
        (conj WitnessS.opt_lens_referenced_needed (conj WitnessS.sdata_fresh_needed_two_switches (conj WitnessS.init_names_clean_needed_self
        (conj WitnessS.deser_names_clean_needed_loop_var WitnessS.len_names_clean_needed_switch))))))).
Qed.
Print Assumptions C02S_each_hypothesis_needed.
