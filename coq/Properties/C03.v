(* C03 - generated deserializers: for every byte string and every accepted spec, deserialize (a) never leaves the
   supplied data, (b) fails only with the documented ValueError (hostile data decoding to a negative fixed-string
   length), (c) reads missing data as zero / empty, treats an optional field as absent exactly when no data
   remains, and preserves unknown enum ordinals. *)
From EO Require Import Prelude.Py Model.Number Model.Reader Model.Spec Model.Ser Model.Deser Model.WfEnv Proofs.Reader Proofs.DeserSafe.
Open Scope Z_scope.
Set Default Timeout 60.

(* reader invariant on R: position within the data, chunk start behind the position, cache empty or valid *)
Definition rinv (r : rstate) : Prop :=
  0 <= rcstart r <= rpos r /\ rpos r <= zlen (rdata r) /\
  (rbrk r = find_break (rdata r) (rcstart r) \/ (rbrk r = -1 /\ rchunked r = false)).

(* the vocabulary above is the one Proofs/DeserSafe.v is stated in *)
Local Lemma vocabulary : rinv = r_inv.
Proof. reflexivity. Qed.

Theorem C03_rinv_init : forall d (b : bool), rinv (if b then r_set_chunked (initR d) true else initR d).
Proof. exact r_inv_init_mode. Qed.

(* (a) every reader state a deserializer reaches satisfies the invariant and is over the same data
   (whatever the outcome - also when it raises) *)
Theorem C03_in_bounds : forall fuel E cls r, rinv r ->
  rinv (fst (deser_struct fuel E cls r)) /\ rdata (fst (deser_struct fuel E cls r)) = rdata r.
Proof. intros fuel E cls r H. exact (keeps_deser_struct E fuel cls r H). Qed.

(* every primitive read returns a slice of the data at the position, bounded by remaining *)
Theorem C03_reads_are_slices : forall r n, rinv r -> 0 <= n ->
  let '(r', bs) := r_read_bytes r n in
  bs = slice (rdata r) (rpos r) (rpos r') /\ rpos r <= rpos r' <= zlen (rdata r) /\
  rpos r' - rpos r = Z.min n (r_remaining r) /\ rinv r'.
Proof. exact read_bytes_let. Qed.

(* ... and remaining never reaches past the current chunk / the data *)
Theorem C03_remaining_bounded : forall r, rinv r -> 0 <= r_remaining r /\ rpos r + r_remaining r <= zlen (rdata r).
Proof. exact rem_bounds. Qed.

(* (b) on a well-formed class the only errors are ValueError (negative fixed-string length) or fuel exhaustion
   (non-terminating loop) *)
Theorem C03_only_value_error : forall fuel E cls r e,
  wf_class fuel E cls (rchunked r) = true ->
  snd (deser_struct fuel E cls r) = Err e -> e = EValue \/ e = EFuel.
Proof. intros fuel E cls r e. exact (err_deser_struct E fuel cls r e). Qed.

Theorem C03_wf_mono : forall fuel E cls, wf_class fuel E cls false = true -> wf_class fuel E cls true = true.
Proof. intros fuel E. exact (wf_class_mono E fuel). Qed.

(* the documented ValueError does happen: a negative length raises and leaves the reader untouched *)
Theorem C03_negative_length : forall rec enc n p r, n < 0 -> deser_value rec (EStr enc) (Some n) p 0 r = (r, Err EValue).
Proof. exact negative_length_value_error. Qed.

(* Cls.deserialize restores the chunked-reading mode it was entered in, whatever the outcome *)
Theorem C03_mode_restored : forall fuel E cls r, rchunked (fst (deser_struct fuel E cls r)) = rchunked r.
Proof. intros fuel E. exact (mode_deser_struct E fuel). Qed.

(* (c) reading rules *)
Theorem C03_optional_iff : forall rec start f locals r, f_optional f = true ->
  f_name f = Some (match f_name f with Some n => n | None => EmptyString end) ->
  forall n, f_name f = Some n ->
  (r_remaining r > 0 -> False) ->
  (exists e, len_expr f locals = Err e) \/ deser_instr rec start (EField f) locals r = (r, Ok (locals ++ [(n, VNone)])).
Proof. intros rec start f locals r O _. exact (optional_as_stated rec start f locals r O). Qed.

(* the same, stated directly, with the converse: when data remains the read is performed *)
Theorem C03_optional_absent : forall rec start f locals r n len,
  f_optional f = true -> f_name f = Some n -> len_expr f locals = Ok len -> (r_remaining r > 0 -> False) ->
  deser_instr rec start (EField f) locals r = (r, Ok (locals ++ [(n, VNone)])).
Proof. exact optional_absent. Qed.

(* stronger: the guard is tested before the length expression is evaluated, so nothing is assumed about len_expr *)
Theorem C03_optional_absent_strong : forall rec start f locals r n,
  f_optional f = true -> f_name f = Some n -> (r_remaining r > 0 -> False) ->
  deser_instr rec start (EField f) locals r = (r, Ok (locals ++ [(n, VNone)])).
Proof. exact optional_absent_strong. Qed.

Theorem C03_optional_present : forall rec start f locals r n len,
  f_optional f = true -> f_name f = Some n -> len_expr f locals = Ok len -> r_remaining r > 0 ->
  deser_instr rec start (EField f) locals r =
    (fst (deser_value rec (f_ty f) len (f_padded f) 0 r),
     match snd (deser_value rec (f_ty f) len (f_padded f) 0 r) with Ok x => Ok (locals ++ [(n, x)]) | Err e => Err e end).
Proof. exact optional_present. Qed.

Theorem C03_enum_preserved : forall rec name t r, exists r',
  deser_value rec (EEnum name t) None false 0 r = (r', Ok (VInt (snd (r_get_int_of t r)))).
Proof. intros rec name t r. eexists. apply enum_preserved. Qed.

Theorem C03_exhausted_reads : forall rec r, r_remaining r = 0 ->
  (forall t, deser_value rec (EInt t) None false 0 r = (r, Ok (VInt 0)) \/
             exists r', deser_value rec (EInt t) None false 0 r = (r', Ok (VInt 0)) /\ rpos r' = rpos r) /\
  (forall enc, exists r', deser_value rec (EStr enc) None false 0 r = (r', Ok (VStr [])) /\ rpos r' = rpos r) /\
  (exists r', deser_value rec EBlob None false 0 r = (r', Ok (VBytes [])) /\ rpos r' = rpos r).
Proof.
  intros rec r R. split; [intros t; right; apply (exhausted_int rec t r R)|].
  split; [intros enc; apply (exhausted_str rec enc r R) | apply (exhausted_blob rec r R)].
Qed.

(* also: booleans read as False, fixed strings of any non-negative length as "" *)
Theorem C03_exhausted_reads_more : forall rec r, r_remaining r = 0 ->
  (forall t, exists r', deser_value rec (EBool t) None false 0 r = (r', Ok (VBool false)) /\ rpos r' = rpos r) /\
  (forall enc n p, 0 <= n -> exists r', deser_value rec (EStr enc) (Some n) p 0 r = (r', Ok (VStr [])) /\ rpos r' = rpos r).
Proof.
  intros rec r R. split; [intros t; apply (exhausted_bool rec t r R) | intros enc n p Hn; apply (exhausted_fixed_str rec enc n p r R Hn)].
Qed.

(* the whole entry point: any bytes, any mode *)
Theorem C03_deserialize : forall E cls data chunked,
  let r := fst (deserialize E cls data chunked) in
  rinv r /\ rdata r = data /\ 0 <= rpos r <= zlen data /\ rchunked r = chunked /\
  (wf_class (S (List.length E)) E cls chunked = true ->
   forall e, snd (deserialize E cls data chunked) = Err e -> e = EValue \/ e = EFuel).
Proof.
  intros E cls data chunked. unfold deserialize. cbv zeta.
  set (r0 := if chunked then r_set_chunked (initR data) true else initR data).
  assert (H0 : rinv r0) by apply C03_rinv_init.
  assert (D0 : rdata r0 = data) by (unfold r0; destruct chunked; reflexivity).
  assert (M0 : rchunked r0 = chunked) by (unfold r0; destruct chunked; reflexivity).
  destruct (C03_in_bounds (S (List.length E)) E cls r0 H0) as [H1 D1].
  split; [exact H1|]. split; [congruence|]. split; [destruct H1 as [A [B _]]; rewrite D1, D0 in B; lia|].
  split; [rewrite C03_mode_restored; exact M0|].
  intros W e. apply C03_only_value_error. rewrite M0. exact W.
Qed.

(* ---------------- a concrete class ---------------- *)
Open Scope string_scope. Open Scope Z_scope.
Definition fld (n : string) (ty : etype) (len : elen) (opt : bool) : fieldspec := mkField (Some n) ty len false opt true None 251.
Definition Inner : sdef := mkSDef "Inner" [EField (fld "a" (EInt TChar) LNone false); EField (fld "b" (EInt TShort) LNone false)].
(* chunked: a length-prefixed string (char length field, offset -1), break, an array of nested structs with implied
   length (remaining / 3), break, an optional tail *)
Definition Outer : sdef := mkSDef "Outer"
  [ESetMode true;
   ELength "name_length" TChar (-1) false true (Some "name");
   EField (fld "name" (EStr false) (LRef "name_length") false);
   EBreak;
   EArray (fld "items" (EStruct "Inner") LNone false) false false (ACRemaining 3);
   EBreak;
   EField (fld "tail" (EInt TChar) LNone true);
   ESetMode false].
Definition Env : env := [Inner; Outer].
Definition valid : list Z := [4; 65; 66; 255; 2; 3; 254; 5; 6; 254; 255; 8].
Definition run (data : list Z) : res value * Z * bool :=
  let '(r, v) := deserialize Env "Outer" data false in (v, rpos r, rchunked r).
Definition inner (a b : Z) : value := VObj "Inner" [("a", VInt a); ("b", VInt b); ("byte_size", VInt 3)].

Example C03_ex_wf : wf_class 3 Env "Outer" false = true /\ wf_class 3 Env "Outer" true = true.
Proof. vm_compute. split; reflexivity. Qed.

Example C03_ex_valid :
  run valid = (Ok (VObj "Outer" [("name", VStr [65; 66]); ("items", VList [inner 1 2; inner 4 5]); ("tail", VInt 7);
                                 ("byte_size", VInt 12)]), 12, false).
Proof. vm_compute. reflexivity. Qed.

(* every truncation: never anything but Ok / ValueError, position inside the truncated data, mode restored *)
Definition trunc_ok (k : nat) : bool :=
  let '(v, p, m) := run (firstn k valid) in
  (0 <=? p) && (p <=? Z.of_nat k) && negb m && match v with Ok _ => true | Err EValue => true | Err _ => false end.
Example C03_ex_truncations : forallb trunc_ok (seq 0 13) = true.
Proof. vm_compute. reflexivity. Qed.

(* the optional tail is None exactly when its byte is missing; a partial struct reads its missing field as 0 *)
Example C03_ex_trunc_11 :
  run (firstn 11 valid) = (Ok (VObj "Outer" [("name", VStr [65; 66]); ("items", VList [inner 1 2; inner 4 5]); ("tail", VNone);
                                             ("byte_size", VInt 11)]), 11, false).
Proof. vm_compute. reflexivity. Qed.
Example C03_ex_trunc_9 :
  run (firstn 9 valid) = (Ok (VObj "Outer" [("name", VStr [65; 66]); ("items", VList [inner 1 2]); ("tail", VNone);
                                            ("byte_size", VInt 9)]), 9, false).
Proof. vm_compute. reflexivity. Qed.
Example C03_ex_trunc_2 :
  run (firstn 2 valid) = (Ok (VObj "Outer" [("name", VStr [65]); ("items", VList []); ("tail", VNone); ("byte_size", VInt 2)]), 2, false).
Proof. vm_compute. reflexivity. Qed.
(* with the negative offset even EMPTY data decodes to length 0 + (-1) < 0: the documented ValueError *)
Example C03_ex_trunc_0 : run [] = (Err EValue, 0, false).
Proof. vm_compute. reflexivity. Qed.

(* hostile data: length byte 0x00 decodes to -1, plus the offset -1 = -2: ValueError, reader just past the length byte *)
Example C03_ex_hostile : run (0 :: tl valid) = (Err EValue, 1, false).
Proof. vm_compute. reflexivity. Qed.
Example C03_ex_hostile_any_tail : forallb (fun k => match run (0 :: firstn k (tl valid)) with (Err EValue, 1, false) => true | _ => false end) (seq 0 12) = true.
Proof. vm_compute. reflexivity. Qed.

Print Assumptions C03_rinv_init.
Print Assumptions C03_in_bounds.
Print Assumptions C03_reads_are_slices.
Print Assumptions C03_remaining_bounded.
Print Assumptions C03_only_value_error.
Print Assumptions C03_wf_mono.
Print Assumptions C03_negative_length.
Print Assumptions C03_mode_restored.
Print Assumptions C03_optional_iff.
Print Assumptions C03_optional_absent.
Print Assumptions C03_optional_absent_strong.
Print Assumptions C03_optional_present.
Print Assumptions C03_enum_preserved.
Print Assumptions C03_exhausted_reads.
Print Assumptions C03_exhausted_reads_more.
Print Assumptions C03_deserialize.
Print Assumptions C03_ex_truncations.
