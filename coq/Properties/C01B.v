(* C01, stage B - serialize/deserialize round trip for specifications WITH chunked sections, breaks and delimited arrays.
   Side conditions: Model/WireOkB.v (wire_okB, valid_objB); proofs: Proofs/RoundTripB.v.
   Stage A (Properties/C01.v) is included: C01_stageA_included / C01_stageA_included_obj. *)
From EO Require Import Prelude.Py Prelude.Corr Model.Writer Model.Reader Model.Spec Model.Ser Model.Deser Model.Enc
  Model.ValidDecl Model.WireOk Model.WireOkB Model.GenHarness.
From EO Require Import Proofs.RoundTrip Proofs.RoundTripB.
Open Scope Z_scope.
Set Default Timeout 60.

(* valid_objB's two boolean arguments: a top-level class is entered in non-chunked mode (false) by a fresh reader,
   which has not read any 0xFF byte yet (true) *)
Theorem C01_roundtrip : forall E cls v w,
  wire_okB E cls = true -> valid_objB (S (List.length E)) E cls false true v = true ->
  serialize E cls v false = (w, Ok tt) ->
  exists r v', deserialize E cls (wdata w) false = (r, Ok v') /\ strip_bs v' = v /\ rpos r = zlen (wdata w) /\
               top_byte_size v' = Some (zlen (wdata w)).
Proof. exact roundtrip_chunked. Qed.

Theorem C01_valid_serializesB : forall E cls v,
  wire_okB E cls = true -> valid_objB (S (List.length E)) E cls false true v = true -> exists w, serialize E cls v false = (w, Ok tt).
Proof. exact valid_serializesB. Qed.

Corollary C01_round_okB : forall E cls v,
  wire_okB E cls = true -> valid_objB (S (List.length E)) E cls false true v = true -> round_ok E cls v = true.
Proof. exact round_ok_holdsB. Qed.

Theorem C01_stageA_included : forall E cls, wire_ok E cls = true -> wire_okB E cls = true.
Proof. intros E cls W. apply (wire_class_included E _ cls true W). Qed.

Theorem C01_stageA_included_obj : forall E cls v,
  wire_ok E cls = true -> valid_obj (S (List.length E)) E cls v = true -> valid_objB (S (List.length E)) E cls false true v = true.
Proof. intros E cls v W V. apply (valid_obj_included E _ cls true true v W V). Qed.

(* the general statement: any class, entered in either mode by a reader anywhere inside its data, followed by K *)
Theorem C01_roundtrip_framedB : forall E fuel cls em cl K v out r d p post,
  wire_classB fuel E cls em K = true -> valid_objB fuel E cls em cl v = true -> enc_struct fuel E cls v em = Some out ->
  post_ok K post -> rv em cl r d p -> frame d p out post ->
  exists r' v', deser_struct fuel E cls r = (r', Ok v') /\ strip_bs v' = v /\ rv em em r' d (p + zlen out) /\
                top_byte_size v' = Some (zlen out).
Proof. exact rt_structB. Qed.

(* the same with the top-level abbreviations wire_okB / valid_okB *)
Corollary C01_roundtrip_top : forall E cls v w,
  wire_okB E cls = true -> valid_okB E cls v = true -> serialize E cls v false = (w, Ok tt) ->
  exists r v', deserialize E cls (wdata w) false = (r, Ok v') /\ strip_bs v' = v /\ rpos r = zlen (wdata w) /\
               top_byte_size v' = Some (zlen (wdata w)).
Proof. exact roundtrip_chunked. Qed.

Print Assumptions C01_roundtrip.
Print Assumptions C01_valid_serializesB.
Print Assumptions C01_round_okB.
Print Assumptions C01_stageA_included.
Print Assumptions C01_stageA_included_obj.
Print Assumptions C01_roundtrip_framedB.

(* ====================================================================================================== *)
(* examples                                                                                                *)
(* ====================================================================================================== *)
Open Scope string_scope.
Definition fld n ty len := mkField (Some n) ty len false false true None 0.
Definition ofld n ty len first := mkField (Some n) ty len false true first None 0.
Definition pfld n len := mkField (Some n) (EStr false) (LLit len) true false true None 0.
Definition accepts (E : env) (cls : string) (v : value) : bool := wire_okB E cls && valid_okB E cls v.
(* refused by the side conditions, and indeed no round trip in the model *)
Definition witness (E : env) (cls : string) (v : value) : bool := negb (accepts E cls v) && negb (round_ok E cls v).

(* a chunked packet: char; <chunked> string; break; encoded string; break; delimited (trailing) array of structs that
   themselves contain a break; break; optional char </chunked> *)
Definition Ent := mkSDef "Ent" [EField (fld "lvl" (EInt TChar) LNone); EField (fld "name" (EStr false) LNone); EBreak;
                                EField (fld "title" (EStr false) LNone)].
Definition Pk := mkSDef "Pk" [EField (fld "code" (EInt TChar) LNone); ESetMode true;
   EField (fld "a" (EStr false) LNone); EBreak; EField (fld "b" (EStr true) LNone); EBreak;
   EArray (fld "ents" (EStruct "Ent") LNone) true true ACWhile; EBreak;
   EField (ofld "tail" (EInt TChar) LNone true); ESetMode false].
Definition EnvP := [Ent; Pk].
Definition ent n l t := VObj "Ent" [("lvl", VInt l); ("name", VStr n); ("title", VStr t)].
Definition pk1 := VObj "Pk" [("code", VInt 7); ("a", VStr [72;105]); ("b", VStr [1;2;3]);
                             ("ents", VList [ent [65] 3 [66;67]; ent [] 0 []]); ("tail", VInt 9)].
Definition pk2 := VObj "Pk" [("code", VInt 7); ("a", VStr []); ("b", VStr []); ("ents", VList []); ("tail", VNone)].
Example ex_pk_wire : wire_okB EnvP "Pk" = true. Proof. vm_compute. reflexivity. Qed.
Example ex_pk1 : valid_objB 3 EnvP "Pk" false true pk1 = true /\ round_ok EnvP "Pk" pk1 = true. Proof. vm_compute. split; reflexivity. Qed.
Example ex_pk2 : valid_objB 3 EnvP "Pk" false true pk2 = true /\ round_ok EnvP "Pk" pk2 = true. Proof. vm_compute. split; reflexivity. Qed.
Example ex_pk1_bytes : run_ser EnvP "Pk" pk1 false =
  (Ok tt, [8; 72;105; 255; 3;2;1; 255; 4;65;255;66;67;255; 1;255;255; 255; 10], false).
Proof. vm_compute. reflexivity. Qed.
Example ex_pk2_bytes : run_ser EnvP "Pk" pk2 false = (Ok tt, [8; 255; 255; 255], false).
Proof. vm_compute. reflexivity. Qed.
Example ex_pk_by_theorem : round_ok EnvP "Pk" pk1 = true.
Proof. apply C01_round_okB; vm_compute; reflexivity. Qed.

(* lengths, separating delimiters, implied-length array of fixed-size structs before a break, switch whose case data
   run in the chunked mode of the switch, a case-data class with its own chunked section entered non-chunked *)
Definition Item := mkSDef "Item" [EField (fld "id" (EInt TShort) LNone); EField (fld "amount" (EInt TChar) LNone)].
Definition Nm := mkSDef "Nm" [EField (fld "s" (EStr false) LNone)].
Definition CaseA := mkSDef "W.KDataA" [EField (fld "note" (EStr false) LNone); EBreak; EField (fld "n" (EInt TThree) LNone)].
Definition CaseB := mkSDef "W.KDataB" [ESetMode true; EField (fld "x" (EStr false) LNone); EBreak; EField (fld "y" (EStr false) LNone); ESetMode false].
Definition W1 := mkSDef "W1" [ESetMode true; ELength "cnt" TChar 0 false true (Some "names");
   EArray (mkField (Some "names") (EStruct "Nm") (LRef "cnt") false false true None 252) true false ACExpr; EBreak;
   EArray (fld "items" (EStruct "Item") LNone) false false (ACRemaining 3); EBreak;
   EField (fld "k" (EInt TChar) LNone); ESwitch "k" [mkCase (CKValue 1) (Some "W.KDataA")]; EBreak;
   EArray (fld "rest" (EStr false) LNone) true false ACWhile; ESetMode false].
Definition W2 := mkSDef "W2" [EField (fld "k" (EInt TShort) LNone); ESwitch "k" [mkCase (CKValue 2) (Some "W.KDataB")]].
Definition EnvW := [Item; Nm; CaseA; CaseB; W1; W2].
Definition item a b := VObj "Item" [("id", VInt a); ("amount", VInt b)].
Definition nm s := VObj "Nm" [("s", VStr s)].
Definition w1 := VObj "W1" [("names", VList [nm [97]; nm []; nm [98;99]]); ("items", VList [item 1 2; item 300 4]); ("k", VInt 1);
                            ("k_data", VObj "W.KDataA" [("note", VStr [110]); ("n", VInt 70000)]); ("rest", VList [VStr [120]; VStr [121;122]])].
Definition w2 := VObj "W2" [("k", VInt 2); ("k_data", VObj "W.KDataB" [("x", VStr [1]); ("y", VStr [])])].
Example ex_w1 : accepts EnvW "W1" w1 = true /\ round_ok EnvW "W1" w1 = true. Proof. vm_compute. split; reflexivity. Qed.
Example ex_w2 : accepts EnvW "W2" w2 = true /\ round_ok EnvW "W2" w2 = true. Proof. vm_compute. split; reflexivity. Qed.
Example ex_w1_bytes : fst (fst (run_ser EnvW "W1" w1 false)) = Ok tt /\
  snd (fst (run_ser EnvW "W1" w1 false)) = [4; 97;255;255;98;99; 255; 2;254;3; 48;2;5; 255; 2; 110;255; 173;24;2; 255; 120;255;121;122].
Proof. vm_compute. split; reflexivity. Qed.

(* the shape of the real Init reply: a BYTE-typed reply code, then a switch one of whose cases is a chunked section
   holding a struct with its own chunked section and a delimited array of chunked structs (mini-eo: InitInitServerPacket) *)
Definition OnlinePlayer := mkSDef "OnlinePlayer" [ESetMode true; EField (fld "name" (EStr false) LNone); EBreak; EField (fld "title" (EStr false) LNone); EBreak;
   EField (mkField None (EInt TChar) LNone false false true (Some "0") 0); EField (fld "level" (EInt TChar) LNone);
   EField (pfld "guild_tag" 3); ESetMode false].
Definition PlayersList := mkSDef "PlayersList" [ESetMode true; ELength "players_count" TShort 0 false true (Some "players"); EBreak;
   EArray (mkField (Some "players") (EStruct "OnlinePlayer") (LRef "players_count") false false true None 64008) true true ACExpr; ESetMode false].
Definition CasePL := mkSDef "Init.ReplyCodeDataPlayersList" [ESetMode true; EField (fld "players_list" (EStruct "PlayersList") LNone); ESetMode false].
Definition CaseBan := mkSDef "Init.ReplyCodeDataBanned" [EField (fld "minutes" (EInt TByte) LNone)].
Definition Init := mkSDef "Init" [EField (fld "reply_code" (EEnum "InitReply" TByte) LNone);
   ESwitch "reply_code" [mkCase (CKValue 3) (Some "Init.ReplyCodeDataBanned"); mkCase (CKValue 8) (Some "Init.ReplyCodeDataPlayersList")]].
Definition EnvI := [OnlinePlayer; PlayersList; CasePL; CaseBan; Init].
Definition player n t l g := VObj "OnlinePlayer" [("name", VStr n); ("title", VStr t); ("level", VInt l); ("guild_tag", VStr g)].
Definition init8 := VObj "Init" [("reply_code", VInt 8); ("reply_code_data", VObj "Init.ReplyCodeDataPlayersList"
   [("players_list", VObj "PlayersList" [("players", VList [player [97;98] [] 7 [71;72;73]; player [99] [100] 0 [32;32;32]])])])].
Definition init3 := VObj "Init" [("reply_code", VInt 3); ("reply_code_data", VObj "Init.ReplyCodeDataBanned" [("minutes", VInt 255)])].
Definition init255 := VObj "Init" [("reply_code", VInt 255); ("reply_code_data", VNone)].
Example ex_init : accepts EnvI "Init" init8 = true /\ round_ok EnvI "Init" init8 = true /\
                  accepts EnvI "Init" init3 = true /\ accepts EnvI "Init" init255 = true.
Proof. vm_compute. repeat split; reflexivity. Qed.
Example ex_init_bytes : snd (fst (run_ser EnvI "Init" init8 false)) =
  [8; 3;254; 255; 97;98;255; 255; 1;8;71;72;73; 255; 99;255; 100;255; 1;1;32;32;32; 255].
Proof. vm_compute. reflexivity. Qed.

(* optionals end each break-delimited segment; a break restarts the chain (mini-eo: OptChunked) *)
Definition OptCh := mkSDef "OptCh" [ESetMode true; EField (fld "name" (EStr false) LNone); EBreak;
   EField (ofld "x" (EInt TChar) LNone true); EField (ofld "y" (EInt TChar) LNone false); EBreak;
   EField (ofld "z" (EInt TShort) LNone true); ESetMode false].
Definition optch x y z := VObj "OptCh" [("name", VStr [110]); ("x", x); ("y", y); ("z", z)].
Example ex_optch : accepts [OptCh] "OptCh" (optch (VInt 1) (VInt 2) (VInt 3)) = true /\
                   accepts [OptCh] "OptCh" (optch (VInt 1) VNone (VInt 3)) = true /\
                   accepts [OptCh] "OptCh" (optch VNone VNone (VInt 3)) = true /\
                   accepts [OptCh] "OptCh" (optch VNone VNone VNone) = true /\
                   accepts [OptCh] "OptCh" (optch VNone (VInt 2) VNone) = false.
Proof. vm_compute. repeat split; reflexivity. Qed.

(* stage A examples are accepted as they were *)
From EO Require Properties.C01.
Example ex_stageA : accepts C01.Env "Pkt" C01.obj1 = true /\ accepts C01.EnvB "Book" C01.book = true.
Proof. vm_compute. split; reflexivity. Qed.

(* ====================================================================================================== *)
(* necessity witnesses: refused by wire_okB / valid_objB, and no round trip in the model;                  *)
(* each comes with an accepted sibling that differs only in the excluded feature                          *)
(* ====================================================================================================== *)
(* [B6] a byte of value 0xFF inside a chunked section ends the chunk *)
Definition ByteC := mkSDef "ByteC" [ESetMode true; EField (fld "b" (EInt TByte) LNone); EField (fld "s" (EStr false) LNone); ESetMode false].
Example B6_byte_ff_necessary : witness [ByteC] "ByteC" (VObj "ByteC" [("b", VInt 255); ("s", VStr [97])]) = true.
Proof. vm_compute. reflexivity. Qed.
Example B6_byte_ok : accepts [ByteC] "ByteC" (VObj "ByteC" [("b", VInt 254); ("s", VStr [97])]) = true.
Proof. vm_compute. reflexivity. Qed.

(* [B6] U+00FF in a sanitised string comes back as 'y' *)
Definition StrC := mkSDef "StrC" [ESetMode true; EField (fld "s" (EStr false) LNone); ESetMode false].
Example B6_sanitised_char_necessary : witness [StrC] "StrC" (VObj "StrC" [("s", VStr [120; 255; 122])]) = true.
Proof. vm_compute. reflexivity. Qed.
Example B6_sanitised_what_comes_back :
  fst (fst (run_deser [StrC] "StrC" (snd (fst (run_ser [StrC] "StrC" (VObj "StrC" [("s", VStr [120; 255; 122])]) false))) false))
  = Ok (VObj "StrC" [("s", VStr [120; 121; 122]); ("byte_size", VInt 3)]).
Proof. vm_compute. reflexivity. Qed.

(* [B6] a blob with 0xFF inside a chunked section *)
Definition BlobC := mkSDef "BlobC" [ESetMode true; EField (fld "x" EBlob LNone); EBreak; EField (fld "c" (EInt TChar) LNone); ESetMode false].
Example B6_blob_ff_necessary : witness [BlobC] "BlobC" (VObj "BlobC" [("x", VBytes [1; 255; 2]); ("c", VInt 5)]) = true.
Proof. vm_compute. reflexivity. Qed.
Example B6_blob_ok : accepts [BlobC] "BlobC" (VObj "BlobC" [("x", VBytes [1; 254; 2]); ("c", VInt 5)]) = true.
Proof. vm_compute. reflexivity. Qed.

(* [B6] a padded string with actual padding inside a chunked section: the padding IS the break byte *)
Definition PadC := mkSDef "PadC" [ESetMode true; EField (pfld "s" 4); EField (fld "c" (EInt TChar) LNone); ESetMode false].
Example B6_padded_necessary : witness [PadC] "PadC" (VObj "PadC" [("s", VStr [97; 98]); ("c", VInt 5)]) = true.
Proof. vm_compute. reflexivity. Qed.
Example B6_padded_full_ok : accepts [PadC] "PadC" (VObj "PadC" [("s", VStr [97; 98; 99; 100]); ("c", VInt 5)]) = true.
Proof. vm_compute. reflexivity. Qed.

(* [B6] a length field of type byte carrying 255 inside a chunked section *)
Definition LenC := mkSDef "LenC" [ESetMode true; ELength "n" TByte 0 false true (Some "s");
                                  EField (mkField (Some "s") (EStr false) (LRef "n") false false true None 255); ESetMode false].
Example B6_length_byte_necessary : witness [LenC] "LenC" (VObj "LenC" [("s", VStr (repeat 97 255))]) = true.
Proof. vm_compute. reflexivity. Qed.
Example B6_length_byte_ok : accepts [LenC] "LenC" (VObj "LenC" [("s", VStr (repeat 97 254))]) = true.
Proof. vm_compute. reflexivity. Qed.

(* [B1] 0xFF-capable data read before a chunked section: the reader's chunk start still lies before it,
   so the first break found is that very byte and the section reads as empty *)
Definition Pre := mkSDef "Pre" [EField (fld "b" (EInt TByte) LNone); ESetMode true; EField (fld "s" (EStr false) LNone); ESetMode false].
Example B1_ff_before_section_necessary : witness [Pre] "Pre" (VObj "Pre" [("b", VInt 255); ("s", VStr [104; 105])]) = true.
Proof. vm_compute. reflexivity. Qed.
(* ... while the same declaration with a harmless byte is fine: the condition is on the VALUE *)
Example B1_harmless_byte_ok : accepts [Pre] "Pre" (VObj "Pre" [("b", VInt 254); ("s", VStr [104; 105])]) = true.
Proof. vm_compute. reflexivity. Qed.
Definition PreOk := mkSDef "PreOk" [EField (fld "b" (EInt TThree) LNone); ESetMode true; EField (fld "s" (EStr false) LNone); ESetMode false].
Example B1_clean_before_section_ok : accepts [PreOk] "PreOk" (VObj "PreOk" [("b", VInt 16194276); ("s", VStr [104; 105])]) = true.
Proof. vm_compute. reflexivity. Qed.
(* the same through a string outside the section (unsanitised there) *)
Definition PreS := mkSDef "PreS" [EField (mkField (Some "t") (EStr false) (LLit 2) false false true None 0); ESetMode true;
                                  EField (fld "s" (EStr false) LNone); ESetMode false].
Example B1_string_before_section_necessary : witness [PreS] "PreS" (VObj "PreS" [("t", VStr [255; 65]); ("s", VStr [104])]) = true.
Proof. vm_compute. reflexivity. Qed.

(* [B2] a read-to-the-end item inside a chunked section must be followed by a break (or nothing) *)
Definition Run := mkSDef "Run" [ESetMode true; EField (fld "s" (EStr false) LNone); EField (fld "c" (EInt TChar) LNone); ESetMode false].
Example B2_string_runs_on_necessary : witness [Run] "Run" (VObj "Run" [("s", VStr [97; 98]); ("c", VInt 5)]) = true.
Proof. vm_compute. reflexivity. Qed.
(* ... and data after the section's end does not stop it either: the chunk runs to the next 0xFF or the end *)
Definition After := mkSDef "After" [ESetMode true; EField (fld "s" (EStr false) LNone); ESetMode false; EField (fld "c" (EInt TChar) LNone)].
Example B2_data_after_section_necessary : witness [After] "After" (VObj "After" [("s", VStr [97; 98]); ("c", VInt 5)]) = true.
Proof. vm_compute. reflexivity. Qed.
Definition AfterOk := mkSDef "AfterOk" [ESetMode true; EField (fld "s" (EStr false) LNone); EBreak; ESetMode false; EField (fld "c" (EInt TChar) LNone)].
Example B2_break_then_after_ok : accepts [AfterOk] "AfterOk" (VObj "AfterOk" [("s", VStr [97; 98]); ("c", VInt 5)]) = true.
Proof. vm_compute. reflexivity. Qed.
(* an absent optional inside a chunked section followed by more data after the section *)
Definition OptC := mkSDef "OptC" [ESetMode true; EField (fld "a" (EInt TChar) LNone); EField (ofld "o" (EInt TChar) LNone true); ESetMode false;
                                  EField (ofld "z" (EInt TChar) LNone false)].
Example B2_optional_ok : accepts [OptC] "OptC" (VObj "OptC" [("a", VInt 1); ("o", VInt 2); ("z", VInt 3)]) = true /\
                         accepts [OptC] "OptC" (VObj "OptC" [("a", VInt 1); ("o", VNone); ("z", VNone)]) = true.
Proof. vm_compute. split; reflexivity. Qed.

(* [B3] separating delimiters, no length, followed by a break: the reader calls next_chunk after EVERY element and
   swallows the parent's break *)
Definition Sep := mkSDef "Sep" [ESetMode true; EArray (fld "xs" (EInt TChar) LNone) true false ACWhile; EBreak;
                                EField (fld "y" (EInt TChar) LNone); ESetMode false].
Example B3_separating_unlengthed_necessary : witness [Sep] "Sep" (VObj "Sep" [("xs", VList [VInt 1; VInt 2]); ("y", VInt 3)]) = true.
Proof. vm_compute. reflexivity. Qed.
(* with trailing delimiters the same declaration is fine (e1 FF e2 FF FF y) *)
Definition Trail := mkSDef "Trail" [ESetMode true; EArray (fld "xs" (EInt TChar) LNone) true true ACWhile; EBreak;
                                    EField (fld "y" (EInt TChar) LNone); ESetMode false].
Example B3_trailing_ok : accepts [Trail] "Trail" (VObj "Trail" [("xs", VList [VInt 1; VInt 2]); ("y", VInt 3)]) = true /\
                         accepts [Trail] "Trail" (VObj "Trail" [("xs", VList []); ("y", VInt 3)]) = true.
Proof. vm_compute. split; reflexivity. Qed.
(* ... and separating delimiters are fine at the very end *)
Definition SepEnd := mkSDef "SepEnd" [ESetMode true; EField (fld "y" (EInt TChar) LNone); EBreak;
                                      EArray (fld "xs" (EStr false) LNone) true false ACWhile; ESetMode false].
Example B3_separating_at_end_ok : accepts [SepEnd] "SepEnd" (VObj "SepEnd" [("y", VInt 3); ("xs", VList [VStr [97]; VStr [98; 99]])]) = true.
Proof. vm_compute. reflexivity. Qed.

(* [B4] a break outside chunked mode: the generated deserializer raises *)
Definition BrkN := mkSDef "BrkN" [EField (fld "a" (EInt TChar) LNone); EBreak; EField (fld "b" (EInt TChar) LNone)].
Example B4_break_nonchunked_necessary : witness [BrkN] "BrkN" (VObj "BrkN" [("a", VInt 1); ("b", VInt 2)]) = true.
Proof. vm_compute. reflexivity. Qed.

(* [B5] a struct with its own chunked section, used inside a chunked section, that reads 0xFF-capable data after its section:
   it hands back a reader whose chunk start lies before that byte *)
Definition Inner := mkSDef "Inner" [ESetMode true; EField (fld "a" (EInt TChar) LNone); ESetMode false; EField (fld "b" (EInt TByte) LNone)].
Definition Outer := mkSDef "Outer" [ESetMode true; EField (fld "i" (EStruct "Inner") LNone); EField (fld "t" (EStr false) LNone); ESetMode false].
Example B5_nested_section_necessary :
  witness [Inner; Outer] "Outer" (VObj "Outer" [("i", VObj "Inner" [("a", VInt 1); ("b", VInt 255)]); ("t", VStr [120])]) = true.
Proof. vm_compute. reflexivity. Qed.
Definition InnerOk := mkSDef "Inner" [ESetMode true; EField (fld "a" (EInt TChar) LNone); ESetMode false; EField (fld "b" (EInt TShort) LNone)].
Example B5_nested_section_clean_ok :
  accepts [InnerOk; Outer] "Outer" (VObj "Outer" [("i", VObj "Inner" [("a", VInt 1); ("b", VInt 64008)]); ("t", VStr [120])]) = true.
Proof. vm_compute. reflexivity. Qed.

(* [B7] an empty element in an unlengthed delimited array ends the loop early *)
Definition Names := mkSDef "Names" [ESetMode true; EArray (fld "xs" (EStr false) LNone) true true ACWhile; ESetMode false].
Example B7_empty_element_necessary : witness [Names] "Names" (VObj "Names" [("xs", VList [VStr [97]; VStr []; VStr [98]])]) = true.
Proof. vm_compute. reflexivity. Qed.
Example B7_nonempty_elements_ok : accepts [Names] "Names" (VObj "Names" [("xs", VList [VStr [97]; VStr [99]; VStr [98]])]) = true.
Proof. vm_compute. reflexivity. Qed.
(* with a length the empty element is fine *)
Definition NamesL := mkSDef "NamesL" [ESetMode true; ELength "n" TChar 0 false true (Some "xs");
  EArray (mkField (Some "xs") (EStr false) (LRef "n") false false true None 252) true true ACExpr; ESetMode false].
Example B7_lengthed_ok : accepts [NamesL] "NamesL" (VObj "NamesL" [("xs", VList [VStr [97]; VStr []; VStr [98]])]) = true.
Proof. vm_compute. reflexivity. Qed.

(* [B8] the first optional after a break must restart the chain of optionals (the generator always flags it) *)
Definition OptBad := mkSDef "OptBad" [ESetMode true; EField (ofld "x" (EInt TChar) LNone true); EBreak;
                                      EField (ofld "z" (EInt TChar) LNone false); ESetMode false].
Example B8_optional_after_break_necessary : witness [OptBad] "OptBad" (VObj "OptBad" [("x", VNone); ("z", VInt 5)]) = true.
Proof. vm_compute. reflexivity. Qed.
Definition OptGood := mkSDef "OptGood" [ESetMode true; EField (ofld "x" (EInt TChar) LNone true); EBreak;
                                        EField (ofld "z" (EInt TChar) LNone true); ESetMode false].
Example B8_optional_after_break_ok : accepts [OptGood] "OptGood" (VObj "OptGood" [("x", VNone); ("z", VInt 5)]) = true.
Proof. vm_compute. reflexivity. Qed.
(* an optional in the middle of a segment (a required field follows before the next break) stays refused *)
Definition OptMid := mkSDef "OptMid" [ESetMode true; EField (ofld "x" (EInt TChar) LNone true); EField (fld "c" (EInt TChar) LNone); ESetMode false].
Example B8_optional_not_last_necessary : witness [OptMid] "OptMid" (VObj "OptMid" [("x", VNone); ("c", VInt 5)]) = true.
Proof. vm_compute. reflexivity. Qed.
