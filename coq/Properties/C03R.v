(* C03 (the emitted deserialize methods ARE the reference semantics) - closing the last sampled link for deserializers.
     tools/py2stmt.py parses, generically and fail-closed, the `deserialize` method of every generated class from its SOURCE TEXT into
   the statement language of Model/PyStmtR.v (a ~300-line big-step semantics over the EoReader model R of the Python subset the
   generator emits: the trusted reading of Python here, as Model/PyStmt.v is on the serialize side).  Model/RenderDeser.v is the
   generator's deserialize templates as a Coq function `render_deserialize : string -> list einstr -> option (list dstmt)`, and
   Model/RenderCheckD.v decides (vm_compute, per generated tree, on every run) that the parsed statements of every class equal
   `render_deserialize` of that class's body in `elab tree`.
     The theorems below say what such a clean run means, for ALL reader states (hence all byte strings, both modes) and all
   callees: running the parsed statements is Model/Deser.v - the semantics every C01 / C03 / C15 theorem is about - reader state,
   returned object including byte_size, error kind and `Err EFuel` (did not finish) included.
     Side conditions: `static_ok_d` (decided by the run): no field assigned before the emitted code assigns one of its own variables
   (`i`, `<array>_length`, reader_start_position, old_chunked_reading_mode) carries that name, no public field is named byte_size,
   names are assigned once, a length attribute names an earlier length field and sits on a string field or an array, a switch reads
   an assigned name.  The constructor `Cls(..)` is not part of the method's text: it is Model/RenderDeser.init_model (hypothesis
   of the method-level theorems, discharged at class level by `ctor_of`).
     Where Deser.v and the emitted code differ (inputs outside those side conditions) is recorded in Proofs/RenderDeser.v as
   `..._differs` examples; five of them are reachable in the real generator (fields named i / xs_length / reader_start_position /
   old_chunked_reading_mode / byte_size). *)
From EO Require Import Prelude.Py Model.Reader Model.Spec Model.Elab Model.Deser Model.PyStmt Model.PyStmtR Model.RenderDeser Model.RenderCheck Model.RenderCheckD
     Proofs.RenderDeser.
Open Scope Z_scope.

(* the instruction statements: for every instruction list, locals, reader state and callee *)
Theorem C03_rendered_instrs_are_deser_instrs : forall rec ctor start is ss T L dl r,
  render_deser is = Some ss -> static_ok_from T is = true ->
  inv T L dl -> assoc L D_RSP = Some (VInt start) ->
  forall r' res, deser_instrs rec start is dl r = (r', res) ->
  exists L', dexec_stmts rec ctor ss L r = (r', lift res, L') /\ keep L L' /\
             match res with Ok dl' => inv (tctx_after T is) L' dl' | Err _ => True end.
Proof. intros rec ctor start is. exact (render_deser_correct rec ctor start is). Qed.
Print Assumptions C03_rendered_instrs_are_deser_instrs.

(* one method body: frame variables, try / finally mode restore, construction of the result, byte_size, return *)
Theorem C03_rendered_deserialize_is_deser_body : forall rec ctor d ss r,
  render_deserialize (sd_name d) (sd_body d) = Some ss -> static_ok_d (sd_body d) = true ->
  (forall args, ctor (sd_name d) args = init_model (sd_name d) (sd_body d) args) ->
  exists L', dexec_stmts rec ctor ss [] r = (let '(r', v) := deser_body rec d r in (r', ret v (fun x => x), L')).
Proof. exact render_deserialize_correct. Qed.
Print Assumptions C03_rendered_deserialize_is_deser_body.

(* what a clean harness verdict on one class gives: the statements PARSED FROM THE SOURCE TEXT, called as a function, compute deser_body *)
Theorem C03_checked_class : forall rec ctor enums d parsed_stmts r,
  d_render_class enums d parsed_stmts = [] ->
  (forall args, ctor (sd_name d) args = init_model (sd_name d) (sd_body d) args) ->
  dcall rec ctor parsed_stmts r = deser_body rec d r.
Proof. exact checked_class_correct_d. Qed.
Print Assumptions C03_checked_class.

(* ... and on a whole generated package: every class of the elaborated tree has its parsed program, and nothing else is in it *)
Theorem C03_checked_package : forall files P p,
  elab files = Ok p -> render_detail_d files P = [] -> program_ok_d (pk_env p) (pk_enums p) P.
Proof. exact render_detail_d_program. Qed.
Print Assumptions C03_checked_package.

(* the whole call tree: Cls.deserialize of the parsed program, calling itself for nested structs and case data and the generated
   constructors for the results, is deser_struct - on every reader state, without further side conditions *)
Theorem C03_program_is_deser_struct : forall E enums P,
  program_ok_d E enums P ->
  forall fuel cls r, py_deserialize E P fuel cls r = deser_struct fuel E cls r.
Proof. exact py_deserialize_correct. Qed.
Print Assumptions C03_program_is_deser_struct.

(* ... from bytes: a fresh reader entered in either mode *)
Theorem C03_program_is_deserialize : forall E enums P cls data (chunked : bool),
  program_ok_d E enums P ->
  py_deserialize E P (S (List.length E)) cls (let r := initR data in if chunked then r_set_chunked r true else r)
  = deserialize E cls data chunked.
Proof. exact py_deserialize_bytes. Qed.
Print Assumptions C03_program_is_deserialize.

(* the hypotheses are satisfiable: a concrete two-class program (length field with offset, fixed string, delimited array of structs
   in a chunked section, optional tail) *)
Example C03_program_nonvacuous : program_ok_d d_demo_env [] d_demo_prog.
Proof. exact d_demo_program_ok. Qed.
